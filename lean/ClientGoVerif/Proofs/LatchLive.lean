/-
  C17: all reachable states satisfy the stage-1/2 invariants; enabledness of the steps; the deadlock argument.
-/
import ClientGoVerif.Proofs.LatchWait
namespace CGV.Latch
open CGV

theorem Inv2.eff {cfg : Cfg} {s s' : State} (h1 : Inv1 cfg s) (h2 : Inv2 cfg s) (e : Eff cfg s s') : Inv2 cfg s' :=
  ⟨wok_eff h1 h2.wok e, wake_eff h1 h2 e⟩

theorem Reachable.inv12 {cfg : Cfg} {s : State} (h : Reachable cfg s) : Inv1 cfg s ∧ Inv2 cfg s := by
  induction h with
  | init => exact ⟨Inv1.init cfg, Inv2.init cfg⟩
  | @step s0 s2 a _ hs ih =>
    obtain ⟨s1, h1, e⟩ := step_eff hs
    rcases h1 with rfl | ⟨i, ts, rfl⟩
    · exact ⟨ih.1.eff e, ih.2.eff ih.1 e⟩
    · have e0 := Eff.recycle (cfg := cfg) (s := s0) i ts
      exact ⟨(ih.1.eff e0).eff e, (ih.2.eff ih.1 e0).eff (ih.1.eff e0) e⟩

theorem Reachable.inv2 {cfg : Cfg} {s : State} (h : Reachable cfg s) : Inv2 cfg s := h.inv12.2

/-! ## enabledness -/

theorem acquire_enabled {cfg : Cfg} {s : State} (h1 : Inv1 cfg s) {l : LockId} {lk : Lock}
    (hl : s.locks l = some lk) (hp : lk.phase = .acquiring ∨ lk.phase = .woken) :
    ∃ s', step cfg s (.acquire l) = some s' := by
  have hp' : ¬ (lk.phase ≠ .acquiring ∧ lk.phase ≠ .woken) := by
    rcases hp with h | h <;> simp [h]
  simp only [step, acquireStep, hl, hp', if_false]
  by_cases hst : lk.isStale = true
  · simp [hst]
  · have hst' : lk.isStale = false := by simpa using hst
    have hlt := count_lt_of_acq (h1.phase _ _ hl) hp hst'
    have hlt2 : lk.acquiredCount < lk.requiredSlots.length := by rw [req_len (h1.wf _ _ hl)]; exact hlt
    simp [hst, acquireSlot, hl, hp', List.getElem?_eq_getElem hlt, List.getElem?_eq_getElem hlt2]

theorem unlock_enabled {cfg : Cfg} {s : State} {l : LockId} {lk : Lock}
    (hl : s.locks l = some lk) (hp : lk.phase = .acquired) (c : Nat) :
    ∃ s', step cfg s (.unlock l c) = some s' := by
  simp [step, unlock, hl, hp]

theorem release_enabled {cfg : Cfg} {s : State} (h1 : Inv1 cfg s) (h2 : Inv2 cfg s) {l : LockId} {lk : Lock}
    (hl : s.locks l = some lk) (hp : lk.phase = .releasing) :
    ∃ s', step cfg s (.releaseSlot l) = some s' := by
  have w := h1.wf _ _ hl
  have hpos : 0 < lk.acquiredCount := by
    have := h1.phase _ _ hl; unfold PhaseOK at this; rw [hp] at this; exact this
  have hc : lk.acquiredCount ≠ 0 := by omega
  have hlt : lk.acquiredCount - 1 < lk.keys.length := by have := w.count_le; omega
  have hlt2 : lk.acquiredCount - 1 < lk.requiredSlots.length := by rw [req_len w]; exact hlt
  have hk : lk.keys[lk.acquiredCount - 1]? = some lk.keys[lk.acquiredCount - 1] := List.getElem?_eq_getElem hlt
  have hs : lk.requiredSlots[lk.acquiredCount - 1]? = some lk.requiredSlots[lk.acquiredCount - 1] :=
    List.getElem?_eq_getElem hlt2
  have hsl := slot_of_key w hk hs
  obtain ⟨n, hn, hnh⟩ := h1.holds l lk _ hl ⟨lk.acquiredCount - 1, by omega, hk⟩
  rw [nodeOf, ← hsl] at hn
  simp only [step, releaseSlot, hl, hp, hc, hk, hs, hn, hnh, ne_eq, not_true_eq_false, if_false]
  cases hw : List.find? (awaits s lk.keys[lk.acquiredCount - 1]) (s.slots lk.requiredSlots[lk.acquiredCount - 1]).waiting with
  | none => simp
  | some w' =>
    have hm := List.mem_of_find?_eq_some hw
    obtain ⟨lkw, _, hlw, _⟩ := (h2.wok.mem _ _).mp hm
    simp only [hlw]
    split <;> simp

/-! ## the deadlock argument -/

theorem exists_maximal : ∀ (ks : List Key), ks ≠ [] → ∃ m, m ∈ ks ∧ ∀ x, x ∈ ks → ¬ KLt m x
  | [], h => absurd rfl h
  | [a], _ => ⟨a, by simp, by intro x hx; simp at hx; subst hx; exact KLt_irrefl _⟩
  | a :: b :: rest, _ => by
    obtain ⟨m, hm, hmax⟩ := exists_maximal (b :: rest) (by simp)
    by_cases h : KLt m a
    · refine ⟨a, by simp, ?_⟩
      intro x hx
      rcases List.mem_cons.mp hx with e | hx
      · subst e; exact KLt_irrefl _
      · intro hax; exact hmax x hx (KLt_trans h hax)
    · refine ⟨m, List.mem_cons_of_mem _ hm, ?_⟩
      intro x hx
      rcases List.mem_cons.mp hx with e | hx
      · subst e; exact h
      · exact hmax x hx

/-- keys awaited by blocked locks -/
def awaited (s : State) : List Key :=
  (List.range s.nlocks).filterMap fun l =>
    match s.locks l with
    | some lk => if lk.phase = .waiting then lk.nextKey else none
    | none => none

theorem mem_awaited {cfg : Cfg} {s : State} (h1 : Inv1 cfg s) {k : Key} :
    k ∈ awaited s ↔ ∃ l lk, s.locks l = some lk ∧ lk.phase = .waiting ∧ lk.nextKey = some k := by
  simp only [awaited, List.mem_filterMap, List.mem_range]
  constructor
  · rintro ⟨l, _, h⟩
    cases hl : s.locks l with
    | none => simp [hl] at h
    | some lk =>
      simp only [hl] at h
      split at h
      · next hp => exact ⟨l, lk, hl, hp, h⟩
      · cases h
  · rintro ⟨l, lk, hl, hp, hk⟩
    exact ⟨l, h1.fresh _ _ hl, by simp [hl, hp, hk]⟩

/-- not all unfinished locks are blocked -/
theorem not_all_waiting {cfg : Cfg} {s : State} (h1 : Inv1 cfg s) (h2 : Inv2 cfg s)
    {l0 : LockId} {lk0 : Lock} (hl0 : s.locks l0 = some lk0) (hnd : lk0.phase ≠ .done)
    (hall : ∀ l lk, s.locks l = some lk → lk.phase = .done ∨ lk.phase = .waiting) : False := by
  have hp0 : lk0.phase = .waiting := (hall _ _ hl0).resolve_left hnd
  have hlt0 : lk0.acquiredCount < lk0.keys.length := by
    have := h1.phase _ _ hl0; unfold PhaseOK at this; rw [hp0] at this; exact this.2
  have hne : awaited s ≠ [] := by
    intro e
    have : lk0.keys[lk0.acquiredCount] ∈ awaited s :=
      (mem_awaited h1).mpr ⟨l0, lk0, hl0, hp0, List.getElem?_eq_getElem hlt0⟩
    rw [e] at this; cases this
  obtain ⟨m, hm, hmax⟩ := exists_maximal _ hne
  obtain ⟨l, lk, hl, hp, hk⟩ := (mem_awaited h1).mp hm
  rcases h2.wake l lk m hl hp hk with ⟨n, o, hn, ho⟩ | ⟨w, lkw, hw, hpw, _, _, _⟩
  · obtain ⟨hnm, hnk⟩ := findNode_some hn
    obtain ⟨lko, hlo, j, hj, hjk⟩ := h1.holder _ n o hnm ho
    rw [hnk] at hjk
    have hpo : lko.phase = .waiting := by
      rcases hall _ _ hlo with hd | hw
      · have := h1.phase _ _ hlo; unfold PhaseOK at this; rw [hd] at this; omega
      · exact hw
    have hlto : lko.acquiredCount < lko.keys.length := by
      have := h1.phase _ _ hlo; unfold PhaseOK at this; rw [hpo] at this; exact this.2
    have hin : lko.keys[lko.acquiredCount] ∈ awaited s :=
      (mem_awaited h1).mpr ⟨o, lko, hlo, hpo, List.getElem?_eq_getElem hlto⟩
    apply hmax _ hin
    obtain ⟨hj', hjm⟩ := List.getElem?_eq_some_iff.mp hjk
    rw [← hjm]
    exact List.pairwise_iff_getElem.mp (h1.wf _ _ hlo).sorted j lko.acquiredCount hj' hlto hj
  · rcases hall _ _ hw with hd | hw' <;> simp [hpw] at *

end CGV.Latch
