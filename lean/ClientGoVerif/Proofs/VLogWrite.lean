/-
  C08 helper lemmas, part 2: a write on the mechanism model refines a write on the reference and keeps the invariant.
-/
import ClientGoVerif.Proofs.VLog
namespace CGV.MemBuf
open CGV

theorem n0_vptr {m : VLog} (hi : Inv m) (k : Bytes) :
    ((m.findNode k).getD (VLog.freshNode k)).vptr = topAddr (versionsOf k m.log) := by
  cases h : m.findNode k with
  | some n =>
    have hm := List.mem_of_find?_eq_some h
    have hk : n.key = k := by simpa using List.find?_some h
    simp only [Option.getD_some]
    rw [← hk]; exact hi.vptr n hm
  | none =>
    have hno := (find_none_iff m.nodes k).mp h
    simp [VLog.freshNode, hi.fresh_versions k hno, topAddr]

theorem n0_deleted {m : VLog} (hi : Inv m) (k : Bytes)
    (hd : ((m.findNode k).getD (VLog.freshNode k)).deleted = true) : versionsOf k m.log = [] := by
  apply topAddr_eq_zero
  rw [← n0_vptr hi k]
  cases h : m.findNode k with
  | some n =>
    have hm := List.mem_of_find?_eq_some h
    rw [h] at hd
    exact hi.del n hm hd
  | none => rfl

theorem canModify_eq (stages : List Nat) (a : Nat) : VLog.canModify stages.getLast? a = Spec.canModify stages a := by
  simp only [VLog.canModify, Spec.canModify]
  cases stages.getLast? <;> rfl

theorem cellCount_fresh (k : Bytes) : Spec.cellCount (Spec.fresh k) = 0 := by simp [Spec.cellCount, Spec.fresh]
theorem cellSize_fresh (k : Bytes) : Spec.cellSize (Spec.fresh k) = 0 := by simp [Spec.cellSize, Spec.fresh]

theorem abs_cells_find {m : VLog} (hi : Inv m) (k : Bytes) :
    ((abs m).cells.find? (fun c => c.key = k)).getD (Spec.fresh k) = absNode m.log ((m.findNode k).getD (VLog.freshNode k)) :=
  abs_find_getD hi k

theorem mem_swapAt_key (log : List Entry) (a : Nat) (v : Bytes) (e : Entry) (he : e ∈ VLog.swapAt log a v) :
    ∃ e' ∈ log, e'.key = e.key := by
  induction log with
  | nil => simp [VLog.swapAt] at he
  | cons x tl ih =>
    simp only [VLog.swapAt] at he
    split at he
    · rcases List.mem_cons.mp he with h | h
      · exact ⟨x, by simp, by rw [h]⟩
      · exact ⟨e, by simp [h], rfl⟩
    · rcases List.mem_cons.mp he with h | h
      · exact ⟨x, by simp, by rw [h]⟩
      · obtain ⟨e', he', hk⟩ := ih h
        exact ⟨e', by simp [he'], hk⟩

/-- common shape of the three write branches: node of `k` updated by `f`, log replaced by `log'` -/
theorem write_branch {m : VLog} (hi : Inv m) (k : Bytes) (f : Node → Node) (g : Cell → Cell) (log' : List Entry)
    (len' size' : Int) (d : Bool)
    (hf : ∀ n, (f n).key = n.key)
    (hk : absNode log' (f ((m.findNode k).getD (VLog.freshNode k))) = g (absNode m.log ((m.findNode k).getD (VLog.freshNode k))))
    (hwl : WL log')
    (hother : ∀ k', k' ≠ k → versionsOf k' log' = versionsOf k' m.log)
    (hvk : (f ((m.findNode k).getD (VLog.freshNode k))).vptr = topAddr (versionsOf k log'))
    (hown : ∀ e ∈ log', e.key = k ∨ ∃ n ∈ m.nodes, n.key = e.key)
    (hdel : (f ((m.findNode k).getD (VLog.freshNode k))).deleted = true → (f ((m.findNode k).getD (VLog.freshNode k))).vptr = 0)
    (hst : ∀ c ∈ m.stages, c ≤ log'.length)
    (hlen : len' = m.len - Spec.cellCount (absNode m.log ((m.findNode k).getD (VLog.freshNode k)))
              + Spec.cellCount (g (absNode m.log ((m.findNode k).getD (VLog.freshNode k)))))
    (hsize : size' = m.size - Spec.cellSize (absNode m.log ((m.findNode k).getD (VLog.freshNode k)))
              + Spec.cellSize (g (absNode m.log ((m.findNode k).getD (VLog.freshNode k))))) :
    let m' : VLog := { m with nodes := VLog.upsertNode m.nodes k f, log := log', len := len', size := size', dirty := d }
    abs m' = { abs m with cells := Spec.upsert (abs m).cells k g, clock := log'.length, dirty := d } ∧ Inv m' := by
  intro m'
  have hcells : (VLog.upsertNode m.nodes k f).map (absNode log') = Spec.upsert (m.nodes.map (absNode m.log)) k g := by
    apply map_upsert _ hi.nodup
    · exact fun h => hi.fresh_versions k h
    · exact hk
    · intro n hn
      simp only [absNode]; rw [hother n.key hn]
  have habs : abs m' = { abs m with cells := Spec.upsert (abs m).cells k g, clock := log'.length, dirty := d } := by
    simp only [abs, m', hcells]
  obtain ⟨s1, s2, s3, s4⟩ := upd_struct hi k f log' hf hother hvk hown hdel
  refine ⟨habs, ⟨hwl, s1, s2, s3, ?_, ?_, s4, ?_, hi.stagesSorted⟩⟩
  · rw [habs]
    simp only [Spec.len]
    rw [sum_upsert Spec.cellCount _ k g (abs_nodup hi) (cellCount_fresh k), abs_cells_find hi k]
    have := hi.len
    simp only [Spec.len] at this
    show len' = _
    rw [hlen, this]
  · rw [habs]
    simp only [Spec.size]
    rw [sum_upsert Spec.cellSize _ k g (abs_nodup hi) (cellSize_fresh k), abs_cells_find hi k]
    have := hi.size
    simp only [Spec.size] at this
    show size' = _
    rw [hsize, this]
  · exact hst

theorem valLen_nil (c : Cell) (h : c.versions = []) : c.valLen = 0 := by simp [Cell.valLen, h]

theorem writeCore_none {m : VLog} (hi : Inv m) (k : Bytes) (ops : List Nat) :
    abs (m.writeCore k none ops) = (abs m).writeCore k none ops ∧ Inv (m.writeCore k none ops) := by
  obtain ⟨n0, hn0⟩ : ∃ n0, (m.findNode k).getD (VLog.freshNode k) = n0 := ⟨_, rfl⟩
  have hc := abs_find_getD hi k
  have hv := n0_vptr hi k
  have hdl := n0_deleted hi k
  have hkey := getD_key m k
  rw [hn0] at hc hv hdl hkey
  have hb := write_branch hi k (fun n => { n with flags := Spec.writeFlags n0.flags none ops, deleted := false })
    (fun c => { c with present := true, flags := Spec.writeFlags n0.flags none ops }) m.log
    (if n0.deleted then m.len + 1 else m.len) (if n0.deleted then m.size + (k.length : Int) else m.size)
    (m.dirty || m.stages.isEmpty || KeyFlags.andPersistent (Spec.writeFlags n0.flags none ops) != 0)
    (fun _ => rfl) rfl hi.wl (fun _ _ => rfl) (by rw [hn0]; exact hv)
    (fun e he => Or.inr (hi.owner e he)) (fun h => by cases h) hi.stagesLe
    (by
      rw [hn0]
      cases hd : n0.deleted <;> simp [Spec.cellCount, absNode, hd])
    (by
      rw [hn0]
      cases hd : n0.deleted
      · simp [Spec.cellSize, absNode, hd, Cell.valLen]
      · have := hdl hd
        simp [Spec.cellSize, absNode, hd, Cell.valLen, this, hkey])
  constructor
  · simp only [VLog.writeCore, Spec.writeCore, hn0, hc]
    exact hb.1
  · simp only [VLog.writeCore, hn0]
    exact hb.2

theorem push_branch {m : VLog} (hi : Inv m) (k x : Bytes) (fl : Nat) (d : Bool) :
    let n0 := (m.findNode k).getD (VLog.freshNode k)
    let oldLen : Nat := match versionsOf k m.log with | [] => 0 | (_, v) :: _ => v.length
    let m' : VLog :=
      { m with nodes := VLog.upsertNode m.nodes k (fun n => { n with flags := fl, deleted := false, vptr := m.log.length + 1 }),
               log := { key := k, old := n0.vptr, value := x } :: m.log,
               len := if n0.deleted then m.len + 1 else m.len,
               size := (if n0.deleted then m.size + (k.length : Int) else m.size) + (x.length : Int) - (oldLen : Int),
               dirty := d }
    abs m' = { abs m with
               cells := Spec.upsert (abs m).cells k (fun c => { c with present := true, flags := fl, versions := (m.log.length + 1, x) :: versionsOf k m.log }),
               clock := m.log.length + 1, dirty := d } ∧ Inv m' := by
  intro n0 oldLen m'
  have hv := n0_vptr hi k
  have hdl := n0_deleted hi k
  have hkey := getD_key m k
  have hb := write_branch hi k (fun n => { n with flags := fl, deleted := false, vptr := m.log.length + 1 })
    (fun c => { c with present := true, flags := fl, versions := (m.log.length + 1, x) :: versionsOf k m.log })
    ({ key := k, old := n0.vptr, value := x } :: m.log)
    (if n0.deleted then m.len + 1 else m.len)
    ((if n0.deleted then m.size + (k.length : Int) else m.size) + (x.length : Int) - (oldLen : Int)) d
    (fun _ => rfl)
    (by simp [absNode, versionsOf, hkey])
    (by exact ⟨hv, hi.wl⟩)
    (by intro k' hk'; have hne : ¬ k = k' := fun h => hk' h.symm; simp [versionsOf, hne])
    (by simp [versionsOf, topAddr])
    (by
      intro e he
      rcases List.mem_cons.mp he with h | h
      · left; rw [h]
      · right; exact hi.owner e h)
    (fun h => by cases h) (fun c hc => by have := hi.stagesLe c hc; simp; omega)
    (by
      show _ = m.len - Spec.cellCount (absNode m.log n0) + _
      cases hd : n0.deleted <;> simp [Spec.cellCount, absNode, hd])
    (by
      show _ = m.size - Spec.cellSize (absNode m.log n0) + _
      cases hd : n0.deleted
      · cases hvs : versionsOf k m.log with
        | nil => simp [Spec.cellSize, absNode, hd, Cell.valLen, hkey, hvs, oldLen, n0]; omega
        | cons y ys => obtain ⟨a, o⟩ := y; simp [Spec.cellSize, absNode, hd, Cell.valLen, hkey, hvs, oldLen, n0]; omega
      · have hnil := hdl hd
        simp [Spec.cellSize, absNode, hd, Cell.valLen, hkey, hnil, oldLen, n0]; omega)
  exact hb

theorem swap_branch {m : VLog} (hi : Inv m) (k x : Bytes) (fl : Nat) (d : Bool) (a : Nat) (old : Bytes) (rest : List Version)
    (hvs : versionsOf k m.log = (a, old) :: rest) (hlen : old.length = x.length) :
    let n0 := (m.findNode k).getD (VLog.freshNode k)
    let m' : VLog :=
      { m with nodes := VLog.upsertNode m.nodes k (fun n => { n with flags := fl, deleted := false }),
               log := VLog.swapAt m.log n0.vptr x,
               len := if n0.deleted then m.len + 1 else m.len,
               size := if n0.deleted then m.size + (k.length : Int) else m.size,
               dirty := d }
    abs m' = { abs m with
               cells := Spec.upsert (abs m).cells k (fun c => { c with present := true, flags := fl, versions := (a, x) :: rest }),
               clock := m.log.length, dirty := d } ∧ Inv m' := by
  intro n0 m'
  have hv : n0.vptr = a := by
    have := n0_vptr hi k
    rw [hvs] at this
    exact this
  have hnd : n0.deleted = false := by
    cases hd : n0.deleted
    · rfl
    · have := n0_deleted hi k hd
      rw [hvs] at this; cases this
  have hkey : n0.key = k := getD_key m k
  have hb := write_branch hi k (fun n => { n with flags := fl, deleted := false })
    (fun c => { c with present := true, flags := fl, versions := (a, x) :: rest })
    (VLog.swapAt m.log n0.vptr x)
    (if n0.deleted then m.len + 1 else m.len) (if n0.deleted then m.size + (k.length : Int) else m.size) d
    (fun _ => rfl)
    (by
      have hkey' : ((m.findNode k).getD (VLog.freshNode k)).key = k := hkey
      simp [absNode, hkey', hv, versionsOf_swapAt_same k m.log a old x rest hvs])
    (by rw [hv]; exact WL_swapAt k m.log a old x rest hvs hi.wl)
    (by intro k' hk'; rw [hv]; exact versionsOf_swapAt_other k k' m.log a old x rest hvs hk')
    (by
      show n0.vptr = _
      rw [hv, versionsOf_swapAt_same k m.log a old x rest hvs]; rfl)
    (by
      intro e he
      obtain ⟨e', he', hk⟩ := mem_swapAt_key _ _ _ e he
      right
      obtain ⟨n, hn, hnk⟩ := hi.owner e' he'
      exact ⟨n, hn, hnk.trans hk⟩)
    (fun h => by cases h) (by rw [swapAt_length]; exact hi.stagesLe)
    (by
      show _ = m.len - Spec.cellCount (absNode m.log n0) + _
      simp [Spec.cellCount, absNode, hnd])
    (by
      show _ = m.size - Spec.cellSize (absNode m.log n0) + _
      have hkey' : ((m.findNode k).getD (VLog.freshNode k)).key = k := hkey
      simp [Spec.cellSize, absNode, hnd, Cell.valLen, hkey, hvs, hlen, hkey'])
  refine ⟨?_, hb.2⟩
  have := hb.1
  rw [swapAt_length] at this
  exact this

theorem writeCore_some {m : VLog} (hi : Inv m) (k x : Bytes) (ops : List Nat) :
    abs (m.writeCore k (some x) ops) = (abs m).writeCore k (some x) ops ∧ Inv (m.writeCore k (some x) ops) := by
  have hc := abs_find_getD hi k
  have hv := n0_vptr hi k
  have hkey := getD_key m k
  cases hvs : versionsOf k m.log with
  | nil =>
    rw [hvs] at hv
    have hv0 : ((m.findNode k).getD (VLog.freshNode k)).vptr = 0 := hv
    have hpb := push_branch hi k x (Spec.writeFlags ((m.findNode k).getD (VLog.freshNode k)).flags (some x) ops)
      (m.dirty || m.stages.isEmpty || KeyFlags.andPersistent (Spec.writeFlags ((m.findNode k).getD (VLog.freshNode k)).flags (some x) ops) != 0)
    simp only [hvs, hv0] at hpb
    constructor
    · simp only [VLog.writeCore, Spec.writeCore, hc, hv0]
      simp only [absNode, hkey, hvs, Spec.pushOrSwap]
      simpa [abs] using hpb.1
    · simp only [VLog.writeCore, hv0]
      simpa using hpb.2
  | cons y rest =>
    obtain ⟨a, old⟩ := y
    rw [hvs] at hv
    have hva : ((m.findNode k).getD (VLog.freshNode k)).vptr = a := hv
    have ha : a ≠ 0 := by
      have := versionsOf_addr_le k m.log (a, old) (by simp [hvs])
      simp at this; omega
    have hgv : VLog.getValue m.log a = old := getValue_top k m.log a old rest hvs
    have hsw : (a != 0 && VLog.canModify m.stages.getLast? a && decide (a > m.lastCp)
          && decide ((if a = 0 then ([] : Bytes) else VLog.getValue m.log a).length > 0)
          && (if a = 0 then ([] : Bytes) else VLog.getValue m.log a).length == x.length)
        = (Spec.canModify (abs m).marks a && decide (a > (abs m).guard) && decide (old.length > 0) && old.length == x.length) := by
      have hab : (a != 0) = true := by simp [ha]
      simp only [ha, if_false, hgv, canModify_eq, hab, Bool.true_and]
      rfl
    cases hcond : (Spec.canModify (abs m).marks a && decide (a > (abs m).guard) && decide (old.length > 0) && old.length == x.length) with
    | true =>
      rw [hcond] at hsw
      have hlen : old.length = x.length := by
        simp only [Bool.and_eq_true, beq_iff_eq] at hcond
        exact hcond.2
      have hsb := swap_branch hi k x (Spec.writeFlags ((m.findNode k).getD (VLog.freshNode k)).flags (some x) ops)
        (m.dirty || m.stages.isEmpty || KeyFlags.andPersistent (Spec.writeFlags ((m.findNode k).getD (VLog.freshNode k)).flags (some x) ops) != 0)
        a old rest hvs hlen
      simp only [hva] at hsb
      constructor
      · simp only [VLog.writeCore, Spec.writeCore, hc, hva, hsw, if_true]
        simp only [absNode, hkey, hvs, Spec.pushOrSwap, hcond, if_true]
        simpa [abs] using hsb.1
      · simp only [VLog.writeCore, hva, hsw, if_true]
        exact hsb.2
    | false =>
      rw [hcond] at hsw
      have hpb := push_branch hi k x (Spec.writeFlags ((m.findNode k).getD (VLog.freshNode k)).flags (some x) ops)
        (m.dirty || m.stages.isEmpty || KeyFlags.andPersistent (Spec.writeFlags ((m.findNode k).getD (VLog.freshNode k)).flags (some x) ops) != 0)
      simp only [hvs, hva] at hpb
      constructor
      · simp only [VLog.writeCore, Spec.writeCore, hc, hva, hsw, Bool.false_eq_true, if_false]
        simp only [absNode, hkey, hvs, Spec.pushOrSwap, hcond, Bool.false_eq_true, if_false]
        simpa [abs, ha, hgv] using hpb.1
      · simp only [VLog.writeCore, hva, hsw, Bool.false_eq_true, if_false]
        simpa [ha, hgv] using hpb.2

theorem writeCore_refines {m : VLog} (hi : Inv m) (k : Bytes) (v : Option Bytes) (ops : List Nat) :
    abs (m.writeCore k v ops) = (abs m).writeCore k v ops ∧ Inv (m.writeCore k v ops) := by
  cases v with
  | none => exact writeCore_none hi k ops
  | some x => exact writeCore_some hi k x ops

end CGV.MemBuf
