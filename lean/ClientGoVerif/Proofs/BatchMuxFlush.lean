import ClientGoVerif.Proofs.BatchMuxSteps
/-! InvA through `flush` (getClientAndSend) and the top-level step theorem. -/
namespace CGV.BatchMux
open List

theorem InvA.noconn {s : State} (hA : InvA s) (idx : Nat) :
    InvA { s with index := idx, entries := updIn s.entries s.heap (·.fail .noconn), heap := [] } := by
  refine hA.general (fun i e => if s.heap.contains i then e.fail .noconn else e) s.heap ?_ rfl rfl hA.bfwd hA.idnodup hA.idle ?_ ?_ ?_
  · intro i
    show (updIn s.entries _ _)[i]? = _
    rw [getElem?_updIn]
  · apply List.perm_iff_count.mpr; intro a
    simp only [locs, List.count_append, List.count_nil]; omega
  · intro i e _ hr
    have : s.heap.contains i = false := by simpa using hr
    simp only [this]; exact Benign.refl e
  · intro i e he hr
    have hc : s.heap.contains i = true := by simpa using hr
    have hloc : i ∈ locs s := by simp only [locs, List.mem_append]; exact Or.inl (Or.inl (Or.inr hr))
    obtain ⟨e', he', hf⟩ := hA.fresh i hloc
    rw [he] at he'; injection he' with he'; subst he'
    simp only [hc, if_true]
    exact ⟨(hA.eok i e he).fail hf _, rfl, Or.inr (fail_done hf _), id⟩

theorem keep_false {es : List Entry} {i : Nat} {e : Entry} (he : es[i]? = some e) (hk : keep es i = false) :
    e.canceled = true := by
  simp [keep, he] at hk; exact hk

theorem InvA.build {s : State} (hA : InvA s) (hb : s.built = []) (idx limit fuel : Nat) (hp : List Nat) (bst : BuildSt)
    (bq : List Nat) (sd : Option Nat)
    (h : buildLoop s.entries limit fuel s.heap { idAlloc := s.idAlloc, count := 0, items := [] } = (hp, bst)) :
    InvA { s with index := idx, heap := hp, idAlloc := bst.idAlloc, built := bst.items.reverse, breqs := bq, sending := sd,
                  allocLog := bst.items.map (fun it => (it.id, it.h)) ++ s.allocLog } := by
  obtain ⟨tk, hperm, hrel⟩ := buildLoop_rel _ _ _ _ _ _ _ h
  have hhs : bst.items.reverse.map (·.h) = tk.filter (keep s.entries) := by
    rw [List.map_reverse, hrel.hs]; simp
  obtain ⟨hmono, hle⟩ := hrel.mono (by simp) (by simp)
  have hsplit := List.filter_append_perm (keep s.entries) tk
  have hmem : ∀ it ∈ bst.items, it.h ∈ tk ∧ s.idAlloc < it.id ∧ it.id ≤ bst.idAlloc ∧
      ∃ e, s.entries[it.h]? = some e ∧ e.canceled = false ∧ it.fwd = e.fwd := by
    intro it hit
    rcases hrel.mem it hit with h | h
    · simp at h
    · obtain ⟨a, b, c, e, he, h1, h2, _⟩ := h
      exact ⟨a, b, c, e, he, h1, h2⟩
  have htk : ∀ i ∈ tk, i ∈ locs s := by
    intro i hi
    have : i ∈ s.heap := hperm.mem_iff.mp (List.mem_append.mpr (Or.inl hi))
    simp only [locs, List.mem_append]; exact Or.inl (Or.inl (Or.inr this))
  refine hA.general (fun _ e => e) (tk.filter (fun x => !keep s.entries x)) ?_ rfl rfl ?_ ?_ ?_ ?_ ?_ ?_
  · intro i; simp
  · intro it hit
    obtain ⟨_, _, _, e, he, _, hf⟩ := hmem it (by simpa using hit)
    rw [hf]; exact hA.efwd _ _ he
  · -- ids
    simp only [ids, List.map_reverse]
    refine List.nodup_append.mpr ⟨?_, (List.nodup_append.mp hA.idnodup).2.1, ?_⟩
    · refine ((List.reverse_perm _).nodup_iff).mpr ?_
      exact hmono.imp (fun h => Nat.ne_of_gt h)
    · intro a ha b hb' hab
      subst hab
      obtain ⟨it, hit, rfl⟩ := List.mem_map.mp (List.mem_reverse.mp ha)
      have h1 := (hmem it hit).2.1
      have h2 := hA.idle it.id (by simp only [ids, List.mem_append]; exact Or.inr hb')
      omega
  · intro id hid
    simp only [ids, List.mem_append, List.map_reverse, List.mem_reverse] at hid
    rcases hid with h1 | h1
    · obtain ⟨it, hit, rfl⟩ := List.mem_map.mp h1
      exact hle it hit
    · have := hA.idle id (by simp only [ids, List.mem_append]; exact Or.inr h1)
      exact Nat.le_trans this hrel.le
  · apply List.perm_iff_count.mpr; intro a
    have c1 := hperm.count_eq a
    have c2 := hsplit.count_eq a
    simp only [locs, hb, hhs, List.count_append, List.map_nil, List.count_nil] at c1 c2 ⊢
    omega
  · intro i e _ _; exact Benign.refl e
  · intro i e he hr
    obtain ⟨hi, hk⟩ := List.mem_filter.mp hr
    have hk' : keep s.entries i = false := by simpa using hk
    have ok := hA.eok i e he
    exact ⟨ok, rfl, Or.inl (ok.canc (keep_false he hk')), id⟩

theorem Benign.setReq (e : Entry) (x : Nat) : Benign e { e with reqId := x } := by
  refine ⟨Iff.rfl, ?_, id, Or.inl, rfl, rfl, rfl⟩
  intro h; exact ⟨h.fresh0, h.used1, h.ret0, h.ret1, h.canc, h.full, h.taken, h.retp⟩

theorem InvA.track {s : State} (hA : InvA s) (cid fwd gen : Nat) : InvA (track s cid fwd gen) := by
  have hsplit := List.filter_append_perm (fun it : Item => decide (it.fwd = fwd)) s.built
  refine hA.general
    (fun i e => match (s.built.filter (·.fwd = fwd)).find? (·.h = i) with | some it => { e with reqId := it.id } | none => e)
    [] ?_ rfl rfl ?_ ?_ ?_ ?_ ?_ ?_
  · intro i
    show (s.entries.mapIdx _)[i]? = _
    rw [List.getElem?_mapIdx]
    rfl
  · intro it hit
    exact hA.bfwd it (List.mem_filter.mp hit).1
  · -- ids: a permutation of the old ids
    have : (ids (CGV.BatchMux.track s cid fwd gen)).Perm (ids s) := by
      apply List.perm_iff_count.mpr; intro a
      have c1 := (hsplit.map (·.id)).count_eq a
      simp only [ids, CGV.BatchMux.track, List.count_append, List.map_append, List.map_map, Function.comp_def, decide_not] at c1 ⊢
      omega
    exact this.nodup_iff.mpr hA.idnodup
  · intro id hid
    have : (ids (CGV.BatchMux.track s cid fwd gen)).Perm (ids s) := by
      apply List.perm_iff_count.mpr; intro a
      have c1 := (hsplit.map (·.id)).count_eq a
      simp only [ids, CGV.BatchMux.track, List.count_append, List.map_append, List.map_map, Function.comp_def, decide_not] at c1 ⊢
      omega
    exact hA.idle id (this.mem_iff.mp hid)
  · apply List.perm_iff_count.mpr; intro a
    have c1 := (hsplit.map (·.h)).count_eq a
    simp only [locs, CGV.BatchMux.track, List.count_append, List.map_append, List.map_map, Function.comp_def, decide_not,
      List.nil_append] at c1 ⊢
    omega
  · intro i e _ _
    split
    · exact Benign.setReq e _
    · exact Benign.refl e
  · intro i e _ hr; simp at hr

theorem track_built (s : State) (cid fwd gen : Nat) : (track s cid fwd gen).built = s.built.filter (¬ ·.fwd = fwd) := rfl

theorem failSlots_built (s : State) (cid : Nat) (dead : Slot → Bool) (err : Err) : (failSlots s cid dead err).built = s.built := rfl

theorem ensureStream_inv {s : State} (hA : InvA s) (cid fwd : Nat) : InvA (ensureStream s cid fwd) := by
  unfold ensureStream
  split
  · exact hA
  · exact hA.same rfl (Perm.refl _) rfl rfl rfl rfl rfl

theorem ensureStream_built (s : State) (cid fwd : Nat) : (ensureStream s cid fwd).built = s.built := by
  unfold ensureStream; split <;> rfl

theorem InvA.sendGroup {s : State} (hA : InvA s) (cid fwd : Nat) : InvA (sendGroup s cid fwd) := by
  unfold CGV.BatchMux.sendGroup
  simp only
  split
  · exact hA
  · have h1 := fun gen => (ensureStream_inv hA cid fwd).track cid fwd gen
    generalize findStream (ensureStream s cid fwd).streams cid fwd = st
    cases st <;> simp only <;> split
    · exact (h1 _).failSlots _ _ _
    · exact (h1 _).same rfl (Perm.refl _) rfl rfl rfl rfl rfl
    · exact (h1 _).failSlots _ _ _
    · exact (h1 _).same rfl (Perm.refl _) rfl rfl rfl rfl rfl

theorem sendGroup_built (s : State) (cid fwd : Nat) : (sendGroup s cid fwd).built = s.built.filter (¬ ·.fwd = fwd) := by
  unfold CGV.BatchMux.sendGroup
  simp only
  split
  · rename_i he
    symm
    apply List.filter_eq_self.mpr
    intro it hit
    have : s.built.filter (·.fwd = fwd) = [] := by simpa using he
    have := List.filter_eq_nil_iff.mp this it hit
    simpa using this
  · generalize findStream (ensureStream s cid fwd).streams cid fwd = st
    cases st <;> simp only <;> split
    · rw [failSlots_built, track_built, ensureStream_built]
    · show (track _ cid fwd 0).built = _
      rw [track_built, ensureStream_built]
    · rw [failSlots_built, track_built, ensureStream_built]
    · rename_i x _
      show (track _ cid fwd x.gen).built = _
      rw [track_built, ensureStream_built]

theorem InvA.sendAll {s : State} (hA : InvA s) (cid : Nat) : ∀ k, InvA (sendAll s cid k)
  | 0 => hA.sendGroup cid 0
  | k + 1 => (InvA.sendAll hA cid k).sendGroup cid (k + 1)

theorem sendAll_built (s : State) (cid : Nat) : ∀ k, (sendAll s cid k).built = s.built.filter (fun it => it.fwd > k)
  | 0 => by
    show (sendGroup s cid 0).built = _
    rw [sendGroup_built]
    apply List.filter_congr
    intro it _
    by_cases h1 : it.fwd = 0 <;> simp [h1] <;> omega
  | k + 1 => by
    show (sendGroup (sendAll s cid k) cid (k + 1)).built = _
    rw [sendGroup_built, sendAll_built s cid k, List.filter_filter]
    apply List.filter_congr
    intro it _
    by_cases h1 : it.fwd = k + 1 <;> by_cases h2 : it.fwd > k <;> simp [h1, h2] <;> omega

/-- accounting invariant between steps: InvA, and the builder's groups are empty unless getClientAndSend is between
    buildWithLimit and its sends -/
def InvF (s : State) : Prop := InvA s ∧ (s.sending = none → s.built = [])

theorem InvF.flushBegin {s : State} (hF : InvF s) : InvF (flushBegin s) := by
  obtain ⟨hA, hb⟩ := hF
  unfold CGV.BatchMux.flushBegin
  split
  · exact ⟨hA, hb⟩
  · rename_i hsd
    have hnone : s.sending = none := by
      cases h : s.sending with
      | none => rfl
      | some x => simp [h] at hsd
    have hb0 := hb hnone
    simp only
    generalize chooseClient s.clients _ s.clients.length s.index = pk
    obtain ⟨idx, pick⟩ := pk
    simp only
    cases pick with
    | none =>
      simp only
      split
      · exact ⟨hA.noconn idx, fun _ => hb0⟩
      · exact ⟨hA.same rfl (Perm.refl _) rfl rfl rfl rfl rfl, fun _ => hb0⟩
    | some cid =>
      simp only
      generalize hbl : buildLoop s.entries _ (s.heap.length + 1) s.heap { idAlloc := s.idAlloc, count := 0, items := [] } = r
      obtain ⟨hp, bst⟩ := r
      simp only
      exact ⟨hA.build hb0 idx _ _ hp bst _ _ hbl, fun h => by simp at h⟩

theorem InvF.flushEnd {s : State} (hF : InvF s) : InvF (flushEnd s) := by
  obtain ⟨hA, hb⟩ := hF
  unfold CGV.BatchMux.flushEnd
  split
  · exact ⟨hA, hb⟩
  · rename_i cid _
    have h1 := hA.sendAll cid s.nfwd
    refine ⟨h1.same rfl (Perm.refl _) rfl rfl rfl rfl rfl, fun _ => ?_⟩
    show (sendAll s cid s.nfwd).built = []
    rw [sendAll_built]
    apply List.filter_eq_nil_iff.mpr
    intro it hit
    have := hA.bfwd it hit
    simp; exact this

theorem InvF.flush {s : State} (hF : InvF s) : InvF (flush s) := hF.flushBegin.flushEnd

def Frame (s s' : State) : Prop := s'.built = s.built ∧ s'.sending = s.sending ∧ s'.breqs = s.breqs

theorem Frame.refl (s : State) : Frame s s := ⟨rfl, rfl, rfl⟩
theorem Frame.trans {a b c : State} (h1 : Frame a b) (h2 : Frame b c) : Frame a c :=
  ⟨h2.1.trans h1.1, h2.2.1.trans h1.2.1, h2.2.2.trans h1.2.2⟩

theorem recv1_frame (cid : Nat) (s : State) (r : Nat × Nat) : Frame s (recv1 cid s r) := by
  unfold recv1; simp only; split <;> exact ⟨rfl, rfl, rfl⟩

theorem recvFold_frame (cid : Nat) : ∀ (rs : List (Nat × Nat)) (s : State), Frame s (rs.foldl (recv1 cid) s)
  | [], s => Frame.refl s
  | r :: rest, s => (recv1_frame cid s r).trans (recvFold_frame cid rest _)

/-- every step other than the two halves of getClientAndSend leaves the builder's groups and the `sending` mark alone -/
theorem step_frame (s : State) (op : Op) (h1 : op ≠ .flush) (h2 : op ≠ .flushBegin) (h3 : op ≠ .flushEnd) :
    Frame s (step s op) := by
  cases op with
  | flush => exact absurd rfl h1
  | flushBegin => exact absurd rfl h2
  | flushEnd => exact absurd rfl h3
  | submit p pri fwd =>
    show Frame s (CGV.BatchMux.submit s p pri fwd)
    unfold CGV.BatchMux.submit; simp only; split <;> exact ⟨rfl, rfl, rfl⟩
  | fetch max =>
    show Frame s (CGV.BatchMux.fetch s max)
    unfold CGV.BatchMux.fetch; split <;> exact ⟨rfl, rfl, rfl⟩
  | recv cid fwd rs =>
    show Frame s (CGV.BatchMux.recv s cid fwd rs)
    unfold CGV.BatchMux.recv
    split
    · exact Frame.refl s
    · split
      · exact Frame.refl s
      · exact recvFold_frame cid rs s
  | kill cid fwd =>
    show Frame s (CGV.BatchMux.kill s cid fwd)
    unfold CGV.BatchMux.kill
    split
    · exact Frame.refl s
    · split
      · exact Frame.refl s
      · split <;> exact ⟨rfl, rfl, rfl⟩
  | _ => exact ⟨rfl, rfl, rfl⟩

theorem InvF.step {s : State} (hF : InvF s) (op : Op) : InvF (step s op) := by
  by_cases h1 : op = .flush
  · subst h1; exact hF.flush
  by_cases h2 : op = .flushBegin
  · subst h2; exact hF.flushBegin
  by_cases h3 : op = .flushEnd
  · subst h3; exact hF.flushEnd
  obtain ⟨hA, hb⟩ := hF
  obtain ⟨fb, fs, _⟩ := step_frame s op h1 h2 h3
  refine ⟨?_, fun h => by rw [fb]; exact hb (fs ▸ h)⟩
  cases op with
  | submit p pri fwd => exact hA.submit p pri fwd
  | fetch max => exact hA.fetch max
  | breset => exact hA.breset
  | flush => exact absurd rfl h1
  | flushBegin => exact absurd rfl h2
  | flushEnd => exact absurd rfl h3
  | recv cid fwd rs => exact hA.recv cid fwd rs
  | kill cid fwd => exact hA.kill cid fwd
  | cancel h => exact hA.updAt_benign h _ (fun e => Benign.abandon e _) rfl rfl rfl rfl rfl rfl rfl
  | timeout h => exact hA.updAt_benign h _ (fun e => Benign.abandon e _) rfl rfl rfl rfl rfl rfl rfl
  | wake h => exact hA.updAt_benign h _ (fun e => Benign.wake e) rfl rfl rfl rfl rfl rfl rfl
  | close => exact hA.closeAll
  | sendfail cid fwd b => exact hA.same rfl (Perm.refl _) rfl rfl rfl rfl rfl
  | lockrec cid b => exact hA.same rfl (Perm.refl _) rfl rfl rfl rfl rfl
  | setlimit cid l => exact hA.same rfl (Perm.refl _) rfl rfl rfl rfl rfl
  | cfgcancel b => exact hA.same rfl (Perm.refl _) rfl rfl rfl rfl rfl
  | panicRecover => exact hA

theorem InvF.init (n limit nfwd : Nat) : InvF (init n limit nfwd) := by
  refine ⟨⟨?_, ?_, ?_, ?_, ?_, ?_, ?_, ?_, ?_⟩, fun _ => rfl⟩ <;> simp [CGV.BatchMux.init, ids, locs]

theorem InvF.run {s : State} (hF : InvF s) : ∀ ops : List Op, InvF (run s ops) := by
  intro ops
  induction ops generalizing s with
  | nil => exact hF
  | cons op rest ih => exact ih (hF.step op)

end CGV.BatchMux
