/- a scan does not depend on how its range is cut into regions: the scan of [a,b) is the concatenation of the scans of
   [a,m) and [m,b) for every split point m, hence of any chain of consecutive sub-ranges -/
import ClientGoVerif.Proofs.MvccReads
import ClientGoVerif.Proofs.MvccMap
namespace CGV.Mvcc
open CGV

theorem cmp_gt_iff_lt (a b : Bytes) : Bytes.cmp a b = .gt ↔ Bytes.cmp b a = .lt := by
  rw [← Bytes.cmp_swap b a]
  cases Bytes.cmp b a <;> simp [Ordering.swap]

theorem Bytes.le_iff (a b : Bytes) : Bytes.le a b = true ↔ Bytes.cmp b a ≠ .lt := by
  simp only [Bytes.le, bne_iff_ne, ne_eq]
  rw [not_congr (cmp_gt_iff_lt a b)]

theorem Bytes.lt_iff (a b : Bytes) : Bytes.lt a b = true ↔ Bytes.cmp a b = .lt := by
  simp [Bytes.lt]

/-- a ≤ m and m ≤ k give a ≤ k -/
theorem Bytes.le_trans' {a m k : Bytes} (h1 : Bytes.le a m = true) (h2 : Bytes.le m k = true) : Bytes.le a k = true := by
  rw [Bytes.le_iff] at *
  intro h
  -- k < a ; a ≤ m ; so k < m or ... derive contradiction with m ≤ k
  cases hc : Bytes.cmp a m with
  | lt => exact h2 (cmp_trans_lt h hc)
  | eq => have := (Bytes.cmp_eq_iff a m).mp hc; subst this; exact h2 h
  | gt => exact h1 ((cmp_gt_iff_lt a m).mp hc)

/-- k < m and m ≤ b give k < b -/
theorem Bytes.lt_of_lt_of_le' {k m b : Bytes} (h1 : Bytes.lt k m = true) (h2 : Bytes.le m b = true) : Bytes.lt k b = true := by
  rw [Bytes.lt_iff] at *
  rw [Bytes.le_iff] at h2
  cases hc : Bytes.cmp m b with
  | lt => exact cmp_trans_lt h1 hc
  | eq => have := (Bytes.cmp_eq_iff m b).mp hc; subst this; exact h1
  | gt => exact absurd ((cmp_gt_iff_lt m b).mp hc) h2

theorem Bytes.not_lt_iff_le (k m : Bytes) : Bytes.lt k m = false ↔ Bytes.le m k = true := by
  rw [Bytes.le_iff]
  simp [Bytes.lt]

/-- on a key-sorted list, the filter by [a,b) splits at any m with a ≤ m ≤ b into the filters by [a,m) and [m,b) -/
theorem filter_inRange_split (kv : List (Bytes × Entry)) (a m b : Bytes) (hs : KvSorted kv)
    (ham : Bytes.le a m = true) (hmb : b.isEmpty = true ∨ Bytes.le m b = true) (hm : m.isEmpty = false) :
    (kv.filter fun p => inRange a b p.1) =
      (kv.filter fun p => inRange a m p.1) ++ (kv.filter fun p => inRange m b p.1) := by
  induction kv with
  | nil => rfl
  | cons q rest ih =>
    obtain ⟨k, e⟩ := q
    have ih' := ih hs.tail
    by_cases hkm : Bytes.lt k m = true
    · -- below the split point: [a,b) and [a,m) agree on k, [m,b) rejects it
      have h2 : inRange m b k = false := by
        have : Bytes.le m k = false := by
          cases h : Bytes.le m k with
          | false => rfl
          | true => rw [← Bytes.not_lt_iff_le] at h; rw [h] at hkm; cases hkm
        simp [inRange, this]
      have h1 : inRange a b k = inRange a m k := by
        simp only [inRange, hm, Bool.false_or, hkm, Bool.and_true]
        rcases hmb with hb | hb
        · simp [hb]
        · simp [Bytes.lt_of_lt_of_le' hkm hb]
      simp only [List.filter_cons, h1, h2, Bool.false_eq_true, if_false]
      split
      · rw [ih', List.cons_append]
      · exact ih'
    · -- at or above the split point: so is every later key
      have hkm' : Bytes.le m k = true := by
        rw [← Bytes.not_lt_iff_le]; simpa using hkm
      have hall : ∀ p ∈ (k, e) :: rest, Bytes.le m p.1 = true := by
        intro p hp
        cases hp with
        | head => exact hkm'
        | tail _ hp' =>
          have := hs.head_lt p hp'
          rw [Bytes.le_iff]; intro hlt
          rw [Bytes.le_iff] at hkm'
          exact hkm' (cmp_trans_lt this hlt)
      have h1 : ((k, e) :: rest).filter (fun p => inRange a m p.1) = [] := by
        apply List.filter_eq_nil_iff.mpr
        intro p hp
        have hle := hall p hp
        have : Bytes.lt p.1 m = false := (Bytes.not_lt_iff_le p.1 m).mpr hle
        simp [inRange, hm, this]
      have h2 : ((k, e) :: rest).filter (fun p => inRange a b p.1) = ((k, e) :: rest).filter (fun p => inRange m b p.1) := by
        apply List.filter_congr
        intro p hp
        have hle := hall p hp
        simp [inRange, hle, Bytes.le_trans' ham hle]
      rw [h1, h2, List.nil_append]

/-- the scan of a range is the concatenation of the scans of its two halves, whatever the split point -/
theorem scan_split (s : Store) (a m b : Bytes) (ts : TS) (si : Bool) (rs : List TS) (limit : Nat) (hs : KvSorted s.kv)
    (ham : Bytes.le a m = true) (hmb : b.isEmpty = true ∨ Bytes.le m b = true) (hm : m.isEmpty = false) :
    scan s a b limit ts si rs =
      (((s.kv.filter fun p => inRange a m p.1).filterMap fun p => pairOf p.1 p.2 ts si rs) ++
        ((s.kv.filter fun p => inRange m b p.1).filterMap fun p => pairOf p.1 p.2 ts si rs)).take limit := by
  rw [scan_eq_gets, filter_inRange_split s.kv a m b hs ham hmb hm, List.filterMap_append]

/-- … and with a limit that never cuts (what the client's region-by-region scanner assembles): scan [a,b) =
    scan [a,m) ++ scan [m,b) -/
theorem scan_concat (s : Store) (a m b : Bytes) (ts : TS) (si : Bool) (rs : List TS) (limit : Nat) (hs : KvSorted s.kv)
    (ham : Bytes.le a m = true) (hmb : b.isEmpty = true ∨ Bytes.le m b = true) (hm : m.isEmpty = false)
    (hl : s.kv.length ≤ limit) :
    scan s a b limit ts si rs = scan s a m limit ts si rs ++ scan s m b limit ts si rs := by
  have hlen : ∀ (x y : Bytes), ((s.kv.filter fun p => inRange x y p.1).filterMap fun p => pairOf p.1 p.2 ts si rs).length ≤ limit :=
    fun x y => Nat.le_trans (List.length_filterMap_le _ _) (Nat.le_trans (List.length_filter_le _ _) hl)
  rw [scan_eq_gets, scan_eq_gets, scan_eq_gets, filter_inRange_split s.kv a m b hs ham hmb hm, List.filterMap_append]
  rw [List.take_of_length_le (hlen a m), List.take_of_length_le (hlen m b)]
  apply List.take_of_length_le
  rw [← List.filterMap_append, ← filter_inRange_split s.kv a m b hs ham hmb hm]
  exact hlen a b

/-- region by region: the scans of consecutive sub-ranges [a,m₁), [m₁,m₂), …, [mₙ,b), concatenated -/
def scanChain (s : Store) (a : Bytes) (ms : List Bytes) (b : Bytes) (limit : Nat) (ts : TS) (si : Bool) (rs : List TS) : List Pair :=
  match ms with
  | [] => scan s a b limit ts si rs
  | m :: rest => scan s a m limit ts si rs ++ scanChain s m rest b limit ts si rs

/-- the split points lie between the range bounds, in order, and none is the empty key -/
def ChainOK (a : Bytes) (ms : List Bytes) (b : Bytes) : Prop :=
  match ms with
  | [] => True
  | m :: rest => Bytes.le a m = true ∧ m.isEmpty = false ∧ (b.isEmpty = true ∨ Bytes.le m b = true) ∧ ChainOK m rest b

/-- whatever the region layout (any number of split points), scanning region by region gives the scan of the whole range -/
theorem scanChain_eq_scan (s : Store) (a : Bytes) (ms : List Bytes) (b : Bytes) (limit : Nat) (ts : TS) (si : Bool)
    (rs : List TS) (hs : KvSorted s.kv) (hc : ChainOK a ms b) (hl : s.kv.length ≤ limit) :
    scanChain s a ms b limit ts si rs = scan s a b limit ts si rs := by
  induction ms generalizing a with
  | nil => rfl
  | cons m rest ih =>
    simp only [scanChain]
    rw [ih m hc.2.2.2, scan_concat s a m b ts si rs limit hs hc.1 hc.2.2.1 hc.2.1 hl]

end CGV.Mvcc
