/- every state the store can reach by any sequence of commands keeps the per-key invariant -/
import ClientGoVerif.Proofs.MvccSInv
namespace CGV.Mvcc
open CGV

/-- the state-changing commands of the store (the alphabet of `MvccProto.exec`; reads do not change the state) -/
inductive Cmd
  | prewrite (r : PrewriteReq)
  | plock (r : PLReq)
  | prollback (a b : Bytes) (keys : List Bytes) (T F : TS)
  | commit (keys : List Bytes) (T C : TS)
  | rollback (keys : List Bytes) (T : TS)
  | cleanup (k : Bytes) (T cur : TS)
  | status (p : Bytes) (T caller cur : TS) (rb rp : Bool)
  | heartbeat (k : Bytes) (T : TS) (adv : Nat)
  | resolve (a b : Bytes) (T C : TS)
  | bresolve (a b : Bytes) (infos : List (TS × TS))
  | gc (a b : Bytes) (sp : TS)
  | deleteRange (a b : Bytes)

def Cmd.run (s : Store) : Cmd → Store
  | .prewrite r => (Mvcc.prewrite s r).1
  | .plock r => (pessimisticLock s r).1
  | .prollback a b keys T F => pessimisticRollback s a b keys T F
  | .commit keys T C => (Mvcc.commit s keys T C).1
  | .rollback keys T => (Mvcc.rollback s keys T).1
  | .cleanup k T cur => (Mvcc.cleanup s k T cur).1
  | .status p T caller cur rb rp => (checkTxnStatus s p T caller cur rb rp).1
  | .heartbeat k T adv => (heartBeat s k T adv).1
  | .resolve a b T C => resolveLock s a b T C
  | .bresolve a b infos => batchResolveLock s a b infos
  | .gc a b sp => (Mvcc.gc s a b sp).1
  | .deleteRange a b => Mvcc.deleteRange s a b

/-- what the property asks of the callers (C12's preconditions), per command and current state:
    commit timestamps are above start timestamps, key batches are duplicate-free, and no pessimistic-lock request
    arrives for a transaction that already has a record on the key (`noLockAfterFinish`) -/
def Cmd.Ok (s : Store) : Cmd → Prop
  | .plock r => ∀ m ∈ r.mutations, Fresh (getEntry s.kv m.key).writes r.startTS
  | .commit keys T C => keys.Nodup ∧ T < C
  | .rollback keys _ => keys.Nodup
  | .resolve _ _ T C => C = 0 ∨ T < C
  | .bresolve _ _ infos => ∀ p ∈ infos, p.2 = 0 ∨ p.1 < p.2
  | _ => True

theorem SInv_run (s : Store) (c : Cmd) (hs : SInv s) (hok : c.Ok s) : SInv (c.run s) := by
  cases c with
  | prewrite r => exact SInv_prewrite s _ r _ hs rfl
  | plock r => exact SInv_pessimisticLock s _ r _ hs hok rfl
  | prollback a b keys T F => exact SInv_pessimisticRollback s a b keys T F hs
  | commit keys T C => exact SInv_commit s _ keys T C _ hs hok.1 hok.2 rfl
  | rollback keys T => exact SInv_rollback s _ keys T _ hs hok rfl
  | cleanup k T cur => exact SInv_cleanup s _ k T cur _ hs rfl
  | status p T caller cur rb rp => exact SInv_checkTxnStatus s _ p T caller cur rb rp _ hs rfl
  | heartbeat k T adv => exact SInv_heartBeat s _ k T adv _ hs rfl
  | resolve a b T C => exact SInv_resolveLock s a b T C hs hok
  | bresolve a b infos => exact SInv_batchResolveLock s a b infos hs hok
  | gc a b sp => exact SInv_gc s _ a b sp _ hs rfl
  | deleteRange a b => exact SInv_deleteRange s a b hs

/-- the states reachable from the empty store by commands that respect the callers' contract -/
inductive Reachable : Store → Prop
  | init : Reachable {}
  | step (s : Store) (c : Cmd) : Reachable s → c.Ok s → Reachable (c.run s)

theorem Reachable.inv {s : Store} (h : Reachable s) : SInv s := by
  induction h with
  | init => exact SInv.empty
  | step s c _ hok ih => exact SInv_run s c ih hok

/-- the same, phrased over command lists: running any list whose every command respects the contract in the state
    it meets -/
def runAll (s : Store) : List Cmd → Store
  | [] => s
  | c :: rest => runAll (c.run s) rest

def OkAll (s : Store) : List Cmd → Prop
  | [] => True
  | c :: rest => c.Ok s ∧ OkAll (c.run s) rest

theorem runAll_inv (s : Store) (cs : List Cmd) (hs : SInv s) (hok : OkAll s cs) : SInv (runAll s cs) := by
  induction cs generalizing s with
  | nil => exact hs
  | cons c rest ih => exact ih _ (SInv_run s c hs hok.1) hok.2

theorem getEntry_of_mem {kv : List (Bytes × Entry)} {p : Bytes × Entry} (hs : KvSorted kv) (hp : p ∈ kv) :
    getEntry kv p.1 = p.2 := by
  induction kv with
  | nil => cases hp
  | cons q rest ih =>
    obtain ⟨k2, e2⟩ := q
    cases hp with
    | head => simp [getEntry]
    | tail _ hp' =>
      have hlt := hs.head_lt p hp'
      have hne : (k2 == p.1) = false := by
        apply beq_false_of_ne
        intro heq; rw [heq, Bytes.cmp_self] at hlt; cases hlt
      simp only [getEntry, hne]
      exact ih hs.tail hp'

/-- every stored entry of a reachable state satisfies the per-key invariant -/
theorem Reachable.entries {s : Store} (h : Reachable s) : ∀ p ∈ s.kv, EInv p.2 := by
  intro p hp
  have := h.inv.2 p.1
  rw [getEntry_of_mem h.inv.1 hp] at this
  exact this

end CGV.Mvcc
