/-
  Helper lemmas for C17 (latch scheduler): byte-string order, the list operations of the model,
  the one-time case analysis of the steps (`Eff`), and the invariants of all reachable states.
-/
import ClientGoVerif.Model.Latch
namespace CGV.Latch
open CGV

/-! ## order on byte strings -/

theorem u8_lt_asymm {a b : UInt8} (h : a < b) (h2 : b < a) : False := by
  have := UInt8.lt_iff_toNat_lt.mp h; have := UInt8.lt_iff_toNat_lt.mp h2; omega

theorem u8_eq_of_not_lt {a b : UInt8} (h : ¬ a < b) (h2 : ¬ b < a) : a = b := by
  have h1 : ¬ a.toNat < b.toNat := fun x => h (UInt8.lt_iff_toNat_lt.mpr x)
  have h3 : ¬ b.toNat < a.toNat := fun x => h2 (UInt8.lt_iff_toNat_lt.mpr x)
  exact UInt8.toNat_inj.mp (by omega)

theorem cmp_eq_iff : ∀ (a b : Bytes), Bytes.cmp a b = .eq ↔ a = b
  | [], [] => by simp [Bytes.cmp]
  | [], _ :: _ => by simp [Bytes.cmp]
  | _ :: _, [] => by simp [Bytes.cmp]
  | x :: xs, y :: ys => by
    unfold Bytes.cmp
    by_cases h1 : x < y
    · simp [h1]; intro h; subst h; exact absurd h1 (UInt8.lt_irrefl _)
    · by_cases h2 : y < x
      · simp [h1, h2]; intro h; subst h; exact absurd h2 (UInt8.lt_irrefl _)
      · simp [h1, h2, cmp_eq_iff xs ys, u8_eq_of_not_lt h1 h2]

theorem cmp_lt_trans : ∀ (a b c : Bytes), Bytes.cmp a b = .lt → Bytes.cmp b c = .lt → Bytes.cmp a c = .lt
  | [], [], _ => by simp [Bytes.cmp]
  | [], _ :: _, [] => by simp [Bytes.cmp]
  | [], _ :: _, _ :: _ => by simp [Bytes.cmp]
  | _ :: _, [], _ => by simp [Bytes.cmp]
  | _ :: _, _ :: _, [] => by simp [Bytes.cmp]
  | x :: xs, y :: ys, z :: zs => by
    unfold Bytes.cmp
    intro h1 h2
    by_cases xy : x < y
    · by_cases yz : y < z
      · simp [UInt8.lt_trans xy yz]
      · by_cases zy : z < y
        · simp [yz, zy] at h2
        · have : y = z := u8_eq_of_not_lt yz zy
          subst this; simp [xy]
    · by_cases yx : y < x
      · simp [xy, yx] at h1
      · have : x = y := u8_eq_of_not_lt xy yx
        subst this
        simp [xy] at h1
        by_cases yz : x < z
        · simp [yz]
        · by_cases zy : z < x
          · simp [yz, zy] at h2
          · simp [yz, zy] at h2 ⊢
            exact cmp_lt_trans xs ys zs h1 h2

theorem cmp_swap : ∀ (a b : Bytes), Bytes.cmp a b = .gt → Bytes.cmp b a = .lt
  | [], [] => by simp [Bytes.cmp]
  | [], _ :: _ => by simp [Bytes.cmp]
  | _ :: _, [] => by simp [Bytes.cmp]
  | x :: xs, y :: ys => by
    unfold Bytes.cmp
    by_cases h1 : x < y
    · simp [h1]
    · by_cases h2 : y < x
      · simp [h1, h2]
      · simp [h1, h2]; exact cmp_swap xs ys

/-- the order the keys of a lock are sorted by -/
def KLt (a b : Key) : Prop := Bytes.lt a b = true

theorem KLt_irrefl (a : Key) : ¬ KLt a a := by
  simp [KLt, Bytes.lt, (cmp_eq_iff a a).mpr rfl]

theorem KLt_trans {a b c : Key} (h1 : KLt a b) (h2 : KLt b c) : KLt a c := by
  simp [KLt, Bytes.lt] at *
  exact cmp_lt_trans a b c h1 h2

theorem le_iff (a b : Bytes) : Bytes.le a b = true ↔ KLt a b ∨ a = b := by
  simp only [Bytes.le, KLt, Bytes.lt, ← cmp_eq_iff a b]
  cases Bytes.cmp a b <;> simp

theorem le_trans' (a b c : Bytes) (h1 : Bytes.le a b = true) (h2 : Bytes.le b c = true) : Bytes.le a c = true := by
  rw [le_iff] at *
  rcases h1 with h1 | h1 <;> rcases h2 with h2 | h2
  · exact .inl (KLt_trans h1 h2)
  · subst h2; exact .inl h1
  · subst h1; exact .inl h2
  · subst h1; exact .inr h2

theorem le_total' (a b : Bytes) : (Bytes.le a b || Bytes.le b a) = true := by
  simp only [Bool.or_eq_true]
  by_cases h : Bytes.cmp a b = .gt
  · right; simp [Bytes.le, cmp_swap a b h]
  · left; simpa [Bytes.le] using h

theorem sortKeys_sorted {keys : List Key} (h : keys.Nodup) : (sortKeys keys).Pairwise KLt := by
  have h1 : (sortKeys keys).Pairwise (fun a b => Bytes.le a b = true) :=
    List.pairwise_mergeSort le_trans' le_total' keys
  have h2 : (sortKeys keys).Nodup := (List.mergeSort_perm keys Bytes.le).nodup_iff.mpr h
  have h3 := List.Pairwise.and h1 h2
  refine h3.imp ?_
  intro a b ⟨hle, hne⟩
  rcases (le_iff a b).mp hle with h | h
  · exact h
  · exact absurd h hne

theorem sorted_nodup {ks : List Key} (h : ks.Pairwise KLt) : ks.Nodup :=
  h.imp (fun {a b} hab heq => by subst heq; exact KLt_irrefl a hab)

/-! ## total maps -/

@[simp] theorem upd_same {α : Type} (f : Nat → α) (i : Nat) (v : α) : upd f i v i = v := by simp [upd]
theorem upd_ne {α : Type} (f : Nat → α) {i j : Nat} (v : α) (h : j ≠ i) : upd f i v j = f j := by simp [upd, h]
theorem upd_apply {α : Type} (f : Nat → α) (i j : Nat) (v : α) : upd f i v j = if j = i then v else f j := rfl

/-! ## the node list -/

theorem findNode_cons (n : Node) (q : List Node) (k : Key) :
    findNode (n :: q) k = if n.key = k then some n else findNode q k := by
  simp only [findNode, List.find?_cons]
  by_cases h : n.key = k
  · simp [h]
  · have : (n.key == k) = false := by simpa using h
    simp [h, this]

theorem findNode_some {q : List Node} {k : Key} {n : Node} (h : findNode q k = some n) : n ∈ q ∧ n.key = k := by
  constructor
  · exact List.mem_of_find?_eq_some h
  · simpa using List.find?_some h

theorem findNode_none {q : List Node} {k : Key} : findNode q k = none ↔ ∀ n ∈ q, n.key ≠ k := by
  simp [findNode]

theorem findNode_of_mem {q : List Node} {n : Node} (hnd : (q.map (·.key)).Nodup) (hm : n ∈ q) :
    findNode q n.key = some n := by
  induction q with
  | nil => cases hm
  | cons a q ih =>
    rw [findNode_cons]
    simp only [List.map_cons, List.nodup_cons] at hnd
    rcases List.mem_cons.mp hm with h | h
    · subst h; simp
    · have : a.key ≠ n.key := by
        intro e; apply hnd.1; rw [e]; exact List.mem_map.mpr ⟨n, h, rfl⟩
      simp [this, ih hnd.2 h]

theorem updNode_keys {k : Key} {f : Node → Node} (hf : ∀ n, (f n).key = n.key) (q : List Node) :
    (updNode k f q).map (·.key) = q.map (·.key) := by
  induction q with
  | nil => rfl
  | cons a q ih =>
    unfold updNode
    by_cases h : a.key = k <;> simp [h, hf, ih]

theorem findNode_updNode_ne {k k' : Key} {f : Node → Node} (hf : ∀ n, (f n).key = n.key) (h : k' ≠ k)
    (q : List Node) : findNode (updNode k f q) k' = findNode q k' := by
  induction q with
  | nil => rfl
  | cons a q ih =>
    unfold updNode
    by_cases h1 : a.key = k
    · have : k ≠ k' := fun e => h e.symm
      simp [h1, findNode_cons, hf, this]
    · simp [h1, findNode_cons, ih]

theorem findNode_updNode_same {k : Key} {f : Node → Node} (hf : ∀ n, (f n).key = n.key)
    (q : List Node) : findNode (updNode k f q) k = (findNode q k).map f := by
  induction q with
  | nil => rfl
  | cons a q ih =>
    unfold updNode
    by_cases h1 : a.key = k
    · simp [h1, findNode_cons, hf]
    · simp [h1, findNode_cons, ih]

theorem mem_updNode {k : Key} {f : Node → Node} {q : List Node} {m : Node}
    (hnd : (q.map (·.key)).Nodup) (hm : m ∈ updNode k f q) :
    (m ∈ q ∧ m.key ≠ k) ∨ (∃ n, n ∈ q ∧ n.key = k ∧ m = f n) := by
  induction q with
  | nil => cases hm
  | cons a q ih =>
    simp only [List.map_cons, List.nodup_cons] at hnd
    unfold updNode at hm
    by_cases h1 : a.key = k
    · simp only [h1, beq_self_eq_true, if_true] at hm
      rcases List.mem_cons.mp hm with h | h
      · right; exact ⟨a, by simp, h1, h⟩
      · left; refine ⟨by simp [h], ?_⟩
        intro e; apply hnd.1; rw [h1, ← e]; exact List.mem_map.mpr ⟨m, h, rfl⟩
    · have h1' : (a.key == k) = false := by simpa using h1
      simp only [h1'] at hm
      rcases List.mem_cons.mp hm with h | h
      · left; subst h; exact ⟨by simp, h1⟩
      · rcases ih hnd.2 h with ⟨h2, h3⟩ | ⟨n, h2, h3, h4⟩
        · left; exact ⟨by simp [h2], h3⟩
        · right; exact ⟨n, by simp [h2], h3, h4⟩

theorem filter_keys_nodup {q : List Node} (p : Node → Bool) (hnd : (q.map (·.key)).Nodup) :
    ((q.filter p).map (·.key)).Nodup :=
  List.Nodup.sublist (List.Sublist.map _ List.filter_sublist) hnd

theorem findNode_filter_keep {q : List Node} {k : Key} {n : Node} {p : Node → Bool}
    (h : findNode q k = some n) (hp : p n = true) : findNode (q.filter p) k = some n := by
  induction q with
  | nil => cases h
  | cons a q ih =>
    rw [findNode_cons] at h
    by_cases h1 : a.key = k
    · simp [h1] at h; subst h
      simp [List.filter_cons, hp, findNode_cons, h1]
    · simp [h1] at h
      by_cases h2 : p a = true
      · simp [List.filter_cons, h2, findNode_cons, h1, ih h]
      · simp [List.filter_cons, h2, ih h]

theorem findNode_filter {q : List Node} {k : Key} {n : Node} {p : Node → Bool}
    (hnd : (q.map (·.key)).Nodup) (h : findNode (q.filter p) k = some n) : findNode q k = some n := by
  have ⟨hm, hk⟩ := findNode_some h
  have := findNode_of_mem hnd (List.mem_filter.mp hm).1
  rwa [hk] at this

/-! ## locks -/

theorem Lock.holds_lt {lk : Lock} {k : Key} (h : lk.holds k) : 0 < lk.acquiredCount := by
  obtain ⟨j, hj, _⟩ := h; omega

/-! ## the effects of the steps, case by case -/

def succLock (lk : Lock) : Lock :=
  { lk with acquiredCount := lk.acquiredCount + 1, phase := phaseAfterSuccess lk }

def relLock (lk : Lock) : Lock :=
  { lk with acquiredCount := lk.acquiredCount - 1, phase := if lk.acquiredCount - 1 = 0 then .done else .releasing }

def relNodeF (m c : Nat) (h : Option LockId) : Node → Node :=
  fun n => { n with maxCommitTS := m, holder := h, pubs := c :: n.pubs }

def newNode (key : Key) (l : LockId) : Node := { key := key, maxCommitTS := 0, holder := some l, pubs := [] }

/-- `Eff cfg s s'`: `s'` is the result of one critical section (or of a step that touches no slot) in `s`.
    The recycling at the head of `acquireSlot` is factored out (`step_eff`). -/
inductive Eff (cfg : Cfg) (s : State) : State → Prop
  | gen (ts : Nat) (keys : List Key) (hnd : keys.Nodup) : Eff cfg s (genLock cfg s ts keys)
  | recycle (i ts : Nat) : Eff cfg s (recycleSlot cfg s i ts)
  | staleRet (l : LockId) (lk : Lock) (hl : s.locks l = some lk)
      (hp : lk.phase = .acquiring ∨ lk.phase = .woken) (hst : lk.isStale = true) :
      Eff cfg s { s with locks := upd s.locks l (some { lk with phase := .acquired }) }
  | acqNew (l : LockId) (lk : Lock) (key : Key) (slotID : Nat) (hl : s.locks l = some lk)
      (hp : lk.phase = .acquiring ∨ lk.phase = .woken) (hst : lk.isStale = false)
      (hk : lk.keys[lk.acquiredCount]? = some key) (hs : lk.requiredSlots[lk.acquiredCount]? = some slotID)
      (hf : findNode (s.slots slotID).queue key = none) :
      Eff cfg s { s with
        slots := upd s.slots slotID { (s.slots slotID) with queue := newNode key l :: (s.slots slotID).queue,
                                                            count := (s.slots slotID).count + 1 },
        locks := upd s.locks l (some (succLock lk)) }
  | acqStale (l : LockId) (lk : Lock) (key : Key) (slotID : Nat) (n : Node) (hl : s.locks l = some lk)
      (hp : lk.phase = .acquiring ∨ lk.phase = .woken) (hst : lk.isStale = false)
      (hk : lk.keys[lk.acquiredCount]? = some key) (hs : lk.requiredSlots[lk.acquiredCount]? = some slotID)
      (hf : findNode (s.slots slotID).queue key = some n) (hgt : n.maxCommitTS > lk.startTS) :
      Eff cfg s { s with locks := upd s.locks l (some { lk with isStale := true, phase := .acquired }) }
  | acqFree (l : LockId) (lk : Lock) (key : Key) (slotID : Nat) (n : Node) (hl : s.locks l = some lk)
      (hp : lk.phase = .acquiring ∨ lk.phase = .woken) (hst : lk.isStale = false)
      (hk : lk.keys[lk.acquiredCount]? = some key) (hs : lk.requiredSlots[lk.acquiredCount]? = some slotID)
      (hf : findNode (s.slots slotID).queue key = some n) (hle : ¬ n.maxCommitTS > lk.startTS)
      (hh : n.holder = none) :
      Eff cfg s { s with
        slots := upd s.slots slotID { (s.slots slotID) with
          queue := updNode key (fun n => { n with holder := some l }) (s.slots slotID).queue },
        locks := upd s.locks l (some (succLock lk)) }
  | acqLocked (l : LockId) (lk : Lock) (key : Key) (slotID : Nat) (n : Node) (o : LockId) (hl : s.locks l = some lk)
      (hp : lk.phase = .acquiring ∨ lk.phase = .woken) (hst : lk.isStale = false)
      (hk : lk.keys[lk.acquiredCount]? = some key) (hs : lk.requiredSlots[lk.acquiredCount]? = some slotID)
      (hf : findNode (s.slots slotID).queue key = some n) (hle : ¬ n.maxCommitTS > lk.startTS)
      (hh : n.holder = some o) :
      Eff cfg s { s with
        slots := upd s.slots slotID { (s.slots slotID) with waiting := (s.slots slotID).waiting ++ [l] },
        locks := upd s.locks l (some { lk with phase := .waiting }) }
  | unlock (l : LockId) (lk : Lock) (c : Nat) (hl : s.locks l = some lk) (hp : lk.phase = .acquired) :
      Eff cfg s { s with
        locks := upd s.locks l (some { lk with commitTS := c, phase := if lk.acquiredCount = 0 then .done else .releasing }) }
  | relNone (l : LockId) (lk : Lock) (key : Key) (slotID : Nat) (n : Node) (hl : s.locks l = some lk)
      (hp : lk.phase = .releasing) (hc : lk.acquiredCount ≠ 0)
      (hk : lk.keys[lk.acquiredCount - 1]? = some key) (hs : lk.requiredSlots[lk.acquiredCount - 1]? = some slotID)
      (hf : findNode (s.slots slotID).queue key = some n) (hh : n.holder = some l)
      (hw : (s.slots slotID).waiting.find? (awaits s key) = none) :
      Eff cfg s { s with
        slots := upd s.slots slotID { (s.slots slotID) with
          queue := updNode key (relNodeF (max n.maxCommitTS lk.commitTS) lk.commitTS none) (s.slots slotID).queue },
        locks := upd s.locks l (some (relLock lk)),
        published := (key, lk.commitTS) :: s.published }
  | relStale (l : LockId) (lk : Lock) (key : Key) (slotID : Nat) (n : Node) (w : LockId) (lkw : Lock)
      (hl : s.locks l = some lk) (hp : lk.phase = .releasing) (hc : lk.acquiredCount ≠ 0)
      (hk : lk.keys[lk.acquiredCount - 1]? = some key) (hs : lk.requiredSlots[lk.acquiredCount - 1]? = some slotID)
      (hf : findNode (s.slots slotID).queue key = some n) (hh : n.holder = some l)
      (hw : (s.slots slotID).waiting.find? (awaits s key) = some w) (hlw : s.locks w = some lkw)
      (hgt : max n.maxCommitTS lk.commitTS > lkw.startTS) :
      Eff cfg s { s with
        slots := upd s.slots slotID { (s.slots slotID) with
          queue := updNode key (relNodeF (max n.maxCommitTS lk.commitTS) lk.commitTS (some w)) (s.slots slotID).queue,
          waiting := (s.slots slotID).waiting.erase w },
        locks := upd (upd s.locks l (some (relLock lk))) w
          (some { lkw with acquiredCount := lkw.acquiredCount + 1, isStale := true, phase := .woken }),
        published := (key, lk.commitTS) :: s.published }
  | relWake (l : LockId) (lk : Lock) (key : Key) (slotID : Nat) (n : Node) (w : LockId) (lkw : Lock)
      (hl : s.locks l = some lk) (hp : lk.phase = .releasing) (hc : lk.acquiredCount ≠ 0)
      (hk : lk.keys[lk.acquiredCount - 1]? = some key) (hs : lk.requiredSlots[lk.acquiredCount - 1]? = some slotID)
      (hf : findNode (s.slots slotID).queue key = some n) (hh : n.holder = some l)
      (hw : (s.slots slotID).waiting.find? (awaits s key) = some w) (hlw : s.locks w = some lkw)
      (hle : ¬ max n.maxCommitTS lk.commitTS > lkw.startTS) :
      Eff cfg s { s with
        slots := upd s.slots slotID { (s.slots slotID) with
          queue := updNode key (relNodeF (max n.maxCommitTS lk.commitTS) lk.commitTS none) (s.slots slotID).queue,
          waiting := (s.slots slotID).waiting.erase w },
        locks := upd (upd s.locks l (some (relLock lk))) w (some { lkw with phase := .woken }),
        published := (key, lk.commitTS) :: s.published }

theorem phase_cases {lk : Lock} (h : ¬ (lk.phase ≠ .acquiring ∧ lk.phase ≠ .woken)) :
    lk.phase = .acquiring ∨ lk.phase = .woken := by
  cases hp : lk.phase <;> simp [hp] at h ⊢

theorem acquireCore_eff {cfg : Cfg} {s : State} {l : LockId} {lk : Lock} {key : Key} {slotID : Nat}
    (hl : s.locks l = some lk) (hp : lk.phase = .acquiring ∨ lk.phase = .woken) (hst : lk.isStale = false)
    (hk : lk.keys[lk.acquiredCount]? = some key) (hs : lk.requiredSlots[lk.acquiredCount]? = some slotID) :
    Eff cfg s (acquireCore s l lk key slotID).1 := by
  generalize hr : acquireCore s l lk key slotID = r
  unfold acquireCore at hr
  dsimp only at hr
  split at hr
  · next hf => subst hr; exact Eff.acqNew l lk key slotID hl hp hst hk hs hf
  · next n hf =>
    split at hr
    · next hgt => subst hr; exact Eff.acqStale l lk key slotID n hl hp hst hk hs hf hgt
    · next hle =>
      split at hr
      · next hh => subst hr; exact Eff.acqFree l lk key slotID n hl hp hst hk hs hf hle hh
      · next o hh => subst hr; exact Eff.acqLocked l lk key slotID n o hl hp hst hk hs hf hle hh

/-- every step is (possibly a slot recycling followed by) one effect -/
theorem step_eff {cfg : Cfg} {s s' : State} {a : Action} (h : step cfg s a = some s') :
    ∃ s1, (s1 = s ∨ ∃ i ts, s1 = recycleSlot cfg s i ts) ∧ Eff cfg s1 s' := by
  cases a with
  | genLock ts keys =>
    simp only [step] at h
    split at h
    · next hnd => cases h; exact ⟨s, .inl rfl, Eff.gen ts keys hnd⟩
    · cases h
  | recycle i ts =>
    simp only [step] at h; cases h
    exact ⟨s, .inl rfl, Eff.recycle i ts⟩
  | unlock l c =>
    simp only [step, Latch.unlock] at h
    split at h
    · cases h
    · next lk hl =>
      split at h
      · cases h
      · next hp =>
        cases h
        exact ⟨s, .inl rfl, Eff.unlock l lk c hl (by simpa using hp)⟩
  | acquire l =>
    simp only [step, Option.map_eq_some_iff] at h
    obtain ⟨⟨s2, r⟩, h, rfl⟩ := h
    unfold acquireStep at h
    split at h
    · cases h
    · next lk hl =>
      split at h
      · cases h
      · next hp =>
        have hp := phase_cases hp
        split at h
        · next hst =>
          cases h
          exact ⟨s, .inl rfl, Eff.staleRet l lk hl hp hst⟩
        · next hst =>
          unfold acquireSlot at h
          rw [hl] at h
          simp only at h
          split at h
          · cases h
          · split at h
            · next key slotID hk hs =>
              have e : s2 = (acquireCore (preRecycle cfg s slotID lk.startTS) l lk key slotID).1 := by
                injection h with h; rw [h]
              rw [e]
              have hst : lk.isStale = false := by simpa using hst
              refine ⟨preRecycle cfg s slotID lk.startTS, ?_, ?_⟩
              · unfold preRecycle; split
                · exact .inr ⟨_, _, rfl⟩
                · exact .inl rfl
              · apply acquireCore_eff _ hp hst hk hs
                unfold preRecycle; split <;> simp [recycleSlot, hl]
            · cases h
  | releaseSlot l =>
    simp only [step, Option.map_eq_some_iff] at h
    obtain ⟨⟨s2, r⟩, h, rfl⟩ := h
    refine ⟨s, .inl rfl, ?_⟩
    unfold Latch.releaseSlot at h
    split at h
    · cases h
    · next lk hl =>
      split at h
      · cases h
      · next hp =>
        have hp : lk.phase = .releasing := by simpa using hp
        split at h
        · cases h
        · next hc =>
          simp only at h
          split at h
          · next key slotID hk hs =>
            split at h
            · cases h
            · next n hf =>
              split at h
              · cases h
              · next hh =>
                have hh : n.holder = some l := by simpa using hh
                split at h
                · next hw => cases h; exact Eff.relNone l lk key slotID n hl hp hc hk hs hf hh hw
                · next w hw =>
                  split at h
                  · cases h
                  · next lkw hlw =>
                    split at h
                    · next hgt => cases h; exact Eff.relStale l lk key slotID n w lkw hl hp hc hk hs hf hh hw hlw hgt
                    · next hle => cases h; exact Eff.relWake l lk key slotID n w lkw hl hp hc hk hs hf hh hw hlw hle
          · cases h

end CGV.Latch
