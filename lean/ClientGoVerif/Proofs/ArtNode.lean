/-
  C08 helper lemmas, part 10: the inner-node containers of the radix tree (Model/ArtNode.lean) implement a finite map
  byte ↦ child: lookup after insert, growth, replacement, ordered enumeration.
-/
import ClientGoVerif.Model.ArtNode
namespace CGV.ArtNode

variable {χ : Type}

/-! ## parallel arrays as an association list -/

/-- lookup in the zipped arrays -/
def assoc (c : UInt8) : List (UInt8 × χ) → Option χ
  | [] => none
  | (k, x) :: rest => if k = c then some x else assoc c rest

theorem find4_assoc (ks : List UInt8) (cs : List χ) (hl : ks.length = cs.length) (c : UInt8) :
    (find4 ks c).bind (cs[·]?) = assoc c (ks.zip cs) := by
  induction ks generalizing cs with
  | nil => simp [find4, assoc]
  | cons k ks ih =>
    cases cs with
    | nil => simp at hl
    | cons x xs =>
      simp only [List.length_cons, Nat.add_right_cancel_iff] at hl
      have ih' := ih xs hl
      simp only [find4, List.findIdx?_cons, List.zip_cons_cons, assoc] at ih' ⊢
      by_cases hk : k = c
      · simp [hk]
      · have : (k == c) = false := by simp [hk]
        simp only [this, hk, if_false, Bool.false_eq_true]
        rw [← ih']
        cases ks.findIdx? (· == c) <;> simp

theorem insertAt_length {α} (l : List α) (i : Nat) (x : α) (hi : i ≤ l.length) : (insertAt l i x).length = l.length + 1 := by
  simp [insertAt, List.length_take, List.length_drop]; omega

theorem zip_insertAt (ks : List UInt8) (cs : List χ) (hl : ks.length = cs.length) (i : Nat) (c : UInt8) (x : χ) :
    (insertAt ks i c).zip (insertAt cs i x) = insertAt (ks.zip cs) i (c, x) := by
  induction i generalizing ks cs with
  | zero => simp [insertAt]
  | succ i ih =>
    cases ks with
    | nil =>
      cases cs with
      | nil => simp [insertAt]
      | cons _ _ => simp at hl
    | cons k ks =>
      cases cs with
      | nil => simp at hl
      | cons y ys =>
        simp only [List.length_cons, Nat.add_right_cancel_iff] at hl
        have := ih ks ys hl
        simp only [insertAt, List.take_succ_cons, List.drop_succ_cons, List.cons_append, List.zip_cons_cons] at this ⊢
        rw [this]

/-- strictly ascending keys -/
def Sorted (kv : List (UInt8 × χ)) : Prop := kv.Pairwise (fun a b => a.1 < b.1)

/-- index at which a byte that is not yet present goes -/
def rank (c : UInt8) : List (UInt8 × χ) → Nat
  | [] => 0
  | (k, _) :: rest => if c ≤ k then 0 else rank c rest + 1

theorem firstGE_eq_rank (c : UInt8) (ks : List UInt8) (cs : List χ) (hl : ks.length = cs.length) :
    firstGE c ks = rank c (ks.zip cs) := by
  induction ks generalizing cs with
  | nil => simp [firstGE, rank]
  | cons k ks ih =>
    cases cs with
    | nil => simp at hl
    | cons x xs =>
      simp only [List.length_cons, Nat.add_right_cancel_iff] at hl
      simp only [firstGE, List.zip_cons_cons, rank, ih xs hl]

theorem rank_le (c : UInt8) (kv : List (UInt8 × χ)) : rank c kv ≤ kv.length := by
  induction kv with
  | nil => simp [rank]
  | cons y ys ih => obtain ⟨k, x⟩ := y; simp only [rank]; split <;> simp <;> omega

theorem assoc_insert_rank (c : UInt8) (x : χ) (kv : List (UInt8 × χ)) (hs : Sorted kv) (hc : assoc c kv = none) (c' : UInt8) :
    assoc c' (insertAt kv (rank c kv) (c, x)) = (if c' = c then some x else assoc c' kv) := by
  induction kv with
  | nil =>
    simp only [rank, insertAt, List.take_nil, List.drop_nil, List.nil_append, assoc]
    by_cases h : c' = c
    · simp [h]
    · have : ¬ c = c' := fun e => h e.symm
      simp [h, this]
  | cons y ys ih =>
    obtain ⟨k, v⟩ := y
    have hs' := List.pairwise_cons.mp hs
    simp only [assoc] at hc
    have hkc : k ≠ c := by intro h; simp [h] at hc
    simp only [hkc, if_false] at hc
    simp only [rank]
    by_cases hle : c ≤ k
    · simp only [hle, if_true, insertAt, List.take_zero, List.nil_append, List.drop_zero, assoc]
      by_cases h1 : c' = c
      · simp [h1]
      · have : ¬ c = c' := fun e => h1 e.symm
        simp [h1, this]
    · simp only [hle, if_false, insertAt, List.take_succ_cons, List.drop_succ_cons, List.cons_append, assoc]
      have := ih hs'.2 hc
      simp only [insertAt] at this
      by_cases hk' : k = c'
      · have : c' ≠ c := by rw [← hk']; exact hkc
        simp [hk', this]
      · simp only [hk', if_false]; exact this

theorem sorted_insert_rank (c : UInt8) (x : χ) (kv : List (UInt8 × χ)) (hs : Sorted kv) (hc : assoc c kv = none) :
    Sorted (insertAt kv (rank c kv) (c, x)) := by
  induction kv with
  | nil => simp [rank, insertAt, Sorted]
  | cons y ys ih =>
    obtain ⟨k, v⟩ := y
    have hs' := List.pairwise_cons.mp hs
    simp only [assoc] at hc
    have hkc : k ≠ c := by intro h; simp [h] at hc
    simp only [hkc, if_false] at hc
    simp only [rank]
    by_cases hle : c ≤ k
    · simp only [hle, if_true, insertAt, List.take_zero, List.nil_append, List.drop_zero]
      have hlt : c < k := UInt8.lt_of_le_of_ne hle (fun e => hkc e.symm)
      show List.Pairwise _ _
      rw [List.pairwise_cons]
      refine ⟨?_, hs⟩
      intro z hz
      rcases List.mem_cons.mp hz with h | h
      · subst h; exact hlt
      · exact UInt8.lt_trans hlt (hs'.1 z h)
    · simp only [hle, if_false, insertAt, List.take_succ_cons, List.drop_succ_cons, List.cons_append]
      have hlt : k < c := UInt8.not_le.mp hle
      have ih' := ih hs'.2 hc
      simp only [insertAt] at ih'
      show List.Pairwise _ _
      rw [List.pairwise_cons]
      refine ⟨?_, ih'⟩
      intro z hz
      rcases List.mem_append.mp hz with h | h
      · exact hs'.1 z (List.mem_of_mem_take h)
      · rcases List.mem_cons.mp h with h | h
        · subst h; exact hlt
        · exact hs'.1 z (List.mem_of_mem_drop h)

/-! ## binary search on the sorted key array -/

def SortedK (ks : List UInt8) : Prop := ks.Pairwise (· < ·)

theorem getD_lt_iff (c : UInt8) (ks : List UInt8) (hs : SortedK ks) (h : Nat) (hh : h < ks.length) :
    ks.getD h 0 < c ↔ h < firstGE c ks := by
  induction ks generalizing h with
  | nil => simp at hh
  | cons k tl ih =>
    have hs' := List.pairwise_cons.mp hs
    simp only [firstGE]
    cases h with
    | zero =>
      simp only [List.getD_cons_zero]
      by_cases hle : c ≤ k
      · simp [hle, UInt8.not_lt.mpr hle]
      · simp [hle, UInt8.not_le.mp hle]
    | succ h =>
      simp only [List.getD_cons_succ]
      have hh' : h < tl.length := by simpa using hh
      by_cases hle : c ≤ k
      · simp only [hle, if_true, Nat.not_lt_zero, iff_false]
        have hmem : tl.getD h 0 ∈ tl := by
          have : tl.getD h 0 = tl[h] := by simp [hh']
          rw [this]; exact List.getElem_mem hh'
        have := hs'.1 _ hmem
        exact UInt8.not_lt.mpr (UInt8.le_of_lt (UInt8.lt_of_le_of_lt hle this))
      · simp only [hle, if_false, Nat.add_lt_add_iff_right]
        exact ih hs'.2 h hh'

theorem firstGE_le (c : UInt8) (ks : List UInt8) : firstGE c ks ≤ ks.length := by
  induction ks with
  | nil => simp [firstGE]
  | cons k tl ih => simp only [firstGE]; split <;> simp <;> omega

theorem bsearch_eq (c : UInt8) (ks : List UInt8) (hs : SortedK ks) :
    ∀ fuel lo hi, lo ≤ firstGE c ks → firstGE c ks ≤ hi → hi ≤ ks.length → hi - lo ≤ fuel →
      bsearch ks c fuel lo hi = firstGE c ks := by
  intro fuel
  induction fuel with
  | zero => intro lo hi h1 h2 _ h4; simp only [bsearch]; omega
  | succ fuel ih =>
    intro lo hi h1 h2 h3 h4
    simp only [bsearch]
    by_cases hlt : lo < hi
    · simp only [hlt, if_true]
      have hh : (lo + hi) / 2 < ks.length := by omega
      have hiff := getD_lt_iff c ks hs ((lo + hi) / 2) hh
      by_cases hc : ks.getD ((lo + hi) / 2) 0 < c
      · simp only [hc, if_true]
        have := hiff.mp hc
        exact ih _ _ (by omega) h2 h3 (by omega)
      · simp only [hc, if_false]
        have : ¬ (lo + hi) / 2 < firstGE c ks := fun h => hc (hiff.mpr h)
        exact ih _ _ h1 (by omega) (by omega) (by omega)
    · simp only [hlt, if_false]; omega

theorem bsearch_full (c : UInt8) (ks : List UInt8) (hs : SortedK ks) :
    bsearch ks c ks.length 0 ks.length = firstGE c ks :=
  bsearch_eq c ks hs _ 0 _ (Nat.zero_le _) (firstGE_le c ks) (Nat.le_refl _) (by omega)

theorem findIdx_none_of_gt (c : UInt8) (ks : List UInt8) (h : ∀ k ∈ ks, c < k) : ks.findIdx? (· == c) = none := by
  rw [List.findIdx?_eq_none_iff]
  intro k hk
  have := h k hk
  have hne : k ≠ c := by intro e; subst e; exact absurd this (UInt8.lt_irrefl _)
  simpa using hne

theorem findIdx_sorted (c : UInt8) (ks : List UInt8) (hs : SortedK ks) :
    ks.findIdx? (· == c) =
      (if (decide (firstGE c ks < ks.length) && ks.getD (firstGE c ks) 0 == c) = true then some (firstGE c ks) else none) := by
  induction ks with
  | nil => simp [firstGE]
  | cons k tl ih =>
    have hs' := List.pairwise_cons.mp hs
    simp only [firstGE, List.findIdx?_cons]
    by_cases hkc : k = c
    · subst hkc
      have : k ≤ k := UInt8.le_refl k
      simp [this]
    · have hb : (k == c) = false := by simp [hkc]
      simp only [hb, Bool.false_eq_true, if_false]
      by_cases hle : c ≤ k
      · have hlt : c < k := UInt8.lt_of_le_of_ne hle (fun e => hkc e.symm)
        simp only [hle, if_true, List.length_cons, Nat.zero_lt_succ, decide_true, List.getD_cons_zero, hb, Bool.and_false,
          Bool.false_eq_true, if_false]
        rw [findIdx_none_of_gt c tl (fun z hz => UInt8.lt_trans hlt (hs'.1 z hz))]
        rfl
      · simp only [hle, if_false, List.length_cons, Nat.add_lt_add_iff_right, List.getD_cons_succ]
        rw [ih hs'.2]
        split <;> rfl

/-- on a sorted key array the binary search of node16 finds exactly what the linear scan of node4 finds -/
theorem find16_eq_find4 (c : UInt8) (ks : List UInt8) (hs : SortedK ks) : find16 ks c = find4 ks c := by
  unfold find16 find4
  simp only []
  rw [bsearch_full c ks hs, findIdx_sorted c ks hs]

/-! ## well-formed nodes -/

def Node.WF : Node χ → Prop
  | .n4 ks cs => SortedK ks ∧ ks.length = cs.length ∧ ks.length ≤ cap4
  | .n16 ks cs => SortedK ks ∧ ks.length = cs.length ∧ ks.length ≤ cap16
  | .n48 idx cs => cs.length ≤ cap48 ∧ (∀ c i, idx c = some i → i < cs.length) ∧
      (∀ c c' i, idx c = some i → idx c' = some i → c = c')
  | .n256 _ _ => True

theorem sorted_zip (ks : List UInt8) (cs : List χ) (hl : ks.length = cs.length) : SortedK ks ↔ Sorted (ks.zip cs) := by
  have hm : (ks.zip cs).map (·.1) = ks := by rw [List.map_fst_zip]; omega
  constructor
  · intro h
    have : ((ks.zip cs).map (·.1)).Pairwise (· < ·) := by rw [hm]; exact h
    exact List.pairwise_map.mp this
  · intro h
    have : ((ks.zip cs).map (·.1)).Pairwise (· < ·) := List.pairwise_map.mpr h
    rw [hm] at this; exact this

theorem find_n4 (ks : List UInt8) (cs : List χ) (hl : ks.length = cs.length) (c : UInt8) :
    (Node.n4 ks cs).findChild c = assoc c (ks.zip cs) := find4_assoc ks cs hl c

theorem find_n16 (ks : List UInt8) (cs : List χ) (hs : SortedK ks) (hl : ks.length = cs.length) (c : UInt8) :
    (Node.n16 ks cs).findChild c = assoc c (ks.zip cs) := by
  simp only [Node.findChild, find16_eq_find4 c ks hs]
  exact find4_assoc ks cs hl c

/-- sorted insertion into the parallel arrays at the index the code computes -/
theorem arrays_insert (ks : List UInt8) (cs : List χ) (hs : SortedK ks) (hl : ks.length = cs.length) (c : UInt8) (x : χ)
    (hc : assoc c (ks.zip cs) = none) :
    SortedK (insertAt ks (firstGE c ks) c) ∧
    (insertAt ks (firstGE c ks) c).length = (insertAt cs (firstGE c ks) x).length ∧
    (insertAt ks (firstGE c ks) c).length = ks.length + 1 ∧
    ∀ c', assoc c' ((insertAt ks (firstGE c ks) c).zip (insertAt cs (firstGE c ks) x)) =
      (if c' = c then some x else assoc c' (ks.zip cs)) := by
  have hr := firstGE_eq_rank c ks cs hl
  have hle : firstGE c ks ≤ ks.length := firstGE_le c ks
  have hl1 := insertAt_length ks (firstGE c ks) c hle
  have hl2 := insertAt_length cs (firstGE c ks) x (by omega)
  have hz := zip_insertAt ks cs hl (firstGE c ks) c x
  have hsz := (sorted_zip ks cs hl).mp hs
  refine ⟨?_, by omega, hl1, ?_⟩
  · rw [sorted_zip _ (insertAt cs (firstGE c ks) x) (by omega), hz, hr]
    exact sorted_insert_rank c x _ hsz hc
  · intro c'
    rw [hz, hr]
    exact assoc_insert_rank c x _ hsz hc c'

theorem idxOfKeys_eq (ks : List UInt8) (hs : SortedK ks) (i : Nat) (f : UInt8 → Option Nat) (c : UInt8) :
    idxOfKeys ks i f c = (match ks.findIdx? (· == c) with | some j => some (j + i) | none => f c) := by
  induction ks generalizing i f with
  | nil => simp [idxOfKeys]
  | cons k tl ih =>
    have hs' := List.pairwise_cons.mp hs
    simp only [idxOfKeys, List.findIdx?_cons]
    rw [ih hs'.2]
    by_cases hkc : k = c
    · subst hkc
      rw [findIdx_none_of_gt k tl hs'.1]
      simp
    · have hb : (k == c) = false := by simp [hkc]
      have hck : ¬ c = k := fun e => hkc e.symm
      simp only [hb, Bool.false_eq_true, if_false, hck]
      cases tl.findIdx? (· == c) with
      | none => rfl
      | some j => simp; omega

theorem find_grow16 (ks : List UInt8) (cs : List χ) (hs : SortedK ks) (hl : ks.length = cs.length) (c : UInt8) :
    (grow16 ks cs).findChild c = assoc c (ks.zip cs) := by
  simp only [grow16, Node.findChild, idxOfKeys_eq ks hs]
  rw [← find4_assoc ks cs hl c]
  simp only [find4]
  cases ks.findIdx? (· == c) <;> rfl

theorem wf_grow16 (ks : List UInt8) (cs : List χ) (hs : SortedK ks) (hl : ks.length = cs.length) (hcap : cs.length ≤ cap48) :
    (grow16 ks cs).WF := by
  have hget : ∀ c i, idxOfKeys ks 0 (fun _ => none) c = some i → ∃ h : i < ks.length, ks[i] = c := by
    intro c i hi
    rw [idxOfKeys_eq ks hs] at hi
    cases hf : ks.findIdx? (· == c) with
    | none => rw [hf] at hi; cases hi
    | some j =>
      rw [hf] at hi
      simp only [Nat.add_zero, Option.some.injEq] at hi
      subst hi
      obtain ⟨h1, h2, _⟩ := List.findIdx?_eq_some_iff_getElem.mp hf
      exact ⟨h1, by simpa using h2⟩
  refine ⟨hcap, ?_, ?_⟩
  · intro c i hi
    obtain ⟨h, _⟩ := hget c i hi
    omega
  · intro c c' i h1 h2
    obtain ⟨_, e1⟩ := hget c i h1
    obtain ⟨_, e2⟩ := hget c' i h2
    rw [← e1, ← e2]

/-! ## lookup after insert, for every node kind incl. growth -/

theorem add256_find (ch : UInt8 → Option χ) (n : Nat) (c : UInt8) (x : χ) (c' : UInt8) :
    (add256 ch n c x).findChild c' = (if c' = c then some x else ch c') := rfl

theorem add48_spec (idx : UInt8 → Option Nat) (cs : List χ) (hw : (Node.n48 idx cs).WF) (c : UInt8) (x : χ) :
    (add48 idx cs c x).WF ∧
    ∀ c', (add48 idx cs c x).findChild c' = (if c' = c then some x else (Node.n48 idx cs).findChild c') := by
  obtain ⟨hcap, hidx, hinj⟩ := hw
  simp only [add48]
  by_cases hfull : cs.length ≥ cap48
  · simp only [hfull, if_true, grow48]
    exact ⟨trivial, fun c' => rfl⟩
  · simp only [hfull, if_false]
    constructor
    · refine ⟨by simp [cap48] at hfull ⊢; omega, ?_, ?_⟩
      · intro c' i hi
        by_cases h : c' = c
        · simp [h] at hi; simp; omega
        · simp only [h, if_false] at hi
          have := hidx c' i hi
          simp; omega
      · intro c1 c2 i h1 h2
        by_cases e1 : c1 = c
        · by_cases e2 : c2 = c
          · rw [e1, e2]
          · simp only [e1, if_true, Option.some.injEq] at h1
            simp only [e2, if_false] at h2
            have := hidx c2 i h2
            omega
        · by_cases e2 : c2 = c
          · simp only [e2, if_true, Option.some.injEq] at h2
            simp only [e1, if_false] at h1
            have := hidx c1 i h1
            omega
          · simp only [e1, if_false] at h1
            simp only [e2, if_false] at h2
            exact hinj c1 c2 i h1 h2
    · intro c'
      simp only [Node.findChild]
      by_cases h : c' = c
      · simp [h]
      · simp only [h, if_false]
        cases hi : idx c' with
        | none => rfl
        | some i =>
          have := hidx c' i hi
          simp [List.getElem?_append_left this]

theorem add16_spec (ks : List UInt8) (cs : List χ) (hw : (Node.n16 ks cs).WF) (c : UInt8) (x : χ)
    (hc : (Node.n16 ks cs).findChild c = none) :
    (add16 ks cs c x).WF ∧
    ∀ c', (add16 ks cs c x).findChild c' = (if c' = c then some x else (Node.n16 ks cs).findChild c') := by
  obtain ⟨hs, hl, hcap⟩ := hw
  have hfind := find_n16 ks cs hs hl
  rw [hfind] at hc
  simp only [add16]
  by_cases hfull : ks.length ≥ cap16
  · simp only [hfull, if_true, grow16]
    have hw48 : (Node.n48 (idxOfKeys ks 0 (fun _ => none)) cs).WF :=
      wf_grow16 ks cs hs hl (by simp [cap16, cap48] at hcap ⊢; omega)
    obtain ⟨h1, h2⟩ := add48_spec _ cs hw48 c x
    refine ⟨h1, fun c' => ?_⟩
    rw [h2 c', hfind c']
    have := find_grow16 ks cs hs hl c'
    simp only [grow16] at this
    rw [this]
  · simp only [hfull, if_false, bsearch_full c ks hs]
    obtain ⟨a1, a2, a3, a4⟩ := arrays_insert ks cs hs hl c x hc
    refine ⟨⟨a1, a2, by simp [cap16] at hfull ⊢; omega⟩, fun c' => ?_⟩
    rw [find_n16 _ _ a1 a2, a4 c', hfind c']

theorem add4_spec (ks : List UInt8) (cs : List χ) (hw : (Node.n4 ks cs).WF) (c : UInt8) (x : χ)
    (hc : (Node.n4 ks cs).findChild c = none) :
    (add4 ks cs c x).WF ∧
    ∀ c', (add4 ks cs c x).findChild c' = (if c' = c then some x else (Node.n4 ks cs).findChild c') := by
  obtain ⟨hs, hl, hcap⟩ := hw
  have hfind := find_n4 ks cs hl
  rw [hfind] at hc
  simp only [add4]
  by_cases hfull : ks.length ≥ cap4
  · simp only [hfull, if_true, grow4]
    have hw16 : (Node.n16 ks cs).WF := ⟨hs, hl, by simp [cap4, cap16] at hcap ⊢; omega⟩
    have hc16 : (Node.n16 ks cs).findChild c = none := by rw [find_n16 ks cs hs hl]; exact hc
    obtain ⟨h1, h2⟩ := add16_spec ks cs hw16 c x hc16
    refine ⟨h1, fun c' => ?_⟩
    rw [h2 c', find_n16 ks cs hs hl, hfind c']
  · simp only [hfull, if_false]
    obtain ⟨a1, a2, a3, a4⟩ := arrays_insert ks cs hs hl c x hc
    refine ⟨⟨a1, a2, by simp [cap4] at hfull ⊢; omega⟩, fun c' => ?_⟩
    rw [find_n4 _ _ a2, a4 c', hfind c']

/-- addChild: the new byte maps to the new child, every other byte is unaffected, the node stays well formed —
    across the growth steps 4 → 16 → 48 → 256 -/
theorem addChild_spec (n : Node χ) (hw : n.WF) (c : UInt8) (x : χ) (hc : n.findChild c = none) :
    (n.addChild c x).WF ∧ ∀ c', (n.addChild c x).findChild c' = (if c' = c then some x else n.findChild c') := by
  cases n with
  | n4 ks cs => exact add4_spec ks cs hw c x hc
  | n16 ks cs => exact add16_spec ks cs hw c x hc
  | n48 idx cs => exact add48_spec idx cs hw c x
  | n256 ch num => exact ⟨trivial, fun c' => rfl⟩

/-! ## node kind and fill -/

def capOf : Node χ → Nat
  | .n4 _ _ => cap4 | .n16 _ _ => cap16 | .n48 _ _ => cap48 | .n256 _ _ => 256

def nextKind : Nat → Nat
  | 4 => 16 | 16 => 48 | _ => 256

theorem bsearch_le (ks : List UInt8) (c : UInt8) :
    ∀ fuel lo hi, lo ≤ hi → lo ≤ bsearch ks c fuel lo hi ∧ bsearch ks c fuel lo hi ≤ hi := by
  intro fuel
  induction fuel with
  | zero => intro lo hi h; simp only [bsearch]; exact ⟨Nat.le_refl _, h⟩
  | succ f ih =>
    intro lo hi h
    simp only [bsearch]
    split
    · split
      · have := ih ((lo + hi) / 2 + 1) hi (by omega); omega
      · have := ih lo ((lo + hi) / 2) (by omega); omega
    · omega

theorem add48_kind_num (idx : UInt8 → Option Nat) (cs : List χ) (c : UInt8) (x : χ) :
    (add48 idx cs c x).num = cs.length + 1 ∧
    (add48 idx cs c x).kind = (if cs.length < cap48 then 48 else 256) := by
  simp only [add48]
  by_cases hfull : cs.length ≥ cap48
  · have : ¬ cs.length < cap48 := by omega
    simp only [hfull, if_true, grow48, add256, Node.num, Node.kind, this, if_false, and_self]
  · have : cs.length < cap48 := by omega
    simp only [hfull, if_false, Node.num, Node.kind, this, if_true, List.length_append, List.length_cons, List.length_nil,
      and_self]

theorem add16_kind_num (ks : List UInt8) (cs : List χ) (hl : ks.length = cs.length) (hcap : ks.length ≤ cap16) (c : UInt8) (x : χ) :
    (add16 ks cs c x).num = ks.length + 1 ∧
    (add16 ks cs c x).kind = (if ks.length < cap16 then 16 else 48) := by
  simp only [add16]
  by_cases hfull : ks.length ≥ cap16
  · have h1 : ¬ ks.length < cap16 := by omega
    have h2 : cs.length < cap48 := by simp only [cap16, cap48] at *; omega
    obtain ⟨a, b⟩ := add48_kind_num (idxOfKeys ks 0 (fun _ => none)) cs c x
    simp only [hfull, if_true, grow16, h1, if_false]
    rw [a, b, if_pos h2, hl]
    exact ⟨rfl, rfl⟩
  · have h1 : ks.length < cap16 := by omega
    have hle := (bsearch_le ks c ks.length 0 ks.length (Nat.zero_le _)).2
    simp only [hfull, if_false, Node.num, Node.kind, h1, if_true, insertAt_length ks _ c hle, and_self]

theorem add4_kind_num (ks : List UInt8) (cs : List χ) (hl : ks.length = cs.length) (hcap : ks.length ≤ cap4) (c : UInt8) (x : χ) :
    (add4 ks cs c x).num = ks.length + 1 ∧
    (add4 ks cs c x).kind = (if ks.length < cap4 then 4 else 16) := by
  simp only [add4]
  by_cases hfull : ks.length ≥ cap4
  · have h1 : ¬ ks.length < cap4 := by omega
    have h2 : ks.length < cap16 := by simp only [cap4, cap16] at *; omega
    obtain ⟨a, b⟩ := add16_kind_num ks cs hl (by omega) c x
    simp only [hfull, if_true, grow4, h1, if_false]
    rw [a, b, if_pos h2]
    exact ⟨rfl, rfl⟩
  · have h1 : ks.length < cap4 := by omega
    simp only [hfull, if_false, Node.num, Node.kind, h1, if_true, insertAt_length ks _ c (firstGE_le c ks), and_self]

/-- a node grows to the next kind exactly when it is full (4 → 16 → 48 → 256), and holds one child more afterwards -/
theorem addChild_kind_num (n : Node χ) (hw : n.WF) (c : UInt8) (x : χ) :
    (n.addChild c x).num = n.num + 1 ∧
    (n.addChild c x).kind = (if n.num < capOf n then n.kind else nextKind n.kind) := by
  cases n with
  | n4 ks cs => exact add4_kind_num ks cs hw.2.1 hw.2.2 c x
  | n16 ks cs => exact add16_kind_num ks cs hw.2.1 hw.2.2 c x
  | n48 idx cs => exact add48_kind_num idx cs c x
  | n256 ch num =>
    refine ⟨rfl, ?_⟩
    simp only [Node.addChild, add256, Node.kind, capOf, nextKind]
    split <;> rfl

/-! ## the children in iteration order -/

theorem mem_iff_assoc (kv : List (UInt8 × χ)) (hs : Sorted kv) (c : UInt8) (x : χ) : (c, x) ∈ kv ↔ assoc c kv = some x := by
  induction kv with
  | nil => simp [assoc]
  | cons y ys ih =>
    obtain ⟨k, v⟩ := y
    have hs' := List.pairwise_cons.mp hs
    simp only [List.mem_cons, assoc]
    by_cases hk : k = c
    · subst hk
      simp only [if_true, Option.some.injEq, Prod.mk.injEq, true_and]
      constructor
      · rintro (h | h)
        · exact h.symm
        · exact absurd (hs'.1 _ h) (UInt8.lt_irrefl _)
      · intro h; exact Or.inl h.symm
    · simp only [hk, if_false, Prod.mk.injEq]
      rw [← ih hs'.2]
      constructor
      · rintro (⟨h, _⟩ | h)
        · exact absurd h.symm hk
        · exact h
      · intro h; exact Or.inr h

theorem mem_allBytes (c : UInt8) : c ∈ allBytes := by
  simp only [allBytes, List.mem_map, List.mem_range]
  exact ⟨c.toNat, c.toNat_lt, UInt8.ofNat_toNat⟩

theorem allBytes_sorted : allBytes.Pairwise (· < ·) := by
  simp only [allBytes]
  rw [List.pairwise_map]
  have h := List.pairwise_lt_range (n := 256)
  refine List.Pairwise.imp_of_mem ?_ h
  intro a b ha hb hab
  simp only [List.mem_range] at ha hb
  rw [UInt8.lt_iff_toNat_lt, UInt8.toNat_ofNat', UInt8.toNat_ofNat']
  omega

theorem byMap_mem (f : UInt8 → Option χ) (c : UInt8) (x : χ) :
    (c, x) ∈ allBytes.filterMap (fun c => (f c).map fun x => (c, x)) ↔ f c = some x := by
  simp only [List.mem_filterMap]
  constructor
  · rintro ⟨c0, _, h⟩
    cases hf : f c0 with
    | none => rw [hf] at h; cases h
    | some y =>
      rw [hf] at h
      simp only [Option.map_some, Option.some.injEq, Prod.mk.injEq] at h
      rw [← h.1, ← h.2]; exact hf
  · intro h
    exact ⟨c, mem_allBytes c, by rw [h]; rfl⟩

theorem byMap_sorted (f : UInt8 → Option χ) : Sorted (allBytes.filterMap (fun c => (f c).map fun x => (c, x))) := by
  have h := allBytes_sorted
  generalize allBytes = l at h
  induction l with
  | nil => simp [Sorted]
  | cons a tl ih =>
    have h' := List.pairwise_cons.mp h
    simp only [List.filterMap_cons]
    cases hf : f a with
    | none => simp only [Option.map_none]; exact ih h'.2
    | some y =>
      simp only [Option.map_some]
      show List.Pairwise _ _
      rw [List.pairwise_cons]
      refine ⟨?_, ih h'.2⟩
      intro z hz
      obtain ⟨b, hb, hz'⟩ := List.mem_filterMap.mp hz
      cases hfb : f b with
      | none => rw [hfb] at hz'; cases hz'
      | some w =>
        rw [hfb] at hz'
        simp only [Option.map_some, Option.some.injEq] at hz'
        rw [← hz']
        exact h'.1 b hb

/-- the iterator sees exactly the children `findChild` finds, in strictly ascending byte order -/
theorem children_spec (n : Node χ) (hw : n.WF) :
    (∀ c x, (c, x) ∈ n.children ↔ n.findChild c = some x) ∧ Sorted n.children := by
  cases n with
  | n4 ks cs =>
    obtain ⟨hs, hl, _⟩ := hw
    have hsz := (sorted_zip ks cs hl).mp hs
    exact ⟨fun c x => by rw [find_n4 ks cs hl]; exact mem_iff_assoc _ hsz c x, hsz⟩
  | n16 ks cs =>
    obtain ⟨hs, hl, _⟩ := hw
    have hsz := (sorted_zip ks cs hl).mp hs
    exact ⟨fun c x => by rw [find_n16 ks cs hs hl]; exact mem_iff_assoc _ hsz c x, hsz⟩
  | n48 idx cs =>
    exact ⟨fun c x => byMap_mem (fun c => (idx c).bind (cs[·]?)) c x, byMap_sorted (fun c => (idx c).bind (cs[·]?))⟩
  | n256 ch num => exact ⟨fun c x => byMap_mem ch c x, byMap_sorted ch⟩

/-! ## any sequence of insertions of distinct bytes -/

def build : List (UInt8 × χ) → Node χ
  | [] => Node.empty
  | (c, x) :: rest => (build rest).addChild c x

theorem build_spec (l : List (UInt8 × χ)) (hnd : (l.map (·.1)).Nodup) :
    (build l).WF ∧ (∀ c, (build l).findChild c = assoc c l) ∧ (build l).num = l.length := by
  induction l with
  | nil =>
    refine ⟨⟨by simp [SortedK], rfl, by simp [cap4]⟩, fun c => ?_, rfl⟩
    simp [build, Node.empty, Node.findChild, find4, assoc]
  | cons y ys ih =>
    obtain ⟨c, x⟩ := y
    simp only [List.map_cons, List.nodup_cons] at hnd
    obtain ⟨hw, hf, hn⟩ := ih hnd.2
    have hc : (build ys).findChild c = none := by
      rw [hf c]
      cases ha : assoc c ys with
      | none => rfl
      | some v =>
        exfalso
        apply hnd.1
        have : ∀ (l : List (UInt8 × χ)), assoc c l = some v → c ∈ l.map (·.1) := by
          intro l
          induction l with
          | nil => intro h; simp [assoc] at h
          | cons z zs ihz =>
            obtain ⟨k, w⟩ := z
            intro h
            simp only [assoc] at h
            by_cases hk : k = c
            · simp [hk]
            · simp only [hk, if_false] at h
              simp [ihz h]
        exact this ys ha
    obtain ⟨h1, h2⟩ := addChild_spec (build ys) hw c x hc
    refine ⟨h1, fun c' => ?_, ?_⟩
    · simp only [build, assoc]
      rw [h2 c', hf c']
      by_cases h : c' = c
      · simp [h]
      · have : ¬ c = c' := fun e => h e.symm
        simp [h, this]
    · simp only [build, (addChild_kind_num (build ys) hw c x).1, hn, List.length_cons]

/-! ## replaceChild -/

theorem set_lookup (keys : List UInt8) (cs : List χ) (c c' : UInt8) (i : Nat) (x : χ)
    (hi : keys.findIdx? (· == c) = some i) (hl : keys.length = cs.length) :
    (keys.findIdx? (· == c')).bind ((cs.set i x)[·]?) =
      (if c' = c then some x else (keys.findIdx? (· == c')).bind (cs[·]?)) := by
  obtain ⟨hi1, hi2, _⟩ := List.findIdx?_eq_some_iff_getElem.mp hi
  have hki : keys[i] = c := by simpa using hi2
  by_cases h : c' = c
  · subst h
    simp only [hi, Option.bind_some, if_true]
    rw [List.getElem?_set_self (by omega)]
  · simp only [h, if_false]
    cases hj : keys.findIdx? (· == c') with
    | none => rfl
    | some j =>
      obtain ⟨hj1, hj2, _⟩ := List.findIdx?_eq_some_iff_getElem.mp hj
      have hkj : keys[j] = c' := by simpa using hj2
      have hne : i ≠ j := by
        intro e; subst e
        exact h (hkj.symm.trans hki)
      simp only [Option.bind_some]
      rw [List.getElem?_set_ne hne]

/-- replaceChild changes exactly the child of the given byte; on an absent byte it is the panic -/
theorem replaceChild_spec (n : Node χ) (hw : n.WF) (c : UInt8) (x : χ) :
    (n.findChild c = none → n.replaceChild c x = none) ∧
    (∀ y, n.findChild c = some y → ∃ n', n.replaceChild c x = some n' ∧ n'.WF ∧
      ∀ c', n'.findChild c' = (if c' = c then some x else n.findChild c')) := by
  cases n with
  | n4 ks cs =>
    obtain ⟨hs, hl, hcap⟩ := hw
    simp only [Node.findChild, Node.replaceChild, find4]
    cases hi : ks.findIdx? (· == c) with
    | none => exact ⟨fun _ => rfl, fun y hy => by simp at hy⟩
    | some i =>
      refine ⟨fun h => ?_, fun y _ => ⟨_, rfl, ⟨hs, by simp [hl], hcap⟩, fun c' => set_lookup ks cs c c' i x hi hl⟩⟩
      obtain ⟨hi1, _⟩ := List.findIdx?_eq_some_iff_getElem.mp hi
      simp only [Option.bind_some] at h
      rw [List.getElem?_eq_getElem (by omega)] at h
      cases h
  | n16 ks cs =>
    obtain ⟨hs, hl, hcap⟩ := hw
    simp only [Node.findChild, Node.replaceChild, find16_eq_find4 _ ks hs, find4]
    cases hi : ks.findIdx? (· == c) with
    | none => exact ⟨fun _ => rfl, fun y hy => by simp at hy⟩
    | some i =>
      refine ⟨fun h => ?_, fun y _ => ⟨_, rfl, ⟨hs, by simp [hl], hcap⟩, fun c' => ?_⟩⟩
      · obtain ⟨hi1, _⟩ := List.findIdx?_eq_some_iff_getElem.mp hi
        simp only [Option.bind_some] at h
        rw [List.getElem?_eq_getElem (by omega)] at h
        cases h
      · simp only [Node.findChild, find16_eq_find4 _ ks hs, find4]
        exact set_lookup ks cs c c' i x hi hl
  | n48 idx cs =>
    obtain ⟨hcap, hidx, hinj⟩ := hw
    simp only [Node.findChild, Node.replaceChild]
    cases hi : idx c with
    | none => exact ⟨fun _ => rfl, fun y hy => by simp at hy⟩
    | some i =>
      have hlt := hidx c i hi
      refine ⟨fun h => ?_, fun y _ => ⟨_, rfl, ⟨by simpa using hcap, by simpa using hidx, hinj⟩, fun c' => ?_⟩⟩
      · simp only [Option.bind_some] at h
        rw [List.getElem?_eq_getElem hlt] at h
        cases h
      · simp only [Node.findChild]
        by_cases h : c' = c
        · subst h
          simp only [hi, Option.bind_some, if_true]
          rw [List.getElem?_set_self hlt]
        · simp only [h, if_false]
          cases hj : idx c' with
          | none => rfl
          | some j =>
            have hne : i ≠ j := by
              intro e; subst e
              exact h (hinj c' c i hj hi)
            simp only [Option.bind_some]
            rw [List.getElem?_set_ne hne]
  | n256 ch num =>
    simp only [Node.findChild, Node.replaceChild]
    cases hc : ch c with
    | none => exact ⟨fun _ => by simp, fun y hy => by cases hy⟩
    | some v =>
      constructor
      · intro h; cases h
      · intro y _
        refine ⟨Node.n256 (fun c' => if c' = c then some x else ch c') num, by simp, ?_, fun c' => rfl⟩
        exact (trivial : (Node.n256 (fun c' => if c' = c then some x else ch c') num).WF)

/-! ## which kind a node has after n insertions -/

theorem capOf_eq_kind (n : Node χ) : capOf n = n.kind := by cases n <;> rfl

theorem build_kind (l : List (UInt8 × χ)) (hnd : (l.map (·.1)).Nodup) : (build l).kind = kindFor l.length := by
  induction l with
  | nil => rfl
  | cons y ys ih =>
    obtain ⟨c, x⟩ := y
    simp only [List.map_cons, List.nodup_cons] at hnd
    obtain ⟨hw, _, hn⟩ := build_spec ys hnd.2
    have hk := (addChild_kind_num (build ys) hw c x).2
    rw [capOf_eq_kind, hn, ih hnd.2] at hk
    simp only [build, hk, List.length_cons]
    generalize ys.length = n
    simp only [kindFor, nextKind]
    by_cases h4 : n ≤ 4
    · by_cases h3 : n + 1 ≤ 4
      · have : n < 4 := by omega
        simp [h4, h3, this]
      · have : ¬ n < 4 := by omega
        have : n + 1 ≤ 16 := by omega
        simp [h4, h3, *]
    · by_cases h16 : n ≤ 16
      · by_cases h15 : n + 1 ≤ 16
        · have : n < 16 := by omega
          have : ¬ n + 1 ≤ 4 := by omega
          simp [h4, h16, h15, *]
        · have : ¬ n < 16 := by omega
          have : ¬ n + 1 ≤ 4 := by omega
          have : n + 1 ≤ 48 := by omega
          simp [h4, h16, h15, *]
      · by_cases h48 : n ≤ 48
        · by_cases h47 : n + 1 ≤ 48
          · have : n < 48 := by omega
            have : ¬ n + 1 ≤ 4 := by omega
            have : ¬ n + 1 ≤ 16 := by omega
            simp [h4, h16, h48, h47, *]
          · have : ¬ n < 48 := by omega
            have : ¬ n + 1 ≤ 4 := by omega
            have : ¬ n + 1 ≤ 16 := by omega
            simp [h4, h16, h48, h47, *]
        · have : ¬ n + 1 ≤ 4 := by omega
          have : ¬ n + 1 ≤ 16 := by omega
          have : ¬ n + 1 ≤ 48 := by omega
          simp [h4, h16, h48, *]

end CGV.ArtNode
