/- a prewrite lock stays on its key until the transaction's own commit / rollback step (or a destroy-range):
   first over the per-key transition system (`KStep.lock_kept`, lifted with `runAll_rel`), then — looking into the
   commands that produce `locks` / `unlock` steps, which at the level of steps could replace or drop any lock, but in the
   store never touch a key that carries a prewrite lock — for every command sequence with the exact guard
   "no `commit T _`, no `rollback T`, no `wipe` on the key" (`runAll_lock_kept`). -/
import ClientGoVerif.Proofs.MvccSI
import ClientGoVerif.Proofs.MvccPrewriteLocks
namespace CGV.Mvcc
open CGV

/-! ### over the per-key steps -/

/-- the labels that keep a prewrite lock of `T` in place, judged by the step alone.  A `commit T' _` / `rollback T'`
    step needs a lock of `T'` on the key, so on a key locked by `T` only `T' = T` can happen; a `locks T'` step may
    overwrite the lock with any lock of `T'` (for `T' = T` see `KStep.lock_kept_locks`), an `unlock` step may drop it. -/
def KLabel.keepsLockStep (T : TS) : KLabel → Prop
  | .commit T' _ => T' ≠ T
  | .rollback T' => T' ≠ T
  | .locks _ => False
  | .unlock => False
  | .wipe => False
  | _ => True

/-- GOAL 2, one step: a key carrying a prewrite lock of `T` still carries a prewrite lock of `T` after every step
    other than `commit T _`, `rollback T`, `locks _`, `unlock`, `wipe`.  (`touch T` rewrites the lock keeping its op;
    `marker`, `gc`, `same` leave it alone.) -/
theorem KStep.lock_kept {e e' : Entry} {lab : KLabel} {T : TS} (h : KStep e lab e') (hl : LockedBy e T)
    (hg : lab.keepsLockStep T) : LockedBy e' T := by
  cases h with
  | same => exact hl
  | commit l k T' C hlk hT hC => exact absurd ((hl.lock_eq hlk).1 ▸ hT.symm) hg
  | rollback l k T' hlk hT => exact absurd ((hl.lock_eq hlk).1 ▸ hT.symm) hg
  | marker k T' hnl hf => exact hl.of_lock_eq rfl
  | locks k T' acts ha hf => exact absurd hg id
  | touch k T' l l' hlk hT hT' hop =>
    obtain ⟨h1, h2⟩ := hl.lock_eq hlk
    exact ⟨l', rfl, by rw [hT', ← hT]; exact h1, by rw [hop]; exact h2⟩
  | unlock acts ha => exact absurd hg id
  | gc k sp =>
    apply hl.of_lock_eq
    rw [gcWrites_eq, foldl_entryAct_delWrites]
  | wipe => exact absurd hg id

/-- a `locks T` step on a key locked by `T` leaves a lock of `T` (its op is whatever the lock writes say: at the level
    of steps a pessimistic lock write of `T` is not excluded; in the store it is, see `Cmd.run_lock_kept`) -/
theorem KStep.lock_kept_locks {e e' : Entry} {T : TS} (h : KStep e (.locks T) e') (hl : LockedBy e T) :
    ∃ l, e'.lock = some l ∧ l.startTS = T := by
  cases h with
  | locks k T acts ha hf =>
    rcases putLocks_lock e k T acts ha with h1 | h1
    · obtain ⟨l, h0, hT, _⟩ := hl
      exact ⟨l, by rw [h1]; exact h0, hT⟩
    · exact h1

/-- the step-level lemma over runs: no `locks` / `unlock` step on the key at all (i.e. no prewrite, pessimistic-lock
    or pessimistic-rollback command, whose label sets always contain one) — superseded by `runAll_lock_kept` -/
theorem runAll_lock_kept_steps (T : TS) (k : Bytes) (s : Store) (cs : List Cmd) (hs : SInv s) (hok : OkAll s cs)
    (hg : GuardAll (fun _ lab => lab.keepsLockStep T) k s cs) (hl : LockedBy (getEntry s.kv k) T) :
    LockedBy (getEntry (runAll s cs).kv k) T :=
  runAll_rel (fun e e' => LockedBy e T → LockedBy e' T) _ k
    (fun _ h => h) (fun _ _ _ h1 h2 h => h2 (h1 h))
    (fun _ _ _ _ hst hgd hle => hst.lock_kept hle hgd) s cs hs hok hg hl

/-! ### the commands behind `locks` and `unlock` steps never touch a key that carries a prewrite lock -/

theorem plMutation_acts_unlocked (s : Store) (wf : WaitFor) (r : PLReq) (m : Mutation) :
    ∀ a ∈ (plMutation s wf r m).2.2.1, ∀ T, ¬ LockedBy (getEntry s.kv a.key) T := by
  intro a ha
  obtain ⟨l, rfl, _⟩ := plMutation_acts s wf r m a ha
  rintro T ⟨l0, hl0, _, hop⟩
  have hown : plOwnPrewrite (getEntry s.kv m.key) = true := by
    have hl0' : (getEntry s.kv m.key).lock = some l0 := hl0
    simp only [plOwnPrewrite, hl0']
    cases ho : l0.op <;> simp_all
  have hnil : (plMutation s wf r m).2.2.1 = [] := by
    unfold plMutation
    split
    · rfl
    · split
      · rfl
      · first | rfl | (rw [if_pos hown])
  rw [hnil] at ha; cases ha

theorem plLoop_acts_unlocked (s : Store) (r : PLReq) (ms : List Mutation) (wf : WaitFor) (errs : List KErr)
    (results : List PLResult) (acts : List Act) (hacc : ∀ a ∈ acts, ∀ T, ¬ LockedBy (getEntry s.kv a.key) T) :
    ∀ a ∈ (plLoop s r ms wf errs results acts).2.2.1, ∀ T, ¬ LockedBy (getEntry s.kv a.key) T := by
  induction ms generalizing wf errs results acts with
  | nil => intro a ha; simp only [plLoop] at ha; exact hacc a ha
  | cons m rest ih =>
    intro a ha
    simp only [plLoop] at ha
    have hm := plMutation_acts_unlocked s wf r m
    generalize plMutation s wf r m = pm at ha hm
    obtain ⟨err, res, am, wf'⟩ := pm
    simp only [] at ha hm
    have hacc' : ∀ a ∈ acts ++ am, ∀ T, ¬ LockedBy (getEntry s.kv a.key) T := by
      intro a h
      cases List.mem_append.mp h with
      | inl h1 => exact hacc a h1
      | inr h1 => exact hm a h1
    repeat' split at ha
    all_goals
      first
      | exact hacc' a ha
      | exact ih _ _ _ _ hacc' a ha

/-- a pessimistic-lock request (refused over a foreign lock, refused over the transaction's own prewrite lock) does not
    touch a key that carries a prewrite lock -/
theorem pessimisticLock_entry_same_of_locked (s : Store) (r : PLReq) (k : Bytes) (T : TS) (hs : KvSorted s.kv)
    (hl : LockedBy (getEntry s.kv k) T) : getEntry (pessimisticLock s r).1.kv k = getEntry s.kv k := by
  simp only [pessimisticLock]
  have hacts := plLoop_acts_unlocked s r r.mutations s.waitFor [] [] [] (fun a ha => by cases ha)
  generalize plLoop s r r.mutations s.waitFor [] [] [] = pl at hacts
  obtain ⟨errs, results, acts, wf⟩ := pl
  simp only [] at hacts ⊢
  have hfinal : getEntry (applyBatch s.kv acts) k = getEntry s.kv k := by
    apply applyBatch_untouched _ _ _ hs
    intro a ha heq
    exact hacts a ha T (by rw [heq]; exact hl)
  repeat' split
  all_goals first | rfl | exact hfinal

/-- a pessimistic rollback only removes pessimistic locks -/
theorem pessimisticRollback_entry_same_of_locked (s : Store) (a b : Bytes) (keys : List Bytes) (T' F : TS) (k : Bytes)
    (T : TS) (hs : KvSorted s.kv) (hl : LockedBy (getEntry s.kv k) T) :
    getEntry (pessimisticRollback s a b keys T' F).kv k = getEntry s.kv k := by
  unfold pessimisticRollback
  apply applyBatch_untouched _ _ _ hs
  intro x hx heq
  simp only [List.mem_filterMap] at hx
  obtain ⟨k', _, hk'⟩ := hx
  split at hk'
  · rename_i l hlk
    split at hk'
    · rename_i hhit
      injection hk' with hk'; subst hk'
      have hkk : k' = k := heq
      subst hkk
      have hop := (hl.lock_eq hlk).2
      simp only [Bool.and_eq_true, beq_iff_eq] at hhit
      exact hop hhit.1.1
    · cases hk'
  · cases hk'

/-- a status check of another transaction leaves the lock on the primary alone -/
theorem checkTxnStatus_other_lock (s : Store) (p : Bytes) (T' caller cur : TS) (rb rp : Bool) (l : Lock)
    (hs : KvSorted s.kv) (hl : (getEntry s.kv p).lock = some l) (hne : l.startTS ≠ T') :
    (getEntry (checkTxnStatus s p T' caller cur rb rp).1.kv p).lock = some l := by
  have hf : Option.filter (fun x => x.startTS == T') (getEntry s.kv p).lock = none := by
    rw [hl]; simp [Option.filter, hne]
  simp only [checkTxnStatus, hf]
  cases hc : txnCommitInfo (getEntry s.kv p).writes T' with
  | some c =>
    simp only []
    split <;> exact hl
  | none =>
    simp only []
    split
    · split
      · exact hl
      · show (getEntry (applyBatch s.kv [rollbackMarker p T']) p).lock = some l
        rw [getEntry_applyBatch _ _ _ hs]
        simpa [rollbackMarker, Act.key, entryAct] using hl
    · exact hl

/-! ### over commands and command sequences -/

/-- the labels that keep a prewrite lock of `T` in place, for the store's commands: everything except the
    transaction's own commit / rollback step and destroy-range -/
def KLabel.keepsLock (T : TS) : KLabel → Prop
  | .commit T' _ => T' ≠ T
  | .rollback T' => T' ≠ T
  | .wipe => False
  | _ => True

/-- GOAL 2, one command: a key carrying a prewrite lock of `T` still carries one after any command that can produce
    neither a `commit T _` nor a `rollback T` nor a `wipe` step on it -/
theorem Cmd.run_lock_kept (s : Store) (c : Cmd) (hs : SInv s) (hok : c.Ok s) (k : Bytes) (T : TS)
    (hl : LockedBy (getEntry s.kv k) T) (hg : ∀ lab, c.labels k lab → lab.keepsLock T) :
    LockedBy (getEntry (c.run s).kv k) T := by
  obtain ⟨lab, hlab, hst⟩ := (run_refines s c hs hok).2 k
  have hk := hg lab hlab
  cases c with
  | prewrite r =>
    show LockedBy (getEntry (Mvcc.prewrite s r).1.kv k) T
    rw [prewrite_entry_same_of_locked s r k T hs.1 hl]; exact hl
  | plock r =>
    show LockedBy (getEntry (pessimisticLock s r).1.kv k) T
    rw [pessimisticLock_entry_same_of_locked s r k T hs.1 hl]; exact hl
  | prollback a b keys T' F =>
    show LockedBy (getEntry (pessimisticRollback s a b keys T' F).kv k) T
    rw [pessimisticRollback_entry_same_of_locked s a b keys T' F k T hs.1 hl]; exact hl
  | status p T' caller cur rb rp =>
    by_cases hkp : k = p
    · subst hkp
      have hne : T' ≠ T := hg (.rollback T') (Or.inr ⟨rfl, Or.inr (Or.inl rfl)⟩)
      obtain ⟨l, h0, hT, hop⟩ := hl
      exact ⟨l, checkTxnStatus_other_lock s k T' caller cur rb rp l hs.1 h0 (by rw [hT]; exact Ne.symm hne), hT, hop⟩
    · simp only [Cmd.labels] at hlab
      rcases hlab with rfl | ⟨h1, _⟩
      · exact hst.lock_kept hl trivial
      · exact absurd h1 hkp
  | commit keys T' C =>
    simp only [Cmd.labels] at hlab
    rcases hlab with rfl | ⟨_, rfl⟩ <;> exact hst.lock_kept hl hk
  | rollback keys T' =>
    simp only [Cmd.labels] at hlab
    rcases hlab with rfl | ⟨_, rfl | rfl⟩ <;> exact hst.lock_kept hl hk
  | cleanup k0 T' cur =>
    simp only [Cmd.labels] at hlab
    rcases hlab with rfl | ⟨_, rfl | rfl⟩ <;> exact hst.lock_kept hl hk
  | heartbeat k0 T' adv =>
    simp only [Cmd.labels] at hlab
    rcases hlab with rfl | ⟨_, rfl⟩ <;> exact hst.lock_kept hl hk
  | resolve a b T' C =>
    simp only [Cmd.labels] at hlab
    rcases hlab with rfl | ⟨_, ⟨_, rfl⟩ | ⟨_, rfl⟩⟩ <;> exact hst.lock_kept hl hk
  | bresolve a b infos =>
    simp only [Cmd.labels] at hlab
    rcases hlab with rfl | ⟨_, q, _, ⟨_, rfl⟩ | ⟨_, rfl⟩⟩ <;> exact hst.lock_kept hl hk
  | gc a b sp =>
    simp only [Cmd.labels] at hlab
    rcases hlab with rfl | ⟨_, rfl⟩ <;> exact hst.lock_kept hl hk
  | deleteRange a b =>
    simp only [Cmd.labels] at hlab
    rcases hlab with rfl | ⟨_, rfl⟩ <;> exact hst.lock_kept hl hk

/-- GOAL 2, every run: a prewrite lock of `T` on `k` is still there after ANY command sequence (respecting the callers'
    contract) in which no command can take a `commit T _`, `rollback T` or `wipe` step on `k` — i.e. until the
    transaction is committed or rolled back on that key (by its owner, by a resolver, by a TTL-expiry status check or
    cleanup) or the range is destroyed.  Prewrites, pessimistic-lock requests and pessimistic rollbacks of any
    transaction, including `T` itself, are allowed in between. -/
theorem runAll_lock_kept (T : TS) (k : Bytes) (s : Store) (cs : List Cmd) (hs : SInv s) (hok : OkAll s cs)
    (hg : GuardAll (fun _ lab => lab.keepsLock T) k s cs) (hl : LockedBy (getEntry s.kv k) T) :
    LockedBy (getEntry (runAll s cs).kv k) T := by
  induction cs generalizing s with
  | nil => exact hl
  | cons c rest ih =>
    exact ih (c.run s) (SInv_run s c hs hok.1) hok.2 hg.2 (Cmd.run_lock_kept s c hs hok.1 k T hl hg.1)

/-- GOAL 1a + GOAL 2: an acknowledged prewrite, then any such run — every locking mutation's key is still locked -/
theorem prewrite_ack_locks_stay (s : Store) (r : PrewriteReq) (cs : List Cmd) (hs : SInv s)
    (hack : (prewrite s r).2.any Option.isSome = false) (hops : ∀ m ∈ r.mutations, m.op ≠ .pessimisticLock)
    (hok : OkAll (prewrite s r).1 cs) (m : Mutation) (hm : m ∈ r.mutations) (hne : m.op ≠ .checkNotExists)
    (hg : GuardAll (fun _ lab => lab.keepsLock r.startTS) m.key (prewrite s r).1 cs) :
    LockedBy (getEntry (runAll (prewrite s r).1 cs).kv m.key) r.startTS :=
  runAll_lock_kept r.startTS m.key _ cs (SInv_prewrite s _ r _ hs rfl) hok hg
    (prewrite_ack_locks s r hs _ _ rfl hack hops m hm hne)

end CGV.Mvcc

namespace CGV.MvccFull
open CGV CGV.Mvcc

/-! ### the full store: base commands are served through `settle`, which keeps every lock -/

/-- GOAL 2 in the full store, one command: a base-store command served by the full store (`f.settle (c.run f.base)`,
    as `frpcExec` does) keeps a prewrite lock of `T` unless it can take a `commit T _`, `rollback T` or `wipe` step -/
theorem settle_cmd_lock_kept (f : FStore) (c : Cmd) (hs : SInv f.base) (hok : c.Ok f.base) (k : Bytes) (T : Nat)
    (hl : PrewriteLocked f T k) (hg : ∀ lab, c.labels k lab → lab.keepsLock T) :
    PrewriteLocked (f.settle (c.run f.base)) T k :=
  LockedBy.of_lock_eq (Cmd.run_lock_kept f.base c hs hok k T hl hg) (settle_lock f _ k)

/-- a CheckSecondaryLocks that finds every key locked leaves every lock of the store in place (so it can be repeated,
    by anybody, with the same answer) -/
theorem fcheckSecondaryLocks_all_locked_keeps (f : FStore) (keys : List Bytes) (T : Nat)
    (h : ∀ k ∈ keys, PrewriteLocked f T k) (k' : Bytes) (T' : Nat) (hl : PrewriteLocked f T' k') :
    PrewriteLocked (fcheckSecondaryLocks f keys T).1 T' k' := by
  rw [(sec_all_locked f keys T h).2.2]
  exact LockedBy.of_lock_eq hl (settle_lock f _ k')

theorem bump_base (f : FStore) (ts : Nat) : (f.bump ts).base = f.base ∧ (f.bump ts).async = f.async := by
  unfold FStore.bump; split <;> exact ⟨rfl, rfl⟩

theorem isAsyncLock_bump (f : FStore) (ts : Nat) (k : Bytes) (T : Nat) :
    isAsyncLock (f.bump ts) k T = isAsyncLock f k T := by
  unfold FStore.bump; split <;> rfl

/-- a status check that meets an async-commit primary (and is not told to force the transaction to 2PC) neither rolls
    back nor pushes anything, however old the lock is: it reports the lock with its secondaries, and the base store
    is unchanged — the decision is left to CheckSecondaryLocks -/
theorem fcheckTxnStatus_async_primary_untouched (f : FStore) (p : Bytes) (T caller cur : Nat) (rb rp : Bool)
    (h : isAsyncLock f p T = true) :
    (fcheckTxnStatus f p T caller cur rb rp false).1.base = f.base ∧
      (fcheckTxnStatus f p T caller cur rb rp false).2.base.action = .noAction ∧
      (fcheckTxnStatus f p T caller cur rb rp false).2.base.commitTS = 0 ∧
      (fcheckTxnStatus f p T caller cur rb rp false).2.base.err = none := by
  have hb : ((f.bump caller).bump cur).base = f.base := by rw [(bump_base _ _).1, (bump_base _ _).1]
  have h' : isAsyncLock ((f.bump caller).bump cur) p T = true := by rw [isAsyncLock_bump, isAsyncLock_bump]; exact h
  unfold fcheckTxnStatus
  simp only [h', Bool.not_false, Bool.and_self, if_true]
  split
  · exact ⟨hb, rfl, rfl, rfl⟩
  · exact ⟨hb, rfl, rfl, rfl⟩

end CGV.MvccFull
