/- the driver's executable step — the function the differential against mocktikv runs line by line — changes the store
   only through the commands the theorems are about -/
import ClientGoVerif.Model.MvccProto
import ClientGoVerif.Proofs.MvccReach

namespace CGV.Mvcc
open CGV CGV.MvccProto

theorem exec_state (s : Store) (w : List String) (s' : Store) (out : String) (h : exec s w = some (s', out)) :
    s' = s ∨ ∃ c : Cmd, s' = c.run s := by
  unfold exec at h
  split at h
  all_goals (try simp only [bind, Option.bind, pure] at h)
  all_goals (repeat' (first | (cases h; done) | (split at h) | (simp only [] at h)))
  all_goals (first | (injection h with h; injection h with h1 h2; subst h1) | skip)
  all_goals
    first
    | exact Or.inl rfl
    | exact Or.inr ⟨.prewrite _, rfl⟩
    | exact Or.inr ⟨.plock _, rfl⟩
    | exact Or.inr ⟨.prollback _ _ _ _ _, rfl⟩
    | exact Or.inr ⟨.commit _ _ _, rfl⟩
    | exact Or.inr ⟨.rollback _ _, rfl⟩
    | exact Or.inr ⟨.cleanup _ _ _, rfl⟩
    | exact Or.inr ⟨.status _ _ _ _ _ _, rfl⟩
    | exact Or.inr ⟨.heartbeat _ _ _, rfl⟩
    | exact Or.inr ⟨.resolve _ _ _ _, rfl⟩
    | exact Or.inr ⟨.bresolve _ _ _, rfl⟩
    | exact Or.inr ⟨.gc _ _ _, rfl⟩
    | exact Or.inr ⟨.deleteRange _ _, rfl⟩

end CGV.Mvcc
