import ClientGoVerif.Proofs.CodecNum
namespace CGV.Codec
open CGV

theorem ulen_bounds (v : Nat) : 1 ≤ ulen v ∧ ulen v ≤ 8 := by
  unfold ulen; repeat' split
  all_goals omega

theorem lt_pow_ulen (v : Nat) (h : v < 2 ^ 64) : v < 256 ^ ulen v := by
  unfold ulen; repeat' split
  all_goals omega

theorem ulen_mono (a b : Nat) (h : a ≤ b) : ulen a ≤ ulen b := by
  unfold ulen; repeat' split
  all_goals omega

theorem ofNat_toNat_small (x : Nat) (h : x < 256) : (UInt8.ofNat x).toNat = x := by
  simp [UInt8.toNat_ofNat']; omega

theorem decodeCmpUvarint_cons (first : UInt8) (b : Bytes) :
    decodeCmpUvarint (first :: b) =
      if first.toNat < 8 then .error .invalid
      else if first.toNat ≤ 247 then .ok (first.toNat - 8, b)
      else if b.length < first.toNat - 247 then .error .insufficient
      else .ok (fromBE 0 (b.take (first.toNat - 247)) % 2 ^ 64, b.drop (first.toNat - 247)) := rfl

theorem decode_encode_cuvarint (v : Nat) (rest : Bytes) (h : U64 v) :
    decodeCmpUvarint (encodeCmpUvarint v ++ rest) = .ok (v, rest) := by
  unfold U64 at h
  simp only [encodeCmpUvarint, pTag, nTag, Gen.positiveTagStart, Gen.negativeTagEnd]
  by_cases hs : v ≤ 247 - 8
  · simp only [hs, if_true, List.cons_append, List.nil_append, decodeCmpUvarint_cons]
    rw [ofNat_toNat_small _ (by omega)]
    have h1 : ¬ (v + 8 < 8) := by omega
    have h2 : v + 8 ≤ 247 := by omega
    simp [h1, h2]
  · have hb := ulen_bounds v
    simp only [hs, if_false, List.cons_append, decodeCmpUvarint_cons]
    rw [ofNat_toNat_small _ (by omega)]
    have h1 : ¬ (247 + ulen v < 8) := by omega
    have h2 : ¬ (247 + ulen v ≤ 247) := by omega
    have h3 : 247 + ulen v - 247 = ulen v := by omega
    simp only [h1, h2, if_false, h3, List.length_append, be_length, take_be_append, drop_be_append, fromBE_be]
    have h4 : ¬ (ulen v + rest.length < ulen v) := by omega
    simp only [h4, if_false]
    have := lt_pow_ulen v h
    have e : (0 * 256 ^ ulen v + v % 256 ^ ulen v) % 2 ^ 64 = v := by
      rw [Nat.zero_mul, Nat.zero_add, Nat.mod_eq_of_lt this, Nat.mod_eq_of_lt h]
    rw [e]

theorem encodeCmpUvarint_lt (a b : Nat) (ha : U64 a) (hb : U64 b) (h : a < b) :
    Bytes.cmp (encodeCmpUvarint a) (encodeCmpUvarint b) = .lt := by
  unfold U64 at ha hb
  simp only [encodeCmpUvarint, pTag, nTag, Gen.positiveTagStart, Gen.negativeTagEnd]
  have hba := ulen_bounds a
  have hbb := ulen_bounds b
  by_cases hsa : a ≤ 247 - 8
  · by_cases hsb : b ≤ 247 - 8
    · simp only [hsa, hsb, if_true, Bytes.cmp]
      have : UInt8.ofNat (a + 8) < UInt8.ofNat (b + 8) :=
        UInt8.lt_iff_toNat_lt.mpr (by rw [ofNat_toNat_small _ (by omega), ofNat_toNat_small _ (by omega)]; omega)
      simp only [this, if_true]
    · simp only [hsa, hsb, if_true, if_false, Bytes.cmp]
      have : UInt8.ofNat (a + 8) < UInt8.ofNat (247 + ulen b) :=
        UInt8.lt_iff_toNat_lt.mpr (by rw [ofNat_toNat_small _ (by omega), ofNat_toNat_small _ (by omega)]; omega)
      simp only [this, if_true]
  · have hsb : ¬ b ≤ 247 - 8 := by omega
    simp only [hsa, hsb, if_false, Bytes.cmp]
    have hm := ulen_mono a b (by omega)
    by_cases hl : ulen a < ulen b
    · have : UInt8.ofNat (247 + ulen a) < UInt8.ofNat (247 + ulen b) :=
        UInt8.lt_iff_toNat_lt.mpr (by rw [ofNat_toNat_small _ (by omega), ofNat_toNat_small _ (by omega)]; omega)
      simp only [this, if_true]
    · have he : ulen a = ulen b := by omega
      rw [he]
      simp only [UInt8.lt_irrefl, if_false]
      apply be_lt
      have h1 := lt_pow_ulen a ha
      have h2 := lt_pow_ulen b hb
      rw [he] at h1
      rw [Nat.mod_eq_of_lt h1, Nat.mod_eq_of_lt h2]; exact h

end CGV.Codec

namespace CGV.Codec
open CGV

theorem decodeCmpVarint_cons (first : UInt8) (b' : Bytes) :
    decodeCmpVarint (first :: b') =
    if nTag ≤ first.toNat ∧ first.toNat ≤ pTag then .ok ((first.toNat : Int) - nTag, b')
    else
      let neg := first.toNat < nTag
      let length := if neg then nTag - first.toNat else first.toNat - pTag
      if b'.length < length then .error .insufficient
      else
        let v := fromBE (if neg then two64 - 1 else 0) (b'.take length) % two64
        if ¬ neg ∧ v ≥ two63 then .error .invalid
        else if neg ∧ v < two63 then .error .invalid
        else .ok (toI64 v, b'.drop length) := rfl

theorem decodeCmpVarint_neg (first : UInt8) (b : Bytes) (h : first.toNat < 8) :
    decodeCmpVarint (first :: b) =
      if b.length < 8 - first.toNat then .error .insufficient
      else if fromBE (2 ^ 64 - 1) (b.take (8 - first.toNat)) % 2 ^ 64 < 2 ^ 63 then .error .invalid
      else .ok (toI64 (fromBE (2 ^ 64 - 1) (b.take (8 - first.toNat)) % 2 ^ 64), b.drop (8 - first.toNat)) := by
  rw [decodeCmpVarint_cons]
  have h1 : ¬ (nTag ≤ first.toNat ∧ first.toNat ≤ pTag) := by
    simp only [nTag, Gen.negativeTagEnd]; omega
  have h2 : first.toNat < nTag := h
  simp only [h1, if_false, h2, if_true, not_true_eq_false, false_and, true_and]
  rfl

theorem decodeCmpVarint_pos (first : UInt8) (b : Bytes) (h : 247 < first.toNat) :
    decodeCmpVarint (first :: b) =
      if b.length < first.toNat - 247 then .error .insufficient
      else if fromBE 0 (b.take (first.toNat - 247)) % 2 ^ 64 ≥ 2 ^ 63 then .error .invalid
      else .ok (toI64 (fromBE 0 (b.take (first.toNat - 247)) % 2 ^ 64), b.drop (first.toNat - 247)) := by
  rw [decodeCmpVarint_cons]
  have h1 : ¬ (nTag ≤ first.toNat ∧ first.toNat ≤ pTag) := by
    simp only [pTag, Gen.positiveTagStart]; omega
  have h2 : ¬ first.toNat < nTag := by simp only [nTag, Gen.negativeTagEnd]; omega
  simp only [h1, if_false, h2, not_false_eq_true, true_and, false_and]
  rfl

theorem decodeCmpVarint_single (first : UInt8) (b : Bytes) (h : 8 ≤ first.toNat ∧ first.toNat ≤ 247) :
    decodeCmpVarint (first :: b) = .ok ((first.toNat : Int) - 8, b) := by
  rw [decodeCmpVarint_cons]
  have h1 : (nTag ≤ first.toNat ∧ first.toNat ≤ pTag) := h
  simp only [h1, if_true]; rfl

theorem nlen_bounds (v : Int) : 1 ≤ nlen v ∧ nlen v ≤ 8 := by
  unfold nlen; repeat' split
  all_goals omega

theorem toU64_neg (v : Int) (h : I64 v) (hv : v < 0) : (toU64 v : Int) = v + 2 ^ 64 := by
  have := toU64_cast v; unfold I64 at h; omega

theorem toU64_nonneg (v : Int) (h : I64 v) (hv : 0 ≤ v) : toU64 v = v.toNat := by
  have := toU64_cast v; unfold I64 at h; omega

/-- the negative branch: sign-extending the `nlen v` low bytes gives back the 64-bit pattern of v -/
theorem neg_roundtrip (v : Int) (h : I64 v) (hv : v < 0) :
    ((2 ^ 64 - 1) * 256 ^ nlen v + toU64 v % 256 ^ nlen v) % 2 ^ 64 = toU64 v := by
  have hu := toU64_neg v h hv
  unfold I64 at h
  generalize toU64 v = u at hu
  unfold nlen; repeat' split
  all_goals omega

theorem decode_encode_cvarint (v : Int) (rest : Bytes) (h : I64 v) :
    decodeCmpVarint (encodeCmpVarint v ++ rest) = .ok (v, rest) := by
  by_cases hv : v < 0
  · have hb := nlen_bounds v
    simp only [encodeCmpVarint, hv, if_true, nTag, Gen.negativeTagEnd, List.cons_append]
    have ht := ofNat_toNat_small (8 - nlen v) (by omega)
    rw [decodeCmpVarint_neg _ _ (by rw [ht]; omega), ht]
    have h3 : 8 - (8 - nlen v) = nlen v := by omega
    simp only [h3, List.length_append, be_length, take_be_append, drop_be_append, fromBE_be]
    have h4 : ¬ (nlen v + rest.length < nlen v) := by omega
    simp only [h4, if_false, neg_roundtrip v h hv]
    have hu := toU64_neg v h hv
    have h5 : ¬ (toU64 v < 2 ^ 63) := by unfold I64 at h; omega
    simp only [h5, if_false]
    rw [toI64_of_ge _ h5]
    have : (toU64 v : Int) - 2 ^ 64 = v := by omega
    rw [this]
  · have hv0 : 0 ≤ v := by omega
    have hU : U64 v.toNat := by unfold U64; unfold I64 at h; omega
    have hU' : v.toNat < 2 ^ 64 := hU
    simp only [encodeCmpVarint, hv, if_false]
    simp only [encodeCmpUvarint, pTag, nTag, Gen.positiveTagStart, Gen.negativeTagEnd]
    by_cases hs : v.toNat ≤ 247 - 8
    · simp only [hs, if_true, List.cons_append, List.nil_append]
      have ht := ofNat_toNat_small (v.toNat + 8) (by omega)
      rw [decodeCmpVarint_single _ _ (by rw [ht]; omega), ht]
      have : ((v.toNat + 8 : Nat) : Int) - 8 = v := by omega
      rw [this]
    · have hb := ulen_bounds v.toNat
      simp only [hs, if_false, List.cons_append]
      have ht := ofNat_toNat_small (247 + ulen v.toNat) (by omega)
      rw [decodeCmpVarint_pos _ _ (by rw [ht]; omega), ht]
      have h3 : 247 + ulen v.toNat - 247 = ulen v.toNat := by omega
      simp only [h3, List.length_append, be_length, take_be_append, drop_be_append, fromBE_be]
      have h4 : ¬ (ulen v.toNat + rest.length < ulen v.toNat) := by omega
      have hp := lt_pow_ulen v.toNat hU'
      have e : (0 * 256 ^ ulen v.toNat + v.toNat % 256 ^ ulen v.toNat) % 2 ^ 64 = v.toNat := by
        rw [Nat.zero_mul, Nat.zero_add, Nat.mod_eq_of_lt hp, Nat.mod_eq_of_lt hU']
      simp only [h4, if_false, e]
      have h5 : ¬ (v.toNat ≥ 2 ^ 63) := by unfold I64 at h; omega
      simp only [h5, if_false]
      rw [toI64_of_lt _ (by omega)]
      have : ((v.toNat : Nat) : Int) = v := by omega
      rw [this]

end CGV.Codec

namespace CGV.Codec
open CGV

theorem nlen_anti (a b : Int) (h : a ≤ b) : nlen b ≤ nlen a := by
  unfold nlen; repeat' split
  all_goals omega

theorem neg_mod (v : Int) (h : I64 v) (hv : v < 0) :
    ((toU64 v % 256 ^ nlen v : Nat) : Int) = v + ((256 ^ nlen v : Nat) : Int) := by
  have hu := toU64_neg v h hv
  unfold I64 at h
  generalize toU64 v = u at hu
  unfold nlen; repeat' split
  all_goals omega

theorem encodeCmpVarint_lt (a b : Int) (ha : I64 a) (hb : I64 b) (h : a < b) :
    Bytes.cmp (encodeCmpVarint a) (encodeCmpVarint b) = .lt := by
  by_cases hbn : b < 0
  · -- both negative
    have han : a < 0 := by omega
    have hla := nlen_bounds a
    have hlb := nlen_bounds b
    have hanti := nlen_anti a b (by omega)
    simp only [encodeCmpVarint, han, hbn, if_true, nTag, Gen.negativeTagEnd, Bytes.cmp]
    by_cases hl : nlen b < nlen a
    · have : UInt8.ofNat (8 - nlen a) < UInt8.ofNat (8 - nlen b) :=
        UInt8.lt_iff_toNat_lt.mpr (by rw [ofNat_toNat_small _ (by omega), ofNat_toNat_small _ (by omega)]; omega)
      simp only [this, if_true]
    · have he : nlen b = nlen a := by omega
      rw [he]
      simp only [UInt8.lt_irrefl, if_false]
      apply be_lt
      have h1 := neg_mod a ha han
      have h2 := neg_mod b hb hbn
      rw [he] at h2
      omega
  · by_cases han : a < 0
    · -- a negative, b non-negative: tag of a ≤ 7 < 8 ≤ first byte of b
      have hla := nlen_bounds a
      have hlb := ulen_bounds b.toNat
      simp only [encodeCmpVarint, han, hbn, if_true, if_false, nTag, Gen.negativeTagEnd, encodeCmpUvarint, pTag,
        Gen.positiveTagStart]
      by_cases hs : b.toNat ≤ 247 - 8
      · simp only [hs, if_true, Bytes.cmp]
        have : UInt8.ofNat (8 - nlen a) < UInt8.ofNat (b.toNat + 8) :=
          UInt8.lt_iff_toNat_lt.mpr (by rw [ofNat_toNat_small _ (by omega), ofNat_toNat_small _ (by omega)]; omega)
        simp only [this, if_true]
      · simp only [hs, if_false, Bytes.cmp]
        have : UInt8.ofNat (8 - nlen a) < UInt8.ofNat (247 + ulen b.toNat) :=
          UInt8.lt_iff_toNat_lt.mpr (by rw [ofNat_toNat_small _ (by omega), ofNat_toNat_small _ (by omega)]; omega)
        simp only [this, if_true]
    · simp only [encodeCmpVarint, han, hbn, if_false]
      unfold I64 at ha hb
      exact encodeCmpUvarint_lt a.toNat b.toNat (by unfold U64; omega) (by unfold U64; omega) (by omega)

end CGV.Codec
