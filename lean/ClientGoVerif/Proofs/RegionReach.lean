/-
  C09 helper lemmas, third part: the caches reachable by the primitive mutations the code performs (insert, in-place
  update of the mutable bits of an entry, GC of invalidated entries), the well-formedness invariant they keep, and the
  fact that every lookup / maintenance API only performs such mutations.
-/
import ClientGoVerif.Proofs.RegionBatch
namespace CGV.Region
open CGV

/-- caches reachable from the empty cache by the primitive mutations of region_cache.go:
    `insertRegionToCache` of an arbitrary description, an in-place change of an entry's mutable bits (invalidate,
    need-reload flag, work peer; the region meta is immutable), one GC round -/
inductive Reachable : Cache → Prop
  | empty : Reachable Cache.empty
  | insert {c : Cache} (n : Entry) : Reachable c → Reachable (insertRegionToCache c n).1
  | update {c : Cache} (v : VerID) (f : Entry → Entry) : (∀ e, (f e).r = e.r) → Reachable c → Reachable (c.update v f)
  | gc {c : Cache} : Reachable c → Reachable c.gc

/-- `latestVersions[id]` is a VerID of that id -/
def LatestWf (c : Cache) : Prop := ∀ p ∈ c.latest, p.2.id = p.1

/-- the well-formedness invariant of the cache: the index is strictly sorted by start key (so start keys are unique)
    and latestVersions is keyed consistently.  NOT part of it, because the code does not maintain it: entries may
    overlap (a wider stale entry that starts earlier lingers, see `overlap_reachable`). -/
def CacheWF (c : Cache) : Prop := Sorted c.sorted ∧ LatestWf c

theorem sorted_map_keep {l : List Entry} (hs : Sorted l) (g : Entry → Entry) (hg : ∀ e, (g e).r = e.r) :
    Sorted (l.map g) := by
  unfold Sorted at *
  rw [List.pairwise_map]
  exact List.Pairwise.imp (fun {a b} h => by rw [hg a, hg b]; exact h) hs

theorem removeVersion_sub (l : List (Nat × VerID)) (v : VerID) : ∀ p ∈ removeVersion l v, p ∈ l := by
  intro p hp
  unfold removeVersion at hp
  split at hp
  · split at hp
    · unfold latestErase at hp; exact (List.mem_filter.mp hp).1
    · exact hp
  · exact hp

theorem foldl_removeVersion_sub (ds : List Entry) (l : List (Nat × VerID)) :
    ∀ p ∈ ds.foldl (fun l d => removeVersion l d.r.verID) l, p ∈ l := by
  induction ds generalizing l with
  | nil => intro p hp; exact hp
  | cons d ds ih =>
    intro p hp
    simp only [List.foldl_cons] at hp
    exact removeVersion_sub l d.r.verID p (ih _ p hp)

theorem insert_latestWf {c : Cache} (n : Entry) (h : LatestWf c) : LatestWf (insertRegionToCache c n).1 := by
  unfold insertRegionToCache
  split
  · exact h
  · split
    · exact h
    · intro p hp
      simp only [List.mem_cons] at hp
      rcases hp with rfl | hp
      · rfl
      · unfold latestErase at hp
        exact h p (foldl_removeVersion_sub _ _ p (List.mem_filter.mp hp).1)

theorem reachable_wf {c : Cache} (h : Reachable c) : CacheWF c := by
  induction h with
  | empty => exact ⟨by simp [Cache.empty, Sorted], by intro p hp; cases hp⟩
  | insert n _ ih =>
    exact ⟨insert_sorted (c' := (insertRegionToCache _ n).1) (ok := (insertRegionToCache _ n).2) rfl ih.1,
      insert_latestWf n ih.2⟩
  | update v f hf _ ih =>
    refine ⟨?_, ih.2⟩
    unfold Cache.update
    apply sorted_map_keep ih.1
    intro e
    split
    · exact hf e
    · rfl
  | gc _ ih =>
    refine ⟨?_, ?_⟩
    · unfold Cache.gc; exact List.Pairwise.filter _ ih.1
    · intro p hp
      unfold Cache.gc at hp
      exact ih.2 p (foldl_removeVersion_sub _ _ p hp)

theorem reachable_sorted {c : Cache} (h : Reachable c) : Sorted c.sorted := (reachable_wf h).1

/-! ## every API only performs primitive mutations -/

theorem reachable_foldl_insert {c : Cache} (h : Reachable c) (rs : List Entry) :
    Reachable (rs.foldl (fun c r => (insertRegionToCache c r).1) c) := by
  induction rs generalizing c with
  | nil => exact h
  | cons r rs ih => simp only [List.foldl_cons]; exact ih (Reachable.insert r h)

theorem reachable_invalidate {c : Cache} (h : Reachable c) (v : VerID) : Reachable (c.invalidate v) :=
  Reachable.update v _ (fun _ => rfl) h

theorem reachable_updateLeader {c : Cache} (h : Reachable c) (v : VerID) (store : Nat) :
    Reachable (updateLeader c v store) := by
  unfold updateLeader
  apply Reachable.update v _ _ h
  intro e; split <;> rfl

theorem reachable_loadAndInsert {c : Cache} (h : Reachable c) (pd : PD) (key : Bytes) (isEnd : Bool) :
    Reachable (findRegionByKey.loadAndInsert pd key isEnd c).1 := by
  unfold findRegionByKey.loadAndInsert
  split
  · exact h
  · rename_i lr _
    have h1 : Reachable (insertRegionToCache c lr).1 := Reachable.insert lr h
    cases hi : insertRegionToCache c lr with
    | mk c1 ok =>
      rw [hi] at h1
      simp only
      split
      · exact h1
      · exact Reachable.insert _ h1

theorem reachable_findRegionByKey {c : Cache} (h : Reachable c) (pd : PD) (key : Bytes) (isEnd : Bool) :
    Reachable (findRegionByKey c pd key isEnd).1 := by
  unfold findRegionByKey
  split
  · split
    · exact reachable_loadAndInsert h pd key isEnd
    · split
      · split
        · exact Reachable.update _ _ (fun _ => rfl) h
        · exact Reachable.insert _ (Reachable.update _ _ (fun _ => rfl) h)
      · exact h
  · exact reachable_loadAndInsert h pd key isEnd

theorem reachable_locateKey {c : Cache} (h : Reachable c) (pd : PD) (key : Bytes) :
    Reachable (locateKey c pd key).1 := by
  unfold locateKey; exact reachable_findRegionByKey h pd key false

theorem reachable_batchLoadRanges {c : Cache} (h : Reachable c) (pd : PD) (rs : List KeyRange) (limit : Nat) :
    Reachable (batchLoadRegionsWithKeyRanges c pd rs limit).1 := by
  unfold batchLoadRegionsWithKeyRanges
  split
  · exact h
  · split
    · exact h
    · exact reachable_foldl_insert h _

theorem reachable_batchLoadRange {c : Cache} (h : Reachable c) (pd : PD) (s e : Bytes) (limit : Nat) :
    Reachable (batchLoadRegionsWithKeyRange c pd s e limit).1 := by
  unfold batchLoadRegionsWithKeyRange
  simp only
  split
  · exact h
  · split
    · exact h
    · exact reachable_foldl_insert h _

theorem reachable_findLastLoop {fuel : Nat} {c : Cache} (h : Reachable c) (pd : PD) (s : Bytes) :
    Reachable (findLastLoop fuel c pd s).1 := by
  induction fuel generalizing c s with
  | zero => exact h
  | succ n ih =>
    simp only [findLastLoop]
    have h1 := reachable_batchLoadRange h pd s [] limitPerBatch
    cases hb : batchLoadRegionsWithKeyRange c pd s [] limitPerBatch with
    | mk c1 res =>
      rw [hb] at h1
      cases res with
      | error x => exact h1
      | ok rs =>
        simp only
        split
        · exact h1
        · split
          · exact h1
          · exact ih h1 _

theorem reachable_locateEndKey {c : Cache} (h : Reachable c) (fuel : Nat) (pd : PD) (key : Bytes) :
    Reachable (locateEndKey fuel c pd key).1 := by
  have hl : Reachable (findLastRegion fuel c pd).1 := by
    unfold findLastRegion
    split
    · split
      · exact h
      · exact reachable_findLastLoop h pd _
    · exact reachable_findLastLoop h pd _
  unfold locateEndKey
  split
  · exact hl
  · exact reachable_findRegionByKey h pd key true

theorem reachable_locateRegionByID {c : Cache} (h : Reachable c) (pd : PD) (id : Nat) :
    Reachable (locateRegionByID c pd id).1 := by
  unfold locateRegionByID
  simp only
  split
  · split
    · split
      · exact Reachable.update _ _ (fun _ => rfl) h
      · exact Reachable.insert _ (Reachable.update _ _ (fun _ => rfl) h)
    · exact h
  · split
    · exact h
    · exact Reachable.insert _ h

theorem reachable_locateKeyRangeLoop {fuel : Nat} {c : Cache} (h : Reachable c) (pd : PD) (s e : Bytes)
    (acc : List Region) : Reachable (locateKeyRangeLoop fuel c pd s e acc).1 := by
  induction fuel generalizing c s acc with
  | zero => exact h
  | succ n ih =>
    simp only [locateKeyRangeLoop]
    cases hcc : cachedChain (n + 1) c s e acc with
    | mk acc1 rest =>
      obtain ⟨done, s1⟩ := rest
      simp only
      split
      · exact h
      · have h1 := reachable_batchLoadRanges h pd [⟨s1, e⟩] limitPerBatch
        cases hb : batchLoadRegionsWithKeyRanges c pd [⟨s1, e⟩] limitPerBatch with
        | mk c1 res =>
          rw [hb] at h1
          cases res with
          | error x => exact h1
          | ok batch =>
            simp only
            split
            · exact h1
            · split
              · exact h1
              · exact ih h1 _ _

theorem reachable_batchStep2 {fuel : Nat} {c : Cache} (h : Reachable c) (pd : PD) (U : List KeyRange) (m : Merger) :
    Reachable (batchStep2 fuel c pd U m).1 := by
  induction fuel generalizing c U m with
  | zero => simp only [batchStep2]; split <;> exact h
  | succ n ih =>
    simp only [batchStep2]
    split
    · exact h
    · generalize (if U.length > 16 * limitPerBatch then List.take (16 * limitPerBatch) U else U) = toSend
      have h1 := reachable_batchLoadRanges h pd toSend limitPerBatch
      cases hb : batchLoadRegionsWithKeyRanges c pd toSend limitPerBatch with
      | mk c1 res =>
        rw [hb] at h1
        cases res with
        | error x => exact h1
        | ok regions =>
          simp only
          split
          · exact h1
          · exact ih h1 _ _

theorem reachable_batchLocateKeyRanges {c : Cache} (h : Reachable c) (fuel : Nat) (pd : PD) (rs : List KeyRange) :
    Reachable (batchLocateKeyRanges fuel c pd rs).1 := by
  unfold batchLocateKeyRanges
  simp only
  have := reachable_batchStep2 (fuel := fuel) h pd (batchStep1 fuel c rs).uncached
    ⟨none, (batchStep1 fuel c rs).cached.map (·.r), []⟩
  split
  · rename_i c1 x hb; rw [hb] at this; exact this
  · rename_i c1 m' hb; rw [hb] at this; exact this

theorem reachable_groupKeysLoop {c : Cache} (h : Reachable c) (pd : PD) (keys : List Bytes) (lastLoc : Option Region)
    (g : List (VerID × List Bytes)) (locs : List Region) : Reachable (groupKeysLoop pd keys c lastLoc g locs).1 := by
  induction keys generalizing c lastLoc g locs with
  | nil => exact h
  | cons k ks ih =>
    simp only [groupKeysLoop]
    split
    · exact ih h _ _ _
    · have h1 := reachable_locateKey h pd k
      cases hl : locateKey c pd k with
      | mk c1 res =>
        rw [hl] at h1
        cases res with
        | error x => exact h1
        | ok l => exact ih h1 _ _ _

theorem reachable_listRegionIDs {fuel : Nat} {c : Cache} (h : Reachable c) (pd : PD) (s e : Bytes) (acc : List Region) :
    Reachable (listRegionIDs fuel c pd s e acc).1 := by
  induction fuel generalizing c s acc with
  | zero => exact h
  | succ n ih =>
    simp only [listRegionIDs]
    have h1 := reachable_locateKey h pd s
    cases hl : locateKey c pd s with
    | mk c1 res =>
      rw [hl] at h1
      cases res with
      | error x => exact h1
      | ok l =>
        simp only
        split
        · exact h1
        · exact ih h1 _ _

theorem reachable_onRegionEpochNotMatch {c : Cache} (h : Reachable c) (v : VerID) (store : Nat)
    (cur : List PdRegion) : Reachable (onRegionEpochNotMatch c v store cur).1 := by
  unfold onRegionEpochNotMatch
  split
  · exact reachable_invalidate h v
  · split
    · exact h
    · simp only
      apply reachable_foldl_insert
      split
      · exact reachable_invalidate h v
      · exact h

end CGV.Region

namespace CGV.Region
open CGV

/-! ## where a looked-up region comes from -/

theorem loadAndInsert_origin {pd : PD} {key : Bytes} {isEnd : Bool} {c c' : Cache} {e : Entry}
    (h : findRegionByKey.loadAndInsert pd key isEnd c = (c', .ok e)) : loadRegion pd key isEnd = .ok e := by
  unfold findRegionByKey.loadAndInsert at h
  repeat' (split at h)
  all_goals
    injection h with _ h2
    first
      | (injection h2 with h3; subst h3; assumption)
      | (injection h2 with h3; subst h3; simp_all)
      | (injection h2)

/-- a region answered by findRegionByKey is a valid entry of the index, or a fresh PD answer -/
theorem findRegionByKey_origin {pd : PD} {key : Bytes} {isEnd : Bool} {c c' : Cache} {e : Entry}
    (h : findRegionByKey c pd key isEnd = (c', .ok e)) :
    (e ∈ c.sorted ∧ e.valid = true) ∨ loadRegion pd key isEnd = .ok e := by
  unfold findRegionByKey at h
  split at h
  · rename_i e0 he0
    have hm := (searchByKey_spec he0).1
    by_cases hv : e0.valid = true
    · simp only [hv, Bool.not_true, Bool.false_eq_true, if_false] at h
      repeat' (split at h)
      all_goals
        injection h with _ h2
        first
          | (injection h2 with h3; subst h3; exact Or.inl ⟨hm, hv⟩)
          | (injection h2 with h3; subst h3; right; assumption)
          | (injection h2)
    · have hv' : e0.valid = false := by simpa using hv
      simp only [hv', Bool.not_false, if_true] at h
      exact Or.inr (loadAndInsert_origin h)
  · exact Or.inr (loadAndInsert_origin h)

theorem tryFind_valid {c : Cache} {k : Bytes} {b : Bool} {e : Entry} (h : tryFindRegionByKey c k b = some e) :
    e ∈ c.sorted ∧ e.valid = true ∧ e.reload = false := by
  unfold tryFindRegionByKey at h
  split at h
  · rename_i e0 he0
    split at h
    · cases h
    · rename_i hc
      cases h
      simp only [Bool.or_eq_true, Bool.not_eq_eq_eq_not, Bool.not_true, not_or, Bool.not_eq_false,
        Bool.not_eq_true] at hc
      exact ⟨(searchByKey_spec he0).1, hc.1, hc.2⟩
  · cases h

theorem ascendFrom_valid (e : Bytes) (limit : Nat) (l : List Entry) (s : Bytes) :
    ∀ x ∈ ascendFrom e limit l s, x.valid = true := by
  induction limit generalizing l s with
  | zero => intro x hx; simp [ascendFrom] at hx
  | succ n ih =>
    cases l with
    | nil => intro x hx; simp [ascendFrom] at hx
    | cons y ys =>
      intro x hx
      simp only [ascendFrom] at hx
      split at hx
      · cases hx
      · split at hx
        · cases hx
        · rename_i hv
          split at hx
          · cases hx
          · rcases List.mem_cons.mp hx with rfl | hx
            · simpa using hv
            · exact ih ys _ x hx

/-- the cache scan of BatchLocateKeyRanges only hands out valid entries without the need-reload flag -/
theorem scan_valid (c : Cache) (s e : Bytes) (limit : Nat) :
    ∀ x ∈ scanRegionsFromCache c s e limit, x.valid = true ∧ x.reload = false := by
  intro x hx
  unfold scanRegionsFromCache at hx
  simp only [List.mem_filter, Bool.not_eq_eq_eq_not, Bool.not_true] at hx
  exact ⟨ascendFrom_valid _ _ _ _ x hx.1, hx.2⟩

theorem invalidate_marks (c : Cache) (v : VerID) : ∀ e ∈ (c.invalidate v).sorted, e.r.verID = v → e.valid = false := by
  intro e he hv
  unfold Cache.invalidate Cache.update at he
  simp only [List.mem_map] at he
  obtain ⟨a, _, ha⟩ := he
  by_cases hav : (a.r.verID == v) = true
  · simp only [hav, if_true] at ha
    rw [← ha]
  · simp only [hav, Bool.false_eq_true, if_false] at ha
    rw [ha] at hav
    exact absurd (by simpa using hv) hav

/-! ## by id -/

theorem latestGet_id {c : Cache} (h : LatestWf c) {id : Nat} {v : VerID} (hg : latestGet c.latest id = some v) :
    v.id = id := by
  unfold latestGet at hg
  split at hg
  · rename_i p hp
    cases hg
    have h1 := List.find?_some hp
    have h2 := h p (List.mem_of_find?_eq_some hp)
    simp only [beq_iff_eq] at h1
    rw [h2, h1]
  · cases hg

theorem byID_id {c : Cache} (h : LatestWf c) {id : Nat} {e : Entry} (hb : c.byID id = some e) : e.r.id = id := by
  unfold Cache.byID at hb
  split at hb
  · rename_i v hv
    unfold Cache.byVerID at hb
    have h1 := List.find?_some hb
    simp only [beq_iff_eq] at h1
    have := latestGet_id h hv
    rw [← this, ← h1]; rfl
  · cases hb

theorem locateRegionByID_id {c c' : Cache} (hwf : LatestWf c) {pd : PD} {id : Nat} {r : Region}
    (h : locateRegionByID c pd id = (c', .ok r)) : r.id = id := by
  unfold locateRegionByID at h
  simp only at h
  split at h
  · rename_i e he
    have hid : e.r.id = id := by
      split at he
      · rename_i e1 hb
        split at he
        · cases he; exact byID_id hwf hb
        · cases he
      · cases he
    repeat' (split at h)
    all_goals
      injection h with _ h2
      first
        | (injection h2 with h3; subst h3; exact hid)
        | (injection h2 with h3; subst h3; apply loadRegionByID_id; assumption)
        | (injection h2)
  · repeat' (split at h)
    all_goals
      injection h with _ h2
      first
        | (injection h2 with h3; subst h3; apply loadRegionByID_id; assumption)
        | (injection h2)

/-! ## every sequence of operations -/

/-- the operations of the cache API (each lookup carries the PD state that answers it: PD may change, or be stale,
    between any two operations) -/
inductive Op
  | locateKey (pd : PD) (key : Bytes)
  | locateEndKey (fuel : Nat) (pd : PD) (key : Bytes)
  | locateByID (pd : PD) (id : Nat)
  | range (fuel : Nat) (pd : PD) (s e : Bytes)
  | batch (fuel : Nat) (pd : PD) (rs : List KeyRange)
  | group (pd : PD) (keys : List Bytes)
  | listIDs (fuel : Nat) (pd : PD) (s e : Bytes)
  | invalidate (v : VerID)
  | needReload (v : VerID)
  | updateLeader (v : VerID) (store : Nat)
  | epochNotMatch (v : VerID) (store : Nat) (cur : List PdRegion)
  | gc

def applyOp (c : Cache) : Op → Cache
  | .locateKey pd key => (locateKey c pd key).1
  | .locateEndKey fuel pd key => (locateEndKey fuel c pd key).1
  | .locateByID pd id => (locateRegionByID c pd id).1
  | .range fuel pd s e => (locateKeyRange fuel c pd s e).1
  | .batch fuel pd rs => (batchLocateKeyRanges fuel c pd rs).1
  | .group pd keys => (groupKeysByRegion c pd keys).1
  | .listIDs fuel pd s e => (listRegionIDs fuel c pd s e []).1
  | .invalidate v => c.invalidate v
  | .needReload v => c.update v (fun e => { e with reload := true, delayedOnly := false })
  | .updateLeader v store => updateLeader c v store
  | .epochNotMatch v store cur => (onRegionEpochNotMatch c v store cur).1
  | .gc => c.gc

theorem reachable_applyOp {c : Cache} (h : Reachable c) (op : Op) : Reachable (applyOp c op) := by
  cases op with
  | locateKey pd key => exact reachable_locateKey h pd key
  | locateEndKey fuel pd key => exact reachable_locateEndKey h fuel pd key
  | locateByID pd id => exact reachable_locateRegionByID h pd id
  | range fuel pd s e => exact reachable_locateKeyRangeLoop h pd s e []
  | batch fuel pd rs => exact reachable_batchLocateKeyRanges h fuel pd rs
  | group pd keys => exact reachable_groupKeysLoop h pd keys none [] []
  | listIDs fuel pd s e => exact reachable_listRegionIDs h pd s e []
  | invalidate v => exact reachable_invalidate h v
  | needReload v => exact Reachable.update v _ (fun _ => rfl) h
  | updateLeader v store => exact reachable_updateLeader h v store
  | epochNotMatch v store cur => exact reachable_onRegionEpochNotMatch h v store cur
  | gc => exact Reachable.gc h

theorem reachable_applyOps (ops : List Op) {c : Cache} (h : Reachable c) : Reachable (ops.foldl applyOp c) := by
  induction ops generalizing c with
  | nil => exact h
  | cons op ops ih => exact ih (reachable_applyOp h op)

end CGV.Region

namespace CGV.Region
open CGV

/-! ## ListRegionIDsInKeyRange ([start, end], end inclusive) -/

theorem listRegionIDs_spec {fuel : Nat} {c c' : Cache} {pd : PD} {s e s0 : Bytes} {acc ls : List Region}
    (h : listRegionIDs fuel c pd s e acc = (c', .ok ls)) (hcov : CovUpTo acc s0 [] s) :
    ∀ k, Bytes.le s0 k = true → Bytes.le k e = true → ∃ l ∈ ls, l.contains k = true := by
  induction fuel generalizing c s acc with
  | zero => simp [listRegionIDs] at h
  | succ n ih =>
    simp only [listRegionIDs] at h
    cases hl : locateKey c pd s with
    | mk c1 res =>
      rw [hl] at h
      cases res with
      | error x => simp at h
      | ok l =>
        simp only at h
        have hc := locateKey_contains hl
        by_cases hd : l.contains e = true
        · simp only [hd, if_true, Prod.mk.injEq, Except.ok.injEq] at h
          rw [← h.2]
          intro k hk1 hk2
          rcases le_total s k with hk | hk
          · refine ⟨l, List.mem_reverse.mpr (List.mem_cons_self ..), ?_⟩
            apply contains_of_le hc hk
            unfold Region.contains at hd
            simp only [Bool.and_eq_true, Bool.or_eq_true] at hd
            rcases hd.2 with h' | h'
            · exact Or.inr (lt_of_le_of_lt hk2 h')
            · exact Or.inl (by simpa using h')
          · obtain ⟨x, hx, hxc⟩ := hcov k hk1 hk (Or.inl rfl)
            exact ⟨x, List.mem_reverse.mpr (List.mem_cons_of_mem _ hx), hxc⟩
        · simp only [hd, Bool.false_eq_true, if_false] at h
          exact ih h (covUpTo_step hcov hc)

end CGV.Region
