/-
  C08 helper lemmas, part 6 (reference level): the versions of every key that are not newer than a mark survive any
  sequence of API calls that does not pop the stage stack below the mark and does not overwrite such a version in place.
-/
import ClientGoVerif.Proofs.VLogStep
namespace CGV.MemBuf
open CGV

/-- the history of `k` in the reference -/
def Spec.vers (s : Spec) (k : Bytes) : List Version := ((s.find k).map (·.versions)).getD []

def oldPart (mark : Nat) (vs : List Version) : List Version := vs.filter (fun x => x.1 ≤ mark)

theorem oldPart_dropWhile (mark mk : Nat) (h : mark ≤ mk) (vs : List Version) :
    oldPart mark (vs.dropWhile (fun x => x.1 > mk)) = oldPart mark vs := by
  induction vs with
  | nil => rfl
  | cons x xs ih =>
    by_cases hx : x.1 > mk
    · have h1 : ¬ x.1 ≤ mark := by omega
      simp only [List.dropWhile_cons, hx, decide_true, if_true, oldPart, List.filter_cons, h1, decide_false]
      exact ih
    · simp [List.dropWhile_cons, hx]

theorem find_map_undoCell (cells : List Cell) (mk : Nat) (k : Bytes) :
    (cells.map (Spec.undoCell mk)).find? (fun c => c.key = k) = (cells.find? (fun c => c.key = k)).map (Spec.undoCell mk) := by
  have hkey : ∀ c, (Spec.undoCell mk c).key = c.key := by
    intro c
    simp only [Spec.undoCell]
    split
    · rfl
    · split
      · rfl
      · split
        · simp only [Spec.flagsRule]; split <;> rfl
        · rfl
  induction cells with
  | nil => rfl
  | cons c tl ih =>
    simp only [List.map_cons, List.find?_cons, hkey]
    by_cases h : c.key = k <;> simp [h, ih]

theorem undoCell_oldPart (mark mk : Nat) (h : mark ≤ mk) (c : Cell) :
    oldPart mark (Spec.undoCell mk c).versions = oldPart mark c.versions := by
  simp only [Spec.undoCell]
  split
  · rfl
  · rename_i a v rest hv
    split
    · rfl
    · have hd := oldPart_dropWhile mark mk h c.versions
      split
      · rename_i hemp
        have : c.versions.dropWhile (fun x => decide (x.1 > mk)) = [] := by simpa using hemp
        rw [this] at hd
        have hfr : (Spec.flagsRule c).versions = [] := by simp only [Spec.flagsRule]; split <;> rfl
        rw [hfr]; exact hd
      · exact hd

theorem vers_undoTo (s : Spec) (mk : Nat) (k : Bytes) (mark : Nat) (h : mark ≤ mk) :
    oldPart mark ((s.undoTo mk).vers k) = oldPart mark (s.vers k) := by
  simp only [Spec.vers, Spec.find, Spec.undoTo, find_map_undoCell]
  cases s.cells.find? (fun c => c.key = k) with
  | none => rfl
  | some c => simp only [Option.map_some, Option.getD_some]; exact undoCell_oldPart mark mk h c

/-! ## lookups after an upsert -/

theorem find_modify_same (cells : List Cell) (k : Bytes) (g : Cell → Cell) (hg : ∀ c, (g c).key = c.key) :
    (Spec.modify cells k g).find? (fun c => c.key = k) = (cells.find? (fun c => c.key = k)).map g := by
  induction cells with
  | nil => rfl
  | cons c tl ih =>
    simp only [Spec.modify, List.map_cons] at ih ⊢
    by_cases h : c.key = k
    · simp [List.find?_cons, h, hg]
    · simp [List.find?_cons, h, ih]

theorem find_modify_other (cells : List Cell) (k k' : Bytes) (g : Cell → Cell) (hg : ∀ c, (g c).key = c.key) (hne : k' ≠ k) :
    (Spec.modify cells k g).find? (fun c => c.key = k') = cells.find? (fun c => c.key = k') := by
  induction cells with
  | nil => rfl
  | cons c tl ih =>
    simp only [Spec.modify, List.map_cons] at ih ⊢
    by_cases h : c.key = k
    · have h1 : decide (c.key = k') = false := by
        simp only [decide_eq_false_iff_not]; rw [h]; exact fun e => hne e.symm
      have h2 : decide ((g c).key = k') = false := by rw [hg]; exact h1
      rw [if_pos h, List.find?_cons, List.find?_cons, h1, h2]
      exact ih
    · rw [if_neg h, List.find?_cons, List.find?_cons]
      cases decide (c.key = k')
      · exact ih
      · rfl

theorem find_ensure_same (cells : List Cell) (k : Bytes) :
    (Spec.ensure cells k).find? (fun c => c.key = k) = some ((cells.find? (fun c => c.key = k)).getD (Spec.fresh k)) := by
  simp only [Spec.ensure]
  cases hf : cells.find? (fun c => c.key = k) with
  | some c =>
    have hany : cells.any (fun c => c.key = k) = true := by
      simp only [List.any_eq_true]
      exact ⟨c, List.mem_of_find?_eq_some hf, by simpa using List.find?_some hf⟩
    simp [hany, hf]
  | none =>
    have hno : ∀ c ∈ cells, c.key ≠ k := by simpa [List.find?_eq_none] using hf
    have hany : cells.any (fun c => c.key = k) = false := by
      simp only [List.any_eq_false]; intro c hc; simpa using hno c hc
    simp [hany, List.find?_append, hf, Spec.fresh]

theorem find_ensure_other (cells : List Cell) (k k' : Bytes) (hne : k' ≠ k) :
    (Spec.ensure cells k).find? (fun c => c.key = k') = cells.find? (fun c => c.key = k') := by
  simp only [Spec.ensure]
  split
  · rfl
  · have : ¬ k = k' := fun e => hne e.symm
    simp [List.find?_append, Spec.fresh, this]

theorem find_upsert_same (cells : List Cell) (k : Bytes) (g : Cell → Cell) (hg : ∀ c, (g c).key = c.key) :
    (Spec.upsert cells k g).find? (fun c => c.key = k) = some (g ((cells.find? (fun c => c.key = k)).getD (Spec.fresh k))) := by
  simp only [Spec.upsert]
  rw [find_modify_same _ _ _ hg, find_ensure_same]; rfl

theorem find_upsert_other (cells : List Cell) (k k' : Bytes) (g : Cell → Cell) (hg : ∀ c, (g c).key = c.key) (hne : k' ≠ k) :
    (Spec.upsert cells k g).find? (fun c => c.key = k') = cells.find? (fun c => c.key = k') := by
  simp only [Spec.upsert]
  rw [find_modify_other _ _ _ _ hg hne, find_ensure_other _ _ _ hne]

/-! ## the history of a key after a write -/

theorem vers_writeCore_other (s : Spec) (k k' : Bytes) (v : Option Bytes) (ops : List Nat) (hne : k' ≠ k) :
    (s.writeCore k v ops).vers k' = s.vers k' := by
  cases v <;> simp only [Spec.writeCore, Spec.vers, Spec.find] <;> (rw [find_upsert_other _ _ _ _ ?_ hne]; intro c; rfl)

theorem vers_getD (s : Spec) (k : Bytes) : ((s.find k).getD (Spec.fresh k)).versions = s.vers k := by
  simp only [Spec.vers]
  cases s.find k <;> rfl

theorem vers_writeCore_none (s : Spec) (k : Bytes) (ops : List Nat) : (s.writeCore k none ops).vers k = s.vers k := by
  simp only [Spec.writeCore, Spec.vers, Spec.find]
  rw [find_upsert_same _ _ _ ?_]
  · simp only [Option.map_some, Option.getD_some]
    exact vers_getD s k
  · intro c; rfl

theorem vers_writeCore_some (s : Spec) (k x : Bytes) (ops : List Nat) :
    (s.writeCore k (some x) ops).vers k = (Spec.pushOrSwap s.marks s.guard s.clock (s.vers k) x).1 := by
  simp only [Spec.writeCore, Spec.vers, Spec.find]
  rw [find_upsert_same _ _ _ ?_]
  · simp only [Option.map_some, Option.getD_some]
    have := vers_getD s k
    simp only [Spec.find, Spec.vers] at this
    rw [this]
  · intro c; rfl

theorem clock_writeCore (s : Spec) (k : Bytes) (v : Option Bytes) (ops : List Nat) : s.clock ≤ (s.writeCore k v ops).clock := by
  cases v with
  | none => simp [Spec.writeCore]
  | some x =>
    simp only [Spec.writeCore, Spec.pushOrSwap]
    split
    · split <;> simp
    · simp

theorem marks_writeCore (s : Spec) (k : Bytes) (v : Option Bytes) (ops : List Nat) : (s.writeCore k v ops).marks = s.marks := by
  cases v <;> rfl

/-- no version that is not newer than `mark` is overwritten in place by writing `x` over the history `vs` -/
def SafeSwap (mark : Nat) (marks : List Nat) (guard : Nat) (vs : List Version) (x : Bytes) : Prop :=
  match vs with
  | (a, old) :: _ => ¬ (a ≤ mark ∧ Spec.canModify marks a = true ∧ a > guard ∧ old.length > 0 ∧ old.length = x.length)
  | [] => True

theorem oldPart_pushOrSwap (mark : Nat) (marks : List Nat) (guard clock : Nat) (vs : List Version) (x : Bytes)
    (hc : mark ≤ clock) (hs : SafeSwap mark marks guard vs x) :
    oldPart mark (Spec.pushOrSwap marks guard clock vs x).1 = oldPart mark vs := by
  have hnew : ¬ clock + 1 ≤ mark := by omega
  cases vs with
  | nil => simp [Spec.pushOrSwap, oldPart, hnew]
  | cons y ys =>
    obtain ⟨a, old⟩ := y
    simp only [Spec.pushOrSwap]
    split
    · rename_i hcond
      simp only [Bool.and_eq_true, decide_eq_true_eq, beq_iff_eq] at hcond
      have ha : ¬ a ≤ mark := fun h => hs ⟨h, hcond.1.1.1, hcond.1.1.2, hcond.1.2, hcond.2⟩
      simp [oldPart, ha]
    · simp [oldPart, hnew]

theorem safeSwap_nil (mark : Nat) (marks : List Nat) (guard : Nat) (vs : List Version) : SafeSwap mark marks guard vs [] := by
  cases vs with
  | nil => trivial
  | cons y ys =>
    obtain ⟨a, old⟩ := y
    simp only [SafeSwap]
    intro h
    have h1 := h.2.2.2.1
    have h2 := h.2.2.2.2
    simp only [List.length_nil] at h2
    omega

/-! ## the frame -/

structure Frame (mark : Nat) (pre : List Nat) (old : Bytes → List Version) (s : Spec) : Prop where
  marks : ∃ ext, s.marks = pre ++ ext ∧ ∀ c ∈ ext, mark ≤ c
  clock : mark ≤ s.clock
  vers : ∀ k, oldPart mark (s.vers k) = old k

/-- calls that neither pop the stack below `pre`, nor revert below `mark`, nor overwrite an old version in place -/
def Allowed (mark : Nat) (pre : List Nat) (s : Spec) : Op → Prop
  | .release h => h = 0 ∨ h ≠ s.marks.length ∨ pre.length < s.marks.length
  | .cleanup h => h = 0 ∨ h ≠ s.marks.length ∨ pre.length < s.marks.length
  | .set k v _ => SafeSwap mark s.marks s.guard (s.vers k) v
  | .revert cp =>
    (decide (cp ≤ s.clock) && (match s.marks.getLast? with | some m => decide (m ≤ cp) | none => true)) = true → mark ≤ cp
  | _ => True

theorem frame_write {mark : Nat} {pre : List Nat} {old : Bytes → List Version} {s : Spec} (hf : Frame mark pre old s)
    (k : Bytes) (v : Option Bytes) (ops : List Nat)
    (hs : ∀ x, v = some x → SafeSwap mark s.marks s.guard (s.vers k) x) : Frame mark pre old (s.write k v ops).1 := by
  have hcore : Frame mark pre old (s.writeCore k v ops) := by
    refine ⟨by rw [marks_writeCore]; exact hf.marks, Nat.le_trans hf.clock (clock_writeCore s k v ops), ?_⟩
    intro k'
    by_cases hk : k' = k
    · subst hk
      cases v with
      | none => rw [vers_writeCore_none]; exact hf.vers k'
      | some x =>
        rw [vers_writeCore_some, oldPart_pushOrSwap mark s.marks s.guard s.clock _ x hf.clock (hs x rfl)]
        exact hf.vers k'
    · rw [vers_writeCore_other s k k' v ops hk]; exact hf.vers k'
  simp only [Spec.write]
  split
  · exact hf
  · split
    · exact hf
    · split <;> exact hcore

theorem getLast_append_ne_nil (pre ext : List Nat) (h : ext ≠ []) : (pre ++ ext).getLast? = ext.getLast? := by
  cases ext with
  | nil => exact absurd rfl h
  | cons a tl =>
    rw [List.getLast?_append]
    cases hl : (a :: tl).getLast? with
    | none => simp at hl
    | some x => rfl

theorem frame_step {mark : Nat} {pre : List Nat} {old : Bytes → List Version} {s : Spec} (hf : Frame mark pre old s)
    (op : Op) (ha : Allowed mark pre s op) : Frame mark pre old (s.step op).1 := by
  obtain ⟨ext, hm, hext⟩ := hf.marks
  cases op with
  | set k v ops =>
    simp only [Spec.step]
    split
    · exact hf
    · exact frame_write hf k (some v) ops (fun x hx => by cases hx; exact ha)
  | del k ops => exact frame_write hf k (some []) ops (fun x hx => by cases hx; exact safeSwap_nil _ _ _ _)
  | upd k ops => exact frame_write hf k none ops (fun x hx => by cases hx)
  | get k => simp only [Spec.step]; split <;> (try split) <;> exact hf
  | getFlags k => simp only [Spec.step]; split <;> (try split) <;> exact hf
  | iter lo hi rev wf => exact hf
  | snapGet k => simp only [Spec.step]; split <;> (try split) <;> exact hf
  | snapIter lo hi rev => exact hf
  | len => exact hf
  | size => exact hf
  | dirty => exact hf
  | staging =>
    refine ⟨⟨ext ++ [s.clock], by simp [Spec.step, hm], ?_⟩, hf.clock, hf.vers⟩
    intro c hc
    rcases List.mem_append.mp hc with h | h
    · exact hext c h
    · simp at h; rw [h]; exact hf.clock
  | release h =>
    simp only [Spec.step]
    by_cases h0 : h = 0
    · rw [if_pos h0]; exact hf
    · rw [if_neg h0]
      by_cases h1 : h ≠ s.marks.length
      · rw [if_pos h1]; exact hf
      · rw [if_neg h1]
        have hlen : pre.length < s.marks.length := by
          rcases ha with h | h | h
          · exact absurd h h0
          · exact absurd h h1
          · exact h
        have hne : ext ≠ [] := by
          intro he; rw [hm, he] at hlen; simp at hlen
        refine ⟨⟨ext.dropLast, ?_, fun c hc => hext c (mem_dropLast _ _ hc)⟩, hf.clock, hf.vers⟩
        show s.marks.dropLast = _
        rw [hm, List.dropLast_append_of_ne_nil hne]
  | cleanup h =>
    simp only [Spec.step]
    by_cases h0 : h = 0
    · rw [if_pos h0]; exact hf
    · rw [if_neg h0]
      by_cases h1 : h > s.marks.length
      · rw [if_pos h1]; exact hf
      · rw [if_neg h1]
        by_cases h2 : h < s.marks.length
        · rw [if_pos h2]; exact hf
        · rw [if_neg h2]
          have heq : h = s.marks.length := by omega
          have hlen : pre.length < s.marks.length := by
            rcases ha with h | h | h
            · exact absurd h h0
            · exact absurd heq h
            · exact h
          have hne : ext ≠ [] := by
            intro he; rw [hm, he] at hlen; simp at hlen
          cases hl : s.marks.getLast? with
          | none => exact hf
          | some mk =>
            have hmk : mark ≤ mk := by
              rw [hm, getLast_append_ne_nil pre ext hne] at hl
              exact hext mk (List.mem_of_getLast? hl)
            refine ⟨⟨ext.dropLast, ?_, fun c hc => hext c (mem_dropLast _ _ hc)⟩, hmk, ?_⟩
            · show s.marks.dropLast = _
              rw [hm, List.dropLast_append_of_ne_nil hne]
            · intro k
              have := vers_undoTo s mk k mark hmk
              simp only [Spec.vers, Spec.find, Spec.undoTo] at this ⊢
              rw [this]; exact hf.vers k
  | checkpoint => exact ⟨⟨ext, hm, hext⟩, hf.clock, hf.vers⟩
  | revert cp =>
    simp only [Spec.step]
    cases hc : (decide (cp ≤ s.clock) && (match s.marks.getLast? with | some m => decide (m ≤ cp) | none => true)) with
    | true =>
      rw [if_pos rfl]
      have hcp : mark ≤ cp := ha hc
      refine ⟨⟨ext, hm, hext⟩, hcp, ?_⟩
      intro k
      show oldPart mark ((s.undoTo cp).vers k) = old k
      rw [vers_undoTo s cp k mark hcp]; exact hf.vers k
    | false =>
      rw [if_neg (by simp)]; exact hf
  | inspect h => simp only [Spec.step]; split <;> (try split) <;> exact hf
  | hist k p => simp only [Spec.step]; split <;> (try split) <;> (try split) <;> exact hf
  | setLimits e b => exact ⟨⟨ext, hm, hext⟩, hf.clock, hf.vers⟩

end CGV.MemBuf
