/-
  C08 helper lemmas, part 8: the FULL view after an undo (flags and presence, not only values), and len/size as functions
  of the view.
-/
import ClientGoVerif.Proofs.VLogRun
namespace CGV.MemBuf
open CGV

def isVal : Out → Bool
  | .val _ => true
  | _ => false

def persistentOut (o : Out) : Out :=
  match o with
  | .flags f => if KeyFlags.andPersistent f = 0 then .notFound else .flags (KeyFlags.andPersistent f)
  | o => o

/-- The documented flag rule of an undo (Cleanup / RevertToCheckpoint), on API answers.  `getAt`: `Get k` at the point undone
    to; `getNow`, `flagsNow`: `Get k` / `GetFlags k` just before the undo.  Flags are not rolled back; a key that loses its
    only values keeps exactly its persistent flags and disappears when there are none. -/
def flagsAfterUndo (getAt getNow flagsNow : Out) : Out :=
  if isVal getAt then flagsNow else if isVal getNow then persistentOut flagsNow else flagsNow

theorem getFlags_out (s : Spec) (k : Bytes) :
    (s.step (.getFlags k)).2 = (match s.find k with
      | some c => if c.present then Out.flags c.flags else Out.notFound
      | none => Out.notFound) := by
  simp only [Spec.step]
  cases s.find k with
  | none => rfl
  | some c => simp only []; split <;> rfl

/-- a cell with a value is present -/
theorem present_of_versions {m : VLog} (hi : Inv m) (c : Cell) (hc : c ∈ (abs m).cells) (hv : c.versions ≠ []) :
    c.present = true := by
  simp only [abs, List.mem_map] at hc
  obtain ⟨n, hn, rfl⟩ := hc
  cases hd : n.deleted
  · simp [absNode, hd]
  · have h0 := hi.del n hn hd
    have := hi.vptr n hn
    rw [h0] at this
    exact absurd (topAddr_eq_zero this.symm) hv

theorem oldPart_nil_of_dropWhile (mark : Nat) (vs : List Version) (hs : vs.Pairwise (fun x y => x.1 > y.1)) :
    (vs.dropWhile (fun x => x.1 > mark)).isEmpty = (oldPart mark vs).isEmpty := by
  rw [dropWhile_eq_filter mark vs hs]

def flagsOut (x : Option Cell) : Out :=
  match x with
  | some c => if c.present then Out.flags c.flags else Out.notFound
  | none => Out.notFound

theorem getFlags_out' (s : Spec) (k : Bytes) : (s.step (.getFlags k)).2 = flagsOut (s.find k) := getFlags_out s k

theorem opt_flags_after (mark : Nat) (x : Option Cell)
    (hs : ((x.map (·.versions)).getD []).Pairwise (fun a b => a.1 > b.1))
    (hp : ∀ c, x = some c → c.versions ≠ [] → c.present = true) :
    flagsOut (x.map (Spec.undoCell mark)) =
      (if (oldPart mark ((x.map (·.versions)).getD [])).isEmpty = false then flagsOut x
       else if ((x.map (·.versions)).getD []).isEmpty = false then persistentOut (flagsOut x)
       else flagsOut x) := by
  cases x with
  | none => simp [flagsOut, oldPart]
  | some c =>
    simp only [Option.map_some, Option.getD_some] at hs ⊢
    by_cases hnil : c.versions = []
    · rw [undoCell_nil mark c hnil]
      simp [hnil, oldPart]
    · have hpres := hp c rfl hnil
      have hne : c.versions.isEmpty = false := by
        cases hv : c.versions with
        | nil => exact absurd hv hnil
        | cons _ _ => rfl
      cases hold : oldPart mark c.versions with
      | nil =>
        have hcell : Spec.undoCell mark c = Spec.flagsRule c := by
          obtain ⟨y, ys, hy⟩ := List.exists_cons_of_ne_nil hnil
          obtain ⟨a, v⟩ := y
          have ha : ¬ a ≤ mark := by
            intro hle
            have : (a, v) ∈ oldPart mark c.versions := by
              simp only [oldPart, List.mem_filter, hy]
              exact ⟨by simp, by simpa using hle⟩
            rw [hold] at this; simp at this
          have hdw : (c.versions.dropWhile (fun x => decide (x.1 > mark))).isEmpty = true := by
            rw [dropWhile_eq_filter mark c.versions hs, hold]; rfl
          simp only [Spec.undoCell, hy, ha, if_false]
          rw [← hy, hdw]; rfl
        rw [hcell]
        simp only [List.isEmpty_nil, hne, flagsOut, hpres, Spec.flagsRule, persistentOut]
        by_cases hk0 : KeyFlags.andPersistent c.flags = 0 <;> simp [hk0, hpres]
      | cons y ys =>
        have hcell : (Spec.undoCell mark c).present = c.present ∧ (Spec.undoCell mark c).flags = c.flags := by
          simp only [Spec.undoCell]
          split
          · exact ⟨rfl, rfl⟩
          · split
            · exact ⟨rfl, rfl⟩
            · split
              · rename_i hemp
                rw [dropWhile_eq_filter mark c.versions hs, hold] at hemp
                simp at hemp
              · exact ⟨rfl, rfl⟩
        simp [flagsOut, hcell.1, hcell.2]

/-- GetFlags after "forget everything newer than `mark`" -/
theorem undoTo_getFlags {m2 : VLog} (hi2 : Inv m2) (mark : Nat) (st : List Nat) (k : Bytes) :
    (({ (abs m2).undoTo mark with marks := st } : Spec).step (.getFlags k)).2 =
      (if (oldPart mark ((abs m2).vers k)).isEmpty = false then ((abs m2).step (.getFlags k)).2
       else if ((abs m2).vers k).isEmpty = false then persistentOut ((abs m2).step (.getFlags k)).2
       else ((abs m2).step (.getFlags k)).2) := by
  rw [getFlags_out', getFlags_out']
  have hfind : ({ (abs m2).undoTo mark with marks := st } : Spec).find k = ((abs m2).find k).map (Spec.undoCell mark) := by
    simp only [Spec.find, Spec.undoTo, find_map_undoCell]
  rw [hfind]
  exact opt_flags_after mark ((abs m2).find k) (vers_abs_sorted m2 k)
    (fun c hc hv => present_of_versions hi2 c (List.mem_of_find?_eq_some hc) hv)

theorem isVal_get (s : Spec) (k : Bytes) : isVal (s.step (.get k)).2 = !(s.vers k).isEmpty := by
  rw [get_out]
  cases s.vers k <;> rfl

/-- the flags part of the view after an undo, on the mechanism model -/
theorem undo_flags_model (m m2 m3 : VLog) (hi : Inv m) (hi2 : Inv m2) (hi3 : Inv m3) (mark : Nat) (st : List Nat) (k : Bytes)
    (hfr : oldPart mark ((abs m2).vers k) = (abs m).vers k)
    (h3 : abs m3 = { (abs m2).undoTo mark with marks := st }) :
    (m3.step (.getFlags k)).2 = flagsAfterUndo (m.step (.get k)).2 (m2.step (.get k)).2 (m2.step (.getFlags k)).2 := by
  have e3 : (m3.step (.getFlags k)).2 = ((abs m3).step (.getFlags k)).2 := by rw [(step_refines hi3 (.getFlags k)).1]
  have e2 : (m2.step (.getFlags k)).2 = ((abs m2).step (.getFlags k)).2 := by rw [(step_refines hi2 (.getFlags k)).1]
  have g2 : (m2.step (.get k)).2 = ((abs m2).step (.get k)).2 := by rw [(step_refines hi2 (.get k)).1]
  have g0 : (m.step (.get k)).2 = ((abs m).step (.get k)).2 := by rw [(step_refines hi (.get k)).1]
  rw [e3, e2, g2, g0, h3, undoTo_getFlags hi2, hfr]
  simp only [flagsAfterUndo, isVal_get]
  cases ((abs m).vers k).isEmpty <;> cases ((abs m2).vers k).isEmpty <;> rfl

/-- the values part of the view after an undo -/
theorem undo_values_model (m m2 m3 : VLog) (hi : Inv m) (hi3 : Inv m3) (mark : Nat) (st : List Nat) (k : Bytes)
    (hfr : oldPart mark ((abs m2).vers k) = (abs m).vers k)
    (h3 : abs m3 = { (abs m2).undoTo mark with marks := st }) :
    (m3.step (.get k)).2 = (m.step (.get k)).2 := by
  apply get_eq_of_vers m m3 hi hi3
  rw [h3]
  have : ({ (abs m2).undoTo mark with marks := st } : Spec).vers k = ((abs m2).undoTo mark).vers k := rfl
  rw [this, vers_undoTo_abs, hfr]

/-- everything the Cleanup theorems need: the stage opened at `m`, any body that keeps it, Cleanup of it -/
theorem cleanup_setup (m : VLog) (hi : Inv m) (body : List Op)
    (hk : KeepsStage (m.stages.length + 1) (abs (m.step .staging).1) body)
    (htop : ((m.step .staging).1.run body).1.stages.length = m.stages.length + 1) :
    Inv ((m.step .staging).1.run body).1 ∧
    Inv (((m.step .staging).1.run body).1.step (.cleanup (m.stages.length + 1))).1 ∧
    abs (((m.step .staging).1.run body).1.step (.cleanup (m.stages.length + 1))).1
      = { (abs ((m.step .staging).1.run body).1).undoTo m.log.length with marks := m.stages } ∧
    ∀ k, oldPart m.log.length ((abs ((m.step .staging).1.run body).1).vers k) = (abs m).vers k := by
  obtain ⟨_, hi1⟩ := step_refines hi .staging
  obtain ⟨hr, hi2⟩ := run_refines hi1 body
  have hi3 := (step_refines hi2 (.cleanup (m.stages.length + 1))).2
  have hf1 := stage_frame m
  have hf2 := frame_run body _ hf1 (respects_of_keepsStage body _ hf1 hk)
  have hrun : ((abs (m.step .staging).1).run body).1 = abs ((m.step .staging).1.run body).1 := by rw [hr]
  rw [hrun] at hf2
  generalize ((m.step .staging).1.run body).1 = m2 at *
  obtain ⟨ext, hm, _⟩ := hf2.marks
  have hm' : m2.stages = m.stages ++ [m.log.length] ++ ext := hm
  have hext : ext = [] := by
    have hl := htop
    rw [hm'] at hl
    simp only [List.length_append, List.length_cons, List.length_nil] at hl
    exact List.eq_nil_of_length_eq_zero (by omega)
  have hst : m2.stages = m.stages ++ [m.log.length] := by rw [hm', hext]; simp
  exact ⟨hi2, hi3, cleanup_top_refines m2 hi2 m.stages m.log.length hst, hf2.vers⟩

/-- everything the RevertToCheckpoint theorems need: the mark `m.checkpoint`, a body that respects it, a successful revert -/
theorem revert_setup (m : VLog) (hi : Inv m) (body : List Op)
    (hr : Respects m.checkpoint m.stages (abs m) body)
    (hok : ((m.run body).1.step (.revert m.checkpoint)).2 = .ok) :
    Inv (m.run body).1 ∧ Inv ((m.run body).1.step (.revert m.checkpoint)).1 ∧
    abs ((m.run body).1.step (.revert m.checkpoint)).1
      = { (abs (m.run body).1).undoTo m.checkpoint with marks := (m.run body).1.stages } ∧
    ∀ k, oldPart m.checkpoint ((abs (m.run body).1).vers k) = (abs m).vers k := by
  obtain ⟨hrun, hi2⟩ := run_refines hi body
  obtain ⟨_, hi3⟩ := step_refines hi2 (.revert m.checkpoint)
  have hf1 : Frame m.checkpoint m.stages (fun k => (abs m).vers k) (abs m) :=
    ⟨⟨[], by simp [abs], by simp⟩, Nat.le_refl _, fun k => oldPart_self _ _ (vers_abs_le m k)⟩
  have hf2 := frame_run body _ hf1 hr
  have hrun' : ((abs m).run body).1 = abs (m.run body).1 := by rw [hrun]
  rw [hrun'] at hf2
  obtain ⟨hst, _, hlast⟩ := revert_ok_state (m.run body).1 m.checkpoint hok
  have hcond : m.checkpoint ≤ (m.run body).1.log.length := hf2.clock
  have hle : ∀ c ∈ (m.run body).1.stages, c ≤ m.checkpoint := by
    intro c hc'
    cases hl : (m.run body).1.stages.getLast? with
    | none =>
      have : (m.run body).1.stages = [] := by simpa using hl
      rw [this] at hc'; simp at hc'
    | some x =>
      have hx : x ≤ m.checkpoint := hlast x hl
      have := sorted_le_last _ hi2.stagesSorted x hl c hc'
      omega
  obtain ⟨ea, _⟩ := revertTo_refines hi2 m.checkpoint hcond (m.run body).1.stages hle hi2.stagesSorted
  refine ⟨hi2, hi3, ?_, hf2.vers⟩
  rw [hst]
  exact ea

/-- … and with the checkpoint remembered by `Checkpoint()`, `Respects` follows from the two usage conditions -/
theorem respects_after_checkpoint (m0 : VLog) (body : List Op)
    (hk : KeepsStage (m0.step .checkpoint).1.stages.length (abs (m0.step .checkpoint).1) body)
    (hn : NoRevertBelow (m0.step .checkpoint).1.checkpoint body) :
    Respects (m0.step .checkpoint).1.checkpoint (m0.step .checkpoint).1.stages (abs (m0.step .checkpoint).1) body := by
  have hg : (m0.step .checkpoint).1.checkpoint ≤ (abs (m0.step .checkpoint).1).guard := Nat.le_refl _
  generalize (m0.step .checkpoint).1 = m at *
  have hf1 : Frame m.checkpoint m.stages (fun k => (abs m).vers k) (abs m) :=
    ⟨⟨[], by simp [abs], by simp⟩, Nat.le_refl _, fun k => oldPart_self _ _ (vers_abs_le m k)⟩
  exact respects_of_guard body _ hf1 hg hk hn

/-! ## Len and Size are functions of the view -/

def itemSize (i : Item) : Int := ((i.key.length + (match i.value with | some v => v.length | none => 0) : Nat) : Int)

theorem insertItem_length (x : Item) (l : List Item) : (insertItem x l).length = l.length + 1 := by
  induction l with
  | nil => rfl
  | cons y ys ih => simp only [insertItem]; split <;> simp [ih]

theorem sortItems_length (l : List Item) : (sortItems l).length = l.length := by
  induction l with
  | nil => rfl
  | cons x xs ih => simp [sortItems, insertItem_length, ih]

theorem insertItem_sum (f : Item → Int) (x : Item) (l : List Item) :
    Spec.sumInt f (insertItem x l) = f x + Spec.sumInt f l := by
  induction l with
  | nil => rfl
  | cons y ys ih =>
    simp only [insertItem]
    split
    · rfl
    · simp only [Spec.sumInt, ih]; omega

theorem sortItems_sum (f : Item → Int) (l : List Item) : Spec.sumInt f (sortItems l) = Spec.sumInt f l := by
  induction l with
  | nil => rfl
  | cons x xs ih => simp only [sortItems, insertItem_sum, Spec.sumInt, ih]

theorem inRange_unbounded (k : Bytes) : inRange [] [] k = true := by simp [inRange]

theorem full_items_count (cells : List Cell) :
    (((cells.filter (fun c => c.present && inRange [] [] c.key && (true || c.versions != []))).map Spec.itemOf).length : Int)
      = Spec.sumInt Spec.cellCount cells := by
  induction cells with
  | nil => rfl
  | cons c tl ih =>
    simp only [List.filter_cons, inRange_unbounded, Bool.and_true, Bool.true_or, Spec.sumInt, Spec.cellCount] at ih ⊢
    cases hp : c.present
    · simp only [Bool.false_eq_true, if_false]; rw [ih]; omega
    · simp only [if_true, List.map_cons, List.length_cons]; rw [← ih]; omega

theorem full_items_size (cells : List Cell) :
    Spec.sumInt itemSize ((cells.filter (fun c => c.present && inRange [] [] c.key && (true || c.versions != []))).map Spec.itemOf)
      = Spec.sumInt Spec.cellSize cells := by
  induction cells with
  | nil => rfl
  | cons c tl ih =>
    simp only [List.filter_cons, inRange_unbounded, Bool.and_true, Bool.true_or, Spec.sumInt, Spec.cellSize] at ih ⊢
    cases hp : c.present
    · simp only [Bool.false_eq_true, if_false]; rw [ih]; omega
    · simp only [if_true, List.map_cons, Spec.sumInt]
      rw [ih]
      have : itemSize (Spec.itemOf c) = ((c.key.length + c.valLen : Nat) : Int) := by
        simp only [itemSize, Spec.itemOf, Cell.value, Cell.valLen]
        cases c.versions with
        | nil => rfl
        | cons y ys => obtain ⟨a, v⟩ := y; rfl
      rw [this]

/-- Len() = number of keys in the view, Size() = Σ (key length + value length) over the view -/
theorem len_size_of_view {m : VLog} (hi : Inv m) :
    (m.step (.iter [] [] false true)).2 = .items (sortItems (m.iterItems [] [] true)) ∧
    (m.step .len).2 = .num ((sortItems (m.iterItems [] [] true)).length) ∧
    (m.step .size).2 = .num (Spec.sumInt itemSize (sortItems (m.iterItems [] [] true))) := by
  refine ⟨rfl, ?_, ?_⟩
  · show Out.num m.len = _
    rw [hi.len, sortItems_length, ← iterItems_refines hi]
    congr 1
    exact (full_items_count (abs m).cells).symm
  · show Out.num m.size = _
    rw [hi.size, sortItems_sum, ← iterItems_refines hi]
    congr 1
    exact (full_items_size (abs m).cells).symm

end CGV.MemBuf
