/- read-side lemmas of the MVCC model: visibility, scan = per-key gets, reverse scan = mirror image -/
import ClientGoVerif.Model.Mvcc
namespace CGV.Mvcc
open CGV

/-- version records in strictly descending commit-ts order (the leveldb order of the mock) -/
def Desc : List Write → Prop
  | [] => True
  | [_] => True
  | a :: b :: rest => b.commitTS < a.commitTS ∧ Desc (b :: rest)

theorem Desc.tail {w : Write} {ws : List Write} (h : Desc (w :: ws)) : Desc ws := by
  cases ws with
  | nil => trivial
  | cons b rest => exact h.2

theorem Desc.head_gt {w : Write} {ws : List Write} (h : Desc (w :: ws)) : ∀ x ∈ ws, x.commitTS < w.commitTS := by
  induction ws generalizing w with
  | nil => intro x hx; cases hx
  | cons b rest ih =>
    intro x hx
    cases hx with
    | head => exact h.1
    | tail _ hx' => exact Nat.lt_trans (ih h.2 x hx') h.1

@[simp] theorem vt_beq (a b : VT) : (a == b) = decide (a = b) := by cases a <;> cases b <;> rfl
@[simp] theorem op_beq (a b : Op) : (a == b) = decide (a = b) := by cases a <;> cases b <;> rfl

def isData (w : Write) : Bool := w.vt == .put || w.vt == .delete

/-- what a read at `ts` must see: the data record with the greatest commit ts ≤ ts (`none` if there is none) -/
def NewestLE (ws : List Write) (ts : TS) (r : Option Write) : Prop :=
  match r with
  | none => ∀ w ∈ ws, isData w = true → ts < w.commitTS
  | some w => w ∈ ws ∧ isData w = true ∧ w.commitTS ≤ ts ∧
      ∀ w' ∈ ws, isData w' = true → w'.commitTS ≤ ts → w'.commitTS ≤ w.commitTS

/-- the newest data record at or below ts, before delete-filtering -/
def newestData (ws : List Write) (ts : TS) : Option Write :=
  ws.find? fun w => isData w && w.commitTS ≤ ts

theorem firstVisible_eq (ws : List Write) (ts : TS) :
    firstVisible ws ts = (newestData ws ts).bind fun w => if w.vt == .delete then none else some w := by
  induction ws with
  | nil => rfl
  | cons w rest ih =>
    simp only [firstVisible, newestData, List.find?_cons]
    simp only [newestData] at ih
    by_cases hle : w.commitTS ≤ ts
    · cases hv : w.vt <;> simp [isData, hv, hle, ih]
    · cases hv : w.vt <;> simp [isData, hv, hle, ih]

theorem newestData_spec (ws : List Write) (ts : TS) (hd : Desc ws) : NewestLE ws ts (newestData ws ts) := by
  induction ws with
  | nil => simp [newestData, NewestLE]
  | cons w rest ih =>
    simp only [newestData, List.find?_cons]
    by_cases hw : (isData w && decide (w.commitTS ≤ ts)) = true
    · simp only [hw]
      simp only [Bool.and_eq_true, decide_eq_true_eq] at hw
      refine ⟨List.mem_cons_self .., hw.1, hw.2, ?_⟩
      intro w' hw' _ _
      cases hw' with
      | head => exact Nat.le_refl _
      | tail _ h' => exact Nat.le_of_lt (hd.head_gt w' h')
    · have hw' : (isData w && decide (w.commitTS ≤ ts)) = false := by simpa using hw
      simp only [hw']
      have ih' := ih hd.tail
      simp only [newestData] at ih'
      cases hr : List.find? (fun w => isData w && decide (w.commitTS ≤ ts)) rest with
      | none =>
        rw [hr] at ih'
        simp only [NewestLE] at ih' ⊢
        intro x hx hdx
        cases hx with
        | head =>
          simp only [Bool.and_eq_false_iff, decide_eq_false_iff_not] at hw'
          cases hw' with
          | inl h => rw [h] at hdx; cases hdx
          | inr h => exact Nat.lt_of_not_le h
        | tail _ h' => exact ih' x h' hdx
      | some r =>
        rw [hr] at ih'
        simp only [NewestLE] at ih' ⊢
        obtain ⟨hm, hdr, hle, hmax⟩ := ih'
        refine ⟨List.mem_cons_of_mem _ hm, hdr, hle, ?_⟩
        intro x hx hdx hxle
        cases hx with
        | head =>
          simp only [Bool.and_eq_false_iff, decide_eq_false_iff_not] at hw'
          cases hw' with
          | inl h => rw [h] at hdx; cases hdx
          | inr h => exact absurd hxle h
        | tail _ h' => exact hmax x h' hdx hxle

/-- the result pair a scan produces for one key -/
def pairOf (k : Bytes) (e : Entry) (ts : TS) (si : Bool) (resolved : List TS) : Option Pair :=
  match getValue e k ts si resolved with
  | .ok none => none
  | .ok (some w) => some (.kv k w.value 0)
  | .error err => some (.err err)

theorem scanAux_eq (kv : List (Bytes × Entry)) (limit : Nat) (ts : TS) (si : Bool) (rs : List TS) (acc : List Pair)
    (h : acc.length ≤ limit) :
    scanAux kv limit ts si rs acc = (acc.reverse ++ kv.filterMap fun p => pairOf p.1 p.2 ts si rs).take limit := by
  induction kv generalizing acc with
  | nil => simp [scanAux, List.take_of_length_le, h]
  | cons p rest ih =>
    obtain ⟨k, e⟩ := p
    simp only [scanAux]
    by_cases hfull : acc.length ≥ limit
    · have : acc.length = limit := Nat.le_antisymm h hfull
      simp only [hfull, if_true]
      rw [List.take_append_of_le_length (by simp [this])]
      simp [List.take_of_length_le, this]
    · simp only [hfull, if_false]
      have hlt : acc.length < limit := Nat.lt_of_not_ge hfull
      cases hg : getValue e k ts si rs with
      | error err =>
        simp only []
        rw [ih _ (by simp; omega)]
        simp [pairOf, hg]
      | ok v =>
        cases v with
        | none =>
          simp only []
          rw [ih _ h]
          simp [pairOf, hg]
        | some w =>
          simp only []
          rw [ih _ (by simp; omega)]
          simp [pairOf, hg]

/-- C12: a scan equals the per-key gets of its range, cut at the limit -/
theorem scan_eq_gets (s : Store) (a b : Bytes) (limit : Nat) (ts : TS) (si : Bool) (rs : List TS) :
    scan s a b limit ts si rs =
      ((s.kv.filter fun p => inRange a b p.1).filterMap fun p => pairOf p.1 p.2 ts si rs).take limit := by
  simp [scan, scanAux_eq]

/-- C12: a reverse scan is the mirror image of the scan (same range, no limit cutting either) -/
theorem reverseScan_mirror (s : Store) (a b : Bytes) (limit : Nat) (ts : TS) (si : Bool) (rs : List TS)
    (hl : (s.kv.filter fun p => inRange a b p.1).length ≤ limit) :
    reverseScan s a b limit ts si rs = (scan s a b limit ts si rs).reverse := by
  simp only [reverseScan, scan, scanAux_eq _ _ _ _ _ [] (Nat.zero_le _), List.reverse_nil, List.nil_append]
  rw [List.filterMap_reverse]
  have h1 : ((s.kv.filter fun p => inRange a b p.1).filterMap fun p => pairOf p.1 p.2 ts si rs).length ≤ limit :=
    Nat.le_trans (List.length_filterMap_le _ _) hl
  rw [List.take_of_length_le (by simpa using h1), List.take_of_length_le h1]

end CGV.Mvcc
