/- GC of one key's versions preserves every read at or above the safe point -/
import ClientGoVerif.Proofs.MvccReads
namespace CGV.Mvcc
open CGV

/-- the versions that survive `gcWrites` (same recursion, returning the survivors instead of delete actions) -/
def gcKeep : List Write → TS → Bool → List Write
  | [], _, _ => []
  | w :: rest, sp, keepNext =>
    if w.commitTS > sp then w :: gcKeep rest sp keepNext
    else if w.vt == .put || w.vt == .delete then
      (if !keepNext || w.vt == .delete then [] else [w]) ++ gcKeep rest sp false
    else gcKeep rest sp keepNext

/-- the commit timestamps `gcWrites` deletes -/
def gcDropped : List Write → TS → Bool → List TS
  | [], _, _ => []
  | w :: rest, sp, keepNext =>
    if w.commitTS > sp then gcDropped rest sp keepNext
    else if w.vt == .put || w.vt == .delete then
      (if !keepNext || w.vt == .delete then [w.commitTS] else []) ++ gcDropped rest sp false
    else w.commitTS :: gcDropped rest sp keepNext

theorem gcWrites_eq (key : Bytes) (ws : List Write) (sp : TS) (kn : Bool) :
    gcWrites key ws sp kn = (gcDropped ws sp kn).map (Act.delWrite key) := by
  induction ws generalizing kn with
  | nil => rfl
  | cons w rest ih =>
    simp only [gcWrites, gcDropped]
    split
    · exact ih kn
    · split
      · split <;> simp [ih]
      · simp [ih]

theorem gcDropped_le (ws : List Write) (sp : TS) (kn : Bool) : ∀ c ∈ gcDropped ws sp kn, ∃ w ∈ ws, w.commitTS = c := by
  induction ws generalizing kn with
  | nil => intro c hc; cases hc
  | cons w rest ih =>
    intro c hc
    simp only [gcDropped] at hc
    split at hc
    · obtain ⟨x, hx, he⟩ := ih kn c hc; exact ⟨x, List.mem_cons_of_mem _ hx, he⟩
    · split at hc
      · rw [List.mem_append] at hc
        cases hc with
        | inl h =>
          split at h
          · simp at h; exact ⟨w, List.mem_cons_self .., h.symm⟩
          · cases h
        | inr h => obtain ⟨x, hx, he⟩ := ih false c h; exact ⟨x, List.mem_cons_of_mem _ hx, he⟩
      · cases hc with
        | head => exact ⟨w, List.mem_cons_self .., rfl⟩
        | tail _ h => obtain ⟨x, hx, he⟩ := ih kn c h; exact ⟨x, List.mem_cons_of_mem _ hx, he⟩

/-- net effect of a list of version deletions on one key -/
def applyDels (ws : List Write) (cs : List TS) : List Write := ws.filter fun w => !cs.contains w.commitTS

theorem applyDels_cons (ws : List Write) (c : TS) (cs : List TS) :
    applyDels ws (c :: cs) = applyDels (delWrite ws c) cs := by
  simp only [applyDels, delWrite, List.filter_filter]
  apply List.filter_congr
  intro w _
  by_cases h : w.commitTS = c <;> simp [h, List.contains_cons]

theorem foldl_delWrite (ws : List Write) (cs : List TS) : cs.foldl delWrite ws = applyDels ws cs := by
  induction cs generalizing ws with
  | nil =>
    simp only [List.foldl_nil, applyDels, List.contains_nil, Bool.not_false]
    exact (List.filter_eq_self.mpr (fun _ _ => rfl)).symm
  | cons c rest ih => rw [List.foldl_cons, ih, applyDels_cons]

theorem applyDels_of_lt (rest : List Write) (c : TS) (cs : List TS) (h : ∀ x ∈ rest, x.commitTS < c) :
    applyDels rest (c :: cs) = applyDels rest cs := by
  simp only [applyDels]
  apply List.filter_congr
  intro x hx
  have := h x hx
  have hne : ¬ x.commitTS = c := by omega
  simp [List.contains_cons, hne]

theorem applyDels_append_of_lt (rest : List Write) (pre cs : List TS) (h : ∀ c ∈ pre, ∀ x ∈ rest, x.commitTS < c) :
    applyDels rest (pre ++ cs) = applyDels rest cs := by
  induction pre with
  | nil => rfl
  | cons c pre ih =>
    rw [List.cons_append, applyDels_of_lt rest c _ (h c (List.mem_cons_self ..))]
    exact ih (fun c' hc' => h c' (List.mem_cons_of_mem _ hc'))

theorem applyDels_cons_self (w : Write) (rest : List Write) (cs : List TS) (h : ∀ x ∈ rest, x.commitTS < w.commitTS) :
    applyDels (w :: rest) (w.commitTS :: cs) = applyDels rest cs := by
  rw [← applyDels_of_lt rest w.commitTS cs h]
  simp [applyDels, List.filter_cons, List.contains_cons]

theorem applyDels_cons_keep (w : Write) (rest : List Write) (cs : List TS) (h : ¬ cs.contains w.commitTS = true) :
    applyDels (w :: rest) cs = w :: applyDels rest cs := by
  have h' : ¬ w.commitTS ∈ cs := by simpa using h
  simp [applyDels, List.filter_cons, h']

theorem applyDels_gcDropped (ws : List Write) (sp : TS) (kn : Bool) (hd : Desc ws) :
    applyDels ws (gcDropped ws sp kn) = gcKeep ws sp kn := by
  induction ws generalizing kn with
  | nil => rfl
  | cons w rest ih =>
    have hlt := hd.head_gt
    have hnot : ∀ kn', ¬ (gcDropped rest sp kn').contains w.commitTS = true := by
      intro kn' hc
      obtain ⟨x, hx, he⟩ := gcDropped_le rest sp kn' w.commitTS (by simpa using hc)
      have := hlt x hx; omega
    simp only [gcDropped, gcKeep]
    split
    · rw [applyDels_cons_keep _ _ _ (hnot kn), ih kn hd.tail]
    · split
      · split
        · simp only [List.singleton_append, List.nil_append]
          rw [applyDels_cons_self _ _ _ hlt, ih false hd.tail]
        · simp only [List.nil_append, List.singleton_append]
          rw [applyDels_cons_keep _ _ _ (hnot false), ih false hd.tail]
      · rw [applyDels_cons_self _ _ _ hlt, ih kn hd.tail]

theorem gcKeep_false_nil (ws : List Write) (sp : TS) (h : ∀ w ∈ ws, w.commitTS ≤ sp) : gcKeep ws sp false = [] := by
  induction ws with
  | nil => rfl
  | cons w rest ih =>
    have hw := h w (List.mem_cons_self ..)
    have hr := ih (fun x hx => h x (List.mem_cons_of_mem _ hx))
    have : ¬ w.commitTS > sp := by omega
    simp only [gcKeep, this, if_false, Bool.not_false, Bool.true_or, if_true, List.nil_append, hr]
    split <;> rfl

/-- C12/C14: GC of a key's versions changes no read at or above the safe point -/
theorem gcKeep_reads (ws : List Write) (sp ts : TS) (hd : Desc ws) (hts : sp ≤ ts) :
    firstVisible (gcKeep ws sp true) ts = firstVisible ws ts := by
  induction ws with
  | nil => rfl
  | cons w rest ih =>
    have ih' := ih hd.tail
    simp only [gcKeep]
    by_cases hgt : w.commitTS > sp
    · simp only [hgt, if_true, firstVisible, ih']
    · simp only [hgt, if_false]
      have hle : w.commitTS ≤ ts := by omega
      have hrest : ∀ x ∈ rest, x.commitTS ≤ sp := fun x hx => by have := hd.head_gt x hx; omega
      cases hv : w.vt with
      | put =>
        simp [hv, firstVisible, hle]
      | delete =>
        simp [hv, firstVisible, hle, gcKeep_false_nil rest sp hrest]
      | rollback =>
        simp [hv, firstVisible, ih']
      | lock =>
        simp [hv, firstVisible, ih']

end CGV.Mvcc
