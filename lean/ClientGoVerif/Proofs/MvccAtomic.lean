/- cross-key atomicity of one transaction (the heart of Percolator), for every command sequence in which the
   commands that carry the transaction's start ts obey the resolver/owner discipline:
   nobody commits a secondary before the primary is committed at that commit ts, nobody rolls a secondary back before
   the primary is rolled back.  Then in every reachable state every data record of the transaction — on any key —
   has the primary's commit ts, and no key holds a rollback record of it while another holds a data record. -/
import ClientGoVerif.Proofs.MvccTemporal
namespace CGV.Mvcc
open CGV

def HasData (e : Entry) (T C : TS) : Prop := ∃ w ∈ e.writes, w.startTS = T ∧ w.vt ≠ .rollback ∧ w.commitTS = C
def HasRb (e : Entry) (T : TS) : Prop := ∃ w ∈ e.writes, w.startTS = T ∧ w.vt = .rollback

/-! ### where records of a transaction come from, step by step -/

theorem mem_filter_delWrites {ws : List Write} {cs : List TS} {w : Write} (h : w ∈ cs.foldl delWrite ws) : w ∈ ws := by
  induction cs generalizing ws with
  | nil => exact h
  | cons c rest ih => exact (List.mem_filter.mp (ih h)).1

/-- any record present after a step was there before, or is the one record the step's label names -/
theorem KStep.record_origin {e e' : Entry} {lab : KLabel} (h : KStep e lab e') (w : Write) (hw : w ∈ e'.writes) :
    w ∈ e.writes ∨
      (∃ T C, lab = .commit T C ∧ w.startTS = T ∧ w.commitTS = C ∧ w.vt ≠ .rollback) ∨
      (∃ T, (lab = .rollback T ∨ lab = .marker T) ∧ w.startTS = T ∧ w.vt = .rollback) := by
  cases h with
  | same => exact Or.inl hw
  | commit l k T C hl hT hC =>
    rcases commitLock_writes e l k T C with h1 | ⟨vt, hvt, h1⟩ <;> rw [h1] at hw
    · exact Or.inl hw
    · rcases mem_putWrite_iff hw with rfl | h2
      · exact Or.inr (Or.inl ⟨T, C, rfl, rfl, rfl, hvt⟩)
      · exact Or.inl h2
  | rollback l k T hl hT =>
    rw [rollbackLock_writes] at hw
    rcases mem_putWrite_iff hw with rfl | h2
    · exact Or.inr (Or.inr ⟨T, Or.inl rfl, rfl, rfl⟩)
    · exact Or.inl h2
  | marker k T hnl hf =>
    rw [marker_writes] at hw
    rcases mem_putWrite_iff hw with rfl | h2
    · exact Or.inr (Or.inr ⟨T, Or.inr rfl, rfl, rfl⟩)
    · exact Or.inl h2
  | locks k T acts ha hf => rw [(KStep.locks k T acts ha hf).locks_writes] at hw; exact Or.inl hw
  | touch k T l l' hl hT hT' hop => exact Or.inl hw
  | unlock acts ha => rw [(KStep.unlock acts ha).unlock_writes] at hw; exact Or.inl hw
  | gc k sp =>
    rw [gcWrites_eq, foldl_entryAct_delWrites] at hw
    exact Or.inl (mem_filter_delWrites hw)
  | wipe => cases hw

theorem KStep.data_origin {e e' : Entry} {lab : KLabel} {T C : TS} (h : KStep e lab e') (hd : HasData e' T C) :
    HasData e T C ∨ lab = .commit T C := by
  obtain ⟨w, hw, hT, hv, hC⟩ := hd
  rcases h.record_origin w hw with h1 | ⟨T', C', hl, hT', hC', _⟩ | ⟨T', _, _, hv'⟩
  · exact Or.inl ⟨w, h1, hT, hv, hC⟩
  · right; rw [hl, ← hT', ← hC', hT, hC]
  · exact absurd hv' hv

theorem KStep.rb_origin {e e' : Entry} {lab : KLabel} {T : TS} (h : KStep e lab e') (hd : HasRb e' T) :
    HasRb e T ∨ lab = .rollback T ∨ lab = .marker T := by
  obtain ⟨w, hw, hT, hv⟩ := hd
  rcases h.record_origin w hw with h1 | ⟨T', C', _, _, _, hv'⟩ | ⟨T', hl, hT', _⟩
  · exact Or.inl ⟨w, h1, hT, hv⟩
  · exact absurd hv hv'
  · right; rw [← hT, hT']; exact hl

/-- a commit step over a prewrite lock (not a leftover pessimistic lock) writes the data record -/
theorem KStep.commit_makes_data {e e' : Entry} {T C : TS} (h : KStep e (.commit T C) e')
    (hop : ∀ l, e.lock = some l → l.op ≠ .pessimisticLock) : HasData e' T C := by
  cases h with
  | commit l k T C hl hT hC =>
    have hne : (l.op == Op.pessimisticLock) = false := by simpa using hop l hl
    simp only [commitLock, hne, Bool.false_eq_true, if_false, List.foldl_cons, List.foldl_nil, entryAct]
    refine ⟨_, mem_putWrite _ _, rfl, ?_, rfl⟩
    cases l.op <;> simp

theorem KStep.rollback_makes_rb {e e' : Entry} {T : TS} {lab : KLabel} (h : KStep e lab e')
    (hl : lab = .rollback T ∨ lab = .marker T) : HasRb e' T := by
  rcases hl with rfl | rfl
  · cases h with
    | rollback l k T hl hT => unfold HasRb; rw [rollbackLock_writes]; exact ⟨_, mem_putWrite _ _, rfl, rfl⟩
  · cases h with
    | marker k T hnl hf => unfold HasRb; rw [marker_writes]; exact ⟨_, mem_putWrite _ _, rfl, rfl⟩

/-- the guard under which a step keeps every record of transaction `T` on the key -/
def KLabel.keepsTxn (T : TS) (e : Entry) (lab : KLabel) : Prop := ∀ w ∈ e.writes, w.startTS = T → lab.keepsRecord w

theorem KStep.data_stays {e e' : Entry} {lab : KLabel} {T C : TS} (h : KStep e lab e') (hg : lab.keepsTxn T e)
    (hd : HasData e T C) : HasData e' T C := by
  obtain ⟨w, hw, hT, hv, hC⟩ := hd
  exact ⟨w, h.record_stays w (hg w hw hT) hw, hT, hv, hC⟩

theorem KStep.rb_stays {e e' : Entry} {lab : KLabel} {T : TS} (h : KStep e lab e') (hg : lab.keepsTxn T e)
    (hd : HasRb e T) : HasRb e' T := by
  obtain ⟨w, hw, hT, hv⟩ := hd
  exact ⟨w, h.record_stays w (hg w hw hT) hw, hT, hv⟩

/-! ### the two batch commands that may carry the primary: all-or-nothing within the batch -/

theorem commitLoop_ok_all (s : Store) (keys : List Bytes) (T C : TS) (acc acts : List Act)
    (h : commitLoop s keys T C acc = .ok acts) : ∀ k ∈ keys, ∃ a, commitKey s k T C = .ok a := by
  induction keys generalizing acc with
  | nil => intro k hk; cases hk
  | cons x rest ih =>
    simp only [commitLoop] at h
    cases hx : commitKey s x T C with
    | error e => rw [hx] at h; cases h
    | ok a =>
      rw [hx] at h
      intro k hk
      cases hk with
      | head => exact ⟨a, hx⟩
      | tail _ hk' => exact ih _ h k hk'

theorem rollbackLoop_ok_all (s : Store) (keys : List Bytes) (T : TS) (acc acts : List Act)
    (h : rollbackLoop s keys T acc = .ok acts) : ∀ k ∈ keys, ∃ a, rollbackKey s k T = .ok a := by
  induction keys generalizing acc with
  | nil => intro k hk; cases hk
  | cons x rest ih =>
    simp only [rollbackLoop] at h
    cases hx : rollbackKey s x T with
    | error e => rw [hx] at h; cases h
    | ok a =>
      rw [hx] at h
      intro k hk
      cases hk with
      | head => exact ⟨a, hx⟩
      | tail _ hk' => exact ih _ h k hk'

theorem filter_of_lock {e : Entry} {T : TS} {l : Lock} (hl : e.lock = some l) (hT : l.startTS = T) :
    Option.filter (fun x => x.startTS == T) e.lock = some l := by
  rw [hl]; simp [Option.filter, hT]

/-- a commit batch that contains the primary either changes nothing or commits the primary's lock -/
theorem commit_primary_effect (s s' : Store) (keys : List Bytes) (T C : TS) (e : Option KErr) (hs : SInv s)
    (hn : keys.Nodup) (h : Mvcc.commit s keys T C = (s', e)) (p : Bytes) (hp : p ∈ keys) (l : Lock)
    (hl : (getEntry s.kv p).lock = some l) (hT : l.startTS = T) :
    s'.kv = s.kv ∨ getEntry s'.kv p = (commitLock l p T C).foldl entryAct (getEntry s.kv p) := by
  simp only [Mvcc.commit] at h
  cases hloop : commitLoop s keys T C [] with
  | error er => rw [hloop] at h; injection h with h1 _; subst h1; exact Or.inl rfl
  | ok acts =>
    rw [hloop] at h; injection h with h1 _; subst h1
    right
    have ha := commitLoop_acts _ _ _ _ _ _ hloop
    simp only [List.nil_append] at ha
    show getEntry (applyBatch s.kv acts) p = _
    rw [getEntry_applyBatch _ _ _ hs.1, ha, filter_flatMap_keys keys (commitKernel s T C) p hn (commitKey_keys s T C)]
    simp only [hp, if_true]
    obtain ⟨a, hka⟩ := commitLoop_ok_all _ _ _ _ _ _ hloop p hp
    simp only [commitKernel, hka]
    simp only [commitKey, filter_of_lock hl hT] at hka
    split at hka
    · cases hka
    · injection hka with hka; rw [← hka]

/-- a rollback batch that contains the primary either changes nothing or leaves the primary rolled back -/
theorem rollback_primary_effect (s s' : Store) (keys : List Bytes) (T : TS) (e : Option KErr) (hs : SInv s)
    (hn : keys.Nodup) (h : Mvcc.rollback s keys T = (s', e)) (p : Bytes) (hp : p ∈ keys) :
    s'.kv = s.kv ∨ HasRb (getEntry s'.kv p) T := by
  simp only [Mvcc.rollback] at h
  cases hloop : rollbackLoop s keys T [] with
  | error er => rw [hloop] at h; injection h with h1 _; subst h1; exact Or.inl rfl
  | ok acts =>
    rw [hloop] at h; injection h with h1 _; subst h1
    right
    have ha := rollbackLoop_acts _ _ _ _ _ hloop
    simp only [List.nil_append] at ha
    show HasRb (getEntry (applyBatch s.kv acts) p) T
    rw [getEntry_applyBatch _ _ _ hs.1, ha, filter_flatMap_keys keys (rollbackKernel s T) p hn (rollbackKernel_keys s T)]
    simp only [hp, if_true]
    obtain ⟨a, hka⟩ := rollbackLoop_ok_all _ _ _ _ _ hloop p hp
    simp only [rollbackKernel, hka]
    simp only [rollbackKey] at hka
    cases hf : Option.filter (fun x => x.startTS == T) (getEntry s.kv p).lock with
    | some l =>
      rw [hf] at hka; injection hka with hka; rw [← hka]
      unfold HasRb; rw [rollbackLock_writes]; exact ⟨_, mem_putWrite _ _, rfl, rfl⟩
    | none =>
      rw [hf] at hka
      simp only [] at hka
      cases hc : txnCommitInfo (getEntry s.kv p).writes T with
      | none =>
        rw [hc] at hka; injection hka with hka; rw [← hka]
        unfold HasRb; rw [marker_writes]; exact ⟨_, mem_putWrite _ _, rfl, rfl⟩
      | some c =>
        rw [hc] at hka
        simp only [] at hka
        split at hka
        · cases hka
        · rename_i hv
          injection hka with hka; rw [← hka]
          simp only [List.foldl_nil]
          have hmem := List.mem_of_find?_eq_some hc
          have hst : c.startTS = T := by simpa using List.find?_some hc
          exact ⟨c, hmem, hst, by simpa using hv⟩

/-- a commit batch that contains the primary while the primary carries no lock of the transaction either changes
    nothing or found the primary already committed -/
theorem commit_primary_nolock (s s' : Store) (keys : List Bytes) (T C : TS) (e : Option KErr)
    (h : Mvcc.commit s keys T C = (s', e)) (p : Bytes) (hp : p ∈ keys)
    (hnl : ∀ l, (getEntry s.kv p).lock = some l → l.startTS ≠ T) :
    s'.kv = s.kv ∨ ∃ C', HasData (getEntry s.kv p) T C' := by
  simp only [Mvcc.commit] at h
  cases hloop : commitLoop s keys T C [] with
  | error er => rw [hloop] at h; injection h with h1 _; subst h1; exact Or.inl rfl
  | ok acts =>
    right
    obtain ⟨a, hka⟩ := commitLoop_ok_all _ _ _ _ _ _ hloop p hp
    simp only [commitKey] at hka
    have hf : Option.filter (fun x => x.startTS == T) (getEntry s.kv p).lock = none := by
      cases hl : (getEntry s.kv p).lock with
      | none => rfl
      | some l => simp [Option.filter, hnl l hl]
    rw [hf] at hka
    simp only [] at hka
    cases hc : txnCommitInfo (getEntry s.kv p).writes T with
    | none => rw [hc] at hka; cases hka
    | some c =>
      rw [hc] at hka
      simp only [] at hka
      split at hka
      · rename_i hv
        have hmem := List.mem_of_find?_eq_some hc
        have hst : c.startTS = T := by simpa using List.find?_some hc
        exact ⟨c.commitTS, c, hmem, hst, by simpa using hv, rfl⟩
      · cases hka

/-! ### the discipline, the invariant, and its preservation by every command -/

/-- what the owner and every resolver of transaction `T` (primary key `p`) must respect, stated on the store state the
    command meets: a commit of `T` at `C` is only sent when the primary is already committed at `C`, or in a batch
    that contains the primary itself (whose lock, if still there, is a prewrite lock, and which is not committed at
    another ts: the batch then commits the primary too, or — the primary having been rolled back meanwhile — fails
    as a whole); a rollback of `T` only when the primary is already rolled back, or
    on/with the primary itself -/
def Disc (T : TS) (p : Bytes) (s : Store) : Cmd → Prop
  | .commit keys T' C => T' = T →
      HasData (getEntry s.kv p) T C ∨
        (p ∈ keys ∧ (∀ l, (getEntry s.kv p).lock = some l → l.startTS = T → l.op ≠ .pessimisticLock) ∧
          ∀ C', HasData (getEntry s.kv p) T C' → C' = C)
  | .rollback keys T' => T' = T → HasRb (getEntry s.kv p) T ∨ p ∈ keys
  | .cleanup k T' _ => T' = T → HasRb (getEntry s.kv p) T ∨ k = p
  | .status k T' _ _ _ _ => T' = T → HasRb (getEntry s.kv p) T ∨ k = p
  | .resolve _ _ T' C => T' = T → (0 < C → HasData (getEntry s.kv p) T C) ∧ (C = 0 → HasRb (getEntry s.kv p) T)
  | .bresolve _ _ infos =>
      ∀ q ∈ infos, q.1 = T → (0 < q.2 → HasData (getEntry s.kv p) T q.2) ∧ (q.2 = 0 → HasRb (getEntry s.kv p) T)
  | _ => True

/-- no command of another transaction removes or overwrites `T`'s record on the primary: GC safe points stay below
    it, the primary is not in a destroyed range, nobody writes at its version (distinct timestamps) -/
def PrimaryKept (T : TS) (p : Bytes) (s : Store) (c : Cmd) : Prop :=
  ∀ lab, c.labels p lab → lab.txn ≠ some T → lab.keepsTxn T (getEntry s.kv p)

/-- every data record of `T`, on any key, has the commit ts of a data record of `T` on the primary; a rollback record
    of `T` anywhere means the primary is rolled back -/
def Atomic (T : TS) (p : Bytes) (s : Store) : Prop :=
  (∀ k C, HasData (getEntry s.kv k) T C → HasData (getEntry s.kv p) T C) ∧
  (∀ k, HasRb (getEntry s.kv k) T → HasRb (getEntry s.kv p) T)

theorem Atomic_step (T : TS) (p : Bytes) (s : Store) (c : Cmd) (hs : SInv s) (hok : c.Ok s)
    (hd : Disc T p s c) (hk : PrimaryKept T p s c) (ha : Atomic T p s) : Atomic T p (c.run s) := by
  have href := run_refines s c hs hok
  obtain ⟨labp, hlabp, hstp⟩ := href.2 p
  have keepD : ∀ C, HasData (getEntry s.kv p) T C → HasData (getEntry (c.run s).kv p) T C := by
    intro C hD
    obtain ⟨w, hw, hT, _, _⟩ := id hD
    exact hstp.data_stays (hk labp hlabp (hstp.final (hs.2 p) ⟨w, hw, hT⟩)) hD
  have keepR : HasRb (getEntry s.kv p) T → HasRb (getEntry (c.run s).kv p) T := by
    intro hR
    obtain ⟨w, hw, hT, _⟩ := id hR
    exact hstp.rb_stays (hk labp hlabp (hstp.final (hs.2 p) ⟨w, hw, hT⟩)) hR
  constructor
  · intro k C hdk
    obtain ⟨labk, hlabk, hstk⟩ := href.2 k
    rcases hstk.data_origin hdk with hold | hnew
    · exact keepD C (ha.1 k C hold)
    · subst hnew
      cases c with
      | prewrite r => simp [Cmd.labels] at hlabk
      | plock r => simp [Cmd.labels] at hlabk
      | prollback a b keys T' F => simp [Cmd.labels] at hlabk
      | rollback keys T' => simp [Cmd.labels] at hlabk
      | cleanup k0 T' cur => simp [Cmd.labels] at hlabk
      | status p0 T' caller cur rb rp => simp [Cmd.labels] at hlabk
      | heartbeat k0 T' adv => simp [Cmd.labels] at hlabk
      | gc a b sp => simp [Cmd.labels] at hlabk
      | deleteRange a b => simp [Cmd.labels] at hlabk
      | commit keys T' C' =>
        simp only [Cmd.labels, reduceCtorEq, false_or, KLabel.commit.injEq] at hlabk
        obtain ⟨hkin, hT, hC⟩ := hlabk
        subst hT; subst hC
        rcases hd rfl with hD | ⟨hpin, hpess, huniq⟩
        · exact keepD _ hD
        · have hsameCase : (Mvcc.commit s keys T C).1.kv = s.kv → HasData (getEntry (Cmd.run s (Cmd.commit keys T C)).kv p) T C := by
            intro hsame
            have hk' : getEntry (Cmd.run s (Cmd.commit keys T C)).kv k = getEntry s.kv k := by
              show getEntry (Mvcc.commit s keys T C).1.kv k = _; rw [hsame]
            have hp' : getEntry (Cmd.run s (Cmd.commit keys T C)).kv p = getEntry s.kv p := by
              show getEntry (Mvcc.commit s keys T C).1.kv p = _; rw [hsame]
            rw [hk'] at hdk; rw [hp']; exact ha.1 k _ hdk
          by_cases hlock : ∃ l, (getEntry s.kv p).lock = some l ∧ l.startTS = T
          · obtain ⟨l, hl, hlT⟩ := hlock
            rcases commit_primary_effect s (Mvcc.commit s keys T C).1 keys T C (Mvcc.commit s keys T C).2 hs hok.1 rfl p hpin l hl hlT with hsame | heff
            · exact hsameCase hsame
            · show HasData (getEntry (Mvcc.commit s keys T C).1.kv p) T C
              rw [heff]
              exact (KStep.commit l p T C hl hlT hok.2).commit_makes_data (fun l' hl' => by
                rw [hl] at hl'; injection hl' with hl'; subst hl'; exact hpess l hl hlT)
          · have hnl : ∀ l, (getEntry s.kv p).lock = some l → l.startTS ≠ T :=
              fun l hl hT => hlock ⟨l, hl, hT⟩
            rcases commit_primary_nolock s (Mvcc.commit s keys T C).1 keys T C (Mvcc.commit s keys T C).2 rfl p hpin hnl with hsame | ⟨C', hD'⟩
            · exact hsameCase hsame
            · have := huniq C' hD'
              subst this
              exact keepD _ hD'
      | resolve a b T' C' =>
        simp only [Cmd.labels, reduceCtorEq, false_or, KLabel.commit.injEq, and_false, or_false] at hlabk
        obtain ⟨_, hpos, hT, hC⟩ := hlabk
        subst hT; subst hC
        exact keepD _ ((hd rfl).1 hpos)
      | bresolve a b infos =>
        simp only [Cmd.labels, reduceCtorEq, false_or, KLabel.commit.injEq, and_false, or_false] at hlabk
        obtain ⟨_, q, hq, hpos, hT, hC⟩ := hlabk
        subst hT; subst hC
        exact keepD _ ((hd q hq rfl).1 hpos)
  · intro k hrk
    obtain ⟨labk, hlabk, hstk⟩ := href.2 k
    rcases hstk.rb_origin hrk with hold | hnew
    · exact keepR (ha.2 k hold)
    · cases c with
      | prewrite r => rcases hnew with rfl | rfl <;> simp [Cmd.labels] at hlabk
      | plock r => rcases hnew with rfl | rfl <;> simp [Cmd.labels] at hlabk
      | prollback a b keys T' F => rcases hnew with rfl | rfl <;> simp [Cmd.labels] at hlabk
      | commit keys T' C' => rcases hnew with rfl | rfl <;> simp [Cmd.labels] at hlabk
      | heartbeat k0 T' adv => rcases hnew with rfl | rfl <;> simp [Cmd.labels] at hlabk
      | gc a b sp => rcases hnew with rfl | rfl <;> simp [Cmd.labels] at hlabk
      | deleteRange a b => rcases hnew with rfl | rfl <;> simp [Cmd.labels] at hlabk
      | rollback keys T' =>
        have hT : T' = T := by
          rcases hnew with rfl | rfl <;> simp [Cmd.labels] at hlabk <;> exact hlabk.2.symm
        subst hT
        rcases hd rfl with hR | hpin
        · exact keepR hR
        · rcases rollback_primary_effect s (Mvcc.rollback s keys T').1 keys T' (Mvcc.rollback s keys T').2 hs hok rfl p hpin with hsame | heff
          · have hk' : getEntry (Cmd.run s (Cmd.rollback keys T')).kv k = getEntry s.kv k := by
              show getEntry (Mvcc.rollback s keys T').1.kv k = _; rw [hsame]
            have hp' : getEntry (Cmd.run s (Cmd.rollback keys T')).kv p = getEntry s.kv p := by
              show getEntry (Mvcc.rollback s keys T').1.kv p = _; rw [hsame]
            rw [hk'] at hrk; rw [hp']; exact ha.2 k hrk
          · exact heff
      | cleanup k0 T' cur =>
        have hT : T' = T ∧ k = k0 := by
          rcases hnew with rfl | rfl <;> simp [Cmd.labels] at hlabk <;> exact ⟨hlabk.2.symm, hlabk.1⟩
        obtain ⟨hT, hk0⟩ := hT
        subst hT; subst hk0
        rcases hd rfl with hR | hp
        · exact keepR hR
        · subst hp; exact hrk
      | status p0 T' caller cur rb rp =>
        have hT : T' = T ∧ k = p0 := by
          rcases hnew with rfl | rfl <;> simp [Cmd.labels] at hlabk <;> exact ⟨hlabk.2.symm, hlabk.1⟩
        obtain ⟨hT, hk0⟩ := hT
        subst hT; subst hk0
        rcases hd rfl with hR | hp
        · exact keepR hR
        · subst hp; exact hrk
      | resolve a b T' C' =>
        have hT : T' = T ∧ C' = 0 := by
          rcases hnew with rfl | rfl <;> simp [Cmd.labels] at hlabk <;> exact ⟨hlabk.2.2.symm, hlabk.2.1⟩
        obtain ⟨hT, hC⟩ := hT
        subst hT
        exact keepR ((hd rfl).2 hC)
      | bresolve a b infos =>
        have hq : ∃ q ∈ infos, q.1 = T ∧ q.2 = 0 := by
          rcases hnew with rfl | rfl <;> simp [Cmd.labels] at hlabk
          obtain ⟨_, a', b', hq, hz, hT⟩ := hlabk
          exact ⟨(a', b'), hq, hT.symm, hz⟩
        obtain ⟨q, hq, hT, hz⟩ := hq
        exact keepR ((hd q hq hT).2 hz)

/-! ### every run -/

def DiscAll (T : TS) (p : Bytes) (s : Store) : List Cmd → Prop
  | [] => True
  | c :: rest => Disc T p s c ∧ PrimaryKept T p s c ∧ DiscAll T p (c.run s) rest

theorem Atomic.empty (T : TS) (p : Bytes) : Atomic T p {} := by
  constructor
  · intro k C h; obtain ⟨w, hw, _⟩ := h; cases hw
  · intro k h; obtain ⟨w, hw, _⟩ := h; cases hw

theorem runAll_atomic (T : TS) (p : Bytes) (s : Store) (cs : List Cmd) (hs : SInv s) (hok : OkAll s cs)
    (hd : DiscAll T p s cs) (ha : Atomic T p s) : Atomic T p (runAll s cs) := by
  induction cs generalizing s with
  | nil => exact ha
  | cons c rest ih =>
    exact ih (c.run s) (SInv_run s c hs hok.1) hok.2 hd.2.2 (Atomic_step T p s c hs hok.1 hd.1 hd.2.1 ha)

theorem Reachable.runAll {s : Store} (h : Reachable s) (cs : List Cmd) (hok : OkAll s cs) : Reachable (runAll s cs) := by
  induction cs generalizing s with
  | nil => exact h
  | cons c rest ih => exact ih (Reachable.step s c h hok.1) hok.2

/-- with the invariant: no key holds a data record of `T` while another holds a rollback record of `T` -/
theorem Atomic.never_mixed {T : TS} {p : Bytes} {s : Store} (ha : Atomic T p s) (hs : SInv s) (k1 k2 : Bytes) (C : TS)
    (h1 : HasData (getEntry s.kv k1) T C) (h2 : HasRb (getEntry s.kv k2) T) : False := by
  obtain ⟨w1, hw1, hT1, hv1, _⟩ := ha.1 k1 C h1
  obtain ⟨w2, hw2, hT2, hv2⟩ := ha.2 k2 h2
  exact hv1 ((hs.2 p).nomix w2 hw2 w1 hw1 (by rw [hT1, hT2]) hv2)

/-- … and all data records of `T`, on whatever keys, carry one commit ts -/
theorem Atomic.one_commit_ts {T : TS} {p : Bytes} {s : Store} (ha : Atomic T p s)
    (hu : Uniq (getEntry s.kv p).writes) (k1 k2 : Bytes) (C1 C2 : TS)
    (h1 : HasData (getEntry s.kv k1) T C1) (h2 : HasData (getEntry s.kv k2) T C2) : C1 = C2 := by
  obtain ⟨w1, hw1, hT1, _, hC1⟩ := ha.1 k1 C1 h1
  obtain ⟨w2, hw2, hT2, _, hC2⟩ := ha.1 k2 C2 h2
  have := hu w1 hw1 w2 hw2 (by rw [hT1, hT2])
  rw [← hC1, ← hC2, this]

/-! ### what a commit answer says about the store (C03) -/

/-- a commit request answered with an error changed nothing -/
theorem commit_error_changes_nothing (s s' : Store) (keys : List Bytes) (T C : TS) (err : KErr)
    (h : Mvcc.commit s keys T C = (s', some err)) : s'.kv = s.kv := by
  simp only [Mvcc.commit] at h
  cases hloop : commitLoop s keys T C [] with
  | error er => rw [hloop] at h; injection h with h1 _; subst h1; rfl
  | ok acts => rw [hloop] at h; injection h with _ h2; cases h2

/-- a commit request answered with success: every requested key that carried the transaction's prewrite lock now has
    the transaction's data record at the requested commit ts -/
theorem commit_success_applied (s s' : Store) (keys : List Bytes) (T C : TS) (hs : SInv s) (hn : keys.Nodup) (hC : T < C)
    (h : Mvcc.commit s keys T C = (s', none)) (k : Bytes) (hk : k ∈ keys) (l : Lock)
    (hl : (getEntry s.kv k).lock = some l) (hT : l.startTS = T) (hop : l.op ≠ .pessimisticLock) :
    HasData (getEntry s'.kv k) T C := by
  have hkv : s'.kv ≠ s.kv ∨ True := Or.inr trivial
  simp only [Mvcc.commit] at h
  cases hloop : commitLoop s keys T C [] with
  | error er => rw [hloop] at h; injection h with _ h2; cases h2
  | ok acts =>
    have h' : Mvcc.commit s keys T C = (s', none) := by simp only [Mvcc.commit, hloop]; rw [hloop] at h; exact h
    rcases commit_primary_effect s s' keys T C none hs hn h' k hk l hl hT with hsame | heff
    · -- the batch was applied; if the store is unchanged the lock would still be there, but the kernel removed it
      rw [hloop] at h; injection h with h1 _
      have ha := commitLoop_acts _ _ _ _ _ _ hloop
      simp only [List.nil_append] at ha
      have hk2 : getEntry s'.kv k = (commitLock l k T C).foldl entryAct (getEntry s.kv k) := by
        rw [← h1]
        show getEntry (applyBatch s.kv acts) k = _
        rw [getEntry_applyBatch _ _ _ hs.1, ha, filter_flatMap_keys keys (commitKernel s T C) k hn (commitKey_keys s T C)]
        simp only [hk, if_true]
        obtain ⟨a, hka⟩ := commitLoop_ok_all _ _ _ _ _ _ hloop k hk
        simp only [commitKernel, hka]
        simp only [commitKey, filter_of_lock hl hT] at hka
        split at hka
        · cases hka
        · injection hka with hka; rw [← hka]
      rw [hk2]
      exact (KStep.commit l k T C hl hT hC).commit_makes_data (fun l' hl' => by
        rw [hl] at hl'; injection hl' with hl'; subst hl'; exact hop)
    · rw [heff]
      exact (KStep.commit l k T C hl hT hC).commit_makes_data (fun l' hl' => by
        rw [hl] at hl'; injection hl' with hl'; subst hl'; exact hop)

/-! ### a definite failure: the transaction is never committed, on any key, and never becomes visible (C03) -/

def NeverCommitted (T : TS) (s : Store) : Prop := ∀ k C, ¬ HasData (getEntry s.kv k) T C

/-- what the owner knows when it reports a definite error: every commit request it sent for the primary was answered
    with an error by the store (requests that were never executed are simply not in the run) -/
def OwnerFails (T : TS) (p : Bytes) (s : Store) : Cmd → Prop
  | .commit keys T' C => T' = T → p ∈ keys → (Mvcc.commit s keys T' C).2 ≠ none
  | _ => True

theorem NeverCommitted_step (T : TS) (p : Bytes) (s : Store) (c : Cmd) (hs : SInv s) (hok : c.Ok s)
    (hd : Disc T p s c) (hf : OwnerFails T p s c) (hn : NeverCommitted T s) : NeverCommitted T (c.run s) := by
  intro k C hdk
  obtain ⟨labk, hlabk, hstk⟩ := (run_refines s c hs hok).2 k
  rcases hstk.data_origin hdk with hold | hnew
  · exact hn k C hold
  · subst hnew
    cases c with
    | prewrite r => simp [Cmd.labels] at hlabk
    | plock r => simp [Cmd.labels] at hlabk
    | prollback a b keys T' F => simp [Cmd.labels] at hlabk
    | rollback keys T' => simp [Cmd.labels] at hlabk
    | cleanup k0 T' cur => simp [Cmd.labels] at hlabk
    | status p0 T' caller cur rb rp => simp [Cmd.labels] at hlabk
    | heartbeat k0 T' adv => simp [Cmd.labels] at hlabk
    | gc a b sp => simp [Cmd.labels] at hlabk
    | deleteRange a b => simp [Cmd.labels] at hlabk
    | commit keys T' C' =>
      simp only [Cmd.labels, reduceCtorEq, false_or, KLabel.commit.injEq] at hlabk
      obtain ⟨_, hT, hC⟩ := hlabk
      subst hT; subst hC
      rcases hd rfl with hD | ⟨hpin, _, _⟩
      · exact hn p _ hD
      · have hfail := hf rfl hpin
        cases herr : (Mvcc.commit s keys T C).2 with
        | none => exact hfail herr
        | some err =>
          have hsame := commit_error_changes_nothing s (Mvcc.commit s keys T C).1 keys T C err (by rw [← herr])
          have hk' : getEntry (Cmd.run s (Cmd.commit keys T C)).kv k = getEntry s.kv k := by
            show getEntry (Mvcc.commit s keys T C).1.kv k = _; rw [hsame]
          rw [hk'] at hdk
          exact hn k _ hdk
    | resolve a b T' C' =>
      simp only [Cmd.labels, reduceCtorEq, false_or, KLabel.commit.injEq, and_false, or_false] at hlabk
      obtain ⟨_, hpos, hT, hC⟩ := hlabk
      subst hT; subst hC
      exact hn p _ ((hd rfl).1 hpos)
    | bresolve a b infos =>
      simp only [Cmd.labels, reduceCtorEq, false_or, KLabel.commit.injEq, and_false, or_false] at hlabk
      obtain ⟨_, q, hq, hpos, hT, hC⟩ := hlabk
      subst hT; subst hC
      exact hn p _ ((hd q hq rfl).1 hpos)

def FailAll (T : TS) (p : Bytes) (s : Store) : List Cmd → Prop
  | [] => True
  | c :: rest => Disc T p s c ∧ OwnerFails T p s c ∧ FailAll T p (c.run s) rest

theorem runAll_never_committed (T : TS) (p : Bytes) (s : Store) (cs : List Cmd) (hs : SInv s) (hok : OkAll s cs)
    (hf : FailAll T p s cs) (hn : NeverCommitted T s) : NeverCommitted T (runAll s cs) := by
  induction cs generalizing s with
  | nil => exact hn
  | cons c rest ih =>
    exact ih (c.run s) (SInv_run s c hs hok.1) hok.2 hf.2.2 (NeverCommitted_step T p s c hs hok.1 hf.1 hf.2.1 hn)

theorem firstVisible_mem {ws : List Write} {ts : TS} {w : Write} (h : firstVisible ws ts = some w) :
    w ∈ ws ∧ w.vt ≠ .rollback := by
  induction ws with
  | nil => cases h
  | cons x rest ih =>
    simp only [firstVisible] at h
    split at h
    · obtain ⟨h1, h2⟩ := ih h; exact ⟨List.mem_cons_of_mem _ h1, h2⟩
    · rename_i hx
      split at h
      · split at h
        · cases h
        · injection h with h; subst h
          refine ⟨List.mem_cons_self .., ?_⟩
          intro hv; simp [hv] at hx
      · obtain ⟨h1, h2⟩ := ih h; exact ⟨List.mem_cons_of_mem _ h1, h2⟩

/-- a transaction that is never committed is never visible: no read, at any timestamp, on any key, returns a version it wrote -/
theorem NeverCommitted.invisible {T : TS} {s : Store} (hn : NeverCommitted T s) (k : Bytes) (ts : TS) (w : Write)
    (h : firstVisible (getEntry s.kv k).writes ts = some w) : w.startTS ≠ T := by
  intro hT
  obtain ⟨hm, hv⟩ := firstVisible_mem h
  exact hn k w.commitTS ⟨w, hm, hT, hv, rfl⟩

/-! ### what a resolver learns from a status check is true of the store (the resolver's side of the discipline) -/

/-- a status answer carrying a commit ts: the primary has the transaction's data record at that ts, nothing changed -/
theorem status_commit_sound (s s' : Store) (p : Bytes) (T caller cur : TS) (rb rp : Bool) (r : StatusResp)
    (h : checkTxnStatus s p T caller cur rb rp = (s', r)) (hc : r.commitTS ≠ 0) :
    HasData (getEntry s.kv p) T r.commitTS ∧ s' = s := by
  simp only [checkTxnStatus] at h
  cases hl : Option.filter (fun x => x.startTS == T) (getEntry s.kv p).lock with
  | some l =>
    rw [hl] at h
    simp only [] at h
    repeat' split at h
    all_goals (injection h with _ h2; subst h2; exact absurd rfl hc)
  | none =>
    rw [hl] at h
    simp only [] at h
    cases hci : txnCommitInfo (getEntry s.kv p).writes T with
    | none =>
      rw [hci] at h
      simp only [] at h
      repeat' split at h
      all_goals (injection h with _ h2; subst h2; exact absurd rfl hc)
    | some c =>
      rw [hci] at h
      simp only [] at h
      split at h
      · rename_i hv
        injection h with h1 h2; subst h2; subst h1
        have hmem := List.mem_of_find?_eq_some hci
        have hst : c.startTS = T := by simpa using List.find?_some hci
        exact ⟨⟨c, hmem, hst, by simpa using hv, rfl⟩, rfl⟩
      · injection h with _ h2; subst h2; exact absurd rfl hc

/-- a status answer reporting one of the two rollback actions: afterwards the primary carries the rollback record -/
theorem status_rollback_sound (s s' : Store) (p : Bytes) (T caller cur : TS) (rb rp : Bool) (r : StatusResp)
    (hs : KvSorted s.kv) (h : checkTxnStatus s p T caller cur rb rp = (s', r))
    (ha : r.action = .ttlExpireRollback ∨ r.action = .lockNotExistRollback) :
    HasRb (getEntry s'.kv p) T := by
  have hmark : ∀ acts, (acts = rollbackLock p T ∨ acts = [rollbackMarker p T]) →
      HasRb (getEntry (applyBatch s.kv acts) p) T := by
    intro acts hacts
    rw [getEntry_applyBatch _ _ _ hs]
    rcases hacts with rfl | rfl
    · have : (rollbackLock p T).filter (fun a => a.key == p) = rollbackLock p T := by
        simp [rollbackLock, rollbackMarker, Act.key]
      rw [this]; unfold HasRb; rw [rollbackLock_writes]; exact ⟨_, mem_putWrite _ _, rfl, rfl⟩
    · have : [rollbackMarker p T].filter (fun a => a.key == p) = [rollbackMarker p T] := by
        simp [rollbackMarker, Act.key]
      rw [this]; unfold HasRb; rw [marker_writes]; exact ⟨_, mem_putWrite _ _, rfl, rfl⟩
  simp only [checkTxnStatus] at h
  cases hl : Option.filter (fun x => x.startTS == T) (getEntry s.kv p).lock with
  | some l =>
    rw [hl] at h
    simp only [] at h
    split at h
    · split at h
      · injection h with _ h2; subst h2; rcases ha with ha | ha <;> cases ha
      · injection h with h1 _; subst h1; exact hmark _ (Or.inl rfl)
    · repeat' split at h
      all_goals (injection h with _ h2; subst h2; rcases ha with ha | ha <;> cases ha)
  | none =>
    rw [hl] at h
    simp only [] at h
    cases hci : txnCommitInfo (getEntry s.kv p).writes T with
    | some c =>
      rw [hci] at h
      simp only [] at h
      split at h <;> (injection h with _ h2; subst h2; rcases ha with ha | ha <;> cases ha)
    | none =>
      rw [hci] at h
      simp only [] at h
      split at h
      · split at h
        · injection h with _ h2; subst h2; rcases ha with ha | ha <;> cases ha
        · injection h with h1 _; subst h1; exact hmark _ (Or.inr rfl)
      · injection h with _ h2; subst h2; rcases ha with ha | ha <;> cases ha

end CGV.Mvcc
