/- stability of snapshot reads: what later writes can and cannot change for a reader at `ts` (hub theorems for C01/C05) -/
import ClientGoVerif.Proofs.MvccInv
namespace CGV.Mvcc
open CGV

/-- a version written above the reader's timestamp is invisible to it -/
theorem firstVisible_putWrite_gt (ws : List Write) (w : Write) (ts : TS) (h : ts < w.commitTS) :
    firstVisible (putWrite ws w) ts = firstVisible ws ts := by
  induction ws with
  | nil =>
    simp only [putWrite, firstVisible]
    have : ¬ w.commitTS ≤ ts := by omega
    cases hv : w.vt <;> simp [this]
  | cons x rest ih =>
    simp only [putWrite]
    by_cases h1 : (x.commitTS == w.commitTS) = true
    · have hx : x.commitTS = w.commitTS := by simpa using h1
      have n1 : ¬ w.commitTS ≤ ts := by omega
      have n2 : ¬ x.commitTS ≤ ts := by omega
      simp only [h1, if_true, firstVisible]
      cases hv : w.vt <;> cases hx2 : x.vt <;> simp [n1, n2]
    · simp only [h1]
      by_cases h2 : x.commitTS < w.commitTS
      · have n1 : ¬ w.commitTS ≤ ts := by omega
        simp only [h2, if_true]
        have e : firstVisible (w :: x :: rest) ts = firstVisible (x :: rest) ts := by
          cases hv : w.vt <;> simp [firstVisible, hv, n1]
        exact e
      · simp only [h2, if_false, Bool.false_eq_true]
        simp only [firstVisible, ih]

/-- a rollback/lock-type record written at a version nobody else uses changes no read -/
theorem firstVisible_putWrite_nondata (ws : List Write) (w : Write) (ts : TS)
    (hv : w.vt = .rollback ∨ w.vt = .lock) (hfresh : ∀ x ∈ ws, x.commitTS ≠ w.commitTS) :
    firstVisible (putWrite ws w) ts = firstVisible ws ts := by
  induction ws with
  | nil =>
    simp only [putWrite, firstVisible]
    cases hv with
    | inl h => simp [h]
    | inr h => simp [h]
  | cons x rest ih =>
    have hx : x.commitTS ≠ w.commitTS := hfresh x (List.mem_cons_self ..)
    have h1 : (x.commitTS == w.commitTS) = false := by simpa using hx
    simp only [putWrite, h1]
    by_cases h2 : x.commitTS < w.commitTS
    · simp only [h2, if_true]
      have e : firstVisible (w :: x :: rest) ts = firstVisible (x :: rest) ts := by
        cases hv with
        | inl h => simp [firstVisible, h]
        | inr h => simp [firstVisible, h]
      exact e
    · simp only [h2, if_false, Bool.false_eq_true]
      simp only [firstVisible, ih (fun y hy => hfresh y (List.mem_cons_of_mem _ hy))]

/-- lock changes never change what is committed -/
theorem firstVisible_lock_irrelevant (e : Entry) (l : Option Lock) (ts : TS) :
    firstVisible ({ e with lock := l } : Entry).writes ts = firstVisible e.writes ts := rfl

/-- C01/C05 kernel (`read_stable`): after a read at `ts` was served, any batch of later writes to the key in which
    every data record commits above `ts` (rule 7 / lock start ts above ts) and every marker uses a fresh version
    leaves the value visible at `ts` unchanged -/
theorem read_stable (e : Entry) (acts : List Act) (ts : TS)
    (h : ∀ a ∈ acts, match a with
      | .putWrite _ w => ts < w.commitTS
      | .delWrite _ _ => False
      | _ => True) :
    firstVisible (acts.foldl entryAct e).writes ts = firstVisible e.writes ts := by
  induction acts generalizing e with
  | nil => rfl
  | cons a rest ih =>
    simp only [List.foldl_cons]
    rw [ih _ (fun x hx => h x (List.mem_cons_of_mem _ hx))]
    have ha := h a (List.mem_cons_self ..)
    cases a with
    | putLock k l => rfl
    | delLock k => rfl
    | putWrite k w => exact firstVisible_putWrite_gt _ _ _ ha
    | delWrite k c => exact absurd ha id

/-- C01/C05: a pending write that could still commit at or below the reader's ts blocks the read — the reader
    cannot miss it (only Lock-type and pessimistic locks, and locks the reader was told are resolved, are passed) -/
theorem pending_write_blocks_read (e : Entry) (k : Bytes) (ts : TS) (rs : List TS) (l : Lock)
    (hl : e.lock = some l) (hle : l.startTS ≤ ts) (hop : l.op ≠ .lock ∧ l.op ≠ .pessimisticLock)
    (hmax : ¬ (ts = maxU64 ∧ l.primary = k)) (hres : ¬ l.startTS ∈ rs) :
    getValue e k ts true rs = .error (lockErr l k) := by
  simp only [getValue, if_true, hl, Lock.check]
  have h1 : ¬ ((ts < l.startTS ∨ l.op = Op.lock) ∨ l.op = Op.pessimisticLock) := by
    intro h; rcases h with (h | h) | h
    · omega
    · exact hop.1 h
    · exact hop.2 h
  simp [h1, hmax, hres]

/-- the committed record carries exactly the prewritten value, under the lock's transaction and the given commit ts -/
theorem commit_writes_prewritten_value (l : Lock) (k : Bytes) (T C : TS) (h : l.op ≠ .pessimisticLock) :
    ∃ vt, commitLock l k T C = [Act.putWrite k ⟨vt, T, C, l.value⟩, Act.delLock k] ∧
      (vt = .put ↔ l.op = .put) := by
  simp only [commitLock]
  have : (l.op == Op.pessimisticLock) = false := by simpa using h
  simp only [this]
  cases hop : l.op <;> simp_all

end CGV.Mvcc
