/-
  C08 helper lemmas, part 5: every API call on the mechanism model refines the same call on the reference.
-/
import ClientGoVerif.Proofs.VLogInspect
namespace CGV.MemBuf
open CGV

theorem write_refines {m : VLog} (hi : Inv m) (k : Bytes) (v : Option Bytes) (ops : List Nat) :
    (abs m).write k v ops = (abs (m.write k v ops).1, (m.write k v ops).2) ∧ Inv (m.write k v ops).1 := by
  obtain ⟨h1, h2⟩ := writeCore_refines hi k v ops
  have hs : ((abs m).writeCore k v ops).size = (m.writeCore k v ops).size := by
    rw [← h1]; exact h2.size.symm
  have hlim : (abs m).entryLimit = m.entryLimit := rfl
  have hbl : (abs m).bufLimit = m.bufLimit := rfl
  by_cases hk : k.length > Gen.MemLimits.maxKeyLen
  · have e1 : m.write k v ops = (m, .err .keyTooLarge) := by simp only [VLog.write, hk, if_true]
    have e2 : (abs m).write k v ops = (abs m, .err .keyTooLarge) := by simp only [Spec.write, hk, if_true]
    rw [e1, e2]; exact ⟨rfl, hi⟩
  · cases hE : Spec.entryTooLarge k v m.entryLimit
    · cases hB : (v.isSome && decide ((m.writeCore k v ops).size > (m.bufLimit : Int)))
      · have e1 : m.write k v ops = (m.writeCore k v ops, .ok) := by
          simp only [VLog.write, hk, if_false, hE, Bool.false_eq_true, hB]
        have e2 : (abs m).write k v ops = ((abs m).writeCore k v ops, .ok) := by
          simp only [Spec.write, hk, if_false, hlim, hbl, hs, hE, Bool.false_eq_true, hB]
        rw [e1, e2]; exact ⟨by rw [h1], h2⟩
      · have e1 : m.write k v ops = (m.writeCore k v ops, .err .txnTooLarge) := by
          simp only [VLog.write, hk, if_false, hE, Bool.false_eq_true, hB, if_true]
        have e2 : (abs m).write k v ops = ((abs m).writeCore k v ops, .err .txnTooLarge) := by
          simp only [Spec.write, hk, if_false, hlim, hbl, hs, hE, Bool.false_eq_true, hB, if_true]
        rw [e1, e2]; exact ⟨by rw [h1], h2⟩
    · have e1 : m.write k v ops = (m, .err .entryTooLarge) := by
        simp only [VLog.write, hk, if_false, hE, if_true]
      have e2 : (abs m).write k v ops = (abs m, .err .entryTooLarge) := by
        simp only [Spec.write, hk, if_false, hlim, hE, if_true]
      rw [e1, e2]; exact ⟨rfl, hi⟩

/-- value of a node = newest version of its cell -/
theorem node_value {m : VLog} (hi : Inv m) (n : Node) (hn : n ∈ m.nodes) :
    (absNode m.log n).value = m.nodeValue n := by
  have hv := hi.vptr n hn
  simp only [Cell.value, absNode, VLog.nodeValue]
  cases hvs : versionsOf n.key m.log with
  | nil => rw [hvs] at hv; simp [topAddr] at hv; simp [hv]
  | cons y ys =>
    obtain ⟨a, v⟩ := y
    rw [hvs] at hv
    have ha : n.vptr = a := hv
    have hne : a ≠ 0 := by
      have := versionsOf_addr_le n.key m.log (a, v) (by simp [hvs]); simp at this; omega
    simp [ha, hne, getValue_top n.key m.log a v ys hvs]

theorem node_versions_ne {m : VLog} (hi : Inv m) (n : Node) (hn : n ∈ m.nodes) :
    ((absNode m.log n).versions != []) = (n.vptr != 0) := by
  have hv := hi.vptr n hn
  simp only [absNode]
  cases hvs : versionsOf n.key m.log with
  | nil => rw [hvs] at hv; simp [topAddr] at hv; simp [hv]
  | cons y ys =>
    obtain ⟨a, v⟩ := y
    rw [hvs] at hv
    have ha : n.vptr = a := hv
    have hne : a ≠ 0 := by
      have := versionsOf_addr_le n.key m.log (a, v) (by simp [hvs]); simp at this; omega
    have h2 : (a != 0) = true := by simp [hne]
    rw [ha, h2]; rfl

theorem snap_value {m : VLog} (hi : Inv m) (n : Node) (hn : n ∈ m.nodes) (cp : Nat) :
    (absNode m.log n).snapValue cp = VLog.getSnapshotValue m.log n.vptr cp := by
  have hv := hi.vptr n hn
  simp only [Cell.snapValue, absNode, VLog.getSnapshotValue, hv]
  rw [selectHist_eq _ n.key m.log hi.wl]
  have hfun : (fun (x : Version) => !VLog.canModify (some cp) x.1) = (fun (x : Version) => decide (x.1 ≤ cp)) := by
    funext x
    simp only [VLog.canModify]
    by_cases h : x.1 ≤ cp
    · have h' : ¬ x.1 > cp := by omega
      simp [h, h']
    · have h' : x.1 > cp := by omega
      simp [h, h']
  rw [hfun]

theorem iterItems_refines {m : VLog} (hi : Inv m) (lo hi' : Bytes) (wf : Bool) :
    (abs m).iterItems lo hi' wf = m.iterItems lo hi' wf := by
  simp only [Spec.iterItems, VLog.iterItems, abs]
  have : ∀ l : List Node, (∀ n ∈ l, n ∈ m.nodes) →
      ((l.map (absNode m.log)).filter (fun c => c.present && inRange lo hi' c.key && (wf || c.versions != []))).map Spec.itemOf
      = (l.filter (fun n => !n.deleted && inRange lo hi' n.key && (wf || n.vptr != 0))).map m.itemOfNode := by
    intro l
    induction l with
    | nil => intro _; rfl
    | cons x xs ih =>
      intro hsub
      have hx : x ∈ m.nodes := hsub x (by simp)
      have ihx := ih (fun n hn => hsub n (by simp [hn]))
      have hp : ((absNode m.log x).present && inRange lo hi' (absNode m.log x).key && (wf || (absNode m.log x).versions != []))
          = (!x.deleted && inRange lo hi' x.key && (wf || x.vptr != 0)) := by
        rw [node_versions_ne hi x hx]; rfl
      have hitem : Spec.itemOf (absNode m.log x) = m.itemOfNode x := by
        simp only [Spec.itemOf, VLog.itemOfNode, node_value hi x hx]; rfl
      simp only [List.map_cons, List.filter_cons, hp]
      split
      · simp only [List.map_cons, hitem, ihx]
      · exact ihx
  exact this m.nodes (fun _ h => h)

theorem filterMap_congr' {α β} (l : List α) (f g : α → Option β) (h : ∀ a ∈ l, f a = g a) : l.filterMap f = l.filterMap g := by
  induction l with
  | nil => rfl
  | cons x xs ih =>
    simp only [List.filterMap_cons, h x (by simp)]
    rw [ih (fun a ha => h a (by simp [ha]))]

theorem snapItems_refines {m : VLog} (hi : Inv m) (lo hi' : Bytes) :
    (abs m).snapItems lo hi' = m.snapItems lo hi' := by
  have hsm : Spec.snapMark (abs m) = m.snapCheckpoint := rfl
  simp only [Spec.snapItems, VLog.snapItems, hsm]
  rw [show (abs m).cells = m.nodes.map (absNode m.log) from rfl, List.filterMap_map]
  apply filterMap_congr'
  intro n hn
  simp only [Function.comp]
  rw [snap_value hi n hn]
  rfl

/-! ## stage-stack bookkeeping -/

theorem mem_dropLast {α} (l : List α) (a : α) (h : a ∈ l.dropLast) : a ∈ l :=
  (List.dropLast_sublist l).subset h

theorem sorted_le_last (l : List Nat) (hs : l.Pairwise (· ≤ ·)) (x : Nat) (hl : l.getLast? = some x) :
    (∀ c ∈ l, c ≤ x) := by
  induction l with
  | nil => simp at hl
  | cons a tl ih =>
    intro c hc
    cases tl with
    | nil => simp at hl hc; omega
    | cons b tl' =>
      have hl' : (b :: tl').getLast? = some x := by simpa [List.getLast?_cons_cons] using hl
      have hs' := List.pairwise_cons.mp hs
      rcases List.mem_cons.mp hc with h | h
      · subst h
        have hx : x ∈ b :: tl' := List.mem_of_getLast? hl'
        exact hs'.1 x hx
      · exact ih hs'.2 hl' c h

theorem Inv.dropStages {m : VLog} (hi : Inv m) : Inv { m with stages := m.stages.dropLast } :=
  hi.setStages _ (fun c hc => hi.stagesLe c (mem_dropLast _ _ hc)) (hi.stagesSorted.sublist (List.dropLast_sublist _))

theorem Inv.pushStage {m : VLog} (hi : Inv m) : Inv { m with stages := m.stages ++ [m.log.length] } := by
  apply hi.setStages
  · intro c hc
    rcases List.mem_append.mp hc with h | h
    · exact hi.stagesLe c h
    · simp at h; omega
  · rw [List.pairwise_append]
    refine ⟨hi.stagesSorted, by simp, ?_⟩
    intro a ha b hb
    simp at hb; subst hb
    exact hi.stagesLe a ha

theorem Inv.setDirty {m : VLog} (hi : Inv m) (d : Bool) : Inv { m with dirty := d } :=
  ⟨hi.wl, hi.vptr, hi.owner, hi.nodup, hi.len, hi.size, hi.del, hi.stagesLe, hi.stagesSorted⟩

theorem Inv.setLimits {m : VLog} (hi : Inv m) (e b : Nat) : Inv { m with entryLimit := e, bufLimit := b } :=
  ⟨hi.wl, hi.vptr, hi.owner, hi.nodup, hi.len, hi.size, hi.del, hi.stagesLe, hi.stagesSorted⟩

theorem inv_init : Inv VLog.init :=
  ⟨trivial, by simp [VLog.init], by simp [VLog.init], by simp [VLog.init], rfl, rfl, by simp [VLog.init],
   by simp [VLog.init], by simp [VLog.init]⟩

theorem abs_init : abs VLog.init = Spec.init := rfl

/-- close `x = x ∧ Inv _` whether or not `simp` already turned the equation into `True` -/
macro "fin " h:term : tactic => `(tactic| first | exact ⟨rfl, $h⟩ | exact ⟨trivial, $h⟩)

/-- one API call: same answer, abstraction commutes, invariant kept -/
theorem step_refines {m : VLog} (hi : Inv m) (op : Op) :
    (abs m).step op = (abs (m.step op).1, (m.step op).2) ∧ Inv (m.step op).1 := by
  cases op with
  | set k v ops =>
    simp only [Spec.step, VLog.step]
    split
    · fin hi
    · exact write_refines hi k (some v) ops
  | del k ops => exact write_refines hi k (some []) ops
  | upd k ops =>
    obtain ⟨h1, h2⟩ := write_refines hi k none ops
    simp only [Spec.step, VLog.step]
    exact ⟨by rw [h1], h2⟩
  | get k =>
    simp only [Spec.step, VLog.step, abs_find]
    cases hf : m.findNode k with
    | none => fin hi
    | some n =>
      have hn : n ∈ m.nodes := List.mem_of_find?_eq_some hf
      have hv := node_value hi n hn
      simp only [Option.map_some, hv, VLog.nodeValue]
      by_cases h0 : n.vptr = 0 <;> simp [h0, hi]
  | getFlags k =>
    simp only [Spec.step, VLog.step, abs_find]
    cases hf : m.findNode k with
    | none => fin hi
    | some n =>
      simp only [Option.map_some, absNode]
      cases hd : n.deleted <;> simp [hi]
  | iter lo hi' rev wf =>
    simp only [Spec.step, VLog.step, iterItems_refines hi]
    fin hi
  | snapGet k =>
    simp only [Spec.step, VLog.step, abs_find]
    cases hf : m.findNode k with
    | none => fin hi
    | some n =>
      have hn : n ∈ m.nodes := List.mem_of_find?_eq_some hf
      have hsm : Spec.snapMark (abs m) = m.snapCheckpoint := rfl
      simp only [Option.map_some, hsm, snap_value hi n hn]
      by_cases h0 : n.vptr = 0
      · have : VLog.getSnapshotValue m.log 0 m.snapCheckpoint = none := by
          simp [VLog.getSnapshotValue, selectHist_zero]
        simp [h0, this, hi]
      · simp only [h0, if_false]
        cases VLog.getSnapshotValue m.log n.vptr m.snapCheckpoint <;> fin hi
  | snapIter lo hi' rev =>
    simp only [Spec.step, VLog.step, snapItems_refines hi]
    fin hi
  | len => exact ⟨by simp only [Spec.step, VLog.step, hi.len], hi⟩
  | size => exact ⟨by simp only [Spec.step, VLog.step, hi.size], hi⟩
  | dirty => fin hi
  | staging => exact ⟨rfl, hi.pushStage⟩
  | release h =>
    simp only [Spec.step, VLog.step]
    have hml : (abs m).marks.length = m.stages.length := rfl
    rw [hml]
    by_cases h0 : h = 0
    · rw [if_pos h0, if_pos h0]; fin hi
    · rw [if_neg h0, if_neg h0]
      by_cases h1 : h ≠ m.stages.length
      · rw [if_pos h1, if_pos h1]; fin hi
      · rw [if_neg h1, if_neg h1]
        exact ⟨rfl, (hi.dropStages).setDirty _⟩
  | cleanup h =>
    simp only [Spec.step, VLog.step]
    have hml : (abs m).marks.length = m.stages.length := rfl
    have hmk : (abs m).marks = m.stages := rfl
    rw [hml, hmk]
    by_cases h0 : h = 0
    · rw [if_pos h0, if_pos h0]; fin hi
    · rw [if_neg h0, if_neg h0]
      by_cases h1 : h > m.stages.length
      · rw [if_pos h1, if_pos h1]; fin hi
      · rw [if_neg h1, if_neg h1]
        by_cases h2 : h < m.stages.length
        · rw [if_pos h2, if_pos h2]; fin hi
        · rw [if_neg h2, if_neg h2]
          cases hl : m.stages.getLast? with
          | none => fin hi
          | some cp =>
            have hcp : cp ≤ m.log.length := hi.stagesLe cp (List.mem_of_getLast? hl)
            have hle := sorted_le_last m.stages hi.stagesSorted cp hl
            obtain ⟨e1, e2⟩ := revertTo_refines hi cp hcp m.stages.dropLast
              (fun c hc => hle c (mem_dropLast _ _ hc)) (hi.stagesSorted.sublist (List.dropLast_sublist _))
            simp only []
            exact ⟨by rw [e1], e2⟩
  | checkpoint => exact ⟨rfl, hi.setLastCp _⟩
  | revert cp =>
    simp only [Spec.step, VLog.step]
    have hmk : (abs m).marks = m.stages := rfl
    have hck : (abs m).clock = m.checkpoint := rfl
    rw [hmk, hck]
    cases hc : (decide (cp ≤ m.checkpoint) && (match m.stages.getLast? with | some c => decide (c ≤ cp) | none => true)) with
    | false => simp only [Bool.false_eq_true, if_false]; fin hi
    | true =>
      simp only [if_true]
      simp only [Bool.and_eq_true, decide_eq_true_eq] at hc
      have hst : ∀ c ∈ m.stages, c ≤ cp := by
        cases hl : m.stages.getLast? with
        | none =>
          have : m.stages = [] := by simpa using hl
          intro c hc'; rw [this] at hc'; simp at hc'
        | some x =>
          rw [hl] at hc
          have hx : x ≤ cp := by simpa using hc.2
          intro c hc'
          have := sorted_le_last m.stages hi.stagesSorted x hl c hc'
          omega
      obtain ⟨e1, e2⟩ := revertTo_refines hi cp hc.1 m.stages hst hi.stagesSorted
      have e1' : abs (m.revertTo cp) = (abs m).undoTo cp := e1
      have e2' : Inv (m.revertTo cp) := e2
      exact ⟨by rw [e1'], e2'⟩
  | inspect h =>
    simp only [Spec.step, VLog.step]
    have hmk : (abs m).marks = m.stages := rfl
    rw [hmk]
    by_cases h0 : h = 0
    · rw [if_pos h0, if_pos h0]; fin hi
    · rw [if_neg h0, if_neg h0]
      cases m.stages[h - 1]? with
      | none => fin hi
      | some head => simp only [inspect_refines hi head]; fin hi
  | hist k p =>
    simp only [Spec.step, VLog.step, abs_find]
    cases hf : m.findNode k with
    | none => fin hi
    | some n =>
      have hn : n ∈ m.nodes := List.mem_of_find?_eq_some hf
      have hne := node_versions_ne hi n hn
      have hsel := selectHist_eq (fun _ v => p.eval v) n.key m.log hi.wl
      rw [← hi.vptr n hn] at hsel
      simp only [Option.map_some]
      by_cases h0 : n.vptr = 0
      · have : (absNode m.log n).versions = [] := by simpa [h0] using hne
        simp [h0, this, hi]
      · have hne' : (absNode m.log n).versions.isEmpty = false := by
          have : ((absNode m.log n).versions != []) = true := by rw [hne]; simp [h0]
          cases hv : (absNode m.log n).versions with
          | nil => rw [hv] at this; simp at this
          | cons _ _ => rfl
        simp only [h0, if_false, hne', Bool.false_eq_true, hsel]
        have hvs : (absNode m.log n).versions = versionsOf n.key m.log := rfl
        rw [hvs]
        cases (versionsOf n.key m.log).find? (fun x => p.eval x.2) <;> fin hi
  | setLimits e b => exact ⟨rfl, hi.setLimits e b⟩

end CGV.MemBuf
