/-
  C08 helper lemmas, part 12: the invariant of the radix tree model, what its keys look like, and `search`.
-/
import ClientGoVerif.Proofs.ArtTreeBasics
namespace CGV.ArtTree
open CGV

def Kids.bytes : Kids → List UInt8
  | .nil => []
  | .cons c _ rest => c :: rest.bytes

/-- a tree that holds at least one leaf on the path minimumLeafNode takes -/
def NE (t : Tree) : Prop := (minLeafT t).isSome = true

mutual
  /-- the invariant of the subtree reached by the byte path `p`:
      * a leaf's key starts with `p`;
      * an inner node has a full prefix `f` of length `plen` of which `pfx` is the in-node part; its in-place leaf is the key
        `p ++ f`; its children are ordered by byte, each child `c` is a non-empty subtree for the path `p ++ f ++ [c]`;
        a node with a prefix is never empty (matchDeep / expandNode read a leaf below it). -/
  def WFT (p : Bytes) : Tree → Prop
    | .leaf k => p <+: k
    | .node plen pfx inp kids =>
      ∃ f : Bytes, f.length = plen ∧ pfx = f.take maxPfx ∧ (∀ x, inp = some x → x = p ++ f) ∧ WFK (p ++ f) kids ∧
        (plen > 0 → (inp.isSome = true ∨ kids ≠ .nil))
  def WFK (q : Bytes) : Kids → Prop
    | .nil => True
    | .cons c t rest => WFT (q ++ [c]) t ∧ NE t ∧ (∀ c' ∈ rest.bytes, c < c') ∧ WFK q rest
end

/-! ## the keys of a well-formed subtree -/

mutual
  theorem keysT_prefix (p : Bytes) (t : Tree) (h : WFT p t) : ∀ k ∈ keysT t, p <+: k := by
    cases t with
    | leaf l =>
      intro k hk
      simp only [keysT, List.mem_singleton] at hk
      subst hk; exact h
    | node plen pfx inp kids =>
      obtain ⟨f, _, _, hinp, hk, _⟩ := h
      intro k hk
      simp only [keysT, optKey, List.mem_append] at hk
      rcases hk with h1 | h1
      · cases inp with
        | none => simp at h1
        | some x =>
          simp only [List.mem_singleton] at h1
          subst h1
          rw [hinp k rfl]; exact ⟨f, rfl⟩
      · obtain ⟨c, _, hc⟩ := keysK_prefix (p ++ f) kids hk k h1
        exact prefix_left (prefix_left hc)
  theorem keysK_prefix (q : Bytes) (kids : Kids) (h : WFK q kids) :
      ∀ k ∈ keysK kids, ∃ c ∈ kids.bytes, (q ++ [c]) <+: k := by
    cases kids with
    | nil => intro k hk; simp [keysK] at hk
    | cons c t rest =>
      obtain ⟨ht, _, _, hr⟩ := h
      intro k hk
      simp only [keysK, List.mem_append] at hk
      rcases hk with h1 | h1
      · exact ⟨c, by simp [Kids.bytes], keysT_prefix (q ++ [c]) t ht k h1⟩
      · obtain ⟨c', hc', hp⟩ := keysK_prefix q rest hr k h1
        exact ⟨c', by simp [Kids.bytes, hc'], hp⟩
end

mutual
  theorem minLeafT_mem (t : Tree) (x : Bytes) (h : minLeafT t = some x) : x ∈ keysT t := by
    cases t with
    | leaf l => simp only [minLeafT, Option.some.injEq] at h; subst h; simp [keysT, optKey]
    | node plen pfx inp kids =>
      cases inp with
      | some y => simp only [minLeafT, Option.some.injEq] at h; subst h; simp [keysT, optKey]
      | none =>
        simp only [minLeafT] at h
        simp only [keysT, optKey, List.nil_append]
        exact minLeafK_mem kids x h
  theorem minLeafK_mem (kids : Kids) (x : Bytes) (h : minLeafK kids = some x) : x ∈ keysK kids := by
    cases kids with
    | nil => simp [minLeafK] at h
    | cons c t rest =>
      simp only [minLeafK] at h
      simp only [keysK, List.mem_append]
      exact Or.inl (minLeafT_mem t x h)
end

/-- keys in iteration order are strictly ascending -/
def SortedKeys (l : List Bytes) : Prop := l.Pairwise (fun a b => Bytes.lt a b = true)

mutual
  theorem keysT_sorted (p : Bytes) (t : Tree) (h : WFT p t) : SortedKeys (keysT t) := by
    cases t with
    | leaf l => simp [keysT, SortedKeys]
    | node plen pfx inp kids =>
      obtain ⟨f, _, _, hinp, hk, _⟩ := h
      have hs := keysK_sorted (p ++ f) kids hk
      cases inp with
      | none => simpa [keysT, optKey] using hs
      | some x =>
        simp only [keysT, optKey, List.singleton_append]
        show List.Pairwise _ _
        rw [List.pairwise_cons]
        refine ⟨?_, hs⟩
        intro k hkm
        obtain ⟨c, _, hc⟩ := keysK_prefix (p ++ f) kids hk k hkm
        rw [hinp x rfl]
        apply blt_of_proper_prefix (prefix_left hc)
        intro e
        obtain ⟨u, hu⟩ := hc
        rw [← e] at hu
        have := congrArg List.length hu
        simp at this
  theorem keysK_sorted (q : Bytes) (kids : Kids) (h : WFK q kids) : SortedKeys (keysK kids) := by
    cases kids with
    | nil => simp [keysK, SortedKeys]
    | cons c t rest =>
      obtain ⟨ht, _, hlt, hr⟩ := h
      simp only [keysK]
      show List.Pairwise _ _
      rw [List.pairwise_append]
      refine ⟨keysT_sorted (q ++ [c]) t ht, keysK_sorted q rest hr, ?_⟩
      intro a ha b hb
      have hpa := keysT_prefix (q ++ [c]) t ht a ha
      obtain ⟨c', hc', hpb⟩ := keysK_prefix q rest hr b hb
      exact blt_of_branch hpa hpb (hlt c' hc')
end

/-! ## search -/

mutual
  /-- whatever `search` returns is the key that was asked for, and it is in the tree -/
  theorem searchT_sound (t : Tree) (key : Bytes) (d : Nat) (x : Bytes) (h : searchT t key d = some x) :
      x = key ∧ x ∈ keysT t := by
    cases t with
    | leaf l =>
      simp only [searchT] at h
      split at h
      · rename_i e; simp only [Option.some.injEq] at h; subst h; exact ⟨e, by simp [keysT, optKey]⟩
      · cases h
    | node plen pfx inp kids =>
      simp only [searchT] at h
      split at h
      · cases h
      · split at h
        · obtain ⟨h1, h2⟩ := searchK_sound kids _ key _ x h
          exact ⟨h1, by simp [keysT, optKey, h2]⟩
        · cases inp with
          | none => simp at h
          | some y =>
            simp only at h
            split at h
            · rename_i e; simp only [Option.some.injEq] at h; subst h; exact ⟨e, by simp [keysT, optKey]⟩
            · cases h
  theorem searchK_sound (kids : Kids) (b : UInt8) (key : Bytes) (d : Nat) (x : Bytes) (h : searchK kids b key d = some x) :
      x = key ∧ x ∈ keysK kids := by
    cases kids with
    | nil => simp [searchK] at h
    | cons c t rest =>
      simp only [searchK] at h
      split at h
      · obtain ⟨h1, h2⟩ := searchT_sound t key d x h
        exact ⟨h1, by simp [keysK, h2]⟩
      · obtain ⟨h1, h2⟩ := searchK_sound rest b key d x h
        exact ⟨h1, by simp [keysK, h2]⟩
end

theorem getD_of_prefix {q k : Bytes} {c : UInt8} (h : (q ++ [c]) <+: k) : k.getD q.length 0 = c ∧ q.length < k.length := by
  obtain ⟨t, rfl⟩ := h
  simp

mutual
  /-- every key of a well-formed subtree is found (although only the in-node part of each prefix is compared on the way) -/
  theorem searchT_complete (p : Bytes) (t : Tree) (h : WFT p t) (key : Bytes) (hk : key ∈ keysT t) :
      searchT t key p.length = some key := by
    cases t with
    | leaf l =>
      simp only [keysT, List.mem_singleton] at hk
      simp [searchT, hk]
    | node plen pfx inp kids =>
      have hpre := keysT_prefix p _ h key hk
      obtain ⟨f, hfl, hpfx, hinp, hkids, _⟩ := h
      simp only [keysT, optKey, List.mem_append] at hk
      -- the key continues with the full prefix f
      have hf : f <+: key.drop p.length := by
        rcases hk with h1 | h1
        · cases inp with
          | none => simp at h1
          | some x =>
            simp only [List.mem_singleton] at h1
            rw [h1, hinp x rfl]; simp
        · obtain ⟨c, _, hc⟩ := keysK_prefix (p ++ f) kids hkids key h1
          exact drop_prefix_of_prefix (prefix_left hc)
      have hcheck : ¬ (lcp (key.drop p.length) pfx < min plen maxPfx) := by
        have hlf := (lcp_eq_length_iff (key.drop p.length) f).mpr hf
        rw [hpfx, lcp_take_right, hlf, hfl]
        omega
      simp only [searchT]
      have hc2 : (decide (plen > 0) && decide (lcp (key.drop p.length) pfx < min plen maxPfx)) = false := by
        simp [hcheck]
      rw [if_neg (by simp [hc2])]
      have hpf : (p ++ f) <+: key := prefix_of_append_prefix hpre hf
      rcases hk with h1 | h1
      · cases inp with
        | none => simp at h1
        | some x =>
          simp only [List.mem_singleton] at h1
          have hx := hinp x rfl
          have hlen : key.length = p.length + plen := by rw [h1, hx]; simp [hfl]
          have : ¬ (p.length + plen < key.length) := by omega
          subst h1
          simp [this]
      · obtain ⟨c, hcb, hc⟩ := keysK_prefix (p ++ f) kids hkids key h1
        obtain ⟨hg, hl⟩ := getD_of_prefix hc
        have hlen : (p ++ f).length = p.length + plen := by simp [hfl]
        rw [hlen] at hg hl
        simp only [hl, if_true, hg]
        have := searchK_complete (p ++ f) kids hkids key c hc h1
        rw [hlen] at this
        exact this
  theorem searchK_complete (q : Bytes) (kids : Kids) (h : WFK q kids) (key : Bytes) (b : UInt8)
      (hb : (q ++ [b]) <+: key) (hk : key ∈ keysK kids) :
      searchK kids b key (q.length + 1) = some key := by
    cases kids with
    | nil => simp [keysK] at hk
    | cons c t rest =>
      obtain ⟨ht, _, hlt, hr⟩ := h
      simp only [keysK, List.mem_append] at hk
      simp only [searchK]
      have hbyte := (getD_of_prefix hb).1
      by_cases hcb : c = b
      · simp only [hcb, if_true]
        rcases hk with h1 | h1
        · have := searchT_complete (q ++ [c]) t ht key h1
          simpa [hcb] using this
        · -- the key branches with byte b = c, so it cannot be among the later children
          obtain ⟨c', hc', hp'⟩ := keysK_prefix q rest hr key h1
          have := (getD_of_prefix hp').1
          rw [hbyte] at this
          have hlt' := hlt c' hc'
          rw [hcb, this] at hlt'
          exact absurd hlt' (UInt8.lt_irrefl _)
      · simp only [hcb, if_false]
        rcases hk with h1 | h1
        · have hp' := keysT_prefix (q ++ [c]) t ht key h1
          have := (getD_of_prefix hp').1
          rw [hbyte] at this
          exact absurd this.symm hcb
        · exact searchK_complete q rest hr key b hb h1
end

end CGV.ArtTree
