/-
  C08 helper lemmas, part 4: InspectKVInLog (walk the log, keep entries that are their node's current value) refines
  "for each clock value since the mark, newest first, the key whose newest version carries it".
-/
import ClientGoVerif.Proofs.VLogUndo
namespace CGV.MemBuf
open CGV

def addrsDown : Nat → Nat → List Nat
  | 0, _ => []
  | n + 1, h => if n + 1 ≤ h then [] else (n + 1) :: addrsDown n h

theorem range_addrs (n h : Nat) : (List.range (n - h)).reverse.map (· + h + 1) = addrsDown n h := by
  induction n with
  | zero => simp [addrsDown]
  | succ n ih =>
    simp only [addrsDown]
    by_cases hle : n + 1 ≤ h
    · have : n + 1 - h = 0 := by omega
      simp [hle, this]
    · have : n + 1 - h = (n - h) + 1 := by omega
      simp only [hle, if_false, this, List.range_succ, List.reverse_append, List.reverse_cons, List.reverse_nil,
        List.nil_append, List.cons_append, List.map_cons]
      rw [ih]
      congr 1
      omega

theorem getEntry_suffix (pre : List Entry) (e : Entry) (rest : List Entry) :
    VLog.getEntry (pre ++ e :: rest) (rest.length + 1) = some e := by
  induction pre with
  | nil => simp [VLog.getEntry]
  | cons p ps ih =>
    have : (ps ++ e :: rest).length + 1 ≠ rest.length + 1 := by simp; omega
    simp only [List.cons_append, VLog.getEntry, this, if_false]
    exact ih

theorem top_entry (k : Bytes) (log : List Entry) (a : Nat) (v : Bytes) (r : List Version)
    (h : versionsOf k log = (a, v) :: r) : ∃ e', VLog.getEntry log a = some e' ∧ e'.key = k ∧ e'.value = v := by
  induction log with
  | nil => simp [versionsOf] at h
  | cons e tl ih =>
    simp only [versionsOf] at h
    split at h
    · rename_i hk
      simp at h
      obtain ⟨⟨h1, h2⟩, _⟩ := h
      exact ⟨e, by simp [VLog.getEntry, h1], hk, h2⟩
    · have hle := versionsOf_addr_le k tl (a, v) (by simp [h])
      have hne : tl.length + 1 ≠ a := by simp at hle; omega
      obtain ⟨e', h1, h2, h3⟩ := ih h
      exact ⟨e', by simp [VLog.getEntry, hne, h1], h2, h3⟩

theorem topSeq_abs (log : List Entry) (n : Node) : (absNode log n).topSeq = topAddr (versionsOf n.key log) := by
  simp only [Cell.topSeq, absNode, topAddr]
  split <;> simp_all

/-- which cell carries clock value `a` as its newest version: the cell of the key of the entry at `a`, if that entry is
    still its node's current value -/
theorem find_topSeq {m : VLog} (hi : Inv m) (pre : List Entry) (e : Entry) (rest : List Entry) (hlog : m.log = pre ++ e :: rest) :
    (abs m).cells.find? (fun c => c.topSeq = rest.length + 1) =
      (match m.nodes.find? (fun n => n.key = e.key) with
       | some n => if n.vptr = rest.length + 1 then some (absNode m.log n) else none
       | none => none) := by
  have hent : VLog.getEntry m.log (rest.length + 1) = some e := by rw [hlog]; exact getEntry_suffix pre e rest
  obtain ⟨n0, hn0, hn0k⟩ := hi.owner e (by rw [hlog]; simp)
  have hfind : m.nodes.find? (fun n => n.key = e.key) = some n0 := by
    have := find_unique m.nodes hi.nodup n0 hn0
    rw [hn0k] at this; exact this
  -- any node whose newest version sits at this address is n0
  have huniq : ∀ n ∈ m.nodes, topAddr (versionsOf n.key m.log) = rest.length + 1 → n = n0 := by
    intro n hn htop
    cases hv : versionsOf n.key m.log with
    | nil => rw [hv] at htop; simp [topAddr] at htop
    | cons y ys =>
      obtain ⟨a, v⟩ := y
      rw [hv] at htop
      have ha : a = rest.length + 1 := htop
      obtain ⟨e', h1, h2, _⟩ := top_entry n.key m.log a v ys hv
      rw [ha, hent] at h1
      cases h1
      have h3 := find_unique m.nodes hi.nodup n hn
      rw [← h2, hfind] at h3
      cases h3; rfl
  rw [hfind]
  simp only []
  by_cases hvp : n0.vptr = rest.length + 1
  · simp only [hvp, if_true]
    have hp : (absNode m.log n0).topSeq = rest.length + 1 := by rw [topSeq_abs, ← hi.vptr n0 hn0]; exact hvp
    -- find? returns the first match; all matches are n0's cell
    have : ∀ l : List Node, (∀ n ∈ l, n ∈ m.nodes) → n0 ∈ l →
        (l.map (absNode m.log)).find? (fun c => c.topSeq = rest.length + 1) = some (absNode m.log n0) := by
      intro l
      induction l with
      | nil => intro _ h; simp at h
      | cons x xs ih =>
        intro hsub hmem
        by_cases hx : (absNode m.log x).topSeq = rest.length + 1
        · have : x = n0 := huniq x (hsub x (by simp)) (by rw [← topSeq_abs]; exact hx)
          subst this
          simp only [List.map_cons, List.find?_cons, hp, decide_true]
        · have hxn : x ≠ n0 := fun h => hx (h ▸ hp)
          have hmem' : n0 ∈ xs := by
            rcases List.mem_cons.mp hmem with h | h
            · exact absurd h.symm hxn
            · exact h
          simp only [List.map_cons, List.find?_cons, hx, decide_false]
          exact ih (fun n hn => hsub n (by simp [hn])) hmem'
    exact this m.nodes (fun _ h => h) hn0
  · simp only [hvp, if_false]
    rw [List.find?_eq_none]
    intro c hc
    simp only [abs, List.mem_map] at hc
    obtain ⟨n, hn, rfl⟩ := hc
    simp only [decide_eq_true_eq]
    intro htop
    rw [topSeq_abs] at htop
    have := huniq n hn htop
    subst this
    exact hvp ((hi.vptr n hn).trans htop)

theorem inspectLog_refines {m : VLog} (hi : Inv m) (head : Nat) : ∀ (l pre : List Entry), m.log = pre ++ l →
    m.inspectLog head l =
      (addrsDown l.length head).filterMap (fun a => ((abs m).cells.find? (fun c => c.topSeq = a)).map Spec.itemOf) := by
  intro l
  induction l with
  | nil => intro pre _; simp [VLog.inspectLog, addrsDown]
  | cons e rest ih =>
    intro pre hlog
    have ihr := ih (pre ++ [e]) (by rw [hlog]; simp)
    simp only [VLog.inspectLog, List.length_cons, addrsDown]
    by_cases hle : rest.length + 1 ≤ head
    · simp [hle]
    · simp only [hle, if_false, List.filterMap_cons]
      rw [find_topSeq hi pre e rest hlog, ← ihr]
      cases hf : m.nodes.find? (fun n => n.key = e.key) with
      | none => simp
      | some n =>
        simp only []
        by_cases hvp : n.vptr = rest.length + 1
        · simp only [hvp, if_true, Option.map_some]
          have hn : n ∈ m.nodes := List.mem_of_find?_eq_some hf
          have hnk : n.key = e.key := by simpa using List.find?_some hf
          have hent : VLog.getEntry m.log (rest.length + 1) = some e := by rw [hlog]; exact getEntry_suffix pre e rest
          have htop := hi.vptr n hn
          rw [hvp] at htop
          cases hv : versionsOf n.key m.log with
          | nil => rw [hv] at htop; simp [topAddr] at htop
          | cons y ys =>
            obtain ⟨a, v⟩ := y
            rw [hv] at htop
            have ha : a = rest.length + 1 := htop.symm
            obtain ⟨e', h1, _, h3⟩ := top_entry n.key m.log a v ys hv
            rw [ha, hent] at h1
            cases h1
            simp [Spec.itemOf, absNode, Cell.value, hv, h3]
        · simp [hvp]

theorem inspect_refines {m : VLog} (hi : Inv m) (head : Nat) :
    m.inspectLog head m.log = (abs m).inspectFrom head := by
  rw [inspectLog_refines hi head m.log [] (by simp)]
  simp only [Spec.inspectFrom]
  rw [range_addrs]
  rfl

end CGV.MemBuf
