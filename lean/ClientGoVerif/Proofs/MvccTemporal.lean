/- what holds ACROSS steps, proved once over the eight per-key steps and lifted to every command sequence:
   a served snapshot read stays what it was; a record, once written, stays until GC; a transaction that has a record
   on a key takes no further step there (its outcome on the key is final); one record per transaction per key. -/
import ClientGoVerif.Proofs.MvccRefine
namespace CGV.Mvcc
open CGV

/-! ### helper lemmas on version lists -/

theorem mem_putWrite_of_ne {ws : List Write} {w x : Write} (hx : x ∈ ws) (hne : x.commitTS ≠ w.commitTS) :
    x ∈ putWrite ws w := by
  induction ws with
  | nil => cases hx
  | cons y rest ih =>
    simp only [putWrite]
    split
    · rename_i heq
      have heq' : y.commitTS = w.commitTS := by simpa using heq
      cases hx with
      | head => exact absurd heq' hne
      | tail _ h => exact List.mem_cons_of_mem _ h
    · split
      · exact List.mem_cons_of_mem _ hx
      · cases hx with
        | head => exact List.mem_cons_self ..
        | tail _ h => exact List.mem_cons_of_mem _ (ih h)

/-- the writes after a commitLock step -/
theorem commitLock_writes (e : Entry) (l : Lock) (k : Bytes) (T C : TS) :
    ((commitLock l k T C).foldl entryAct e).writes = e.writes ∨
      ∃ vt, vt ≠ .rollback ∧ ((commitLock l k T C).foldl entryAct e).writes = putWrite e.writes ⟨vt, T, C, l.value⟩ := by
  simp only [commitLock]
  split
  · left; rfl
  · right
    refine ⟨_, ?_, rfl⟩
    cases l.op <;> simp

theorem rollbackLock_writes (e : Entry) (k : Bytes) (T : TS) :
    ((rollbackLock k T).foldl entryAct e).writes = putWrite e.writes ⟨.rollback, T, T, []⟩ := rfl

theorem marker_writes (e : Entry) (k : Bytes) (T : TS) :
    ([rollbackMarker k T].foldl entryAct e).writes = putWrite e.writes ⟨.rollback, T, T, []⟩ := rfl

theorem lockActs_writes (e : Entry) (acts : List Act) (h : ∀ a ∈ acts, (∃ k l, a = Act.putLock k l) ∨ ∃ k, a = Act.delLock k) :
    (acts.foldl entryAct e).writes = e.writes := by
  induction acts generalizing e with
  | nil => rfl
  | cons a rest ih =>
    simp only [List.foldl_cons]
    rw [ih _ (fun x hx => h x (List.mem_cons_of_mem _ hx))]
    rcases h a (List.mem_cons_self ..) with ⟨k, l, rfl⟩ | ⟨k, rfl⟩ <;> rfl

theorem KStep.locks_writes {e e' : Entry} {T : TS} (h : KStep e (.locks T) e') : e'.writes = e.writes := by
  cases h with
  | locks k T acts ha hf =>
    exact lockActs_writes e acts (fun a h => by obtain ⟨l, h1, _⟩ := ha a h; exact Or.inl ⟨k, l, h1⟩)

theorem KStep.unlock_writes {e e' : Entry} (h : KStep e .unlock e') : e'.writes = e.writes := by
  cases h with
  | unlock acts ha => exact lockActs_writes e acts (fun a h => by obtain ⟨k, h1⟩ := ha a h; exact Or.inr ⟨k, h1⟩)

/-! ### snapshot stability -/

/-- the steps that cannot change what a reader at `ts` sees: commits above `ts`, GC at a safe point ≤ `ts`, rollback
    markers at a version no other record occupies (timestamps are pairwise distinct), any lock traffic -/
def KLabel.keepsReads (ts : TS) (e : Entry) : KLabel → Prop
  | .commit _ C => ts < C
  | .rollback T => ∀ w ∈ e.writes, w.commitTS ≠ T
  | .marker T => ∀ w ∈ e.writes, w.commitTS ≠ T
  | .gc sp => sp ≤ ts
  | .wipe => False
  | _ => True

theorem KStep.read_stable {e e' : Entry} {lab : KLabel} (ts : TS) (h : KStep e lab e') (hi : EInv e)
    (hg : lab.keepsReads ts e) : firstVisible e'.writes ts = firstVisible e.writes ts := by
  cases h with
  | same => rfl
  | commit l k T C hl hT hC =>
    rcases commitLock_writes e l k T C with h1 | ⟨vt, _, h1⟩ <;> rw [h1]
    exact firstVisible_putWrite_gt _ _ _ hg
  | rollback l k T hl hT =>
    rw [rollbackLock_writes]
    exact firstVisible_putWrite_nondata _ _ _ (Or.inl rfl) hg
  | marker k T hnl hf =>
    rw [marker_writes]
    exact firstVisible_putWrite_nondata _ _ _ (Or.inl rfl) hg
  | locks k T acts ha hf => rw [(KStep.locks k T acts ha hf).locks_writes]
  | touch k T l l' hl hT hT' hop => rfl
  | unlock acts ha => rw [(KStep.unlock acts ha).unlock_writes]
  | gc k sp =>
    rw [gcWrites_eq, foldl_entryAct_delWrites, foldl_delWrite, applyDels_gcDropped _ _ _ hi.desc]
    exact gcKeep_reads _ _ _ hi.desc hg
  | wipe => exact absurd hg id

/-! ### GC keeps everything above the safe point -/

theorem gcDropped_sp (ws : List Write) (sp : TS) (kn : Bool) : ∀ c ∈ gcDropped ws sp kn, c ≤ sp := by
  induction ws generalizing kn with
  | nil => intro c hc; cases hc
  | cons w rest ih =>
    intro c hc
    simp only [gcDropped] at hc
    split at hc
    · exact ih kn c hc
    · rename_i hle
      have hle' : w.commitTS ≤ sp := Nat.le_of_not_lt hle
      split at hc
      · rw [List.mem_append] at hc
        cases hc with
        | inl h =>
          split at h
          · simp at h; omega
          · cases h
        | inr h => exact ih false c h
      · cases hc with
        | head => exact hle'
        | tail _ h => exact ih kn c h

/-- a GC step removes no record above its safe point -/
theorem KStep.gc_keeps_above {e e' : Entry} {sp : TS} (h : KStep e (.gc sp) e') (w : Write) (hw : w ∈ e.writes)
    (habove : sp < w.commitTS) : w ∈ e'.writes := by
  cases h with
  | gc k sp =>
    rw [gcWrites_eq, foldl_entryAct_delWrites, foldl_delWrite]
    simp only [applyDels, List.mem_filter, Bool.not_eq_eq_eq_not, Bool.not_true]
    refine ⟨hw, ?_⟩
    cases hc : (gcDropped e.writes sp true).contains w.commitTS with
    | false => rfl
    | true =>
      have := gcDropped_sp e.writes sp true w.commitTS (by simpa using hc)
      omega

/-! ### durability of records -/

/-- the steps that cannot remove or replace the record `w`: everything except GC at a safe point at or above it,
    destroy-range, and a write at `w`'s own version (excluded by distinct timestamps) -/
def KLabel.keepsRecord (w : Write) : KLabel → Prop
  | .commit _ C => w.commitTS ≠ C
  | .rollback T => w.commitTS ≠ T
  | .marker T => w.commitTS ≠ T
  | .gc sp => sp < w.commitTS
  | .wipe => False
  | _ => True

theorem KStep.record_stays {e e' : Entry} {lab : KLabel} (w : Write) (h : KStep e lab e')
    (hg : lab.keepsRecord w) (hw : w ∈ e.writes) : w ∈ e'.writes := by
  cases h with
  | same => exact hw
  | commit l k T C hl hT hC =>
    rcases commitLock_writes e l k T C with h1 | ⟨vt, _, h1⟩ <;> rw [h1]
    · exact hw
    · exact mem_putWrite_of_ne hw hg
  | rollback l k T hl hT => rw [rollbackLock_writes]; exact mem_putWrite_of_ne hw hg
  | marker k T hnl hf => rw [marker_writes]; exact mem_putWrite_of_ne hw hg
  | locks k T acts ha hf => rw [(KStep.locks k T acts ha hf).locks_writes]; exact hw
  | touch k T l l' hl hT hT' hop => exact hw
  | unlock acts ha => rw [(KStep.unlock acts ha).unlock_writes]; exact hw
  | gc k sp => exact (KStep.gc k sp).gc_keeps_above w hw hg
  | wipe => exact absurd hg id

/-! ### finality: a transaction with a record on the key takes no further step there -/

def KLabel.txn : KLabel → Option TS
  | .commit T _ => some T
  | .rollback T => some T
  | .marker T => some T
  | .locks T => some T
  | .touch T => some T
  | _ => none

theorem KStep.fresh_of_txn {e e' : Entry} {lab : KLabel} {T : TS} (h : KStep e lab e') (hi : EInv e)
    (hl : lab.txn = some T) : Fresh e.writes T := by
  cases h with
  | same => cases hl
  | commit l k T' C hlk hT hC =>
    have : T' = T := by simpa [KLabel.txn] using hl
    subst this; rw [← hT]; exact hi.lockFresh l hlk
  | rollback l k T' hlk hT =>
    have : T' = T := by simpa [KLabel.txn] using hl
    subst this; rw [← hT]; exact hi.lockFresh l hlk
  | marker k T' hnl hf =>
    have : T' = T := by simpa [KLabel.txn] using hl
    subst this; exact hf
  | locks k T' acts ha hf =>
    have : T' = T := by simpa [KLabel.txn] using hl
    subst this; exact hf
  | touch k T' l l' hlk hT hT' hop =>
    have : T' = T := by simpa [KLabel.txn] using hl
    subst this; rw [← hT]; exact hi.lockFresh l hlk
  | unlock acts ha => cases hl
  | gc k sp => cases hl
  | wipe => cases hl

/-- once transaction `T` has any record on the key — a commit record or a rollback marker — no commit, rollback,
    marker or lock step of `T` can happen on that key again -/
theorem KStep.final {e e' : Entry} {lab : KLabel} {T : TS} (h : KStep e lab e') (hi : EInv e)
    (hrec : ∃ w ∈ e.writes, w.startTS = T) : lab.txn ≠ some T := by
  intro hl
  obtain ⟨w, hw, hT⟩ := hrec
  exact h.fresh_of_txn hi hl w hw hT

/-! ### one record per transaction per key -/

def Uniq (ws : List Write) : Prop := ∀ w1 ∈ ws, ∀ w2 ∈ ws, w1.startTS = w2.startTS → w1 = w2

theorem Uniq_putWrite_fresh (ws : List Write) (w : Write) (hu : Uniq ws) (hf : Fresh ws w.startTS) : Uniq (putWrite ws w) := by
  intro w1 h1 w2 h2 heq
  rcases mem_putWrite_iff h1 with rfl | h1' <;> rcases mem_putWrite_iff h2 with rfl | h2'
  · rfl
  · exact absurd heq.symm (hf w2 h2')
  · exact absurd heq (hf w1 h1')
  · exact hu w1 h1' w2 h2' heq

theorem Uniq_filter (ws : List Write) (p : Write → Bool) (hu : Uniq ws) : Uniq (ws.filter p) :=
  fun w1 h1 w2 h2 heq => hu w1 (List.mem_filter.mp h1).1 w2 (List.mem_filter.mp h2).1 heq

theorem Uniq_delWrites (ws : List Write) (cs : List TS) (hu : Uniq ws) : Uniq (cs.foldl delWrite ws) := by
  induction cs generalizing ws with
  | nil => exact hu
  | cons c rest ih => exact ih _ (Uniq_filter ws _ hu)

theorem KStep.uniq {e e' : Entry} {lab : KLabel} (h : KStep e lab e') (hi : EInv e) (hu : Uniq e.writes) :
    Uniq e'.writes := by
  cases h with
  | same => exact hu
  | commit l k T C hl hT hC =>
    rcases commitLock_writes e l k T C with h1 | ⟨vt, _, h1⟩ <;> rw [h1]
    · exact hu
    · exact Uniq_putWrite_fresh _ _ hu (by rw [← hT]; exact hi.lockFresh l hl)
  | rollback l k T hl hT =>
    rw [rollbackLock_writes]
    exact Uniq_putWrite_fresh _ _ hu (by rw [← hT]; exact hi.lockFresh l hl)
  | marker k T hnl hf => rw [marker_writes]; exact Uniq_putWrite_fresh _ _ hu hf
  | locks k T acts ha hf => rw [(KStep.locks k T acts ha hf).locks_writes]; exact hu
  | touch k T l l' hl hT hT' hop => exact hu
  | unlock acts ha => rw [(KStep.unlock acts ha).unlock_writes]; exact hu
  | gc k sp =>
    rw [gcWrites_eq, foldl_entryAct_delWrites]
    exact Uniq_delWrites _ _ hu
  | wipe => intro w1 h1; cases h1

/-! ### lifting to command sequences -/

/-- a per-key guard on the labels the commands of a run may produce on key `k`, each evaluated in the state the
    command meets -/
def GuardAll (G : Entry → KLabel → Prop) (k : Bytes) (s : Store) : List Cmd → Prop
  | [] => True
  | c :: rest => (∀ lab, c.labels k lab → G (getEntry s.kv k) lab) ∧ GuardAll G k (c.run s) rest

/-- any reflexive-transitive relation between a key's entries that every guarded step respects holds between the
    first and the last state of every guarded run -/
theorem runAll_rel (R : Entry → Entry → Prop) (G : Entry → KLabel → Prop) (k : Bytes)
    (hrefl : ∀ e, R e e) (htrans : ∀ a b c, R a b → R b c → R a c)
    (hstep : ∀ e lab e', EInv e → KStep e lab e' → G e lab → R e e')
    (s : Store) (cs : List Cmd) (hs : SInv s) (hok : OkAll s cs) (hg : GuardAll G k s cs) :
    R (getEntry s.kv k) (getEntry (runAll s cs).kv k) := by
  induction cs generalizing s with
  | nil => exact hrefl _
  | cons c rest ih =>
    obtain ⟨lab, hlab, hst⟩ := (run_refines s c hs hok.1).2 k
    exact htrans _ _ _ (hstep _ lab _ (hs.2 k) hst (hg.1 lab hlab))
      (ih (c.run s) (SInv_run s c hs hok.1) hok.2 hg.2)

/-- any per-key predicate the eight steps preserve holds on every key of every reachable state -/
theorem Reachable.entry_inv (P : Entry → Prop) (h0 : P {})
    (hstep : ∀ e lab e', EInv e → P e → KStep e lab e' → P e') {s : Store} (h : Reachable s) :
    ∀ k, P (getEntry s.kv k) := by
  induction h with
  | init => intro k; exact h0
  | step s c hr hok ih =>
    intro k
    obtain ⟨lab, _, hst⟩ := (run_refines s c hr.inv hok).2 k
    exact hstep _ lab _ (hr.inv.2 k) (ih k) hst

theorem Reachable.uniq {s : Store} (h : Reachable s) : ∀ k, Uniq (getEntry s.kv k).writes :=
  h.entry_inv (fun e => Uniq e.writes) (fun w1 h1 => by cases h1) (fun _ _ _ hi hu hst => hst.uniq hi hu)

/-- a read served at `ts` is never changed by later commands that commit above `ts`, collect garbage at safe points
    ≤ `ts`, do not destroy the key's range, and roll back at versions no record occupies -/
theorem runAll_read_stable (ts : TS) (k : Bytes) (s : Store) (cs : List Cmd) (hs : SInv s) (hok : OkAll s cs)
    (hg : GuardAll (fun e lab => lab.keepsReads ts e) k s cs) :
    firstVisible (getEntry (runAll s cs).kv k).writes ts = firstVisible (getEntry s.kv k).writes ts :=
  runAll_rel (fun e e' => firstVisible e'.writes ts = firstVisible e.writes ts) _ k
    (fun _ => rfl) (fun _ _ _ h1 h2 => h2.trans h1)
    (fun _ _ _ hi hst hgd => hst.read_stable ts hi hgd) s cs hs hok hg

/-- a record, once in the store, is still there after any later commands other than GC and destroy-range -/
theorem runAll_record_stays (w : Write) (k : Bytes) (s : Store) (cs : List Cmd) (hs : SInv s) (hok : OkAll s cs)
    (hg : GuardAll (fun _ lab => lab.keepsRecord w) k s cs) (hw : w ∈ (getEntry s.kv k).writes) :
    w ∈ (getEntry (runAll s cs).kv k).writes :=
  runAll_rel (fun e e' => w ∈ e.writes → w ∈ e'.writes) _ k
    (fun _ h => h) (fun _ _ _ h1 h2 h => h2 (h1 h))
    (fun _ _ _ _ hst hgd => hst.record_stays w hgd) s cs hs hok hg hw

/-! ### a finished key is not locked by its transaction -/

/-- C06 at the store: in a state satisfying the invariant, a key on which the transaction already has its commit
    record or rollback marker is not locked by that transaction -/
theorem finished_key_not_locked (e : Entry) (hi : EInv e) (T : TS) (hrec : ∃ w ∈ e.writes, w.startTS = T) :
    ∀ l, e.lock = some l → l.startTS ≠ T := by
  intro l hl heq
  obtain ⟨w, hw, hT⟩ := hrec
  exact hi.lockFresh l hl w hw (by rw [heq]; exact hT)

end CGV.Mvcc
