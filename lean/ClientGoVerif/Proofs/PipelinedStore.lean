/-
  Helper lemmas for the store side of C16: the effect of ResolveLock on one key, the regions of a range task applied to
  the MVCC store, and the store's answer to a commit of an unlocked primary.
-/
import ClientGoVerif.Model.PipelinedStore
import ClientGoVerif.Proofs.Pipelined
import ClientGoVerif.Proofs.MvccTemporal
namespace CGV.Pipelined
open CGV CGV.Mvcc

/-- what ResolveLock(T, C) does to one entry -/
def rk (T C : TS) (k : Bytes) (e : Entry) : Entry := (resolveKernel T C k e).foldl entryAct e

theorem getEntry_resolveLock (s : Store) (a b : Bytes) (T C : TS) (k : Bytes) (hs : KvSorted s.kv) :
    getEntry (resolveLock s a b T C).kv k =
      if Mvcc.inRange a b k = true then rk T C k (getEntry s.kv k) else getEntry s.kv k := by
  rw [resolveLock_eq]
  show getEntry (applyBatch s.kv _) k = _
  rw [getEntry_applyBatch _ _ _ hs,
    filter_flatMap_key (s.kv.filter fun p => Mvcc.inRange a b p.1) (fun k e => resolveKernel T C k e) k
      (filter_sorted _ _ hs) (fun k' e' => resolveKernel_keys T C k' e'), findKey_filter s.kv (fun k => Mvcc.inRange a b k) k]
  by_cases hin : Mvcc.inRange a b k = true
  · simp only [hin, if_true]
    cases hf : findKey s.kv k with
    | none =>
      have he : getEntry s.kv k = {} := by rw [getEntry_eq_find, hf]
      simp only [List.foldl_nil, he, rk, resolveKernel]
    | some p =>
      obtain ⟨_, hk⟩ := findKey_some hf
      have he : getEntry s.kv k = p.2 := by rw [getEntry_eq_find, hf]
      simp only [he, hk, rk]
  · simp only [hin, Bool.false_eq_true, if_false, List.foldl_nil]

/-- after ResolveLock(T, ·) the entry is not locked by T -/
theorem rk_unlocks (T C : TS) (k : Bytes) (e : Entry) : ∀ l, (rk T C k e).lock = some l → l.startTS ≠ T := by
  intro l hl
  unfold rk resolveKernel at hl
  cases he : e.lock with
  | none => simp [he] at hl
  | some l0 =>
    simp only [he] at hl
    by_cases ht : (l0.startTS == T) = true
    · simp only [ht, if_true] at hl
      by_cases hc : C > 0
      · simp only [hc, if_true] at hl
        unfold commitLock at hl
        split at hl <;> simp [entryAct] at hl
      · simp only [hc, if_false] at hl
        simp [rollbackLock, rollbackMarker, entryAct] at hl
    · simp only [ht, Bool.false_eq_true, if_false, List.foldl_nil] at hl
      rw [he] at hl; injection hl with hl; subst hl
      simpa using ht

/-- an entry that T does not lock is left alone -/
theorem rk_id (T C : TS) (k : Bytes) (e : Entry) (h : ∀ l, e.lock = some l → l.startTS ≠ T) : rk T C k e = e := by
  unfold rk resolveKernel
  cases he : e.lock with
  | none => rfl
  | some l0 =>
    have := h l0 he
    have ht : (l0.startTS == T) = false := by simpa using this
    simp [ht]

theorem rk_idem (T C : TS) (k : Bytes) (e : Entry) : rk T C k (rk T C k e) = rk T C k e :=
  rk_id T C k _ (rk_unlocks T C k e)

theorem region_has_inRange (r : Region) (k : Bytes) (hne : ∀ h, r.2 = some h → h ≠ []) :
    Mvcc.inRange r.1 (r.2.getD []) k = r.has k := by
  unfold Mvcc.inRange Region.has
  cases hr : r.2 with
  | none => simp
  | some h =>
    have := hne h hr
    have he : h.isEmpty = false := by cases h with | nil => exact absurd rfl this | cons _ _ => rfl
    simp [he]

/-- the range task on the store, key by key: a key of a visited region is resolved, every other key is untouched -/
theorem getEntry_resolveRegions (T C : TS) (hC : C = 0 ∨ T < C) (k : Bytes) :
    ∀ (rs : List Region) (s : Store), SInv s → (∀ r ∈ rs, ∀ h, r.2 = some h → h ≠ []) →
      getEntry (resolveRegionsStore s rs T C).kv k =
        if covered rs k = true then rk T C k (getEntry s.kv k) else getEntry s.kv k
  | [], s, _, _ => by simp [resolveRegionsStore, covered]
  | r :: rs, s, hs, hne => by
    have hs1 := SInv_resolveLock s r.1 (r.2.getD []) T C hs hC
    have ih := getEntry_resolveRegions T C hC k rs (resolveLock s r.1 (r.2.getD []) T C) hs1
      (fun r' hr' => hne r' (List.mem_cons_of_mem _ hr'))
    have hstep : resolveRegionsStore s (r :: rs) T C = resolveRegionsStore (resolveLock s r.1 (r.2.getD []) T C) rs T C := rfl
    rw [hstep, ih, getEntry_resolveLock s _ _ T C k hs.1, region_has_inRange r k (hne r (by simp)), covered_cons]
    by_cases h1 : r.has k = true
    · simp only [h1, if_true, Bool.true_or]
      by_cases h2 : covered rs k = true
      · simp only [h2, if_true]; exact rk_idem T C k _
      · simp [h2]
    · have h1' : r.has k = false := by simpa using h1
      simp only [h1', Bool.false_or, Bool.false_eq_true, if_false]

theorem tasks_ends_in_splits : ∀ (splits : List Bytes) (key end_ lo : Bytes),
    ∀ r ∈ tasks key end_ lo splits, ∀ h, r.2 = some h → h ∈ splits
  | [], key, end_, lo, r, hr, h, hh => by
    unfold tasks at hr
    simp at hr; subst hr; cases hh
  | hi :: rest, key, end_, lo, r, hr, h, hh => by
    unfold tasks at hr
    by_cases hk : Bytes.lt key hi = true
    · simp only [hk, if_true] at hr
      rcases List.mem_cons.mp hr with h1 | h1
      · subst h1; simp at hh; subst hh; simp
      · by_cases he : Bytes.le end_ hi = true
        · simp [he] at h1
        · simp only [he] at h1
          exact List.mem_cons_of_mem _ (tasks_ends_in_splits rest hi end_ hi r h1 h hh)
    · simp only [hk] at hr
      exact List.mem_cons_of_mem _ (tasks_ends_in_splits rest key end_ hi r hr h hh)

theorem tasksFrom_ends_in_splits : ∀ (splits : List Bytes) (key lo : Bytes),
    ∀ r ∈ tasksFrom key lo splits, ∀ h, r.2 = some h → h ∈ splits
  | [], key, lo, r, hr, h, hh => by
    unfold tasksFrom at hr
    simp at hr; subst hr; cases hh
  | hi :: rest, key, lo, r, hr, h, hh => by
    unfold tasksFrom at hr
    by_cases hk : Bytes.lt key hi = true
    · simp only [hk, if_true] at hr
      rcases List.mem_cons.mp hr with h1 | h1
      · subst h1; simp at hh; subst hh; simp
      · exact List.mem_cons_of_mem _ (tasksFrom_ends_in_splits rest hi hi r h1 h hh)
    · simp only [hk] at hr
      exact List.mem_cons_of_mem _ (tasksFrom_ends_in_splits rest key hi r hr h hh)

theorem runOnRange_ends_in_splits (splits : List Bytes) (a b : Bytes) :
    ∀ r ∈ runOnRange splits a b, ∀ h, r.2 = some h → h ∈ splits := by
  intro r hr h hh
  unfold runOnRange at hr
  split at hr
  · exact tasksFrom_ends_in_splits splits a [] r hr h hh
  · split at hr
    · simp at hr
    · exact tasks_ends_in_splits splits a b [] r hr h hh

/-- the store refuses to commit a key the transaction neither locks nor has a record on -/
theorem commit_unlocked_rejected (s : Store) (p : Bytes) (T C : TS)
    (hl : ∀ l, (getEntry s.kv p).lock = some l → l.startTS ≠ T) (hf : Fresh (getEntry s.kv p).writes T) :
    (Mvcc.commit s [p] T C).2 = some .retryable ∧ (Mvcc.commit s [p] T C).1.kv = s.kv := by
  have hfilter : (getEntry s.kv p).lock.filter (·.startTS == T) = none := by
    cases he : (getEntry s.kv p).lock with
    | none => rfl
    | some l =>
      have := hl l he
      simp [Option.filter, this]
  have hinfo : txnCommitInfo (getEntry s.kv p).writes T = none := by
    unfold txnCommitInfo
    apply List.find?_eq_none.mpr
    intro w hw
    have := hf w hw
    simpa using this
  have hkey : commitKey s p T C = .error .retryable := by
    unfold commitKey; simp only [hfilter, hinfo]
  unfold Mvcc.commit commitLoop
  simp [hkey]

theorem mem_putWrite_self (ws : List Write) (w : Write) : w ∈ putWrite ws w := by
  induction ws with
  | nil => simp [putWrite]
  | cons x rest ih =>
    unfold putWrite
    split
    · simp
    · split
      · simp
      · exact List.mem_cons_of_mem _ ih

/-- the record ResolveLock leaves on a key locked by T (a flushed lock is a put / delete / lock, never a pessimistic
    lock): the commit record at C, or the rollback marker -/
theorem rk_record (T C : TS) (k : Bytes) (e : Entry) (l : Lock) (hl : e.lock = some l) (hT : l.startTS = T)
    (hop : l.op ≠ .pessimisticLock) :
    (0 < C → ∃ w ∈ (rk T C k e).writes, w.startTS = T ∧ w.commitTS = C ∧ w.vt ≠ .rollback ∧ w.value = l.value) ∧
    (C = 0 → ∃ w ∈ (rk T C k e).writes, w.startTS = T ∧ w.vt = .rollback) := by
  have ht : (l.startTS == T) = true := by simpa using hT
  have hop' : (l.op == Op.pessimisticLock) = false := by simpa using hop
  constructor
  · intro hc
    have hc' : C > 0 := hc
    unfold rk resolveKernel
    simp only [hl, ht, if_true, hc', commitLock, hop', Bool.false_eq_true, if_false, List.foldl_cons, List.foldl_nil, entryAct]
    refine ⟨_, mem_putWrite_self _ _, rfl, rfl, ?_, rfl⟩
    cases l.op <;> simp
  · intro hc
    have hc' : ¬ C > 0 := by omega
    unfold rk resolveKernel
    simp only [hl, ht, if_true, hc', if_false, rollbackLock, rollbackMarker, List.foldl_cons, List.foldl_nil, entryAct]
    exact ⟨_, mem_putWrite_self _ _, rfl, rfl⟩

end CGV.Pipelined
