/- range scans are determined by the per-key views: no phantoms; repeatable range reads over every run -/
import ClientGoVerif.Proofs.MvccScanSplit
import ClientGoVerif.Proofs.MvccTemporal
namespace CGV.Mvcc
open CGV

/-- strictly ascending list of keys -/
def KeysAsc : List Bytes → Prop
  | [] => True
  | [_] => True
  | a :: b :: rest => Bytes.cmp a b = .lt ∧ KeysAsc (b :: rest)

theorem KeysAsc.tail {a : Bytes} {l : List Bytes} (h : KeysAsc (a :: l)) : KeysAsc l := by
  cases l with
  | nil => trivial
  | cons b rest => exact h.2

theorem KeysAsc.head_lt {a : Bytes} {l : List Bytes} (h : KeysAsc (a :: l)) : ∀ x ∈ l, Bytes.cmp a x = .lt := by
  induction l generalizing a with
  | nil => intro x hx; cases hx
  | cons b rest ih =>
    intro x hx
    cases hx with
    | head => exact h.1
    | tail _ hx' => exact cmp_trans_lt h.1 (ih h.2 x hx')

theorem cmp_lt_irrefl (a : Bytes) : Bytes.cmp a a ≠ .lt := by rw [Bytes.cmp_self]; decide

theorem cmp_lt_asymm {a b : Bytes} (h : Bytes.cmp a b = .lt) : Bytes.cmp b a ≠ .lt := by
  intro h2; exact cmp_lt_irrefl a (cmp_trans_lt h h2)

/-- two strictly ascending key lists with the same members are equal -/
theorem KeysAsc.ext {l1 l2 : List Bytes} (h1 : KeysAsc l1) (h2 : KeysAsc l2) (hm : ∀ k, k ∈ l1 ↔ k ∈ l2) : l1 = l2 := by
  induction l1 generalizing l2 with
  | nil =>
    cases l2 with
    | nil => rfl
    | cons b r => exact absurd ((hm b).mpr (List.mem_cons_self ..)) (by simp)
  | cons a r1 ih =>
    cases l2 with
    | nil => exact absurd ((hm a).mp (List.mem_cons_self ..)) (by simp)
    | cons b r2 =>
      have hab : a = b := by
        have ha : a ∈ b :: r2 := (hm a).mp (List.mem_cons_self ..)
        have hb : b ∈ a :: r1 := (hm b).mpr (List.mem_cons_self ..)
        cases ha with
        | head => rfl
        | tail _ ha' =>
          cases hb with
          | head => rfl
          | tail _ hb' => exact absurd (h1.head_lt b hb') (cmp_lt_asymm (h2.head_lt a ha'))
      subst hab
      congr 1
      apply ih h1.tail h2.tail
      intro k
      constructor
      · intro hk
        have := (hm k).mp (List.mem_cons_of_mem _ hk)
        cases this with
        | head => exact absurd (h1.head_lt a hk) (cmp_lt_irrefl a)
        | tail _ h => exact h
      · intro hk
        have := (hm k).mpr (List.mem_cons_of_mem _ hk)
        cases this with
        | head => exact absurd (h2.head_lt a hk) (cmp_lt_irrefl a)
        | tail _ h => exact h

end CGV.Mvcc

namespace CGV.Mvcc
open CGV

theorem filterMap_congr_mem {α β : Type} {f g : α → Option β} {l : List α} (h : ∀ a ∈ l, f a = g a) :
    l.filterMap f = l.filterMap g := by
  induction l with
  | nil => rfl
  | cons a r ih =>
    simp only [List.filterMap_cons, h a (List.mem_cons_self ..)]
    rw [ih (fun x hx => h x (List.mem_cons_of_mem _ hx))]

theorem KeysAsc_of_sorted {kv : List (Bytes × Entry)} (h : KvSorted kv) : KeysAsc (kv.map (·.1)) := by
  induction kv with
  | nil => trivial
  | cons p rest ih =>
    cases rest with
    | nil => trivial
    | cons q r =>
      obtain ⟨k1, e1⟩ := p; obtain ⟨k2, e2⟩ := q
      exact ⟨h.1, ih h.2⟩

theorem KeysAsc.filter {l : List Bytes} (h : KeysAsc l) (P : Bytes → Bool) : KeysAsc (l.filter P) := by
  induction l with
  | nil => trivial
  | cons a r ih =>
    simp only [List.filter_cons]
    split
    · -- keep a: every element of the filtered tail is above a
      have hr := ih h.tail
      cases hf : r.filter P with
      | nil => trivial
      | cons b r' =>
        have hb : b ∈ r := (List.mem_filter.mp (by rw [hf]; exact List.mem_cons_self ..)).1
        rw [hf] at hr
        exact ⟨h.head_lt b hb, hr⟩
    · exact ih h.tail

theorem getEntry_absent {kv : List (Bytes × Entry)} {k : Bytes} (h : ∀ p ∈ kv, p.1 ≠ k) : getEntry kv k = {} := by
  induction kv with
  | nil => rfl
  | cons q rest ih =>
    obtain ⟨k2, e2⟩ := q
    have hne : (k2 == k) = false := beq_false_of_ne (h (k2, e2) (List.mem_cons_self ..))
    simp only [getEntry, hne]
    exact ih (fun p hp => h p (List.mem_cons_of_mem _ hp))

/-- what a reader at `ts` gets for key `k` (none: nothing visible) -/
def view (s : Store) (ts : TS) (si : Bool) (rs : List TS) (k : Bytes) : Option Pair :=
  pairOf k (getEntry s.kv k) ts si rs

theorem view_absent (s : Store) (ts : TS) (si : Bool) (rs : List TS) (k : Bytes) (h : ∀ p ∈ s.kv, p.1 ≠ k) :
    view s ts si rs k = none := by
  simp only [view, getEntry_absent h, pairOf, getValue]
  cases si <;> rfl

/-- the keys a scan of [a,b) reports something for, ascending -/
def visibleKeys (s : Store) (a b : Bytes) (ts : TS) (si : Bool) (rs : List TS) : List Bytes :=
  (((s.kv.filter fun p => inRange a b p.1).map (·.1))).filter fun k => (view s ts si rs k).isSome

theorem scan_via_view (s : Store) (a b : Bytes) (limit : Nat) (ts : TS) (si : Bool) (rs : List TS) (hs : KvSorted s.kv) :
    scan s a b limit ts si rs = ((visibleKeys s a b ts si rs).filterMap (view s ts si rs)).take limit := by
  rw [scan_eq_gets]
  congr 1
  simp only [visibleKeys]
  have h1 : ((s.kv.filter fun p => inRange a b p.1).filterMap fun p => pairOf p.1 p.2 ts si rs) =
      ((s.kv.filter fun p => inRange a b p.1).map (·.1)).filterMap (view s ts si rs) := by
    rw [List.filterMap_map]
    apply filterMap_congr_mem
    intro p hp
    have hm := (List.mem_filter.mp hp).1
    simp only [Function.comp, view, getEntry_of_mem hs hm]
  rw [h1]
  -- dropping the keys whose view is none changes nothing
  generalize ((s.kv.filter fun p => inRange a b p.1).map (·.1)) = ks
  induction ks with
  | nil => rfl
  | cons k r ih =>
    simp only [List.filterMap_cons, List.filter_cons]
    cases hv : view s ts si rs k with
    | none => simp only [Option.isSome_none, Bool.false_eq_true, if_false]; exact ih
    | some v => simp only [Option.isSome_some, if_true, List.filterMap_cons, hv]; rw [ih]

theorem mem_visibleKeys (s : Store) (a b : Bytes) (ts : TS) (si : Bool) (rs : List TS) (k : Bytes) :
    k ∈ visibleKeys s a b ts si rs ↔ inRange a b k = true ∧ (view s ts si rs k).isSome = true := by
  simp only [visibleKeys, List.mem_filter, List.mem_map]
  constructor
  · rintro ⟨⟨p, ⟨_, hin⟩, rfl⟩, hv⟩
    exact ⟨by simpa using hin, hv⟩
  · rintro ⟨hin, hv⟩
    refine ⟨?_, hv⟩
    -- a key with something visible is a key of the store
    have : ∃ p ∈ s.kv, p.1 = k := by
      apply Classical.byContradiction
      intro hno
      have habs : ∀ p ∈ s.kv, p.1 ≠ k := fun p hp he => hno ⟨p, hp, he⟩
      rw [view_absent s ts si rs k habs] at hv
      cases hv
    obtain ⟨p, hp, rfl⟩ := this
    exact ⟨p, ⟨hp, by simpa using hin⟩, rfl⟩

/-- NO PHANTOMS: two stores that give every single key the same answer at `ts` give every range scan at `ts` the same
    answer — keys that exist in only one of them (written later, collected since) make no difference -/
theorem scan_determined_by_views (s s' : Store) (a b : Bytes) (limit : Nat) (ts : TS) (si : Bool) (rs : List TS)
    (hs : KvSorted s.kv) (hs' : KvSorted s'.kv) (hv : ∀ k, view s' ts si rs k = view s ts si rs k) :
    scan s' a b limit ts si rs = scan s a b limit ts si rs := by
  rw [scan_via_view s' a b limit ts si rs hs', scan_via_view s a b limit ts si rs hs]
  have hk : visibleKeys s' a b ts si rs = visibleKeys s a b ts si rs := by
    apply KeysAsc.ext
    · exact ((KeysAsc_of_sorted (filter_sorted _ _ hs')).filter _)
    · exact ((KeysAsc_of_sorted (filter_sorted _ _ hs)).filter _)
    · intro k; rw [mem_visibleKeys, mem_visibleKeys, hv k]
  rw [hk]
  congr 1
  apply filterMap_congr_mem
  intro k _; exact hv k

end CGV.Mvcc

namespace CGV.Mvcc
open CGV

theorem view_rc (s : Store) (ts : TS) (rs : List TS) (k : Bytes) :
    view s ts false rs k = (firstVisible (getEntry s.kv k).writes ts).map fun w => Pair.kv k w.value 0 := by
  simp only [view, pairOf, getValue]
  cases firstVisible (getEntry s.kv k).writes ts <;> rfl

/-- REPEATABLE RANGE READS (no phantoms) over every run: after any command sequence that, on EVERY key, only commits
    above `ts`, collects garbage at safe points ≤ `ts`, destroys no range and reuses no version, a range scan at `ts`
    (read-committed view: the versions themselves, locks aside) returns exactly what it returned before — keys created
    or removed in between included -/
theorem scan_stable_over_runs (ts : TS) (s : Store) (cs : List Cmd) (a b : Bytes) (limit : Nat) (rs : List TS)
    (hs : SInv s) (hok : OkAll s cs) (hg : ∀ k, GuardAll (fun e lab => lab.keepsReads ts e) k s cs) :
    scan (runAll s cs) a b limit ts false rs = scan s a b limit ts false rs := by
  apply scan_determined_by_views (s := s) (s' := runAll s cs) a b limit ts false rs hs.1 (runAll_inv s cs hs hok).1
  intro k
  rw [view_rc, view_rc, runAll_read_stable ts k s cs hs hok (hg k)]

end CGV.Mvcc
