/-
  C08 helper lemmas, part 11: common-prefix arithmetic and the byte order on keys that share a prefix.
-/
import ClientGoVerif.Model.ArtTree
import ClientGoVerif.Proofs.MemBufOrder
namespace CGV.ArtTree
open CGV

/-! ## lcp -/

theorem lcp_comm (a b : Bytes) : lcp a b = lcp b a := by
  induction a generalizing b with
  | nil => cases b <;> simp [lcp]
  | cons x xs ih =>
    cases b with
    | nil => simp [lcp]
    | cons y ys =>
      simp only [lcp]
      by_cases h : x = y
      · subst h; simp [ih ys]
      · have : ¬ y = x := fun e => h e.symm
        simp [h, this]

theorem lcp_le_left (a b : Bytes) : lcp a b ≤ a.length := by
  induction a generalizing b with
  | nil => cases b <;> simp [lcp]
  | cons x xs ih =>
    cases b with
    | nil => simp [lcp]
    | cons y ys => simp only [lcp]; split <;> simp; exact ih ys

theorem lcp_le_right (a b : Bytes) : lcp a b ≤ b.length := by rw [lcp_comm]; exact lcp_le_left b a

theorem lcp_take (a b : Bytes) : a.take (lcp a b) = b.take (lcp a b) := by
  induction a generalizing b with
  | nil => cases b <;> simp [lcp]
  | cons x xs ih =>
    cases b with
    | nil => simp [lcp]
    | cons y ys =>
      simp only [lcp]
      by_cases h : x = y
      · subst h; simp [ih ys]
      · simp [h]

/-- at the mismatch index the bytes differ (when both exist) -/
theorem lcp_ne (a b : Bytes) (ha : lcp a b < a.length) (hb : lcp a b < b.length) :
    a.getD (lcp a b) 0 ≠ b.getD (lcp a b) 0 := by
  induction a generalizing b with
  | nil => simp at ha
  | cons x xs ih =>
    cases b with
    | nil => simp at hb
    | cons y ys =>
      simp only [lcp] at ha hb ⊢
      by_cases h : x = y
      · subst h
        simp only [if_true, List.length_cons, Nat.add_lt_add_iff_right, List.getD_cons_succ] at ha hb ⊢
        exact ih ys ha hb
      · simp [h]

theorem lcp_eq_length_iff (a b : Bytes) : lcp a b = b.length ↔ b <+: a := by
  induction b generalizing a with
  | nil => cases a <;> simp [lcp]
  | cons y ys ih =>
    cases a with
    | nil => simp [lcp]
    | cons x xs =>
      simp only [lcp]
      by_cases h : x = y
      · subst h
        simp only [if_true, List.length_cons, Nat.add_right_cancel_iff, ih xs]
        constructor
        · intro ⟨t, ht⟩; exact ⟨t, by simp [ht]⟩
        · intro ⟨t, ht⟩; simp at ht; exact ⟨t, ht⟩
      · simp only [h, if_false, List.length_cons]
        constructor
        · intro e; omega
        · intro ⟨t, ht⟩; simp at ht; exact absurd ht.1.symm h

/-- comparing with a cut-off prefix -/
theorem lcp_take_right (a b : Bytes) (n : Nat) : lcp a (b.take n) = min (lcp a b) n := by
  induction a generalizing b n with
  | nil => cases b <;> cases n <;> simp [lcp]
  | cons x xs ih =>
    cases b with
    | nil => simp [lcp]
    | cons y ys =>
      cases n with
      | zero => simp [lcp]
      | succ n =>
        simp only [List.take_succ_cons, lcp]
        by_cases h : x = y
        · subst h; simp only [if_true, ih ys n]; omega
        · simp [h]

/-- lcp against a string that continues after `f` -/
theorem lcp_append_right (a f t : Bytes) :
    lcp a (f ++ t) = (if lcp a f < f.length then lcp a f else f.length + lcp (a.drop f.length) t) := by
  induction f generalizing a with
  | nil => simp [lcp]
  | cons y ys ih =>
    cases a with
    | nil => simp [lcp]
    | cons x xs =>
      simp only [List.cons_append, lcp]
      by_cases h : x = y
      · subst h
        simp only [if_true, ih xs, List.length_cons, Nat.add_lt_add_iff_right, List.drop_succ_cons]
        split <;> omega
      · simp [h]

theorem prefix_drop {p k : Bytes} (h : p <+: k) : p ++ k.drop p.length = k := by
  obtain ⟨t, rfl⟩ := h
  simp

theorem prefix_of_append_prefix {p f k : Bytes} (hp : p <+: k) (hf : f <+: k.drop p.length) : (p ++ f) <+: k := by
  obtain ⟨t, rfl⟩ := hp
  simp only [List.drop_left] at hf
  obtain ⟨u, rfl⟩ := hf
  exact ⟨u, by simp⟩

theorem drop_prefix_of_prefix {p f k : Bytes} (h : (p ++ f) <+: k) : f <+: k.drop p.length := by
  obtain ⟨t, rfl⟩ := h
  exact ⟨t, by simp⟩

theorem prefix_left {p f k : Bytes} (h : (p ++ f) <+: k) : p <+: k := by
  obtain ⟨t, rfl⟩ := h
  exact ⟨f ++ t, by simp⟩

/-! ## the byte order and prefixes -/

theorem cmp_prefix_lt (q t : Bytes) (ht : t ≠ []) : Bytes.cmp q (q ++ t) = .lt := by
  induction q with
  | nil => cases t with
    | nil => exact absurd rfl ht
    | cons _ _ => rfl
  | cons x xs ih => simp [Bytes.cmp, UInt8.lt_irrefl, ih]

/-- a key is smaller than each of its proper extensions -/
theorem blt_of_proper_prefix {q k : Bytes} (h : q <+: k) (hne : q ≠ k) : Bytes.lt q k = true := by
  obtain ⟨t, rfl⟩ := h
  have : t ≠ [] := by intro e; subst e; simp at hne
  simp [Bytes.lt, cmp_prefix_lt q t this]

theorem cmp_branch (q : Bytes) (c c' : UInt8) (s t : Bytes) (h : c < c') :
    Bytes.cmp (q ++ c :: s) (q ++ c' :: t) = .lt := by
  induction q with
  | nil => simp [Bytes.cmp, h]
  | cons x xs ih => simp [Bytes.cmp, UInt8.lt_irrefl, ih]

/-- keys that branch at the same position are ordered by the branching byte -/
theorem blt_of_branch {q a b : Bytes} {c c' : UInt8} (ha : (q ++ [c]) <+: a) (hb : (q ++ [c']) <+: b) (h : c < c') :
    Bytes.lt a b = true := by
  obtain ⟨s, rfl⟩ := ha
  obtain ⟨t, rfl⟩ := hb
  have := cmp_branch q c c' s t h
  simp only [List.append_assoc, List.singleton_append, Bytes.lt, this]
  rfl

end CGV.ArtTree
