/- the per-key invariant and its preservation by every kernel of writes a command can apply to one key -/
import ClientGoVerif.Proofs.MvccInv
import ClientGoVerif.Proofs.MvccLocks
namespace CGV.Mvcc
open CGV

/-- invariant of one key's entry -/
structure EInv (e : Entry) : Prop where
  desc : Desc e.writes
  timed : WellTimed e.writes
  nomix : NoMix e.writes
  lockFresh : ∀ l, e.lock = some l → Fresh e.writes l.startTS

theorem EInv.empty : EInv {} where
  desc := trivial
  timed := fun w hw => by cases hw
  nomix := fun w1 h1 => by cases h1
  lockFresh := fun l hl => by cases hl

theorem putWrite_desc (ws : List Write) (w : Write) (h : Desc ws) : Desc (putWrite ws w) := by
  induction ws with
  | nil => trivial
  | cons x rest ih =>
    simp only [putWrite]
    by_cases h1 : (x.commitTS == w.commitTS) = true
    · have hx : x.commitTS = w.commitTS := by simpa using h1
      simp only [h1, if_true]
      cases rest with
      | nil => trivial
      | cons y r => exact ⟨by rw [← hx]; exact h.1, h.2⟩
    · simp only [h1]
      by_cases h2 : x.commitTS < w.commitTS
      · simp only [h2, if_true]; exact ⟨h2, h⟩
      · simp only [h2, if_false, Bool.false_eq_true]
        have hgt : w.commitTS < x.commitTS := by
          have : x.commitTS ≠ w.commitTS := by simpa using h1
          omega
        have ihr := ih h.tail
        -- the head of `putWrite rest w` is either w or the head of rest, both below x
        cases hr : putWrite rest w with
        | nil => trivial
        | cons y r =>
          rw [hr] at ihr
          refine ⟨?_, ihr⟩
          have hy : y ∈ putWrite rest w := by rw [hr]; exact List.mem_cons_self ..
          cases mem_putWrite_iff hy with
          | inl e => rw [e]; exact hgt
          | inr m => exact h.head_gt y m

theorem delWrite_desc (ws : List Write) (c : TS) (h : Desc ws) : Desc (delWrite ws c) := by
  induction ws with
  | nil => trivial
  | cons x rest ih =>
    simp only [delWrite, List.filter_cons]
    split
    · have ihr := ih h.tail
      simp only [delWrite] at ihr
      cases hr : rest.filter (fun x => x.commitTS != c) with
      | nil => trivial
      | cons y r =>
        rw [hr] at ihr
        refine ⟨?_, ihr⟩
        have hy : y ∈ rest.filter (fun x => x.commitTS != c) := by rw [hr]; exact List.mem_cons_self ..
        exact h.head_gt y (List.mem_filter.mp hy).1
    · exact ih h.tail

theorem wellTimed_putWrite (ws : List Write) (w : Write) (h : WellTimed ws)
    (hw : (w.vt = .rollback → w.commitTS = w.startTS) ∧ (w.vt ≠ .rollback → w.startTS < w.commitTS)) :
    WellTimed (putWrite ws w) := by
  intro x hx
  cases mem_putWrite_iff hx with
  | inl e => rw [e]; exact hw
  | inr m => exact h x m

theorem fresh_putWrite (ws : List Write) (w : Write) (T : TS) (h : Fresh ws T) (hne : w.startTS ≠ T) :
    Fresh (putWrite ws w) T := by
  intro x hx
  cases mem_putWrite_iff hx with
  | inl e => rw [e]; exact hne
  | inr m => exact h x m

/-- committing the lock `l` of transaction `T` present on the key -/
theorem EInv_commitLock (e : Entry) (l : Lock) (k : Bytes) (T C : TS) (hi : EInv e)
    (hl : e.lock = some l) (hT : l.startTS = T) (hC : T < C) :
    EInv ((commitLock l k T C).foldl entryAct e) := by
  have hf : Fresh e.writes T := by rw [← hT]; exact hi.lockFresh l hl
  simp only [commitLock]
  split
  · -- pessimistic lock: only the lock goes
    exact ⟨hi.desc, hi.timed, hi.nomix, fun l' hl' => by simp [entryAct] at hl'⟩
  · simp only [List.foldl_cons, List.foldl_nil, entryAct]
    refine ⟨putWrite_desc _ _ hi.desc, wellTimed_putWrite _ _ hi.timed ?_, NoMix_putWrite_fresh _ _ hi.nomix hf,
      fun l' hl' => by cases hl'⟩
    constructor
    · intro hv; split at hv <;> cases hv
    · intro _; exact hC

/-- rolling back the lock of `T` present on the key -/
theorem EInv_rollbackLock (e : Entry) (l : Lock) (k : Bytes) (T : TS) (hi : EInv e)
    (hl : e.lock = some l) (hT : l.startTS = T) :
    EInv ((rollbackLock k T).foldl entryAct e) := by
  have hf : Fresh e.writes T := by rw [← hT]; exact hi.lockFresh l hl
  simp only [rollbackLock, rollbackMarker, List.foldl_cons, List.foldl_nil, entryAct]
  exact ⟨putWrite_desc _ _ hi.desc, wellTimed_putWrite _ _ hi.timed ⟨fun _ => rfl, fun h => absurd rfl h⟩,
    NoMix_putWrite_fresh _ _ hi.nomix hf, fun l' hl' => by cases hl'⟩

/-- writing a bare rollback marker for `T` on a key where `T` has neither lock nor record -/
theorem EInv_marker (e : Entry) (k : Bytes) (T : TS) (hi : EInv e)
    (hnl : ∀ l, e.lock = some l → l.startTS ≠ T) (hf : Fresh e.writes T) :
    EInv (([rollbackMarker k T]).foldl entryAct e) := by
  simp only [rollbackMarker, List.foldl_cons, List.foldl_nil, entryAct]
  exact ⟨putWrite_desc _ _ hi.desc, wellTimed_putWrite _ _ hi.timed ⟨fun _ => rfl, fun h => absurd rfl h⟩,
    NoMix_putWrite_fresh _ _ hi.nomix hf,
    fun l' hl' => fresh_putWrite _ _ _ (hi.lockFresh l' hl') (Ne.symm (hnl l' hl'))⟩

/-- taking (or replacing) a lock for a transaction that has no record on the key -/
theorem EInv_putLock (e : Entry) (k : Bytes) (l : Lock) (hi : EInv e) (hf : Fresh e.writes l.startTS) :
    EInv (entryAct e (.putLock k l)) :=
  ⟨hi.desc, hi.timed, hi.nomix, fun l' hl' => by simp [entryAct] at hl'; rw [← hl']; exact hf⟩

theorem EInv_delLock (e : Entry) (k : Bytes) (hi : EInv e) : EInv (entryAct e (.delLock k)) :=
  ⟨hi.desc, hi.timed, hi.nomix, fun l' hl' => by simp [entryAct] at hl'⟩

/-- GC-style removal of one version -/
theorem EInv_delWrite (e : Entry) (k : Bytes) (c : TS) (hi : EInv e) : EInv (entryAct e (.delWrite k c)) := by
  refine ⟨delWrite_desc _ _ hi.desc, ?_, NoMix_delWrite _ _ hi.nomix, ?_⟩
  · intro w hw; exact hi.timed w (List.mem_filter.mp hw).1
  · intro l hl w hw; exact hi.lockFresh l hl w (List.mem_filter.mp hw).1

theorem EInv_delWrites (e : Entry) (k : Bytes) (cs : List TS) (hi : EInv e) :
    EInv ((cs.map (Act.delWrite k)).foldl entryAct e) := by
  induction cs generalizing e with
  | nil => exact hi
  | cons c rest ih => exact ih _ (EInv_delWrite e k c hi)

end CGV.Mvcc
