/-
  C08 helper lemmas, part 15: the batched snapshot iterator yields exactly the unbatched scan, for every batch-size schedule.
-/
import ClientGoVerif.Model.Batched
import ClientGoVerif.Proofs.MemBufOrder
import ClientGoVerif.Proofs.ArtTreeBasics
namespace CGV.MemBuf
open CGV

/-! ## `k ++ [0]` is the immediate successor of `k` -/

theorem cmp_succ_of_lt : ∀ (k x : Bytes), Bytes.cmp k x = .lt → Bytes.cmp x (k ++ [0]) ≠ .lt := by
  intro k
  induction k with
  | nil =>
    intro x h
    cases x with
    | nil => simp [Bytes.cmp] at h
    | cons y ys =>
      simp only [List.nil_append, Bytes.cmp]
      have h0 : ¬ y < 0 := by
        rw [UInt8.lt_iff_toNat_lt]; simp
      simp only [h0, if_false]
      split
      · simp
      · cases ys <;> simp [Bytes.cmp]
  | cons a as ih =>
    intro x h
    cases x with
    | nil => simp [Bytes.cmp] at h
    | cons y ys =>
      simp only [List.cons_append, Bytes.cmp] at h ⊢
      by_cases h1 : a < y
      · have h2 : ¬ y < a := UInt8.not_lt.mpr (UInt8.le_of_lt h1)
        simp [h1, h2]
      · by_cases h2 : y < a
        · simp [h1, h2] at h
        · simp only [h1, h2, if_false] at h ⊢
          exact ih ys h

/-- nothing lies strictly between `k` and `k ++ [0]`: `x ≥ succKey k` iff `x > k` -/
theorem succKey_spec (k x : Bytes) : Bytes.lt x (succKey k) = false ↔ Bytes.lt k x = true := by
  constructor
  · intro h
    cases hk : Bytes.lt k x with
    | true => rfl
    | false =>
      -- x ≤ k < succKey k
      exfalso
      have hks : Bytes.lt k (succKey k) = true :=
        ArtTree.blt_of_proper_prefix ⟨[0], rfl⟩ (by simp [succKey])
      by_cases e : x = k
      · rw [e, hks] at h; cases h
      · have hxk : Bytes.lt x k = true := blt_total (fun e' => e e'.symm) hk
        rw [blt_trans hxk hks] at h; cases h
  · intro h
    have := cmp_succ_of_lt k x (by simpa [Bytes.lt] using h)
    simp only [Bytes.lt, succKey]
    cases hc : Bytes.cmp x (k ++ [0]) <;> simp_all

/-! ## strictly sorted lists are determined by their members -/

theorem keyLt_irrefl (x : Item) : ¬ KeyLt x x := by simp [KeyLt, blt_irrefl]

theorem sorted_ext : ∀ (l1 l2 : List Item), l1.Pairwise KeyLt → l2.Pairwise KeyLt → (∀ x, x ∈ l1 ↔ x ∈ l2) → l1 = l2 := by
  intro l1
  induction l1 with
  | nil =>
    intro l2 _ _ h
    cases l2 with
    | nil => rfl
    | cons b t => exact absurd ((h b).mpr (by simp)) (by simp)
  | cons a t1 ih =>
    intro l2 h1 h2 h
    cases l2 with
    | nil => exact absurd ((h a).mp (by simp)) (by simp)
    | cons b t2 =>
      have p1 := List.pairwise_cons.mp h1
      have p2 := List.pairwise_cons.mp h2
      have hab : a = b := by
        have ha : a ∈ b :: t2 := (h a).mp (by simp)
        have hb : b ∈ a :: t1 := (h b).mpr (by simp)
        rcases List.mem_cons.mp ha with e | e
        · exact e
        · rcases List.mem_cons.mp hb with e' | e'
          · exact e'.symm
          · have x1 : KeyLt b a := p2.1 a e
            have x2 : KeyLt a b := p1.1 b e'
            have hbb : KeyLt b b := blt_trans x1 x2
            exact absurd hbb (keyLt_irrefl b)
      subst hab
      congr 1
      apply ih t2 p1.2 p2.2
      intro x
      constructor
      · intro hx
        rcases List.mem_cons.mp ((h x).mp (by simp [hx])) with e | e
        · subst e; exact absurd (p1.1 x hx) (keyLt_irrefl x)
        · exact e
      · intro hx
        rcases List.mem_cons.mp ((h x).mpr (by simp [hx])) with e | e
        · subst e; exact absurd (p2.1 x hx) (keyLt_irrefl x)
        · exact e

/-- in a strictly sorted list, the elements above the last element of a prefix are exactly the rest -/
theorem filter_gt_take (l : List Item) (hs : l.Pairwise KeyLt) (s : Nat) (x : Item)
    (hx : (l.take s).getLast? = some x) :
    l.filter (fun it => Bytes.lt x.key it.key) = l.drop s := by
  induction l generalizing s with
  | nil => simp at hx
  | cons a t ih =>
    have p := List.pairwise_cons.mp hs
    cases s with
    | zero => simp at hx
    | succ s =>
      simp only [List.take_succ_cons, List.drop_succ_cons] at hx ⊢
      cases hts : t.take s with
      | nil =>
        -- the prefix is just [a]: everything after a is larger
        rw [hts] at hx
        simp at hx
        subst hx
        have hd : t.drop s = t := by
          cases s with
          | zero => rfl
          | succ s' =>
            cases t with
            | nil => rfl
            | cons b t' => simp at hts
        rw [hd, List.filter_cons, blt_irrefl]
        simp only [Bool.false_eq_true, if_false]
        exact List.filter_eq_self.mpr (fun y hy => p.1 y hy)
      | cons b t' =>
        have hx' : (t.take s).getLast? = some x := by
          rw [hts] at hx ⊢
          simpa [List.getLast?_cons_cons] using hx
        have hxm : x ∈ t := List.mem_of_mem_take (List.mem_of_getLast? hx')
        have hax : Bytes.lt x.key a.key = false := blt_asymm (p.1 x hxm)
        rw [List.filter_cons, hax]
        simp only [Bool.false_eq_true, if_false]
        exact ih p.2 s hx'

/-! ## forward batching -/

/-- resuming at the successor of the last key of a batch continues exactly where the batch stopped -/
theorem resume_fwd {m : VLog} (hi : Inv m) (lo hi' : Bytes) (s : Nat) (x : Item)
    (hx : ((ordered false (m.snapItems lo hi')).take s).getLast? = some x) :
    ordered false (m.snapItems (succKey x.key) hi') = (ordered false (m.snapItems lo hi')).drop s := by
  have hs := (snapIter_sorted hi lo hi').1
  have hs' := (snapIter_sorted hi (succKey x.key) hi').1
  rw [← filter_gt_take _ hs s x hx]
  apply sorted_ext _ _ hs' (hs.sublist List.filter_sublist)
  intro it
  have hxm : x ∈ ordered false (m.snapItems lo hi') := List.mem_of_mem_take (List.mem_of_getLast? hx)
  have hxr := ((snapIter_mem hi lo hi' false x).mp hxm).1
  rw [inRange_iff] at hxr
  simp only [List.mem_filter, snapIter_mem hi _ _ false it, inRange_iff]
  have hne : succKey x.key ≠ [] := by simp [succKey]
  constructor
  · rintro ⟨⟨h1, h2⟩, h3⟩
    have hlt : Bytes.lt x.key it.key = true := by
      rcases h1 with e | e
      · exact absurd e hne
      · exact (succKey_spec x.key it.key).mp e
    refine ⟨⟨⟨?_, h2⟩, h3⟩, hlt⟩
    rcases hxr.1 with e | e
    · exact Or.inl e
    · right
      cases hc : Bytes.lt it.key lo with
      | false => rfl
      | true => rw [blt_trans hlt hc] at e; cases e
  · rintro ⟨⟨⟨_, h2⟩, h3⟩, hlt⟩
    exact ⟨⟨Or.inr ((succKey_spec x.key it.key).mpr hlt), h2⟩, h3⟩

/-- batching by successor keys yields exactly the unbatched scan, for every schedule of positive batch sizes that is long
    enough to finish -/
theorem batchedFwd_eq {m : VLog} (hi : Inv m) (hi' : Bytes) : ∀ (sizes : List Nat) (lo : Bytes),
    (∀ s ∈ sizes, 0 < s) → (ordered false (m.snapItems lo hi')).length < sizes.length →
    m.batchedFwd lo hi' sizes = ordered false (m.snapItems lo hi') := by
  intro sizes
  induction sizes with
  | nil => intro lo _ h; simp at h
  | cons s rest ih =>
    intro lo hpos hlen
    have hs : 0 < s := hpos s (by simp)
    simp only [VLog.batchedFwd]
    cases hx : ((ordered false (m.snapItems lo hi')).take s).getLast? with
    | none =>
      have : (ordered false (m.snapItems lo hi')).take s = [] := by simpa using hx
      have hnil : ordered false (m.snapItems lo hi') = [] := by
        cases hl : ordered false (m.snapItems lo hi') with
        | nil => rfl
        | cons a t =>
          rw [hl] at this
          cases s with
          | zero => omega
          | succ s' => simp at this
      simp [hnil]
    | some x =>
      simp only []
      have hres := resume_fwd hi lo hi' s x hx
      have hpos' : 0 < (ordered false (m.snapItems lo hi')).length :=
        List.length_pos_of_mem (List.mem_of_mem_take (List.mem_of_getLast? hx))
      rw [ih (succKey x.key) (fun s' hs' => hpos s' (by simp [hs'])) (by
        rw [hres, List.length_drop]
        simp only [List.length_cons] at hlen
        omega)]
      rw [hres, List.take_append_drop]

/-! ## reverse batching -/

theorem blt_nil (k : Bytes) : Bytes.lt k [] = false := by
  cases k <;> simp [Bytes.lt, Bytes.cmp]

/-- descending version of `filter_gt_take` -/
theorem filter_lt_take_desc (l : List Item) (hs : l.Pairwise (fun a b => KeyLt b a)) (s : Nat) (x : Item)
    (hx : (l.take s).getLast? = some x) :
    l.filter (fun it => Bytes.lt it.key x.key) = l.drop s := by
  induction l generalizing s with
  | nil => simp at hx
  | cons a t ih =>
    have p := List.pairwise_cons.mp hs
    cases s with
    | zero => simp at hx
    | succ s =>
      simp only [List.take_succ_cons, List.drop_succ_cons] at hx ⊢
      cases hts : t.take s with
      | nil =>
        rw [hts] at hx
        simp at hx
        subst hx
        have hd : t.drop s = t := by
          cases s with
          | zero => rfl
          | succ s' =>
            cases t with
            | nil => rfl
            | cons b t' => simp at hts
        rw [hd, List.filter_cons, blt_irrefl]
        simp only [Bool.false_eq_true, if_false]
        exact List.filter_eq_self.mpr (fun y hy => p.1 y hy)
      | cons b t' =>
        have hx' : (t.take s).getLast? = some x := by
          rw [hts] at hx ⊢
          simpa [List.getLast?_cons_cons] using hx
        have hxm : x ∈ t := List.mem_of_mem_take (List.mem_of_getLast? hx')
        have hax : Bytes.lt a.key x.key = false := blt_asymm (p.1 x hxm)
        rw [List.filter_cons, hax]
        simp only [Bool.false_eq_true, if_false]
        exact ih p.2 s hx'

theorem ordered_true_eq (l : List Item) : ordered true l = (ordered false l).reverse := rfl

theorem desc_of_sorted {l : List Item} (h : l.Pairwise KeyLt) : l.reverse.Pairwise (fun a b => KeyLt b a) :=
  List.pairwise_reverse.mpr h

/-- resuming below the last key of a reverse batch continues exactly where the batch stopped; after the empty key nothing is left -/
theorem resume_rev {m : VLog} (hi : Inv m) (lo hi' : Bytes) (s : Nat) (x : Item)
    (hx : ((ordered true (m.snapItems lo hi')).take s).getLast? = some x) :
    (x.key = [] → (ordered true (m.snapItems lo hi')).drop s = []) ∧
    (x.key ≠ [] → ordered true (m.snapItems lo x.key) = (ordered true (m.snapItems lo hi')).drop s) := by
  have hs := (snapIter_sorted hi lo hi').1
  have hdesc := desc_of_sorted hs
  rw [ordered_true_eq] at hx ⊢
  have hfl := filter_lt_take_desc _ hdesc s x hx
  constructor
  · intro he
    rw [← hfl, he]
    simp [blt_nil]
  · intro hne
    have hs' := (snapIter_sorted hi lo x.key).1
    rw [ordered_true_eq, ← hfl, List.filter_reverse]
    congr 1
    apply sorted_ext _ _ hs' (hs.sublist List.filter_sublist)
    intro it
    have hxm : x ∈ ordered false (m.snapItems lo hi') := by
      have := List.mem_of_mem_take (List.mem_of_getLast? hx)
      simpa using this
    have hxr := ((snapIter_mem hi lo hi' false x).mp hxm).1
    rw [inRange_iff] at hxr
    simp only [List.mem_filter, snapIter_mem hi _ _ false it, inRange_iff]
    constructor
    · rintro ⟨⟨h1, h2⟩, h3⟩
      have hlt : Bytes.lt it.key x.key = true := by
        rcases h2 with e | e
        · exact absurd e hne
        · exact e
      refine ⟨⟨⟨h1, ?_⟩, h3⟩, hlt⟩
      rcases hxr.2 with e | e
      · exact Or.inl e
      · exact Or.inr (blt_trans hlt e)
    · rintro ⟨⟨⟨h1, _⟩, h3⟩, hlt⟩
      exact ⟨⟨h1, Or.inr hlt⟩, h3⟩

theorem batchedRev_eq {m : VLog} (hi : Inv m) (lo : Bytes) : ∀ (sizes : List Nat) (hi' : Bytes),
    (∀ s ∈ sizes, 0 < s) → (ordered true (m.snapItems lo hi')).length < sizes.length →
    m.batchedRev lo hi' sizes = ordered true (m.snapItems lo hi') := by
  intro sizes
  induction sizes with
  | nil => intro hi' _ h; simp at h
  | cons s rest ih =>
    intro hi' hpos hlen
    have hs : 0 < s := hpos s (by simp)
    simp only [VLog.batchedRev]
    cases hx : ((ordered true (m.snapItems lo hi')).take s).getLast? with
    | none =>
      have : (ordered true (m.snapItems lo hi')).take s = [] := by simpa using hx
      have hnil : ordered true (m.snapItems lo hi') = [] := by
        cases hl : ordered true (m.snapItems lo hi') with
        | nil => rfl
        | cons a t =>
          rw [hl] at this
          cases s with
          | zero => omega
          | succ s' => simp at this
      simp [hnil]
    | some x =>
      simp only []
      obtain ⟨r1, r2⟩ := resume_rev hi lo hi' s x hx
      have hpos' : 0 < (ordered true (m.snapItems lo hi')).length :=
        List.length_pos_of_mem (List.mem_of_mem_take (List.mem_of_getLast? hx))
      by_cases he : x.key = []
      · have : x.key.isEmpty = true := by simp [he]
        rw [if_pos this]
        have hd := r1 he
        have := List.take_append_drop s (ordered true (m.snapItems lo hi'))
        rw [hd, List.append_nil] at this
        exact this
      · have : x.key.isEmpty = false := by
          cases hk : x.key with
          | nil => exact absurd hk he
          | cons _ _ => rfl
        rw [if_neg (by simp [this])]
        have hres := r2 he
        rw [ih x.key (fun s' hs' => hpos s' (by simp [hs'])) (by
          rw [hres, List.length_drop]
          simp only [List.length_cons] at hlen
          omega)]
        rw [hres, List.take_append_drop]

end CGV.MemBuf
