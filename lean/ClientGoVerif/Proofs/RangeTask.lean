/-
  Helper lemmas for Props/C14.lean: the byte-string order, chains of half-open ranges, the split loop,
  the lock-resolution loop.
-/
import ClientGoVerif.Model.RangeTask
namespace CGV.RangeTask
open CGV

/-! ## `Bytes.cmp` is a total order -/

theorem cmp_refl : ∀ a : Bytes, Bytes.cmp a a = .eq
  | [] => rfl
  | x :: xs => by simp [Bytes.cmp, cmp_refl xs]

theorem cmp_eq_iff : ∀ a b : Bytes, Bytes.cmp a b = .eq ↔ a = b
  | [], [] => by simp [Bytes.cmp]
  | [], _ :: _ => by simp [Bytes.cmp]
  | _ :: _, [] => by simp [Bytes.cmp]
  | x :: xs, y :: ys => by
    simp only [Bytes.cmp]
    split
    · rename_i h; simp; intro e; subst e; exact absurd h (UInt8.lt_irrefl _)
    · split
      · rename_i h; simp; intro e; subst e; exact absurd h (UInt8.lt_irrefl _)
      · rename_i h1 h2
        have : x = y := UInt8.le_antisymm (UInt8.not_lt.mp h2) (UInt8.not_lt.mp h1)
        subst this
        simp [cmp_eq_iff xs ys]

theorem cmp_swap : ∀ a b : Bytes, Bytes.cmp a b = .lt ↔ Bytes.cmp b a = .gt
  | [], [] => by simp [Bytes.cmp]
  | [], _ :: _ => by simp [Bytes.cmp]
  | _ :: _, [] => by simp [Bytes.cmp]
  | x :: xs, y :: ys => by
    simp only [Bytes.cmp]
    by_cases h1 : x < y
    · have h2 : ¬ y < x := fun h => UInt8.lt_irrefl _ (UInt8.lt_trans h1 h)
      simp [h1, h2]
    · by_cases h2 : y < x
      · simp [h1, h2]
      · simp [h1, h2, cmp_swap xs ys]

theorem lt_trans' : ∀ a b c : Bytes, Bytes.cmp a b = .lt → Bytes.cmp b c = .lt → Bytes.cmp a c = .lt
  | [], [], _ => by simp [Bytes.cmp]
  | [], _ :: _, [] => by simp [Bytes.cmp]
  | [], _ :: _, _ :: _ => by simp [Bytes.cmp]
  | _ :: _, [], _ => by simp [Bytes.cmp]
  | _ :: _, _ :: _, [] => by simp [Bytes.cmp]
  | x :: xs, y :: ys, z :: zs => by
    simp only [Bytes.cmp]
    intro h1 h2
    by_cases xy : x < y
    · by_cases yz : y < z
      · simp [UInt8.lt_trans xy yz]
      · by_cases zy : z < y
        · simp [yz, zy] at h2
        · have : y = z := UInt8.le_antisymm (UInt8.not_lt.mp zy) (UInt8.not_lt.mp yz)
          subst this; simp [xy]
    · by_cases yx : y < x
      · simp [xy, yx] at h1
      · have : x = y := UInt8.le_antisymm (UInt8.not_lt.mp yx) (UInt8.not_lt.mp xy)
        subst this
        simp only [xy, if_false] at h1
        by_cases yz : x < z
        · simp [yz]
        · by_cases zy : z < x
          · simp [yz, zy] at h2
          · simp only [yz, zy, if_false] at h2 ⊢
            exact lt_trans' xs ys zs h1 h2

/-- `Bytes.lt` / `Bytes.le` as propositions -/
theorem lt_iff (a b : Bytes) : Bytes.lt a b = true ↔ Bytes.cmp a b = .lt := by
  simp [Bytes.lt]
theorem le_iff (a b : Bytes) : Bytes.le a b = true ↔ Bytes.cmp a b ≠ .gt := by
  simp [Bytes.le]

theorem lt_irrefl (a : Bytes) : Bytes.lt a a = false := by
  simp [Bytes.lt, cmp_refl]

theorem le_refl (a : Bytes) : Bytes.le a a = true := by
  simp [Bytes.le, cmp_refl]

theorem lt_trans {a b c : Bytes} (h1 : Bytes.lt a b = true) (h2 : Bytes.lt b c = true) : Bytes.lt a c = true := by
  rw [lt_iff] at *; exact lt_trans' a b c h1 h2

theorem le_of_lt {a b : Bytes} (h : Bytes.lt a b = true) : Bytes.le a b = true := by
  rw [lt_iff] at h; rw [le_iff]; simp [h]

/-- totality: `¬ a < b ↔ b ≤ a` -/
theorem not_lt_iff_le (a b : Bytes) : Bytes.lt a b = false ↔ Bytes.le b a = true := by
  rw [le_iff]
  constructor
  · intro h hg
    have := (cmp_swap a b).mpr hg
    rw [← lt_iff] at this; simp [this] at h
  · intro h
    cases hlt : Bytes.lt a b with
    | false => rfl
    | true => exact absurd ((cmp_swap a b).mp ((lt_iff a b).mp hlt)) h

theorem le_iff_lt_or_eq (a b : Bytes) : Bytes.le a b = true ↔ (Bytes.lt a b = true ∨ a = b) := by
  rw [le_iff, lt_iff]
  constructor
  · intro h
    cases hc : Bytes.cmp a b with
    | lt => exact .inl rfl
    | eq => exact .inr ((cmp_eq_iff a b).mp hc)
    | gt => exact absurd hc h
  · rintro (h | h)
    · simp [h]
    · subst h; simp [cmp_refl]

theorem lt_of_le_of_lt {a b c : Bytes} (h1 : Bytes.le a b = true) (h2 : Bytes.lt b c = true) : Bytes.lt a c = true := by
  rcases (le_iff_lt_or_eq a b).mp h1 with h | h
  · exact lt_trans h h2
  · subst h; exact h2

theorem lt_of_lt_of_le {a b c : Bytes} (h1 : Bytes.lt a b = true) (h2 : Bytes.le b c = true) : Bytes.lt a c = true := by
  rcases (le_iff_lt_or_eq b c).mp h2 with h | h
  · exact lt_trans h1 h
  · subst h; exact h1

theorem le_trans {a b c : Bytes} (h1 : Bytes.le a b = true) (h2 : Bytes.le b c = true) : Bytes.le a c = true := by
  rcases (le_iff_lt_or_eq a b).mp h1 with h | h
  · exact le_of_lt (lt_of_lt_of_le h h2)
  · subst h; exact h2

theorem nil_le (a : Bytes) : Bytes.le [] a = true := by
  cases a <;> simp [Bytes.le, Bytes.cmp]

theorem not_lt_nil (a : Bytes) : Bytes.lt a [] = false := by
  cases a <;> simp [Bytes.lt, Bytes.cmp]

theorem ne_nil_of_lt {a b : Bytes} (h : Bytes.lt a b = true) : b ≠ [] := by
  intro e; subst e; simp [not_lt_nil] at h

theorem geB_iff (a b : Bytes) : geB a b = true ↔ Bytes.le b a = true := by
  simp [geB, not_lt_iff_le]

theorem geB_false_iff (a b : Bytes) : geB a b = false ↔ Bytes.lt a b = true := by
  simp [geB]


/-! ## region boundaries -/

theorem regionEnd_gt (l : Layout) (key : Bytes) : regionEnd l key = [] ∨ Bytes.lt key (regionEnd l key) = true := by
  induction l with
  | nil => simp [regionEnd]
  | cons p ps ih =>
    simp only [regionEnd]
    split
    · rename_i h; simp only [Bool.and_eq_true] at h; exact .inr h.1
    · exact ih

/-- no split point lies strictly between the key and the end of its region -/
theorem regionEnd_least (l : Layout) (key p : Bytes) (hp : p ∈ l) (h : Bytes.lt key p = true) :
    regionEnd l key ≠ [] ∧ Bytes.le (regionEnd l key) p = true := by
  induction l with
  | nil => cases hp
  | cons q qs ih =>
    simp only [regionEnd]
    rcases List.mem_cons.mp hp with e | hm
    · subst e
      split
      · exact ⟨ne_nil_of_lt h, le_refl _⟩
      · rename_i hc
        simp only [h, Bool.true_and, Bool.or_eq_true, List.isEmpty_iff, not_or, Bool.not_eq_true] at hc
        exact ⟨hc.1, (not_lt_iff_le _ _).mp hc.2⟩
    · have ⟨h1, h2⟩ := ih hm
      split
      · rename_i hc
        simp only [Bool.and_eq_true, Bool.or_eq_true, List.isEmpty_iff] at hc
        refine ⟨ne_nil_of_lt hc.1, ?_⟩
        rcases hc.2 with e | hlt
        · exact absurd e h1
        · exact le_trans (le_of_lt hlt) h2
      · exact ⟨h1, h2⟩

theorem batchEnd_gt (l : Layout) (n : Nat) (key : Bytes) :
    batchEnd l n key = [] ∨ Bytes.lt key (batchEnd l n key) = true := by
  induction n generalizing key with
  | zero => exact regionEnd_gt l key
  | succ n ih =>
    simp only [batchEnd]
    split
    · exact .inl rfl
    · rename_i hne
      rcases regionEnd_gt l key with h | h
      · simp [h] at hne
      · rcases ih (regionEnd l key) with h2 | h2
        · exact .inl h2
        · exact .inr (lt_trans h h2)

/-! ## chains of half-open ranges -/

/-- `k ∈ [s, e)` with `e = []` = +∞ -/
def InRange (s e k : Bytes) : Prop := Bytes.le s k = true ∧ (e = [] ∨ Bytes.lt k e = true)

theorem memB_iff (t : Task) (k : Bytes) : t.memB k = true ↔ InRange t.s t.e k := by
  simp [Task.memB, InRange, List.isEmpty_iff]

/-- `ts` cuts `[s, e)` into consecutive non-empty pieces; only the last piece may be unbounded -/
def IsChain : Bytes → Bytes → List Task → Prop
  | _, _, [] => False
  | s, e, [t] => t.s = s ∧ t.e = e ∧ (e = [] ∨ Bytes.lt s e = true)
  | s, e, t :: t' :: r => t.s = s ∧ t.e ≠ [] ∧ Bytes.lt s t.e = true ∧ IsChain t.e e (t' :: r)

theorem IsChain.cons_iff {s e : Bytes} {t : Task} {r : List Task} (hr : r ≠ []) :
    IsChain s e (t :: r) ↔ (t.s = s ∧ t.e ≠ [] ∧ Bytes.lt s t.e = true ∧ IsChain t.e e r) := by
  cases r with
  | nil => exact absurd rfl hr
  | cons t' r => simp [IsChain]

theorem IsChain.ne_nil {s e : Bytes} {ts : List Task} (h : IsChain s e ts) : ts ≠ [] := by
  intro e; subst e; exact h

/-- the whole range is non-empty -/
theorem IsChain.nonempty {s e : Bytes} {ts : List Task} (h : IsChain s e ts) : e = [] ∨ Bytes.lt s e = true := by
  induction ts generalizing s with
  | nil => exact h.elim
  | cons t r ih =>
    cases r with
    | nil => exact h.2.2
    | cons t' r =>
      obtain ⟨_, _, h3, h4⟩ := h
      rcases ih h4 with h5 | h5
      · exact .inl h5
      · exact .inr (lt_trans h3 h5)

/-- every piece lies inside `[s, e)` -/
theorem IsChain.sub {s e : Bytes} {ts : List Task} (h : IsChain s e ts) :
    ∀ t ∈ ts, ∀ k, InRange t.s t.e k → InRange s e k := by
  induction ts generalizing s with
  | nil => exact h.elim
  | cons t r ih =>
    cases r with
    | nil =>
      obtain ⟨h1, h2, _⟩ := h
      intro t' ht' k hk
      simp only [List.mem_singleton] at ht'
      subst ht'; rw [h1, h2] at hk; exact hk
    | cons t' r =>
      obtain ⟨h1, h2, h3, h4⟩ := h
      intro u hu k hk
      rcases List.mem_cons.mp hu with e' | hm
      · subst e'
        rw [h1] at hk
        refine ⟨hk.1, ?_⟩
        rcases hk.2 with h5 | h5
        · exact absurd h5 h2
        · rcases h4.nonempty with h6 | h6
          · exact .inl h6
          · exact .inr (lt_trans h5 h6)
      · have := ih h4 u hm k hk
        exact ⟨le_trans (le_of_lt h3) this.1, this.2⟩

/-- exact cover -/
theorem IsChain.cover {s e : Bytes} {ts : List Task} (h : IsChain s e ts) (k : Bytes) :
    (∃ t ∈ ts, InRange t.s t.e k) ↔ InRange s e k := by
  constructor
  · rintro ⟨t, ht, hk⟩; exact h.sub t ht k hk
  · induction ts generalizing s with
    | nil => exact h.elim
    | cons t r ih =>
      cases r with
      | nil =>
        obtain ⟨h1, h2, _⟩ := h
        intro hk; exact ⟨t, by simp, by rw [h1, h2]; exact hk⟩
      | cons t' r =>
        obtain ⟨h1, h2, h3, h4⟩ := h
        intro hk
        cases hlt : Bytes.lt k t.e with
        | true => exact ⟨t, by simp, by rw [h1]; exact ⟨hk.1, .inr hlt⟩⟩
        | false =>
          have hle := (not_lt_iff_le _ _).mp hlt
          obtain ⟨u, hu, huk⟩ := ih h4 ⟨hle, hk.2⟩
          exact ⟨u, List.mem_cons_of_mem _ hu, huk⟩

/-- two ranges share no key -/
def Disjoint (a b : Task) : Prop := ∀ k, ¬ (InRange a.s a.e k ∧ InRange b.s b.e k)

theorem IsChain.pairwise {s e : Bytes} {ts : List Task} (h : IsChain s e ts) : ts.Pairwise Disjoint := by
  induction ts generalizing s with
  | nil => exact h.elim
  | cons t r ih =>
    cases r with
    | nil => simp
    | cons t' r =>
      obtain ⟨h1, h2, h3, h4⟩ := h
      refine List.pairwise_cons.mpr ⟨?_, ih h4⟩
      intro u hu k ⟨hk1, hk2⟩
      have hin := h4.sub u hu k hk2
      rcases hk1.2 with h5 | h5
      · exact h2 h5
      · have := lt_of_le_of_lt hin.1 h5
        simp [lt_irrefl] at this

/-- consecutive: each piece starts where the previous one ends -/
def Consecutive : List Task → Prop
  | [] => True
  | [_] => True
  | a :: b :: r => a.e = b.s ∧ Consecutive (b :: r)

theorem IsChain.head_s {s e : Bytes} {t : Task} {r : List Task} (h : IsChain s e (t :: r)) : t.s = s := by
  cases r with
  | nil => exact h.1
  | cons t' r => exact h.1

theorem IsChain.consecutive {s e : Bytes} {ts : List Task} (h : IsChain s e ts) : Consecutive ts := by
  induction ts generalizing s with
  | nil => trivial
  | cons t r ih =>
    cases r with
    | nil => trivial
    | cons t' r =>
      obtain ⟨_, _, _, h4⟩ := h
      exact ⟨h4.head_s.symm, ih h4⟩

theorem IsChain.each_nonempty {s e : Bytes} {ts : List Task} (hc : IsChain s e ts) :
    ∀ t ∈ ts, t.e = [] ∨ Bytes.lt t.s t.e = true := by
  induction ts generalizing s with
  | nil => exact hc.elim
  | cons t r ih =>
    cases r with
    | nil =>
      obtain ⟨h1, h2, h3⟩ := hc
      intro u hu; simp only [List.mem_singleton] at hu; subst hu; rw [h1, h2]; exact h3
    | cons t' r =>
      obtain ⟨h1, _, h3, h4⟩ := hc
      intro u hu
      rcases List.mem_cons.mp hu with rfl | hm
      · rw [h1]; exact .inr h3
      · exact ih h4 u hm

theorem IsChain.getLast_e {s e : Bytes} {ts : List Task} (hc : IsChain s e ts) :
    ∀ t, ts.getLast? = some t → t.e = e := by
  induction ts generalizing s with
  | nil => exact hc.elim
  | cons a r ih =>
    cases r with
    | nil => intro t ht; simp at ht; subst ht; exact hc.2.1
    | cons t' r =>
      intro t ht
      rw [List.getLast?_cons_cons] at ht
      exact ih hc.2.2.2 t ht

theorem IsChain.append {s m e : Bytes} {a b : List Task} (ha : IsChain s m a) (hm : m ≠ []) (hb : IsChain m e b) :
    IsChain s e (a ++ b) := by
  induction a generalizing s with
  | nil => exact ha.elim
  | cons t r ih =>
    cases r with
    | nil =>
      obtain ⟨h1, h2, h3⟩ := ha
      have hlt : Bytes.lt s m = true := by
        rcases h3 with h | h
        · exact absurd h hm
        · exact h
      show IsChain s e (t :: b)
      rw [IsChain.cons_iff hb.ne_nil]
      subst h2
      exact ⟨h1, hm, hlt, hb⟩
    | cons t' r =>
      obtain ⟨h1, h2, h3, h4⟩ := ha
      show IsChain s e (t :: (t' :: r ++ b))
      rw [IsChain.cons_iff (by simp)]
      exact ⟨h1, h2, h3, ih h4⟩

/-! ## the split loop -/

theorem splitLoop_chain (next : Nat → Bytes → Bytes) (hnext : ∀ i k, next i k = [] ∨ Bytes.lt k (next i k) = true)
    (e : Bytes) (fuel i : Nat) (key : Bytes) (ts : List Task)
    (hne : e = [] ∨ Bytes.lt key e = true)
    (hrun : splitLoop next e fuel i key = (ts, true)) : IsChain key e ts := by
  induction fuel generalizing i key ts with
  | zero => simp [splitLoop] at hrun
  | succ fuel ih =>
    simp only [splitLoop] at hrun
    split at hrun
    · simp only [Prod.mk.injEq, and_true] at hrun
      subst hrun
      exact ⟨rfl, rfl, hne⟩
    · rename_i hlast
      simp only [Bool.or_eq_true, List.isEmpty_iff, Bool.and_eq_true, Bool.not_eq_true', not_or, not_and,
        Bool.not_eq_true] at hlast
      obtain ⟨hn1, hn2⟩ := hlast
      have hgt : Bytes.lt key (next i key) = true := by
        rcases hnext i key with h | h
        · exact absurd h hn1
        · exact h
      have hne' : e = [] ∨ Bytes.lt (next i key) e = true := by
        by_cases he : e = []
        · exact .inl he
        · exact .inr ((geB_false_iff _ _).mp (hn2 (by simpa [List.isEmpty_iff] using he)))
      generalize hr : splitLoop next e fuel (i + 1) (next i key) = r at hrun
      obtain ⟨r1, r2⟩ := r
      simp only [Prod.mk.injEq] at hrun
      obtain ⟨h1, h2⟩ := hrun
      subst h1; subst h2
      have hc := ih (i + 1) (next i key) r1 hne' hr
      rw [IsChain.cons_iff hc.ne_nil]
      exact ⟨rfl, hn1, hgt, hc⟩

theorem emptyRange_false {s e : Bytes} (h : emptyRange s e = false) : e = [] ∨ Bytes.lt s e = true := by
  simp only [emptyRange, Bool.and_eq_false_iff, Bool.not_eq_false', List.isEmpty_iff] at h
  rcases h with h | h
  · exact .inl h
  · exact .inr ((geB_false_iff _ _).mp h)

theorem emptyRange_true {s e : Bytes} (h : emptyRange s e = true) : ∀ k, ¬ InRange s e k := by
  simp only [emptyRange, Bool.and_eq_true, Bool.not_eq_true', List.isEmpty_eq_false_iff] at h
  intro k ⟨h1, h2⟩
  rcases h2 with h2 | h2
  · exact h.1 h2
  · have := lt_of_le_of_lt ((geB_iff _ _).mp h.2) (lt_of_le_of_lt h1 h2)
    simp [lt_irrefl] at this

theorem runOnRange_chain {layouts : Nat → Layout} {rpt fuel : Nat} {s e : Bytes} {ts : List Task}
    (h : runOnRange layouts rpt fuel s e = some ts) :
    (emptyRange s e = true ∧ ts = []) ∨ (emptyRange s e = false ∧ IsChain s e ts) := by
  unfold runOnRange at h
  split at h
  · rename_i he; simp at h; exact .inl ⟨he, h⟩
  · rename_i he
    simp only [Bool.not_eq_true] at he
    split at h
    · rename_i ts' hrun
      simp at h; subst h
      exact .inr ⟨he, splitLoop_chain _ (fun i k => batchEnd_gt _ _ _) e fuel 0 s ts' (emptyRange_false he) hrun⟩
    · simp at h

theorem deleteReqs_chain {layouts : Nat → Layout} {fuel : Nat} {t : Task} {rs : List Task}
    (hne : t.e = [] ∨ Bytes.lt t.s t.e = true)
    (h : deleteReqs layouts fuel t = some rs) : IsChain t.s t.e rs := by
  unfold deleteReqs at h
  split at h
  · rename_i he
    exfalso
    simp only [emptyRange, Bool.and_eq_true, Bool.not_eq_true', List.isEmpty_eq_false_iff] at he
    rcases hne with h1 | h1
    · exact he.1 h1
    · have := (geB_iff _ _).mp he.2
      have := lt_of_le_of_lt this h1
      simp [lt_irrefl] at this
  · split at h
    · rename_i rs' hrun
      simp at h; subst h
      exact splitLoop_chain _ (fun i k => regionEnd_gt _ _) t.e fuel 0 t.s rs' hne hrun
    · simp at h

theorem deleteRangeReqsAux_chain {dl : Nat → Nat → Layout} {fuel : Nat} {s e : Bytes} {ts : List Task}
    (hc : IsChain s e ts) : ∀ {j : Nat} {rs : List Task}, deleteRangeReqsAux dl fuel j ts = some rs → IsChain s e rs := by
  induction ts generalizing s with
  | nil => exact hc.elim
  | cons t r ih =>
    intro j rs h
    simp only [deleteRangeReqsAux] at h
    split at h
    · rename_i a b ha hb
      simp at h; subst h
      cases r with
      | nil =>
        obtain ⟨h1, h2, h3⟩ := hc
        simp only [deleteRangeReqsAux] at hb
        simp at hb; subst hb
        have := deleteReqs_chain (by rw [h1, h2]; exact h3) ha
        rw [h1, h2] at this
        simpa using this
      | cons t' r =>
        obtain ⟨h1, h2, h3, h4⟩ := hc
        have hca := deleteReqs_chain (.inr (by rw [h1]; exact h3)) ha
        rw [h1] at hca
        exact hca.append h2 (ih h4 hb)
    · simp at h


/-! ## the lock-resolution loop -/

/-- population sorted by key, at most one lock per key -/
def Sorted (pop : List Lock) : Prop := pop.Pairwise (fun a b => Bytes.lt a.key b.key = true)

theorem mem_scan {pop : List Lock} {maxV : Nat} {lo hi : Bytes} {limit : Nat} {l : Lock}
    (h : l ∈ scan pop maxV lo hi limit) : l ∈ pop ∧ eligible maxV lo hi l = true := by
  have := List.mem_of_mem_take h
  exact List.mem_filter.mp this

theorem eligible_iff (maxV : Nat) (lo hi : Bytes) (l : Lock) :
    eligible maxV lo hi l = true ↔ (InRange lo hi l.key ∧ l.ts ≤ maxV) := by
  simp [eligible, InRange, List.isEmpty_iff]

/-- below the limit the scan is complete -/
theorem scan_complete {pop : List Lock} {maxV : Nat} {lo hi : Bytes} {limit : Nat}
    (hlen : (scan pop maxV lo hi limit).length < limit) {l : Lock} (hl : l ∈ pop)
    (he : eligible maxV lo hi l = true) : l ∈ scan pop maxV lo hi limit := by
  unfold scan at *
  have hle : (pop.filter (eligible maxV lo hi)).length ≤ limit := by
    rw [List.length_take] at hlen; omega
  rw [List.take_of_length_le hle]
  exact List.mem_filter.mpr ⟨hl, he⟩

/-- at the limit, everything the scan left out lies strictly behind the last reported lock -/
theorem scan_prefix {pop : List Lock} (hs : Sorted pop) {maxV : Nat} {lo hi : Bytes} {limit : Nat} {last : Lock}
    (hlast : (scan pop maxV lo hi limit).getLast? = some last) {l : Lock} (hl : l ∈ pop)
    (he : eligible maxV lo hi l = true) (hn : l ∉ scan pop maxV lo hi limit) :
    Bytes.lt last.key l.key = true := by
  unfold scan at *
  have hlm := List.mem_of_getLast? hlast
  have hf : l ∈ pop.filter (eligible maxV lo hi) := List.mem_filter.mpr ⟨hl, he⟩
  rw [← List.take_append_drop limit (pop.filter (eligible maxV lo hi))] at hf
  rcases List.mem_append.mp hf with h | h
  · exact absurd h hn
  · have hp : Sorted (pop.filter (eligible maxV lo hi)) := List.Pairwise.filter _ hs
    unfold Sorted at hp
    rw [← List.take_append_drop limit (pop.filter (eligible maxV lo hi))] at hp
    exact (List.pairwise_append.mp hp).2.2 last hlm l h

/-- a lock that has to be resolved by `ResolveLocksForRange(maxV, s, e)` -/
def Elig (pop0 : List Lock) (maxV : Nat) (s e : Bytes) (l : Lock) : Prop :=
  l ∈ pop0 ∧ l.ts ≤ maxV ∧ InRange s e l.key

structure Inv (pop0 : List Lock) (maxV : Nat) (s e key : Bytes) (st : ResolveOut) : Prop where
  sorted : Sorted st.pop
  sub : ∀ l ∈ st.pop, l ∈ pop0
  keyGe : Bytes.le s key = true
  prog : ∀ l, Elig pop0 maxV s e l → (∃ b ∈ st.batches, l ∈ b) ∨ (l ∈ st.pop ∧ Bytes.le key l.key = true)
  gone : ∀ b ∈ st.batches, ∀ l ∈ b, l ∉ st.pop
  only : ∀ l ∈ pop0, l ∉ st.pop → l.ts ≤ maxV

structure Final (pop0 : List Lock) (maxV : Nat) (s e : Bytes) (out : ResolveOut) : Prop where
  sorted : Sorted out.pop
  all : ∀ l, Elig pop0 maxV s e l → ∃ b ∈ out.batches, l ∈ b
  sub : ∀ l ∈ out.pop, l ∈ pop0
  gone : ∀ b ∈ out.batches, ∀ l ∈ b, l ∉ out.pop
  only : ∀ l ∈ pop0, l ∉ out.pop → l.ts ≤ maxV

/-- the request end key never leaves `[.., e)` and equals the region end or `e` -/
theorem reqEnd_cases (e locEnd : Bytes) :
    (reqEndOf e locEnd = e ∧ e ≠ []) ∨
    (reqEndOf e locEnd = locEnd ∧ (e = [] ∨ (locEnd ≠ [] ∧ Bytes.le locEnd e = true))) := by
  by_cases hc : (!e.isEmpty && (locEnd.isEmpty || Bytes.lt e locEnd)) = true
  · left
    have : reqEndOf e locEnd = e := by simp [reqEndOf, hc]
    simp only [Bool.and_eq_true, Bool.not_eq_true', List.isEmpty_eq_false_iff] at hc
    exact ⟨this, hc.1⟩
  · right
    have : reqEndOf e locEnd = locEnd := by simp [reqEndOf, hc]
    refine ⟨this, ?_⟩
    simp only [Bool.and_eq_true, Bool.not_eq_true', List.isEmpty_eq_false_iff, Bool.or_eq_true,
      List.isEmpty_iff, not_and, not_or, Bool.not_eq_true] at hc
    by_cases he : e = []
    · exact .inl he
    · have := hc he
      exact .inr ⟨this.1, (not_lt_iff_le _ _).mp this.2⟩

theorem touchedBy_cases {locks : List Lock} {wb : Bool} {inReg : Lock → Bool} {l : Lock}
    (h : touchedBy locks wb inReg l = true) : l ∈ locks ∨ (∃ x ∈ locks, x.ts = l.ts) := by
  simp only [touchedBy, Bool.or_eq_true, Bool.and_eq_true, List.contains_iff_mem, List.any_eq_true,
    beq_iff_eq] at h
  rcases h with ⟨_, h | ⟨_, h⟩⟩ | ⟨_, h2⟩
  · exact .inl h
  · exact .inr h
  · exact .inr h2

theorem touchedBy_of_mem {locks : List Lock} {inReg : Lock → Bool} {l : Lock} (h : l ∈ locks) :
    touchedBy locks true inReg l = true := by
  simp [touchedBy, h]

/-- one handled batch keeps the invariant, as long as the cursor does not move past an unresolved lock -/
theorem resolved_inv {pop0 : List Lock} {maxV : Nat} {s e key key' reqEnd : Bytes} {st : ResolveOut}
    {locks : List Lock} {limit : Nat} {wb : Bool} {inReg : Lock → Bool}
    (hinv : Inv pop0 maxV s e key st)
    (hF1 : ∀ l ∈ locks, l ∈ st.pop ∧ Bytes.le key l.key = true ∧ Elig pop0 maxV s e l)
    (P : Lock → Prop)
    (hP : ∀ l, Elig pop0 maxV s e l → l ∈ st.pop → Bytes.le key l.key = true →
      touchedBy locks wb inReg l = false → P l) :
    let st' := resolved st key' reqEnd locks limit wb inReg
    Sorted st'.pop ∧ (∀ l ∈ st'.pop, l ∈ pop0) ∧ (∀ b ∈ st'.batches, ∀ l ∈ b, l ∉ st'.pop) ∧
    (∀ l ∈ pop0, l ∉ st'.pop → l.ts ≤ maxV) ∧
    (∀ l, Elig pop0 maxV s e l → (∃ b ∈ st'.batches, l ∈ b) ∨ (l ∈ st'.pop ∧ P l)) := by
  intro st'
  have hpop' : ∀ l, l ∈ st'.pop ↔ (l ∈ st.pop ∧ touchedBy locks wb inReg l = false) := by
    intro l; simp [st', resolved, List.mem_filter]
  have hbat' : ∀ b, b ∈ st'.batches ↔ (b ∈ st.batches ∨ b = st.pop.filter (touchedBy locks wb inReg)) := by
    intro b; simp [st', resolved]
  refine ⟨List.Pairwise.filter _ hinv.sorted, fun l hl => hinv.sub l ((hpop' l).mp hl).1, ?_, ?_, ?_⟩
  · intro b hb l hl hp
    rcases (hbat' b).mp hb with h | h
    · exact hinv.gone b h l hl ((hpop' l).mp hp).1
    · subst h
      have := (List.mem_filter.mp hl).2
      rw [((hpop' l).mp hp).2] at this; cases this
  · intro l hl hn
    by_cases hp : l ∈ st.pop
    · cases ht : touchedBy locks wb inReg l with
      | false => exact absurd ((hpop' l).mpr ⟨hp, ht⟩) hn
      | true =>
        rcases touchedBy_cases ht with hk | ⟨x, hx, hxt⟩
        · exact (hF1 l hk).2.2.2.1
        · rw [← hxt]; exact (hF1 x hx).2.2.2.1
    · exact hinv.only l hl hp
  · intro l hl
    rcases hinv.prog l hl with ⟨b, hb, hlb⟩ | ⟨hp, hk⟩
    · exact .inl ⟨b, (hbat' b).mpr (.inl hb), hlb⟩
    · cases ht : touchedBy locks wb inReg l with
      | true => exact .inl ⟨_, (hbat' _).mpr (.inr rfl), List.mem_filter.mpr ⟨hp, ht⟩⟩
      | false => exact .inr ⟨(hpop' l).mpr ⟨hp, ht⟩, hP l hl hp hk ht⟩

theorem resolveLoop_final (layouts rl : Nat → Layout) (retry : Nat → Bytes → List Lock → Bool) (maxV : Nat) (s e : Bytes)
    (limit : Nat) (pop0 : List Lock) (hkeys : ∀ l ∈ pop0, l.key ≠ [])
    (fuel i : Nat) (key : Bytes) (st out : ResolveOut)
    (hinv : Inv pop0 maxV s e key st)
    (hrun : resolveLoop layouts rl retry maxV e limit fuel i key st = some out) : Final pop0 maxV s e out := by
  induction fuel generalizing i key st with
  | zero => simp [resolveLoop] at hrun
  | succ fuel ih =>
    simp only [resolveLoop] at hrun
    generalize hlocEnd : regionEnd (layouts i) key = locEnd at hrun
    have hcases := reqEnd_cases e locEnd
    generalize hreqEnd : reqEndOf e locEnd = reqEnd at hrun hcases
    generalize hlocks : scan st.pop maxV key reqEnd limit = locks at hrun
    -- facts about the batch
    have hF1 : ∀ l ∈ locks, l ∈ st.pop ∧ Bytes.le key l.key = true ∧ Elig pop0 maxV s e l := by
      intro l hl
      rw [← hlocks] at hl
      obtain ⟨hp, he⟩ := mem_scan hl
      rw [eligible_iff] at he
      obtain ⟨⟨h1, h2⟩, h3⟩ := he
      refine ⟨hp, h1, hinv.sub l hp, h3, le_trans hinv.keyGe h1, ?_⟩
      rcases hcases with ⟨hr, hne⟩ | ⟨hr, hb⟩
      · rw [hr] at h2
        rcases h2 with h2 | h2
        · exact absurd h2 hne
        · exact .inr h2
      · rcases hb with hb | ⟨hb1, hb2⟩
        · exact .inl hb
        · rw [hr] at h2
          rcases h2 with h2 | h2
          · exact absurd h2 hb1
          · exact .inr (lt_of_lt_of_le h2 hb2)
    split at hrun
    · -- nil location: scan again from the same key
      obtain ⟨h1, h2, h3, h4, h5⟩ := resolved_inv (key' := key) (reqEnd := reqEnd) (limit := limit) (wb := false) (inReg := batchRegion (rl i) locks)
        hinv hF1 (fun l => Bytes.le key l.key = true) (fun l _ _ hk _ => hk)
      exact ih _ _ _ ⟨h1, h2, hinv.keyGe, h5, h3, h4⟩ hrun
    · -- a lock left out of the batch is eligible for the request unless it lies behind the request end
      have hbehind : ∀ l, Elig pop0 maxV s e l → Bytes.le key l.key = true →
          eligible maxV key reqEnd l = true ∨ (reqEnd = locEnd ∧ locEnd ≠ [] ∧ Bytes.le locEnd l.key = true) := by
        intro l hl hk
        by_cases hel : eligible maxV key reqEnd l = true
        · exact .inl hel
        · right
          rw [eligible_iff] at hel
          have hnr : ¬ (reqEnd = [] ∨ Bytes.lt l.key reqEnd = true) := fun h => hel ⟨⟨hk, h⟩, hl.2.1⟩
          simp only [not_or, Bool.not_eq_true] at hnr
          have hge : Bytes.le reqEnd l.key = true := (not_lt_iff_le _ _).mp hnr.2
          rcases hcases with ⟨hr, hne⟩ | ⟨hr, _⟩
          · exfalso
            rw [hr] at hge
            rcases hl.2.2.2 with h | h
            · exact hne h
            · have := lt_of_le_of_lt hge h; simp [lt_irrefl] at this
          · exact ⟨hr, by rw [← hr]; exact hnr.1, by rw [← hr]; exact hge⟩
      have hnotin : ∀ l, touchedBy locks true (batchRegion (rl i) locks) l = false → l ∉ locks := by
        intro l ht hl; rw [touchedBy_of_mem hl] at ht; cases ht
      by_cases hlen : locks.length < limit
      · -- region finished: continue at the region end
        simp only [hlen, if_true] at hrun
        have hafter : ∀ l, Elig pop0 maxV s e l → l ∈ st.pop → Bytes.le key l.key = true →
            touchedBy locks true (batchRegion (rl i) locks) l = false → (locEnd ≠ [] ∧ Bytes.le locEnd l.key = true) := by
          intro l hl hp hk ht
          rcases hbehind l hl hk with h | ⟨_, h2, h3⟩
          · exfalso; apply hnotin l ht; rw [← hlocks]; rw [← hlocks] at hlen; exact scan_complete hlen hp h
          · exact ⟨h2, h3⟩
        obtain ⟨h1, h2, h3, h4, h5⟩ := resolved_inv (key' := key) (reqEnd := reqEnd) (limit := limit) (wb := true) (inReg := batchRegion (rl i) locks)
          hinv hF1 _ hafter
        split at hrun
        · rename_i hstop
          simp at hrun; subst hrun
          refine ⟨h1, ?_, h2, h3, h4⟩
          intro l hl
          rcases h5 l hl with h | ⟨_, h6, h7⟩
          · exact h
          · exfalso
            simp only [Bool.or_eq_true, List.isEmpty_iff, Bool.and_eq_true, Bool.not_eq_true',
              List.isEmpty_eq_false_iff] at hstop
            rcases hstop with h | ⟨hne, hge⟩
            · exact h6 h
            · rcases hl.2.2.2 with h | h
              · exact hne h
              · have := lt_of_le_of_lt (le_trans ((geB_iff _ _).mp hge) h7) h
                simp [lt_irrefl] at this
        · rename_i hcont
          simp only [Bool.or_eq_true, List.isEmpty_iff, not_or] at hcont
          have hkl : Bytes.lt key locEnd = true := by
            rcases regionEnd_gt (layouts i) key with h | h
            · rw [hlocEnd] at h; exact absurd h hcont.1
            · rw [hlocEnd] at h; exact h
          refine ih _ _ _ ⟨h1, h2, le_trans hinv.keyGe (le_of_lt hkl), ?_, h3, h4⟩ hrun
          intro l hl
          rcases h5 l hl with h | ⟨h0, _, h7⟩
          · exact .inl h
          · exact .inr ⟨h0, h7⟩
      · -- limit hit: continue from the last lock
        simp only [hlen, if_false] at hrun
        cases hlast : locks.getLast? with
        | none => simp [hlast] at hrun
        | some last =>
          simp only [hlast] at hrun
          have hlm : last ∈ locks := List.mem_of_getLast? hlast
          have hafter : ∀ l, Elig pop0 maxV s e l → l ∈ st.pop → Bytes.le key l.key = true →
              touchedBy locks true (batchRegion (rl i) locks) l = false → Bytes.le last.key l.key = true := by
            intro l hl hp hk ht
            have hn := hnotin l ht
            rcases hbehind l hl hk with h | ⟨hr, h2, h3⟩
            · rw [← hlocks] at hlast hn
              exact le_of_lt (scan_prefix hinv.sorted hlast hp h hn)
            · have hle := hlm
              rw [← hlocks] at hle
              have := (eligible_iff _ _ _ _).mp (mem_scan hle).2
              rcases this.1.2 with h | h
              · rw [hr] at h; exact absurd h h2
              · rw [hr] at h; exact le_of_lt (lt_of_lt_of_le h h3)
          obtain ⟨h1, h2, h3, h4, h5⟩ := resolved_inv (key' := key) (reqEnd := reqEnd) (limit := limit) (wb := true) (inReg := batchRegion (rl i) locks)
            hinv hF1 _ hafter
          have hlastE := (hF1 last hlm)
          split at hrun
          · rename_i hstop
            exfalso
            simp only [Bool.or_eq_true, List.isEmpty_iff, Bool.and_eq_true, Bool.not_eq_true',
              List.isEmpty_eq_false_iff] at hstop
            rcases hstop with h | ⟨hne, hge⟩
            · exact hkeys last hlastE.2.2.1 h
            · rcases hlastE.2.2.2.2.2 with h | h
              · exact hne h
              · have := lt_of_le_of_lt ((geB_iff _ _).mp hge) h
                simp [lt_irrefl] at this
          · exact ih _ _ _ ⟨h1, h2, le_trans hinv.keyGe hlastE.2.1, h5, h3, h4⟩ hrun

theorem inv_init (pop0 : List Lock) (hs : Sorted pop0) (maxV : Nat) (s e : Bytes) :
    Inv pop0 maxV s e s ⟨[], pop0, [], 0⟩ :=
  ⟨hs, fun _ h => h, le_refl s, fun l hl => .inr ⟨hl.1, hl.2.2.1⟩, by simp, fun l hl hn => absurd hl hn⟩

theorem gcResolveAll_spec (layouts rl : Nat → Nat → Layout) (retry : Nat → Nat → Bytes → List Lock → Bool)
    (maxV limit fuel : Nat) (ts : List Task) :
    ∀ (j : Nat) (pop pop' : List Lock), Sorted pop → (∀ l ∈ pop, l.key ≠ []) →
      gcResolveAll layouts rl retry maxV limit fuel j ts pop = some pop' →
      (∀ l ∈ pop', l ∈ pop) ∧ (∀ l ∈ pop, maxV < l.ts → l ∈ pop') ∧
      (∀ t ∈ ts, ∀ l ∈ pop', ¬ (l.ts ≤ maxV ∧ InRange t.s t.e l.key)) := by
  induction ts with
  | nil =>
    intro j pop pop' _ _ h
    simp only [gcResolveAll, Option.some.injEq] at h
    subst h
    exact ⟨fun _ h => h, fun _ h _ => h, by simp⟩
  | cons t r ih =>
    intro j pop pop' hs hk h
    simp only [gcResolveAll] at h
    split at h
    · rename_i out hout
      have hf := resolveLoop_final (layouts j) (rl j) (retry j) maxV t.s t.e limit pop hk fuel 0 t.s _ out
        (inv_init pop hs maxV t.s t.e) hout
      obtain ⟨h1, h2, h3⟩ := ih (j + 1) out.pop pop' hf.sorted (fun l hl => hk l (hf.sub l hl)) h
      refine ⟨fun l hl => hf.sub l (h1 l hl), ?_, ?_⟩
      · intro l hl hts
        apply h2 l _ hts
        apply Classical.byContradiction
        intro hn
        exact absurd (hf.only l hl hn) (Nat.not_le.mpr hts)
      · intro u hu l hl
        rcases List.mem_cons.mp hu with rfl | hm
        · intro ⟨hts, hr⟩
          have hlo := h1 l hl
          obtain ⟨b, hb, hlb⟩ := hf.all l ⟨hf.sub l hlo, hts, hr⟩
          exact hf.gone b hb l hlb hlo
        · exact h3 u hm l hl
    · simp at h

/-! ## termination under a layout that no longer changes -/

theorem regionEnd_mem (l : Layout) (key : Bytes) : regionEnd l key = [] ∨ regionEnd l key ∈ l := by
  induction l with
  | nil => simp [regionEnd]
  | cons p ps ih =>
    simp only [regionEnd]
    split
    · exact .inr (by simp)
    · rcases ih with h | h
      · exact .inl h
      · exact .inr (List.mem_cons_of_mem _ h)

theorem batchEnd_mem (l : Layout) (n : Nat) (key : Bytes) : batchEnd l n key = [] ∨ batchEnd l n key ∈ l := by
  induction n generalizing key with
  | zero => exact regionEnd_mem l key
  | succ n ih =>
    simp only [batchEnd]
    split
    · exact .inl rfl
    · exact ih _

theorem filter_length_le {α : Type} (p q : α → Bool) (l : List α) (himp : ∀ x, p x = true → q x = true) :
    (l.filter p).length ≤ (l.filter q).length := by
  induction l with
  | nil => simp
  | cons a as ih =>
    simp only [List.filter_cons]
    cases hp : p a with
    | true => simp [himp a hp]; exact ih
    | false =>
      cases hq : q a with
      | true => simp; omega
      | false => simp; exact ih

theorem filter_length_lt {α : Type} (p q : α → Bool) (l : List α) (himp : ∀ x, p x = true → q x = true)
    (x : α) (hx : x ∈ l) (hq : q x = true) (hp : p x = false) :
    (l.filter p).length < (l.filter q).length := by
  induction l with
  | nil => cases hx
  | cons a as ih =>
    simp only [List.filter_cons]
    rcases List.mem_cons.mp hx with e | hm
    · subst e
      simp only [hp, hq, if_true, List.length_cons]
      have := filter_length_le p q as himp
      simp; omega
    · have := ih hm
      cases hpa : p a with
      | true => simp [himp a hpa]; exact this
      | false =>
        cases hqa : q a with
        | true => simp; omega
        | false => simp; exact this

/-- number of split points in front of the cursor -/
def ahead (l : Layout) (key : Bytes) : Nat := (l.filter (fun p => Bytes.lt key p)).length

theorem ahead_lt (l : Layout) (key key' : Bytes) (hm : key' ∈ l) (hlt : Bytes.lt key key' = true) :
    ahead l key' < ahead l key := by
  unfold ahead
  exact filter_length_lt _ _ l (fun x hx => lt_trans hlt hx) key' hm hlt (lt_irrefl key')

theorem splitLoop_static_terminates (l : Layout) (next : Nat → Bytes → Bytes)
    (hnext : ∀ i k, next i k = [] ∨ (next i k ∈ l ∧ Bytes.lt k (next i k) = true))
    (e : Bytes) (fuel i : Nat) (key : Bytes) (hf : ahead l key < fuel) :
    (splitLoop next e fuel i key).2 = true := by
  induction fuel generalizing i key with
  | zero => omega
  | succ fuel ih =>
    simp only [splitLoop]
    split
    · rfl
    · rename_i hlast
      simp only [Bool.or_eq_true, List.isEmpty_iff, not_or] at hlast
      rcases hnext i key with h | ⟨h1, h2⟩
      · exact absurd h hlast.1
      · have := ahead_lt l key (next i key) h1 h2
        exact ih (i + 1) (next i key) (by omega)

theorem ahead_le_length (l : Layout) (key : Bytes) : ahead l key ≤ l.length := by
  unfold ahead; exact List.length_filter_le _ _


/-! ## the runner as a scheduled system -/

structure RunInv (tasks : List Task) (workers : Nat) (st : RunSt) : Prop where
  a : st.closed = true → st.abandoned = false → st.pending = []
  b : 0 < st.errExit ∨ st.abandoned = true ∨ ∀ t ∈ tasks, t ∈ st.handled ∨ t ∈ st.queue ∨ t ∈ st.pending
  c : 0 < st.okExit → st.closed = true ∧ st.queue = []
  d : st.idle + st.busy + st.okExit + st.errExit = workers

theorem runInv_init (tasks : List Task) (workers : Nat) : RunInv tasks workers (RunSt.init tasks workers) := by
  refine ⟨?_, .inr (.inr fun t ht => .inr (.inr ht)), ?_, by simp [RunSt.init]⟩
  · intro h _; simpa [RunSt.init, List.isEmpty_iff] using h
  · intro h; simp [RunSt.init] at h

theorem runInv_step {tasks : List Task} {workers : Nat} {st : RunSt} (h : RunInv tasks workers st) (ev : RunEv) :
    RunInv tasks workers (st.step ev) := by
  obtain ⟨ha, hb, hc, hd⟩ := h
  cases ev with
  | cancel => exact ⟨ha, hb, hc, hd⟩
  | push =>
    simp only [RunSt.step]
    split
    · rename_i hcond
      simp only [Bool.and_eq_true, Bool.not_eq_true', decide_eq_true_eq] at hcond
      split
      · rename_i t r hp
        refine ⟨?_, ?_, ?_, hd⟩
        · intro h1 _; simpa [List.isEmpty_iff] using h1
        · rcases hb with hb | hb | hb
          · exact .inl hb
          · exact .inr (.inl hb)
          · refine .inr (.inr fun u hu => ?_)
            rcases hb u hu with h1 | h1 | h1
            · exact .inl h1
            · exact .inr (.inl (List.mem_append_left _ h1))
            · rw [hp] at h1
              rcases List.mem_cons.mp h1 with rfl | h2
              · exact .inr (.inl (List.mem_append_right _ (by simp)))
              · exact .inr (.inr h2)
        · intro hk
          have := (hc hk).1
          rw [hcond.1] at this; cases this
      · exact ⟨ha, hb, hc, hd⟩
    · exact ⟨ha, hb, hc, hd⟩
  | abandon =>
    simp only [RunSt.step]
    split
    · rename_i hcond
      simp only [Bool.and_eq_true, Bool.not_eq_true'] at hcond
      refine ⟨fun _ _ => rfl, .inr (.inl rfl), ?_, hd⟩
      intro hk
      have := (hc hk).1
      rw [hcond.2] at this; cases this
    · exact ⟨ha, hb, hc, hd⟩
  | pull =>
    simp only [RunSt.step]
    split
    · exact ⟨ha, hb, hc, hd⟩
    · rename_i hidle
      split
      · rename_i t q hq
        split
        · -- discarded under cancellation: the worker keeps ctx.Err()
          refine ⟨ha, .inl (Nat.succ_pos _), ?_, by simp only; omega⟩
          intro hk
          have := (hc hk).2
          rw [hq] at this; cases this
        · refine ⟨ha, ?_, ?_, by simp only; omega⟩
          · rcases hb with hb | hb | hb
            · exact .inl hb
            · exact .inr (.inl hb)
            · refine .inr (.inr fun u hu => ?_)
              rcases hb u hu with h1 | h1 | h1
              · exact .inl (List.mem_append_left _ h1)
              · rw [hq] at h1
                rcases List.mem_cons.mp h1 with rfl | h2
                · exact .inl (List.mem_append_right _ (by simp))
                · exact .inr (.inl h2)
              · exact .inr (.inr h1)
          · intro hk
            have := (hc hk).2
            rw [hq] at this; cases this
      · rename_i hq
        split
        · rename_i hcl
          refine ⟨ha, ?_, fun _ => ⟨hcl, hq⟩, by simp only; omega⟩
          simpa [hq] using hb
        · exact ⟨ha, hb, hc, hd⟩
  | finish fail =>
    simp only [RunSt.step]
    split
    · exact ⟨ha, hb, hc, hd⟩
    · split
      · exact ⟨ha, .inl (Nat.succ_pos _), hc, by simp only; omega⟩
      · exact ⟨ha, hb, hc, by simp only; omega⟩

theorem runInv_run {tasks : List Task} {workers : Nat} (sched : List RunEv) :
    ∀ {st : RunSt}, RunInv tasks workers st → RunInv tasks workers (st.run sched) := by
  induction sched with
  | nil => intro st h; exact h
  | cons ev r ih => intro st h; exact ih (runInv_step h ev)


/-- after a cancellation that found a sub-range in the channel: an error is recorded, or the sub-range is still there -/
theorem queued_step {st : RunSt} (h : 0 < st.errExit ∨ (st.queue ≠ [] ∧ st.cancelled = true)) (ev : RunEv) :
    0 < (st.step ev).errExit ∨ ((st.step ev).queue ≠ [] ∧ (st.step ev).cancelled = true) := by
  cases ev with
  | cancel => rcases h with h | h; exact .inl h; exact .inr ⟨h.1, rfl⟩
  | push =>
    simp only [RunSt.step]
    split
    · split
      · rcases h with h | h
        · exact .inl h
        · exact .inr ⟨by simp, h.2⟩
      · exact h
    · exact h
  | abandon =>
    simp only [RunSt.step]
    split
    · rcases h with h | h; exact .inl h; exact .inr h
    · exact h
  | pull =>
    simp only [RunSt.step]
    split
    · exact h
    · split
      · split
        · exact .inl (Nat.succ_pos _)
        · rename_i hq hc
          rcases h with h | h
          · exact .inl h
          · exact absurd h.2 hc
      · rename_i hq
        rcases h with h | h
        · split
          · exact .inl h
          · exact .inl h
        · exact absurd hq h.1
  | finish fail =>
    simp only [RunSt.step]
    split
    · exact h
    · split
      · exact .inl (Nat.succ_pos _)
      · rcases h with h | h; exact .inl h; exact .inr h

theorem queued_run (sched : List RunEv) :
    ∀ {st : RunSt}, (0 < st.errExit ∨ (st.queue ≠ [] ∧ st.cancelled = true)) →
      (0 < (st.run sched).errExit ∨ ((st.run sched).queue ≠ [] ∧ (st.run sched).cancelled = true)) := by
  induction sched with
  | nil => intro st h; exact h
  | cons ev r ih => intro st h; exact ih (queued_step h ev)

end CGV.RangeTask
