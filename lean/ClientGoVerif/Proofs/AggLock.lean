/-
  Proofs about Model/AggLock.lean: the no-leak invariant of the client-side lock bookkeeping, for all op sequences of
  the admissible fragment, and its failure outside the fragment (concrete witness sequences).
-/
import ClientGoVerif.Model.AggLock
namespace CGV.AggLock

/-! ### lists -/

theorem mem_minus {a b : List Key} {k : Key} : k ∈ minus a b ↔ k ∈ a ∧ k ∉ b := by
  simp [minus, List.mem_filter]

theorem mem_keysOf {l : List Entry} {k : Key} : k ∈ keysOf l ↔ ∃ e ∈ l, e.key = k := by
  simp [keysOf, List.mem_map]

theorem mem_fkeys {l : List (Key × Bool)} {k : Key} : k ∈ fkeys l ↔ ∃ e ∈ l, e.1 = k := by
  simp [fkeys, List.mem_map]

theorem length_eraseE_le (l : List Entry) (k : Key) : (eraseE l k).length ≤ l.length :=
  List.length_filter_le _ _

theorem length_eraseF_le (l : List (Key × Bool)) (k : Key) : (eraseF l k).length ≤ l.length :=
  List.length_filter_le _ _

theorem length_eraseAllE_le (l : List Entry) (ks : List Key) : (eraseAllE l ks).length ≤ l.length :=
  List.length_filter_le _ _

theorem mem_keysOf_eraseE {l : List Entry} {x k : Key} : k ∈ keysOf (eraseE l x) ↔ k ∈ keysOf l ∧ k ≠ x := by
  simp only [mem_keysOf, eraseE, List.mem_filter]
  constructor
  · rintro ⟨e, ⟨he, hne⟩, rfl⟩
    exact ⟨⟨e, he, rfl⟩, by simpa using hne⟩
  · rintro ⟨⟨e, he, rfl⟩, hne⟩
    exact ⟨e, ⟨he, by simpa using hne⟩, rfl⟩

theorem mem_fkeys_eraseF {l : List (Key × Bool)} {x k : Key} : k ∈ fkeys (eraseF l x) ↔ k ∈ fkeys l ∧ k ≠ x := by
  simp only [mem_fkeys, eraseF, List.mem_filter]
  constructor
  · rintro ⟨e, ⟨he, hne⟩, rfl⟩
    exact ⟨⟨e, he, rfl⟩, by simpa using hne⟩
  · rintro ⟨⟨e, he, rfl⟩, hne⟩
    exact ⟨e, ⟨he, by simpa using hne⟩, rfl⟩

theorem mem_keysOf_eraseAllE {l : List Entry} {ks : List Key} {k : Key} :
    k ∈ keysOf (eraseAllE l ks) ↔ k ∈ keysOf l ∧ k ∉ ks := by
  simp only [mem_keysOf, eraseAllE, List.mem_filter]
  constructor
  · rintro ⟨e, ⟨he, hne⟩, rfl⟩
    exact ⟨⟨e, he, rfl⟩, by simpa using hne⟩
  · rintro ⟨⟨e, he, rfl⟩, hne⟩
    exact ⟨e, ⟨he, by simpa using hne⟩, rfl⟩

theorem mem_keysOf_upsertE {l : List Entry} {e : Entry} {k : Key} :
    k ∈ keysOf (upsertE l e) ↔ k = e.key ∨ k ∈ keysOf l := by
  have h : keysOf (upsertE l e) = e.key :: keysOf (eraseE l e.key) := rfl
  rw [h, List.mem_cons, mem_keysOf_eraseE]
  constructor
  · rintro (h | ⟨h, _⟩)
    · exact Or.inl h
    · exact Or.inr h
  · rintro (h | h)
    · exact Or.inl h
    · by_cases hk : k = e.key
      · exact Or.inl hk
      · exact Or.inr ⟨h, hk⟩

theorem mem_fkeys_upsertF {l : List (Key × Bool)} {e : Key × Bool} {k : Key} :
    k ∈ fkeys (upsertF l e) ↔ k = e.1 ∨ k ∈ fkeys l := by
  have h : fkeys (upsertF l e) = e.1 :: fkeys (eraseF l e.1) := rfl
  rw [h, List.mem_cons, mem_fkeys_eraseF]
  constructor
  · rintro (h | ⟨h, _⟩)
    · exact Or.inl h
    · exact Or.inr h
  · rintro (h | h)
    · exact Or.inl h
    · by_cases hk : k = e.1
      · exact Or.inl hk
      · exact Or.inr ⟨h, hk⟩

theorem length_upsertE_le (l : List Entry) (e : Entry) : (upsertE l e).length ≤ l.length + 1 := by
  have := length_eraseE_le l e.key
  simp only [upsertE, List.length_cons]
  omega

theorem length_upsertF_le (l : List (Key × Bool)) (e : Key × Bool) : (upsertF l e).length ≤ l.length + 1 := by
  have := length_eraseF_le l e.1
  simp only [upsertF, List.length_cons]
  omega

theorem findE_some {l : List Entry} {k : Key} {e : Entry} (h : findE l k = some e) : e ∈ l ∧ e.key = k := by
  refine ⟨List.mem_of_find?_eq_some h, ?_⟩
  have := List.find?_some h
  simpa using this

theorem findE_some_mem_keysOf {l : List Entry} {k : Key} {e : Entry} (h : findE l k = some e) : k ∈ keysOf l :=
  mem_keysOf.2 ⟨e, (findE_some h).1, (findE_some h).2⟩

/-- flagAll: every old flagged key and every key of the entries is flagged afterwards; the list grows by at most the entries -/
theorem flagAll_spec (es : List Entry) : ∀ (f : List (Key × Bool)),
    (∀ k, k ∈ fkeys f → k ∈ fkeys (flagAll f es)) ∧ (∀ k, k ∈ keysOf es → k ∈ fkeys (flagAll f es)) ∧
    (flagAll f es).length ≤ f.length + es.length := by
  induction es with
  | nil => intro f; exact ⟨fun _ h => h, fun k h => by simp [keysOf] at h, by simp [flagAll]⟩
  | cons e es ih =>
    intro f
    have hstep : flagAll f (e :: es) = flagAll (upsertF f (e.key, entryValExists e)) es := rfl
    obtain ⟨h1, h2, h3⟩ := ih (upsertF f (e.key, entryValExists e))
    rw [hstep]
    refine ⟨fun k hk => h1 k (mem_fkeys_upsertF.2 (Or.inr hk)), ?_, ?_⟩
    · intro k hk
      have : k = e.key ∨ k ∈ keysOf es := by simpa [keysOf] using hk
      rcases this with h | h
      · exact h1 k (mem_fkeys_upsertF.2 (Or.inl h))
      · exact h2 k h
    · have := length_upsertF_le f (e.key, entryValExists e)
      simp only [List.length_cons]
      omega

theorem eq_nil_of_forall_not_mem {l : List Key} (h : ∀ k, k ∈ l → False) : l = [] := by
  cases l with
  | nil => rfl
  | cons a t => exact (h a (List.mem_cons_self ..)).elim

/-! ### the invariant -/

/-- what the client-side bookkeeping guarantees between two ops:
    * `sub`: every lock the store holds is one the client will still release;
    * `cnt`: lockedCnt does not under-count (Rollback skips the release when it is 0);
    * `nag`: outside aggressive locking both buffers are empty;
    * `cls`: once the transaction is over the store holds nothing. -/
structure Inv (s : State) : Prop where
  sub : ∀ k, k ∈ s.store → k ∈ tracked s
  cnt : ((s.current.length + s.lastRetry.length + s.flagged.length : Nat) : Int) ≤ s.lockedCnt
  nag : s.inAgg = false → s.current = [] ∧ s.lastRetry = []
  cls : s.closed = true → s.store = []

theorem mem_tracked {s : State} {k : Key} :
    k ∈ tracked s ↔ k ∈ keysOf s.current ∨ k ∈ keysOf s.lastRetry ∨ k ∈ fkeys s.flagged := by
  simp [tracked, List.mem_append]

/-- the invariant only reads these seven fields -/
theorem Inv.of_eq {s s' : State} (h : Inv s) (h1 : s'.store = s.store) (h2 : s'.current = s.current)
    (h3 : s'.lastRetry = s.lastRetry) (h4 : s'.flagged = s.flagged) (h5 : s'.lockedCnt = s.lockedCnt)
    (h6 : s'.inAgg = s.inAgg) (h7 : s'.closed = s.closed) : Inv s' := by
  have ht : tracked s' = tracked s := by simp [tracked, h2, h3, h4]
  exact ⟨by rw [h1, ht]; exact h.sub, by rw [h2, h3, h4, h5]; exact h.cnt, by rw [h6, h2, h3]; exact h.nag,
         by rw [h7, h1]; exact h.cls⟩

theorem init_inv : Inv init := ⟨by simp [init], by simp [init], by simp [init], by simp [init]⟩

/-! ### start / retry / cancel / done -/

section fields
variable (s : State)
@[simp] theorem cleanup_store : (cleanup s).store = minus s.store (keysOf s.lastRetry) := rfl
@[simp] theorem cleanup_current : (cleanup s).current = s.current := rfl
@[simp] theorem cleanup_lastRetry : (cleanup s).lastRetry = s.lastRetry := rfl
@[simp] theorem cleanup_flagged : (cleanup s).flagged = s.flagged := rfl
@[simp] theorem cleanup_cnt : (cleanup s).lockedCnt = s.lockedCnt - s.lastRetry.length := rfl
@[simp] theorem cleanup_inAgg : (cleanup s).inAgg = s.inAgg := rfl
@[simp] theorem cleanup_closed : (cleanup s).closed = s.closed := rfl

@[simp] theorem retryPrim_store : (retryPrim s).store = s.store := by unfold retryPrim; split <;> rfl
@[simp] theorem retryPrim_current : (retryPrim s).current = s.current := by unfold retryPrim; split <;> rfl
@[simp] theorem retryPrim_lastRetry : (retryPrim s).lastRetry = s.lastRetry := by unfold retryPrim; split <;> rfl
@[simp] theorem retryPrim_flagged : (retryPrim s).flagged = s.flagged := by unfold retryPrim; split <;> rfl
@[simp] theorem retryPrim_cnt : (retryPrim s).lockedCnt = s.lockedCnt := by unfold retryPrim; split <;> rfl
@[simp] theorem retryPrim_inAgg : (retryPrim s).inAgg = s.inAgg := by unfold retryPrim; split <;> rfl
@[simp] theorem retryPrim_closed : (retryPrim s).closed = s.closed := by unfold retryPrim; split <;> rfl

@[simp] theorem cancelPrim_store : (cancelPrim s).store = s.store := by unfold cancelPrim; split <;> rfl
@[simp] theorem cancelPrim_current : (cancelPrim s).current = s.current := by unfold cancelPrim; split <;> rfl
@[simp] theorem cancelPrim_lastRetry : (cancelPrim s).lastRetry = s.lastRetry := by unfold cancelPrim; split <;> rfl
@[simp] theorem cancelPrim_flagged : (cancelPrim s).flagged = s.flagged := by unfold cancelPrim; split <;> rfl
@[simp] theorem cancelPrim_cnt : (cancelPrim s).lockedCnt = s.lockedCnt := by unfold cancelPrim; split <;> rfl
@[simp] theorem cancelPrim_inAgg : (cancelPrim s).inAgg = s.inAgg := by unfold cancelPrim; split <;> rfl
@[simp] theorem cancelPrim_closed : (cancelPrim s).closed = s.closed := by unfold cancelPrim; split <;> rfl
end fields

/-- after cleanupAggressiveLockingRedundantLocks the store's locks are in currentLockedKeys or flagged -/
theorem cleanup_sub {s : State} (h : Inv s) {k : Key} (hk : k ∈ minus s.store (keysOf s.lastRetry)) :
    k ∈ keysOf s.current ∨ k ∈ fkeys s.flagged := by
  obtain ⟨h1, h2⟩ := mem_minus.1 hk
  rcases mem_tracked.1 (h.sub k h1) with h | h | h
  · exact Or.inl h
  · exact (h2 h).elim
  · exact Or.inr h

theorem retryCore_inv {s : State} (h : Inv s) (ha : s.inAgg = true) : Inv (retryCore s) := by
  have hc := h.cnt
  refine ⟨?_, ?_, ?_, ?_⟩
  · intro k hk
    have hk' : k ∈ minus s.store (keysOf s.lastRetry) := by simpa [retryCore] using hk
    refine mem_tracked.2 ?_
    rcases cleanup_sub h hk' with h | h
    · exact Or.inr (Or.inl (by simpa [retryCore] using h))
    · exact Or.inr (Or.inr (by simpa [retryCore] using h))
  · simp only [retryCore, retryPrim_current, cleanup_current, retryPrim_flagged, cleanup_flagged, retryPrim_cnt,
      cleanup_cnt, List.length_nil]
    omega
  · intro hf
    simp [retryCore, ha] at hf
  · intro hcl
    have : s.closed = true := by simpa [retryCore] using hcl
    have hs := h.cls this
    simp [retryCore, hs, minus]

theorem doneCore_inv {s : State} (h : Inv s) : Inv (doneCore s) := by
  have hc := h.cnt
  obtain ⟨f1, f2, f3⟩ := flagAll_spec s.current s.flagged
  refine ⟨?_, ?_, ?_, ?_⟩
  · intro k hk
    have hk' : k ∈ minus s.store (keysOf s.lastRetry) := hk
    refine mem_tracked.2 (Or.inr (Or.inr ?_))
    show k ∈ fkeys (flagAll s.flagged s.current)
    rcases cleanup_sub h hk' with h | h
    · exact f2 k h
    · exact f1 k h
  · show ((([] : List Entry).length + ([] : List Entry).length + (flagAll s.flagged s.current).length : Nat) : Int)
        ≤ s.lockedCnt - s.lastRetry.length
    simp only [List.length_nil]
    omega
  · intro _; exact ⟨rfl, rfl⟩
  · intro hcl
    have : s.closed = true := hcl
    have hs := h.cls this
    show minus s.store (keysOf s.lastRetry) = []
    simp [hs, minus]

theorem doneCore_inAgg (s : State) : (doneCore s).inAgg = false := rfl
theorem doneCore_closed (s : State) : (doneCore s).closed = s.closed := rfl

theorem cancelCore_inv {s : State} (h : Inv s) : Inv (cancelCore s) := by
  have hc := h.cnt
  refine ⟨?_, ?_, ?_, ?_⟩
  · intro k hk
    have hk' : k ∈ minus (minus s.store (keysOf s.lastRetry)) (keysOf s.current) := by
      simpa [cancelCore, exitAgg] using hk
    obtain ⟨h1, h2⟩ := mem_minus.1 hk'
    refine mem_tracked.2 (Or.inr (Or.inr ?_))
    rcases cleanup_sub h h1 with h | h
    · exact (h2 h).elim
    · simpa [cancelCore, exitAgg] using h
  · simp only [cancelCore, exitAgg, cancelPrim_current, cleanup_current, cancelPrim_flagged, cleanup_flagged,
      cancelPrim_cnt, cleanup_cnt, List.length_nil]
    omega
  · intro _; exact ⟨rfl, rfl⟩
  · intro hcl
    have : s.closed = true := by simpa [cancelCore, exitAgg] using hcl
    have hs := h.cls this
    simp [cancelCore, exitAgg, hs, minus]

theorem cancelCore_inAgg (s : State) : (cancelCore s).inAgg = false := rfl
theorem cancelCore_closed (s : State) : (cancelCore s).closed = s.closed := by simp [cancelCore, exitAgg]

theorem startStep_inv {s : State} (h : Inv s) : Inv (startStep s) := by
  unfold startStep
  split
  · exact h.of_eq rfl rfl rfl rfl rfl rfl rfl
  · rename_i hn
    have hf : s.inAgg = false := by simpa using hn
    obtain ⟨h1, h2⟩ := h.nag hf
    refine ⟨?_, ?_, fun _ => ⟨rfl, rfl⟩, h.cls⟩
    · intro k hk
      have := h.sub k hk
      simpa [tracked, h1, h2] using this
    · have := h.cnt
      simpa [h1, h2] using this

theorem retryStep_inv {s : State} (h : Inv s) : Inv (retryStep s) := by
  unfold retryStep
  split
  · rename_i ha; exact retryCore_inv h ha
  · exact h.of_eq rfl rfl rfl rfl rfl rfl rfl

theorem cancelStep_inv {s : State} (h : Inv s) : Inv (cancelStep s) := by
  unfold cancelStep
  split
  · exact cancelCore_inv h
  · exact h.of_eq rfl rfl rfl rfl rfl rfl rfl

theorem doneStep_inv {s : State} (h : Inv s) : Inv (doneStep s) := by
  unfold doneStep
  split
  · exact doneCore_inv h
  · exact h.of_eq rfl rfl rfl rfl rfl rfl rfl

/-! ### the end of the transaction -/

theorem releaseFlagged_inv {s : State} (h : Inv s) (ha : s.inAgg = false) :
    Inv (releaseFlagged s) ∧ (releaseFlagged s).store = [] ∧ (releaseFlagged s).closed = true := by
  obtain ⟨h1, h2⟩ := h.nag ha
  have hc := h.cnt
  have hsub : ∀ k, k ∈ s.store → k ∈ fkeys s.flagged := by
    intro k hk
    have := h.sub k hk
    simpa [tracked, h1, h2, keysOf] using this
  unfold releaseFlagged
  split
  · rename_i h0
    have hfl : s.flagged = [] := by
      rw [h0, h1, h2] at hc
      simp only [List.length_nil, Nat.zero_add] at hc
      exact List.eq_nil_of_length_eq_zero (by omega)
    have hst : s.store = [] := eq_nil_of_forall_not_mem fun k hk => by
      have := hsub k hk
      simp [hfl, fkeys] at this
    exact ⟨⟨fun k hk => by simp [hst] at hk, h.cnt, h.nag, fun _ => hst⟩, hst, rfl⟩
  · have hst : minus s.store (fkeys s.flagged) = [] := eq_nil_of_forall_not_mem fun k hk => by
      obtain ⟨a, b⟩ := mem_minus.1 hk
      exact b (hsub k a)
    exact ⟨⟨fun k hk => by simp [hst] at hk, h.cnt, h.nag, fun _ => hst⟩, hst, rfl⟩

theorem commitFlagged_inv {s : State} (h : Inv s) (ha : s.inAgg = false) :
    Inv (commitFlagged s) ∧ (commitFlagged s).store = [] ∧ (commitFlagged s).closed = true := by
  obtain ⟨h1, h2⟩ := h.nag ha
  have hsub : ∀ k, k ∈ s.store → k ∈ fkeys s.flagged := by
    intro k hk
    have := h.sub k hk
    simpa [tracked, h1, h2, keysOf] using this
  have hst : minus s.store (fkeys s.flagged) = [] := eq_nil_of_forall_not_mem fun k hk => by
    obtain ⟨a, b⟩ := mem_minus.1 hk
    exact b (hsub k a)
  exact ⟨⟨fun k hk => by simp [commitFlagged, hst] at hk, h.cnt, h.nag, fun _ => hst⟩, hst, rfl⟩

theorem rollbackStep_inv {s : State} (h : Inv s) (hok : endOk s = true) :
    Inv (rollbackStep s) ∧ (rollbackStep s).store = [] ∧ (rollbackStep s).closed = true := by
  unfold rollbackStep
  split
  · rename_i ha
    split
    · exact releaseFlagged_inv (cancelCore_inv h) (cancelCore_inAgg s)
    · rename_i hne
      simp [endOk, ha, hne] at hok
  · rename_i ha
    exact releaseFlagged_inv h (by simpa using ha)

theorem commitStep_inv {s : State} (h : Inv s) (hok : endOk s = true) :
    Inv (commitStep s) ∧ (commitStep s).store = [] ∧ (commitStep s).closed = true := by
  unfold commitStep
  split
  · rename_i ha
    split
    · exact commitFlagged_inv (cancelCore_inv h) (cancelCore_inAgg s)
    · rename_i hne
      simp [endOk, ha, hne] at hok
  · rename_i ha
    exact commitFlagged_inv h (by simpa using ha)

/-! ### lockKeys: the store's contract, the excluded situations -/

theorem ansOf_cases (i : LockIn) (k : Key) : ansOf i k ∈ i.ans ∨ ansOf i k = { key := k } := by
  unfold ansOf
  split
  · rename_i a h; exact Or.inl (List.mem_of_find?_eq_some h)
  · exact Or.inr rfl

theorem wf_loie {i : LockIn} (h : wfLock i = true) (k : Key) (ha : (ansOf i k).acq = true) : skipKey i k = false := by
  rcases ansOf_cases i k with hm | hd
  · simp only [wfLock, Bool.and_eq_true, List.all_eq_true] at h
    have := (h.1 _ hm)
    simp only [Bool.or_eq_true, Bool.not_eq_true'] at this
    rcases this.1 with h1 | h1
    · simp only [skipKey, valExists, hasEntry]
      cases hl : i.o.loie <;> cases he : (ansOf i k).exist <;> simp_all
    · rw [ha] at h1; cases h1
  · rw [hd] at ha; cases ha

theorem wf_lwc {i : LockIn} (h : wfLock i = true) (k : Key) : (ansOf i k).lwc = 0 ∨ i.fu < (ansOf i k).lwc := by
  rcases ansOf_cases i k with hm | hd
  · simp only [wfLock, Bool.and_eq_true, List.all_eq_true] at h
    have := (h.1 _ hm)
    simp only [Bool.or_eq_true, beq_iff_eq, decide_eq_true_eq] at this
    exact this.2
  · rw [hd]; exact Or.inl rfl

theorem wf_fail {i : LockIn} (h : wfLock i = true) {e : Err} (he : i.err = some e) (hwk : e = .wc ∨ e = .ke) (k : Key) :
    (ansOf i k).acq = false := by
  rcases ansOf_cases i k with hm | hd
  · simp only [wfLock, Bool.and_eq_true] at h
    have h2 := h.2
    rw [he] at h2
    rcases hwk with rfl | rfl <;>
    · simp only [List.all_eq_true, Bool.not_eq_true'] at h2
      exact h2 _ hm
  · rw [hd]

/-! ### lockKeys: recording the locked keys -/

theorem recordKey_spec (i : LockIn) (s : State) (k : Key) :
    (recordKey i s k).store = s.store ∧ (recordKey i s k).lastRetry = s.lastRetry ∧
    (recordKey i s k).lockedCnt = s.lockedCnt ∧ (recordKey i s k).inAgg = s.inAgg ∧
    (recordKey i s k).closed = s.closed ∧
    (∀ x, x ∈ keysOf s.current → x ∈ keysOf (recordKey i s k).current) ∧
    (∀ x, x ∈ fkeys s.flagged → x ∈ fkeys (recordKey i s k).flagged) ∧
    (s.inAgg = false → (recordKey i s k).current = s.current) ∧
    (skipKey i k = false → k ∈ keysOf (recordKey i s k).current ∨ k ∈ fkeys (recordKey i s k).flagged) ∧
    (recordKey i s k).current.length + (recordKey i s k).flagged.length + (if skipKey i k then 1 else 0)
      ≤ s.current.length + s.flagged.length + 1 := by
  unfold recordKey
  by_cases hs : skipKey i k = true
  · simp [hs]
  · have hs' : skipKey i k = false := by simpa using hs
    by_cases ha : s.inAgg = true
    · rw [if_neg hs, if_pos ha, if_neg (by simp [hs'])]
      refine ⟨rfl, rfl, rfl, rfl, rfl, fun x hx => mem_keysOf_upsertE.2 (Or.inr hx), fun x hx => hx, ?_, ?_, ?_⟩
      · intro h; rw [ha] at h; cases h
      · intro _; exact Or.inl (mem_keysOf_upsertE.2 (Or.inl rfl))
      · have := length_upsertE_le s.current (mkEntry i (ansOf i k) k)
        show (upsertE s.current (mkEntry i (ansOf i k) k)).length + s.flagged.length + 0 ≤ _
        omega
    · have ha' : s.inAgg = false := by simpa using ha
      rw [if_neg hs, if_neg ha, if_neg (by simp [hs'])]
      refine ⟨rfl, rfl, rfl, rfl, rfl, fun x hx => hx, fun x hx => mem_fkeys_upsertF.2 (Or.inr hx), fun _ => rfl, ?_, ?_⟩
      · intro _; exact Or.inr (mem_fkeys_upsertF.2 (Or.inl rfl))
      · have := length_upsertF_le s.flagged (k, valExists i (ansOf i k))
        show s.current.length + (upsertF s.flagged (k, valExists i (ansOf i k))).length + 0 ≤ _
        omega

theorem recordAll_spec (i : LockIn) (keys : List Key) : ∀ (s : State),
    (keys.foldl (recordKey i) s).store = s.store ∧ (keys.foldl (recordKey i) s).lastRetry = s.lastRetry ∧
    (keys.foldl (recordKey i) s).lockedCnt = s.lockedCnt ∧ (keys.foldl (recordKey i) s).inAgg = s.inAgg ∧
    (keys.foldl (recordKey i) s).closed = s.closed ∧
    (∀ x, x ∈ keysOf s.current → x ∈ keysOf (keys.foldl (recordKey i) s).current) ∧
    (∀ x, x ∈ fkeys s.flagged → x ∈ fkeys (keys.foldl (recordKey i) s).flagged) ∧
    (s.inAgg = false → (keys.foldl (recordKey i) s).current = s.current) ∧
    (∀ k, k ∈ keys → skipKey i k = false →
      k ∈ keysOf (keys.foldl (recordKey i) s).current ∨ k ∈ fkeys (keys.foldl (recordKey i) s).flagged) ∧
    (keys.foldl (recordKey i) s).current.length + (keys.foldl (recordKey i) s).flagged.length
        + (keys.filter (skipKey i)).length ≤ s.current.length + s.flagged.length + keys.length := by
  induction keys with
  | nil => intro s; simp
  | cons k ks ih =>
    intro s
    obtain ⟨a1, a2, a3, a4, a5, a6, a7, a8, a9, a10⟩ := recordKey_spec i s k
    obtain ⟨b1, b2, b3, b4, b5, b6, b7, b8, b9, b10⟩ := ih (recordKey i s k)
    simp only [List.foldl_cons]
    refine ⟨b1.trans a1, b2.trans a2, b3.trans a3, b4.trans a4, b5.trans a5, fun x hx => b6 x (a6 x hx),
      fun x hx => b7 x (a7 x hx), fun h => (b8 (a4.trans h)).trans (a8 h), ?_, ?_⟩
    · intro x hx hsk
      rcases List.mem_cons.1 hx with rfl | hx
      · rcases a9 hsk with h | h
        · exact Or.inl (b6 _ h)
        · exact Or.inr (b7 _ h)
      · exact b9 x hx hsk
    · by_cases hs : skipKey i k = true
      · simp only [List.filter_cons, hs, if_true, List.length_cons] at a10 ⊢
        omega
      · have hs' : skipKey i k = false := by simpa using hs
        simp only [List.filter_cons, hs', Bool.false_eq_true, if_false, List.length_cons] at a10 ⊢
        omega

@[simp] theorem unsetPrimary_store (s : State) (i : LockIn) : (unsetPrimary s i).store = s.store := by
  unfold unsetPrimary; split <;> (try split) <;> rfl
@[simp] theorem unsetPrimary_current (s : State) (i : LockIn) : (unsetPrimary s i).current = s.current := by
  unfold unsetPrimary; split <;> (try split) <;> rfl
@[simp] theorem unsetPrimary_lastRetry (s : State) (i : LockIn) : (unsetPrimary s i).lastRetry = s.lastRetry := by
  unfold unsetPrimary; split <;> (try split) <;> rfl
@[simp] theorem unsetPrimary_flagged (s : State) (i : LockIn) : (unsetPrimary s i).flagged = s.flagged := by
  unfold unsetPrimary; split <;> (try split) <;> rfl
@[simp] theorem unsetPrimary_cnt (s : State) (i : LockIn) : (unsetPrimary s i).lockedCnt = s.lockedCnt := by
  unfold unsetPrimary; split <;> (try split) <;> rfl
@[simp] theorem unsetPrimary_inAgg (s : State) (i : LockIn) : (unsetPrimary s i).inAgg = s.inAgg := by
  unfold unsetPrimary; split <;> (try split) <;> rfl
@[simp] theorem unsetPrimary_closed (s : State) (i : LockIn) : (unsetPrimary s i).closed = s.closed := by
  unfold unsetPrimary; split <;> (try split) <;> rfl

/-- the state the recording loop of a successful call starts from -/
def okStart (s : State) (i : LockIn) (al : Bool) : State := if al && i.o.loie then unsetPrimary s i else s

@[simp] theorem okStart_store (s : State) (i : LockIn) (al : Bool) : (okStart s i al).store = s.store := by
  unfold okStart; split <;> simp
@[simp] theorem okStart_current (s : State) (i : LockIn) (al : Bool) : (okStart s i al).current = s.current := by
  unfold okStart; split <;> simp
@[simp] theorem okStart_lastRetry (s : State) (i : LockIn) (al : Bool) : (okStart s i al).lastRetry = s.lastRetry := by
  unfold okStart; split <;> simp
@[simp] theorem okStart_flagged (s : State) (i : LockIn) (al : Bool) : (okStart s i al).flagged = s.flagged := by
  unfold okStart; split <;> simp
@[simp] theorem okStart_cnt (s : State) (i : LockIn) (al : Bool) : (okStart s i al).lockedCnt = s.lockedCnt := by
  unfold okStart; split <;> simp
@[simp] theorem okStart_inAgg (s : State) (i : LockIn) (al : Bool) : (okStart s i al).inAgg = s.inAgg := by
  unfold okStart; split <;> simp
@[simp] theorem okStart_closed (s : State) (i : LockIn) (al : Bool) : (okStart s i al).closed = s.closed := by
  unfold okStart; split <;> simp

theorem lwcErr_false {s : State} {i : LockIn} (h : wfLock i = true) (keys : List Key) : lwcErr s i keys = false := by
  unfold lwcErr
  cases s.inAgg with
  | false => rfl
  | true =>
    simp only [Bool.true_and]
    cases hany : keys.any fun k => !skipKey i k && (ansOf i k).lwc != 0 && decide ((ansOf i k).lwc ≤ i.fu) with
    | false => rfl
    | true =>
      obtain ⟨k, _, hk⟩ := List.any_eq_true.1 hany
      simp only [Bool.and_eq_true, bne_iff_ne, ne_eq, decide_eq_true_eq] at hk
      rcases wf_lwc h k with h0 | h0
      · exact (hk.1.2 h0).elim
      · omega

/-- a successful request: every key of the request that is not skipped is recorded, nothing else moves -/
theorem lockOk_inv {s : State} {i : LockIn} {keys : List Key} {al : Bool}
    (hsub : ∀ x, x ∈ s.store → x ∈ tracked s ∨ (x ∈ keys ∧ skipKey i x = false))
    (hcnt : ((s.current.length + s.lastRetry.length + s.flagged.length : Nat) : Int) ≤ s.lockedCnt)
    (hnag : s.inAgg = false → s.current = [] ∧ s.lastRetry = []) (hcl : s.closed = false)
    (hwf : wfLock i = true) : Inv (lockOk s i keys al) := by
  obtain ⟨b1, b2, b3, b4, b5, b6, b7, b8, b9, b10⟩ := recordAll_spec i keys (okStart s i al)
  simp only [okStart_store, okStart_current, okStart_lastRetry, okStart_flagged, okStart_cnt, okStart_inAgg,
    okStart_closed] at b1 b2 b3 b4 b5 b6 b7 b8 b9 b10
  have hfold : lockOk s i keys al =
      { (keys.foldl (recordKey i) (okStart s i al)) with
        lockedCnt := (keys.foldl (recordKey i) (okStart s i al)).lockedCnt
          + ((keys.length : Int) - ((keys.filter (skipKey i)).length : Int)) } := by
    unfold lockOk
    simp only [lwcErr_false hwf, Bool.false_eq_true, if_false]
    rfl
  rw [hfold]
  refine ⟨?_, ?_, ?_, ?_⟩
  · intro x hx
    have hx' : x ∈ s.store := by rw [← b1]; exact hx
    refine mem_tracked.2 ?_
    rcases hsub x hx' with h | ⟨h1, h2⟩
    · rcases mem_tracked.1 h with h | h | h
      · exact Or.inl (b6 x h)
      · exact Or.inr (Or.inl (by show x ∈ keysOf (keys.foldl (recordKey i) (okStart s i al)).lastRetry; rw [b2]; exact h))
      · exact Or.inr (Or.inr (b7 x h))
    · rcases b9 x h1 h2 with h | h
      · exact Or.inl h
      · exact Or.inr (Or.inr h)
  · show (((keys.foldl (recordKey i) (okStart s i al)).current.length
        + (keys.foldl (recordKey i) (okStart s i al)).lastRetry.length
        + (keys.foldl (recordKey i) (okStart s i al)).flagged.length : Nat) : Int)
        ≤ (keys.foldl (recordKey i) (okStart s i al)).lockedCnt
          + ((keys.length : Int) - ((keys.filter (skipKey i)).length : Int))
    rw [b2, b3]
    omega
  · intro hf
    have hf' : s.inAgg = false := by rw [← b4]; exact hf
    obtain ⟨h1, h2⟩ := hnag hf'
    exact ⟨(b8 hf').trans h1, b2.trans h2⟩
  · intro hc
    have : s.closed = true := by rw [← b5]; exact hc
    rw [hcl] at this; cases this

/-! ### lockKeys: a failed request -/

theorem lockFail_store (s : State) (keys : List Key) (al : Bool) (e : Err) :
    (lockFail s keys al e).store = if needRollback keys e then minus s.store keys else s.store := by
  unfold lockFail unmark rollbackCall; split <;> split <;> rfl
theorem lockFail_current (s : State) (keys : List Key) (al : Bool) (e : Err) :
    (lockFail s keys al e).current =
      if needRollback keys e then (if s.inAgg then eraseAllE s.current keys else s.current) else s.current := by
  unfold lockFail unmark rollbackCall; split <;> split <;> rfl
theorem lockFail_lastRetry (s : State) (keys : List Key) (al : Bool) (e : Err) :
    (lockFail s keys al e).lastRetry = s.lastRetry := by
  unfold lockFail unmark rollbackCall; split <;> split <;> rfl
theorem lockFail_flagged (s : State) (keys : List Key) (al : Bool) (e : Err) :
    (lockFail s keys al e).flagged = s.flagged := by
  unfold lockFail unmark rollbackCall; split <;> split <;> rfl
theorem lockFail_cnt (s : State) (keys : List Key) (al : Bool) (e : Err) :
    (lockFail s keys al e).lockedCnt = s.lockedCnt := by
  unfold lockFail unmark rollbackCall; split <;> split <;> rfl
theorem lockFail_inAgg (s : State) (keys : List Key) (al : Bool) (e : Err) :
    (lockFail s keys al e).inAgg = s.inAgg := by
  unfold lockFail unmark rollbackCall; split <;> split <;> rfl
theorem lockFail_closed (s : State) (keys : List Key) (al : Bool) (e : Err) :
    (lockFail s keys al e).closed = s.closed := by
  unfold lockFail unmark rollbackCall; split <;> split <;> rfl

/-- a failed request: either all keys of the call are rolled back and leave currentLockedKeys, or nothing moves -/
theorem lockFail_inv {s : State} {keys : List Key} {al : Bool} {e : Err}
    (hsub : ∀ x, x ∈ s.store → x ∈ tracked s ∨ (x ∈ keys ∧ needRollback keys e = true))
    (hcnt : ((s.current.length + s.lastRetry.length + s.flagged.length : Nat) : Int) ≤ s.lockedCnt)
    (hnag : s.inAgg = false → s.current = [] ∧ s.lastRetry = []) (hcl : s.closed = false) :
    Inv (lockFail s keys al e) := by
  refine ⟨?_, ?_, ?_, ?_⟩
  · intro x hx
    rw [lockFail_store] at hx
    refine mem_tracked.2 ?_
    rw [lockFail_current, lockFail_lastRetry, lockFail_flagged]
    by_cases hr : needRollback keys e = true
    · rw [if_pos hr] at hx ⊢
      obtain ⟨h1, h2⟩ := mem_minus.1 hx
      rcases hsub x h1 with h | ⟨h, _⟩
      · rcases mem_tracked.1 h with h | h | h
        · refine Or.inl ?_
          split
          · exact mem_keysOf_eraseAllE.2 ⟨h, h2⟩
          · exact h
        · exact Or.inr (Or.inl h)
        · exact Or.inr (Or.inr h)
      · exact (h2 h).elim
    · rw [if_neg hr] at hx ⊢
      rcases hsub x hx with h | ⟨_, h⟩
      · exact mem_tracked.1 h
      · exact (hr h).elim
  · rw [lockFail_current, lockFail_lastRetry, lockFail_flagged, lockFail_cnt]
    have := length_eraseAllE_le s.current keys
    split
    · split <;> omega
    · exact hcnt
  · intro hf
    rw [lockFail_inAgg] at hf
    obtain ⟨h1, h2⟩ := hnag hf
    rw [lockFail_current, lockFail_lastRetry, hf]
    refine ⟨?_, h2⟩
    split
    · simpa using h1
    · exact h1
  · intro hc
    rw [lockFail_closed, hcl] at hc; cases hc

theorem needRollback_false {keys : List Key} {e : Err} (h : ¬ needRollback keys e = true) : e = .wc ∨ e = .ke := by
  unfold needRollback at h
  cases e <;> simp_all

/-! ### lockKeys: the request -/

/-- a key of the request is `covered` if the call's way out takes care of it: on success it is not skipped (so it is
    recorded), on failure the call's keys are rolled back -/
def covered (i : LockIn) (keys : List Key) (x : Key) : Prop :=
  x ∈ keys ∧ match i.err with
    | none => skipKey i x = false
    | some e => needRollback keys e = true

theorem lockSend_inv {s : State} {i : LockIn} {keys : List Key} {al : Bool}
    (hsub : ∀ x, x ∈ s.store → x ∈ tracked s ∨ covered i keys x)
    (hcnt : ((s.current.length + s.lastRetry.length + s.flagged.length : Nat) : Int) ≤ s.lockedCnt)
    (hnag : s.inAgg = false → s.current = [] ∧ s.lastRetry = []) (hcl : s.closed = false)
    (hwf : wfLock i = true) : Inv (lockSend s i keys al) := by
  unfold lockSend
  cases herr : i.err with
  | none =>
    refine lockOk_inv (s := { s with req := keys, store := s.store ++ keys.filter fun k => (ansOf i k).acq })
      ?_ hcnt hnag hcl hwf
    intro x hx
    rcases List.mem_append.1 hx with hx | hx
    · rcases hsub x hx with h | ⟨h1, h2⟩
      · exact Or.inl h
      · rw [herr] at h2; exact Or.inr ⟨h1, h2⟩
    · obtain ⟨h1, h2⟩ := List.mem_filter.1 hx
      exact Or.inr ⟨h1, wf_loie hwf x h2⟩
  | some e =>
    refine lockFail_inv (s := { s with req := keys, store := s.store ++ keys.filter fun k => (ansOf i k).acq })
      ?_ hcnt hnag hcl
    intro x hx
    rcases List.mem_append.1 hx with hx | hx
    · rcases hsub x hx with h | ⟨h1, h2⟩
      · exact Or.inl h
      · rw [herr] at h2; exact Or.inr ⟨h1, h2⟩
    · obtain ⟨h1, h2⟩ := List.mem_filter.1 hx
      by_cases hr : needRollback keys e = true
      · exact Or.inr ⟨h1, hr⟩
      · have := wf_fail hwf herr (needRollback_false hr) x
        rw [this] at h2; cases h2

/-! ### lockKeys inside aggressive locking: filterAggressiveLockedKeys for the one key -/

theorem length_eraseE_lt {l : List Entry} {x : Key} (h : x ∈ keysOf l) : (eraseE l x).length < l.length := by
  induction l with
  | nil => simp [keysOf] at h
  | cons a t ih =>
    simp only [eraseE, List.filter_cons]
    by_cases ha : a.key = x
    · have hb : (a.key != x) = false := by simp [ha]
      rw [hb]
      simp only [Bool.false_eq_true, if_false, List.length_cons]
      have := List.length_filter_le (fun e : Entry => e.key != x) t
      omega
    · have hx : x ∈ keysOf t := by
        have : x = a.key ∨ x ∈ keysOf t := by simpa [keysOf] using h
        rcases this with h | h
        · exact (ha h.symm).elim
        · exact h
      have hb : (a.key != x) = true := by simp [ha]
      rw [hb]
      simp only [if_true, List.length_cons]
      have := ih hx
      simp only [eraseE] at this
      omega

theorem trySkip_key {e e' : Entry} {rv ce : Bool} (h : trySkip e rv ce = some e') : e'.key = e.key := by
  unfold trySkip at h
  split at h
  · cases h
  · injection h with h
    subst h
    split <;> split <;> rfl

theorem skipDecision_key {s : State} {e e' : Entry} {i : LockIn} (h : skipDecision s e i = some e') :
    e'.key = e.key := by
  unfold skipDecision at h
  split at h
  · exact trySkip_key h
  · cases h

theorem recordKey_skip {i : LockIn} {s : State} {k : Key} (h : skipKey i k = true) : recordKey i s k = s := by
  unfold recordKey; rw [if_pos h]

/-- a successful request for one key that is skipped moves nothing but the primary -/
theorem lockOk_single_skip {i : LockIn} {k : Key} {al : Bool} (hwf : wfLock i = true) (hsk : skipKey i k = true)
    (s1 : State) : lockOk s1 i [k] al =
      { okStart s1 i al with lockedCnt := (okStart s1 i al).lockedCnt
          + ((([k] : List Key).length : Int) - ((([k] : List Key).filter (skipKey i)).length : Int)) } := by
  unfold lockOk
  simp only [lwcErr_false hwf, Bool.false_eq_true, if_false, List.foldl_cons, List.foldl_nil]
  rw [recordKey_skip hsk]
  rfl

/-- putting an entry back into lastRetryUnnecessaryLocks re-establishes the invariant when its key was the only
    untracked lock and lockedCnt still counts it -/
theorem putBack_inv {r : State} {e : Entry} (hsub : ∀ x, x ∈ r.store → x ∈ tracked r ∨ x = e.key)
    (hcnt : ((r.current.length + r.lastRetry.length + r.flagged.length + 1 : Nat) : Int) ≤ r.lockedCnt)
    (ha : r.inAgg = true) (hcl : r.closed = false) : Inv { r with lastRetry := upsertE r.lastRetry e } := by
  refine ⟨?_, ?_, ?_, ?_⟩
  · intro x hx
    refine mem_tracked.2 ?_
    rcases hsub x hx with h | h
    · rcases mem_tracked.1 h with h | h | h
      · exact Or.inl h
      · exact Or.inr (Or.inl (mem_keysOf_upsertE.2 (Or.inr h)))
      · exact Or.inr (Or.inr h)
    · exact Or.inr (Or.inl (mem_keysOf_upsertE.2 (Or.inl h)))
  · have := length_upsertE_le r.lastRetry e
    show (((r.current.length + (upsertE r.lastRetry e).length + r.flagged.length : Nat)) : Int) ≤ r.lockedCnt
    omega
  · intro hf
    have : r.inAgg = false := hf
    rw [ha] at this; cases this
  · intro hc
    have : r.closed = true := hc
    rw [hcl] at this; cases this

/-- the re-request of a key taken out of lastRetryUnnecessaryLocks: registered, rolled back, or put back -/
theorem lockResend_inv {s : State} {i : LockIn} {k : Key} {al : Bool} {e : Entry} (hek : e.key = k)
    (hsub : ∀ x, x ∈ s.store → x ∈ tracked s ∨ x = k)
    (hcnt : ((s.current.length + s.lastRetry.length + s.flagged.length + 1 : Nat) : Int) ≤ s.lockedCnt)
    (ha : s.inAgg = true) (hcl : s.closed = false) (hwf : wfLock i = true) : Inv (lockResend s i k al e) := by
  have hcnt0 : ((s.current.length + s.lastRetry.length + s.flagged.length : Nat) : Int) ≤ s.lockedCnt := by omega
  have hnag : s.inAgg = false → s.current = [] ∧ s.lastRetry = [] := by
    intro hf; rw [ha] at hf; cases hf
  unfold lockResend
  cases herr : i.err with
  | none =>
    simp only []
    split
    · rename_i hsk
      -- skipped: nothing recorded, nothing rolled back — the entry goes back
      have hr : lockSend s i [k] al =
          lockOk { s with req := [k], store := s.store ++ [k].filter fun x => (ansOf i x).acq } i [k] al := by
        unfold lockSend; rw [herr]
      rw [hr, lockOk_single_skip hwf hsk]
      refine putBack_inv ?_ ?_ ?_ ?_
      · intro x hx
        have hx' : x ∈ s.store ++ [k].filter fun x => (ansOf i x).acq := by
          have := hx; simpa using this
        rcases List.mem_append.1 hx' with h | h
        · rcases hsub x h with h | h
          · left
            refine mem_tracked.2 ?_
            rcases mem_tracked.1 h with h | h | h
            · exact Or.inl (by simpa using h)
            · exact Or.inr (Or.inl (by simpa using h))
            · exact Or.inr (Or.inr (by simpa using h))
          · right; rw [hek]; exact h
        · right
          rw [hek]
          exact List.mem_singleton.1 (List.mem_filter.1 h).1
      · show (((okStart _ i al).current.length + (okStart _ i al).lastRetry.length
            + (okStart _ i al).flagged.length + 1 : Nat) : Int)
            ≤ (okStart _ i al).lockedCnt + ((([k] : List Key).length : Int) - ((([k] : List Key).filter (skipKey i)).length : Int))
        rw [okStart_current, okStart_lastRetry, okStart_flagged, okStart_cnt]
        simp only [List.filter_cons, hsk, if_true, List.filter_nil, List.length_cons, List.length_nil]
        show ((s.current.length + s.lastRetry.length + s.flagged.length + 1 : Nat) : Int) ≤ s.lockedCnt + _
        omega
      · show (okStart _ i al).inAgg = true
        rw [okStart_inAgg]; exact ha
      · show (okStart _ i al).closed = false
        rw [okStart_closed]; exact hcl
    · rename_i hsk
      refine lockSend_inv ?_ hcnt0 hnag hcl hwf
      intro x hx
      rcases hsub x hx with h | h
      · exact Or.inl h
      · refine Or.inr ⟨by rw [h]; exact List.mem_singleton.2 rfl, ?_⟩
        rw [herr, h]; simpa using hsk
  | some er =>
    simp only []
    split
    · rename_i hnr
      refine lockSend_inv ?_ hcnt0 hnag hcl hwf
      intro x hx
      rcases hsub x hx with h | h
      · exact Or.inl h
      · refine Or.inr ⟨by rw [h]; exact List.mem_singleton.2 rfl, ?_⟩
        rw [herr]; exact hnr
    · rename_i hnr
      -- one key, write conflict / key exists: no rollback — the entry goes back
      have hr : lockSend s i [k] al =
          lockFail { s with req := [k], store := s.store ++ [k].filter fun x => (ansOf i x).acq } [k] al er := by
        unfold lockSend; rw [herr]
      rw [hr]
      refine putBack_inv ?_ ?_ ?_ ?_
      · intro x hx
        rw [lockFail_store, if_neg hnr] at hx
        have hx' : x ∈ s.store ++ [k].filter fun x => (ansOf i x).acq := hx
        rcases List.mem_append.1 hx' with h | h
        · rcases hsub x h with h | h
          · left
            refine mem_tracked.2 ?_
            rw [lockFail_current, if_neg hnr, lockFail_lastRetry, lockFail_flagged]
            exact mem_tracked.1 h
          · right; rw [hek]; exact h
        · right
          rw [hek]
          exact List.mem_singleton.1 (List.mem_filter.1 h).1
      · rw [lockFail_current, if_neg hnr, lockFail_lastRetry, lockFail_flagged, lockFail_cnt]
        exact hcnt
      · rw [lockFail_inAgg]; exact ha
      · rw [lockFail_closed]; exact hcl

theorem lockAgg_inv {s : State} {i : LockIn} {k : Key} {al : Bool} (h : Inv s) (ha : s.inAgg = true)
    (hcl : s.closed = false) (hwf : wfLock i = true) : Inv (lockAgg s i k al) := by
  have hc := h.cnt
  unfold lockAgg
  split
  · exact lockSend_inv (fun x hx => Or.inl (h.sub x hx)) h.cnt h.nag hcl hwf
  · rename_i e he
    have hk : k ∈ keysOf s.lastRetry := findE_some_mem_keysOf he
    have hek : e.key = k := (findE_some he).2
    have hlt := length_eraseE_lt hk
    -- the state with the key taken out of lastRetryUnnecessaryLocks
    have hsub' : ∀ x, x ∈ (takeOut s k).store → x ∈ tracked (takeOut s k) ∨ x = k := by
      intro x hx
      rcases mem_tracked.1 (h.sub x hx) with h1 | h1 | h1
      · exact Or.inl (mem_tracked.2 (Or.inl h1))
      · by_cases hxk : x = k
        · exact Or.inr hxk
        · exact Or.inl (mem_tracked.2 (Or.inr (Or.inl (mem_keysOf_eraseE.2 ⟨h1, hxk⟩))))
      · exact Or.inl (mem_tracked.2 (Or.inr (Or.inr h1)))
    have hcnt' : ((((takeOut s k).current.length + (takeOut s k).lastRetry.length + (takeOut s k).flagged.length + 1 : Nat)) : Int)
        ≤ (takeOut s k).lockedCnt := by
      show (((s.current.length + (eraseE s.lastRetry k).length + s.flagged.length + 1 : Nat)) : Int) ≤ s.lockedCnt
      omega
    have ha' : (takeOut s k).inAgg = true := ha
    have hcl' : (takeOut s k).closed = false := hcl
    unfold lockAggFound
    split
    · exact h.of_eq rfl rfl rfl rfl rfl rfl rfl
    · cases hd : skipDecision s e i with
      | none => exact lockResend_inv hek hsub' hcnt' ha' hcl' hwf
      | some e' =>
        have hkey : e'.key = k := by rw [skipDecision_key hd]; exact hek
        show Inv (aggSkip s i k al e e')
        unfold aggSkip
        split
        · exact lockResend_inv hek hsub' hcnt' ha' hcl' hwf
        · -- skipped: the entry moves from lastRetryUnnecessaryLocks to currentLockedKeys, no request
          refine ⟨?_, ?_, ?_, ?_⟩
          · intro x hx
            refine mem_tracked.2 ?_
            rcases mem_tracked.1 (h.sub x hx) with h1 | h1 | h1
            · exact Or.inl (mem_keysOf_upsertE.2 (Or.inr h1))
            · by_cases hxk : x = k
              · exact Or.inl (mem_keysOf_upsertE.2 (Or.inl (by rw [hkey]; exact hxk)))
              · exact Or.inr (Or.inl (mem_keysOf_eraseE.2 ⟨h1, hxk⟩))
            · exact Or.inr (Or.inr h1)
          · have := length_upsertE_le s.current e'
            show (((upsertE s.current e').length + (eraseE s.lastRetry k).length + s.flagged.length : Nat) : Int)
              ≤ s.lockedCnt
            omega
          · intro hf
            have : s.inAgg = false := hf
            rw [ha] at this; cases this
          · intro hc'
            have : s.closed = true := hc'
            rw [hcl] at this; cases this

/-! ### lockKeys as a whole -/

theorem preLock_inv {s : State} (h : Inv s) (i : LockIn) : Inv (preLock s i) := by
  unfold preLock; split
  · exact doneCore_inv h
  · exact h

theorem preLock_closed (s : State) (i : LockIn) : (preLock s i).closed = s.closed := by
  unfold preLock; split <;> rfl

/-- if the call is still inside aggressive locking after exitAggressiveLockingIfInapplicable, nothing has happened
    and the call has at most one key -/
theorem preLock_inAgg {s : State} {i : LockIn} (h : (preLock s i).inAgg = true) :
    preLock s i = s ∧ s.inAgg = true ∧ i.keys.length ≤ 1 := by
  unfold preLock at h ⊢
  split
  · rename_i hc; rw [if_pos hc] at h; cases h
  · rename_i hc
    rw [if_neg hc] at h
    refine ⟨rfl, h, ?_⟩
    simp only [h, Bool.true_and, decide_eq_true_eq] at hc
    omega

@[simp] theorem selPrim_store (s : State) (ks : List Key) : (selPrim s ks).store = s.store := by
  unfold selPrim selectPrimary; split <;> (try split) <;> (try split) <;> rfl
@[simp] theorem selPrim_current (s : State) (ks : List Key) : (selPrim s ks).current = s.current := by
  unfold selPrim selectPrimary; split <;> (try split) <;> (try split) <;> rfl
@[simp] theorem selPrim_lastRetry (s : State) (ks : List Key) : (selPrim s ks).lastRetry = s.lastRetry := by
  unfold selPrim selectPrimary; split <;> (try split) <;> (try split) <;> rfl
@[simp] theorem selPrim_flagged (s : State) (ks : List Key) : (selPrim s ks).flagged = s.flagged := by
  unfold selPrim selectPrimary; split <;> (try split) <;> (try split) <;> rfl
@[simp] theorem selPrim_cnt (s : State) (ks : List Key) : (selPrim s ks).lockedCnt = s.lockedCnt := by
  unfold selPrim selectPrimary; split <;> (try split) <;> (try split) <;> rfl
@[simp] theorem selPrim_inAgg (s : State) (ks : List Key) : (selPrim s ks).inAgg = s.inAgg := by
  unfold selPrim selectPrimary; split <;> (try split) <;> (try split) <;> rfl
@[simp] theorem selPrim_closed (s : State) (ks : List Key) : (selPrim s ks).closed = s.closed := by
  unfold selPrim selectPrimary; split <;> (try split) <;> (try split) <;> rfl

theorem selPrim_inv {s : State} (h : Inv s) (ks : List Key) : Inv (selPrim s ks) :=
  h.of_eq (by simp) (by simp) (by simp) (by simp) (by simp) (by simp) (by simp)

/-- the keys a one-key call ends up requesting are that key -/
theorem normKeys_needLock_single {s : State} {keys : List Key} {k : Key} (hl : keys.length ≤ 1)
    (h : normKeys (needLock s keys) = [k]) : keys = [k] := by
  match keys, hl with
  | [], _ => simp [needLock, normKeys] at h
  | [a], _ =>
    unfold needLock at h
    simp only [List.filter_cons, List.filter_nil] at h
    split at h
    · simp only [normKeys, List.foldr_cons, List.foldr_nil, insertKey, List.cons.injEq, and_true] at h
      rw [h]
    · simp [normKeys] at h
  | _ :: _ :: _, hl => simp at hl

theorem lockGo_inv {s0 : State} {i : LockIn} {keys : List Key} {al : Bool} (h : Inv s0) (hcl : s0.closed = false)
    (hwf : wfLock i = true) : Inv (lockGo (selPrim s0 keys) i keys al) := by
  have h1 := selPrim_inv h keys
  have hcl1 : (selPrim s0 keys).closed = false := by simpa using hcl
  unfold lockGo
  split
  · rename_i ha
    split
    · exact lockAgg_inv h1 ha hcl1 hwf
    · exact lockSend_inv (fun x hx => Or.inl (h1.sub x hx)) h1.cnt h1.nag hcl1 hwf
  · exact lockSend_inv (fun x hx => Or.inl (h1.sub x hx)) h1.cnt h1.nag hcl1 hwf

theorem lockStep_inv {s : State} {i : LockIn} (h : Inv s) (hcl : s.closed = false) (hwf : wfLock i = true) :
    Inv (lockStep s i) := by
  have h0 := preLock_inv h i
  have hcl0 : (preLock s i).closed = false := by rw [preLock_closed]; exact hcl
  simp only [lockStep]
  split
  · exact h0.of_eq rfl rfl rfl rfl rfl rfl rfl
  · split
    · exact h0
    · split
      · exact h0.of_eq rfl rfl rfl rfl rfl rfl rfl
      · split
        · exact h0.of_eq rfl rfl rfl rfl rfl rfl rfl
        · exact lockGo_inv h0 hcl0 hwf

/-! ### every op, every admissible sequence -/

theorem pneStep_inv {s : State} (h : Inv s) (k : Key) : Inv (pneStep s k) :=
  h.of_eq rfl rfl rfl rfl rfl rfl rfl

theorem clearOut_inv {s : State} (h : Inv s) : Inv (clearOut s) := h.of_eq rfl rfl rfl rfl rfl rfl rfl

theorem step_inv {s : State} {op : Op} (h : Inv s) (hok : s.closed = true ∨ okStep s op = true) : Inv (step s op) := by
  have hc := clearOut_inv h
  unfold step
  simp only []
  split
  · exact hc.of_eq rfl rfl rfl rfl rfl rfl rfl
  · rename_i hncl
    have hcl : (clearOut s).closed = false := by simpa using hncl
    have hok' : okStep s op = true := by
      rcases hok with h1 | h1
      · have : s.closed = false := hcl
        rw [h1] at this; cases this
      · exact h1
    cases op with
    | start => exact startStep_inv hc
    | retry => exact retryStep_inv hc
    | cancel => exact cancelStep_inv hc
    | done => exact doneStep_inv hc
    | rollback => exact (rollbackStep_inv hc hok').1
    | commit => exact (commitStep_inv hc hok').1
    | lock i =>
      exact lockStep_inv hc hcl hok'
    | pne k => exact pneStep_inv hc k

theorem run_inv : ∀ (ops : List Op) (s : State), Inv s → Admissible s ops = true → Inv (run s ops) := by
  intro ops
  induction ops with
  | nil => intro s h _; exact h
  | cons op ops ih =>
    intro s h ha
    simp only [Admissible, Bool.and_eq_true, Bool.or_eq_true] at ha
    exact ih (step s op) (step_inv h ha.1) ha.2

theorem run_append (s : State) (a b : List Op) : run s (a ++ b) = run (run s a) b := by
  simp [run, List.foldl_append]

theorem step_rollback_closed (s : State) : (step s .rollback).closed = true := by
  unfold step
  simp only []
  split
  · rename_i h; exact h
  · show (rollbackStep (clearOut s)).closed = true
    unfold rollbackStep releaseFlagged
    split <;> (try split) <;> (try split) <;> rfl

theorem step_commit_closed (s : State) : (step s .commit).closed = true := by
  unfold step
  simp only []
  split
  · rename_i h; exact h
  · show (commitStep (clearOut s)).closed = true
    unfold commitStep commitFlagged
    split <;> (try split) <;> rfl

theorem leaked_nil_of_inv {s : State} (h : Inv s) : leaked s = [] := by
  unfold leaked
  split
  · rename_i hc; exact h.cls hc
  · refine List.filter_eq_nil_iff.2 ?_
    intro k hk
    have := h.sub k hk
    simp [this]

/-! ### the code as it was before the repair

  `Old.step` differs from `step` in one place: the re-request of a key taken out of lastRetryUnnecessaryLocks is a plain
  `lockSend` — the entry is never put back.  Only used to state what the repair changed (witness sequences, `decide`). -/

namespace Old

def aggSkip (s : State) (i : LockIn) (k : Key) (al : Bool) (e' : Entry) : State :=
  if i.mayExpire then lockSend (takeOut s k) i [k] al
  else { takeOut s k with current := upsertE s.current e' }

def lockAggFound (s : State) (i : LockIn) (k : Key) (al : Bool) (e : Entry) : State :=
  if i.fu < e.lwc then { s with res := .errAggSanity }
  else
    match skipDecision s e i with
    | some e' => aggSkip s i k al e'
    | none => lockSend (takeOut s k) i [k] al

def lockAgg (s : State) (i : LockIn) (k : Key) (al : Bool) : State :=
  match findE s.lastRetry k with
  | none => lockSend s i [k] al
  | some e => lockAggFound s i k al e

def lockGo (s : State) (i : LockIn) (keys : List Key) (al : Bool) : State :=
  if s.inAgg then
    match keys with
    | [k] => lockAgg s i k al
    | _ => lockSend s i keys al
  else lockSend s i keys al

def lockStep (s : State) (i : LockIn) : State :=
  let s0 := preLock s i
  let keys := needLock s0 i.keys
  if earlyKE s0 i.keys then { s0 with res := .errKeyExists }
  else if keys.isEmpty then s0
  else if i.o.loie && !i.o.rv then { s0 with res := .errLoieNoRV }
  else if i.o.loie && s0.primary.isNone && decide (keys.length > 1) then { s0 with res := .errLoieNoPrimary }
  else lockGo (selPrim s0 (normKeys keys)) i (normKeys keys) s0.primary.isNone

def step (s : State) (op : Op) : State :=
  let s := clearOut s
  if s.closed then { s with res := .closed } else
  match op with
  | .lock i => lockStep s i
  | op => AggLock.step s op

def run (s : State) (ops : List Op) : State := ops.foldl step s

end Old

/-! ### witnesses -/

/-- the first leak: attempt 1 locks key 1 (no value), retry, attempt 2 locks it with LockOnlyIfExists, answer "not found" -/
def witnessLoie : List Op :=
  [.start,
   .lock { keys := [1], fu := 10, mayExpire := true, ans := [{ key := 1, acq := true }] },
   .retry,
   .lock { keys := [1], o := { rv := true, loie := true }, fu := 11, ans := [{ key := 1, exist := false }] },
   .done]

/-- the second leak: the re-request of the key (now with the presume-not-exists flag of an INSERT) is answered key exists -/
def witnessKeyExists : List Op :=
  [.start,
   .lock { keys := [1], fu := 10, mayExpire := true, ans := [{ key := 1, acq := true }] },
   .retry,
   .pne 1,
   .lock { keys := [1], o := { rv := true }, fu := 11, err := some .ke, ans := [{ key := 1 }] },
   .done]

/-- Rollback inside an aggressive-locking stage that holds a key: error, closed, nothing released -/
def witnessPending : List Op :=
  [.start,
   .lock { keys := [1], fu := 10, mayExpire := true, ans := [{ key := 1, acq := true }] },
   .rollback]

/-- an ordinary admissible run: attempt 1 locks keys 1 and 2 in two calls, the retried attempt needs key 1 again with
    return values (re-requested, locked with conflict) and key 3; key 2 is released by Done, a plain call adds 4 and 5 -/
def sampleRun : List Op :=
  [.start,
   .lock { keys := [1], fu := 10, mayExpire := true, ans := [{ key := 1, acq := true }] },
   .lock { keys := [2], o := { ce := true }, fu := 10, mayExpire := true, ans := [{ key := 2, acq := true, exist := false }] },
   .retry,
   .lock { keys := [1], o := { rv := true }, fu := 12, ans := [{ key := 1, lwc := 15 }] },
   .lock { keys := [3], fu := 12, err := some .to, ans := [{ key := 3 }] },
   .lock { keys := [3], fu := 12, ans := [{ key := 3, acq := true }] },
   .done,
   .lock { keys := [5, 4, 1], o := { rv := true }, fu := 20, ans := [{ key := 4, acq := true }, { key := 5, acq := true, exist := false }] }]

end CGV.AggLock
