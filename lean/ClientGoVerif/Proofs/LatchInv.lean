/-
  C17: structural invariant of all reachable states (stage 1): lock well-formedness, phases,
  unique node per key in a queue, and the two directions of "lock holds key ↔ node's holder is the lock".
-/
import ClientGoVerif.Proofs.Latch
namespace CGV.Latch
open CGV

structure LockWF (cfg : Cfg) (lk : Lock) : Prop where
  slots_eq : lk.requiredSlots = lk.keys.map cfg.slotOf
  sorted : lk.keys.Pairwise KLt
  count_le : lk.acquiredCount ≤ lk.keys.length

/-- what the program counter says about the fields -/
def PhaseOK (lk : Lock) : Prop :=
  match lk.phase with
  | .acquiring => lk.isStale = false ∧ lk.acquiredCount < lk.keys.length
  | .waiting => lk.isStale = false ∧ lk.acquiredCount < lk.keys.length
  | .woken => lk.isStale = true ∨ lk.acquiredCount < lk.keys.length
  | .acquired => lk.isStale = true ∨ lk.acquiredCount = lk.keys.length
  | .releasing => 0 < lk.acquiredCount
  | .done => lk.acquiredCount = 0

structure Inv1 (cfg : Cfg) (s : State) : Prop where
  fresh : ∀ l lk, s.locks l = some lk → l < s.nlocks
  wf : ∀ l lk, s.locks l = some lk → LockWF cfg lk
  phase : ∀ l lk, s.locks l = some lk → PhaseOK lk
  qnodup : ∀ i, ((s.slots i).queue.map (·.key)).Nodup
  qslot : ∀ i n, n ∈ (s.slots i).queue → cfg.slotOf n.key = i
  holds : ∀ l lk k, s.locks l = some lk → lk.holds k → ∃ n, nodeOf cfg s k = some n ∧ n.holder = some l
  holder : ∀ i n l, n ∈ (s.slots i).queue → n.holder = some l → ∃ lk, s.locks l = some lk ∧ lk.holds n.key

theorem slot_of_key {cfg : Cfg} {lk : Lock} (h : LockWF cfg lk) {j : Nat} {key : Key} {slotID : Nat}
    (hk : lk.keys[j]? = some key) (hs : lk.requiredSlots[j]? = some slotID) : slotID = cfg.slotOf key := by
  rw [h.slots_eq, List.getElem?_map, hk] at hs
  simpa using hs.symm

theorem keys_inj {cfg : Cfg} {lk : Lock} (h : LockWF cfg lk) {i j : Nat} {k : Key}
    (hi : lk.keys[i]? = some k) (hj : lk.keys[j]? = some k) : i = j := by
  have hlt : i < lk.keys.length := by
    rcases List.getElem?_eq_some_iff.mp hi with ⟨h1, _⟩; exact h1
  exact (List.getElem?_inj hlt (sorted_nodup h.sorted)).mp (hi.trans hj.symm)

theorem holds_succ {lk : Lock} {k : Key} :
    (succLock lk).holds k ↔ lk.holds k ∨ lk.keys[lk.acquiredCount]? = some k := by
  constructor
  · rintro ⟨j, hj, hk⟩
    simp only [succLock] at hj hk
    by_cases e : j = lk.acquiredCount
    · subst e; exact .inr hk
    · exact .inl ⟨j, by omega, hk⟩
  · rintro (⟨j, hj, hk⟩ | hk)
    · exact ⟨j, by simp only [succLock]; omega, hk⟩
    · exact ⟨lk.acquiredCount, by simp [succLock], hk⟩

theorem holds_rel {cfg : Cfg} {lk : Lock} (h : LockWF cfg lk) {k key : Key}
    (hk : lk.keys[lk.acquiredCount - 1]? = some key) :
    (relLock lk).holds k ↔ lk.holds k ∧ k ≠ key := by
  constructor
  · rintro ⟨j, hj, hjk⟩
    simp only [relLock] at hj hjk
    refine ⟨⟨j, by omega, hjk⟩, ?_⟩
    intro e; subst e
    have := keys_inj h hjk hk
    omega
  · rintro ⟨⟨j, hj, hjk⟩, hne⟩
    refine ⟨j, ?_, hjk⟩
    simp only [relLock]
    by_cases e : j = lk.acquiredCount - 1
    · subst e; rw [hk] at hjk; exact absurd (Option.some.inj hjk).symm hne
    · omega

/-- a lock whose keys and progress are those of `lk` holds the same keys -/
theorem holds_congr {a b : Lock} (hk : a.keys = b.keys) (hc : a.acquiredCount = b.acquiredCount) (k : Key) :
    a.holds k ↔ b.holds k := by
  simp [Lock.holds, hk, hc]

theorem nodeOf_slots {cfg : Cfg} {s s' : State} (h : s'.slots = s.slots) (k : Key) :
    nodeOf cfg s' k = nodeOf cfg s k := by simp [nodeOf, h]

theorem Inv1.init (cfg : Cfg) : Inv1 cfg Latch.init where
  fresh := by simp [Latch.init]
  wf := by simp [Latch.init]
  phase := by simp [Latch.init]
  qnodup := by simp [Latch.init, emptySlot]
  qslot := by simp [Latch.init, emptySlot]
  holds := by simp [Latch.init]
  holder := by simp [Latch.init, emptySlot]

theorem upd_some {α : Type} {f : Nat → Option α} {l l' : Nat} {v x : α} (h : upd f l (some v) l' = some x) :
    (l' = l ∧ x = v) ∨ (l' ≠ l ∧ f l' = some x) := by
  simp only [upd_apply] at h
  split at h
  · next e => left; exact ⟨e, (Option.some.inj h).symm⟩
  · next e => right; exact ⟨e, h⟩

/-- a step that only rewrites flags of one lock (same keys, same progress) -/
theorem Inv1.lockOnly {cfg : Cfg} {s : State} (h : Inv1 cfg s) {l : LockId} {lk lk' : Lock} {pub : List (Key × Nat)}
    {slots' : Nat → Slot} (hq : ∀ i, (slots' i).queue = (s.slots i).queue)
    (hl : s.locks l = some lk) (hk : lk'.keys = lk.keys) (hr : lk'.requiredSlots = lk.requiredSlots)
    (hc : lk'.acquiredCount = lk.acquiredCount) (hp : PhaseOK lk') :
    Inv1 cfg { s with slots := slots', locks := upd s.locks l (some lk'), published := pub } where
  fresh := by
    intro l' x hx
    rcases upd_some hx with ⟨e, _⟩ | ⟨_, hx⟩
    · subst e; exact h.fresh _ _ hl
    · exact h.fresh _ _ hx
  wf := by
    intro l' x hx
    rcases upd_some hx with ⟨_, e⟩ | ⟨_, hx⟩
    · subst e
      have w := h.wf _ _ hl
      exact ⟨by rw [hr, hk]; exact w.slots_eq, by rw [hk]; exact w.sorted, by rw [hc, hk]; exact w.count_le⟩
    · exact h.wf _ _ hx
  phase := by
    intro l' x hx
    rcases upd_some hx with ⟨_, e⟩ | ⟨_, hx⟩
    · subst e; exact hp
    · exact h.phase _ _ hx
  qnodup := by intro i; simp only [hq]; exact h.qnodup i
  qslot := by intro i n hn; simp only [hq] at hn; exact h.qslot i n hn
  holds := by
    intro l' x k hx hh
    have e0 : nodeOf cfg { s with slots := slots', locks := upd s.locks l (some lk'), published := pub } k
        = nodeOf cfg s k := by simp [nodeOf, hq]
    rw [e0]
    rcases upd_some hx with ⟨e1, e⟩ | ⟨_, hx⟩
    · subst e; subst e1
      exact h.holds _ _ k hl ((holds_congr hk hc k).mp hh)
    · exact h.holds _ _ k hx hh
  holder := by
    intro i n l' hn hh
    simp only [hq] at hn
    obtain ⟨x, hx, hxh⟩ := h.holder i n l' hn hh
    by_cases e : l' = l
    · subst e
      rw [hl] at hx; cases hx
      exact ⟨lk', by simp, (holds_congr hk hc _).mpr hxh⟩
    · exact ⟨x, by simp [upd_ne _ _ e, hx], hxh⟩

theorem phaseOK_succ {lk : Lock} (hst : lk.isStale = false) (hlt : lk.acquiredCount < lk.keys.length)
    (hr : lk.requiredSlots.length = lk.keys.length) : PhaseOK (succLock lk) := by
  unfold PhaseOK succLock phaseAfterSuccess
  simp only [hr]
  split <;> rename_i hph <;> split at hph <;> simp_all <;> omega

theorem nodeOf_upd {cfg : Cfg} {s : State} {i : Nat} {sl' : Slot} {locks' : Nat → Option Lock} {nl : Nat}
    {pub : List (Key × Nat)} (k : Key) :
    nodeOf cfg { slots := upd s.slots i sl', locks := locks', nlocks := nl, published := pub } k
      = if cfg.slotOf k = i then findNode sl'.queue k else nodeOf cfg s k := by
  simp only [nodeOf, upd_apply]; split <;> rfl

theorem count_lt_of_acq {lk : Lock} (hp : PhaseOK lk) (h : lk.phase = .acquiring ∨ lk.phase = .woken)
    (hst : lk.isStale = false) : lk.acquiredCount < lk.keys.length := by
  unfold PhaseOK at hp
  rcases h with h | h <;> simp [h, hst] at hp <;> omega

theorem Inv1.gen {cfg : Cfg} {s : State} (h : Inv1 cfg s) (ts : Nat) {keys : List Key} (hnd : keys.Nodup) :
    Inv1 cfg (genLock cfg s ts keys) := by
  unfold genLock
  refine ⟨?_, ?_, ?_, h.qnodup, h.qslot, ?_, ?_⟩
  · intro l' x hx
    rcases upd_some hx with ⟨e, _⟩ | ⟨_, hx⟩
    · simp [e]
    · have := h.fresh _ _ hx; simp; omega
  · intro l' x hx
    rcases upd_some hx with ⟨_, e⟩ | ⟨_, hx⟩
    · subst e; exact ⟨rfl, sortKeys_sorted hnd, Nat.zero_le _⟩
    · exact h.wf _ _ hx
  · intro l' x hx
    rcases upd_some hx with ⟨_, e⟩ | ⟨_, hx⟩
    · subst e
      unfold PhaseOK
      by_cases he : (sortKeys keys).isEmpty = true
      · simp [he]; simp at he; simp [he]
      · simp [he]; exact List.length_pos_iff.mpr (by simpa using he)
    · exact h.phase _ _ hx
  · intro l' x k hx hh
    rcases upd_some hx with ⟨_, e⟩ | ⟨_, hx⟩
    · subst e; obtain ⟨j, hj, _⟩ := hh; simp at hj
    · exact h.holds _ _ k hx hh
  · intro i n l' hn hh
    obtain ⟨x, hx, hxh⟩ := h.holder i n l' hn hh
    have := h.fresh _ _ hx
    exact ⟨x, by simp [upd_ne _ _ (Nat.ne_of_lt this), hx], hxh⟩

theorem keep_of_holder {cfg : Cfg} {ts : Nat} {n : Node} {l : LockId} (h : n.holder = some l) :
    (!recyclable cfg ts n) = true := by simp [recyclable, h]

theorem Inv1.recycle {cfg : Cfg} {s : State} (h : Inv1 cfg s) (i ts : Nat) :
    Inv1 cfg (recycleSlot cfg s i ts) := by
  unfold recycleSlot
  refine ⟨h.fresh, h.wf, h.phase, ?_, ?_, ?_, ?_⟩
  · intro j
    simp only [upd_apply]
    split
    · next e => subst e; exact filter_keys_nodup _ (h.qnodup _)
    · exact h.qnodup j
  · intro j n hn
    simp only [upd_apply] at hn
    split at hn
    · next e => subst e; exact h.qslot _ n (List.mem_filter.mp hn).1
    · exact h.qslot j n hn
  · intro l' x k hx hh
    obtain ⟨n, hn, hnh⟩ := h.holds l' x k hx hh
    refine ⟨n, ?_, hnh⟩
    rw [nodeOf_upd]
    split
    · next e =>
      subst e
      exact findNode_filter_keep hn (keep_of_holder hnh)
    · exact hn
  · intro j n l' hn hh
    simp only [upd_apply] at hn
    split at hn
    · next e => subst e; exact h.holder _ n l' (List.mem_filter.mp hn).1 hh
    · exact h.holder j n l' hn hh

theorem wf_succ {cfg : Cfg} {lk : Lock} (w : LockWF cfg lk) (hlt : lk.acquiredCount < lk.keys.length) :
    LockWF cfg (succLock lk) := ⟨w.slots_eq, w.sorted, hlt⟩

theorem req_len {cfg : Cfg} {lk : Lock} (w : LockWF cfg lk) : lk.requiredSlots.length = lk.keys.length := by
  rw [w.slots_eq, List.length_map]

theorem Inv1.acqNew {cfg : Cfg} {s : State} (h : Inv1 cfg s) {l : LockId} {lk : Lock} {key : Key} {slotID : Nat}
    (hl : s.locks l = some lk) (hp : lk.phase = .acquiring ∨ lk.phase = .woken) (hst : lk.isStale = false)
    (hk : lk.keys[lk.acquiredCount]? = some key) (hs : lk.requiredSlots[lk.acquiredCount]? = some slotID)
    (hf : findNode (s.slots slotID).queue key = none) :
    Inv1 cfg { s with
        slots := upd s.slots slotID { (s.slots slotID) with queue := newNode key l :: (s.slots slotID).queue,
                                                            count := (s.slots slotID).count + 1 },
        locks := upd s.locks l (some (succLock lk)) } := by
  have w := h.wf _ _ hl
  have hlt := count_lt_of_acq (h.phase _ _ hl) hp hst
  have hsl : slotID = cfg.slotOf key := slot_of_key w hk hs
  have hnone : nodeOf cfg s key = none := by rw [nodeOf, ← hsl]; exact hf
  -- a key held in `s` is not `key`
  have hne : ∀ l' x k, s.locks l' = some x → x.holds k → k ≠ key := by
    intro l' x k hx hh e
    obtain ⟨n, hn, _⟩ := h.holds l' x k hx hh
    rw [e, hnone] at hn; cases hn
  have hnode : ∀ k, k ≠ key → nodeOf cfg { s with
        slots := upd s.slots slotID { (s.slots slotID) with queue := newNode key l :: (s.slots slotID).queue,
                                                            count := (s.slots slotID).count + 1 },
        locks := upd s.locks l (some (succLock lk)) } k = nodeOf cfg s k := by
    intro k hk'
    rw [nodeOf_upd]
    split
    · next e =>
      have : (newNode key l).key ≠ k := fun e => hk' e.symm
      simp [findNode_cons, this, nodeOf, e]
    · rfl
  refine ⟨?_, ?_, ?_, ?_, ?_, ?_, ?_⟩
  · intro l' x hx
    rcases upd_some hx with ⟨e, _⟩ | ⟨_, hx⟩
    · subst e; exact h.fresh _ _ hl
    · exact h.fresh _ _ hx
  · intro l' x hx
    rcases upd_some hx with ⟨_, e⟩ | ⟨_, hx⟩
    · subst e; exact wf_succ w hlt
    · exact h.wf _ _ hx
  · intro l' x hx
    rcases upd_some hx with ⟨_, e⟩ | ⟨_, hx⟩
    · subst e; exact phaseOK_succ hst hlt (req_len w)
    · exact h.phase _ _ hx
  · intro j
    simp only [upd_apply]
    split
    · next e =>
      subst e
      simp only [List.map_cons, List.nodup_cons]
      refine ⟨?_, h.qnodup _⟩
      intro hm
      obtain ⟨n, hn, hnk⟩ := List.mem_map.mp hm
      exact (findNode_none.mp hf) n hn hnk
    · exact h.qnodup j
  · intro j m hm
    simp only [upd_apply] at hm
    split at hm
    · next e =>
      subst e
      rcases List.mem_cons.mp hm with hm | hm
      · subst hm; exact hsl.symm
      · exact h.qslot _ m hm
    · exact h.qslot j m hm
  · intro l' x k hx hh
    rcases upd_some hx with ⟨e1, e⟩ | ⟨_, hx⟩
    · subst e; subst e1
      rcases holds_succ.mp hh with hh | hh
      · rw [hnode k (hne _ _ k hl hh)]; exact h.holds _ _ k hl hh
      · rw [hk] at hh; cases hh
        refine ⟨newNode key l', ?_, rfl⟩
        rw [nodeOf_upd]; simp [hsl, findNode_cons, newNode]
    · rw [hnode k (hne _ _ k hx hh)]; exact h.holds _ _ k hx hh
  · intro j n l' hn hh
    have hold : n ∈ (s.slots j).queue → ∃ x, upd s.locks l (some (succLock lk)) l' = some x ∧ x.holds n.key := by
      intro hn
      obtain ⟨x, hx, hxh⟩ := h.holder j n l' hn hh
      by_cases e : l' = l
      · subst e; rw [hl] at hx; cases hx
        exact ⟨succLock lk, by simp, holds_succ.mpr (.inl hxh)⟩
      · exact ⟨x, by simp [upd_ne _ _ e, hx], hxh⟩
    simp only [upd_apply] at hn
    split at hn
    · next e =>
      subst e
      rcases List.mem_cons.mp hn with hn | hn
      · subst hn
        simp only [newNode] at hh; cases hh
        exact ⟨succLock lk, by simp, holds_succ.mpr (.inr hk)⟩
      · exact hold hn
    · exact hold hn

theorem Inv1.acqFree {cfg : Cfg} {s : State} (h : Inv1 cfg s) {l : LockId} {lk : Lock} {key : Key} {slotID : Nat}
    {n : Node} (hl : s.locks l = some lk) (hp : lk.phase = .acquiring ∨ lk.phase = .woken) (hst : lk.isStale = false)
    (hk : lk.keys[lk.acquiredCount]? = some key) (hs : lk.requiredSlots[lk.acquiredCount]? = some slotID)
    (hf : findNode (s.slots slotID).queue key = some n) (hh0 : n.holder = none) :
    Inv1 cfg { s with
        slots := upd s.slots slotID { (s.slots slotID) with
          queue := updNode key (fun n => { n with holder := some l }) (s.slots slotID).queue },
        locks := upd s.locks l (some (succLock lk)) } := by
  have w := h.wf _ _ hl
  have hlt := count_lt_of_acq (h.phase _ _ hl) hp hst
  have hsl : slotID = cfg.slotOf key := slot_of_key w hk hs
  have hfk : ∀ m : Node, ({ m with holder := some l } : Node).key = m.key := fun _ => rfl
  have hnk : nodeOf cfg s key = some n := by rw [nodeOf, ← hsl]; exact hf
  have hne : ∀ l' x k, s.locks l' = some x → x.holds k → k ≠ key := by
    intro l' x k hx hh e
    obtain ⟨n', hn, hnh⟩ := h.holds l' x k hx hh
    rw [e, hnk] at hn; cases hn; rw [hh0] at hnh; cases hnh
  have hnode : ∀ k, k ≠ key → nodeOf cfg { s with
        slots := upd s.slots slotID { (s.slots slotID) with
          queue := updNode key (fun n => { n with holder := some l }) (s.slots slotID).queue },
        locks := upd s.locks l (some (succLock lk)) } k = nodeOf cfg s k := by
    intro k hk'
    rw [nodeOf_upd]
    split
    · next e => simp only [findNode_updNode_ne hfk hk', nodeOf, e]
    · rfl
  refine ⟨?_, ?_, ?_, ?_, ?_, ?_, ?_⟩
  · intro l' x hx
    rcases upd_some hx with ⟨e, _⟩ | ⟨_, hx⟩
    · subst e; exact h.fresh _ _ hl
    · exact h.fresh _ _ hx
  · intro l' x hx
    rcases upd_some hx with ⟨_, e⟩ | ⟨_, hx⟩
    · subst e; exact wf_succ w hlt
    · exact h.wf _ _ hx
  · intro l' x hx
    rcases upd_some hx with ⟨_, e⟩ | ⟨_, hx⟩
    · subst e; exact phaseOK_succ hst hlt (req_len w)
    · exact h.phase _ _ hx
  · intro j
    simp only [upd_apply]
    split
    · next e => subst e; simp only [updNode_keys hfk]; exact h.qnodup _
    · exact h.qnodup j
  · intro j m hm
    simp only [upd_apply] at hm
    split at hm
    · next e =>
      subst e
      rcases mem_updNode (h.qnodup _) hm with ⟨hm, _⟩ | ⟨n0, hn0, _, rfl⟩
      · exact h.qslot _ m hm
      · rw [hfk]; exact h.qslot _ n0 hn0
    · exact h.qslot j m hm
  · intro l' x k hx hh
    rcases upd_some hx with ⟨e1, e⟩ | ⟨_, hx⟩
    · subst e; subst e1
      rcases holds_succ.mp hh with hh | hh
      · rw [hnode k (hne _ _ k hl hh)]; exact h.holds _ _ k hl hh
      · rw [hk] at hh; cases hh
        refine ⟨{ n with holder := some l' }, ?_, rfl⟩
        rw [nodeOf_upd, if_pos hsl.symm]
        simp only [findNode_updNode_same hfk, hf, Option.map_some]
    · rw [hnode k (hne _ _ k hx hh)]; exact h.holds _ _ k hx hh
  · intro j m l' hm hh
    have hold : ∀ m', m' ∈ (s.slots j).queue → m'.holder = some l' →
        ∃ x, upd s.locks l (some (succLock lk)) l' = some x ∧ x.holds m'.key := by
      intro m' hm' hh'
      obtain ⟨x, hx, hxh⟩ := h.holder j m' l' hm' hh'
      by_cases e : l' = l
      · subst e; rw [hl] at hx; cases hx
        exact ⟨succLock lk, by simp, holds_succ.mpr (.inl hxh)⟩
      · exact ⟨x, by simp [upd_ne _ _ e, hx], hxh⟩
    simp only [upd_apply] at hm
    split at hm
    · next e =>
      subst e
      rcases mem_updNode (h.qnodup _) hm with ⟨hm, _⟩ | ⟨n0, hn0, hn0k, rfl⟩
      · exact hold m hm hh
      · simp only at hh; cases hh
        exact ⟨succLock lk, by simp, holds_succ.mpr (.inr (by rw [hk, hn0k]))⟩
    · exact hold m hm hh

theorem holds_succ' {a lk : Lock} (hk : a.keys = lk.keys) (hc : a.acquiredCount = lk.acquiredCount + 1) {k : Key} :
    a.holds k ↔ lk.holds k ∨ lk.keys[lk.acquiredCount]? = some k := by
  constructor
  · rintro ⟨j, hj, hjk⟩
    rw [hk] at hjk
    by_cases e : j = lk.acquiredCount
    · subst e; exact .inr hjk
    · exact .inl ⟨j, by omega, hjk⟩
  · rintro (⟨j, hj, hjk⟩ | hjk)
    · exact ⟨j, by omega, by rw [hk]; exact hjk⟩
    · exact ⟨lk.acquiredCount, by omega, by rw [hk]; exact hjk⟩

theorem phaseOK_rel {lk : Lock} (hc : lk.acquiredCount ≠ 0) : PhaseOK (relLock lk) := by
  unfold PhaseOK relLock
  by_cases e : lk.acquiredCount - 1 = 0 <;> simp [e]
  omega

/-- how the other locks may change in a `releaseSlot` of `l` on `key` that leaves `hd` as holder of the node -/
def RelOthers (s : State) (l : LockId) (key : Key) (hd : Option LockId) (locks' : Nat → Option Lock) : Prop :=
  ∀ l', l' ≠ l → (s.locks l' = none → locks' l' = none) ∧
    ∀ x, s.locks l' = some x → ∃ x', locks' l' = some x' ∧ x'.keys = x.keys ∧
      x'.requiredSlots = x.requiredSlots ∧ PhaseOK x' ∧
      ((hd = some l' ∧ x'.acquiredCount = x.acquiredCount + 1 ∧ x.keys[x.acquiredCount]? = some key) ∨
       (hd ≠ some l' ∧ x'.acquiredCount = x.acquiredCount))

theorem Inv1.relGen {cfg : Cfg} {s : State} (h : Inv1 cfg s) {l : LockId} {lk : Lock} {key : Key} {slotID : Nat}
    {n : Node} (hl : s.locks l = some lk) (hc : lk.acquiredCount ≠ 0)
    (hk : lk.keys[lk.acquiredCount - 1]? = some key) (hs : lk.requiredSlots[lk.acquiredCount - 1]? = some slotID)
    (hf : findNode (s.slots slotID).queue key = some n) (hh0 : n.holder = some l)
    {f : Node → Node} {hd : Option LockId} (hfk : ∀ m, (f m).key = m.key) (hfh : ∀ m, (f m).holder = hd)
    (hhd : ∀ w, hd = some w → w ≠ l ∧ ∃ x, s.locks w = some x)
    {locks' : Nat → Option Lock} (hl' : locks' l = some (relLock lk)) (ho : RelOthers s l key hd locks')
    (waiting' : List LockId) (pub : List (Key × Nat)) :
    Inv1 cfg { s with
        slots := upd s.slots slotID { (s.slots slotID) with
          queue := updNode key f (s.slots slotID).queue, waiting := waiting' },
        locks := locks', published := pub } := by
  have w := h.wf _ _ hl
  have hsl : slotID = cfg.slotOf key := slot_of_key w hk hs
  have hnk : nodeOf cfg s key = some n := by rw [nodeOf, ← hsl]; exact hf
  -- in `s` only `l` holds `key`
  have hne : ∀ l' x k, s.locks l' = some x → x.holds k → l' ≠ l → k ≠ key := by
    intro l' x k hx hh hl'l e
    obtain ⟨n', hn, hnh⟩ := h.holds l' x k hx hh
    rw [e, hnk] at hn; cases hn; rw [hh0] at hnh; cases hnh; exact hl'l rfl
  have hnode : ∀ k, k ≠ key → nodeOf cfg { s with
        slots := upd s.slots slotID { (s.slots slotID) with
          queue := updNode key f (s.slots slotID).queue, waiting := waiting' },
        locks := locks', published := pub } k = nodeOf cfg s k := by
    intro k hk'
    rw [nodeOf_upd]
    split
    · next e => simp only [findNode_updNode_ne hfk hk', nodeOf, e]
    · rfl
  have hnodeKey : nodeOf cfg { s with
        slots := upd s.slots slotID { (s.slots slotID) with
          queue := updNode key f (s.slots slotID).queue, waiting := waiting' },
        locks := locks', published := pub } key = some (f n) := by
    rw [nodeOf_upd, if_pos hsl.symm]
    simp only [findNode_updNode_same hfk, hf, Option.map_some]
  -- every lock of `s'` comes from a lock of `s`
  have hback : ∀ l' x', locks' l' = some x' → l' ≠ l → ∃ x, s.locks l' = some x := by
    intro l' x' hx' hne'
    cases hx : s.locks l' with
    | none => rw [(ho l' hne').1 hx] at hx'; cases hx'
    | some x => exact ⟨x, rfl⟩
  refine ⟨?_, ?_, ?_, ?_, ?_, ?_, ?_⟩
  · intro l' x' hx'
    change locks' l' = some x' at hx'
    by_cases e : l' = l
    · subst e; exact h.fresh _ _ hl
    · obtain ⟨x, hx⟩ := hback l' x' hx' e; exact h.fresh _ _ hx
  · intro l' x' hx'
    change locks' l' = some x' at hx'
    by_cases e : l' = l
    · subst e; rw [hl'] at hx'; cases hx'
      exact ⟨w.slots_eq, w.sorted, by have := w.count_le; simp only [relLock]; omega⟩
    · obtain ⟨x, hx⟩ := hback l' x' hx' e
      obtain ⟨x'', hx'', hkk, hrr, _, hcc⟩ := (ho l' e).2 x hx
      rw [hx'] at hx''; cases hx''
      have wx := h.wf _ _ hx
      refine ⟨by rw [hrr, hkk]; exact wx.slots_eq, by rw [hkk]; exact wx.sorted, ?_⟩
      rcases hcc with ⟨_, hcc, hkey⟩ | ⟨_, hcc⟩
      · rw [hcc, hkk]
        rcases List.getElem?_eq_some_iff.mp hkey with ⟨h1, _⟩; omega
      · rw [hcc, hkk]; exact wx.count_le
  · intro l' x' hx'
    change locks' l' = some x' at hx'
    by_cases e : l' = l
    · subst e; rw [hl'] at hx'; cases hx'; exact phaseOK_rel hc
    · obtain ⟨x, hx⟩ := hback l' x' hx' e
      obtain ⟨x'', hx'', _, _, hpp, _⟩ := (ho l' e).2 x hx
      rw [hx'] at hx''; cases hx''; exact hpp
  · intro j
    simp only [upd_apply]
    split
    · next e => subst e; simp only [updNode_keys hfk]; exact h.qnodup _
    · exact h.qnodup j
  · intro j m hm
    simp only [upd_apply] at hm
    split at hm
    · next e =>
      subst e
      rcases mem_updNode (h.qnodup _) hm with ⟨hm, _⟩ | ⟨n0, hn0, _, rfl⟩
      · exact h.qslot _ m hm
      · rw [hfk]; exact h.qslot _ n0 hn0
    · exact h.qslot j m hm
  · intro l' x' k hx' hh
    change locks' l' = some x' at hx'
    by_cases e : l' = l
    · subst e; rw [hl'] at hx'; cases hx'
      obtain ⟨hh, hkk⟩ := (holds_rel w hk).mp hh
      rw [hnode k hkk]; exact h.holds _ _ k hl hh
    · obtain ⟨x, hx⟩ := hback l' x' hx' e
      obtain ⟨x'', hx'', hkk, _, _, hcc⟩ := (ho l' e).2 x hx
      rw [hx'] at hx''; cases hx''
      rcases hcc with ⟨hd', hcc, hkey⟩ | ⟨_, hcc⟩
      · rcases (holds_succ' hkk hcc).mp hh with hh | hh
        · rw [hnode k (hne _ _ k hx hh e)]; exact h.holds _ _ k hx hh
        · rw [hkey] at hh; cases hh
          exact ⟨f n, hnodeKey, by rw [hfh, hd']⟩
      · have hh := (holds_congr hkk hcc k).mp hh
        rw [hnode k (hne _ _ k hx hh e)]; exact h.holds _ _ k hx hh
  · intro j m l' hm hh
    have hold : ∀ m', m' ∈ (s.slots j).queue → m'.holder = some l' → m'.key ≠ key →
        ∃ x', locks' l' = some x' ∧ x'.holds m'.key := by
      intro m' hm' hh' hmk
      obtain ⟨x, hx, hxh⟩ := h.holder j m' l' hm' hh'
      by_cases e : l' = l
      · subst e; rw [hl] at hx; cases hx
        exact ⟨relLock lk, hl', (holds_rel w hk).mpr ⟨hxh, hmk⟩⟩
      · obtain ⟨x', hx', hkk, _, _, hcc⟩ := (ho l' e).2 x hx
        refine ⟨x', hx', ?_⟩
        rcases hcc with ⟨_, hcc, _⟩ | ⟨_, hcc⟩
        · exact (holds_succ' hkk hcc).mpr (.inl hxh)
        · exact (holds_congr hkk hcc _).mpr hxh
    simp only [upd_apply] at hm
    split at hm
    · next e =>
      subst e
      rcases mem_updNode (h.qnodup _) hm with ⟨hm, hmk⟩ | ⟨n0, hn0, hn0k, rfl⟩
      · exact hold m hm hh hmk
      · rw [hfh] at hh
        obtain ⟨hwl, x, hx⟩ := hhd l' hh
        obtain ⟨x', hx', hkk, _, _, hcc⟩ := (ho l' hwl).2 x hx
        refine ⟨x', hx', ?_⟩
        rcases hcc with ⟨_, hcc, hkey⟩ | ⟨hd', _⟩
        · rw [hfk, hn0k]; exact (holds_succ' hkk hcc).mpr (.inr hkey)
        · exact absurd hh hd'
    · next e =>
      have hmk : m.key ≠ key := by
        intro e2; apply e; rw [← h.qslot j m hm, e2, hsl]
      exact hold m hm hh hmk

theorem awaits_key {s : State} {key : Key} {w : LockId} {lkw : Lock} {ws : List LockId}
    (hw : ws.find? (awaits s key) = some w) (hlw : s.locks w = some lkw) :
    lkw.keys[lkw.acquiredCount]? = some key ∧ w ∈ ws := by
  have h1 := List.find?_some hw
  simp only [awaits, hlw] at h1
  exact ⟨by simpa using h1, List.mem_of_find?_eq_some hw⟩

theorem woken_ne {cfg : Cfg} {lk : Lock} (w : LockWF cfg lk) {key : Key} (hc : lk.acquiredCount ≠ 0)
    (hk : lk.keys[lk.acquiredCount - 1]? = some key) (hk2 : lk.keys[lk.acquiredCount]? = some key) : False := by
  have := keys_inj w hk hk2; omega

theorem relF_key (m c : Nat) (hd : Option LockId) : ∀ x, (relNodeF m c hd x).key = x.key := fun _ => rfl
theorem relF_holder (m c : Nat) (hd : Option LockId) : ∀ x, (relNodeF m c hd x).holder = hd := fun _ => rfl

theorem Inv1.eff {cfg : Cfg} {s s' : State} (h : Inv1 cfg s) (e : Eff cfg s s') : Inv1 cfg s' := by
  cases e with
  | gen ts keys hnd => exact h.gen ts hnd
  | recycle i ts => exact h.recycle i ts
  | staleRet l lk hl hp hst =>
    refine h.lockOnly (fun _ => rfl) hl rfl rfl rfl ?_
    simp [PhaseOK, hst]
  | acqNew l lk key slotID hl hp hst hk hs hf => exact h.acqNew hl hp hst hk hs hf
  | acqStale l lk key slotID n hl hp hst hk hs hf hgt =>
    refine h.lockOnly (fun _ => rfl) hl rfl rfl rfl ?_
    simp [PhaseOK]
  | acqFree l lk key slotID n hl hp hst hk hs hf hle hh => exact h.acqFree hl hp hst hk hs hf hh
  | acqLocked l lk key slotID n o hl hp hst hk hs hf hle hh =>
    refine h.lockOnly (slots' := upd s.slots slotID _) ?_ hl rfl rfl rfl ?_
    · intro i; simp only [upd_apply]; split
      · next e => subst e; rfl
      · rfl
    · have := count_lt_of_acq (h.phase _ _ hl) hp hst
      simp [PhaseOK, hst, this]
  | unlock l lk c hl hp =>
    refine h.lockOnly (fun _ => rfl) hl rfl rfl rfl ?_
    unfold PhaseOK
    by_cases e : lk.acquiredCount = 0 <;> simp [e]
    omega
  | relNone l lk key slotID n hl hp hc hk hs hf hh hw =>
    refine h.relGen hl hc hk hs hf hh (relF_key _ _ none) (relF_holder _ _ none) (by simp) (by simp) ?_ _ _
    intro l' hne
    refine ⟨fun hx => by simp [upd_ne _ _ hne, hx], fun x hx => ⟨x, by simp [upd_ne _ _ hne, hx], rfl, rfl, h.phase _ _ hx, ?_⟩⟩
    right; simp
  | relStale l lk key slotID n w lkw hl hp hc hk hs hf hh hw hlw hgt =>
    obtain ⟨hkw, _⟩ := awaits_key hw hlw
    have hwl : w ≠ l := by
      intro e; subst e; rw [hl] at hlw; cases hlw
      exact woken_ne (h.wf _ _ hl) hc hk hkw
    refine h.relGen hl hc hk hs hf hh (relF_key _ _ (some w)) (relF_holder _ _ (some w)) ?_ ?_ ?_ _ _
    · intro w' hw'; cases hw'; exact ⟨hwl, lkw, hlw⟩
    · simp [upd_ne _ _ hwl.symm]
    · intro l' hne
      by_cases e : l' = w
      · subst e
        refine ⟨fun hx => (by rw [hlw] at hx; cases hx), fun x hx => ?_⟩
        rw [hlw] at hx; cases hx
        refine ⟨{ lkw with acquiredCount := lkw.acquiredCount + 1, isStale := true, phase := .woken },
          by simp, rfl, rfl, by simp [PhaseOK], ?_⟩
        left; exact ⟨rfl, rfl, hkw⟩
      · refine ⟨fun hx => by simp [upd_ne _ _ hne, upd_ne _ _ e, hx],
          fun x hx => ⟨x, by simp [upd_ne _ _ hne, upd_ne _ _ e, hx], rfl, rfl, h.phase _ _ hx, ?_⟩⟩
        right; exact ⟨by simp; exact fun e' => e e'.symm, rfl⟩
  | relWake l lk key slotID n w lkw hl hp hc hk hs hf hh hw hlw hle =>
    obtain ⟨hkw, _⟩ := awaits_key hw hlw
    have hwl : w ≠ l := by
      intro e; subst e; rw [hl] at hlw; cases hlw
      exact woken_ne (h.wf _ _ hl) hc hk hkw
    refine h.relGen hl hc hk hs hf hh (relF_key _ _ none) (relF_holder _ _ none) (by simp) ?_ ?_ _ _
    · simp [upd_ne _ _ hwl.symm]
    · intro l' hne
      by_cases e : l' = w
      · subst e
        refine ⟨fun hx => (by rw [hlw] at hx; cases hx), fun x hx => ?_⟩
        rw [hlw] at hx; cases hx
        have hlt : lkw.acquiredCount < lkw.keys.length := by
          rcases List.getElem?_eq_some_iff.mp hkw with ⟨h1, _⟩; exact h1
        refine ⟨{ lkw with phase := .woken }, by simp, rfl, rfl, by simp [PhaseOK, hlt], ?_⟩
        right; simp
      · refine ⟨fun hx => by simp [upd_ne _ _ hne, upd_ne _ _ e, hx],
          fun x hx => ⟨x, by simp [upd_ne _ _ hne, upd_ne _ _ e, hx], rfl, rfl, h.phase _ _ hx, ?_⟩⟩
        right; simp

theorem Inv1.step {cfg : Cfg} {s s' : State} {a : Action} (h : Inv1 cfg s) (hs : step cfg s a = some s') :
    Inv1 cfg s' := by
  obtain ⟨s1, h1, e⟩ := step_eff hs
  rcases h1 with rfl | ⟨i, ts, rfl⟩
  · exact h.eff e
  · exact (h.recycle i ts).eff e

theorem Reachable.inv1 {cfg : Cfg} {s : State} (h : Reachable cfg s) : Inv1 cfg s := by
  induction h with
  | init => exact Inv1.init cfg
  | step a _ hs ih => exact ih.step hs

end CGV.Latch
