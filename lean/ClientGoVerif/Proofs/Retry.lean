/-
  Helper lemmas for C10 (Model/Retry.lean): invariants of the accounting state, effect of each allowed step on the
  potentials (remaining attempts, hint credit, remaining back-off steps), counting lemmas over accepted runs.
-/
import ClientGoVerif.Model.Retry
namespace CGV.Retry

/-! ## arithmetic -/

theorem ceilDiv_zero (m : Nat) (hm : 0 < m) : ceilDiv 0 m = 0 := by
  unfold ceilDiv
  apply Nat.div_eq_of_lt
  omega

theorem ceilDiv_pos_eq (r m : Nat) (hm : 0 < m) (hr : 0 < r) : ceilDiv r m = (r - 1) / m + 1 := by
  unfold ceilDiv
  have : r + m - 1 = (r - 1) + m := by omega
  rw [this, Nat.add_div_right _ hm]

theorem ceilDiv_mono (a b m : Nat) (h : a ≤ b) : ceilDiv a m ≤ ceilDiv b m := by
  unfold ceilDiv
  apply Nat.div_le_div_right
  omega

/-- a sleep of at least `m` consumes at least one remaining back-off step -/
theorem ceilDiv_sub_lt (r x m : Nat) (hm : 0 < m) (hr : 0 < r) (hx : m ≤ x) : ceilDiv (r - x) m < ceilDiv r m := by
  rw [ceilDiv_pos_eq r m hm hr]
  by_cases h : r ≤ x
  · have : r - x = 0 := by omega
    rw [this, ceilDiv_zero m hm]
    exact Nat.succ_pos _
  · have h1 : ceilDiv (r - x) m ≤ (r - 1) / m := by
      unfold ceilDiv
      apply Nat.div_le_div_right
      omega
    omega

/-! ## tables -/

theorem lookupNat_le_maxVal (l : List (String × Nat)) (x : String) (v : Nat) (h : lookupNat l x = some v) : v ≤ maxVal l := by
  induction l with
  | nil => simp [lookupNat] at h
  | cons a t ih =>
    obtain ⟨k, w⟩ := a
    simp only [lookupNat] at h
    simp only [maxVal]
    by_cases hk : k = x
    · simp [hk] at h
      omega
    · simp [hk] at h
      have := ih h
      omega

theorem minList_le_of_mem (d : Nat) (l : List Nat) (a : Nat) (h : a ∈ l) : minList d l ≤ a := by
  induction l with
  | nil => cases h
  | cons b t ih =>
    simp only [minList]
    rcases List.mem_cons.mp h with h | h
    · subst h; exact Nat.min_le_left _ _
    · exact Nat.le_trans (Nat.min_le_right _ _) (ih h)

theorem lookupRow_mem (l : List (String × Nat × Nat × Nat)) (x : String) (r : Nat × Nat × Nat)
    (h : lookupRow l x = some r) : rowMin r ∈ l.map (fun e => rowMin e.2) := by
  induction l with
  | nil => simp [lookupRow] at h
  | cons a t ih =>
    obtain ⟨k, w⟩ := a
    simp only [lookupRow] at h
    by_cases hk : k = x
    · simp [hk] at h
      subst h
      simp
    · simp [hk] at h
      have := ih h
      simp only [List.map_cons, List.mem_cons]
      exact Or.inr this

/-- every config the sender can use sleeps at least `minStep` -/
theorem minStep_le (k : String) (r : Nat × Nat × Nat) (h : kindRow k = some r) : minStep ≤ rowMin r :=
  minList_le_of_mem _ _ _ (lookupRow_mem _ _ _ h)

theorem kindLimit_le (k : String) (lim : Nat) (h : kindLimit k = some lim) : lim ≤ exclLimitMax :=
  lookupNat_le_maxVal _ _ _ h

/-! ## remaining attempts -/

theorem remAtt_set (l : List Nat) (i v : Nat) (h : i < l.length) :
    remAtt (l.set i v) + (maxAtt - l[i]) = remAtt l + (maxAtt - v) := by
  induction l generalizing i with
  | nil => simp at h
  | cons a t ih =>
    cases i with
    | zero =>
      simp [remAtt, List.set]
      omega
    | succ j =>
      have hj : j < t.length := by simpa using h
      have := ih j hj
      simp [remAtt, List.set] at this ⊢
      omega

theorem remAtt_replicate (n : Nat) : remAtt (List.replicate n 0) = n * maxAtt := by
  induction n with
  | zero => simp [remAtt]
  | succ k ih =>
    have h : remAtt (List.replicate (k + 1) 0) = maxAtt + remAtt (List.replicate k 0) := by
      simp [remAtt, List.replicate_succ]
    rw [h, ih, Nat.succ_mul]
    omega

/-! ## invariant -/

structure Inv (s : State) : Prop where
  len : s.att.length = s.cfg.n
  excl : s.excluded ≤ s.total

theorem inv_init (c : Cfg) : Inv (init c) := ⟨by simp [init], by simp [init]⟩

theorem step_cfg (s : State) (e : Ev) : (step s e).cfg = s.cfg := by
  cases e <;> rfl

theorem inv_step (s : State) (e : Ev) (hi : Inv s) : Inv (step s e) := by
  cases e with
  | send peer st rr sr rt px a r f => exact ⟨by simp [step, setAtt, hi.len], hi.excl⟩
  | bump q a => exact ⟨by simp [step, setAtt, hi.len], hi.excl⟩
  | backoff k ms =>
    refine ⟨hi.len, ?_⟩
    have := hi.excl
    simp only [step]
    split <;> omega
  | result k b => exact ⟨hi.len, hi.excl⟩

theorem getAtt_valid (s : State) (p : Nat) (hi : Inv s) (hv : validPeer s p = true) :
    ∃ h : p - 1 < s.att.length, getAtt s p = s.att[p - 1] := by
  have hv' : 1 ≤ p ∧ p ≤ s.cfg.n := by simpa [validPeer] using hv
  have h : p - 1 < s.att.length := by rw [hi.len]; omega
  exact ⟨h, by simp [getAtt, h]⟩

/-! ## effect of one allowed step on the potentials -/

/-- potential bounding the sends: Σ remaining attempts + free redirects left + (a refill is possible) + (no back-off owed) -/
def phiSend (s : State) : Nat := remAtt s.att + freeLeft s + bumpOk s + owedFlag s

theorem owesNowK_none (n : Nat) (sr : Bool) (k : Nat) (f : String) (h : (owesNowK n sr k f).isNone = true)
    (hr : isRedirectFault f = true) : k < n := by
  unfold owesNowK at h
  split at h
  · simp at h
  · rename_i hc
    simp only [hr, Bool.true_and, decide_eq_true_eq] at hc
    omega

theorem owesNowK_some (n : Nat) (sr : Bool) (k : Nat) (f : String) (hr : isRedirectFault f = true) (hk : n ≤ k) :
    (owesNowK n sr k f).isNone = false := by
  unfold owesNowK
  have : (isRedirectFault f && decide (k ≥ n)) = true := by simp [hr, hk]
  rw [if_pos this]; rfl

theorem send_effect (s : State) (peer st : Nat) (rr sr rt : Bool) (px a : Nat) (r : Resp) (f : String) (hi : Inv s)
    (h : stepAllowed s (.send peer st rr sr rt px a r f) = true) :
    remAtt (step s (.send peer st rr sr rt px a r f)).att + 1 = remAtt s.att ∧
    owedFlag s = 1 ∧
    bumpOk (step s (.send peer st rr sr rt px a r f)) ≤ (if isRedirectFault f then 1 else 0) := by
  simp only [stepAllowed, Bool.and_eq_true, decide_eq_true_eq] at h
  obtain ⟨⟨⟨⟨⟨⟨⟨⟨⟨⟨_, _⟩, _⟩, _⟩, hc⟩, hlt⟩, _⟩, _⟩, _⟩, how⟩, hred⟩ := h
  obtain ⟨hl, hg⟩ := getAtt_valid s (charged peer px) hi hc
  have := remAtt_set s.att (charged peer px - 1) (getAtt s (charged peer px) + 1) hl
  rw [hg] at hlt this
  refine ⟨?_, ?_, ?_⟩
  · simp only [step, setAtt]
    rw [hg]
    omega
  · simp [owedFlag, how.1]
  · cases r with
    | nlhint q =>
      have : isRedirectFault f = true := by simpa using hred
      simp [bumpOk, step, this]
    | ok => simp [bumpOk, step]
    | rpcerr => simp [bumpOk, step]
    | regionerr => simp [bumpOk, step]

theorem bump_effect (s : State) (q a : Nat) (hi : Inv s) (h : stepAllowed s (.bump q a) = true) :
    remAtt (step s (.bump q a)).att ≤ remAtt s.att + 1 ∧ bumpOk s = 1 ∧ bumpOk (step s (.bump q a)) = 0 := by
  simp only [stepAllowed, Bool.and_eq_true, decide_eq_true_eq] at h
  obtain ⟨⟨⟨_, hv⟩, hlast⟩, _⟩ := h
  obtain ⟨hl, hg⟩ := getAtt_valid s q hi hv
  have := remAtt_set s.att (q - 1) (min (getAtt s q) (maxAtt - 1)) hl
  rw [hg] at this
  refine ⟨?_, ?_, ?_⟩
  · simp only [step, setAtt]
    rw [hg]
    have hm : min s.att[q - 1] (maxAtt - 1) ≤ s.att[q - 1] := Nat.min_le_left _ _
    have hm2 : min s.att[q - 1] (maxAtt - 1) ≤ maxAtt - 1 := Nat.min_le_right _ _
    by_cases hx : s.att[q - 1] ≤ maxAtt - 1
    · rw [Nat.min_eq_left hx] at this ⊢
      omega
    · have hx' : maxAtt - 1 ≤ s.att[q - 1] := by omega
      rw [Nat.min_eq_right hx'] at this ⊢
      omega
  · simp [bumpOk, hlast]
  · simp [bumpOk, step]

theorem minStep_pos : 0 < minStep := by decide

theorem backoff_effect (s : State) (k : String) (ms : Nat) (hi : Inv s) (h : stepAllowed s (.backoff k ms) = true) :
    rank1 (step s (.backoff k ms)) < rank1 s ∧ (step s (.backoff k ms)).att = s.att ∧
    (step s (.backoff k ms)).credit = s.credit := by
  refine ⟨?_, rfl, rfl⟩
  simp only [stepAllowed, Bool.and_eq_true, Bool.not_eq_true'] at h
  obtain ⟨⟨_, hrow⟩, href⟩ := h
  have hexcl := hi.excl
  -- the sleep is at least minStep
  have hms : minStep ≤ ms := by
    cases hk : kindRow k with
    | none => simp [hk] at hrow
    | some r =>
      simp only [hk, Bool.and_eq_true, decide_eq_true_eq] at hrow
      exact Nat.le_trans (minStep_le k r hk) hrow.1.1
  have hpos := minStep_pos
  simp only [backoffRefused, Bool.or_eq_false_iff, decide_eq_false_iff_not, Nat.not_le] at href
  obtain ⟨hmain, hlim⟩ := href
  unfold rank1
  cases hl : kindLimit k with
  | none =>
    -- main budget: totalSleep grows, excludedSleep does not
    have e1 : mainRem (step s (.backoff k ms)) = mainRem s - ms := by
      simp only [mainRem, step, hl]
      simp
      omega
    have e2 : exclRem (step s (.backoff k ms)) = exclRem s := by
      simp [exclRem, step, hl]
    rw [e1, e2]
    have : 0 < mainRem s := by simp only [mainRem]; omega
    have := ceilDiv_sub_lt (mainRem s) ms minStep hpos this hms
    omega
  | some lim =>
    have e1 : mainRem (step s (.backoff k ms)) = mainRem s := by
      simp only [mainRem, step, hl]
      simp
      omega
    have e2 : exclRem (step s (.backoff k ms)) = exclRem s - ms := by
      simp only [exclRem, step, hl]
      simp
      omega
    rw [e1, e2]
    have hle := kindLimit_le k lim hl
    simp only [hl, Bool.and_eq_false_iff, decide_eq_false_iff_not, Nat.not_le] at hlim
    have : 0 < exclRem s := by
      simp only [exclRem]
      have : s.excluded < max exclLimitMax s.cfg.maxSleep := by
        rcases hlim with h1 | h1
        · exact Nat.lt_of_lt_of_le h1 (Nat.le_trans hle (Nat.le_max_left _ _))
        · exact Nat.lt_of_lt_of_le h1 (Nat.le_max_right _ _)
      omega
    have := ceilDiv_sub_lt (exclRem s) ms minStep hpos this hms
    omega


/-! ## steps that do not touch a potential -/

theorem rank1_send (s : State) (peer st : Nat) (rr sr rt : Bool) (px a : Nat) (r : Resp) (f : String) :
    rank1 (step s (.send peer st rr sr rt px a r f)) = rank1 s := by
  simp [rank1, mainRem, exclRem, step]

theorem rank1_bump (s : State) (q a : Nat) : rank1 (step s (.bump q a)) = rank1 s := by
  simp [rank1, mainRem, exclRem, step]

theorem rank1_result (s : State) (k : ResKind) (b : Bool) : rank1 (step s (.result k b)) = rank1 s := by
  simp [rank1, mainRem, exclRem, step]

theorem lex_mk {a1 a2 b1 b2 : Nat} (h : a1 < a2 ∨ (a1 = a2 ∧ b1 < b2)) :
    Prod.Lex (· < ·) (· < ·) (a1, b1) (a2, b2) := by
  rcases h with h | ⟨rfl, h⟩
  · exact Prod.Lex.left _ _ h
  · exact Prod.Lex.right _ h

theorem owedFlag_le (s : State) : owedFlag s ≤ 1 := by unfold owedFlag; split <;> omega

/-- every allowed non-final step strictly decreases the lexicographic rank (from any state satisfying the invariant) -/
theorem rank_decreases_inv (s : State) (e : Ev) (hi : Inv s) (h : stepAllowed s e = true) (hf : isFinal e = false) :
    Prod.Lex (· < ·) (· < ·) (rank (step s e)) (rank s) := by
  unfold rank
  apply lex_mk
  cases e with
  | send peer st rr sr rt px a r f =>
    obtain ⟨h1, h2, h3⟩ := send_effect s peer st rr sr rt px a r f hi h
    have hr1 := rank1_send s peer st rr sr rt px a r f
    have hle := owedFlag_le (step s (.send peer st rr sr rt px a r f))
    by_cases ho : (owesNowK s.cfg.n s.cfg.shortRead s.redirects f).isNone = true
    · right
      have hof : owedFlag (step s (.send peer st rr sr rt px a r f)) = 1 := by
        show (if (owesNowK s.cfg.n s.cfg.shortRead s.redirects f).isNone then 1 else 0) = 1
        rw [if_pos ho]
      refine ⟨by unfold rankA; omega, ?_⟩
      unfold rank2
      by_cases hr : isRedirectFault f = true
      · have hk := owesNowK_none _ _ _ _ ho hr
        have hfl : freeLeft (step s (.send peer st rr sr rt px a r f)) + 1 = freeLeft s := by
          simp only [freeLeft, step, hr, if_true]; omega
        rw [if_pos hr] at h3
        omega
      · have hfl : freeLeft (step s (.send peer st rr sr rt px a r f)) = freeLeft s := by
          simp only [freeLeft, step]; simp [hr]
        rw [if_neg hr] at h3
        omega
    · left
      have hof : owedFlag (step s (.send peer st rr sr rt px a r f)) = 0 := by
        show (if (owesNowK s.cfg.n s.cfg.shortRead s.redirects f).isNone then 1 else 0) = 0
        rw [if_neg ho]
      unfold rankA; omega
  | bump q a =>
    obtain ⟨h1, h2, h3⟩ := bump_effect s q a hi h
    right
    have hA : rankA (step s (.bump q a)) = rankA s := by
      unfold rankA; rw [rank1_bump]; rfl
    refine ⟨hA, ?_⟩
    unfold rank2
    have hfl : freeLeft (step s (.bump q a)) = freeLeft s := rfl
    omega
  | backoff k ms =>
    obtain ⟨h1, _, _⟩ := backoff_effect s k ms hi h
    left
    have := owedFlag_le (step s (.backoff k ms))
    unfold rankA
    omega
  | result k b => simp [isFinal] at hf

/-! ## accepted runs -/

theorem run_cons (s : State) (e : Ev) (es : List Ev) (s' : State) (h : run s (e :: es) = some s') :
    stepAllowed s e = true ∧ run (step s e) es = some s' := by
  simp only [run] at h
  by_cases ha : stepAllowed s e = true
  · simp [ha] at h; exact ⟨ha, h⟩
  · simp [ha] at h

theorem inv_run (es : List Ev) (s s' : State) (hi : Inv s) (h : run s es = some s') : Inv s' := by
  induction es generalizing s with
  | nil => simp [run] at h; subst h; exact hi
  | cons e es ih =>
    obtain ⟨_, h2⟩ := run_cons s e es s' h
    exact ih (step s e) (inv_step s e hi) h2

theorem cfg_run (es : List Ev) (s s' : State) (h : run s es = some s') : s'.cfg = s.cfg := by
  induction es generalizing s with
  | nil => simp [run] at h; subst h; rfl
  | cons e es ih =>
    obtain ⟨_, h2⟩ := run_cons s e es s' h
    rw [ih (step s e) h2, step_cfg]

/-- counting with a potential: if every allowed step pays for the events selected by `P`, an accepted run contains at most
    `Φ start` of them -/
theorem run_count (Φ : State → Nat) (P : Ev → Bool)
    (hstep : ∀ s e, Inv s → stepAllowed s e = true → Φ (step s e) + (if P e then 1 else 0) ≤ Φ s) :
    ∀ (es : List Ev) (s s' : State), Inv s → run s es = some s' → Φ s' + (es.filter P).length ≤ Φ s := by
  intro es
  induction es with
  | nil => intro s s' _ h; simp [run] at h; subst h; simp
  | cons e es ih =>
    intro s s' hi h
    obtain ⟨ha, h2⟩ := run_cons s e es s' h
    have h3 := ih (step s e) s' (inv_step s e hi) h2
    have h4 := hstep s e hi ha
    by_cases hp : P e = true
    · simp [List.filter, hp] at h4 ⊢; omega
    · simp [List.filter, hp] at h4 ⊢; omega

def isBump : Ev → Bool | .bump .. => true | _ => false
def isBackoff : Ev → Bool | .backoff .. => true | _ => false
def phiFin (s : State) : Nat := if s.done then 0 else 1

/-- counting with a potential and a cost: events selected by `P` are paid by the potential or by events selected by `C` -/
theorem run_count2 (Φ : State → Nat) (P C : Ev → Bool)
    (hstep : ∀ s e, Inv s → stepAllowed s e = true →
      Φ (step s e) + (if P e then 1 else 0) ≤ Φ s + (if C e then 1 else 0)) :
    ∀ (es : List Ev) (s s' : State), Inv s → run s es = some s' →
      Φ s' + (es.filter P).length ≤ Φ s + (es.filter C).length := by
  intro es
  induction es with
  | nil => intro s s' _ h; simp [run] at h; subst h; simp
  | cons e es ih =>
    intro s s' hi h
    obtain ⟨ha, h2⟩ := run_cons s e es s' h
    have h3 := ih (step s e) s' (inv_step s e hi) h2
    have h4 := hstep s e hi ha
    by_cases hp : P e = true <;> by_cases hc : C e = true <;> simp [List.filter, hp, hc] at h4 ⊢ <;> omega

theorem phiSend_step (s : State) (e : Ev) (hi : Inv s) (h : stepAllowed s e = true) :
    phiSend (step s e) + (if isSend e then 1 else 0) ≤ phiSend s + (if isBackoff e then 1 else 0) := by
  unfold phiSend
  cases e with
  | send peer st rr sr rt px a r f =>
    obtain ⟨h1, h2, h3⟩ := send_effect s peer st rr sr rt px a r f hi h
    have hle := owedFlag_le (step s (.send peer st rr sr rt px a r f))
    simp only [isSend, isBackoff, if_true, Bool.false_eq_true, if_false]
    by_cases hr : isRedirectFault f = true
    · rw [if_pos hr] at h3
      by_cases hk : s.cfg.n ≤ s.redirects
      · have hof : owedFlag (step s (.send peer st rr sr rt px a r f)) = 0 := by
          show (if (owesNowK s.cfg.n s.cfg.shortRead s.redirects f).isNone then 1 else 0) = 0
          rw [owesNowK_some _ _ _ _ hr hk]; rfl
        have hfl : freeLeft (step s (.send peer st rr sr rt px a r f)) = 0 := by
          simp only [freeLeft, step, hr, if_true]; omega
        omega
      · have hfl : freeLeft (step s (.send peer st rr sr rt px a r f)) + 1 = freeLeft s := by
          simp only [freeLeft, step, hr, if_true]; omega
        omega
    · rw [if_neg hr] at h3
      have hfl : freeLeft (step s (.send peer st rr sr rt px a r f)) = freeLeft s := by
        simp only [freeLeft, step]; simp [hr]
      omega
  | bump q a =>
    obtain ⟨h1, h2, h3⟩ := bump_effect s q a hi h
    have hfl : freeLeft (step s (.bump q a)) = freeLeft s := rfl
    have hof : owedFlag (step s (.bump q a)) = owedFlag s := rfl
    simp [isSend, isBackoff]; omega
  | backoff k ms =>
    have hle := owedFlag_le (step s (.backoff k ms))
    have h1 : remAtt (step s (.backoff k ms)).att = remAtt s.att := rfl
    have h2 : freeLeft (step s (.backoff k ms)) = freeLeft s := rfl
    have h3 : bumpOk (step s (.backoff k ms)) = bumpOk s := rfl
    simp [isSend, isBackoff]; omega
  | result k b =>
    have h1 : remAtt (step s (.result k b)).att = remAtt s.att := rfl
    have h2 : freeLeft (step s (.result k b)) = freeLeft s := rfl
    have h3 : bumpOk (step s (.result k b)) = bumpOk s := rfl
    have h4 : owedFlag (step s (.result k b)) = owedFlag s := rfl
    simp [isSend, isBackoff]; omega

/-- a refill (`bump`) needs a leader-hint reply first: bumps are paid by sends -/
theorem bumpOk_step (s : State) (e : Ev) (hi : Inv s) (h : stepAllowed s e = true) :
    bumpOk (step s e) + (if isBump e then 1 else 0) ≤ bumpOk s + (if isSend e then 1 else 0) := by
  cases e with
  | send peer st rr sr rt px a r f =>
    obtain ⟨_, _, h3⟩ := send_effect s peer st rr sr rt px a r f hi h
    have : bumpOk (step s (.send peer st rr sr rt px a r f)) ≤ 1 := by split at h3 <;> omega
    simp [isSend, isBump]; omega
  | bump q a =>
    obtain ⟨_, h2, h3⟩ := bump_effect s q a hi h
    simp [isSend, isBump]; omega
  | backoff k ms =>
    have h3 : bumpOk (step s (.backoff k ms)) = bumpOk s := rfl
    simp [isSend, isBump, h3]
  | result k b =>
    have h3 : bumpOk (step s (.result k b)) = bumpOk s := rfl
    simp [isSend, isBump, h3]

theorem rank1_step (s : State) (e : Ev) (hi : Inv s) (h : stepAllowed s e = true) :
    rank1 (step s e) + (if isBackoff e then 1 else 0) ≤ rank1 s := by
  cases e with
  | send peer st rr sr rt px a r f => simp [isBackoff, rank1_send]
  | bump q a => simp [isBackoff, rank1_bump]
  | backoff k ms =>
    obtain ⟨h1, _, _⟩ := backoff_effect s k ms hi h
    simp [isBackoff]; omega
  | result k b => simp [isBackoff, rank1_result]

theorem not_done_of_allowed (s : State) (e : Ev) (h : stepAllowed s e = true) : s.done = false := by
  cases e <;> simp [stepAllowed] at h <;> simp [h]

theorem phiFin_step (s : State) (e : Ev) (_hi : Inv s) (h : stepAllowed s e = true) :
    phiFin (step s e) + (if isFinal e then 1 else 0) ≤ phiFin s := by
  have hd := not_done_of_allowed s e h
  cases e <;> simp [phiFin, isFinal, step, hd]

theorem length_split (es : List Ev) :
    es.length = (es.filter isSend).length + (es.filter isBump).length + (es.filter isBackoff).length
      + (es.filter isFinal).length := by
  induction es with
  | nil => simp
  | cons e es ih =>
    cases e <;> simp [List.filter, isSend, isBump, isBackoff, isFinal] <;> omega

theorem rank1_init (c : Cfg) : rank1 (init c) = backoffBound c := by
  simp [rank1, backoffBound, mainRem, exclRem, init]

/-! ## trace-level flag discipline -/

theorem writeFlags_run (c : Cfg) (es : List Ev) (s s' : State) (hc : s.cfg = c) (h : run s es = some s') :
    propWriteFlags c es = true := by
  induction es generalizing s with
  | nil => simp [propWriteFlags]
  | cons e es ih =>
    obtain ⟨ha, h2⟩ := run_cons s e es s' h
    have ih' := ih (step s e) (by rw [step_cfg, hc]) h2
    simp only [propWriteFlags, List.all_cons, Bool.and_eq_true] at ih' ⊢
    refine ⟨?_, ih'⟩
    cases e with
    | send peer st rr sr rt px a r f =>
      simp only [stepAllowed, Bool.and_eq_true] at ha
      rw [← hc]; exact ha.1.1.2
    | bump q a => rfl
    | backoff k ms => rfl
    | result k b => rfl

theorem retryMarked_run (es : List Ev) (s s' : State) (h : run s es = some s') : retryMarkedFrom s.sent es = true := by
  induction es generalizing s with
  | nil => simp [retryMarkedFrom]
  | cons e es ih =>
    obtain ⟨ha, h2⟩ := run_cons s e es s' h
    have ih' := ih (step s e) h2
    cases e with
    | send peer st rr sr rt px a r f =>
      simp only [stepAllowed, Bool.and_eq_true] at ha
      simp only [retryMarkedFrom, Bool.and_eq_true]
      exact ⟨ha.1.1.1.2, by simpa [step] using ih'⟩
    | bump q a => simpa [retryMarkedFrom, step] using ih'
    | backoff k ms => simpa [retryMarkedFrom, step] using ih'
    | result k b => simpa [retryMarkedFrom, step] using ih'

theorem noSend_run (es : List Ev) (s s' : State) (hc : s.cfg.tsInvalid = true) (h : run s es = some s') :
    countSends es = 0 := by
  induction es generalizing s with
  | nil => simp [countSends]
  | cons e es ih =>
    obtain ⟨ha, h2⟩ := run_cons s e es s' h
    have ih' := ih (step s e) (by rw [step_cfg]; exact hc) h2
    cases e with
    | send peer st rr sr rt px a r f => simp [stepAllowed, hc] at ha
    | bump q a => simpa [countSends, List.filter, isSend] using ih'
    | backoff k ms => simpa [countSends, List.filter, isSend] using ih'
    | result k b => simpa [countSends, List.filter, isSend] using ih'

/-! ## genuine results -/

def isRegErr : Option Resp → Bool
  | some .regionerr => true
  | some (.nlhint _) => true
  | _ => false

def prevIsOkSend : Option Ev → Bool
  | some (.send _ _ _ _ _ _ _ .ok _) => true
  | _ => false

/-- relation between the model state and the (previous event, last RPC answer) the trace oracle carries along -/
structure Rel (s : State) (prev : Option Ev) (last : Option Resp) : Prop where
  ok : s.last = some .ok → prevIsOkSend prev = true
  re : isRegErr s.last = true → isRegErr last = true

theorem done_run (es : List Ev) (s s' : State) (hd : s.done = true) (h : run s es = some s') : es = [] := by
  cases es with
  | nil => rfl
  | cons e es =>
    obtain ⟨ha, _⟩ := run_cons s e es s' h
    have := not_done_of_allowed s e ha
    rw [hd] at this; cases this

theorem genuine_run (es : List Ev) (s s' : State) (prev : Option Ev) (last : Option Resp)
    (hr : Rel s prev last) (h : run s es = some s') : genuineFrom prev last es = true := by
  induction es generalizing s prev last with
  | nil => simp [genuineFrom]
  | cons e es ih =>
    obtain ⟨ha, h2⟩ := run_cons s e es s' h
    cases e with
    | send peer st rr sr rt px a r f =>
      simp only [genuineFrom, Bool.true_and]
      apply ih (step s (.send peer st rr sr rt px a r f)) _ _ _ h2
      constructor
      · intro hl
        simp only [step] at hl
        cases r <;> simp_all [prevIsOkSend]
      · intro hl
        simpa [step] using hl
    | bump q a =>
      simp only [genuineFrom, Bool.true_and]
      apply ih (step s (.bump q a)) _ _ _ h2
      constructor
      · intro hl; simp [step] at hl
      · intro _
        simp only [stepAllowed, Bool.and_eq_true, decide_eq_true_eq] at ha
        exact hr.re (by rw [ha.1.2]; rfl)
    | backoff k ms =>
      simp only [genuineFrom, Bool.true_and]
      apply ih (step s (.backoff k ms)) _ _ _ h2
      constructor
      · intro hl
        simp only [stepAllowed, Bool.and_eq_true, Bool.not_eq_true', afterOk, decide_eq_false_iff_not] at ha
        exact absurd (by simpa [step] using hl) ha.1.1.2
      · intro hl; exact hr.re (by simpa [step] using hl)
    | result k b =>
      have hnil := done_run es (step s (.result k b)) s' (by simp [step]) h2
      subst hnil
      simp only [genuineFrom, Bool.and_true]
      cases k with
      | ok =>
        simp only [stepAllowed, Bool.and_eq_true, afterOk, decide_eq_true_eq] at ha
        have := hr.ok ha.2.1.1
        simp only [Bool.and_eq_true]
        refine ⟨ha.2.1.2, ?_⟩
        cases prev with
        | none => simp [prevIsOkSend] at this
        | some pe =>
          cases pe with
          | send p1 p2 p3 p4 p5 p6 p7 r f => cases r <;> simp_all [prevIsOkSend]
          | bump q a => simp [prevIsOkSend] at this
          | backoff k ms => simp [prevIsOkSend] at this
          | result k b => simp [prevIsOkSend] at this
      | regionStore =>
        simp only [stepAllowed, Bool.and_eq_true] at ha
        have h1 : isRegErr s.last = true := by
          have := ha.2.2
          cases hl : s.last with
          | none => simp [hl] at this
          | some r => cases r <;> simp_all [isRegErr]
        have h2 := hr.re h1
        simp only [Bool.and_eq_true]
        refine ⟨ha.2.1, ?_⟩
        cases last with
        | none => simp [isRegErr] at h2
        | some r => cases r <;> simp_all [isRegErr]
      | regionPseudo => rfl
      | errBudget => rfl
      | errTs => rfl
      | errFatal => rfl
      | errOther => rfl

/-! ## back-off discipline -/

theorem owedNow_run (k : String) (rest : List Ev) (s s' : State) (ho : s.owedNow = some k) (h : run s rest = some s') :
    backoffBeforeSend k none rest = true := by
  induction rest generalizing s with
  | nil => simp [backoffBeforeSend]
  | cons e es ih =>
    obtain ⟨ha, h2⟩ := run_cons s e es s' h
    cases e with
    | send peer st rr sr rt px a r f =>
      simp only [stepAllowed, Bool.and_eq_true] at ha
      have := ha.1.2.1
      rw [ho] at this
      simp at this
    | bump q a =>
      simp only [backoffBeforeSend]
      exact ih (step s (.bump q a)) (by simpa [step] using ho) h2
    | backoff k' ms =>
      simp only [backoffBeforeSend, Bool.or_eq_true, decide_eq_true_eq]
      by_cases hk : k' = k
      · exact Or.inl hk
      · right
        apply ih (step s (.backoff k' ms)) _ h2
        have hne : ¬ (some k = some k') := by
          intro he; exact hk (Option.some.inj he).symm
        simp [step, ho, hne]
    | result kk b =>
      simp only [backoffBeforeSend]
      exact ih (step s (.result kk b)) (by simpa [step] using ho) h2

theorem mem_filter_ne (l : List Nat) (a b : Nat) (h : l.contains a = true) (hne : a ≠ b) :
    (l.filter (· != b)).contains a = true := by
  simp only [List.contains_eq_mem, List.mem_filter, decide_eq_true_eq, bne_iff_ne, ne_eq] at h ⊢
  exact ⟨h, hne⟩

theorem owedBusy_run (st : Nat) (rest : List Ev) (s s' : State) (ho : s.owedBusy.contains st = true)
    (hc : s.busyCredit = false) (h : run s rest = some s') : backoffBeforeSend busyKind (some st) rest = true := by
  induction rest generalizing s with
  | nil => simp [backoffBeforeSend]
  | cons e es ih =>
    obtain ⟨ha, h2⟩ := run_cons s e es s' h
    cases e with
    | send peer st' rr sr rt px a r f =>
      simp only [stepAllowed, Bool.and_eq_true] at ha
      have hb := ha.1.2.2
      rw [hc] at hb
      simp only [Bool.or_false, Bool.not_eq_true'] at hb
      have hne : st ≠ st' := by
        intro he; subst he; rw [ho] at hb; cases hb
      simp only [backoffBeforeSend, Bool.and_eq_true, bne_iff_ne, ne_eq]
      refine ⟨fun he => hne he.symm, ?_⟩
      apply ih (step s (.send peer st' rr sr rt px a r f)) _ _ h2
      · have hm := mem_filter_ne s.owedBusy st st' ho hne
        simp only [step]
        split
        · simp only [List.contains_eq_mem, List.mem_cons, decide_eq_true_eq] at hm ⊢
          exact Or.inr hm
        · exact hm
      · simp [step]
    | bump q a =>
      simp only [backoffBeforeSend]
      exact ih (step s (.bump q a)) (by simpa [step] using ho) (by simpa [step] using hc) h2
    | backoff k' ms =>
      simp only [backoffBeforeSend, Bool.or_eq_true, decide_eq_true_eq]
      by_cases hk : k' = busyKind
      · exact Or.inl hk
      · right
        apply ih (step s (.backoff k' ms)) _ _ h2
        · simpa [step, hk] using ho
        · simp [step, hk, hc]
    | result kk b =>
      simp only [backoffBeforeSend]
      exact ih (step s (.result kk b)) (by simpa [step] using ho) (by simpa [step] using hc) h2

theorem discipline_run (n : Nat) (sr : Bool) (es : List Ev) (s s' : State) (hn : s.cfg.n = n) (hc : s.cfg.shortRead = sr)
    (h : run s es = some s') : disciplineFrom n sr s.redirects es = true := by
  induction es generalizing s with
  | nil => simp [disciplineFrom]
  | cons e es ih =>
    obtain ⟨_, h2⟩ := run_cons s e es s' h
    have ih' := ih (step s e) (by rw [step_cfg]; exact hn) (by rw [step_cfg]; exact hc) h2
    cases e with
    | send peer st rr srd rt px a r f =>
      simp only [disciplineFrom, Bool.and_eq_true]
      refine ⟨⟨?_, ?_⟩, by simpa [step] using ih'⟩
      · cases ho : owesNowK n sr s.redirects f with
        | none => rfl
        | some k =>
          exact owedNow_run k es (step s (.send peer st rr srd rt px a r f)) s' (by simp [step, hn, hc, ho]) h2
      · cases hb : owesBusy sr f with
        | false => rfl
        | true =>
          simp only [Bool.not_true, Bool.false_or]
          exact owedBusy_run st es (step s (.send peer st rr srd rt px a r f)) s' (by simp [step, hc, hb]) (by simp [step]) h2
    | bump q a => simpa [disciplineFrom, step] using ih'
    | backoff k ms => simpa [disciplineFrom, step] using ih'
    | result k b => simpa [disciplineFrom, step] using ih'

end CGV.Retry
