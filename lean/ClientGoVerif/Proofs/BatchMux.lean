import ClientGoVerif.Model.BatchMux
/-! Helper lemmas for C18 (core Lean only). -/
namespace CGV.BatchMux
open List

/-! ## the heap operations only permute the queue -/

theorem swap_perm (l : List Nat) (i j : Nat) : (swap l i j).Perm l := by
  unfold swap
  split
  · rename_i h
    exact List.set_set_perm h.1 h.2
  · exact Perm.refl _

theorem up_perm (pri : Nat → Nat) : ∀ (f : Nat) (l : List Nat) (j : Nat), (up pri f l j).Perm l
  | 0, l, j => by simp [up]
  | f + 1, l, j => by
    unfold up
    simp only
    split
    · exact Perm.refl _
    · exact (up_perm pri f _ _).trans (swap_perm _ _ _)

theorem down_perm (pri : Nat → Nat) : ∀ (f : Nat) (l : List Nat) (i n : Nat), (down pri f l i n).1.Perm l
  | 0, l, i, n => by simp [down]
  | f + 1, l, i, n => by
    unfold down
    simp only
    repeat' split
    all_goals first
      | exact Perm.refl _
      | exact (down_perm pri f _ _ _).trans (swap_perm _ _ _)

theorem heapPush_perm (pri : Nat → Nat) (l : List Nat) (x : Nat) : (heapPush pri l x).Perm (x :: l) := by
  unfold heapPush
  exact (up_perm _ _ _ _).trans (perm_append_comm (l₁ := l) (l₂ := [x]))

theorem getLast_dropLast_perm : ∀ (l : List Nat) (x : Nat), l.getLast? = some x → l.Perm (x :: l.dropLast) := by
  intro l x h
  have : l = l.dropLast ++ [x] := by
    cases l with
    | nil => simp at h
    | cons a t =>
      have hne : (a :: t) ≠ [] := by simp
      have h2 := List.dropLast_concat_getLast hne
      rw [List.getLast?_eq_some_getLast hne] at h
      injection h with h
      rw [h] at h2
      exact h2.symm
  calc l = l.dropLast ++ [x] := this
    _ ~ [x] ++ l.dropLast := perm_append_comm
    _ = x :: l.dropLast := rfl

theorem heapPop_perm (pri : Nat → Nat) (l : List Nat) (x : Nat) (l' : List Nat)
    (h : heapPop pri l = some (x, l')) : l.Perm (x :: l') := by
  unfold heapPop at h
  split at h
  · cases h
  · simp only at h
    split at h
    · rename_i y hy
      cases h
      exact ((down_perm _ _ _ _ _).trans (swap_perm _ _ _)).symm.trans (getLast_dropLast_perm _ _ hy)
    · cases h

theorem heapRemove_perm (pri : Nat → Nat) (l : List Nat) (i x : Nat) (l' : List Nat)
    (h : heapRemove pri l i = some (x, l')) : l.Perm (x :: l') := by
  unfold heapRemove at h
  split at h
  · cases h
  · simp only at h
    split at h
    · rename_i y hy
      cases h
      refine Perm.trans ?_ (getLast_dropLast_perm _ _ hy)
      split
      · split
        · exact ((down_perm _ _ _ _ _).trans (swap_perm _ _ _)).symm
        · exact ((up_perm _ _ _ _).trans ((down_perm _ _ _ _ _).trans (swap_perm _ _ _))).symm
      · exact Perm.refl _
    · cases h


theorem swap_getElem?_other (l : List Nat) (i j k : Nat) (hi : k ≠ i) (hj : k ≠ j) :
    (swap l i j)[k]? = l[k]? := by
  unfold swap
  split
  · simp [List.getElem?_set, Ne.symm hi, Ne.symm hj]
  · rfl

theorem swap_getElem?_right (l : List Nat) (i j : Nat) (hi : i < l.length) (hj : j < l.length) :
    (swap l i j)[j]? = l[i]? := by
  unfold swap
  rw [dif_pos ⟨hi, hj⟩]
  simp [List.getElem?_set, hj]

theorem swap_length (l : List Nat) (i j : Nat) : (swap l i j).length = l.length :=
  (swap_perm l i j).length_eq

theorem up_getElem?_gt (pri : Nat → Nat) : ∀ (f : Nat) (l : List Nat) (j k : Nat), j < k →
    (up pri f l j)[k]? = l[k]?
  | 0, l, j, k, _ => by simp [up]
  | f + 1, l, j, k, h => by
    unfold up
    simp only
    split
    · rfl
    · rw [up_getElem?_gt pri f _ _ k (by omega)]
      exact swap_getElem?_other _ _ _ _ (by omega) (by omega)

theorem down_getElem?_ge (pri : Nat → Nat) : ∀ (f : Nat) (l : List Nat) (i n k : Nat), i < n → n ≤ k →
    (down pri f l i n).1[k]? = l[k]?
  | 0, l, i, n, k, _, _ => by simp [down]
  | f + 1, l, i, n, k, hi, hk => by
    unfold down
    simp only
    repeat' split
    all_goals first
      | rfl
      | (rw [down_getElem?_ge pri f _ _ n k (by omega) hk]
         exact swap_getElem?_other _ _ _ _ (by omega) (by omega))

/-- `heap.Remove(i)` removes the element stored at index `i` -/
theorem heapRemove_elem (pri : Nat → Nat) (l : List Nat) (i x : Nat) (l' : List Nat)
    (h : heapRemove pri l i = some (x, l')) : l[i]? = some x := by
  unfold heapRemove at h
  split at h
  · cases h
  · rename_i hlt
    simp only at h
    split at h
    · rename_i y hy
      cases h
      have hlen : i < l.length := by omega
      split at hy
      · rename_i hne
        have hn : l.length - 1 < l.length := by omega
        have hin : i < l.length - 1 := by omega
        -- the last position of the rearranged list still holds l[i]
        have key : ∀ l2 : List Nat, l2.length = l.length → l2[l.length - 1]? = l[i]? → l2.getLast? = l[i]? := by
          intro l2 hl2 h2
          rw [List.getLast?_eq_getElem?, hl2]; exact h2
        split at hy
        · rw [← hy]; symm
          apply key
          · exact ((down_perm _ _ _ _ _).trans (swap_perm _ _ _)).length_eq
          · rw [down_getElem?_ge pri _ _ _ _ _ hin (Nat.le_refl _)]
            exact swap_getElem?_right _ _ _ hlen hn
        · rw [← hy]; symm
          apply key
          · exact ((up_perm _ _ _ _).trans ((down_perm _ _ _ _ _).trans (swap_perm _ _ _))).length_eq
          · rw [up_getElem?_gt pri _ _ _ _ hin, down_getElem?_ge pri _ _ _ _ _ hin (Nat.le_refl _)]
            exact swap_getElem?_right _ _ _ hlen hn
      · rename_i hne
        have : l.length - 1 = i := by simpa using hne
        rw [← hy, List.getLast?_eq_getElem?, this]
    · cases h

theorem popN_perm (pri : Nat → Nat) : ∀ (k : Nat) (hp acc tk hp' : List Nat),
    popN pri k hp acc = (tk, hp') → (tk ++ hp').Perm (acc.reverse ++ hp)
  | 0, hp, acc, tk, hp', h => by
    simp [popN] at h; obtain ⟨rfl, rfl⟩ := h; exact Perm.refl _
  | k + 1, hp, acc, tk, hp', h => by
    unfold popN at h
    split at h
    · rename_i x hp1 hpop
      have ih := popN_perm pri k hp1 (x :: acc) tk hp' h
      have hp_perm := heapPop_perm pri hp x hp1 hpop
      refine ih.trans ?_
      simp only [reverse_cons, append_assoc, singleton_append]
      exact Perm.append_left _ hp_perm.symm
    · simp at h; obtain ⟨rfl, rfl⟩ := h; exact Perm.refl _

theorem takeN_perm (pri : Nat → Nat) (n : Nat) (hp tk hp' : List Nat)
    (h : takeN pri n hp = (tk, hp')) : (tk ++ hp').Perm hp := by
  unfold takeN at h
  split at h
  · simp at h; obtain ⟨rfl, rfl⟩ := h; simp
  · split at h
    · simp at h; obtain ⟨rfl, rfl⟩ := h; simp
    · simpa using popN_perm pri n hp [] tk hp' h

theorem fetchLoop_perm (pri : Nat → Nat) (max : Nat) : ∀ (f : Nat) (ch hp ch' hp' : List Nat),
    fetchLoop pri max f ch hp = (ch', hp') → (ch' ++ hp').Perm (ch ++ hp)
  | 0, ch, hp, ch', hp', h => by
    simp [fetchLoop] at h; obtain ⟨rfl, rfl⟩ := h; exact Perm.refl _
  | f + 1, ch, hp, ch', hp', h => by
    unfold fetchLoop at h
    split at h
    · simp at h; obtain ⟨rfl, rfl⟩ := h; exact Perm.refl _
    · rename_i x rest
      split at h
      · have ih := fetchLoop_perm pri max f rest _ ch' hp' h
        refine ih.trans ?_
        have := heapPush_perm pri hp x
        exact (Perm.append_left rest this).trans (by simpa using (perm_middle (a := x) (l₁ := rest) (l₂ := hp)))
      · simp at h; obtain ⟨rfl, rfl⟩ := h; exact Perm.refl _

/-- `clean` removes only canceled entries and permutes the rest -/
theorem cleanLoop_spec (pri : Nat → Nat) (canc : Nat → Bool) : ∀ (f i : Nat) (hp : List Nat),
    ∃ rm, hp.Perm (rm ++ cleanLoop pri canc f i hp) ∧ ∀ x ∈ rm, canc x = true
  | 0, i, hp => ⟨[], by simp [cleanLoop], by simp⟩
  | f + 1, i, hp => by
    unfold cleanLoop
    split
    · exact ⟨[], by simp, by simp⟩
    · rename_i x hx
      split
      · rename_i hc
        split
        · rename_i y hp1 hrm
          obtain ⟨rm, h1, h2⟩ := cleanLoop_spec pri canc f i hp1
          have hperm := heapRemove_perm pri hp i y hp1 hrm
          -- the removed element is the one at index i
          have hy : canc y = true := by
            have := heapRemove_elem pri hp i y hp1 hrm
            rw [hx] at this; injection this with this; rw [← this]; exact hc
          exact ⟨y :: rm, hperm.trans (by simpa using Perm.cons y h1), by
            intro z hz; rcases List.mem_cons.mp hz with rfl | hz
            · exact hy
            · exact h2 z hz⟩
        · exact ⟨[], by simp, by simp⟩
      · exact cleanLoop_spec pri canc f (i + 1) hp


/-! ## the builder -/

def keep (es : List Entry) (h : Nat) : Bool :=
  match es[h]? with | some e => !e.canceled | none => false

structure BuildRel (es : List Entry) (tk : List Nat) (st st' : BuildSt) : Prop where
  hs : st'.items.map (·.h) = (tk.filter (keep es)).reverse ++ st.items.map (·.h)
  le : st.idAlloc ≤ st'.idAlloc
  mem : ∀ it ∈ st'.items, it ∈ st.items ∨ (it.h ∈ tk ∧ st.idAlloc < it.id ∧ it.id ≤ st'.idAlloc ∧
          ∃ e, es[it.h]? = some e ∧ e.canceled = false ∧ it.fwd = e.fwd ∧ it.req = e.payload)
  mono : (st.items.map (·.id)).Pairwise (· > ·) → (∀ it ∈ st.items, it.id ≤ st.idAlloc) →
          (st'.items.map (·.id)).Pairwise (· > ·) ∧ ∀ it ∈ st'.items, it.id ≤ st'.idAlloc

theorem BuildRel.refl (es : List Entry) (st : BuildSt) : BuildRel es [] st st :=
  ⟨by simp, Nat.le_refl _, fun it h => Or.inl h, fun h1 h2 => ⟨h1, h2⟩⟩

theorem BuildRel.trans {es : List Entry} {a b : List Nat} {s1 s2 s3 : BuildSt}
    (h1 : BuildRel es a s1 s2) (h2 : BuildRel es b s2 s3) : BuildRel es (a ++ b) s1 s3 where
  hs := by rw [h2.hs, h1.hs]; simp
  le := Nat.le_trans h1.le h2.le
  mem := by
    intro it hit
    rcases h2.mem it hit with h | ⟨hm, hlt, hle, e, he⟩
    · rcases h1.mem it h with h | ⟨hm, hlt, hle, e, he⟩
      · exact Or.inl h
      · exact Or.inr ⟨by simp [hm], hlt, Nat.le_trans hle h2.le, e, he⟩
    · exact Or.inr ⟨by simp [hm], Nat.lt_of_le_of_lt h1.le hlt, hle, e, he⟩
  mono := by
    intro p q
    obtain ⟨p2, q2⟩ := h1.mono p q
    exact h2.mono p2 q2

theorem buildItems_rel (es : List Entry) : ∀ (tk : List Nat) (st : BuildSt), BuildRel es tk st (buildItems es st tk)
  | [], st => by simpa [buildItems] using BuildRel.refl es st
  | h :: rest, st => by
    unfold buildItems
    split
    · rename_i hn
      have ih := buildItems_rel es rest st
      have : keep es h = false := by simp [keep, hn]
      refine ⟨?_, ih.le, ?_, ih.mono⟩
      · rw [ih.hs]; simp [List.filter_cons, this]
      · intro it hit
        rcases ih.mem it hit with h' | ⟨hm, r⟩
        · exact Or.inl h'
        · exact Or.inr ⟨by simp [hm], r⟩
    · rename_i e he
      split
      · rename_i hc
        have ih := buildItems_rel es rest st
        have : keep es h = false := by simp [keep, he, hc]
        refine ⟨?_, ih.le, ?_, ih.mono⟩
        · rw [ih.hs]; simp [List.filter_cons, this]
        · intro it hit
          rcases ih.mem it hit with h' | ⟨hm, r⟩
          · exact Or.inl h'
          · exact Or.inr ⟨by simp [hm], r⟩
      · rename_i hc
        have hc' : e.canceled = false := by simpa using hc
        have ih := buildItems_rel es rest
          { idAlloc := st.idAlloc + 1, count := (if e.pri < highTaskPriority then st.count + 1 else st.count),
            items := { id := st.idAlloc + 1, h := h, fwd := e.fwd, req := e.payload } :: st.items }
        have hk : keep es h = true := by simp [keep, he, hc']
        refine ⟨?_, ?_, ?_, ?_⟩
        · rw [ih.hs]; simp [List.filter_cons, hk]
        · exact Nat.le_trans (Nat.le_succ _) ih.le
        · intro it hit
          rcases ih.mem it hit with h' | ⟨hm, hlt, hle, r⟩
          · simp only [List.mem_cons] at h'
            rcases h' with rfl | h'
            · exact Or.inr ⟨by simp, by simp, by simpa using ih.le, e, he, hc', rfl, rfl⟩
            · exact Or.inl h'
          · exact Or.inr ⟨by simp [hm], by simp at hlt; omega, hle, r⟩
        · intro p q
          apply ih.mono
          · simp only [List.map_cons, List.pairwise_cons]
            refine ⟨?_, p⟩
            intro a ha
            obtain ⟨it, hit, rfl⟩ := List.mem_map.mp ha
            have := q it hit
            show st.idAlloc + 1 > it.id
            omega
          · intro it hit
            simp only [List.mem_cons] at hit
            rcases hit with rfl | hit
            · simp
            · have := q it hit; simp; omega

/-- the whole build loop: the queue is split into the part handed to `build` and the rest -/
theorem buildLoop_rel (es : List Entry) (limit : Nat) : ∀ (f : Nat) (hp : List Nat) (st : BuildSt) (hp' : List Nat) (st' : BuildSt),
    buildLoop es limit f hp st = (hp', st') → ∃ tk, (tk ++ hp').Perm hp ∧ BuildRel es tk st st'
  | 0, hp, st, hp', st', h => by
    simp [buildLoop] at h; obtain ⟨rfl, rfl⟩ := h
    exact ⟨[], by simp, BuildRel.refl es st⟩
  | f + 1, hp, st, hp', st', h => by
    unfold buildLoop at h
    split at h
    · simp only at h
      generalize htk : takeN (priOf es) (if limit = 0 then 1 else limit) hp = r at h
      obtain ⟨tk, hp1⟩ := r
      simp only at h
      obtain ⟨tk2, hperm, hrel⟩ := buildLoop_rel es limit f hp1 _ hp' st' h
      have h1 := takeN_perm _ _ _ _ _ htk
      refine ⟨tk ++ tk2, ?_, (buildItems_rel es tk st).trans hrel⟩
      rw [List.append_assoc]
      exact (Perm.append_left tk hperm).trans h1
    · simp at h; obtain ⟨rfl, rfl⟩ := h
      exact ⟨[], by simp, BuildRel.refl es st⟩


/-! ## per-entry invariant -/

def chanDone (e : Entry) : Prop := (∃ p, e.chan = .full p) ∨ (∃ err, e.chan = .closed err)

structure EntryOK (e : Entry) : Prop where
  fresh0 : e.chan = .fresh → e.ncomp = 0 ∧ e.got = none
  used1 : e.chan ≠ .fresh → e.ncomp = 1
  ret0 : e.ret = none → e.nret = 0
  ret1 : e.ret ≠ none → e.nret = 1
  canc : e.canceled = true → e.ret ≠ none
  full : ∀ p, e.chan = .full p → ∃ id, e.got = some (id, p)
  taken : e.chan = .taken → e.ret ≠ none
  retp : ∀ p, e.ret = some (.resp p) → ∃ id, e.got = some (id, p)

theorem EntryOK.respond {e : Entry} (h : EntryOK e) (hf : e.chan = .fresh) (id p : Nat) : EntryOK (e.respond id p) := by
  have := h.fresh0 hf
  constructor <;> simp_all [Entry.respond]
  · exact h.ret0
  · exact h.ret1
  · exact h.canc
  · intro q hq
    have := h.retp q hq
    simp_all

theorem EntryOK.fail {e : Entry} (h : EntryOK e) (hf : e.chan = .fresh) (err : Err) : EntryOK (e.fail err) := by
  have := h.fresh0 hf
  constructor <;> simp_all [Entry.fail]
  · exact h.ret0
  · exact h.ret1
  · exact h.canc
  · intro q hq
    have := h.retp q hq
    simp_all

theorem EntryOK.abandon {e : Entry} (h : EntryOK e) (err : Err) : EntryOK (e.abandon err) := by
  unfold Entry.abandon
  split
  · exact h
  · rename_i hr
    have := h.ret0 hr
    constructor <;> simp_all
    · exact h.fresh0
    · exact h.used1
    · exact h.full

theorem EntryOK.wake {e : Entry} (h : EntryOK e) : EntryOK e.wake := by
  unfold Entry.wake
  split
  · exact h
  · rename_i hr
    have h0 := h.ret0 hr
    split
    · rename_i p hp
      have := h.full p hp
      have h1 := h.used1 (by simp [hp])
      constructor <;> simp_all
    · rename_i err hp
      have h1 := h.used1 (by simp [hp])
      constructor <;> simp_all
    · exact h

/-- a change of an entry that neither completes nor un-completes its channel -/
structure Benign (e e' : Entry) : Prop where
  chan_fresh : e'.chan = .fresh ↔ e.chan = .fresh
  ok : EntryOK e → EntryOK e'
  ret : e.ret ≠ none → e'.ret ≠ none
  done : chanDone e → chanDone e' ∨ e'.ret ≠ none
  fwd : e'.fwd = e.fwd
  got : e'.got = e.got
  payload : e'.payload = e.payload

theorem Benign.refl (e : Entry) : Benign e e :=
  ⟨Iff.rfl, id, id, Or.inl, rfl, rfl, rfl⟩

theorem Benign.abandon (e : Entry) (err : Err) : Benign e (e.abandon err) := by
  refine ⟨?_, fun h => h.abandon err, ?_, ?_, ?_, ?_, ?_⟩ <;> unfold Entry.abandon <;> split <;> simp_all

theorem Benign.wake (e : Entry) : Benign e e.wake := by
  refine ⟨?_, fun h => h.wake, ?_, ?_, ?_, ?_, ?_⟩ <;> unfold Entry.wake <;> split <;> try simp_all
  all_goals (split <;> simp_all [chanDone])

end CGV.BatchMux
