/- ordered-map plumbing of the MVCC model: getEntry / setEntry / applyAct over a key-sorted list -/
import ClientGoVerif.Model.Mvcc
import ClientGoVerif.Proofs.Bytes
namespace CGV.Mvcc
open CGV

/-- keys strictly ascending -/
def KvSorted : List (Bytes × Entry) → Prop
  | [] => True
  | [_] => True
  | (k1, _) :: (k2, e2) :: rest => Bytes.cmp k1 k2 = .lt ∧ KvSorted ((k2, e2) :: rest)

theorem KvSorted.tail {p : Bytes × Entry} {kv : List (Bytes × Entry)} (h : KvSorted (p :: kv)) : KvSorted kv := by
  cases kv with
  | nil => trivial
  | cons q rest => obtain ⟨k1, e1⟩ := p; obtain ⟨k2, e2⟩ := q; exact h.2

theorem cmp_trans_lt {a b c : Bytes} (h1 : Bytes.cmp a b = .lt) (h2 : Bytes.cmp b c = .lt) : Bytes.cmp a c = .lt := by
  induction a generalizing b c with
  | nil => cases b <;> cases c <;> simp_all [Bytes.cmp]
  | cons x xs ih =>
    cases b with
    | nil => simp [Bytes.cmp] at h1
    | cons y ys =>
      cases c with
      | nil => simp [Bytes.cmp] at h2
      | cons z zs =>
        simp only [Bytes.cmp] at h1 h2 ⊢
        by_cases hxy : x < y
        · by_cases hyz : y < z
          · simp [UInt8.lt_trans hxy hyz]
          · by_cases hzy : z < y
            · simp [hyz, hzy] at h2
            · have : y = z := UInt8.le_antisymm (UInt8.not_lt.mp hzy) (UInt8.not_lt.mp hyz)
              subst this; simp [hxy]
        · by_cases hyx : y < x
          · simp [hxy, hyx] at h1
          · have : x = y := UInt8.le_antisymm (UInt8.not_lt.mp hyx) (UInt8.not_lt.mp hxy)
            subst this
            simp only [hxy, if_false] at h1
            by_cases hyz : x < z
            · simp [hyz]
            · by_cases hzy : z < x
              · simp [hyz, hzy] at h2
              · simp only [hyz, hzy, if_false] at h2 ⊢
                exact ih h1 h2

/-- every key of a sorted list after its head is greater than the head -/
theorem KvSorted.head_lt {k : Bytes} {e : Entry} {kv : List (Bytes × Entry)} (h : KvSorted ((k, e) :: kv)) :
    ∀ p ∈ kv, Bytes.cmp k p.1 = .lt := by
  induction kv generalizing k e with
  | nil => intro p hp; cases hp
  | cons q rest ih =>
    obtain ⟨k2, e2⟩ := q
    intro p hp
    cases hp with
    | head => exact h.1
    | tail _ hp' => exact cmp_trans_lt h.1 (ih h.2 p hp')

theorem getEntry_of_lt {k : Bytes} {kv : List (Bytes × Entry)} (h : ∀ p ∈ kv, Bytes.cmp k p.1 = .lt) :
    getEntry kv k = {} := by
  induction kv with
  | nil => rfl
  | cons q rest ih =>
    obtain ⟨k2, e2⟩ := q
    have hlt := h (k2, e2) (List.mem_cons_self ..)
    have hne : (k2 == k) = false := by
      apply beq_false_of_ne
      intro heq; subst heq; rw [Bytes.cmp_self] at hlt; cases hlt
    simp only [getEntry, hne]
    exact ih (fun p hp => h p (List.mem_cons_of_mem _ hp))

theorem beq_of_cmp_eq {a b : Bytes} (h : Bytes.cmp a b = .eq) : a = b := (Bytes.cmp_eq_iff a b).mp h

/-- reading back after setEntry, on a sorted map -/
theorem getEntry_setEntry (kv : List (Bytes × Entry)) (k k' : Bytes) (e : Entry) (hs : KvSorted kv) :
    getEntry (setEntry kv k e) k' =
      if k' = k then (if e.isEmpty then {} else e) else getEntry kv k' := by
  induction kv with
  | nil =>
    by_cases hk : k' = k
    · subst hk; by_cases he : e.isEmpty <;> simp [setEntry, getEntry, he]
    · have : (k == k') = false := beq_false_of_ne (Ne.symm hk)
      by_cases he : e.isEmpty <;> simp [setEntry, getEntry, he, hk, this]
  | cons q rest ih =>
    obtain ⟨k2, e2⟩ := q
    simp only [setEntry]
    cases hc : Bytes.cmp k k2 with
    | lt =>
      by_cases hk : k' = k
      · subst hk
        have hne : (k2 == k') = false := by
          apply beq_false_of_ne; intro heq; subst heq; rw [Bytes.cmp_self] at hc; cases hc
        by_cases he : e.isEmpty
        · simp only [he, if_true, getEntry, hne]
          exact getEntry_of_lt (fun p hp => cmp_trans_lt hc (hs.head_lt p hp))
        · simp [he, getEntry]
      · have : (k == k') = false := beq_false_of_ne (Ne.symm hk)
        by_cases he : e.isEmpty <;> simp [he, getEntry, hk, this]
    | eq =>
      have hkk := beq_of_cmp_eq hc
      subst hkk
      by_cases hk : k' = k
      · subst hk
        by_cases he : e.isEmpty
        · simp only [he, if_true]
          exact getEntry_of_lt (fun p hp => hs.head_lt p hp)
        · simp [he, getEntry]
      · have : (k == k') = false := beq_false_of_ne (Ne.symm hk)
        by_cases he : e.isEmpty <;> simp [he, getEntry, hk, this]
    | gt =>
      by_cases h2 : k2 = k'
      · subst h2
        have hne : ¬ k2 = k := by
          intro heq; subst heq; rw [Bytes.cmp_self] at hc; cases hc
        simp [getEntry, hne]
      · have h2' : (k2 == k') = false := beq_false_of_ne h2
        simp only [getEntry, h2']
        rw [ih hs.tail]
        simp

end CGV.Mvcc

namespace CGV.Mvcc
open CGV

theorem isEmpty_eq (e : Entry) (h : e.isEmpty = true) : e = {} := by
  obtain ⟨l, w⟩ := e
  simp only [Entry.isEmpty, Bool.and_eq_true, Option.isNone_iff_eq_none, List.isEmpty_iff] at h
  simp [h.1, h.2]

theorem getEntry_setEntry_same (kv : List (Bytes × Entry)) (k : Bytes) (e : Entry) (hs : KvSorted kv) :
    getEntry (setEntry kv k e) k = e := by
  rw [getEntry_setEntry kv k k e hs]
  by_cases he : e.isEmpty = true
  · simp [he, (isEmpty_eq e he).symm]
  · simp [he]

theorem getEntry_setEntry_other (kv : List (Bytes × Entry)) (k k' : Bytes) (e : Entry) (hs : KvSorted kv) (hne : k' ≠ k) :
    getEntry (setEntry kv k e) k' = getEntry kv k' := by
  rw [getEntry_setEntry kv k k' e hs]; simp [hne]

/-- all keys of the map are greater than `k` -/
def AllGt (k : Bytes) (kv : List (Bytes × Entry)) : Prop := ∀ p ∈ kv, Bytes.cmp k p.1 = .lt

theorem KvSorted.cons_iff {k : Bytes} {e : Entry} {kv : List (Bytes × Entry)} :
    KvSorted ((k, e) :: kv) ↔ AllGt k kv ∧ KvSorted kv := by
  constructor
  · intro h; exact ⟨h.head_lt, h.tail⟩
  · intro ⟨hg, hs⟩
    cases kv with
    | nil => trivial
    | cons q rest => obtain ⟨k2, e2⟩ := q; exact ⟨hg (k2, e2) (List.mem_cons_self ..), hs⟩

theorem mem_setEntry {kv : List (Bytes × Entry)} {k : Bytes} {e : Entry} {p : Bytes × Entry}
    (h : p ∈ setEntry kv k e) : p ∈ kv ∨ p.1 = k := by
  induction kv with
  | nil =>
    simp only [setEntry] at h
    split at h
    · cases h
    · simp at h; right; rw [h]
  | cons q rest ih =>
    obtain ⟨k2, e2⟩ := q
    simp only [setEntry] at h
    split at h
    · split at h
      · left; exact h
      · cases h with
        | head => right; rfl
        | tail _ h' => left; exact h'
    · split at h
      · left; exact List.mem_cons_of_mem _ h
      · cases h with
        | head => right; rfl
        | tail _ h' => left; exact List.mem_cons_of_mem _ h'
    · cases h with
      | head => left; exact List.mem_cons_self ..
      | tail _ h' =>
        cases ih h' with
        | inl h'' => left; exact List.mem_cons_of_mem _ h''
        | inr h'' => right; exact h''

theorem cmp_gt_swap {a b : Bytes} (h : Bytes.cmp a b = .gt) : Bytes.cmp b a = .lt := by
  rw [← Bytes.cmp_swap, h]; rfl

theorem setEntry_sorted (kv : List (Bytes × Entry)) (k : Bytes) (e : Entry) (hs : KvSorted kv) :
    KvSorted (setEntry kv k e) := by
  induction kv with
  | nil => simp only [setEntry]; split <;> trivial
  | cons q rest ih =>
    obtain ⟨k2, e2⟩ := q
    simp only [setEntry]
    cases hc : Bytes.cmp k k2 with
    | lt =>
      simp only []
      split
      · exact hs
      · exact ⟨hc, hs⟩
    | eq =>
      have := beq_of_cmp_eq hc
      subst this
      simp only []
      split
      · exact hs.tail
      · exact KvSorted.cons_iff.mpr ⟨hs.head_lt, hs.tail⟩
    | gt =>
      simp only []
      apply KvSorted.cons_iff.mpr
      refine ⟨?_, ih hs.tail⟩
      intro p hp
      cases mem_setEntry hp with
      | inl h => exact hs.head_lt p h
      | inr h => rw [h]; exact cmp_gt_swap hc

/-- the effect of one batch entry on the entry of its key -/
def Act.key : Act → Bytes
  | .putLock k _ => k | .delLock k => k | .putWrite k _ => k | .delWrite k _ => k

def entryAct (e : Entry) : Act → Entry
  | .putLock _ l => { e with lock := some l }
  | .delLock _ => { e with lock := none }
  | .putWrite _ w => { e with writes := putWrite e.writes w }
  | .delWrite _ c => { e with writes := delWrite e.writes c }

theorem applyAct_sorted (kv : List (Bytes × Entry)) (a : Act) (hs : KvSorted kv) : KvSorted (applyAct kv a) := by
  cases a <;> exact setEntry_sorted _ _ _ hs

theorem getEntry_applyAct (kv : List (Bytes × Entry)) (a : Act) (k : Bytes) (hs : KvSorted kv) :
    getEntry (applyAct kv a) k = if k = a.key then entryAct (getEntry kv k) a else getEntry kv k := by
  have main : ∀ (k0 : Bytes) (f : Entry → Entry),
      getEntry (setEntry kv k0 (f (getEntry kv k0))) k = if k = k0 then f (getEntry kv k) else getEntry kv k := by
    intro k0 f
    by_cases hk : k = k0
    · subst hk; simp [getEntry_setEntry_same _ _ _ hs]
    · simp [hk, getEntry_setEntry_other _ _ _ _ hs hk]
  cases a with
  | putLock k0 l => exact main k0 (fun e => { e with lock := some l })
  | delLock k0 => exact main k0 (fun e => { e with lock := none })
  | putWrite k0 w => exact main k0 (fun e => { e with writes := putWrite e.writes w })
  | delWrite k0 c => exact main k0 (fun e => { e with writes := delWrite e.writes c })

theorem applyBatch_sorted (kv : List (Bytes × Entry)) (b : List Act) (hs : KvSorted kv) : KvSorted (applyBatch kv b) := by
  induction b generalizing kv with
  | nil => exact hs
  | cons a rest ih => exact ih _ (applyAct_sorted kv a hs)

/-- a batch acts on every key independently: only the entries of that key matter, in order -/
theorem getEntry_applyBatch (kv : List (Bytes × Entry)) (b : List Act) (k : Bytes) (hs : KvSorted kv) :
    getEntry (applyBatch kv b) k = (b.filter fun a => a.key == k).foldl entryAct (getEntry kv k) := by
  induction b generalizing kv with
  | nil => rfl
  | cons a rest ih =>
    simp only [applyBatch, List.foldl_cons] at ih ⊢
    rw [ih _ (applyAct_sorted kv a hs), getEntry_applyAct kv a k hs]
    by_cases hk : k = a.key
    · subst hk; simp [List.filter_cons]
    · have : (a.key == k) = false := beq_false_of_ne (Ne.symm hk)
      simp [List.filter_cons, hk, this]

end CGV.Mvcc
