/- ordered-map plumbing of the MVCC model: getEntry / setEntry / applyAct over a key-sorted list -/
import ClientGoVerif.Model.Mvcc
import ClientGoVerif.Proofs.Bytes
namespace CGV.Mvcc
open CGV

/-- keys strictly ascending -/
def KvSorted : List (Bytes × Entry) → Prop
  | [] => True
  | [_] => True
  | (k1, _) :: (k2, e2) :: rest => Bytes.cmp k1 k2 = .lt ∧ KvSorted ((k2, e2) :: rest)

theorem KvSorted.tail {p : Bytes × Entry} {kv : List (Bytes × Entry)} (h : KvSorted (p :: kv)) : KvSorted kv := by
  cases kv with
  | nil => trivial
  | cons q rest => obtain ⟨k1, e1⟩ := p; obtain ⟨k2, e2⟩ := q; exact h.2

theorem cmp_trans_lt {a b c : Bytes} (h1 : Bytes.cmp a b = .lt) (h2 : Bytes.cmp b c = .lt) : Bytes.cmp a c = .lt := by
  induction a generalizing b c with
  | nil => cases b <;> cases c <;> simp_all [Bytes.cmp]
  | cons x xs ih =>
    cases b with
    | nil => simp [Bytes.cmp] at h1
    | cons y ys =>
      cases c with
      | nil => simp [Bytes.cmp] at h2
      | cons z zs =>
        simp only [Bytes.cmp] at h1 h2 ⊢
        by_cases hxy : x < y
        · by_cases hyz : y < z
          · simp [UInt8.lt_trans hxy hyz]
          · by_cases hzy : z < y
            · simp [hyz, hzy] at h2
            · have : y = z := UInt8.le_antisymm (UInt8.not_lt.mp hzy) (UInt8.not_lt.mp hyz)
              subst this; simp [hxy]
        · by_cases hyx : y < x
          · simp [hxy, hyx] at h1
          · have : x = y := UInt8.le_antisymm (UInt8.not_lt.mp hyx) (UInt8.not_lt.mp hxy)
            subst this
            simp only [hxy, if_false] at h1
            by_cases hyz : x < z
            · simp [hyz]
            · by_cases hzy : z < x
              · simp [hyz, hzy] at h2
              · simp only [hyz, hzy, if_false] at h2 ⊢
                exact ih h1 h2

/-- every key of a sorted list after its head is greater than the head -/
theorem KvSorted.head_lt {k : Bytes} {e : Entry} {kv : List (Bytes × Entry)} (h : KvSorted ((k, e) :: kv)) :
    ∀ p ∈ kv, Bytes.cmp k p.1 = .lt := by
  induction kv generalizing k e with
  | nil => intro p hp; cases hp
  | cons q rest ih =>
    obtain ⟨k2, e2⟩ := q
    intro p hp
    cases hp with
    | head => exact h.1
    | tail _ hp' => exact cmp_trans_lt h.1 (ih h.2 p hp')

theorem getEntry_of_lt {k : Bytes} {kv : List (Bytes × Entry)} (h : ∀ p ∈ kv, Bytes.cmp k p.1 = .lt) :
    getEntry kv k = {} := by
  induction kv with
  | nil => rfl
  | cons q rest ih =>
    obtain ⟨k2, e2⟩ := q
    have hlt := h (k2, e2) (List.mem_cons_self ..)
    have hne : (k2 == k) = false := by
      apply beq_false_of_ne
      intro heq; subst heq; rw [Bytes.cmp_self] at hlt; cases hlt
    simp only [getEntry, hne]
    exact ih (fun p hp => h p (List.mem_cons_of_mem _ hp))

theorem beq_of_cmp_eq {a b : Bytes} (h : Bytes.cmp a b = .eq) : a = b := (Bytes.cmp_eq_iff a b).mp h

/-- reading back after setEntry, on a sorted map -/
theorem getEntry_setEntry (kv : List (Bytes × Entry)) (k k' : Bytes) (e : Entry) (hs : KvSorted kv) :
    getEntry (setEntry kv k e) k' =
      if k' = k then (if e.isEmpty then {} else e) else getEntry kv k' := by
  induction kv with
  | nil =>
    by_cases hk : k' = k
    · subst hk; by_cases he : e.isEmpty <;> simp [setEntry, getEntry, he]
    · have : (k == k') = false := beq_false_of_ne (Ne.symm hk)
      by_cases he : e.isEmpty <;> simp [setEntry, getEntry, he, hk, this]
  | cons q rest ih =>
    obtain ⟨k2, e2⟩ := q
    simp only [setEntry]
    cases hc : Bytes.cmp k k2 with
    | lt =>
      by_cases hk : k' = k
      · subst hk
        have hne : (k2 == k') = false := by
          apply beq_false_of_ne; intro heq; subst heq; rw [Bytes.cmp_self] at hc; cases hc
        by_cases he : e.isEmpty
        · simp only [he, if_true, getEntry, hne]
          exact getEntry_of_lt (fun p hp => cmp_trans_lt hc (hs.head_lt p hp))
        · simp [he, getEntry]
      · have : (k == k') = false := beq_false_of_ne (Ne.symm hk)
        by_cases he : e.isEmpty <;> simp [he, getEntry, hk, this]
    | eq =>
      have hkk := beq_of_cmp_eq hc
      subst hkk
      by_cases hk : k' = k
      · subst hk
        by_cases he : e.isEmpty
        · simp only [he, if_true]
          exact getEntry_of_lt (fun p hp => hs.head_lt p hp)
        · simp [he, getEntry]
      · have : (k == k') = false := beq_false_of_ne (Ne.symm hk)
        by_cases he : e.isEmpty <;> simp [he, getEntry, hk, this]
    | gt =>
      by_cases h2 : k2 = k'
      · subst h2
        have hne : ¬ k2 = k := by
          intro heq; subst heq; rw [Bytes.cmp_self] at hc; cases hc
        simp [getEntry, hne]
      · have h2' : (k2 == k') = false := beq_false_of_ne h2
        simp only [getEntry, h2']
        rw [ih hs.tail]
        simp

end CGV.Mvcc
