/-
  C17: invariants about the waiting lists (stage 2): a lock is in a slot's waiting list exactly when its
  thread is blocked on a key of that slot, and every blocked lock's key has a holder or a pending wake-up.
-/
import ClientGoVerif.Proofs.LatchInv
namespace CGV.Latch
open CGV

/-- waiting lists `wl` agree with the phases in `locks` -/
structure WOK (slotOf : Key → Nat) (wl : Nat → List LockId) (locks : Nat → Option Lock) : Prop where
  nodup : ∀ i, (wl i).Nodup
  mem : ∀ i l, l ∈ wl i ↔ ∃ lk k, locks l = some lk ∧ lk.phase = .waiting ∧ lk.nextKey = some k ∧ slotOf k = i

theorem WOK.setLock {slotOf : Key → Nat} {wl : Nat → List LockId} {locks : Nat → Option Lock}
    (h : WOK slotOf wl locks) {l : LockId} {lk' : Lock}
    (hold : ∀ lk, locks l = some lk → lk.phase ≠ .waiting) (hnew : lk'.phase ≠ .waiting) :
    WOK slotOf wl (upd locks l (some lk')) where
  nodup := h.nodup
  mem := by
    intro i l'
    rw [h.mem]
    constructor
    · rintro ⟨x, k, hx, hp, hk, hs⟩
      have : l' ≠ l := by intro e; subst e; exact hold x hx hp
      exact ⟨x, k, by simp [upd_ne _ _ this, hx], hp, hk, hs⟩
    · rintro ⟨x, k, hx, hp, hk, hs⟩
      rcases upd_some hx with ⟨_, e⟩ | ⟨_, hx⟩
      · subst e; exact absurd hp hnew
      · exact ⟨x, k, hx, hp, hk, hs⟩

theorem WOK.push {slotOf : Key → Nat} {wl : Nat → List LockId} {locks : Nat → Option Lock}
    (h : WOK slotOf wl locks) {l : LockId} {lk' : Lock} {key : Key} {i : Nat}
    (hold : ∀ lk, locks l = some lk → lk.phase ≠ .waiting) (hp' : lk'.phase = .waiting)
    (hk' : lk'.nextKey = some key) (hs' : slotOf key = i) :
    WOK slotOf (upd wl i (wl i ++ [l])) (upd locks l (some lk')) where
  nodup := by
    intro j
    simp only [upd_apply]
    split
    · next e =>
      subst e
      refine List.nodup_append.mpr ⟨h.nodup _, by simp, ?_⟩
      intro a ha b hb
      simp at hb; subst hb
      intro e; subst e
      obtain ⟨x, _, hx, hp, _⟩ := (h.mem _ _).mp ha
      exact hold x hx hp
    · exact h.nodup j
  mem := by
    intro j l'
    have hnot : ∀ j, l ∉ wl j := by
      intro j hm
      obtain ⟨x, _, hx, hp, _⟩ := (h.mem _ _).mp hm
      exact hold x hx hp
    by_cases e : l' = l
    · subst e
      simp only [upd_same, upd_apply]
      constructor
      · intro hm
        split at hm
        · next ej => exact ⟨lk', key, rfl, hp', hk', by rw [hs', ej]⟩
        · exact absurd hm (hnot j)
      · rintro ⟨x, k, hx, _, hk, hs⟩
        cases hx
        rw [hk'] at hk; cases hk
        rw [hs'] at hs
        simp [hs]
    · simp only [upd_ne _ _ e, upd_apply]
      rw [← h.mem]
      split
      · next ej => subst ej; simp [e]
      · rfl

theorem WOK.pop {slotOf : Key → Nat} {wl : Nat → List LockId} {locks : Nat → Option Lock}
    (h : WOK slotOf wl locks) {w : LockId} {lkw' : Lock} {i : Nat}
    (hw : w ∈ wl i) (hp' : lkw'.phase ≠ .waiting) :
    WOK slotOf (upd wl i ((wl i).erase w)) (upd locks w (some lkw')) where
  nodup := by
    intro j
    simp only [upd_apply]
    split
    · next e => subst e; exact (h.nodup _).erase w
    · exact h.nodup j
  mem := by
    intro j l'
    -- `w` is in exactly one waiting list
    have huniq : ∀ j, w ∈ wl j → j = i := by
      intro j hm
      obtain ⟨x, k, hx, _, hk, hs⟩ := (h.mem _ _).mp hm
      obtain ⟨x', k', hx', _, hk', hs'⟩ := (h.mem _ _).mp hw
      rw [hx] at hx'; cases hx'; rw [hk] at hk'; cases hk'; rw [← hs, ← hs']
    by_cases e : l' = w
    · subst e
      simp only [upd_same]
      constructor
      · intro hm
        simp only [upd_apply] at hm
        split at hm
        · next ej => subst ej; exact absurd hm (by simp [(h.nodup _).mem_erase_iff])
        · next ej => exact absurd (huniq j hm) ej
      · rintro ⟨x, _, hx, hp, _⟩
        cases hx; exact absurd hp hp'
    · simp only [upd_ne _ _ e, upd_apply]
      rw [← h.mem]
      split
      · next ej => subst ej; rw [(h.nodup _).mem_erase_iff]; simp [e]
      · rfl

def wl (s : State) : Nat → List LockId := fun i => (s.slots i).waiting

theorem wl_upd (s : State) (i : Nat) (sl' : Slot) (locks' : Nat → Option Lock) (nl : Nat) (pub : List (Key × Nat)) :
    wl { slots := upd s.slots i sl', locks := locks', nlocks := nl, published := pub } = upd (wl s) i sl'.waiting := by
  funext j; simp only [wl, upd_apply]; split <;> rfl

theorem upd_self {α : Type} (f : Nat → α) (i : Nat) : upd f i (f i) = f := by
  funext j; simp only [upd_apply]; split
  · next e => rw [e]
  · rfl

structure Inv2 (cfg : Cfg) (s : State) : Prop where
  wok : WOK cfg.slotOf (wl s) s.locks
  wake : ∀ l lk k, s.locks l = some lk → lk.phase = .waiting → lk.nextKey = some k →
    HasHolder cfg s k ∨ HasWoken cfg s k

theorem Inv2.init (cfg : Cfg) : Inv2 cfg Latch.init where
  wok := ⟨by simp [wl, Latch.init, emptySlot], by simp [wl, Latch.init, emptySlot]⟩
  wake := by simp [Latch.init]

theorem phase_ne_waiting_of {lk : Lock} (hp : lk.phase = .acquiring ∨ lk.phase = .woken) : lk.phase ≠ .waiting := by
  rcases hp with h | h <;> simp [h]

theorem succ_phase_ne (lk : Lock) : (succLock lk).phase ≠ .waiting := by
  simp only [succLock, phaseAfterSuccess]; split <;> simp

theorem rel_phase_ne (lk : Lock) : (relLock lk).phase ≠ .waiting := by
  simp only [relLock]; split <;> simp

theorem wok_eff {cfg : Cfg} {s s' : State} (h1 : Inv1 cfg s) (h : WOK cfg.slotOf (wl s) s.locks)
    (e : Eff cfg s s') : WOK cfg.slotOf (wl s') s'.locks := by
  cases e with
  | gen ts keys hnd =>
    refine h.setLock ?_ ?_
    · intro lk hl; exact absurd (h1.fresh _ _ hl) (Nat.lt_irrefl _)
    · simp only; split <;> simp
  | recycle i ts =>
    have : wl (recycleSlot cfg s i ts) = wl s := by
      funext j; simp only [wl, recycleSlot, upd_apply]; split
      · next e => subst e; rfl
      · rfl
    rw [this]; exact h
  | staleRet l lk hl hp hst =>
    exact h.setLock (fun x hx => by rw [hl] at hx; cases hx; exact phase_ne_waiting_of hp) (by simp)
  | acqNew l lk key slotID hl hp hst hk hs hf =>
    rw [wl_upd]; show WOK _ (upd (wl s) slotID (wl s slotID)) _
    rw [upd_self]
    exact h.setLock (fun x hx => by rw [hl] at hx; cases hx; exact phase_ne_waiting_of hp) (succ_phase_ne lk)
  | acqStale l lk key slotID n hl hp hst hk hs hf hgt =>
    exact h.setLock (fun x hx => by rw [hl] at hx; cases hx; exact phase_ne_waiting_of hp) (by simp)
  | acqFree l lk key slotID n hl hp hst hk hs hf hle hh =>
    rw [wl_upd]; show WOK _ (upd (wl s) slotID (wl s slotID)) _
    rw [upd_self]
    exact h.setLock (fun x hx => by rw [hl] at hx; cases hx; exact phase_ne_waiting_of hp) (succ_phase_ne lk)
  | acqLocked l lk key slotID n o hl hp hst hk hs hf hle hh =>
    rw [wl_upd]
    exact h.push (fun x hx => by rw [hl] at hx; cases hx; exact phase_ne_waiting_of hp) rfl hk
      (slot_of_key (h1.wf _ _ hl) hk hs).symm
  | unlock l lk c hl hp =>
    refine h.setLock (fun x hx => by rw [hl] at hx; cases hx; simp [hp]) ?_
    simp only; split <;> simp
  | relNone l lk key slotID n hl hp hc hk hs hf hh hw =>
    rw [wl_upd]; show WOK _ (upd (wl s) slotID (wl s slotID)) _
    rw [upd_self]
    exact h.setLock (fun x hx => by rw [hl] at hx; cases hx; simp [hp]) (rel_phase_ne lk)
  | relStale l lk key slotID n w lkw hl hp hc hk hs hf hh hw hlw hgt =>
    rw [wl_upd]
    exact (h.setLock (fun x hx => by rw [hl] at hx; cases hx; simp [hp]) (rel_phase_ne lk)).pop
      (awaits_key hw hlw).2 (by simp)
  | relWake l lk key slotID n w lkw hl hp hc hk hs hf hh hw hlw hle =>
    rw [wl_upd]
    exact (h.setLock (fun x hx => by rw [hl] at hx; cases hx; simp [hp]) (rel_phase_ne lk)).pop
      (awaits_key hw hlw).2 (by simp)

/-- for key `k`: the node is unchanged and pending wake-ups for `k` keep their lock record -/
theorem wake_transfer {cfg : Cfg} {s s' : State} {k : Key}
    (hN : nodeOf cfg s' k = nodeOf cfg s k)
    (hW : ∀ w lkw, s.locks w = some lkw → lkw.phase = .woken → lkw.isStale = false → lkw.nextKey = some k →
      s'.locks w = some lkw)
    (h : HasHolder cfg s k ∨ HasWoken cfg s k) : HasHolder cfg s' k ∨ HasWoken cfg s' k := by
  rcases h with ⟨n, o, hn, ho⟩ | ⟨w, lkw, hw, hp, hst, hk, hm⟩
  · left; exact ⟨n, o, by rw [hN]; exact hn, ho⟩
  · right; exact ⟨w, lkw, hW w lkw hw hp hst hk, hp, hst, hk, by rw [hN]; exact hm⟩

/-- node of another key after rewriting the node of `key` in its slot -/
theorem nodeOf_updNode_ne {cfg : Cfg} {s : State} {slotID : Nat} {key k : Key} {f : Node → Node}
    {cnt : Int} {wt : List LockId} {locks' : Nat → Option Lock} {nl : Nat} {pub : List (Key × Nat)}
    (hfk : ∀ m, (f m).key = m.key) (hne : k ≠ key) :
    nodeOf cfg { slots := upd s.slots slotID { queue := updNode key f (s.slots slotID).queue, count := cnt, waiting := wt },
                 locks := locks', nlocks := nl, published := pub } k = nodeOf cfg s k := by
  rw [nodeOf_upd]
  split
  · next e => simp only [findNode_updNode_ne hfk hne, nodeOf, e]
  · rfl

theorem nodeOf_updNode_same {cfg : Cfg} {s : State} {slotID : Nat} {key : Key} {f : Node → Node} {n : Node}
    {cnt : Int} {wt : List LockId} {locks' : Nat → Option Lock} {nl : Nat} {pub : List (Key × Nat)}
    (hfk : ∀ m, (f m).key = m.key) (hsl : slotID = cfg.slotOf key)
    (hf : findNode (s.slots slotID).queue key = some n) :
    nodeOf cfg { slots := upd s.slots slotID { queue := updNode key f (s.slots slotID).queue, count := cnt, waiting := wt },
                 locks := locks', nlocks := nl, published := pub } key = some (f n) := by
  rw [nodeOf_upd, if_pos hsl.symm]
  simp only [findNode_updNode_same hfk, hf, Option.map_some]

theorem nodeOf_wait {cfg : Cfg} {s : State} {slotID : Nat} {k : Key}
    {cnt : Int} {wt : List LockId} {locks' : Nat → Option Lock} {nl : Nat} {pub : List (Key × Nat)} :
    nodeOf cfg { slots := upd s.slots slotID { queue := (s.slots slotID).queue, count := cnt, waiting := wt },
                 locks := locks', nlocks := nl, published := pub } k = nodeOf cfg s k := by
  rw [nodeOf_upd]
  split
  · next e => simp only [nodeOf, e]
  · rfl

theorem wake_eff {cfg : Cfg} {s s' : State} (h1 : Inv1 cfg s) (h2 : Inv2 cfg s) (e : Eff cfg s s') :
    ∀ l lk k, s'.locks l = some lk → lk.phase = .waiting → lk.nextKey = some k →
      HasHolder cfg s' k ∨ HasWoken cfg s' k := by
  cases e with
  | gen ts keys hnd =>
    intro W x k hx hp hk
    rcases upd_some hx with ⟨_, e⟩ | ⟨_, hx⟩
    · subst e; simp only at hp; split at hp <;> cases hp
    · refine wake_transfer (s := s) (by rfl) ?_ (h2.wake W x k hx hp hk)
      intro w lkw hw _ _ _
      have := h1.fresh _ _ hw
      show upd s.locks s.nlocks _ w = some lkw
      rw [upd_ne _ _ (Nat.ne_of_lt this)]; exact hw
  | recycle i ts =>
    intro W x k hx hp hk
    have hx : s.locks W = some x := hx
    rcases h2.wake W x k hx hp hk with ⟨n, o, hn, ho⟩ | ⟨w, lkw, hw, hpw, hst, hkw, hm⟩
    · left
      refine ⟨n, o, ?_, ho⟩
      unfold recycleSlot; rw [nodeOf_upd]
      split
      · next e => subst e; exact findNode_filter_keep hn (keep_of_holder ho)
      · exact hn
    · right
      refine ⟨w, lkw, hw, hpw, hst, hkw, ?_⟩
      intro n hn
      apply hm
      unfold recycleSlot at hn; rw [nodeOf_upd] at hn
      split at hn
      · next e => subst e; exact findNode_filter (h1.qnodup _) hn
      · exact hn
  | staleRet l lk hl hp hst =>
    intro W x k hx hpx hk
    rcases upd_some hx with ⟨_, e⟩ | ⟨_, hx⟩
    · subst e; cases hpx
    · refine wake_transfer (s := s) (by rfl) ?_ (h2.wake W x k hx hpx hk)
      intro w lkw hw _ hstw _
      have : w ≠ l := by intro e; subst e; rw [hl] at hw; cases hw; rw [hst] at hstw; cases hstw
      show upd s.locks l _ w = some lkw
      rw [upd_ne _ _ this]; exact hw
  | acqNew l lk key slotID hl hp hst hk hs hf =>
    intro W x k hx hpx hkx
    have hsl : slotID = cfg.slotOf key := slot_of_key (h1.wf _ _ hl) hk hs
    rcases upd_some hx with ⟨_, e⟩ | ⟨_, hx⟩
    · subst e; exact absurd hpx (succ_phase_ne lk)
    · by_cases ek : k = key
      · subst ek; left
        refine ⟨newNode k l, l, ?_, rfl⟩
        rw [nodeOf_upd, if_pos hsl.symm]; simp [findNode_cons, newNode]
      · refine wake_transfer (s := s) ?_ ?_ (h2.wake W x k hx hpx hkx)
        · rw [nodeOf_upd]; split
          · next e =>
            have : (newNode key l).key ≠ k := fun e => ek e.symm
            simp [findNode_cons, this, nodeOf, e]
          · rfl
        · intro w lkw hw _ _ hkw
          have : w ≠ l := by
            intro e; subst e; rw [hl] at hw; cases hw
            rw [Lock.nextKey, hk] at hkw; cases hkw; exact ek rfl
          show upd s.locks l _ w = some lkw
          rw [upd_ne _ _ this]; exact hw
  | acqStale l lk key slotID n hl hp hst hk hs hf hgt =>
    intro W x k hx hpx hkx
    have hsl : slotID = cfg.slotOf key := slot_of_key (h1.wf _ _ hl) hk hs
    rcases upd_some hx with ⟨_, e⟩ | ⟨_, hx⟩
    · subst e; cases hpx
    · rcases h2.wake W x k hx hpx hkx with hh | ⟨w, lkw, hw, hpw, hstw, hkw, hm⟩
      · left; obtain ⟨n', o', hn', ho'⟩ := hh; exact ⟨n', o', hn', ho'⟩
      · have : w ≠ l := by
          intro e; subst e; rw [hl] at hw; cases hw
          rw [Lock.nextKey, hk] at hkw; cases hkw
          have := hm n (by rw [nodeOf, ← hsl]; exact hf)
          omega
        right
        exact ⟨w, lkw, by show upd s.locks l _ w = some lkw; rw [upd_ne _ _ this]; exact hw, hpw, hstw, hkw, hm⟩
  | acqFree l lk key slotID n hl hp hst hk hs hf hle hh =>
    intro W x k hx hpx hkx
    have hsl : slotID = cfg.slotOf key := slot_of_key (h1.wf _ _ hl) hk hs
    have hfk : ∀ m : Node, ({ m with holder := some l } : Node).key = m.key := fun _ => rfl
    rcases upd_some hx with ⟨_, e⟩ | ⟨_, hx⟩
    · subst e; exact absurd hpx (succ_phase_ne lk)
    · by_cases ek : k = key
      · subst ek; left
        exact ⟨_, l, nodeOf_updNode_same hfk hsl hf, rfl⟩
      · refine wake_transfer (s := s) (nodeOf_updNode_ne hfk ek) ?_ (h2.wake W x k hx hpx hkx)
        intro w lkw hw _ _ hkw
        have : w ≠ l := by
          intro e; subst e; rw [hl] at hw; cases hw
          rw [Lock.nextKey, hk] at hkw; cases hkw; exact ek rfl
        show upd s.locks l _ w = some lkw
        rw [upd_ne _ _ this]; exact hw
  | acqLocked l lk key slotID n o hl hp hst hk hs hf hle hh =>
    intro W x k hx hpx hkx
    have hsl : slotID = cfg.slotOf key := slot_of_key (h1.wf _ _ hl) hk hs
    have hkeyHolder : HasHolder cfg s key := ⟨n, o, by rw [nodeOf, ← hsl]; exact hf, hh⟩
    have hgoal : ∀ k, HasHolder cfg s k ∨ HasWoken cfg s k → k ≠ key →
        HasHolder cfg { s with
          slots := upd s.slots slotID { (s.slots slotID) with waiting := (s.slots slotID).waiting ++ [l] },
          locks := upd s.locks l (some { lk with phase := .waiting }) } k ∨
        HasWoken cfg { s with
          slots := upd s.slots slotID { (s.slots slotID) with waiting := (s.slots slotID).waiting ++ [l] },
          locks := upd s.locks l (some { lk with phase := .waiting }) } k := by
      intro k hk' ek
      refine wake_transfer (s := s) nodeOf_wait ?_ hk'
      intro w lkw hw _ _ hkw
      have : w ≠ l := by
        intro e; subst e; rw [hl] at hw; cases hw
        rw [Lock.nextKey, hk] at hkw; cases hkw; exact ek rfl
      show upd s.locks l _ w = some lkw
      rw [upd_ne _ _ this]; exact hw
    by_cases ek : k = key
    · subst ek; left
      obtain ⟨n', o', hn', ho'⟩ := hkeyHolder
      exact ⟨n', o', by rw [nodeOf_wait]; exact hn', ho'⟩
    · rcases upd_some hx with ⟨_, e⟩ | ⟨_, hx⟩
      · subst e
        rw [Lock.nextKey] at hkx; simp only at hkx
        rw [hk] at hkx; cases hkx; exact absurd rfl ek
      · exact hgoal k (h2.wake W x k hx hpx hkx) ek
  | unlock l lk c hl hp =>
    intro W x k hx hpx hk
    rcases upd_some hx with ⟨_, e⟩ | ⟨_, hx⟩
    · subst e; simp only at hpx; split at hpx <;> cases hpx
    · refine wake_transfer (s := s) (by rfl) ?_ (h2.wake W x k hx hpx hk)
      intro w lkw hw hpw _ _
      have : w ≠ l := by intro e; subst e; rw [hl] at hw; cases hw; rw [hp] at hpw; cases hpw
      show upd s.locks l _ w = some lkw
      rw [upd_ne _ _ this]; exact hw
  | relNone l lk key slotID n hl hp hc hk hs hf hh hw =>
    intro W x k hx hpx hkx
    have hsl : slotID = cfg.slotOf key := slot_of_key (h1.wf _ _ hl) hk hs
    rcases upd_some hx with ⟨_, e⟩ | ⟨hWl, hx0⟩
    · subst e; exact absurd hpx (rel_phase_ne lk)
    · have ek : k ≠ key := by
        intro e; subst e
        have hm : W ∈ (s.slots slotID).waiting := (h2.wok.mem slotID W).mpr ⟨x, k, hx0, hpx, hkx, hsl.symm⟩
        have := List.find?_eq_none.mp hw W hm
        simp only [awaits, hx0] at this
        rw [Lock.nextKey] at hkx; simp [hkx] at this
      refine wake_transfer (s := s) (nodeOf_updNode_ne (relF_key _ _ _) ek) ?_ (h2.wake W x k hx0 hpx hkx)
      intro w lkw hw' hpw _ _
      have : w ≠ l := by intro e; subst e; rw [hl] at hw'; cases hw'; rw [hp] at hpw; cases hpw
      show upd s.locks l _ w = some lkw
      rw [upd_ne _ _ this]; exact hw'
  | relStale l lk key slotID n w lkw hl hp hc hk hs hf hh hw hlw hgt =>
    intro W x k hx hpx hkx
    have hsl : slotID = cfg.slotOf key := slot_of_key (h1.wf _ _ hl) hk hs
    obtain ⟨hkw, hwm⟩ := awaits_key hw hlw
    obtain ⟨lkw0, _, hlw0, hpw0, _, _⟩ := (h2.wok.mem slotID w).mp hwm
    rw [hlw] at hlw0; cases hlw0
    rcases upd_some hx with ⟨_, e⟩ | ⟨hWw, hx⟩
    · subst e; cases hpx
    · rcases upd_some hx with ⟨_, e⟩ | ⟨hWl, hx⟩
      · subst e; exact absurd hpx (rel_phase_ne lk)
      · by_cases ek : k = key
        · subst ek; left
          exact ⟨_, w, nodeOf_updNode_same (relF_key _ _ _) hsl hf, rfl⟩
        · refine wake_transfer (s := s) (nodeOf_updNode_ne (relF_key _ _ _) ek) ?_ (h2.wake W x k hx hpx hkx)
          intro w' lkw' hw' hpw' _ _
          have h1' : w' ≠ l := by intro e; subst e; rw [hl] at hw'; cases hw'; rw [hp] at hpw'; cases hpw'
          have h2' : w' ≠ w := by intro e; subst e; rw [hlw] at hw'; cases hw'; rw [hpw0] at hpw'; cases hpw'
          show upd (upd s.locks l _) w _ w' = some lkw'
          rw [upd_ne _ _ h2', upd_ne _ _ h1']; exact hw'
  | relWake l lk key slotID n w lkw hl hp hc hk hs hf hh hw hlw hle =>
    intro W x k hx hpx hkx
    have hsl : slotID = cfg.slotOf key := slot_of_key (h1.wf _ _ hl) hk hs
    obtain ⟨hkw, hwm⟩ := awaits_key hw hlw
    obtain ⟨lkw0, _, hlw0, hpw0, _, _⟩ := (h2.wok.mem slotID w).mp hwm
    rw [hlw] at hlw0; cases hlw0
    have hstw : lkw.isStale = false := by
      have := h1.phase _ _ hlw; unfold PhaseOK at this; rw [hpw0] at this; exact this.1
    rcases upd_some hx with ⟨_, e⟩ | ⟨hWw, hx⟩
    · subst e; cases hpx
    · rcases upd_some hx with ⟨_, e⟩ | ⟨hWl, hx⟩
      · subst e; exact absurd hpx (rel_phase_ne lk)
      · by_cases ek : k = key
        · subst ek; right
          refine ⟨w, { lkw with phase := .woken }, by simp, rfl, hstw, hkw, ?_⟩
          intro n' hn'
          rw [nodeOf_updNode_same (relF_key _ _ _) hsl hf] at hn'
          cases hn'
          simp only [relNodeF]; omega
        · refine wake_transfer (s := s) (nodeOf_updNode_ne (relF_key _ _ _) ek) ?_ (h2.wake W x k hx hpx hkx)
          intro w' lkw' hw' hpw' _ _
          have h1' : w' ≠ l := by intro e; subst e; rw [hl] at hw'; cases hw'; rw [hp] at hpw'; cases hpw'
          have h2' : w' ≠ w := by intro e; subst e; rw [hlw] at hw'; cases hw'; rw [hpw0] at hpw'; cases hpw'
          show upd (upd s.locks l _) w _ w' = some lkw'
          rw [upd_ne _ _ h2', upd_ne _ _ h1']; exact hw'

end CGV.Latch
