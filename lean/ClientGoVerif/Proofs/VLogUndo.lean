/-
  C08 helper lemmas, part 3: walking the log backwards (RevertToCheckpoint / Cleanup) refines "every key forgets the
  versions newer than the mark".
-/
import ClientGoVerif.Proofs.VLogWrite
namespace CGV.MemBuf
open CGV

theorem Inv.setStages {m : VLog} (hi : Inv m) (st : List Nat) (h1 : ∀ c ∈ st, c ≤ m.log.length) (h2 : st.Pairwise (· ≤ ·)) :
    Inv { m with stages := st } :=
  ⟨hi.wl, hi.vptr, hi.owner, hi.nodup, hi.len, hi.size, hi.del, h1, h2⟩

theorem Inv.setLastCp {m : VLog} (hi : Inv m) (c : Nat) : Inv { m with lastCp := c } :=
  ⟨hi.wl, hi.vptr, hi.owner, hi.nodup, hi.len, hi.size, hi.del, hi.stagesLe, hi.stagesSorted⟩

theorem upsertNode_of_mem (nodes : List Node) (k : Bytes) (f : Node → Node) (h : ∃ n ∈ nodes, n.key = k) :
    VLog.upsertNode nodes k f = nodes.map (fun n => if n.key = k then f n else n) := by
  have hany : nodes.any (fun n => n.key = k) = true := by
    obtain ⟨n, hn, hk⟩ := h
    simp only [List.any_eq_true]; exact ⟨n, hn, by simpa using hk⟩
  simp [VLog.upsertNode, VLog.ensureNode, VLog.modifyNode, hany]

theorem upsert_of_mem (cells : List Cell) (k : Bytes) (g : Cell → Cell) (h : ∃ c ∈ cells, c.key = k) :
    Spec.upsert cells k g = Spec.modify cells k g := by
  have hany : cells.any (fun c => c.key = k) = true := by
    obtain ⟨c, hc, hk⟩ := h
    simp only [List.any_eq_true]; exact ⟨c, hc, by simpa using hk⟩
  simp [Spec.upsert, Spec.ensure, hany]

theorem undoCell_nil (cp : Nat) (c : Cell) (h : c.versions = []) : Spec.undoCell cp c = c := by
  simp [Spec.undoCell, h]

theorem undoCell_le (cp : Nat) (c : Cell) (h : ∀ x ∈ c.versions, x.1 ≤ cp) : Spec.undoCell cp c = c := by
  cases hv : c.versions with
  | nil => exact undoCell_nil cp c hv
  | cons y ys =>
    obtain ⟨a, v⟩ := y
    have : a ≤ cp := h (a, v) (by simp [hv])
    simp [Spec.undoCell, hv, this]

/-- the cell of the newest entry's key, before and after RevertVAddr, forgets the same things -/
theorem undoCell_pop (cp top : Nat) (ev : Bytes) (c : Cell) (vr : List Version) (g : Cell → Cell)
    (hc : c.versions = (top, ev) :: vr) (htop : cp < top)
    (hg : g c = (if vr = [] then Spec.flagsRule c else { c with versions := vr })) :
    Spec.undoCell cp (g c) = Spec.undoCell cp c := by
  have hlhs : Spec.undoCell cp c =
      (if (vr.dropWhile (fun x => decide (x.1 > cp))).isEmpty then Spec.flagsRule c
       else { c with versions := vr.dropWhile (fun x => decide (x.1 > cp)) }) := by
    have h1 : ¬ top ≤ cp := by omega
    have h2 : decide (top > cp) = true := by simp; omega
    simp [Spec.undoCell, hc, h1, List.dropWhile_cons, h2]
  rw [hlhs, hg]
  cases hvr : vr with
  | nil =>
    simp [Spec.flagsRule]
    split <;> simp [Spec.undoCell]
  | cons y ys =>
    obtain ⟨a, v⟩ := y
    simp only [List.cons_ne_nil, if_false]
    by_cases ha : a ≤ cp
    · have h3 : decide (a > cp) = false := by simp; omega
      simp [Spec.undoCell, ha, List.dropWhile_cons, h3]
    · have h3 : decide (a > cp) = true := by simp; omega
      simp only [Spec.undoCell, ha, if_false, List.dropWhile_cons, h3, if_true]
      split
      · simp [Spec.flagsRule]
      · rfl

theorem cell_unique {m : VLog} (hi : Inv m) (k : Bytes) (n0 : Node) (hfind : m.findNode k = some n0)
    (c : Cell) (hc : c ∈ (abs m).cells) (hk : c.key = k) : c = absNode m.log n0 := by
  simp only [abs, List.mem_map] at hc
  obtain ⟨n, hn, rfl⟩ := hc
  have hnk : n.key = k := hk
  have := find_unique m.nodes hi.nodup n hn
  rw [hnk] at this
  simp only [VLog.findNode] at hfind
  rw [hfind] at this
  cases this; rfl

/-- the shape shared by the three branches of RevertVAddr -/
theorem pop_branch {m : VLog} (hi : Inv m) (e : Entry) (rest : List Entry) (hlog : m.log = e :: rest)
    (n0 : Node) (hfind : m.findNode e.key = some n0) (f : Node → Node) (g : Cell → Cell) (len' size' : Int)
    (hf : ∀ n, (f n).key = n.key)
    (hk : absNode rest (f n0) = g (absNode m.log n0))
    (hvk : (f n0).vptr = topAddr (versionsOf e.key rest))
    (hdel : (f n0).deleted = true → (f n0).vptr = 0)
    (hlen : len' = m.len - Spec.cellCount (absNode m.log n0) + Spec.cellCount (g (absNode m.log n0)))
    (hsize : size' = m.size - Spec.cellSize (absNode m.log n0) + Spec.cellSize (g (absNode m.log n0)))
    (hg : g (absNode m.log n0) = (if versionsOf e.key rest = [] then Spec.flagsRule (absNode m.log n0)
                                   else { absNode m.log n0 with versions := versionsOf e.key rest })) :
    let m1 : VLog := { m with log := rest, nodes := m.nodes.map (fun n => if n.key = e.key then f n else n),
                              len := len', size := size', stages := [] }
    Inv m1 ∧ ∀ cp, cp ≤ rest.length → (abs m1).cells.map (Spec.undoCell cp) = (abs m).cells.map (Spec.undoCell cp) := by
  intro m1
  have hn0 : n0 ∈ m.nodes := List.mem_of_find?_eq_some hfind
  have hn0k : n0.key = e.key := by simpa using List.find?_some hfind
  have hwl : WL (e :: rest) := hlog ▸ hi.wl
  have hi0 : Inv { m with stages := [] } := hi.setStages [] (by simp) (by simp)
  have hgetD : (({ m with stages := [] } : VLog).findNode e.key).getD (VLog.freshNode e.key) = n0 := by
    show (m.findNode e.key).getD _ = n0
    rw [hfind]; rfl
  have hb := write_branch hi0 e.key f g rest len' size' m.dirty hf
    (by rw [hgetD]; exact hk) hwl.2
    (by
      intro k' hk'
      show versionsOf k' rest = versionsOf k' m.log
      have hne : ¬ e.key = k' := fun h => hk' h.symm
      rw [hlog]; simp [versionsOf, hne])
    (by rw [hgetD]; exact hvk)
    (by
      intro e' he'
      right
      exact hi.owner e' (by rw [hlog]; simp [he']))
    (by rw [hgetD]; exact hdel)
    (by simp)
    (by rw [hgetD]; exact hlen)
    (by rw [hgetD]; exact hsize)
  have hm1 : m1 = { ({ m with stages := [] } : VLog) with
      nodes := VLog.upsertNode ({ m with stages := [] } : VLog).nodes e.key f, log := rest, len := len', size := size', dirty := m.dirty } := by
    simp only [m1]
    rw [upsertNode_of_mem m.nodes e.key f ⟨n0, hn0, hn0k⟩]
  rw [hm1]
  refine ⟨hb.2, ?_⟩
  intro cp hcp
  rw [hb.1]
  have hex : ∃ c ∈ (abs m).cells, c.key = e.key :=
    ⟨absNode m.log n0, by simp only [abs]; exact List.mem_map_of_mem hn0, hn0k⟩
  show (Spec.upsert (abs m).cells e.key g).map (Spec.undoCell cp) = _
  rw [upsert_of_mem _ _ _ hex]
  simp only [Spec.modify, List.map_map]
  apply List.map_congr_left
  intro c hc
  by_cases hck : c.key = e.key
  · have hceq := cell_unique hi e.key n0 hfind c hc hck
    simp only [Function.comp, hck, if_true]
    rw [hceq]
    apply undoCell_pop cp (rest.length + 1) e.value (absNode m.log n0) (versionsOf e.key rest) g
    · simp [absNode, hn0k, hlog, versionsOf]
    · omega
    · exact hg
  · simp [Function.comp, hck]

/-- one step of the backwards walk -/
theorem pop1 {m : VLog} (hi : Inv m) (e : Entry) (rest : List Entry) (hlog : m.log = e :: rest) :
    let r := VLog.revertVAddr e rest m.nodes m.len m.size
    let m1 : VLog := { m with log := rest, nodes := r.1, len := r.2.1, size := r.2.2, stages := [] }
    Inv m1 ∧ ∀ cp, cp ≤ rest.length → (abs m1).cells.map (Spec.undoCell cp) = (abs m).cells.map (Spec.undoCell cp) := by
  obtain ⟨n0, hn0, hn0k⟩ := hi.owner e (by rw [hlog]; simp)
  have hfind : m.findNode e.key = some n0 := by
    have := find_unique m.nodes hi.nodup n0 hn0
    rw [hn0k] at this; exact this
  have hfind' : m.nodes.find? (fun n => n.key = e.key) = some n0 := hfind
  have hwl : WL (e :: rest) := hlog ▸ hi.wl
  have hold : e.old = topAddr (versionsOf e.key rest) := hwl.1
  have hvs : versionsOf e.key m.log = (rest.length + 1, e.value) :: versionsOf e.key rest := by
    rw [hlog]; simp [versionsOf]
  have hvp : n0.vptr = rest.length + 1 := by
    have := hi.vptr n0 hn0
    rw [hn0k, hvs] at this; exact this
  have hnd : n0.deleted = false := by
    cases hd : n0.deleted
    · rfl
    · have := hi.del n0 hn0 hd; omega
  by_cases h0 : e.old = 0
  · have hnil : versionsOf e.key rest = [] := topAddr_eq_zero (by rw [← hold]; exact h0)
    by_cases hkept : KeyFlags.andPersistent n0.flags = 0
    · have hb := pop_branch hi e rest hlog n0 hfind
        (fun n => { n with vptr := 0, flags := 0, deleted := true })
        (fun c => { c with versions := [], present := false, flags := 0 })
        (m.len - 1) (m.size - (e.value.length : Int) - (e.key.length : Int))
        (fun _ => rfl)
        (by simp [absNode, hn0k, hnil])
        (by simp [hnil, topAddr]) (fun _ => rfl)
        (by simp [Spec.cellCount, absNode, hnd])
        (by simp [Spec.cellSize, absNode, hnd, Cell.valLen, hn0k, hvs]; omega)
        (by simp [hnil, Spec.flagsRule, absNode, hkept])
      simpa [VLog.revertVAddr, h0, hfind', hkept] using hb
    · have hb := pop_branch hi e rest hlog n0 hfind
        (fun n => { n with vptr := 0, flags := KeyFlags.andPersistent n0.flags })
        (fun c => { c with versions := [], flags := KeyFlags.andPersistent n0.flags })
        m.len (m.size - (e.value.length : Int))
        (fun _ => rfl)
        (by simp [absNode, hn0k, hnil])
        (by simp [hnil, topAddr]) (fun h => by simp [hnd] at h)
        (by simp [Spec.cellCount, absNode, hnd])
        (by simp [Spec.cellSize, absNode, hnd, Cell.valLen, hn0k, hvs]; omega)
        (by simp [hnil, Spec.flagsRule, absNode, hkept])
      simpa [VLog.revertVAddr, h0, hfind', hkept] using hb
  · have hne : versionsOf e.key rest ≠ [] := by
      intro h; rw [h] at hold; exact h0 hold
    obtain ⟨y, ys, hys⟩ := List.exists_cons_of_ne_nil hne
    obtain ⟨a, v⟩ := y
    have ha : e.old = a := by rw [hold, hys]; rfl
    have hgv : VLog.getValue rest e.old = v := by rw [ha]; exact getValue_top e.key rest a v ys hys
    have hb := pop_branch hi e rest hlog n0 hfind
      (fun n => { n with vptr := e.old })
      (fun c => { c with versions := versionsOf e.key rest })
      m.len (m.size - (e.value.length : Int) + ((VLog.getValue rest e.old).length : Int))
      (fun _ => rfl)
      (by simp [absNode, hn0k])
      (by simp [hold]) (fun h => by simp [hnd] at h)
      (by simp [Spec.cellCount, absNode, hnd])
      (by simp [Spec.cellSize, absNode, hnd, Cell.valLen, hn0k, hvs, hys, hgv]; omega)
      (by simp [hne])
    simpa [VLog.revertVAddr, h0] using hb

theorem map_undoCell_id {m : VLog} (cp : Nat) (h : m.log.length ≤ cp) :
    (abs m).cells.map (Spec.undoCell cp) = (abs m).cells := by
  have : ∀ c ∈ (abs m).cells, Spec.undoCell cp c = c := by
    intro c hc
    simp only [abs, List.mem_map] at hc
    obtain ⟨n, _, rfl⟩ := hc
    apply undoCell_le
    intro x hx
    have := versionsOf_addr_le n.key m.log x hx
    omega
  calc (abs m).cells.map (Spec.undoCell cp) = (abs m).cells.map id := List.map_congr_left this
    _ = (abs m).cells := List.map_id _

/-- the whole backwards walk (RevertToCheckpoint + Truncate) -/
theorem revertLog_refines (log : List Entry) : ∀ (m : VLog), Inv m → m.log = log → ∀ cp, cp ≤ log.length →
    Inv { m with log := (VLog.revertLog cp log m.nodes m.len m.size).1,
                 nodes := (VLog.revertLog cp log m.nodes m.len m.size).2.1,
                 len := (VLog.revertLog cp log m.nodes m.len m.size).2.2.1,
                 size := (VLog.revertLog cp log m.nodes m.len m.size).2.2.2, stages := [] } ∧
    (VLog.revertLog cp log m.nodes m.len m.size).1.length = cp ∧
    (VLog.revertLog cp log m.nodes m.len m.size).2.1.map (absNode (VLog.revertLog cp log m.nodes m.len m.size).1)
      = (abs m).cells.map (Spec.undoCell cp) := by
  induction log with
  | nil =>
    intro m hi hlog cp hcp
    have hcp0 : cp = 0 := by simpa using hcp
    have hid := map_undoCell_id (m := m) cp (by rw [hlog]; simp)
    simp only [VLog.revertLog]
    refine ⟨?_, by simp [hcp0], ?_⟩
    · have := hi.setStages [] (by simp) (by simp)
      rw [hlog] at this
      simpa [hlog] using this
    · rw [hid]; simp [abs, hlog]
  | cons e rest ih =>
    intro m hi hlog cp hcp
    by_cases hstop : rest.length + 1 ≤ cp
    · have hid := map_undoCell_id (m := m) cp (by rw [hlog]; simpa using hstop)
      simp only [VLog.revertLog, hstop, if_true]
      refine ⟨?_, by simp at hcp ⊢; omega, ?_⟩
      · have := hi.setStages [] (by simp) (by simp)
        simpa [← hlog] using this
      · rw [hid]; simp [abs, hlog]
    · have hp := pop1 hi e rest hlog
      simp only at hp
      obtain ⟨hi1, hcells⟩ := hp
      have hcp' : cp ≤ rest.length := by omega
      have := ih _ hi1 rfl cp hcp'
      simp only [VLog.revertLog, hstop, if_false]
      obtain ⟨h1, h2, h3⟩ := this
      refine ⟨h1, h2, ?_⟩
      rw [h3]
      exact hcells cp hcp'

theorem revertTo_refines {m : VLog} (hi : Inv m) (cp : Nat) (hcp : cp ≤ m.log.length) (st : List Nat)
    (h1 : ∀ c ∈ st, c ≤ cp) (h2 : st.Pairwise (· ≤ ·)) :
    abs { (m.revertTo cp) with stages := st } = { (abs m).undoTo cp with marks := st } ∧
    Inv { (m.revertTo cp) with stages := st } := by
  obtain ⟨hinv, hlen, hcells⟩ := revertLog_refines m.log m hi rfl cp hcp
  constructor
  · simp only [abs, VLog.revertTo, Spec.undoTo, hlen]
    simp only [abs] at hcells
    rw [hcells]
  · have := (hinv.setStages st (by intro c hc; show c ≤ _; rw [hlen]; exact h1 c hc) h2).setLastCp (min m.lastCp cp)
    simpa [VLog.revertTo] using this

end CGV.MemBuf
