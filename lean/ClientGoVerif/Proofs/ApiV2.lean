/-
  Helper lemmas for C15 (keyspace codec): lexicographic order on byte strings, big-endian numbers,
  the memcomparable round trip needed for region keys.
-/
import ClientGoVerif.Model.ApiV2
import ClientGoVerif.Proofs.CodecBytes
namespace CGV.ApiV2.Lemmas
open CGV CGV.Codec CGV.ApiV2

/-! ## lexicographic order -/

theorem u8_lt_irrefl (a : UInt8) : ¬ a < a := by
  simp
theorem u8_eq_of_not_lt {a b : UInt8} (h1 : ¬ a < b) (h2 : ¬ b < a) : a = b := by
  apply UInt8.toNat_inj.mp
  simp [UInt8.lt_iff_toNat_lt] at h1 h2
  omega
theorem u8_lt_trans {a b c : UInt8} (h1 : a < b) (h2 : b < c) : a < c := by
  simp [UInt8.lt_iff_toNat_lt] at *; omega
theorem u8_lt_asymm {a b : UInt8} (h1 : a < b) : ¬ b < a := by
  simp [UInt8.lt_iff_toNat_lt] at *; omega

theorem cmp_refl (a : Bytes) : Bytes.cmp a a = .eq := by
  induction a with
  | nil => rfl
  | cons x xs ih => simp [Bytes.cmp, u8_lt_irrefl, ih]

theorem cmp_eq_iff {a b : Bytes} : Bytes.cmp a b = .eq ↔ a = b := by
  constructor
  · intro h
    induction a generalizing b with
    | nil => cases b <;> simp [Bytes.cmp] at h ⊢
    | cons x xs ih =>
      cases b with
      | nil => simp [Bytes.cmp] at h
      | cons y ys =>
        simp only [Bytes.cmp] at h
        split at h
        · cases h
        · split at h
          · cases h
          · rename_i h1 h2
            have : x = y := u8_eq_of_not_lt h1 h2
            rw [this, ih h]
  · intro h; subst h; exact cmp_refl a

theorem cmp_swap (a b : Bytes) : Bytes.cmp b a = (Bytes.cmp a b).swap := by
  induction a generalizing b with
  | nil => cases b <;> rfl
  | cons x xs ih =>
    cases b with
    | nil => rfl
    | cons y ys =>
      simp only [Bytes.cmp]
      by_cases h1 : x < y
      · have h2 : ¬ y < x := u8_lt_asymm h1
        simp [h1, h2]
      · by_cases h2 : y < x
        · simp [h1, h2]
        · simp [h1, h2, ih]

theorem cmp_append_left (p a b : Bytes) : Bytes.cmp (p ++ a) (p ++ b) = Bytes.cmp a b := by
  induction p with
  | nil => rfl
  | cons x xs ih => simp [Bytes.cmp, u8_lt_irrefl, ih]

/-- transitivity in the two mixed forms -/
theorem cmp_lt_of_lt_of_le {a b c : Bytes} (h1 : Bytes.cmp a b = .lt) (h2 : Bytes.cmp b c ≠ .gt) :
    Bytes.cmp a c = .lt := by
  induction a generalizing b c with
  | nil =>
    cases b with
    | nil => simp [Bytes.cmp] at h1
    | cons y ys => cases c with
      | nil => simp [Bytes.cmp] at h2
      | cons z zs => rfl
  | cons x xs ih =>
    cases b with
    | nil => simp [Bytes.cmp] at h1
    | cons y ys =>
      cases c with
      | nil => simp [Bytes.cmp] at h2
      | cons z zs =>
        simp only [Bytes.cmp] at h1 h2 ⊢
        by_cases hxy : x < y
        · by_cases hyz : y < z
          · have : x < z := u8_lt_trans hxy hyz
            simp [this]
          · by_cases hzy : z < y
            · simp [hyz, hzy] at h2
            · have : y = z := u8_eq_of_not_lt hyz hzy
              subst this; simp [hxy]
        · by_cases hyx : y < x
          · simp [hxy, hyx] at h1
          · have : x = y := u8_eq_of_not_lt hxy hyx
            subst this
            simp only [hxy, if_false] at h1
            by_cases hyz : x < z
            · simp [hyz]
            · by_cases hzy : z < x
              · simp [hyz, hzy] at h2
              · simp only [hyz, hzy, if_false] at h2 ⊢
                exact ih h1 h2

theorem cmp_lt_of_le_of_lt {a b c : Bytes} (h1 : Bytes.cmp a b ≠ .gt) (h2 : Bytes.cmp b c = .lt) :
    Bytes.cmp a c = .lt := by
  have h1' : Bytes.cmp b a ≠ .lt := by
    rw [cmp_swap a b]; cases h : Bytes.cmp a b <;> simp_all [Ordering.swap]
  have h2' : Bytes.cmp c b = .gt := by rw [cmp_swap b c, h2]; rfl
  cases h : Bytes.cmp a c with
  | lt => rfl
  | eq =>
    have := cmp_eq_iff.mp h; subst this
    rw [cmp_swap b a, h2] at h1; simp [Ordering.swap] at h1
  | gt =>
    have hca : Bytes.cmp c a = .lt := by rw [cmp_swap a c, h]; rfl
    have := cmp_lt_of_lt_of_le h2 (by rw [hca]; simp : Bytes.cmp c a ≠ .gt)
    rw [cmp_swap b a, this] at h1; simp [Ordering.swap] at h1

/-! ## big-endian numbers: equal-length strings compare like their values -/

theorem fromBE_cons (i : Nat) (c : UInt8) (a : Bytes) : fromBE i (c :: a) = fromBE (i * 256 + c.toNat) a := by
  simp [fromBE]

theorem fromBE_lt_of_lt : ∀ (a b : Bytes) (i j : Nat), a.length = b.length → i < j → fromBE i a < fromBE j b := by
  intro a
  induction a with
  | nil => intro b i j h hij; cases b <;> simp_all [fromBE]
  | cons c a ih =>
    intro b i j h hij
    cases b with
    | nil => simp at h
    | cons d b =>
      rw [fromBE_cons, fromBE_cons]
      apply ih
      · simpa using h
      · have := c.toNat_lt; have := d.toNat_lt; omega

theorem cmp_num (a b : Bytes) (i : Nat) (h : a.length = b.length) :
    Bytes.cmp a b = compare (fromBE i a) (fromBE i b) := by
  induction a generalizing b i with
  | nil => cases b <;> simp_all [fromBE, Bytes.cmp]
  | cons c a ih =>
    cases b with
    | nil => simp at h
    | cons d b =>
      have hl : a.length = b.length := by simpa using h
      rw [fromBE_cons, fromBE_cons]
      simp only [Bytes.cmp]
      by_cases h1 : c < d
      · have : fromBE (i * 256 + c.toNat) a < fromBE (i * 256 + d.toNat) b :=
          fromBE_lt_of_lt a b _ _ hl (by simp [UInt8.lt_iff_toNat_lt] at h1; omega)
        simp [h1, Nat.compare_eq_lt.mpr this]
      · by_cases h2 : d < c
        · have : fromBE (i * 256 + d.toNat) b < fromBE (i * 256 + c.toNat) a :=
            fromBE_lt_of_lt b a _ _ hl.symm (by simp [UInt8.lt_iff_toNat_lt] at h2; omega)
          simp [h1, h2, Nat.compare_eq_gt.mpr this]
        · have : c = d := u8_eq_of_not_lt h1 h2
          subst this
          simp only [h1, if_false]
          exact ih b _ hl


/-! ## prefixes -/

theorem isPrefix_append (p k : Bytes) : Bytes.isPrefix p (p ++ k) = true := by
  induction p with
  | nil => rfl
  | cons x xs ih => simp [Bytes.isPrefix, ih]

theorem isPrefix_eq_append {p x : Bytes} (h : Bytes.isPrefix p x = true) : x = p ++ x.drop p.length := by
  induction p generalizing x with
  | nil => simp
  | cons a ps ih =>
    cases x with
    | nil => simp [Bytes.isPrefix] at h
    | cons c xs =>
      simp [Bytes.isPrefix] at h
      obtain ⟨h1, h2⟩ := h
      subst h1
      simpa using ih h2

/-- a string that does not carry the prefix compares to every prefixed key like it compares to the prefix -/
theorem cmp_append_of_not_prefix {p x : Bytes} (k : Bytes) (h : Bytes.isPrefix p x = false) :
    Bytes.cmp x (p ++ k) = Bytes.cmp x p := by
  induction p generalizing x with
  | nil => simp [Bytes.isPrefix] at h
  | cons a ps ih =>
    cases x with
    | nil => rfl
    | cons c xs =>
      simp only [List.cons_append, Bytes.cmp]
      by_cases h1 : c < a
      · simp [h1]
      · by_cases h2 : a < c
        · simp [h1, h2]
        · have : c = a := u8_eq_of_not_lt h1 h2
          subst this
          simp only [h1, if_false]
          apply ih
          simpa [Bytes.isPrefix] using h

theorem cmp_ne_eq_of_not_prefix {p x : Bytes} (h : Bytes.isPrefix p x = false) : Bytes.cmp x p ≠ .eq := by
  intro he
  have := cmp_eq_iff.mp he
  subst this
  have := isPrefix_append x []
  simp [h] at this

/-- comparing a long string with a short one only looks at the first `|b|` bytes when the answer is `lt` -/
theorem cmp_lt_take {x b : Bytes} (h : b.length ≤ x.length) :
    (Bytes.cmp x b = .lt ↔ Bytes.cmp (x.take b.length) b = .lt) := by
  induction b generalizing x with
  | nil => cases x <;> simp [Bytes.cmp]
  | cons d b ih =>
    cases x with
    | nil => simp at h
    | cons c xs =>
      have hl : b.length ≤ xs.length := by simpa using h
      simp only [List.length_cons, List.take_succ_cons, Bytes.cmp]
      by_cases h1 : c < d
      · simp [h1]
      · by_cases h2 : d < c
        · simp [h1, h2]
        · simp only [h1, h2, if_false]
          exact ih hl

theorem isPrefix_iff_take (b x : Bytes) : Bytes.isPrefix b x = true ↔ x.take b.length = b := by
  induction b generalizing x with
  | nil => simp [Bytes.isPrefix]
  | cons d b ih =>
    cases x with
    | nil => simp [Bytes.isPrefix]
    | cons c xs =>
      simp [Bytes.isPrefix, ih]
      intro _; exact eq_comm


theorem be_length (n v : Nat) : (be n v).length = n := by
  induction n with
  | zero => rfl
  | succ n ih => simp [be, ih]

theorem pfx_length (ks : Keyspace) : ks.pfx.length = 4 := by
  simp [Keyspace.pfx, be_length, Gen.keyspacePrefixLen]

theorem endKey_length (ks : Keyspace) : ks.endKey.length = 4 := by
  simp [Keyspace.endKey, be_length, Gen.keyspacePrefixLen]

theorem modeByte_cases (m : Mode) : modeByte m = 114 ∨ modeByte m = 120 := by
  cases m <;> simp [modeByte, Gen.rawModePrefix, Gen.txnModePrefix]

theorem valid_le {ks : Keyspace} (h : ks.valid = true) : ks.id ≤ 16777215 := by
  have : ks.id ≤ Gen.maxKeyspaceID := of_decide_eq_true h
  simpa [Gen.maxKeyspaceID] using this

theorem pfxVal_eq (ks : Keyspace) (h : ks.valid = true) : ks.pfxVal = modeByte ks.mode * 16777216 + ks.id := by
  have hv : ks.id ≤ 16777215 := valid_le h
  rcases modeByte_cases ks.mode with hm | hm <;>
  · simp [Keyspace.pfxVal, Keyspace.pfx, be, fromBE, Gen.keyspacePrefixLen, hm]
    omega

theorem num_be4 (v : Nat) (h : v < 4294967296) : fromBE 0 (be 4 v) = v := by
  simp [be, fromBE]
  omega

theorem num_endKey (ks : Keyspace) (h : ks.valid = true) : fromBE 0 ks.endKey = ks.pfxVal + 1 := by
  have hv : ks.id ≤ 16777215 := valid_le h
  have := pfxVal_eq ks h
  have hlt : ks.pfxVal + 1 < 4294967296 := by
    rcases modeByte_cases ks.mode with hm | hm <;> omega
  simp only [Keyspace.endKey, Gen.keyspacePrefixLen]
  rw [Nat.mod_eq_of_lt (by simpa using hlt)]
  exact num_be4 _ hlt


theorem take_pfx_append (ks : Keyspace) (k : Bytes) : (ks.pfx ++ k).take 4 = ks.pfx := by
  have := pfx_length ks
  rw [← this]; simp

theorem cmp_pfx_end (ks : Keyspace) (h : ks.valid = true) : Bytes.cmp ks.pfx ks.endKey = .lt := by
  rw [cmp_num _ _ 0 (by rw [pfx_length, endKey_length]), num_endKey ks h]
  have hpv : fromBE 0 ks.pfx = ks.pfxVal := rfl
  rw [hpv]
  exact Nat.compare_eq_lt.mpr (Nat.lt_succ_self _)

/-- every key of the keyspace is below the keyspace end -/
theorem enc_lt_end (ks : Keyspace) (h : ks.valid = true) (k : Bytes) :
    Bytes.cmp (ks.pfx ++ k) ks.endKey = .lt := by
  have hl : ks.endKey.length ≤ (ks.pfx ++ k).length := by simp [pfx_length, endKey_length]
  rw [cmp_lt_take hl, endKey_length, take_pfx_append]
  exact cmp_pfx_end ks h

theorem pfx_le_enc (ks : Keyspace) (k : Bytes) : Bytes.cmp ks.pfx (ks.pfx ++ k) ≠ .gt := by
  have := cmp_append_left ks.pfx [] k
  simp only [List.append_nil] at this
  rw [this]; cases k <;> simp [Bytes.cmp]

/-- a well-formed (≥ 4 bytes) key below the keyspace end that does not carry the prefix is below the prefix -/
theorem long_lt_pfx (ks : Keyspace) (h : ks.valid = true) {x : Bytes} (hx : 4 ≤ x.length)
    (hlt : Bytes.cmp x ks.endKey = .lt) (hp : Bytes.isPrefix ks.pfx x = false) : Bytes.cmp x ks.pfx = .lt := by
  have hl : ks.endKey.length ≤ x.length := by rw [endKey_length]; exact hx
  have hl' : ks.pfx.length ≤ x.length := by rw [pfx_length]; exact hx
  rw [cmp_lt_take hl, endKey_length] at hlt
  rw [cmp_lt_take hl', pfx_length]
  have ht : (x.take 4).length = 4 := by simp; omega
  rw [cmp_num _ _ 0 (by rw [ht, endKey_length]), num_endKey ks h] at hlt
  have h1 := Nat.compare_eq_lt.mp hlt
  rw [cmp_num _ _ 0 (by rw [ht, pfx_length])]
  apply Nat.compare_eq_lt.mpr
  have hne : fromBE 0 (x.take 4) ≠ fromBE 0 ks.pfx := by
    intro he
    have hc : Bytes.cmp (x.take 4) ks.pfx = .eq := by
      rw [cmp_num _ _ 0 (by rw [ht, pfx_length]), he]; simp
    have := cmp_eq_iff.mp hc
    have hp' := (isPrefix_iff_take ks.pfx x).mpr (by rw [pfx_length]; exact this)
    simp [hp] at hp'
  have hpv : fromBE 0 ks.pfx = ks.pfxVal := rfl
  rw [hpv] at hne ⊢
  generalize fromBE 0 (List.take 4 x) = n at *
  generalize ks.pfxVal = v at *
  omega

theorem pfxVal_inj {a b : Keyspace} (ha : a.valid = true) (hb : b.valid = true) (h : a.pfxVal = b.pfxVal) : a = b := by
  rw [pfxVal_eq a ha, pfxVal_eq b hb] at h
  have h1 := valid_le ha; have h2 := valid_le hb
  clear ha hb
  cases a with | mk ma ia => cases b with | mk mb ib =>
  simp only at h h1 h2
  have hr : modeByte .raw = 114 := rfl
  have ht : modeByte .txn = 120 := rfl
  cases ma <;> cases mb <;> simp only [hr, ht] at h <;>
    first
      | (have : ia = ib := by omega
         subst this; rfl)
      | (exfalso; omega)

theorem end_le_pfx_of_lt {a b : Keyspace} (ha : a.valid = true) (h : a.pfxVal < b.pfxVal) :
    Bytes.cmp a.endKey b.pfx ≠ .gt := by
  rw [cmp_num _ _ 0 (by rw [pfx_length, endKey_length]), num_endKey a ha]
  intro hc
  have h2 := Nat.compare_eq_gt.mp hc
  have hpv : fromBE 0 b.pfx = b.pfxVal := rfl
  rw [hpv] at h2
  generalize b.pfxVal = v at *
  generalize a.pfxVal = w at *
  omega

theorem not_prefix_end (ks : Keyspace) (h : ks.valid = true) : Bytes.isPrefix ks.pfx ks.endKey = false := by
  cases hp : Bytes.isPrefix ks.pfx ks.endKey with
  | false => rfl
  | true =>
    have := (isPrefix_iff_take ks.pfx ks.endKey).mp hp
    rw [pfx_length, ← endKey_length ks, List.take_length] at this
    have h2 := cmp_pfx_end ks h
    rw [this, cmp_refl] at h2
    cases h2

/-! ## memcomparable round trip and order (C19's theorems, `Proofs/CodecBytes`) -/

theorem decode_encode_bytes_nil (data : Bytes) : decodeBytes (encodeBytes data) = .ok (data, []) := by
  have := CGV.Codec.decode_encode_bytes data []
  simpa using this

theorem encodeBytes_ne_nil (data : Bytes) : encodeBytes data ≠ [] := by
  rw [encodeBytes]; split <;> simp

/-! ## neighbouring keyspaces -/

theorem eq_of_num_eq {a b : Bytes} (hl : a.length = b.length) (h : fromBE 0 a = fromBE 0 b) : a = b := by
  apply cmp_eq_iff.mp
  rw [cmp_num a b 0 hl, h]
  simp

/-- the end of a keyspace is the prefix of the next keyspace id of the same mode -/
theorem endKey_eq_next_pfx (ks : Keyspace) (h : ks.id < Gen.maxKeyspaceID) :
    ks.endKey = (Keyspace.mk ks.mode (ks.id + 1)).pfx := by
  have hlt : ks.id < 16777215 := by simpa [Gen.maxKeyspaceID] using h
  have hm : Gen.maxKeyspaceID = 16777215 := rfl
  have hv : ks.valid = true := by
    simp only [Keyspace.valid, hm, decide_eq_true_eq]; omega
  have hv' : (Keyspace.mk ks.mode (ks.id + 1)).valid = true := by
    simp only [Keyspace.valid, hm, decide_eq_true_eq]; omega
  apply eq_of_num_eq (by rw [endKey_length, pfx_length])
  rw [num_endKey ks hv]
  have h1 := pfxVal_eq ks hv
  have h2 := pfxVal_eq _ hv'
  have h3 : fromBE 0 (Keyspace.mk ks.mode (ks.id + 1)).pfx = (Keyspace.mk ks.mode (ks.id + 1)).pfxVal := rfl
  rw [h3, h2, h1]
  simp only
  omega

theorem pfx_inj {a b : Keyspace} (ha : a.valid = true) (hb : b.valid = true) (h : a.pfx = b.pfx) : a = b :=
  pfxVal_inj ha hb (by simp [Keyspace.pfxVal, h])

end CGV.ApiV2.Lemmas
