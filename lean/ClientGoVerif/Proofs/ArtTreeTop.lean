/-
  C08 helper lemmas, part 14: the radix tree model from the root — any sequence of inserts.
-/
import ClientGoVerif.Proofs.ArtTreeInsert
import ClientGoVerif.Proofs.ArtNode
namespace CGV.ArtTree
open CGV

theorem wf_empty : WFT [] Tree.empty :=
  ⟨[], rfl, (by simp), (fun x hx => by cases hx), trivial, (fun h => by cases h)⟩

theorem insert_spec (t : Tree) (h : WFT [] t) (key : Bytes) :
    WFT [] (insert t key) ∧ ∀ x, x ∈ keys (insert t key) ↔ (x = key ∨ x ∈ keys t) :=
  insertT_spec [] t h key (List.nil_prefix)

/-- `search` answers membership in the key set, with the key itself as the leaf found -/
theorem search_spec (t : Tree) (h : WFT [] t) (key : Bytes) :
    search t key = (if key ∈ keys t then some key else none) := by
  by_cases hk : key ∈ keys t
  · rw [if_pos hk]
    exact searchT_complete [] t h key hk
  · rw [if_neg hk]
    cases hs : search t key with
    | none => rfl
    | some x =>
      obtain ⟨h1, h2⟩ := searchT_sound t key 0 x hs
      rw [h1] at h2
      exact absurd h2 hk

/-- the tree after inserting the keys of a list, first key first -/
def insertAll (ks : List Bytes) : Tree := ks.foldl insert Tree.empty

theorem foldl_insert_spec (ks : List Bytes) : ∀ (t : Tree), WFT [] t →
    WFT [] (ks.foldl insert t) ∧ ∀ x, x ∈ keys (ks.foldl insert t) ↔ (x ∈ ks ∨ x ∈ keys t) := by
  induction ks with
  | nil => intro t h; exact ⟨h, fun x => by simp⟩
  | cons k rest ih =>
    intro t h
    obtain ⟨h1, h2⟩ := insert_spec t h k
    obtain ⟨h3, h4⟩ := ih (insert t k) h1
    refine ⟨h3, fun x => ?_⟩
    simp only [List.foldl_cons, h4 x, h2 x, List.mem_cons]
    constructor
    · rintro (h | h | h)
      · exact Or.inl (Or.inr h)
      · exact Or.inl (Or.inl h)
      · exact Or.inr h
    · rintro ((h | h) | h)
      · exact Or.inr (Or.inl h)
      · exact Or.inl h
      · exact Or.inr (Or.inr h)

theorem insertAll_spec (ks : List Bytes) :
    WFT [] (insertAll ks) ∧ (∀ x, x ∈ keys (insertAll ks) ↔ x ∈ ks) ∧ SortedKeys (keys (insertAll ks)) := by
  obtain ⟨h1, h2⟩ := foldl_insert_spec ks Tree.empty wf_empty
  refine ⟨h1, fun x => ?_, keysT_sorted [] _ h1⟩
  rw [show insertAll ks = ks.foldl insert Tree.empty from rfl, h2 x]
  simp [keys, keysT, Tree.empty, optKey, keysK]

/-! ## the children of a tree node as a node container -/

def Kids.toList : Kids → List (UInt8 × Tree)
  | .nil => []
  | .cons c t rest => (c, t) :: rest.toList

theorem toList_bytes : (kids : Kids) → kids.toList.map (·.1) = kids.bytes
  | .nil => rfl
  | .cons c t rest => by simp [Kids.toList, Kids.bytes, toList_bytes rest]

theorem toList_length : (kids : Kids) → kids.toList.length = kids.length
  | .nil => rfl
  | .cons c t rest => by simp [Kids.toList, Kids.length, toList_length rest]

theorem bytes_sorted (q : Bytes) : (kids : Kids) → WFK q kids → kids.bytes.Pairwise (· < ·)
  | .nil, _ => by simp [Kids.bytes]
  | .cons c t rest, h => by
    obtain ⟨_, _, hlt, hr⟩ := h
    simp only [Kids.bytes]
    exact List.pairwise_cons.mpr ⟨hlt, bytes_sorted q rest hr⟩

theorem bytes_nodup (q : Bytes) (kids : Kids) (h : WFK q kids) : (kids.toList.map (·.1)).Nodup := by
  rw [toList_bytes]
  exact (bytes_sorted q kids h).imp (fun hab e => by subst e; exact absurd hab (UInt8.lt_irrefl _))

end CGV.ArtTree
