import ClientGoVerif.Model.Codec
import ClientGoVerif.Proofs.Bytes
namespace CGV.Codec
open CGV

theorem be_length (n v : Nat) : (be n v).length = n := by
  induction n with
  | zero => rfl
  | succ n ih => simp [be, ih]

theorem mod_pow_succ' (v n : Nat) : v % 256 ^ (n + 1) = (v / 256 ^ n % 256) * 256 ^ n + v % 256 ^ n := by
  rw [Nat.mod_pow_succ]; rw [Nat.mul_comm]; omega

theorem fromBE_append (init : Nat) (a b : Bytes) : fromBE init (a ++ b) = fromBE (fromBE init a) b := by
  simp [fromBE, List.foldl_append]

theorem fromBE_be (n v init : Nat) : fromBE init (be n v) = init * 256 ^ n + v % 256 ^ n := by
  induction n generalizing init with
  | zero => simp [be, fromBE, Nat.mod_one]
  | succ n ih =>
    have hb : (UInt8.ofNat (v / 256 ^ n % 256)).toNat = v / 256 ^ n % 256 := by
      simp [UInt8.toNat_ofNat']
    have : fromBE init (be (n + 1) v) = fromBE (init * 256 + v / 256 ^ n % 256) (be n v) := by
      simp [be, fromBE, hb]
    rw [this, ih, mod_pow_succ', Nat.pow_succ]
    rw [Nat.add_mul, Nat.mul_assoc, Nat.mul_comm 256 (256 ^ n)]
    omega

theorem fromBE_lt (b : Bytes) : fromBE 0 b < 256 ^ b.length := by
  suffices h : ∀ init, fromBE init b < (init + 1) * 256 ^ b.length by simpa using h 0
  induction b with
  | nil => intro init; simp [fromBE]
  | cons c cs ih =>
    intro init
    have := ih (init * 256 + c.toNat)
    have hc := c.toNat_lt
    simp only [fromBE, List.foldl_cons, List.length_cons, Nat.pow_succ] at this ⊢
    calc _ < (init * 256 + c.toNat + 1) * 256 ^ cs.length := this
      _ ≤ ((init + 1) * 256) * 256 ^ cs.length := Nat.mul_le_mul_right _ (by omega)
      _ = _ := by rw [Nat.mul_assoc, Nat.mul_comm 256]

/-- soundness of fixed-width decoding: the bytes are the encoding of the value read -/
theorem be_fromBE (b : Bytes) (init : Nat) : be b.length (fromBE init b) = b := by
  induction b generalizing init with
  | nil => rfl
  | cons c cs ih =>
    have h1 : fromBE init (c :: cs) = fromBE (init * 256 + c.toNat) cs := by simp [fromBE]
    rw [List.length_cons, be, h1, ih]
    congr 1
    have := fromBE_be cs.length (fromBE (init * 256 + c.toNat) cs) 0
    -- fromBE x cs = x * 256^len + (fromBE 0 cs)
    have hsplit : ∀ x, fromBE x cs = x * 256 ^ cs.length + fromBE 0 cs := by
      intro x
      have e := fromBE_be cs.length (fromBE 0 cs) x
      rw [ih 0] at e
      rw [e, Nat.mod_eq_of_lt (fromBE_lt cs)]
    rw [hsplit]
    have hlt := fromBE_lt cs
    have hpos : 0 < 256 ^ cs.length := Nat.pow_pos (by decide)
    have hdiv : ((init * 256 + c.toNat) * 256 ^ cs.length + fromBE 0 cs) / 256 ^ cs.length = init * 256 + c.toNat := by
      rw [Nat.add_comm, Nat.add_mul_div_right _ _ hpos, Nat.div_eq_of_lt hlt]; omega
    rw [hdiv]
    apply UInt8.toNat_inj.mp
    have := c.toNat_lt
    simp [UInt8.toNat_ofNat']

end CGV.Codec

namespace CGV.Codec
open CGV

theorem be_lt (n a b : Nat) (h : a % 256 ^ n < b % 256 ^ n) : Bytes.cmp (be n a) (be n b) = .lt := by
  induction n with
  | zero => simp [Nat.mod_one] at h
  | succ n ih =>
    rw [mod_pow_succ' a n, mod_pow_succ' b n] at h
    have ha := Nat.mod_lt a (Nat.pow_pos (n := n) (by decide : 0 < 256))
    have hb := Nat.mod_lt b (Nat.pow_pos (n := n) (by decide : 0 < 256))
    have hxa : a / 256 ^ n % 256 < 256 := Nat.mod_lt _ (by decide)
    have hxb : b / 256 ^ n % 256 < 256 := Nat.mod_lt _ (by decide)
    simp only [be, Bytes.cmp]
    have tn : ∀ x, x < 256 → (UInt8.ofNat x).toNat = x := by
      intro x hx; simp [UInt8.toNat_ofNat']; omega
    by_cases h1 : a / 256 ^ n % 256 < b / 256 ^ n % 256
    · have : UInt8.ofNat (a / 256 ^ n % 256) < UInt8.ofNat (b / 256 ^ n % 256) :=
        UInt8.lt_iff_toNat_lt.mpr (by rw [tn _ hxa, tn _ hxb]; exact h1)
      simp [this]
    · by_cases h2 : b / 256 ^ n % 256 < a / 256 ^ n % 256
      · exfalso
        have := Nat.mul_le_mul_right (256 ^ n) (Nat.succ_le_of_lt h2)
        rw [Nat.succ_mul] at this
        omega
      · have heq : a / 256 ^ n % 256 = b / 256 ^ n % 256 := by omega
        rw [heq] at h ⊢
        simp only [UInt8.lt_irrefl, if_false]
        exact ih (by omega)

/-- a strictly monotone encoder is an order isomorphism onto its image (Nat) -/
theorem cmp_of_strictMono_nat (f : Nat → Bytes) (P : Nat → Prop)
    (h : ∀ a b, P a → P b → a < b → Bytes.cmp (f a) (f b) = .lt) (a b : Nat) (ha : P a) (hb : P b) :
    Bytes.cmp (f a) (f b) = compare a b := by
  rcases Nat.lt_trichotomy a b with hlt | heq | hgt
  · rw [h a b ha hb hlt]; exact (Nat.compare_eq_lt.mpr hlt).symm
  · subst heq; simp [Bytes.cmp_self]
  · rw [← Bytes.cmp_swap, h b a hb ha hgt]; exact (Nat.compare_eq_gt.mpr hgt).symm

theorem cmp_of_strictMono_int (f : Int → Bytes) (P : Int → Prop)
    (h : ∀ a b, P a → P b → a < b → Bytes.cmp (f a) (f b) = .lt) (a b : Int) (ha : P a) (hb : P b) :
    Bytes.cmp (f a) (f b) = compare a b := by
  rcases Int.lt_trichotomy a b with hlt | heq | hgt
  · rw [h a b ha hb hlt]; exact (Int.compare_eq_lt.mpr hlt).symm
  · subst heq; simp [Bytes.cmp_self]
  · rw [← Bytes.cmp_swap, h b a hb ha hgt]; exact (Int.compare_eq_gt.mpr hgt).symm

/-! ### fixed width -/

def U64 (v : Nat) : Prop := v < 2 ^ 64
def I64 (v : Int) : Prop := -(2 ^ 63 : Int) ≤ v ∧ v < (2 ^ 63 : Int)

theorem take_be_append (n v : Nat) (rest : Bytes) : (be n v ++ rest).take n = be n v := by
  rw [List.take_append_of_le_length (by simp [be_length])]; simp [List.take_of_length_le, be_length]
theorem drop_be_append (n v : Nat) (rest : Bytes) : (be n v ++ rest).drop n = rest := by
  rw [List.drop_append_of_le_length (by simp [be_length])]; simp [List.drop_eq_nil_of_le, be_length]

theorem decode_encode_uint (v : Nat) (rest : Bytes) (h : U64 v) : decodeUint (encodeUint v ++ rest) = .ok (v, rest) := by
  unfold U64 at h
  simp only [decodeUint, encodeUint, List.length_append, be_length, take_be_append, drop_be_append, fromBE_be]
  have : ¬ (8 + rest.length < 8) := by omega
  simp only [this, if_false]
  congr 2; simp; omega

theorem decode_encode_uintDesc (v : Nat) (rest : Bytes) (h : U64 v) :
    decodeUintDesc (encodeUintDesc v ++ rest) = .ok (v, rest) := by
  unfold U64 at h
  simp only [decodeUintDesc, encodeUintDesc, List.length_append, be_length, take_be_append, drop_be_append, fromBE_be]
  have : ¬ (8 + rest.length < 8) := by omega
  simp only [this, if_false]
  congr 2; simp [bnot, two64]; omega

theorem toU64_cast (v : Int) : ((toU64 v : Nat) : Int) = v % (2 ^ 64 : Int) := by
  simp only [toU64, two64]
  have : (0 : Int) ≤ v % ((2 ^ 64 : Nat) : Int) := Int.emod_nonneg _ (by decide)
  rw [Int.toNat_of_nonneg this]; rfl

theorem signFlip_of_lt (u : Nat) (h : u < 2 ^ 63) : signFlip u = u + 2 ^ 63 := by
  have : u < 9223372036854775808 := h
  simp [signFlip, Gen.signMask, this]
theorem signFlip_of_ge (u : Nat) (h : ¬ u < 2 ^ 63) : signFlip u = u - 2 ^ 63 := by
  have : ¬ u < 9223372036854775808 := h
  simp [signFlip, Gen.signMask, this]

theorem signFlip_toU64 (v : Int) (h : I64 v) : (signFlip (toU64 v) : Int) = v + 2 ^ 63 := by
  unfold I64 at h
  have key := toU64_cast v
  generalize toU64 v = u at key
  by_cases hc : u < 2 ^ 63
  · rw [signFlip_of_lt u hc]; omega
  · rw [signFlip_of_ge u hc]; omega

theorem signFlip_lt (v : Int) (h : I64 v) : signFlip (toU64 v) < 2 ^ 64 := by
  have := signFlip_toU64 v h; unfold I64 at h; omega

theorem toI64_signFlip (v : Int) (h : I64 v) : toI64 (signFlip (signFlip (toU64 v))) = v := by
  have h1 := signFlip_toU64 v h
  unfold I64 at h
  generalize signFlip (toU64 v) = u at h1
  by_cases hc : u < 2 ^ 63
  · rw [signFlip_of_lt u hc]
    have : ¬ (u + 2 ^ 63 < 2 ^ 63) := by omega
    simp only [toI64, two63, two64, this, if_false]; omega
  · rw [signFlip_of_ge u hc]
    have : (u - 2 ^ 63 < 2 ^ 63) := by omega
    simp only [toI64, two63, two64, this, if_true]; omega

theorem decode_encode_int (v : Int) (rest : Bytes) (h : I64 v) : decodeInt (encodeInt v ++ rest) = .ok (v, rest) := by
  simp only [decodeInt, encodeInt, List.length_append, be_length, take_be_append, drop_be_append, fromBE_be]
  have : ¬ (8 + rest.length < 8) := by omega
  simp only [this, if_false]
  have hl := signFlip_lt v h
  have : (0 * 256 ^ 8 + signFlip (toU64 v) % 256 ^ 8) = signFlip (toU64 v) := by simp; omega
  rw [this, toI64_signFlip v h]

theorem bnot_bnot (u : Nat) (h : u < 2 ^ 64) : bnot (bnot u) = u := by simp [bnot, two64]; omega

theorem decode_encode_intDesc (v : Int) (rest : Bytes) (h : I64 v) :
    decodeIntDesc (encodeIntDesc v ++ rest) = .ok (v, rest) := by
  simp only [decodeIntDesc, encodeIntDesc, List.length_append, be_length, take_be_append, drop_be_append, fromBE_be]
  have : ¬ (8 + rest.length < 8) := by omega
  simp only [this, if_false]
  have hl := signFlip_lt v h
  have hb : bnot (signFlip (toU64 v)) < 2 ^ 64 := by simp [bnot, two64]; omega
  have : (0 * 256 ^ 8 + bnot (signFlip (toU64 v)) % 256 ^ 8) = bnot (signFlip (toU64 v)) := by simp; omega
  rw [this, bnot_bnot _ hl, toI64_signFlip v h]

theorem encodeUint_lt (a b : Nat) (_ : U64 a) (hb : U64 b) (h : a < b) :
    Bytes.cmp (encodeUint a) (encodeUint b) = .lt := by
  unfold U64 at *
  apply be_lt; rw [Nat.mod_eq_of_lt (by omega), Nat.mod_eq_of_lt (by omega)]; exact h

theorem encodeUintDesc_gt (a b : Nat) (_ : U64 a) (hb : U64 b) (h : a < b) :
    Bytes.cmp (encodeUintDesc b) (encodeUintDesc a) = .lt := by
  unfold U64 at *
  apply be_lt
  have : bnot b < bnot a := by simp [bnot, two64]; omega
  have h1 : bnot a < 2 ^ 64 := by simp [bnot, two64]; omega
  rw [Nat.mod_eq_of_lt (by omega), Nat.mod_eq_of_lt (by omega)]; exact this

theorem encodeInt_lt (a b : Int) (ha : I64 a) (hb : I64 b) (h : a < b) :
    Bytes.cmp (encodeInt a) (encodeInt b) = .lt := by
  apply be_lt
  have h1 := signFlip_toU64 a ha; have h2 := signFlip_toU64 b hb
  have l1 := signFlip_lt a ha; have l2 := signFlip_lt b hb
  rw [Nat.mod_eq_of_lt (by omega), Nat.mod_eq_of_lt (by omega)]; omega

theorem encodeIntDesc_gt (a b : Int) (ha : I64 a) (hb : I64 b) (h : a < b) :
    Bytes.cmp (encodeIntDesc b) (encodeIntDesc a) = .lt := by
  apply be_lt
  have h1 := signFlip_toU64 a ha; have h2 := signFlip_toU64 b hb
  have l1 := signFlip_lt a ha; have l2 := signFlip_lt b hb
  have : bnot (signFlip (toU64 b)) < bnot (signFlip (toU64 a)) := by simp [bnot, two64]; omega
  have h3 : bnot (signFlip (toU64 a)) < 2 ^ 64 := by simp [bnot, two64]; omega
  rw [Nat.mod_eq_of_lt (by omega), Nat.mod_eq_of_lt (by omega)]; exact this

/-- soundness of the four fixed-width decoders: accepted input = encoding of the value ++ rest -/
theorem take_drop_8 (b : Bytes) (h : ¬ b.length < 8) : be 8 (fromBE 0 (b.take 8)) ++ b.drop 8 = b := by
  have : (b.take 8).length = 8 := by simp; omega
  have e := be_fromBE (b.take 8) 0
  rw [this] at e; rw [e, List.take_append_drop]

theorem decode_sound_uint (b : Bytes) (v : Nat) (r : Bytes) (h : decodeUint b = .ok (v, r)) : encodeUint v ++ r = b := by
  simp only [decodeUint] at h
  split at h
  · cases h
  · rename_i hl; cases h; exact take_drop_8 b hl

end CGV.Codec

namespace CGV.Codec
open CGV

theorem fromBE_take8_lt (b : Bytes) (h : ¬ b.length < 8) : fromBE 0 (b.take 8) < 2 ^ 64 := by
  have := fromBE_lt (b.take 8)
  have hl : (b.take 8).length = 8 := by simp; omega
  rw [hl] at this; omega

theorem toI64_of_lt (u : Nat) (h : u < 2 ^ 63) : toI64 u = (u : Int) := by
  have : u < two63 := h
  simp [toI64, this]
theorem toI64_of_ge (u : Nat) (h : ¬ u < 2 ^ 63) : toI64 u = (u : Int) - 2 ^ 64 := by
  have : ¬ u < two63 := h
  simp [toI64, this, two64]

theorem toU64_toI64 (u : Nat) (h : u < 2 ^ 64) : toU64 (toI64 u) = u := by
  have key := toU64_cast (toI64 u)
  generalize toU64 (toI64 u) = w at key
  by_cases hc : u < 2 ^ 63
  · rw [toI64_of_lt u hc] at key; omega
  · rw [toI64_of_ge u hc] at key; omega

theorem signFlip_signFlip (u : Nat) (h : u < 2 ^ 64) : signFlip (signFlip u) = u := by
  by_cases hc : u < 2 ^ 63
  · rw [signFlip_of_lt u hc, signFlip_of_ge _ (by omega)]; omega
  · rw [signFlip_of_ge u hc, signFlip_of_lt _ (by omega)]; omega

theorem signFlip_lt' (u : Nat) (h : u < 2 ^ 64) : signFlip u < 2 ^ 64 := by
  by_cases hc : u < 2 ^ 63
  · rw [signFlip_of_lt u hc]; omega
  · rw [signFlip_of_ge u hc]; omega

theorem decode_sound_uintDesc (b : Bytes) (v : Nat) (r : Bytes) (h : decodeUintDesc b = .ok (v, r)) :
    encodeUintDesc v ++ r = b := by
  simp only [decodeUintDesc] at h
  split at h
  · cases h
  · rename_i hl; cases h
    simp only [encodeUintDesc]
    rw [bnot_bnot _ (fromBE_take8_lt b hl)]; exact take_drop_8 b hl

theorem decode_sound_int (b : Bytes) (v : Int) (r : Bytes) (h : decodeInt b = .ok (v, r)) : encodeInt v ++ r = b := by
  simp only [decodeInt] at h
  split at h
  · cases h
  · rename_i hl; cases h
    simp only [encodeInt]
    have hx := fromBE_take8_lt b hl
    rw [toU64_toI64 _ (signFlip_lt' _ hx), signFlip_signFlip _ hx]; exact take_drop_8 b hl

theorem decode_sound_intDesc (b : Bytes) (v : Int) (r : Bytes) (h : decodeIntDesc b = .ok (v, r)) :
    encodeIntDesc v ++ r = b := by
  simp only [decodeIntDesc] at h
  split at h
  · cases h
  · rename_i hl; cases h
    simp only [encodeIntDesc]
    have hx := fromBE_take8_lt b hl
    have hb : bnot (fromBE 0 (List.take 8 b)) < 2 ^ 64 := by simp [bnot, two64]; omega
    rw [toU64_toI64 _ (signFlip_lt' _ hb), signFlip_signFlip _ hb, bnot_bnot _ hx]; exact take_drop_8 b hl

/-! ### LEB128 -/

/-- capacity of the remaining `k` varint bytes (k = 10 - i): the 10th byte may only carry one bit -/
def cap : Nat → Nat
  | 0 => 1
  | 1 => 2
  | k + 1 => 128 * cap k

theorem cap_ten : cap 10 = 2 ^ 64 := by decide

theorem encodeUvarint_lt (v : Nat) (h : v < 128) : encodeUvarint v = [UInt8.ofNat v] := by
  rw [encodeUvarint]; simp [h]
theorem encodeUvarint_ge (v : Nat) (h : ¬ v < 128) :
    encodeUvarint v = UInt8.ofNat (v % 128 + 128) :: encodeUvarint (v / 128) := by
  rw [encodeUvarint]; simp [h]

theorem decodeUvarintAux_encode (k : Nat) : ∀ (v : Nat) (rest : Bytes) (i mul x : Nat),
    1 ≤ k → i + k = 10 → v < cap k →
    decodeUvarintAux (encodeUvarint v ++ rest) i mul x = .ok (x + v * mul, rest) := by
  induction k with
  | zero => intro v rest i mul x h; omega
  | succ k ih =>
    intro v rest i mul x hk hik hv
    by_cases hlt : v < 128
    · rw [encodeUvarint_lt v hlt]
      have ht : (UInt8.ofNat v).toNat = v := by simp [UInt8.toNat_ofNat']; omega
      simp only [List.cons_append, List.nil_append, decodeUvarintAux, ht]
      have h10 : ¬ i = 10 := by omega
      simp only [h10, if_false, hlt, if_true]
      have : ¬ (i = 9 ∧ v > 1) := by
        rintro ⟨h9, hv1⟩
        have : k = 0 := by omega
        subst this; simp [cap] at hv; omega
      simp [this]
    · rw [encodeUvarint_ge v hlt]
      have ht : (UInt8.ofNat (v % 128 + 128)).toNat = v % 128 + 128 := by simp [UInt8.toNat_ofNat']; omega
      simp only [List.cons_append, decodeUvarintAux, ht]
      have hk1 : 1 ≤ k := by
        cases k with
        | zero => simp [cap] at hv; omega
        | succ k => omega
      have h10 : ¬ i = 10 := by omega
      have hge : ¬ (v % 128 + 128 < 128) := by omega
      simp only [h10, if_false, hge]
      have hv' : v / 128 < cap k := by
        cases k with
        | zero => omega
        | succ k => simp only [cap] at hv; omega
      rw [ih (v / 128) rest (i + 1) (mul * 128) _ hk1 (by omega) hv']
      congr 2
      have : v % 128 + 128 - 128 = v % 128 := by omega
      rw [this]
      have hdm := Nat.div_add_mod v 128
      calc x + v % 128 * mul + v / 128 * (mul * 128)
          = x + (128 * (v / 128) + v % 128) * mul := by
            rw [Nat.add_mul, Nat.mul_comm mul 128, ← Nat.mul_assoc, Nat.mul_comm (v / 128) 128]; omega
        _ = x + v * mul := by rw [hdm]

theorem decode_encode_uvarint (v : Nat) (rest : Bytes) (h : U64 v) :
    decodeUvarint (encodeUvarint v ++ rest) = .ok (v, rest) := by
  unfold U64 at h
  have := decodeUvarintAux_encode 10 v rest 0 1 0 (by omega) (by omega) (by rw [cap_ten]; exact h)
  simpa [decodeUvarint] using this

theorem zigzag_lt (v : Int) (h : I64 v) : zigzag v < 2 ^ 64 := by
  unfold I64 at h; unfold zigzag; split <;> omega

theorem unzigzag_zigzag (v : Int) : unzigzag (zigzag v) = v := by
  unfold zigzag unzigzag
  by_cases hv : v < 0
  · simp only [hv, if_true]
    have h1 : (-(2 * v) - 1).toNat % 2 = 1 := by omega
    simp only [h1]; simp; omega
  · simp only [hv, if_false]
    have h1 : (2 * v).toNat % 2 = 0 := by omega
    simp only [h1, if_true]; omega

theorem decode_encode_varint (v : Int) (rest : Bytes) (h : I64 v) :
    decodeVarint (encodeVarint v ++ rest) = .ok (v, rest) := by
  simp only [decodeVarint, encodeVarint, decode_encode_uvarint _ rest (zigzag_lt v h), unzigzag_zigzag]

end CGV.Codec
