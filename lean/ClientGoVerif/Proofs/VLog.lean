/-
  Helper lemmas for C08: the abstraction function from the mechanism model (VLog) to the reference (Spec), the
  representation invariant, and the simulation lemmas.
-/
import ClientGoVerif.Model.VLog
namespace CGV.MemBuf
open CGV

/-! ## abstraction -/

/-- the history of key `k` read off the log: all entries of the key, newest first, tagged with their address -/
def versionsOf (k : Bytes) : List Entry → List Version
  | [] => []
  | e :: rest => if e.key = k then (rest.length + 1, e.value) :: versionsOf k rest else versionsOf k rest

def topAddr (vs : List Version) : Nat := match vs with | [] => 0 | (a, _) :: _ => a

def absNode (log : List Entry) (n : Node) : Cell :=
  { key := n.key, present := !n.deleted, flags := n.flags, versions := versionsOf n.key log }

def abs (m : VLog) : Spec :=
  { cells := m.nodes.map (absNode m.log), clock := m.log.length, marks := m.stages, guard := m.lastCp, dirty := m.dirty,
    entryLimit := m.entryLimit, bufLimit := m.bufLimit }

/-- every entry links to the previous entry of the same key -/
def WL : List Entry → Prop
  | [] => True
  | e :: rest => e.old = topAddr (versionsOf e.key rest) ∧ WL rest

/-! ## versionsOf / topAddr -/

theorem versionsOf_addr_le (k : Bytes) (log : List Entry) : ∀ x ∈ versionsOf k log, 1 ≤ x.1 ∧ x.1 ≤ log.length := by
  induction log with
  | nil => simp [versionsOf]
  | cons e rest ih =>
    intro x hx
    simp only [versionsOf] at hx
    split at hx
    · rcases List.mem_cons.mp hx with h | h
      · subst h; simp
      · have := ih x h; simp; omega
    · have := ih x hx; simp; omega

theorem topAddr_le (k : Bytes) (log : List Entry) : topAddr (versionsOf k log) ≤ log.length := by
  cases h : versionsOf k log with
  | nil => simp [topAddr]
  | cons x xs =>
    have := versionsOf_addr_le k log x (by simp [h])
    obtain ⟨a, v⟩ := x
    simpa [topAddr] using this.2

theorem topAddr_eq_zero {k : Bytes} {log : List Entry} (h : topAddr (versionsOf k log) = 0) : versionsOf k log = [] := by
  cases hv : versionsOf k log with
  | nil => rfl
  | cons x xs =>
    have := versionsOf_addr_le k log x (by simp [hv])
    obtain ⟨a, v⟩ := x
    simp [hv, topAddr] at h
    omega

/-- no entry of the key ⇒ empty history -/
theorem versionsOf_nil_of_no_entry {k : Bytes} {log : List Entry} (h : ∀ e ∈ log, e.key ≠ k) : versionsOf k log = [] := by
  induction log with
  | nil => rfl
  | cons e rest ih =>
    have h1 : e.key ≠ k := h e (by simp)
    simp [versionsOf, h1]
    exact ih (fun e he => h e (by simp [he]))

/-! ## getEntry / getValue at the top address -/

theorem getValue_top (k : Bytes) (log : List Entry) (a : Nat) (v : Bytes) (rest : List Version)
    (h : versionsOf k log = (a, v) :: rest) : VLog.getValue log a = v := by
  induction log with
  | nil => simp [versionsOf] at h
  | cons e tl ih =>
    simp only [versionsOf] at h
    split at h
    · simp at h
      obtain ⟨⟨h1, h2⟩, _⟩ := h
      simp [VLog.getValue, VLog.getEntry, h1, h2]
    · have hle := versionsOf_addr_le k tl (a, v) (by simp [h])
      have hne : tl.length + 1 ≠ a := by simp at hle; omega
      have := ih h
      simp [VLog.getValue, VLog.getEntry, hne] at this ⊢
      exact this

/-! ## swapAt -/

theorem swapAt_length (log : List Entry) (a : Nat) (v : Bytes) : (VLog.swapAt log a v).length = log.length := by
  induction log with
  | nil => simp [VLog.swapAt]
  | cons e rest ih =>
    simp only [VLog.swapAt]
    split <;> simp [ih]

/-- swapping at the top address of `k` replaces the newest version of `k` -/
theorem versionsOf_swapAt_same (k : Bytes) (log : List Entry) (a : Nat) (old v : Bytes) (rest : List Version)
    (h : versionsOf k log = (a, old) :: rest) : versionsOf k (VLog.swapAt log a v) = (a, v) :: rest := by
  induction log with
  | nil => simp [versionsOf] at h
  | cons e tl ih =>
    simp only [versionsOf] at h
    split at h
    · rename_i hk
      simp at h
      obtain ⟨⟨h1, h2⟩, h3⟩ := h
      simp [VLog.swapAt, h1, versionsOf, hk, h3]
    · rename_i hk
      have hle := versionsOf_addr_le k tl (a, old) (by simp [h])
      have hne : tl.length + 1 ≠ a := by simp at hle; omega
      simp [VLog.swapAt, hne, versionsOf, hk]
      exact ih h

/-- … and leaves every other key's history alone -/
theorem versionsOf_swapAt_other (k k' : Bytes) (log : List Entry) (a : Nat) (old v : Bytes) (rest : List Version)
    (h : versionsOf k log = (a, old) :: rest) (hne : k' ≠ k) : versionsOf k' (VLog.swapAt log a v) = versionsOf k' log := by
  induction log with
  | nil => simp [VLog.swapAt]
  | cons e tl ih =>
    simp only [versionsOf] at h
    split at h
    · rename_i hk
      simp at h
      obtain ⟨⟨h1, h2⟩, h3⟩ := h
      have : e.key ≠ k' := by rw [hk]; exact fun h => hne h.symm
      simp [VLog.swapAt, h1, versionsOf, this]
    · rename_i hk
      have hle := versionsOf_addr_le k tl (a, old) (by simp [h])
      have hne' : tl.length + 1 ≠ a := by simp at hle; omega
      simp only [VLog.swapAt, hne', if_false, versionsOf, swapAt_length]
      rw [ih h]

theorem WL_swapAt (k : Bytes) (log : List Entry) (a : Nat) (old v : Bytes) (rest : List Version)
    (h : versionsOf k log = (a, old) :: rest) (hw : WL log) : WL (VLog.swapAt log a v) := by
  induction log with
  | nil => simp [VLog.swapAt, WL]
  | cons e tl ih =>
    simp only [versionsOf] at h
    obtain ⟨hw1, hw2⟩ := hw
    split at h
    · simp at h
      obtain ⟨⟨h1, h2⟩, h3⟩ := h
      simp [VLog.swapAt, h1, WL, hw1, hw2]
    · rename_i hk
      have hle := versionsOf_addr_le k tl (a, old) (by simp [h])
      have hne' : tl.length + 1 ≠ a := by simp at hle; omega
      simp only [VLog.swapAt, hne', if_false, WL]
      refine ⟨?_, ih h hw2⟩
      by_cases hek : e.key = k
      · exact absurd hek hk
      · rw [versionsOf_swapAt_other k e.key tl a old v rest h hek]; exact hw1

/-! ## following the OldValue links = searching the key's history -/

theorem selectHist_zero (p : Nat → Bytes → Bool) (log : List Entry) : VLog.selectHist p log 0 = none := by
  cases log <;> simp [VLog.selectHist]

theorem selectHist_eq (p : Nat → Bytes → Bool) (k : Bytes) (log : List Entry) (hw : WL log) :
    VLog.selectHist p log (topAddr (versionsOf k log)) = (versionsOf k log).find? (fun x => p x.1 x.2) := by
  induction log with
  | nil => simp [versionsOf, topAddr, VLog.selectHist]
  | cons e tl ih =>
    obtain ⟨hw1, hw2⟩ := hw
    by_cases hk : e.key = k
    · simp only [versionsOf, hk, if_true, topAddr, VLog.selectHist]
      have h0 : tl.length + 1 ≠ 0 := by omega
      simp only [h0, if_false, if_true, List.find?_cons]
      cases hp : p (tl.length + 1) e.value
      · simp only [Bool.false_eq_true, if_false]
        rw [hw1, hk]; exact ih hw2
      · simp
    · simp only [versionsOf, hk, if_false]
      by_cases h0 : topAddr (versionsOf k tl) = 0
      · rw [h0, selectHist_zero, topAddr_eq_zero h0]; rfl
      · have hle := topAddr_le k tl
        have hne : tl.length + 1 ≠ topAddr (versionsOf k tl) := by omega
        simp only [VLog.selectHist, h0, hne, if_false]
        exact ih hw2

/-! ## sums over the cell list -/

theorem sumInt_append {α} (f : α → Int) (l1 l2 : List α) : Spec.sumInt f (l1 ++ l2) = Spec.sumInt f l1 + Spec.sumInt f l2 := by
  induction l1 with
  | nil => simp [Spec.sumInt]
  | cons x xs ih => simp [Spec.sumInt, ih]; omega

theorem modify_no_key (l : List Cell) (k : Bytes) (g : Cell → Cell) (h : ∀ c ∈ l, c.key ≠ k) : Spec.modify l k g = l := by
  induction l with
  | nil => rfl
  | cons c tl ih =>
    have h1 : c.key ≠ k := h c (by simp)
    simp only [Spec.modify, List.map_cons, h1, if_false]
    congr 1
    exact ih (fun c hc => h c (by simp [hc]))

theorem sumInt_modify (f : Cell → Int) (l : List Cell) (k : Bytes) (g : Cell → Cell) (c0 : Cell)
    (hnd : (l.map (·.key)).Nodup) (hf : l.find? (fun c => c.key = k) = some c0) :
    Spec.sumInt f (Spec.modify l k g) = Spec.sumInt f l - f c0 + f (g c0) := by
  induction l with
  | nil => simp at hf
  | cons c tl ih =>
    simp only [List.map_cons, List.nodup_cons] at hnd
    obtain ⟨hnot, hnd'⟩ := hnd
    by_cases hk : c.key = k
    · simp [List.find?_cons, hk] at hf
      subst hf
      have hno : ∀ c' ∈ tl, c'.key ≠ k := by
        intro c' hc' he
        apply hnot
        rw [hk, ← he]
        exact List.mem_map_of_mem hc'
      have := modify_no_key tl k g hno
      simp only [Spec.modify] at this
      simp only [Spec.modify, List.map_cons, hk, if_true, Spec.sumInt, this]
      omega
    · simp [List.find?_cons, hk] at hf
      have := ih hnd' hf
      simp only [Spec.modify] at this
      simp only [Spec.modify, List.map_cons, hk, if_false, Spec.sumInt, this]
      omega

theorem modify_keys (l : List Cell) (k : Bytes) (g : Cell → Cell) (hg : ∀ c, (g c).key = c.key) :
    (Spec.modify l k g).map (·.key) = l.map (·.key) := by
  induction l with
  | nil => rfl
  | cons c tl ih =>
    simp only [Spec.modify, List.map_cons] at ih ⊢
    rw [ih]
    by_cases hk : c.key = k <;> simp [hk, hg]

/-! ## lookup and upsert commute with the abstraction -/

theorem any_key_map (nodes : List Node) (log : List Entry) (k : Bytes) :
    (nodes.map (absNode log)).any (fun c => c.key = k) = nodes.any (fun n => n.key = k) := by
  induction nodes with
  | nil => rfl
  | cons n tl ih => simp only [List.map_cons, List.any_cons, ih]; rfl

theorem find_key_map (nodes : List Node) (log : List Entry) (k : Bytes) :
    (nodes.map (absNode log)).find? (fun c => c.key = k) = (nodes.find? (fun n => n.key = k)).map (absNode log) := by
  induction nodes with
  | nil => rfl
  | cons n tl ih =>
    by_cases h : n.key = k <;> simp [List.find?_cons, absNode, h] at ih ⊢
    exact ih

theorem find_unique (nodes : List Node) (hnd : (nodes.map (·.key)).Nodup) (n : Node) (hn : n ∈ nodes) :
    nodes.find? (fun x => x.key = n.key) = some n := by
  induction nodes with
  | nil => simp at hn
  | cons x tl ih =>
    simp only [List.map_cons, List.nodup_cons] at hnd
    rcases List.mem_cons.mp hn with h | h
    · subst h; simp
    · have hne : x.key ≠ n.key := by
        intro he; apply hnd.1; rw [he]; exact List.mem_map_of_mem h
      simp [List.find?_cons, hne]
      exact ih hnd.2 h

theorem find_none_iff (nodes : List Node) (k : Bytes) :
    nodes.find? (fun n => n.key = k) = none ↔ ∀ n ∈ nodes, n.key ≠ k := by
  simp [List.find?_eq_none]

theorem any_false_iff (nodes : List Node) (k : Bytes) :
    nodes.any (fun n => n.key = k) = false ↔ ∀ n ∈ nodes, n.key ≠ k := by
  simp [List.any_eq_false]

/-- members of `upsertNode`: untouched nodes of other keys, or the updated node of `k` -/
theorem mem_upsertNode (nodes : List Node) (hnd : (nodes.map (·.key)).Nodup) (k : Bytes) (f : Node → Node) (n' : Node)
    (h : n' ∈ VLog.upsertNode nodes k f) :
    (n' ∈ nodes ∧ n'.key ≠ k) ∨ n' = f ((nodes.find? (fun n => n.key = k)).getD (VLog.freshNode k)) := by
  simp only [VLog.upsertNode, VLog.modifyNode, VLog.ensureNode] at h
  split at h
  · rename_i hany
    simp only [List.mem_map] at h
    obtain ⟨n, hn, rfl⟩ := h
    by_cases hk : n.key = k
    · right
      have := find_unique nodes hnd n hn
      rw [hk] at this
      simp [hk, this]
    · left; simp [hk, hn]
  · rename_i hany
    have hno : ∀ n ∈ nodes, n.key ≠ k := (any_false_iff nodes k).mp (by simpa using hany)
    have hnone := (find_none_iff nodes k).mpr hno
    simp only [List.map_append, List.mem_append, List.mem_map] at h
    rcases h with ⟨n, hn, rfl⟩ | ⟨n, hn, rfl⟩
    · left; simp [hno n hn, hn]
    · right
      simp at hn
      subst hn
      simp [VLog.freshNode, hnone]

theorem upsertNode_keys (nodes : List Node) (k : Bytes) (f : Node → Node) (hf : ∀ n, (f n).key = n.key) :
    (VLog.upsertNode nodes k f).map (·.key) = (VLog.ensureNode nodes k).map (·.key) := by
  simp only [VLog.upsertNode, VLog.modifyNode, List.map_map]
  apply List.map_congr_left
  intro n _
  by_cases hk : n.key = k <;> simp [hk, hf]

theorem ensureNode_nodup (nodes : List Node) (hnd : (nodes.map (·.key)).Nodup) (k : Bytes) :
    ((VLog.ensureNode nodes k).map (·.key)).Nodup := by
  simp only [VLog.ensureNode]
  split
  · exact hnd
  · rename_i hany
    have hno : ∀ n ∈ nodes, n.key ≠ k := (any_false_iff nodes k).mp (by simpa using hany)
    simp only [List.map_append, List.map_cons, List.map_nil, VLog.freshNode]
    rw [List.nodup_append]
    refine ⟨hnd, by simp, ?_⟩
    intro a ha b hb
    simp at hb
    subst hb
    obtain ⟨n, hn, rfl⟩ := List.mem_map.mp ha
    exact hno n hn

theorem mem_ensureNode_keys (nodes : List Node) (k : Bytes) (n : Node) (hn : n ∈ nodes) : n.key ∈ (VLog.ensureNode nodes k).map (·.key) := by
  simp only [VLog.ensureNode]
  split
  · exact List.mem_map_of_mem hn
  · simp only [List.map_append, List.mem_append]; left; exact List.mem_map_of_mem hn

theorem key_mem_ensureNode (nodes : List Node) (k : Bytes) : k ∈ (VLog.ensureNode nodes k).map (·.key) := by
  simp only [VLog.ensureNode]
  split
  · rename_i hany
    simp only [List.any_eq_true, decide_eq_true_eq] at hany
    obtain ⟨n, hn, hk⟩ := hany
    exact List.mem_map.mpr ⟨n, hn, hk⟩
  · simp [VLog.freshNode]

theorem mem_ensureNode_key (nodes : List Node) (hnd : (nodes.map (·.key)).Nodup) (k : Bytes) (n : Node)
    (hn : n ∈ VLog.ensureNode nodes k) (hk : n.key = k) :
    n = (nodes.find? (fun x => x.key = k)).getD (VLog.freshNode k) := by
  simp only [VLog.ensureNode] at hn
  split at hn
  · have := find_unique nodes hnd n hn
    rw [hk] at this
    simp [this]
  · rename_i hany
    have hno : ∀ n ∈ nodes, n.key ≠ k := (any_false_iff nodes k).mp (by simpa using hany)
    have hnone := (find_none_iff nodes k).mpr hno
    rcases List.mem_append.mp hn with h | h
    · exact absurd hk (hno n h)
    · simp at h; simp [h, hnone]

/-- the abstraction of an upsert is the upsert of the abstraction -/
theorem map_upsert (nodes : List Node) (hnd : (nodes.map (·.key)).Nodup) (log log' : List Entry) (k : Bytes) (f : Node → Node) (g : Cell → Cell)
    (hfresh : (∀ n ∈ nodes, n.key ≠ k) → versionsOf k log = [])
    (hk : absNode log' (f ((nodes.find? (fun x => x.key = k)).getD (VLog.freshNode k)))
            = g (absNode log ((nodes.find? (fun x => x.key = k)).getD (VLog.freshNode k))))
    (hother : ∀ n, n.key ≠ k → absNode log' n = absNode log n) :
    (VLog.upsertNode nodes k f).map (absNode log') = Spec.upsert (nodes.map (absNode log)) k g := by
  have hmod : (VLog.modifyNode (VLog.ensureNode nodes k) k f).map (absNode log')
      = Spec.modify ((VLog.ensureNode nodes k).map (absNode log)) k g := by
    simp only [VLog.modifyNode, Spec.modify, List.map_map]
    apply List.map_congr_left
    intro n hn
    by_cases h : n.key = k
    · have h1 : (absNode log n).key = k := h
      simp only [Function.comp, h, h1, if_true]
      rw [mem_ensureNode_key nodes hnd k n hn h]
      exact hk
    · have h1 : (absNode log n).key ≠ k := h
      simp only [Function.comp, h, h1, if_false]
      exact hother n h
  simp only [VLog.upsertNode, Spec.upsert]
  rw [hmod]
  congr 1
  simp only [VLog.ensureNode, Spec.ensure, any_key_map]
  split
  · rfl
  · rename_i hany
    have hno : ∀ n ∈ nodes, n.key ≠ k := (any_false_iff nodes k).mp (by simpa using hany)
    simp [absNode, VLog.freshNode, Spec.fresh, hfresh hno]

theorem sum_upsert (F : Cell → Int) (cells : List Cell) (k : Bytes) (g : Cell → Cell)
    (hnd : (cells.map (·.key)).Nodup) (hF : F (Spec.fresh k) = 0) :
    Spec.sumInt F (Spec.upsert cells k g)
      = Spec.sumInt F cells - F ((cells.find? (fun c => c.key = k)).getD (Spec.fresh k))
        + F (g ((cells.find? (fun c => c.key = k)).getD (Spec.fresh k))) := by
  simp only [Spec.upsert, Spec.ensure]
  cases hf : cells.find? (fun c => c.key = k) with
  | some c0 =>
    have hany : cells.any (fun c => c.key = k) = true := by
      simp only [List.any_eq_true]
      exact ⟨c0, List.mem_of_find?_eq_some hf, by simpa using List.find?_some hf⟩
    simp only [hany, if_true, Option.getD_some]
    exact sumInt_modify F cells k g c0 hnd hf
  | none =>
    have hno : ∀ c ∈ cells, c.key ≠ k := by simpa [List.find?_eq_none] using hf
    have hany : cells.any (fun c => c.key = k) = false := by
      simp only [List.any_eq_false]; intro c hc; simpa using hno c hc
    simp only [hany, Bool.false_eq_true, if_false, Option.getD_none]
    have hnd' : ((cells ++ [Spec.fresh k]).map (·.key)).Nodup := by
      simp only [List.map_append, List.map_cons, List.map_nil]
      rw [List.nodup_append]
      refine ⟨hnd, by simp, ?_⟩
      intro a ha b hb
      simp [Spec.fresh] at hb
      subst hb
      obtain ⟨c, hc, rfl⟩ := List.mem_map.mp ha
      exact hno c hc
    have hf' : (cells ++ [Spec.fresh k]).find? (fun c => c.key = k) = some (Spec.fresh k) := by
      simp [List.find?_append, hf, Spec.fresh]
    rw [sumInt_modify F _ k g (Spec.fresh k) hnd' hf', sumInt_append]
    simp [Spec.sumInt, hF]

/-! ## the representation invariant -/

structure Inv (m : VLog) : Prop where
  wl : WL m.log
  vptr : ∀ n ∈ m.nodes, n.vptr = topAddr (versionsOf n.key m.log)
  owner : ∀ e ∈ m.log, ∃ n ∈ m.nodes, n.key = e.key
  nodup : (m.nodes.map (·.key)).Nodup
  len : m.len = (abs m).len
  size : m.size = (abs m).size
  del : ∀ n ∈ m.nodes, n.deleted = true → n.vptr = 0
  stagesLe : ∀ c ∈ m.stages, c ≤ m.log.length
  stagesSorted : m.stages.Pairwise (· ≤ ·)

theorem Inv.fresh_versions {m : VLog} (hi : Inv m) (k : Bytes) (h : ∀ n ∈ m.nodes, n.key ≠ k) : versionsOf k m.log = [] := by
  apply versionsOf_nil_of_no_entry
  intro e he hk
  obtain ⟨n, hn, hnk⟩ := hi.owner e he
  exact h n hn (hnk.trans hk)

theorem abs_find (m : VLog) (k : Bytes) : (abs m).find k = (m.findNode k).map (absNode m.log) := by
  simp only [Spec.find, abs, VLog.findNode]
  exact find_key_map m.nodes m.log k

theorem abs_find_getD {m : VLog} (hi : Inv m) (k : Bytes) :
    ((abs m).find k).getD (Spec.fresh k) = absNode m.log ((m.findNode k).getD (VLog.freshNode k)) := by
  rw [abs_find]
  cases h : m.findNode k with
  | some n => rfl
  | none =>
    have hno := (find_none_iff m.nodes k).mp h
    simp [absNode, VLog.freshNode, Spec.fresh, hi.fresh_versions k hno]

theorem abs_nodup {m : VLog} (hi : Inv m) : ((abs m).cells.map (·.key)).Nodup := by
  have : (abs m).cells.map (·.key) = m.nodes.map (·.key) := by
    simp [abs, List.map_map, Function.comp_def, absNode]
  rw [this]; exact hi.nodup

theorem getD_key (m : VLog) (k : Bytes) : ((m.findNode k).getD (VLog.freshNode k)).key = k := by
  cases h : m.findNode k with
  | none => rfl
  | some n =>
    have := List.find?_some h
    simpa using this

theorem getD_mem_or (m : VLog) (k : Bytes) :
    ((m.findNode k).getD (VLog.freshNode k)) ∈ m.nodes ∨
      (m.findNode k = none ∧ (m.findNode k).getD (VLog.freshNode k) = VLog.freshNode k) := by
  cases h : m.findNode k with
  | none => right; simp
  | some n => left; exact List.mem_of_find?_eq_some h

/-- structural part of the invariant after updating the node of `k` and replacing the log -/
theorem upd_struct {m : VLog} (hi : Inv m) (k : Bytes) (f : Node → Node) (log' : List Entry)
    (hf : ∀ n, (f n).key = n.key)
    (hother : ∀ k', k' ≠ k → versionsOf k' log' = versionsOf k' m.log)
    (hvk : (f ((m.findNode k).getD (VLog.freshNode k))).vptr = topAddr (versionsOf k log'))
    (hown : ∀ e ∈ log', e.key = k ∨ ∃ n ∈ m.nodes, n.key = e.key)
    (hdel : (f ((m.findNode k).getD (VLog.freshNode k))).deleted = true → (f ((m.findNode k).getD (VLog.freshNode k))).vptr = 0) :
    (∀ n ∈ VLog.upsertNode m.nodes k f, n.vptr = topAddr (versionsOf n.key log')) ∧
    (∀ e ∈ log', ∃ n ∈ VLog.upsertNode m.nodes k f, n.key = e.key) ∧
    ((VLog.upsertNode m.nodes k f).map (·.key)).Nodup ∧
    (∀ n ∈ VLog.upsertNode m.nodes k f, n.deleted = true → n.vptr = 0) := by
  have hkeys := upsertNode_keys m.nodes k f hf
  have hkey0 : (f ((m.findNode k).getD (VLog.freshNode k))).key = k := by rw [hf]; exact getD_key m k
  refine ⟨?_, ?_, ?_, ?_⟩
  · intro n hn
    rcases mem_upsertNode m.nodes hi.nodup k f n hn with ⟨h1, h2⟩ | h
    · rw [hother n.key h2]; exact hi.vptr n h1
    · have : n.key = k := by rw [h]; exact hkey0
      rw [this, h]; exact hvk
  · intro e he
    have hex : ∀ key, key ∈ (VLog.ensureNode m.nodes k).map (·.key) → ∃ n ∈ VLog.upsertNode m.nodes k f, n.key = key := by
      intro key hkey
      rw [← hkeys] at hkey
      obtain ⟨n, hn, hnk⟩ := List.mem_map.mp hkey
      exact ⟨n, hn, hnk⟩
    rcases hown e he with h | ⟨n, hn, hnk⟩
    · rw [h]; exact hex k (key_mem_ensureNode m.nodes k)
    · rw [← hnk]; exact hex n.key (mem_ensureNode_keys m.nodes k n hn)
  · rw [hkeys]; exact ensureNode_nodup m.nodes hi.nodup k
  · intro n hn hd
    rcases mem_upsertNode m.nodes hi.nodup k f n hn with ⟨h1, _⟩ | h
    · exact hi.del n h1 hd
    · rw [h] at hd ⊢; exact hdel hd

end CGV.MemBuf
