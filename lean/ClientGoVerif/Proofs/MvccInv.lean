/- the per-key invariant kernel behind "never both committed and rolled back" -/
import ClientGoVerif.Proofs.MvccStore
namespace CGV.Mvcc
open CGV

/-- on one key no transaction has both a rollback record and a data (put/delete/lock) record -/
def NoMix (ws : List Write) : Prop :=
  ∀ w1 ∈ ws, ∀ w2 ∈ ws, w1.startTS = w2.startTS → w1.vt = .rollback → w2.vt = .rollback

/-- shape of records: a rollback record sits at its own start ts, a data record strictly above its start ts -/
def WellTimed (ws : List Write) : Prop :=
  ∀ w ∈ ws, (w.vt = .rollback → w.commitTS = w.startTS) ∧ (w.vt ≠ .rollback → w.startTS < w.commitTS)

/-- the transaction has no record at all on the key -/
def Fresh (ws : List Write) (T : TS) : Prop := ∀ w ∈ ws, w.startTS ≠ T

theorem mem_putWrite_iff {ws : List Write} {w x : Write} (h : x ∈ putWrite ws w) : x = w ∨ x ∈ ws := by
  induction ws with
  | nil => simp [putWrite] at h; exact Or.inl h
  | cons y rest ih =>
    simp only [putWrite] at h
    split at h
    · cases h with
      | head => exact Or.inl rfl
      | tail _ h' => exact Or.inr (List.mem_cons_of_mem _ h')
    · split at h
      · cases h with
        | head => exact Or.inl rfl
        | tail _ h' => exact Or.inr h'
      · cases h with
        | head => exact Or.inr (List.mem_cons_self ..)
        | tail _ h' =>
          cases ih h' with
          | inl e => exact Or.inl e
          | inr m => exact Or.inr (List.mem_cons_of_mem _ m)

/-- writing the first record of a transaction on a key keeps NoMix -/
theorem NoMix_putWrite_fresh (ws : List Write) (w : Write) (hn : NoMix ws) (hf : Fresh ws w.startTS) :
    NoMix (putWrite ws w) := by
  intro w1 h1 w2 h2 hst hrb
  cases mem_putWrite_iff h1 with
  | inl e1 =>
    cases mem_putWrite_iff h2 with
    | inl e2 => rw [e2, ← e1]; exact hrb
    | inr m2 => exact absurd (by rw [← hst, e1]) (hf w2 m2)
  | inr m1 =>
    cases mem_putWrite_iff h2 with
    | inl e2 => exact absurd (by rw [hst, e2]) (hf w1 m1)
    | inr m2 => exact hn w1 m1 w2 m2 hst hrb

theorem NoMix_delWrite (ws : List Write) (c : TS) (hn : NoMix ws) : NoMix (delWrite ws c) := by
  intro w1 h1 w2 h2
  exact hn w1 (List.mem_filter.mp h1).1 w2 (List.mem_filter.mp h2).1

/-- C12 kernel: committing the lock of a transaction that has no record yet on the key keeps NoMix -/
theorem commitLock_NoMix (e : Entry) (l : Lock) (k : Bytes) (T C : TS) (hn : NoMix e.writes) (hf : Fresh e.writes T) :
    NoMix ((commitLock l k T C).foldl entryAct e).writes := by
  simp only [commitLock]
  split
  · simpa [entryAct] using hn
  · simp only [List.foldl_cons, List.foldl_nil, entryAct]
    exact NoMix_putWrite_fresh _ _ hn hf

/-- C12 kernel: rolling back (lock present or not) a transaction that has no record yet on the key keeps NoMix -/
theorem rollback_NoMix (e : Entry) (k : Bytes) (T : TS) (hn : NoMix e.writes) (hf : Fresh e.writes T) :
    NoMix ((rollbackLock k T).foldl entryAct e).writes ∧ NoMix (([rollbackMarker k T]).foldl entryAct e).writes := by
  simp only [rollbackLock, rollbackMarker, List.foldl_cons, List.foldl_nil, entryAct]
  exact ⟨NoMix_putWrite_fresh _ _ hn hf, NoMix_putWrite_fresh _ _ hn hf⟩

/-- a data record of the transaction above its start ts makes the optimistic conflict check fail -/
theorem checkConflictValue_after_commit (a : CCArgs) (ws : List Write) (hd : Desc ws) (hwt : WellTimed ws)
    (hm : ∃ w ∈ ws, w.vt ≠ .rollback ∧ w.startTS = a.startTS) (hfu : a.forUpdateTS = a.startTS)
    (hallow : a.allowLockWithConflict = false) :
    ∃ e, checkConflictValue a ws = .error e := by
  cases ws with
  | nil => obtain ⟨w, hw, _⟩ := hm; cases hw
  | cons w rest =>
    obtain ⟨m, hmem, hmv, hms⟩ := hm
    have hmgt : a.startTS < m.commitTS := by rw [← hms]; exact (hwt m hmem).2 hmv
    have hwge : m.commitTS ≤ w.commitTS := by
      cases hmem with
      | head => exact Nat.le_refl _
      | tail _ h => exact Nat.le_of_lt (hd.head_gt m h)
    have hc : w.commitTS > a.forUpdateTS := by rw [hfu]; omega
    unfold checkConflictValue
    simp only [hc, if_true, Option.isSome_some, hallow, Bool.not_false, Bool.and_self]
    exact ⟨_, rfl⟩

/-- C12: a prewrite that writes a lock found no record of its transaction on the key
    (a rollback marker or a commit record would have rejected it) -/
theorem prewrite_lock_implies_fresh (s : Store) (r : PrewriteReq) (m : Mutation) (act : PAction) (acts : List Act)
    (hd : Desc (getEntry s.kv m.key).writes) (hwt : WellTimed (getEntry s.kv m.key).writes)
    (hnolock : (getEntry s.kv m.key).lock = none)
    (hok : prewriteMutation s r m act = .ok acts) :
    Fresh (getEntry s.kv m.key).writes r.startTS := by
  intro w hw hst
  by_cases hv : w.vt = .rollback
  · have hc : w.commitTS = r.startTS := by rw [← hst]; exact (hwt w hw).1 hv
    obtain ⟨e, he⟩ := prewrite_after_rollback_rejected s r m act hd ⟨w, hw, hv, hc⟩
      (fun l hl => by rw [hnolock] at hl; cases hl)
    rw [he] at hok; cases hok
  · unfold prewriteMutation at hok
    simp only [hnolock] at hok
    by_cases ha : (act == PAction.doCheck) = true
    · simp [ha] at hok
    · simp only [ha] at hok
      obtain ⟨e, he⟩ := checkConflictValue_after_commit ⟨m, r.startTS, r.startTS, false, r.assertOn, false, false⟩ _ hd hwt
        ⟨w, hw, hv, hst⟩ rfl rfl
      simp [he] at hok

end CGV.Mvcc
