/-
  Spec/OrderedMap.lean — the abstract ordered map every "behaves as one ordered map" property refines to
  (DESIGN appendix E).  A sorted association list; sortedness is a theorem, never a subtype, so the
  executable drivers and the proofs share one definition.  Core-only (linked into lean_exe drivers).

  Keys are `Bytes = List UInt8`; the order is core Lean's lexicographic order on lists (`<`, `≤`), which is
  what Go's `bytes.Compare` computes (tied by the differential on every run).
-/
import ClientGoVerif.Model.Bytes
namespace CGV.Spec
open CGV

/-- `none` = +∞ (the code's "empty end key") -/
abbrev Bound := Option Bytes

/-- `k < hi` for an upper bound -/
def ltBound (k : Bytes) : Bound → Bool
  | none => true
  | some h => decide (k < h)

/-- `lo ≤ k < hi` -/
def inRange (lo : Bytes) (hi : Bound) (k : Bytes) : Bool := decide (lo ≤ k) && ltBound k hi

structure OMap (V : Type) where
  entries : List (Bytes × V)

namespace OMap
set_option linter.unusedSimpArgs false
variable {V : Type}

def empty : OMap V := ⟨[]⟩

/-- strictly ascending keys -/
def Sorted (m : OMap V) : Prop := m.entries.Pairwise (fun a b => a.1 < b.1)

def get (m : OMap V) (k : Bytes) : Option V := (m.entries.find? (fun p => p.1 == k)).map (·.2)

def insertList (k : Bytes) (v : V) : List (Bytes × V) → List (Bytes × V)
  | [] => [(k, v)]
  | (k', v') :: t =>
    if k < k' then (k, v) :: (k', v') :: t
    else if k = k' then (k, v) :: t
    else (k', v') :: insertList k v t

def insert (m : OMap V) (k : Bytes) (v : V) : OMap V := ⟨insertList k v m.entries⟩

/-- keep the entries whose key satisfies `q` -/
def filterKeys (m : OMap V) (q : Bytes → Bool) : OMap V := ⟨m.entries.filter (fun p => q p.1)⟩

def erase (m : OMap V) (k : Bytes) : OMap V := m.filterKeys (fun k' => k' != k)

/-- the pairs with `lo ≤ key < hi`, ascending -/
def range (m : OMap V) (lo : Bytes) (hi : Bound) : List (Bytes × V) :=
  m.entries.filter (fun p => inRange lo hi p.1)

/-- the pairs with `lo ≤ key < hiExcl`, descending -/
def rrange (m : OMap V) (hiExcl : Bound) (lo : Bytes) : List (Bytes × V) := (m.range lo hiExcl).reverse

/-- remove exactly the keys in `[lo, hi)` -/
def eraseRange (m : OMap V) (lo : Bytes) (hi : Bound) : OMap V := m.filterKeys (fun k => !inRange lo hi k)

/-! ### lemmas (core tactics only) -/

theorem empty_sorted : (empty : OMap V).Sorted := List.Pairwise.nil

theorem mem_insertList {k : Bytes} {v : V} {l : List (Bytes × V)} {x : Bytes × V}
    (h : x ∈ insertList k v l) : x = (k, v) ∨ x ∈ l := by
  induction l with
  | nil => simp [insertList] at h; exact Or.inl h
  | cons p t ih =>
    obtain ⟨k', v'⟩ := p
    simp only [insertList] at h
    split at h
    · simp at h; rcases h with h | h | h <;> simp [h]
    · split at h
      · simp at h; rcases h with h | h <;> simp [h]
      · simp at h
        rcases h with h | h
        · simp [h]
        · rcases ih h with h | h <;> simp [h]

theorem insert_sorted {m : OMap V} (hs : m.Sorted) (k : Bytes) (v : V) : (m.insert k v).Sorted := by
  obtain ⟨l⟩ := m
  unfold Sorted insert at *
  simp only at hs ⊢
  induction l with
  | nil => simp [insertList]
  | cons p t ih =>
    obtain ⟨k', v'⟩ := p
    have ht := (List.pairwise_cons.mp hs).2
    have hh := (List.pairwise_cons.mp hs).1
    simp only [insertList]
    split
    · rename_i hlt
      refine List.pairwise_cons.mpr ⟨?_, hs⟩
      intro x hx
      rcases List.mem_cons.mp hx with hx | hx
      · subst hx; exact hlt
      · have := hh x hx; simp only at this ⊢; grind
    · split
      · rename_i _ heq
        subst heq
        exact List.pairwise_cons.mpr ⟨hh, ht⟩
      · rename_i h1 h2
        refine List.pairwise_cons.mpr ⟨?_, ih ht⟩
        intro x hx
        rcases mem_insertList hx with hx | hx
        · subst hx; simp only; grind
        · exact hh x hx

theorem filterKeys_sorted {m : OMap V} (hs : m.Sorted) (q : Bytes → Bool) : (m.filterKeys q).Sorted :=
  List.Pairwise.sublist List.filter_sublist hs

theorem erase_sorted {m : OMap V} (hs : m.Sorted) (k : Bytes) : (m.erase k).Sorted := filterKeys_sorted hs _

theorem eraseRange_sorted {m : OMap V} (hs : m.Sorted) (lo : Bytes) (hi : Bound) : (m.eraseRange lo hi).Sorted :=
  filterKeys_sorted hs _

theorem range_sorted {m : OMap V} (hs : m.Sorted) (lo : Bytes) (hi : Bound) :
    (m.range lo hi).Pairwise (fun a b => a.1 < b.1) :=
  List.Pairwise.sublist List.filter_sublist hs

theorem get_insert (m : OMap V) (k k' : Bytes) (v : V) :
    (m.insert k v).get k' = if k' = k then some v else m.get k' := by
  unfold get insert
  simp only
  induction m.entries with
  | nil =>
    by_cases h : k' = k
    · subst h; simp [insertList]
    · have : ¬ k = k' := fun e => h e.symm
      simp [insertList, h, this]
  | cons p t ih =>
    obtain ⟨a, b⟩ := p
    simp only [insertList]
    by_cases h : k' = k
    · subst h
      simp only [if_true] at ih ⊢
      split
      · simp
      · split
        · simp
        · rename_i h1 h2
          have : ¬ a = k' := fun e => h2 e.symm
          simp [List.find?_cons, this]
          simpa using ih
    · have hne : ¬ k = k' := fun e => h e.symm
      simp only [h, if_false] at ih ⊢
      split
      · simp [List.find?_cons, hne]
      · split
        · rename_i _ heq
          subst heq
          simp [List.find?_cons, hne]
        · by_cases ha : a = k'
          · simp [List.find?_cons, ha]
          · simp [List.find?_cons, ha]
            simpa using ih

theorem get_filterKeys (m : OMap V) (q : Bytes → Bool) (k : Bytes) :
    (m.filterKeys q).get k = if q k then m.get k else none := by
  unfold get filterKeys
  simp only
  induction m.entries with
  | nil => simp
  | cons p t ih =>
    obtain ⟨a, b⟩ := p
    by_cases ha : a = k
    · subst ha
      by_cases hq : q a
      · simp [List.filter_cons, hq]
      · simp only [List.filter_cons, hq, Bool.false_eq_true, if_false] at ih ⊢
        exact ih
    · by_cases hq : q a
      · simp [List.filter_cons, hq, List.find?_cons, ha]
        simpa using ih
      · simp [List.filter_cons, hq, List.find?_cons, ha]
        simpa using ih

theorem get_erase (m : OMap V) (k k' : Bytes) :
    (m.erase k).get k' = if k' = k then none else m.get k' := by
  unfold erase
  rw [get_filterKeys]
  by_cases h : k' = k <;> simp [h]

/-- delete-range removes exactly the keys in `[lo, hi)` -/
theorem get_eraseRange (m : OMap V) (lo : Bytes) (hi : Bound) (k : Bytes) :
    (m.eraseRange lo hi).get k = if inRange lo hi k then none else m.get k := by
  unfold eraseRange
  rw [get_filterKeys]
  cases inRange lo hi k <;> simp

theorem filterKeys_filterKeys (m : OMap V) (p q : Bytes → Bool) :
    (m.filterKeys q).filterKeys p = m.filterKeys (fun k => p k && q k) := by
  simp [filterKeys, List.filter_filter]

/-- in a sorted map the entry list and `get` agree -/
theorem mem_entries_iff_get {m : OMap V} (hs : m.Sorted) (k : Bytes) (v : V) :
    (k, v) ∈ m.entries ↔ m.get k = some v := by
  obtain ⟨l⟩ := m
  unfold Sorted get at *
  simp only at hs ⊢
  induction l with
  | nil => simp
  | cons p t ih =>
    obtain ⟨a, b⟩ := p
    have ht := (List.pairwise_cons.mp hs).2
    have hh := (List.pairwise_cons.mp hs).1
    by_cases ha : a = k
    · subst ha
      simp [List.find?_cons]
      constructor
      · rintro (h | h)
        · exact h.symm
        · have := hh _ h; simp only at this; exact absurd this (List.lt_irrefl a)
      · intro h; exact Or.inl h.symm
    · have hne : ¬ k = a := fun e => ha e.symm
      simp [List.find?_cons, ha, hne]
      simpa using ih ht

end OMap
end CGV.Spec
