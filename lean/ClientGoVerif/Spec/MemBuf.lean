/-
  C08 reference: the transaction write buffer as ONE ordered map with nested undo.  Core-only, executable.

  key ↦ { present, flags, versions }   where `versions` is the key's value history, newest first, each version tagged
  with the value of a global write clock at which it was written (`[]` = flags-only key, value `[]` = tombstone).
  A stack of stage marks (clock values).  No log, no addresses, no incremental counters:
    * `len`/`size` are DEFINED by counting the present keys,
    * undo (Cleanup / RevertToCheckpoint) = "every key forgets the versions newer than the mark",
    * snapshot = "newest version not newer than stage 0's mark".
  The value history is part of the observable API (SelectValueHistory, InspectStage), and so is the rule that an
  overwrite with a value of the same non-zero length inside the current stage REPLACES the newest version instead of
  adding one; the reference states that rule directly on the key's version list.  A version that existed when the newest
  checkpoint was handed out is never replaced (`guard`), so that RevertToCheckpoint can restore it.
-/
import ClientGoVerif.Model.Bytes
import ClientGoVerif.Model.KeyFlags
import ClientGoVerif.Generated.MemLimits
namespace CGV.MemBuf
open CGV

/-! ## API vocabulary shared by the reference and the mechanism model -/

inductive Err | nilValue | keyTooLarge | entryTooLarge | txnTooLarge
  deriving DecidableEq, Repr

/-- predicates offered to SelectValueHistory by the harness -/
inductive Pred
  | any | never | lenEq (n : Nat) | ne (v : Bytes)
  deriving DecidableEq, Repr

def Pred.eval : Pred → Bytes → Bool
  | .any, _ => true
  | .never, _ => false
  | .lenEq n, v => v.length == n
  | .ne w, v => v != w

structure Item where
  key : Bytes
  flags : Nat
  value : Option Bytes      -- none: flags-only key
  deriving DecidableEq, Repr

inductive Op
  | set (k v : Bytes) (ops : List Nat)      -- MemBuffer.Set / SetWithFlags
  | del (k : Bytes) (ops : List Nat)        -- Delete / DeleteWithFlags
  | upd (k : Bytes) (ops : List Nat)        -- UpdateFlags
  | get (k : Bytes)
  | getFlags (k : Bytes)
  | iter (lo hi : Bytes) (rev withFlags : Bool)   -- empty bound = unbounded
  | snapGet (k : Bytes)
  | snapIter (lo hi : Bytes) (rev : Bool)
  | len | size | dirty
  | staging
  | release (h : Nat)
  | cleanup (h : Nat)
  | checkpoint
  | revert (cp : Nat)
  | inspect (h : Nat)
  | hist (k : Bytes) (p : Pred)
  | setLimits (entry buffer : Nat)
  deriving Repr

inductive Out
  | ok
  | err (e : Err)
  | refused            -- documented panic (Release/Cleanup with a wrong handle) or a use the harness never issues
  | notFound
  | noMatch            -- SelectValueHistory: key has values but none satisfies the predicate
  | val (v : Bytes)
  | flags (f : Nat)
  | num (n : Int)
  | bool (b : Bool)
  | items (l : List Item)
  deriving DecidableEq, Repr

/-! ## ordered output -/

def insertItem (x : Item) : List Item → List Item
  | [] => [x]
  | y :: ys => if Bytes.lt x.key y.key then x :: y :: ys else y :: insertItem x ys

def sortItems : List Item → List Item
  | [] => []
  | x :: xs => insertItem x (sortItems xs)

/-- `lo ≤ k < hi`, an empty bound is unbounded -/
def inRange (lo hi k : Bytes) : Bool :=
  (lo.isEmpty || Bytes.le lo k) && (hi.isEmpty || Bytes.lt k hi)

def ordered (rev : Bool) (l : List Item) : List Item :=
  if rev then (sortItems l).reverse else sortItems l

/-! ## the reference -/

abbrev Version := Nat × Bytes      -- (clock value when written, value)

structure Cell where
  key : Bytes
  present : Bool
  flags : Nat
  versions : List Version
  deriving DecidableEq, Repr

def Cell.value (c : Cell) : Option Bytes := c.versions.head?.map (·.2)
def Cell.topSeq (c : Cell) : Nat := match c.versions with | [] => 0 | (a, _) :: _ => a
def Cell.valLen (c : Cell) : Nat := match c.versions with | [] => 0 | (_, v) :: _ => v.length
def Cell.snapValue (cp : Nat) (c : Cell) : Option Bytes := (c.versions.find? (fun x => x.1 ≤ cp)).map (·.2)

structure Spec where
  cells : List Cell         -- finite map; a key occurs at most once; `present = false` = absent
  clock : Nat               -- number of versions currently remembered (all keys)
  marks : List Nat          -- stage marks, bottom first (handle h ↦ marks[h-1])
  guard : Nat               -- clock value of the newest checkpoint handed out (0: none); older versions are never replaced
  dirty : Bool
  entryLimit : Nat
  bufLimit : Nat
  deriving Repr

namespace Spec

def init : Spec :=
  { cells := [], clock := 0, marks := [], guard := 0, dirty := false,
    entryLimit := Gen.MemLimits.unlimitedSize, bufLimit := Gen.MemLimits.unlimitedSize }


def cellSize (c : Cell) : Int := if c.present then (c.key.length + c.valLen : Nat) else 0
def cellCount (c : Cell) : Int := if c.present then 1 else 0

def sumInt {α} (f : α → Int) : List α → Int
  | [] => 0
  | x :: xs => f x + sumInt f xs

def len (s : Spec) : Int := sumInt cellCount s.cells
def size (s : Spec) : Int := sumInt cellSize s.cells

def find (s : Spec) (k : Bytes) : Option Cell := s.cells.find? (fun c => c.key = k)

def fresh (k : Bytes) : Cell := { key := k, present := false, flags := 0, versions := [] }

/-- make sure the key has a cell (a never-seen key gets an absent one) -/
def ensure (cells : List Cell) (k : Bytes) : List Cell :=
  if cells.any (fun c => c.key = k) then cells else cells ++ [fresh k]

def modify (cells : List Cell) (k : Bytes) (f : Cell → Cell) : List Cell :=
  cells.map (fun c => if c.key = k then f c else c)

/-- apply `f` to the cell of `k` -/
def upsert (cells : List Cell) (k : Bytes) (f : Cell → Cell) : List Cell := modify (ensure cells k) k f

/-- may the version written at clock value `a` still be overwritten in place? (only inside the current stage) -/
def canModify (marks : List Nat) (a : Nat) : Bool :=
  match marks.getLast? with
  | none => true
  | some m => a > m

/-- the write rule on one key's history; returns the new history and the new clock -/
def pushOrSwap (marks : List Nat) (guard : Nat) (clock : Nat) (vs : List Version) (v : Bytes) : List Version × Nat :=
  match vs with
  | (a, old) :: rest =>
    if canModify marks a && decide (a > guard) && old.length > 0 && old.length == v.length then ((a, v) :: rest, clock)
    else ((clock + 1, v) :: vs, clock + 1)
  | [] => ([(clock + 1, v)], clock + 1)

/-- the flags after a write: every value write first drops NeedConstraintCheckInPrewrite -/
def writeFlags (flags : Nat) (v : Option Bytes) (ops : List Nat) : Nat :=
  match v with
  | some _ => KeyFlags.applyOps flags (KeyFlags.delNeedConstraintCheck :: ops)
  | none => KeyFlags.applyOps flags ops

/-- the state change of a write that passed the key / entry limits; `v = none` updates flags only -/
def writeCore (s : Spec) (k : Bytes) (v : Option Bytes) (ops : List Nat) : Spec :=
  let c := (s.find k).getD (fresh k)
  let flags' := writeFlags c.flags v ops
  let dirty' := s.dirty || s.marks.isEmpty || KeyFlags.andPersistent flags' != 0
  match v with
  | none =>
    { s with cells := upsert s.cells k (fun c => { c with present := true, flags := flags' }), dirty := dirty' }
  | some x =>
    let r := pushOrSwap s.marks s.guard s.clock c.versions x
    { s with cells := upsert s.cells k (fun c => { c with present := true, flags := flags', versions := r.1 }),
             clock := r.2, dirty := dirty' }

/-- `value != nil && uint64(len(key)+len(value)) > entrySizeLimit` (flags-only updates are exempt) -/
def entryTooLarge (k : Bytes) (v : Option Bytes) (limit : Nat) : Bool :=
  match v with
  | some x => decide (k.length + x.length > limit)
  | none => false

/-- ART.Set / RBT.Set: limits, then the write; the buffer limit is checked AFTER the write has been applied -/
def write (s : Spec) (k : Bytes) (v : Option Bytes) (ops : List Nat) : Spec × Out :=
  if k.length > Gen.MemLimits.maxKeyLen then (s, .err .keyTooLarge)
  else if entryTooLarge k v s.entryLimit then (s, .err .entryTooLarge)
  else
    let s' := s.writeCore k v ops
    if v.isSome && decide (s'.size > (s.bufLimit : Int)) then (s', .err .txnTooLarge) else (s', .ok)

/-- the key forgets its newest version; when the last one goes only persistent flags keep the key alive -/
def flagsRule (c : Cell) : Cell :=
  let kept := KeyFlags.andPersistent c.flags
  if kept = 0 then { c with versions := [], present := false, flags := 0 }
  else { c with versions := [], flags := kept }

/-- the key forgets every version newer than `mark` -/
def undoCell (mark : Nat) (c : Cell) : Cell :=
  match c.versions with
  | [] => c
  | (a, _) :: _ =>
    if a ≤ mark then c
    else
      let kept := c.versions.dropWhile (fun x => x.1 > mark)
      if kept.isEmpty then flagsRule c else { c with versions := kept }

def undoTo (s : Spec) (mark : Nat) : Spec :=
  { s with cells := s.cells.map (undoCell mark), clock := mark, guard := min s.guard mark }

def snapMark (s : Spec) : Nat := match s.marks.head? with | some m => m | none => s.clock


def itemOf (c : Cell) : Item := { key := c.key, flags := c.flags, value := c.value }

def iterItems (s : Spec) (lo hi : Bytes) (withFlags : Bool) : List Item :=
  (s.cells.filter (fun c => c.present && inRange lo hi c.key && (withFlags || c.versions != []))).map itemOf

def snapItems (s : Spec) (lo hi : Bytes) : List Item :=
  s.cells.filterMap (fun c =>
    if c.present && inRange lo hi c.key then
      (c.snapValue s.snapMark).map (fun v => { key := c.key, flags := 0, value := some v })
    else none)

/-- versions written since `mark`, newest first, that are still the current version of their key -/
def inspectFrom (s : Spec) (mark : Nat) : List Item :=
  ((List.range (s.clock - mark)).reverse.map (· + mark + 1)).filterMap (fun a =>
    (s.cells.find? (fun c => c.topSeq = a)).map itemOf)

def step (s : Spec) : Op → Spec × Out
  | .set k v ops => if v.isEmpty then (s, .err .nilValue) else s.write k (some v) ops
  | .del k ops => s.write k (some []) ops
  | .upd k ops => ((s.write k none ops).1, .ok)
  | .get k =>
    match s.find k with
    | some c => (match c.value with | some v => (s, .val v) | none => (s, .notFound))
    | none => (s, .notFound)
  | .getFlags k =>
    match s.find k with
    | some c => if c.present then (s, .flags c.flags) else (s, .notFound)
    | none => (s, .notFound)
  | .iter lo hi rev wf => (s, .items (ordered rev (s.iterItems lo hi wf)))
  | .snapGet k =>
    match s.find k with
    | some c => (match c.snapValue s.snapMark with | some v => (s, .val v) | none => (s, .notFound))
    | none => (s, .notFound)
  | .snapIter lo hi rev => (s, .items (ordered rev (s.snapItems lo hi)))
  | .len => (s, .num s.len)
  | .size => (s, .num s.size)
  | .dirty => (s, .bool s.dirty)
  | .staging => ({ s with marks := s.marks ++ [s.clock] }, .num (s.marks.length + 1))
  | .release h =>
    if h = 0 then (s, .ok)
    else if h ≠ s.marks.length then (s, .refused)
    else
      let d := s.dirty || (h == 1 && s.marks.head? != some s.clock)
      ({ s with marks := s.marks.dropLast, dirty := d }, .ok)
  | .cleanup h =>
    if h = 0 then (s, .ok)
    else if h > s.marks.length then (s, .ok)
    else if h < s.marks.length then (s, .refused)
    else
      match s.marks.getLast? with
      | some m => ({ (s.undoTo m) with marks := s.marks.dropLast }, .ok)
      | none => (s, .ok)
  | .checkpoint => ({ s with guard := s.clock }, .num s.clock)
  | .revert cp =>
    -- only checkpoints inside the current stage and not beyond the end are ever reverted to
    if cp ≤ s.clock && (match s.marks.getLast? with | some m => decide (m ≤ cp) | none => true) then (s.undoTo cp, .ok)
    else (s, .refused)
  | .inspect h =>
    if h = 0 then (s, .refused)
    else match s.marks[h - 1]? with
      | some m => (s, .items (s.inspectFrom m))
      | none => (s, .refused)
  | .hist k p =>
    match s.find k with
    | some c =>
      if c.versions.isEmpty then (s, .notFound)
      else (match c.versions.find? (fun x => p.eval x.2) with
        | some x => (s, .val x.2)
        | none => (s, .noMatch))
    | none => (s, .notFound)
  | .setLimits e b => ({ s with entryLimit := e, bufLimit := b }, .ok)

end Spec
end CGV.MemBuf
