/-
  C07 — the declarative side: what a transaction is supposed to see.

  * a snapshot and a write buffer are association lists `key ↦ value`; the FIRST entry of a key is the one that
    counts (`lookup`), an empty value is a tombstone / "not there";
  * `viewGet`   : the value of one key  = buffer entry if there is one, else snapshot entry, tombstones hidden;
  * `view`      : the listing of a range = every key of the (sorted, duplicate free) key universe that lies in
                  `[lo, hi)` (`hi = []` means unbounded) and has a value under `viewGet`, in ascending order;
  * `liveWrites`: program order semantics of set/delete/staging/release/cleanup/checkpoint/revert as a stack of
                  write LOGS (newest first), one log per undo mark (staging level or checkpoint): release
                  appends the level's log to the one below, cleanup throws the level and everything newer away,
                  revert throws away everything written after the checkpoint.  The view of a transaction is
                  `viewGet snap (liveWrites ops)`: the latest live write wins.

  Core only (linked into the driver).
-/
import ClientGoVerif.Model.Bytes
namespace CGV.Overlay

abbrev KV := Bytes × Bytes

/-- first entry for `k` -/
def lookup : List KV → Bytes → Option Bytes
  | [], _ => none
  | (k', v) :: r, k => if k' = k then some v else lookup r k

/-- empty value = deleted / not found -/
def visible : Option Bytes → Option Bytes
  | some v => if v = [] then none else some v
  | none => none

def viewGet (snap buf : List KV) (k : Bytes) : Option Bytes :=
  match lookup buf k with
  | some v => visible (some v)
  | none => visible (lookup snap k)

/-- `lo ≤ k < hi`, an empty `hi` is +∞ (an empty `lo` is the smallest key anyway) -/
def inRange (lo hi k : Bytes) : Bool := Bytes.le lo k && (hi.isEmpty || Bytes.lt k hi)

def insertKey (k : Bytes) : List Bytes → List Bytes
  | [] => [k]
  | x :: xs =>
    match Bytes.cmp k x with
    | .lt => k :: x :: xs
    | .eq => x :: xs
    | .gt => x :: insertKey k xs

/-- insertion sort that drops duplicates -/
def sortKeys (l : List Bytes) : List Bytes := l.foldr insertKey []

def keyUniverse (snap buf : List KV) : List Bytes := sortKeys (buf.map (·.1) ++ snap.map (·.1))

def view (snap buf : List KV) (lo hi : Bytes) : List KV :=
  (keyUniverse snap buf).filterMap fun k =>
    if inRange lo hi k then (viewGet snap buf k).map fun v => (k, v) else none

/-- reverse iteration lists the same range downwards -/
def viewDir (snap buf : List KV) (lo hi : Bytes) (rev : Bool) : List KV :=
  if rev then (view snap buf lo hi).reverse else view snap buf lo hi

/-- `a` comes strictly before `b` in an ascending (`rev = false`) / descending (`rev = true`) listing -/
def KeyBefore (rev : Bool) (a b : KV) : Prop :=
  if rev then Bytes.cmp b.1 a.1 = .lt else Bytes.cmp a.1 b.1 = .lt

instance (rev : Bool) (a b : KV) : Decidable (KeyBefore rev a b) := by
  unfold KeyBefore; exact inferInstance

/-- strictly ascending / descending by key: in particular no key twice -/
def StrictlyOrdered (rev : Bool) (l : List KV) : Prop := l.Pairwise (KeyBefore rev)

instance (rev : Bool) (l : List KV) : Decidable (StrictlyOrdered rev l) := by
  unfold StrictlyOrdered; exact inferInstance

/-- a well formed map: strictly ascending keys -/
abbrev IsMap (l : List KV) : Prop := StrictlyOrdered false l

/-- snapshots never hold empty values (TiKV has no empty values; `KVSnapshot` filters them) -/
def NoEmpty (l : List KV) : Prop := ∀ kv ∈ l, kv.2 ≠ []

instance (l : List KV) : Decidable (NoEmpty l) := by
  unfold NoEmpty; exact inferInstance

/-- operations on the write buffer.  `release`/`cleanup` address the innermost live staging level,
`revert i` the `i`-th checkpoint that is still valid (counted from the oldest, as `checkpoint` numbers them) -/
inductive BOp
  | set (k v : Bytes)
  | del (k : Bytes)
  | staging
  | release
  | cleanup
  | checkpoint
  | revert (i : Nat)
  deriving Repr, DecidableEq

/-- the writes made since one undo mark was set (a staging level or a checkpoint), newest first -/
structure Seg where
  isStage : Bool
  log : List KV
  deriving Repr, DecidableEq

/-- write logs: one segment per live undo mark, newest mark first, and the writes older than every mark -/
structure LogState where
  segs : List Seg
  base : List KV
  deriving Repr, DecidableEq

def segCps : List Seg → Nat
  | [] => 0
  | s :: r => (if s.isStage then 0 else 1) + segCps r

def pushWrite (w : KV) : LogState → LogState
  | ⟨[], base⟩ => ⟨[], w :: base⟩
  | ⟨s :: r, base⟩ => ⟨⟨s.isStage, w :: s.log⟩ :: r, base⟩

/-- hand a log down to whatever lies below it -/
def appendBelow (log : List KV) : List Seg → List KV → List Seg × List KV
  | [], base => ([], log ++ base)
  | t :: r, base => (⟨t.isStage, log ++ t.log⟩ :: r, base)

/-- release: the innermost staging level disappears as an undo boundary, its writes (and every newer mark) stay -/
def releaseSegs : List Seg → List KV → Option (List Seg × List KV)
  | [], _ => none
  | s :: r, base =>
    if s.isStage then some (appendBelow s.log r base)
    else match releaseSegs r base with
      | some (r', base') => some (s :: r', base')
      | none => none

/-- cleanup: the innermost staging level and everything newer is thrown away -/
def cleanupSegs : List Seg → Option (List Seg)
  | [] => none
  | s :: r => if s.isStage then some r else cleanupSegs r

/-- revert to checkpoint `i`: everything written after it is thrown away, the checkpoint itself stays; refused
(`none`) when it does not exist any more or a staging level opened after it is still open -/
def revertSegs (i : Nat) : List Seg → Option (List Seg)
  | [] => none
  | s :: r =>
    if s.isStage then none
    else if segCps r = i then some (⟨false, []⟩ :: r)
    else revertSegs i r

def stepLog (st : LogState) : BOp → LogState
  | .set k v => if v = [] then st else pushWrite (k, v) st          -- Set rejects an empty value
  | .del k => pushWrite (k, []) st
  | .staging => ⟨⟨true, []⟩ :: st.segs, st.base⟩
  | .checkpoint => ⟨⟨false, []⟩ :: st.segs, st.base⟩
  | .release => match releaseSegs st.segs st.base with
    | some (segs, base) => ⟨segs, base⟩
    | none => st
  | .cleanup => match cleanupSegs st.segs with
    | some segs => ⟨segs, st.base⟩
    | none => st
  | .revert i => match revertSegs i st.segs with
    | some segs => ⟨segs, st.base⟩
    | none => st

def logState (ops : List BOp) : LogState := ops.foldl stepLog ⟨[], []⟩

def liveOf (segs : List Seg) (base : List KV) : List KV := (segs.map (·.log)).flatten ++ base

/-- all writes that are still live after `ops`, newest first -/
def liveWrites (ops : List BOp) : List KV := liveOf (logState ops).segs (logState ops).base

/-- staging depth after `ops`, relative to the depth `d` before them; `none` if some release/cleanup would
close a level that was opened before `ops` -/
def netDepth : Nat → List BOp → Option Nat
  | d, [] => some d
  | d, .staging :: r => netDepth (d + 1) r
  | 0, .release :: _ => none
  | 0, .cleanup :: _ => none
  | d + 1, .release :: r => netDepth d r
  | d + 1, .cleanup :: r => netDepth d r
  | d, .set _ _ :: r => netDepth d r
  | d, .del _ :: r => netDepth d r
  | d, .checkpoint :: r => netDepth d r
  | d, .revert _ :: r => netDepth d r

/-- `ops` opens and closes only its own staging levels (checkpoints and reverts are unrestricted: a revert
cannot reach below a staging level that is still open) -/
def Bracketed (ops : List BOp) : Prop := netDepth 0 ops = some 0

instance (ops : List BOp) : Decidable (Bracketed ops) := by unfold Bracketed; exact inferInstance

/-- a block of operations after a checkpoint: `(d, n)` = staging depth relative to the checkpoint and the number
of `release`s that hit a level OLDER than the checkpoint (allowed: releasing does not touch the content);
`none` if a `cleanup` would discard a level older than the checkpoint (that cuts the checkpoint away) -/
def cpBlock : Nat → Nat → List BOp → Option (Nat × Nat)
  | d, n, [] => some (d, n)
  | d, n, .staging :: r => cpBlock (d + 1) n r
  | 0, n, .release :: r => cpBlock 0 (n + 1) r
  | 0, _, .cleanup :: _ => none
  | d + 1, n, .release :: r => cpBlock d n r
  | d + 1, n, .cleanup :: r => cpBlock d n r
  | d, n, .set _ _ :: r => cpBlock d n r
  | d, n, .del _ :: r => cpBlock d n r
  | d, n, .checkpoint :: r => cpBlock d n r
  | d, n, .revert _ :: r => cpBlock d n r

def BOp.revertsAtLeast (i : Nat) : BOp → Bool
  | .revert j => decide (i ≤ j)
  | _ => true

/-- no revert in `ops` goes to a checkpoint older than number `i` -/
def RevertsAtLeast (i : Nat) (ops : List BOp) : Prop := ∀ op ∈ ops, op.revertsAtLeast i = true

instance (i : Nat) (ops : List BOp) : Decidable (RevertsAtLeast i ops) := by
  unfold RevertsAtLeast; exact inferInstance

end CGV.Overlay
