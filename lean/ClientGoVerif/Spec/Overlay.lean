/-
  C07 — the declarative side: what a transaction is supposed to see.

  * a snapshot and a write buffer are association lists `key ↦ value`; the FIRST entry of a key is the one that
    counts (`lookup`), an empty value is a tombstone / "not there";
  * `viewGet`   : the value of one key  = buffer entry if there is one, else snapshot entry, tombstones hidden;
  * `view`      : the listing of a range = every key of the (sorted, duplicate free) key universe that lies in
                  `[lo, hi)` (`hi = []` means unbounded) and has a value under `viewGet`, in ascending order;
  * `liveWrites`: program order semantics of set/delete/staging/release/cleanup as a stack of write LOGS
                  (newest first): release appends the level to the one below, cleanup throws it away.  The view
                  of a transaction is `viewGet snap (liveWrites ops)`: the latest live write wins.

  Core only (linked into the driver).
-/
import ClientGoVerif.Model.Bytes
namespace CGV.Overlay

abbrev KV := Bytes × Bytes

/-- first entry for `k` -/
def lookup : List KV → Bytes → Option Bytes
  | [], _ => none
  | (k', v) :: r, k => if k' = k then some v else lookup r k

/-- empty value = deleted / not found -/
def visible : Option Bytes → Option Bytes
  | some v => if v = [] then none else some v
  | none => none

def viewGet (snap buf : List KV) (k : Bytes) : Option Bytes :=
  match lookup buf k with
  | some v => visible (some v)
  | none => visible (lookup snap k)

/-- `lo ≤ k < hi`, an empty `hi` is +∞ (an empty `lo` is the smallest key anyway) -/
def inRange (lo hi k : Bytes) : Bool := Bytes.le lo k && (hi.isEmpty || Bytes.lt k hi)

def insertKey (k : Bytes) : List Bytes → List Bytes
  | [] => [k]
  | x :: xs =>
    match Bytes.cmp k x with
    | .lt => k :: x :: xs
    | .eq => x :: xs
    | .gt => x :: insertKey k xs

/-- insertion sort that drops duplicates -/
def sortKeys (l : List Bytes) : List Bytes := l.foldr insertKey []

def keyUniverse (snap buf : List KV) : List Bytes := sortKeys (buf.map (·.1) ++ snap.map (·.1))

def view (snap buf : List KV) (lo hi : Bytes) : List KV :=
  (keyUniverse snap buf).filterMap fun k =>
    if inRange lo hi k then (viewGet snap buf k).map fun v => (k, v) else none

/-- reverse iteration lists the same range downwards -/
def viewDir (snap buf : List KV) (lo hi : Bytes) (rev : Bool) : List KV :=
  if rev then (view snap buf lo hi).reverse else view snap buf lo hi

/-- `a` comes strictly before `b` in an ascending (`rev = false`) / descending (`rev = true`) listing -/
def KeyBefore (rev : Bool) (a b : KV) : Prop :=
  if rev then Bytes.cmp b.1 a.1 = .lt else Bytes.cmp a.1 b.1 = .lt

instance (rev : Bool) (a b : KV) : Decidable (KeyBefore rev a b) := by
  unfold KeyBefore; exact inferInstance

/-- strictly ascending / descending by key: in particular no key twice -/
def StrictlyOrdered (rev : Bool) (l : List KV) : Prop := l.Pairwise (KeyBefore rev)

instance (rev : Bool) (l : List KV) : Decidable (StrictlyOrdered rev l) := by
  unfold StrictlyOrdered; exact inferInstance

/-- a well formed map: strictly ascending keys -/
abbrev IsMap (l : List KV) : Prop := StrictlyOrdered false l

/-- snapshots never hold empty values (TiKV has no empty values; `KVSnapshot` filters them) -/
def NoEmpty (l : List KV) : Prop := ∀ kv ∈ l, kv.2 ≠ []

instance (l : List KV) : Decidable (NoEmpty l) := by
  unfold NoEmpty; exact inferInstance

/-- operations on the write buffer; `release`/`cleanup` address the innermost live staging level -/
inductive BOp
  | set (k v : Bytes)
  | del (k : Bytes)
  | staging
  | release
  | cleanup
  deriving Repr, DecidableEq

/-- stack of write logs, innermost level first, each log newest first -/
def stepLog : List (List KV) → BOp → List (List KV)
  | l :: r, .set k v => if v = [] then l :: r else ((k, v) :: l) :: r   -- Set rejects an empty value
  | l :: r, .del k => ((k, []) :: l) :: r
  | st, .staging => [] :: st
  | l₁ :: l₂ :: r, .release => (l₁ ++ l₂) :: r
  | _ :: l₂ :: r, .cleanup => l₂ :: r
  | st, _ => st

def logStack (ops : List BOp) : List (List KV) := ops.foldl stepLog [[]]

/-- all writes that are still live after `ops`, newest first -/
def liveWrites (ops : List BOp) : List KV := (logStack ops).flatten

/-- staging depth after `ops`, relative to the depth `d` before them; `none` if some release/cleanup would
close a level that was opened before `ops` -/
def netDepth : Nat → List BOp → Option Nat
  | d, [] => some d
  | d, .staging :: r => netDepth (d + 1) r
  | 0, .release :: _ => none
  | 0, .cleanup :: _ => none
  | d + 1, .release :: r => netDepth d r
  | d + 1, .cleanup :: r => netDepth d r
  | d, .set _ _ :: r => netDepth d r
  | d, .del _ :: r => netDepth d r

/-- `ops` opens and closes only its own staging levels -/
def Bracketed (ops : List BOp) : Prop := netDepth 0 ops = some 0

instance (ops : List BOp) : Decidable (Bracketed ops) := by unfold Bracketed; exact inferInstance

def BOp.isWrite : BOp → Bool
  | .set _ _ => true
  | .del _ => true
  | _ => false

/-- only sets and deletes -/
def WritesOnly (ops : List BOp) : Prop := ∀ op ∈ ops, op.isWrite = true

instance (ops : List BOp) : Decidable (WritesOnly ops) := by unfold WritesOnly; exact inferInstance

end CGV.Overlay
