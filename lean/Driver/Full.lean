/-
  cgv-full — the Lean MVCC store served over the line protocol (profile `full`, DESIGN §3.2 / Appendix A).
  The Go side (harness/hub LeanStore client) performs the region/epoch/leader checks with the repo's own mock cluster
  and sends only the KV command:   <rstart> <rend> <cmd…>   →   <wire answer>      (`reset` → ok, `dump <key>`, `locks`)
-/
import ClientGoVerif.Model.MvccFull
open CGV CGV.Mvcc CGV.MvccProto CGV.MvccRpc CGV.MvccFull

def step (f : FStore) (line : String) : FStore × String :=
  match words line with
  | ["reset"] => ({}, "ok")
  | ["dump", k] =>
    match hx k with
    | some k => (f, dumpEntry (getEntry f.base.kv k))
    | none => (f, "bad-op")
  | ["locks"] =>
    (f, showList ((scanLock f.base [] [] maxU64).map fun (k, p, t) => s!"{hexOrTilde k}/{hexOrTilde p}/{t}"))
  | ["maxts"] => (f, toString f.maxTS)
  | rs :: re :: cmd =>
    match hx rs, hx re with
    | some rs, some re =>
      match frpcExec f rs re cmd with
      | some (f', a) => (f', a)
      | none => (f, "bad-op")
    | _, _ => (f, "bad-op")
  | _ => (f, "bad-op")

def main : IO Unit := runDriver ({} : FStore) step
