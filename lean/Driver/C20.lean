import ClientGoVerif.Model.Bytes
import ClientGoVerif.Model.Backoff
open CGV CGV.Backoff

/-- what `p-last` judges: the most recent bo / clone / fork / merge op with the states around it -/
structure Last where
  pre : State
  op : Op
  out : Out
  post : State

structure DState where
  s : State
  customs : List (String × Config)     -- ident ↦ config created by `defcfg`
  last : Option Last

def dinit : DState := { s := init, customs := [], last := none }

def allCfgs (d : DState) : List Config := table ++ d.customs.map (·.2)

def findCfg (d : DState) (ident : String) : Option Config :=
  match d.customs.find? (·.1 == ident) with
  | some (_, c) => some c
  | none => table.find? (·.name == ident)

/-- insertion sort on keys (the Go side sorts what came out of a map) -/
def insSorted (p : String × Int) : List (String × Int) → List (String × Int)
  | [] => [p]
  | q :: r => if p.1 < q.1 then p :: q :: r else q :: insSorted p r
def sortMap (m : AMap) : AMap := m.foldl (fun acc p => insSorted p acc) []

def showMap (m : AMap) : String :=
  if m.isEmpty then "-" else ",".intercalate ((sortMap m).map fun p => s!"{p.1}:{p.2}")

def showList (l : List String) : String := if l.isEmpty then "-" else ",".intercalate l

def b2s (b : Bool) : String := if b then "1" else "0"

def showB (b : Backoffer) : String :=
  if b.retired then "retired" else
  let par := match b.parent with | some p => toString p | none => "-"
  s!"max={b.maxSleep} total={b.totalSleep} excl={b.excludedSleep} errs={b.errorsNum} taint={b2s b.tainted} " ++
  s!"ms={showMap b.sleepMS} times={showMap b.times} cfgs={showList (b.configs.map (·.1))} par={par}"

def showOut : Out → String
  | .created id => s!"created {id}"
  | .slept r b a => s!"slept {r} base {b} att {a}"
  | .killedAfter sig r b a => s!"killed {sig} {r} base {b} att {a}"
  | .cancelled => "cancelled"
  | .noop => "noop"
  | .exceeded k => s!"exceeded {k}"
  | .merged => "merged"
  | .ignored => "ignored"
  | .done => "done"
  | .badChoice => "bad-choice"
  | .bad => "bad"
  | .panic => "panic-expected"

/-- accounting part of a back-offer that an API user can observe -/
def acct (b : Backoffer) : String :=
  s!"{b.maxSleep} {b.totalSleep} {b.excludedSleep} {b.errorsNum} {showMap b.sleepMS} {showMap b.times} {showList (b.configs.map (·.1))}"

def budgetExceeded (b : Backoffer) (name : String) : Bool :=
  let ex : Bool := match excl name with
    | some l => decide (b.excludedSleep ≥ l ∧ b.excludedSleep ≥ b.maxSleep)
    | none => false
  decide (b.maxSleep > 0) && (decide (b.totalSleep - b.excludedSleep ≥ b.maxSleep) || ex)

/-- the error classes the property text allows when the budget is exhausted: the error of a non-excluded kind
    with the largest accumulated sleep (any config known under that name), or the caller's error if nothing slept -/
def insStr (x : String) : List String → List String
  | [] => [x]
  | y :: r => if x < y then x :: y :: r else if x == y then y :: r else y :: insStr x r

/-- sorted, without duplicates (canonical form shared with the Go side) -/
def sortDedup (l : List String) : List String := l.foldl (fun acc x => insStr x acc) []

def wantLongest (d : DState) (b : Backoffer) : List String :=
  if longest b.sleepMS > 0 then
    sortDedup ((candidates b.sleepMS).flatMap fun n => ((allCfgs d).filter (·.name == n)).map (·.errK))
  else [callerK]

def capBound (d : DState) (name : String) : Int :=
  ((allCfgs d).filter (·.name == name)).foldl (fun a c => max a c.cap) 0

/-- EqualJitter never sleeps less than half of the exponential step of the closure in use (unless cut) -/
def belowFloor (b : Backoffer) (cfg : Config) (m sl real : Int) : Bool :=
  match effFn b cfg with
  | some f => decide (f.jitter = Gen.equalJitter) && !(decide (m ≥ 0) && decide (sl > m)) &&
              decide (real < Int.tdiv (expo f.base f.cap f.attempts) 2)
  | none => false

/-- verdict of the property's oracle on the model's own values -/
def verdict (d : DState) (l : Last) : String :=
  match l.op with
  | .backoff id cfg m sl _ =>
    match l.pre.bs[id]?, l.post.bs[id]? with
    | some b, some b' =>
      if b.retired then "ok" else
      let done := isDone l.pre b
      let same := decide (b' = b)
      match l.out with
      | .cancelled =>
        if ¬ done then "FAIL spurious-cancel" else if ¬ same then "FAIL state-changed-after-cancel" else "ok"
      | .noop => if done then "FAIL not-stopped-by-cancel" else if ¬ same then "FAIL state-changed" else "ok"
      | .exceeded k =>
        if done then "FAIL not-stopped-by-cancel"
        else if ¬ budgetExceeded b cfg.name then "FAIL spurious-exceeded"
        else if ¬ same then "FAIL state-changed"
        else if ¬ (wantLongest d b).contains k then s!"FAIL longest got {k} want {showList (wantLongest d b)}"
        else "ok"
      | .slept real _ _ | .killedAfter _ real _ _ =>
        let killed : Bool := match l.out with | .killedAfter .. => true | _ => false
        let kv : Nat := match checkKilled l.pre b with | some k => k | none => 0
        if done then "FAIL not-stopped-by-cancel"
        else if real < 0 then s!"FAIL negative-sleep {real}"
        else if budgetExceeded b cfg.name then "FAIL slept-over-budget"
        else if m ≥ 0 ∧ real > m then "FAIL per-call-max"
        else if real > capBound d cfg.name then "FAIL over-cap"
        else if belowFloor b cfg m sl real then "FAIL below-equal-jitter-floor"
        else if ¬ (b'.maxSleep = b.maxSleep ∧ b'.totalSleep = b.totalSleep + real ∧
                   b'.excludedSleep = b.excludedSleep + (if (excl cfg.name).isSome then real else 0) ∧
                   b'.errorsNum = b.errorsNum + 1 ∧
                   sortMap b'.sleepMS = sortMap (b.sleepMS.add cfg.name real) ∧
                   sortMap b'.times = sortMap (b.times.add cfg.name 1)) then "FAIL accounting"
        else if kv ≠ 0 ∧ ¬ killed then "FAIL kill-not-reported"
        else if kv = 0 ∧ killed then "FAIL spurious-kill"
        else "ok"
      | _ => "ok"
    | _, _ => "ok"
  | .clone id | .fork id =>
    match l.out, l.pre.bs[id]? with
    | .created c, some b =>
      match l.post.bs[c]?, l.post.bs[id]? with
      | some ch, some b' =>
        if acct ch ≠ acct b then "FAIL fork-mismatch"
        else if acct b' ≠ acct b then "FAIL parent-changed"
        else "ok"
      | _, _ => "FAIL no-child"
    | _, _ => "ok"
  | .merge t f =>
    match l.pre.bs[t]?, l.pre.bs[f]?, l.post.bs[t]? with
    | some b, some fb, some b' =>
      match l.out with
      | .merged =>
        if b'.totalSleep = fb.totalSleep ∧ b'.excludedSleep = fb.excludedSleep ∧ b'.errorsNum = fb.errorsNum ∧
           sortMap b'.sleepMS = sortMap fb.sleepMS ∧ sortMap b'.times = sortMap fb.times ∧ b'.maxSleep = b.maxSleep ∧
           b'.configs.map (·.1) = fb.configs.map (·.1)
        then "ok" else "FAIL merge-not-exact"
      | .ignored => if acct b' = acct b then "ok" else "FAIL non-descendant-merged"
      | _ => "ok"
    | _, _, _ => "ok"
  | _ => "ok"

def parseNew (d : DState) : List String → Option Op
  | ["plain", n] => n.toInt?.map .newPlain
  | ["nil", n] => n.toInt?.map .newNil
  | ["vars", n, lf, w] => do
    let n ← n.toInt?; let lf ← lf.toInt?; let w ← w.toInt?
    pure (.newVars n lf w)
  | ["noop"] => some .newNoop
  | _ => let _ := d; none

def parseOp (d : DState) : List String → Option Op
  | "new" :: r => parseNew d r
  | ["bo", id, cfg, m, sleep, errk] => do
    let id ← id.toNat?; let c ← findCfg d cfg; let m ← m.toInt?; let sl ← sleep.toInt?
    pure (.backoff id c m sl errk)
  | ["clone", id] => id.toNat?.map .clone
  | ["fork", id] => id.toNat?.map .fork
  | ["merge", t, f] => do
    let t ← t.toNat?; let f ← f.toNat?
    pure (.merge t f)
  | ["rst", id] => id.toNat?.map .reset
  | ["rstmax", id, n] => do
    let id ← id.toNat?; let n ← n.toInt?
    pure (.resetMaxSleep id n)
  | ["cancel", t] => t.toNat?.map .cancel
  | ["kill", id, sig] => do
    let id ← id.toNat?; let sig ← sig.toNat?
    pure (.kill id sig)
  | _ => none

def isJudged : Op → Bool
  | .backoff .. | .clone _ | .fork _ | .merge .. => true
  | _ => false

def dstep (d : DState) (line : String) : DState × String :=
  match words line with
  | ["reset"] => (dinit, "ok")
  | ["defcfg", ident, name, base, cap, jit] =>
    match base.toInt?, cap.toInt?, jit.toInt? with
    | some b, some c, some j =>
      if (findCfg d ident).isSome then (d, "bad-op")
      else ({ d with customs := d.customs ++ [(ident, { name := name, base := b, cap := c, jitter := j, errK := ident })] }, "ok")
    | _, _, _ => (d, "bad-op")
  | ["table"] =>
    (d, " ".intercalate (table.map fun c =>
      s!"{c.name}:{c.base}:{c.cap}:{c.jitter}:{match excl c.name with | some l => toString l | none => "-"}:{c.errK}"))
  | ["st", id] =>
    match id.toNat? with
    | some i => match d.s.bs[i]? with
      | some b => (d, showB b)
      | none => (d, "bad")
    | none => (d, "bad-op")
  | ["types", id] =>
    match id.toNat? with
    | some i => match d.s.live i with
      | some b => (d, showList (getTypes d.s b))
      | none => (d, "bad")
    | none => (d, "bad-op")
  | ["p-last"] =>
    match d.last with
    | some l => (d, verdict d l)
    | none => (d, "ok")
  | ["p-budget", id, m] =>
    match id.toNat?, m.toInt? with
    | some i, some mx =>
      match d.s.live i with
      | some b =>
        if b.tainted ∨ b.maxSleep ≤ 0 then (d, "ok")
        else if ¬ (b.totalSleep - b.excludedSleep < b.maxSleep + mx) then (d, s!"FAIL budget total={b.totalSleep} excl={b.excludedSleep} max={b.maxSleep}")
        else if ¬ (b.excludedSleep < max exclMax b.maxSleep + mx) then (d, s!"FAIL excluded-budget excl={b.excludedSleep} max={b.maxSleep}")
        else (d, "ok")
      | none => (d, "bad")
    | _, _ => (d, "bad-op")
  | ws =>
    match parseOp d ws with
    | some op =>
      let (s', out) := step d.s op
      let last := if isJudged op then some { pre := d.s, op := op, out := out, post := s' } else d.last
      ({ d with s := s', last := last }, showOut out)
    | none => (d, "bad-op")

def main : IO Unit := runDriver dinit dstep
