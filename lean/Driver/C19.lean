import ClientGoVerif.Model.Codec
open CGV CGV.Codec

def showRes {α} (f : α → String) : Res α → String
  | .ok (v, r) => s!"ok {f v} {Bytes.toHex r}"
  | .error e => s!"err {e.str}"

def intInRange (v : Int) : Bool := -(2^63 : Int) ≤ v ∧ v < (2^63 : Int)
def natInRange (v : Nat) : Bool := v < 2^64

inductive Val | b (x : Bytes) | u (x : Nat) | i (x : Int)
  deriving DecidableEq

def Val.str : Val → String
  | .b x => Bytes.toHex x | .u x => toString x | .i x => toString x

/-- kinds: bytes bytesdesc(decode only) int intdesc uint uintdesc varint uvarint cvarint cuvarint -/
def parseVal (kind s : String) : Option Val :=
  match kind with
  | "bytes" => (parseHex s).map .b
  | "uint" | "uintdesc" | "uvarint" | "cuvarint" => (s.toNat?.filter natInRange).map .u
  | "int" | "intdesc" | "varint" | "cvarint" => (s.toInt?.filter intInRange).map .i
  | _ => none

def enc (kind : String) (v : Val) : Option Bytes :=
  match kind, v with
  | "bytes", .b x => some (encodeBytes x)
  | "uint", .u x => some (encodeUint x)
  | "uintdesc", .u x => some (encodeUintDesc x)
  | "uvarint", .u x => some (encodeUvarint x)
  | "cuvarint", .u x => some (encodeCmpUvarint x)
  | "int", .i x => some (encodeInt x)
  | "intdesc", .i x => some (encodeIntDesc x)
  | "varint", .i x => some (encodeVarint x)
  | "cvarint", .i x => some (encodeCmpVarint x)
  | _, _ => none

def dec (kind : String) (b : Bytes) : Option (Res Val) :=
  let m {α} (f : α → Val) (r : Res α) : Res Val := r.map fun (v, r) => (f v, r)
  match kind with
  | "bytes" => some (m .b (decodeBytes b))
  | "bytesdesc" => some (m .b (decodeBytesDesc b))
  | "uint" => some (m .u (decodeUint b))
  | "uintdesc" => some (m .u (decodeUintDesc b))
  | "uvarint" => some (m .u (decodeUvarint b))
  | "cuvarint" => some (m .u (decodeCmpUvarint b))
  | "int" => some (m .i (decodeInt b))
  | "intdesc" => some (m .i (decodeIntDesc b))
  | "varint" => some (m .i (decodeVarint b))
  | "cvarint" => some (m .i (decodeCmpVarint b))
  | _ => none

def valCmp : Val → Val → Ordering
  | .b x, .b y => Bytes.cmp x y
  | .u x, .u y => compare x y
  | .i x, .i y => compare x y
  | _, _ => .eq

def isDesc (kind : String) : Bool := kind == "intdesc" || kind == "uintdesc"
def isComparable (kind : String) : Bool := kind != "varint" && kind != "uvarint"
/-- strict formats: decode b = ok (v, r) → encode v ++ r = b -/
def isStrict (kind : String) : Bool :=
  kind == "bytes" || kind == "int" || kind == "intdesc" || kind == "uint" || kind == "uintdesc"

def flipOrd : Ordering → Ordering | .lt => .gt | .gt => .lt | .eq => .eq

def step (_ : Unit) (line : String) : Unit × String :=
  let out : String :=
    match words line with
    | ["enc", kind, v] =>
      match parseVal kind v with
      | some x => match enc kind x with
        | some b => Bytes.toHex b
        | none => "bad-op"
      | none => "bad-op"
    | ["dec", kind, h] =>
      match parseHex h with
      | some b => match dec kind b with
        | some r => showRes Val.str r
        | none => "bad-op"
      | none => "bad-op"
    | ["cmp", a, b] =>
      match parseHex a, parseHex b with
      | some x, some y => ordStr (Bytes.cmp x y)
      | _, _ => "bad-op"
    -- property ops: verdict of the property's own oracle, evaluated on this side's functions
    | ["rt", kind, v, sfx] =>
      match parseVal kind v, parseHex sfx with
      | some x, some s => match enc kind x with
        | some e => match dec kind (e ++ s) with
          | some (.ok (v', r)) => if v' = x ∧ r = s then "ok" else s!"FAIL got {v'.str} {Bytes.toHex r}"
          | some (.error e) => s!"FAIL err {e.str}"
          | none => "bad-op"
        | none => "bad-op"
      | _, _ => "bad-op"
    -- append contract: the model's encoders are pure functions of the value, `EncodeX(b, v)` of the Go code is
    -- specified as `b ++ encode v` (the round-trip theorems of Props/C19 carry an arbitrary suffix, so fields appended one
    -- after the other decode one after the other); the oracle is evaluated on the implementation only
    | ["apd", kind, v, pfx, dirty, spare] =>
      match parseVal kind v, parseHex pfx, dirty.toNat?, spare.toNat? with
      | some x, some _, some d, some sp => match enc kind x with
        | some _ => if d < 256 ∧ sp ≤ 4096 then "ok" else "bad-op"
        | none => "bad-op"
      | _, _, _, _ => "bad-op"
    | ["ord", kind, v1, v2] =>
      match parseVal kind v1, parseVal kind v2 with
      | some x, some y => match enc kind x, enc kind y with
        | some ex, some ey =>
          let want := if isDesc kind then flipOrd (valCmp x y) else valCmp x y
          if ¬ isComparable kind then "ok"
          else if Bytes.cmp ex ey == want then "ok" else s!"FAIL {ordStr (Bytes.cmp ex ey)}"
        | _, _ => "bad-op"
      | _, _ => "bad-op"
    | ["pfx", kind, v1, v2] =>
      match parseVal kind v1, parseVal kind v2 with
      | some x, some y => match enc kind x, enc kind y with
        | some ex, some ey =>
          if x ≠ y ∧ Bytes.isPrefix ex ey then "FAIL prefix" else "ok"
        | _, _ => "bad-op"
      | _, _ => "bad-op"
    | ["snd", kind, h] =>
      match parseHex h with
      | some b => match dec kind b with
        | some (.ok (v, r)) =>
          if isStrict kind then
            match enc kind v with
            | some e => if e ++ r = b then "ok" else "FAIL wrong-value"
            | none => "bad-op"
          else if Bytes.isPrefix r.reverse b.reverse then "ok" else "FAIL suffix"
        | some (.error _) => "ok"
        | none => "bad-op"
      | none => "bad-op"
    | _ => "bad-op"
  ((), out)

def main : IO Unit := runDriver () step
