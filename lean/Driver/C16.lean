import ClientGoVerif.Model.Pipelined
open CGV CGV.Pipelined

/-- driver state: the model, the specification it is compared with, the region layout of the case,
    and what the lost-error oracle needs -/
structure D where
  s : PState := {}
  sp : Spec := {}
  splits : List Bytes := []
  /-- a `reset` has been executed (ops before the first reset are refused, like on the implementation side) -/
  started : Bool := false
  /-- a flush function returned an error that no call of Flush / FlushWait has returned to the caller yet -/
  unreported : Bool := false
  /-- a split of the region holding this key, performed by the store when the first ResolveLock for that region arrives
      (after the range task was cut, before the request is served) -/
  armed : Option Bytes := none
  /-- commit point: what Commit told the caller and whether the primary is committed in the store -/
  answer : Option Answer := none
  pcommitted : Bool := false
  /-- result of the last commit/rollback: regions that got a ResolveLock, and whether it was a commit -/
  resolved : Option (List Region × Bool) := none

def optHex : Option Bytes → String
  | some v => Bytes.toHex v
  | none => "none"

def bufStr (b : Buf) : String :=
  if b.isEmpty then "-" else ",".intercalate (b.map fun e => s!"{Bytes.toHex e.1}={Bytes.toHex e.2}")

def regionsStr (rs : List Region) : String :=
  if rs.isEmpty then "-" else
  ",".intercalate (rs.map fun r => s!"{Bytes.toHex r.1}:{match r.2 with | some h => Bytes.toHex h | none => "inf"}")

def outStr : Out → String
  | .ok => "ok"
  | .val v => s!"ok {Bytes.toHex v}"
  | .notFound => "notfound"
  | .vals m => s!"ok {bufStr m}"
  | .handle h => s!"h {h}"
  | .notFlushed => "false"
  | .flushed g b rpc => s!"true {g} {bufStr b.sorted}{if rpc then " rpc" else ""}"
  | .errNilValue => "err nilvalue"
  | .errStaging => "err staging"
  | .errFlush => "err flush"
  | .noFlush => "noflush"

/-- the error `Flush` / `FlushWait` returned, with the translation of handleAlreadyExistErr -/
def errStr (d : D) (o : Out) : String :=
  match o, d.s.lastErr with
  | .errFlush, some (.keyExist k v) => s!"err exist {Bytes.toHex k} {optHex v}"
  | _, _ => outStr o

def parseRes : String → Option FlushRes
  | "ok" => some .ok | "err" => some .err | _ => none

/-- result tokens: `ok`, `err` (plain error), `exist:<hexkey>` (error chain containing ErrKeyExist for that key) -/
def parseCompletion (r a : String) : Option Completion := do
  let n ← a.toNat?
  if r.startsWith "exist:" then
    let k ← parseHex (r.drop 6).toString
    pure { res := .err, applied := n, kind := .keyExist k }
  else
    let res ← parseRes r
    pure { res := res, applied := n }

def parseKeys (ws : List String) : Option (List Bytes) := ws.mapM parseHex

/-- apply one model op; keep the spec and the error bookkeeping in step -/
def apply (d : D) (op : Op) : D × Out :=
  let r := stepBoth (d.s, d.sp) op
  let s' := r.1.1
  let un := if r.2 == .errFlush then false else d.unreported || s'.errCh == some .err
  ({ d with s := s', sp := r.1.2, unreported := un }, r.2)

/-- the property's read oracle on the model's own functions -/
def chkRead (d : D) (k : Bytes) : String :=
  if d.s.failed then "ok" else
  let got := readValue d.s k
  let want := d.sp.cur.get k
  if got = want then "ok" else s!"FAIL read {Bytes.toHex k} got {optHex got} want {optHex want}"

def chkBatch (d : D) (ks : List Bytes) (m : Buf) : String :=
  if d.s.failed then "ok" else
  match ks.find? (fun k => m.get k != d.sp.cur.get k) with
  | none => "ok"
  | some k => s!"FAIL bget {Bytes.toHex k} got {optHex (m.get k)} want {optHex (d.sp.cur.get k)}"

def sameMap (a b : Buf) : Bool :=
  a.keys.all (fun k => a.get k == b.get k) && b.keys.all (fun k => a.get k == b.get k)

def gensOk : List Nat → Nat → Bool
  | [], n => n == 0
  | g :: gs, n => g == n && n > 0 && gensOk gs (n - 1)

/-- every buffered mutation handed to exactly one flush; generations 1,2,3,…; at most one flush function running -/
def chkFlush (d : D) : String :=
  let bufs := d.s.hist.map (·.2)
  if bufs.length != d.sp.handed.length then "FAIL flush-count"
  else if !(List.zip bufs d.sp.handed).all (fun p => sameMap p.1 p.2) then "FAIL flush-content"
  else if !gensOk (d.s.hist.map (·.1)) d.s.hist.length then "FAIL generations"
  else if d.s.active.length > 1 then "FAIL two-in-flight"
  else "ok"

def lostErr (d : D) : Bool := d.unreported

/-- a commit that did not happen: execute()'s deferred cleanup rolls the flushed locks back when both bounds are set -/
def sortKeys (ks : List Bytes) : List Bytes := ((ks.map fun x => (x, ([] : Bytes))).foldr insertSorted []).map (·.1)

/-- the region layout the resolve handler ends up working on: the armed split happens iff the range task visits the
    region that holds its key; the handler then re-locates and walks on to the end of its task, so the regions that get
    a ResolveLock are those the range task would visit on the new layout -/
def splitsAtResolve (d : D) : List Bytes :=
  match d.armed with
  | some k =>
    if !d.splits.contains k && (runOnRange d.splits d.s.pStart d.s.pEnd).any (·.has k) then sortKeys (k :: d.splits)
    else d.splits
  | none => d.splits

def cleanupAfter (d : D) (kind : String) : D × String :=
  if d.s.cfg.layer && !d.s.pStart.isEmpty && !d.s.pEnd.isEmpty then
    let sp := splitsAtResolve d
    let d := { d with splits := sp, armed := none }
    let rs := runOnRange d.splits d.s.pStart d.s.pEnd
    ({ d with resolved := some (rs, false) },
     s!"{kind} cleanup range {Bytes.toHex d.s.pStart} {Bytes.toHex d.s.pEnd} regions {regionsStr rs}")
  else (d, kind)

/-- every key sent in a Flush request lies in [pipelinedStart, pipelinedEnd) -/
def chkRange (d : D) : String :=
  if !d.s.cfg.layer then "ok" else
  let bad := (d.s.lockKeys.filter (fun k => !inRange d.s.pStart d.s.pEnd k)).eraseDups
  if bad.isEmpty then "ok" else
  let sorted := (bad.map fun k => (k, ([] : Bytes))).foldr insertSorted []
  s!"FAIL outside-range {Bytes.toHex d.s.pStart} {Bytes.toHex d.s.pEnd} {",".intercalate (sorted.map fun e => Bytes.toHex e.1)}"

def parseScript (s : String) : Option (List Attempt) :=
  s.toList.mapM fun c => match c with
    | 'x' => some Attempt.execLost | 'n' => some .lost | 'k' => some .keyErr | 'o' => some .ok | _ => none

def chkAnswer (d : D) : String :=
  match d.answer with
  | none => "ok"
  | some a =>
    if answerMatchesOutcome a d.pcommitted then "ok"
    else if a == .other then "FAIL answer-contradicts-outcome" else "FAIL answer-nil-not-committed"

def doCommit (d : D) (mem : Nat) (l1 l2 : Completion) (script : List Attempt) : D × String :=
  let fin (r : D × String) : D × String :=
    -- every way out before the commit point: a definite error, nothing committed
    ({ r.1 with answer := some (if r.2.startsWith "ok" then Answer.nil else .other) }, r.2)
  let (d1, o1) := apply d (.flush true mem l1)
  match o1 with
  | .flushed _ _ _ =>
    let (d2, o2) := apply d1 (.flushWait l2)
    match o2 with
    | .ok =>
      if lostErr d2 then (d2, "FAIL lost-flush-error")
      else if d2.s.cfg.layer then
        match resolveRegions d2.s d2.splits true with
        | none => fin (d2, "err empty-range")
        | some rs =>
          -- commitFlushedMutations: commit the primary, then resolve the flushed range
          let (c, res) := primaryCommit script false
          let d3 := { d2 with pcommitted := c, answer := some (pipelinedAnswer res) }
          match res with
          | .ok =>
            let sp := splitsAtResolve d3
            let rs := runOnRange sp d3.s.pStart d3.s.pEnd
            ({ d3 with resolved := some (rs, true), splits := sp, armed := none },
             s!"ok range {Bytes.toHex d2.s.pStart} {Bytes.toHex d2.s.pEnd} regions {regionsStr rs} primary {Bytes.toHex d2.s.primary}")
          | .err true => (d3, "err commit undetermined")            -- undetermined flag set: no cleanup
          | .err false =>
            let r := cleanupAfter d3 "err commit keyerr"
            ({ r.1 with answer := some (pipelinedAnswer res) }, r.2)
      else (d2, "ok")
    | _ => fin (cleanupAfter d2 "err wait")
  | .errFlush => fin (cleanupAfter d1 "err flush")
  | .errStaging => fin (cleanupAfter d1 "err staging")
  | _ => (d1, "bad-op")

def doRollback (d : D) (l : Completion) : D × String :=
  let (d1, _) := apply d (.flushWait l)
  -- Rollback ignores the result of FlushWait; the transaction is over, nothing can be lost any more
  let d1 := { d1 with unreported := false, s := { d1.s with ttl := if d1.s.ttl == .running then .closed else d1.s.ttl } }
  let sp := if d1.s.pStart.isEmpty || d1.s.pEnd.isEmpty then d1.splits else splitsAtResolve d1
  let d1 := { d1 with splits := sp, armed := none }
  match resolveRegions d1.s d1.splits false with
  | some rs =>
    ({ d1 with resolved := some (rs, false) },
     if d1.s.pStart.isEmpty || d1.s.pEnd.isEmpty then "ok norange"
     else s!"ok range {Bytes.toHex d1.s.pStart} {Bytes.toHex d1.s.pEnd} regions {regionsStr rs}")
  | none => (d1, "bad-op")

def chkCovered (d : D) : String :=
  match d.resolved with
  | none => "ok"
  | some (rs, commit) =>
    match d.s.lockKeys.find? (fun k => !keyResolved d.s rs commit k) with
    | none => "ok"
    | some _ =>
      let bad := (d.s.lockKeys.filter (fun k => !keyResolved d.s rs commit k)).eraseDups
      let sorted := (bad.map fun k => (k, ([] : Bytes))).foldr insertSorted []
      -- the one failure the range logic is suspected of (DESIGN S7): exactly the range end key is left out
      if sorted.map (·.1) == [d.s.pEnd] then s!"FAIL unresolved-range-end {Bytes.toHex d.s.pEnd}"
      else s!"FAIL unresolved {",".intercalate (sorted.map fun e => Bytes.toHex e.1)}"

def step (d : D) (line : String) : D × String :=
  if !d.started && !(line.startsWith "reset") then (d, "bad-op") else
  match words line with
  | "reset" :: mode :: mk :: ms :: fs :: sp =>
    -- `c:<key>=<value>` tokens are committed data below the transaction (the buffer never reads it): skipped
    match mk.toNat?, ms.toNat?, fs.toNat?, parseKeys (sp.filter fun t => !t.startsWith "c:") with
    | some a, some b, some c, some splits =>
      if mode == "bare" || mode == "txn" then
        ({ s := init { minKeys := a, minSize := b, forceSize := c, layer := mode == "txn" }, splits := splits, started := true }, "ok")
      else (d, "bad-op")
    | _, _, _, _ => (d, "bad-op")
  | ["reset-default", mode] =>
    if mode == "bare" || mode == "txn" then ({ s := init { layer := mode == "txn" }, started := true }, "ok") else (d, "bad-op")
  | ["set", k, v] =>
    match parseHex k, parseHex v with
    | some k, some v => let (d, o) := apply d (.set k v); (d, outStr o)
    | _, _ => (d, "bad-op")
  | ["del", k] =>
    match parseHex k with
    | some k => let (d, o) := apply d (.del k); (d, outStr o)
    | _ => (d, "bad-op")
  | ["get", k] =>
    match parseHex k with
    | some k => let (d, o) := apply d (.get k); (d, outStr o)
    | _ => (d, "bad-op")
  | "bget" :: ks =>
    match parseKeys ks with
    | some ks => let (d, o) := apply d (.batchGet ks); (d, outStr o)
    | _ => (d, "bad-op")
  | ["flush", f, mem, r, a] =>
    match mem.toNat?, parseCompletion r a with
    | some mem, some c =>
      if f == "0" || f == "1" then
        let un := d.unreported
        let (d, o) := apply d (.flush (f == "1") mem c)
        -- property: a failed flush is reported — Flush never starts the next flush over an unreported failure
        (d, if un && (match o with | .flushed _ _ _ => true | _ => false) then "FAIL flush-error-swallowed" else errStr d o)
      else (d, "bad-op")
    | _, _ => (d, "bad-op")
  | ["flushdone", r, a] =>
    match parseCompletion r a with
    | some c => let (d, o) := apply d (.flushDone c); (d, outStr o)
    | _ => (d, "bad-op")
  | ["flushwait", r, a] =>
    match parseCompletion r a with
    | some c =>
      let un := d.unreported && d.s.flushing.isSome
      let (d, o) := apply d (.flushWait c)
      -- property: a failed flush is reported — FlushWait never returns nil over an unreported failure
      (d, if un && o == .ok then "FAIL flush-error-swallowed" else errStr d o)
    | _ => (d, "bad-op")
  | ["stage"] => let (d, o) := apply d .stage; (d, outStr o)
  | ["release"] => let (d, o) := apply d .release; (d, outStr o)
  | ["cleanup"] => let (d, o) := apply d .cleanup; (d, outStr o)
  | ["commit", mem, r1, a1, r2, a2] =>
    match mem.toNat?, parseCompletion r1 a1, parseCompletion r2 a2 with
    | some mem, some l1, some l2 => doCommit d mem l1 l2 [.ok]
    | _, _, _ => (d, "bad-op")
  | ["commit", mem, r1, a1, r2, a2, sc] =>
    match mem.toNat?, parseCompletion r1 a1, parseCompletion r2 a2, parseScript sc with
    | some mem, some l1, some l2, some script =>
      if script.isEmpty then (d, "bad-op") else doCommit d mem l1 l2 script
    | _, _, _, _ => (d, "bad-op")
  | ["commit-clean", _, _, _, _, _, _] => (d, "ok")
  -- Commit of a transaction whose buffer is not dirty (observed on the implementation): returns nil at once
  | ["commit-clean", _, _, _, _, _] => (d, "ok")
  | ["rollback", r, a] =>
    match parseCompletion r a with
    | some l => doRollback d l
    | _ => (d, "bad-op")
  -- property ops
  | ["chk-read", k] =>
    match parseHex k with
    | some k => (d, chkRead d k)
    | _ => (d, "bad-op")
  | "chk-bget" :: ks =>
    match parseKeys ks with
    | some ks =>
      let (d', o) := apply d (.batchGet ks)
      match o with
      | .vals m => (d', chkBatch d' ks m)
      | _ => (d', "bad-op")
    | _ => (d, "bad-op")
  | ["chk-flush"] => (d, chkFlush d)
  | ["chk-covered"] => (d, chkCovered d)
  | ["chk-range"] => (d, chkRange d)
  -- a region split behind the client's back: only the layout the range task will meet changes
  | ["split", k] =>
    match parseHex k with
    | some k =>
      if k.isEmpty then (d, "bad-op")
      else if !d.s.cfg.layer || d.splits.contains k then (d, "ok")
      else ({ d with splits := sortKeys (k :: d.splits) }, "ok")
    | none => (d, "bad-op")
  -- a region error on the next BufferBatchGet: retried by the client, invisible to the buffer
  | ["splitonresolve", k] =>
    match parseHex k with
    | some k => if k.isEmpty then (d, "bad-op") else if d.s.cfg.layer then ({ d with armed := some k }, "ok") else (d, "ok")
    | none => (d, "bad-op")
  | ["buferr", e] => if e == "notleader" || e == "busy" then (d, "ok") else (d, "bad-op")
  -- the buffer reads its store tier at the buffer tier, always
  | ["chk-tier"] => (d, "ok")
  | ["chk-answer"] => (d, chkAnswer d)
  | _ => (d, "bad-op")

def main : IO Unit := runDriver ({} : D) step
