import ClientGoVerif.Model.RangeTask
open CGV CGV.RangeTask

/-! Line-protocol driver of the C14 model (stateful; `reset` starts a case). See harness/c14/main.go for the ops. -/

structure Ver where
  key : Bytes
  val : Bytes
  cts : Nat

structure St where
  base : Layout := []
  splits : List (Nat × Bytes) := []
  data : List Ver := []
  pop : List Lock := []

def FUEL : Nat := 100000

def parseCsv (s : String) : Option (List Bytes) :=
  if s == "-" then some [] else (s.splitOn ",").mapM parseHex

def rangeStr (t : Task) : String := s!"{Bytes.toHex t.s}:{Bytes.toHex t.e}"
def joinOr (sep : String) (l : List String) : String := if l.isEmpty then "-" else sep.intercalate l
def rangesStr (ts : List Task) : String := joinOr "," (ts.map rangeStr)

/-- the property oracle on a list of sub-ranges in order: consecutive, non-empty, from `s` to `e` -/
def chainOk : Bytes → Bytes → List Task → Bool
  | _, _, [] => false
  | s, e, [t] => t.s == s && t.e == e && (e.isEmpty || Bytes.lt s e)
  | s, e, t :: r => t.s == s && !t.e.isEmpty && Bytes.lt s t.e && chainOk t.e e r

def partitionOk (s e : Bytes) (ts : List Task) : Bool :=
  if emptyRange s e then ts.isEmpty else chainOk s e ts

def insertLock (l : Lock) : List Lock → List Lock
  | [] => [l]
  | x :: xs => if Bytes.lt l.key x.key then l :: x :: xs else x :: insertLock l xs

def insertKey (k : Bytes) : List Bytes → List Bytes
  | [] => [k]
  | x :: xs => if k == x then x :: xs else if Bytes.lt k x then k :: x :: xs else x :: insertKey k xs

def txnVal (ts : Nat) : Bytes := ("t" ++ toString ts).toUTF8.toList

/-- newest version of `key` visible at `ts` -/
def readAt (data : List Ver) (key : Bytes) (ts : Nat) : Option Bytes :=
  let vs := data.filter fun v => v.key == key && v.cts ≤ ts
  (vs.foldl (fun (acc : Option Ver) v => match acc with
    | none => some v
    | some a => if a.cts < v.cts then some v else some a) none).map (·.val)

def dataKeys (data : List Ver) : List Bytes := data.foldl (fun acc v => insertKey v.key acc) []

def lockStr (l : Lock) : String := s!"{Bytes.toHex l.key}:{l.ts}"

/-- layout seen by the scan with global index `i`: a split scheduled at `n` happens right after scan `n` returned -/
def gcLayouts (st : St) (i : Nat) : Layout := layoutAt st.base (st.splits.map fun p => (p.1 + 1, p.2)) i

/-- The resolve of batch `i` gets a nil location iff a split scheduled right after scan `i` changed the region the
    request is addressed to (the one containing the cursor) and first and last lock of the batch are no longer in
    one region. -/
def gcRetry (st : St) (i : Nat) (key : Bytes) (locks : List Lock) : Bool :=
  let before := gcLayouts st i
  let after := gcLayouts st (i + 1)
  match locks.head?, locks.getLast? with
  | some f, some l =>
    let changed := regionEnd before key != regionEnd after key || regionStart before key != regionStart after key
    let e := regionEnd after f.key
    changed && !e.isEmpty && Bytes.le e l.key
  | _, _ => false

def scansStr (scans : List ScanRec) : String :=
  ";".intercalate (scans.map fun r => s!"{Bytes.toHex r.lo}:{Bytes.toHex r.hi}:{r.n}")

/-- run the tasks one after the other (the per-task traces do not depend on the order unless splits are scheduled) -/
def gcTasks (st : St) (sp limit : Nat) (showRegions : Bool) : List Task → Nat → List Lock → List String → Option (List String × List Lock)
  | [], _, pop, acc => some (acc.reverse, pop)
  | t :: ts, i, pop, acc =>
    match resolveLoop (gcLayouts st) (fun j => gcLayouts st (j + 1)) (gcRetry st) sp t.e limit FUEL i t.s ⟨[], pop, [], 0⟩ with
    | none => none
    | some out =>
      gcTasks st sp limit showRegions ts (i + out.scans.length) out.pop
        (s!"{rangeStr t}[{scansStr out.scans}]r{if showRegions then toString out.regions else "*"}" :: acc)

/-! cancellation scenarios: the driver builds the schedule the harness forces on the real runner, lets the MODEL run it,
    and explores both cases the producer's `select` can take once the context is done -/

def rep {α : Type} (n : Nat) (l : List α) : List α := (List.replicate n l).flatten

/-- everything that can still move, often enough for any run with `t` sub-ranges and `w` workers to finish;
    `abandonFirst`: the producer prefers `<-ctx.Done()` over the send -/
def drain (t w : Nat) (abandonFirst : Bool) : List RunEv :=
  (if abandonFirst then [.abandon] else []) ++
    rep (2 * (t + w) + 4) [.finish false, .pull, .push, .abandon]

def classOf (tasks : List Task) (st : RunSt) : String :=
  if !st.done then "not-done" else if !st.resultNil then "err"
  else if st.complete tasks then "nil-complete" else "nil-gap"

def insertStr (x : String) : List String → List String
  | [] => [x]
  | y :: ys => if x == y then y :: ys else if x < y then x :: y :: ys else y :: insertStr x ys

/-- verdict of the property oracle `nil ⇒ whole range handled` over both producer choices -/
def cancelVerdict (tasks : List Task) (workers : Nat) (pre : List RunEv) : String :=
  let a := (RunSt.init tasks workers).run (pre ++ drain tasks.length workers true)
  let b := (RunSt.init tasks workers).run (pre ++ drain tasks.length workers false)
  if classOf tasks a == "nil-gap" then s!"FAIL success-with-gap {rangesStr a.handled}"
  else if classOf tasks b == "nil-gap" then s!"FAIL success-with-gap {rangesStr b.handled}"
  else s!"ok {",".intercalate (insertStr (classOf tasks a) [classOf tasks b])}"

/-- number of ScanLock requests of each sub-range when handled one after the other without cancellation -/
def scansPerTask (st : St) (sp limit : Nat) : List Task → Nat → List Lock → Option (List Nat)
  | [], _, _ => some []
  | t :: ts, i, pop =>
    match resolveLoop (gcLayouts st) (fun j => gcLayouts st (j + 1)) (gcRetry st) sp t.e limit FUEL i t.s ⟨[], pop, [], 0⟩ with
    | none => none
    | some out => (scansPerTask st sp limit ts (i + out.scans.length) out.pop).map (out.scans.length :: ·)

/-- (index of the sub-range whose loop issues the j-th scan, is it the last scan of that loop) -/
def locateScan : List Nat → Nat → Nat → Option (Nat × Bool)
  | [], _, _ => none
  | n :: ns, j, k => if j < n then some (k, j + 1 == n) else locateScan ns (j - n) (k + 1)

def step (st : St) (line : String) : St × String :=
  match words line with
  | ["reset"] => ({}, "ok")
  | ["layout", csv] =>
    match parseCsv csv with
    | some l => ({ st with base := l }, "ok")
    | none => (st, "bad-op")
  | ["split", idx, key] =>
    match idx.toNat?, parseHex key with
    | some i, some k => ({ st with splits := st.splits ++ [(i, k)] }, "ok")
    | _, _ => (st, "bad-op")
  | ["put", key, val, _sts, cts] =>
    match parseHex key, parseHex val, cts.toNat? with
    | some k, some v, some c => ({ st with data := st.data ++ [⟨k, v, c⟩] }, "ok")
    | _, _, _ => (st, "bad-op")
  | ["txn", ts, kind, cts, primary, keys, locked] =>
    match ts.toNat?, cts.toNat?, parseHex primary, parseCsv keys, parseCsv locked with
    | some t, some c, some p, some ks, some ls =>
      let pop := ls.foldl (fun acc k => insertLock ⟨k, t, k == p⟩ acc) st.pop
      let data := if kind == "committed" then st.data ++ ks.map (fun k => ⟨k, txnVal t, c⟩) else st.data
      ({ st with pop := pop, data := data }, "ok")
    | _, _, _, _, _ => (st, "bad-op")
  | ["run", s, e, rpt, workers, fail] =>
    match parseHex s, parseHex e, rpt.toNat?, workers.toNat? with
    | some s, some e, some rpt, some workers =>
      match runOnRange (layoutAt st.base st.splits) rpt FUEL s e with
      | none => (st, "nonterm")
      | some ts =>
        if !partitionOk s e ts then (st, s!"FAIL partition {rangesStr ts}")
        else
          let f : Option Nat := if fail == "-" then none else fail.toNat?
          match runSequential ts f with
          | (_, none) => (st, s!"ok {rangesStr ts}")
          | (handled, some _) => (st, if workers == 1 then s!"err {rangesStr handled}" else "err *")
    | _, _, _, _ => (st, "bad-op")
  | ["runc", s, e, rpt, workers, mode, i] =>
    match parseHex s, parseHex e, rpt.toNat?, workers.toNat?, i.toNat? with
    | some s, some e, some rpt, some workers, some i =>
      match runOnRange (fun _ => st.base) rpt FUEL s e with
      | none => (st, "nonterm")
      | some ts =>
        let t := ts.length
        if mode == "inh" then
          if i ≥ t || !(t - i ≤ workers || t ≥ i + workers + 2) then (st, "skip")
          else
            -- i sub-ranges handled; the next min(workers, t-i) are in handlers; the channel is filled; cancel;
            -- the held handlers return nil
            let pre := rep i [.push, .pull, .finish false] ++ rep (min workers (t - i)) [.push, .pull]
              ++ rep workers [.push] ++ [.cancel]
            (st, cancelVerdict ts workers pre)
        else if mode == "before" then (st, cancelVerdict ts workers [.cancel])
        else if mode == "between" then
          -- the producer is slower than the workers; cancel during the load of sub-range i+1
          let pre := rep (min (i + 1) t) [.push, .pull, .finish false] ++ (if i + 1 < t then [.cancel] else [])
          (st, cancelVerdict ts workers pre)
        else (st, "bad-op")
    | _, _, _, _, _ => (st, "bad-op")
  | ["gcc", sp, j] =>
    match sp.toNat?, j.toNat? with
    | some sp, some j =>
      let limit := RangeTaskGen.resolvedCacheSize / 2
      match runOnRange (fun _ => st.base) RangeTaskGen.defaultRegionsPerTask FUEL [] [] with
      | none => (st, "nonterm")
      | some tasks =>
        match scansPerTask st sp limit tasks 0 st.pop with
        | none => (st, "nonterm")
        | some ns =>
          match locateScan ns j 0 with
          | none => (st, "skip")
          | some (cur, lastScan) =>
            if cur + 3 > tasks.length then (st, "skip")
            else
              -- one worker: sub-ranges before `cur` handled, `cur` in its handler, `cur+1` queued, the producer blocked;
              -- the handler notices the cancellation at the top of its next iteration, unless this was its last scan
              let pre := rep cur [.push, .pull, .finish false] ++ [.push, .pull, .push, .push, .cancel, .finish (!lastScan)]
              (st, cancelVerdict tasks 1 pre)
    | _, _ => (st, "bad-op")
  | ["del", s, e, _workers] =>
    match parseHex s, parseHex e with
    | some s, some e =>
      let ls := layoutAt st.base st.splits
      let static := st.splits.isEmpty
      -- with splits scheduled the layouts seen by the handlers are not determined: any choice gives the same content
      match deleteRangeReqs ls (fun _ _ => ls FUEL) FUEL s e with
      | none => (st, "nonterm")
      | some reqs =>
        let keys := dataKeys st.data
        let left := applyDeletes keys reqs
        let want := keys.filter fun k => !(Task.memB ⟨s, e⟩ k)
        if left != want then (st, s!"FAIL delete-range left {joinOr "," (left.map Bytes.toHex)}")
        else
          ({ st with data := st.data.filter fun v => !(Task.memB ⟨s, e⟩ v.key) },
            s!"ok keys={joinOr "," (left.map Bytes.toHex)} reqs={if static then rangesStr reqs else "*"}")
    | _, _ => (st, "bad-op")
  | ["gc", mode, sp, limit, rpt, workers] =>
    match sp.toNat?, limit.toNat?, rpt.toNat?, workers.toNat? with
    | some sp, some limit, some rpt, some workers =>
      if mode == "pure" then
        let left := st.pop.filter fun l => sp < l.ts
        ({ st with pop := left }, s!"ok left={joinOr "," (left.map lockStr)}")
      else
        let (limit, rpt) := if mode == "phase" then (RangeTaskGen.resolvedCacheSize / 2, RangeTaskGen.defaultRegionsPerTask) else (limit, rpt)
        match runOnRange (fun _ => st.base) rpt FUEL [] [] with
        | none => (st, "nonterm")
        | some tasks =>
          match gcTasks st sp limit (mode != "phase") tasks 0 st.pop [] with
          | none => (st, "nonterm")
          | some (trace, left) =>
            if left.any (fun l => l.ts ≤ sp) then (st, "FAIL lock-remains")
            else
              -- several tasks handled by several workers: the status checks of one task remove primaries another
              -- task may or may not have scanned yet, so the per-task traces depend on the schedule
              let shown := if workers == 1 || tasks.length ≤ 1 then joinOr "|" trace else "*"
              ({ st with pop := left }, s!"ok tasks={shown} left={joinOr "," (left.map lockStr)}")
    | _, _, _, _ => (st, "bad-op")
  | ["vis", method, sp, age, ts, key] =>
    match sp.toNat?, age.toNat?, ts.toNat?, parseHex key with
    | some sp, some age, some ts, some k =>
      let fresh := decide (age < RangeTaskGen.gcStateCacheSeconds - RangeTaskGen.gcInaccuracySeconds)
      let v : String :=
        if method == "iter" then
          match (dataKeys st.data).filter (fun x => Bytes.le k x && (readAt st.data x ts).isSome) with
          | x :: _ => match readAt st.data x ts with
            | some v => s!"{Bytes.toHex x}={Bytes.toHex v}"
            | none => "none"
          | [] => "none"
        else match readAt st.data k ts with
          | some v => Bytes.toHex v
          | none => "none"
      match snapshotRead fresh sp ts v with
      | .ok v => (st, s!"ok {v}")
      | .error .abortedByGC => (st, "aborted")
      | .error .pdTimeout => (st, "stale")
      | .error .ok => (st, "bad-op")
    | _, _, _, _ => (st, "bad-op")
  | _ => (st, "bad-op")

def main : IO Unit := runDriver ({} : St) step
