import ClientGoVerif.Model.RangeTask
open CGV CGV.RangeTask

/-! Line-protocol driver of the C14 model (stateful; `reset` starts a case). See harness/c14/main.go for the ops. -/

structure Ver where
  key : Bytes
  val : Bytes
  cts : Nat

structure St where
  base : Layout := []
  splits : List (Nat × Bytes) := []
  data : List Ver := []
  pop : List Lock := []

def FUEL : Nat := 100000

def parseCsv (s : String) : Option (List Bytes) :=
  if s == "-" then some [] else (s.splitOn ",").mapM parseHex

def rangeStr (t : Task) : String := s!"{Bytes.toHex t.s}:{Bytes.toHex t.e}"
def joinOr (sep : String) (l : List String) : String := if l.isEmpty then "-" else sep.intercalate l
def rangesStr (ts : List Task) : String := joinOr "," (ts.map rangeStr)

/-- the property oracle on a list of sub-ranges in order: consecutive, non-empty, from `s` to `e` -/
def chainOk : Bytes → Bytes → List Task → Bool
  | _, _, [] => false
  | s, e, [t] => t.s == s && t.e == e && (e.isEmpty || Bytes.lt s e)
  | s, e, t :: r => t.s == s && !t.e.isEmpty && Bytes.lt s t.e && chainOk t.e e r

def partitionOk (s e : Bytes) (ts : List Task) : Bool :=
  if emptyRange s e then ts.isEmpty else chainOk s e ts

def insertLock (l : Lock) : List Lock → List Lock
  | [] => [l]
  | x :: xs => if Bytes.lt l.key x.key then l :: x :: xs else x :: insertLock l xs

def insertKey (k : Bytes) : List Bytes → List Bytes
  | [] => [k]
  | x :: xs => if k == x then x :: xs else if Bytes.lt k x then k :: x :: xs else x :: insertKey k xs

def txnVal (ts : Nat) : Bytes := ("t" ++ toString ts).toUTF8.toList

/-- newest version of `key` visible at `ts` -/
def readAt (data : List Ver) (key : Bytes) (ts : Nat) : Option Bytes :=
  let vs := data.filter fun v => v.key == key && v.cts ≤ ts
  (vs.foldl (fun (acc : Option Ver) v => match acc with
    | none => some v
    | some a => if a.cts < v.cts then some v else some a) none).map (·.val)

def dataKeys (data : List Ver) : List Bytes := data.foldl (fun acc v => insertKey v.key acc) []

def lockStr (l : Lock) : String := s!"{Bytes.toHex l.key}:{l.ts}"

/-- layout seen by the scan with global index `i`: a split scheduled at `n` happens right after scan `n` returned -/
def gcLayouts (st : St) (i : Nat) : Layout := layoutAt st.base (st.splits.map fun p => (p.1 + 1, p.2)) i

/-- The resolve of batch `i` gets a nil location iff a split scheduled right after scan `i` changed the region the
    request is addressed to (the one containing the cursor) and first and last lock of the batch are no longer in
    one region. -/
def gcRetry (st : St) (i : Nat) (key : Bytes) (locks : List Lock) : Bool :=
  let before := gcLayouts st i
  let after := gcLayouts st (i + 1)
  match locks.head?, locks.getLast? with
  | some f, some l =>
    let changed := regionEnd before key != regionEnd after key || regionStart before key != regionStart after key
    let e := regionEnd after f.key
    changed && !e.isEmpty && Bytes.le e l.key
  | _, _ => false

def scansStr (scans : List ScanRec) : String :=
  ";".intercalate (scans.map fun r => s!"{Bytes.toHex r.lo}:{Bytes.toHex r.hi}:{r.n}")

/-- run the tasks one after the other (the per-task traces do not depend on the order unless splits are scheduled) -/
def gcTasks (st : St) (sp limit : Nat) (showRegions : Bool) : List Task → Nat → List Lock → List String → Option (List String × List Lock)
  | [], _, pop, acc => some (acc.reverse, pop)
  | t :: ts, i, pop, acc =>
    match resolveLoop (gcLayouts st) (fun j => gcLayouts st (j + 1)) (gcRetry st) sp t.e limit FUEL i t.s ⟨[], pop, [], 0⟩ with
    | none => none
    | some out =>
      gcTasks st sp limit showRegions ts (i + out.scans.length) out.pop
        (s!"{rangeStr t}[{scansStr out.scans}]r{if showRegions then toString out.regions else "*"}" :: acc)

def step (st : St) (line : String) : St × String :=
  match words line with
  | ["reset"] => ({}, "ok")
  | ["layout", csv] =>
    match parseCsv csv with
    | some l => ({ st with base := l }, "ok")
    | none => (st, "bad-op")
  | ["split", idx, key] =>
    match idx.toNat?, parseHex key with
    | some i, some k => ({ st with splits := st.splits ++ [(i, k)] }, "ok")
    | _, _ => (st, "bad-op")
  | ["put", key, val, _sts, cts] =>
    match parseHex key, parseHex val, cts.toNat? with
    | some k, some v, some c => ({ st with data := st.data ++ [⟨k, v, c⟩] }, "ok")
    | _, _, _ => (st, "bad-op")
  | ["txn", ts, kind, cts, primary, keys, locked] =>
    match ts.toNat?, cts.toNat?, parseHex primary, parseCsv keys, parseCsv locked with
    | some t, some c, some p, some ks, some ls =>
      let pop := ls.foldl (fun acc k => insertLock ⟨k, t, k == p⟩ acc) st.pop
      let data := if kind == "committed" then st.data ++ ks.map (fun k => ⟨k, txnVal t, c⟩) else st.data
      ({ st with pop := pop, data := data }, "ok")
    | _, _, _, _, _ => (st, "bad-op")
  | ["run", s, e, rpt, workers, fail] =>
    match parseHex s, parseHex e, rpt.toNat?, workers.toNat? with
    | some s, some e, some rpt, some workers =>
      match runOnRange (layoutAt st.base st.splits) rpt FUEL s e with
      | none => (st, "nonterm")
      | some ts =>
        if !partitionOk s e ts then (st, s!"FAIL partition {rangesStr ts}")
        else
          let f : Option Nat := if fail == "-" then none else fail.toNat?
          match runSequential ts f with
          | (_, none) => (st, s!"ok {rangesStr ts}")
          | (handled, some _) => (st, if workers == 1 then s!"err {rangesStr handled}" else "err *")
    | _, _, _, _ => (st, "bad-op")
  | ["del", s, e, _workers] =>
    match parseHex s, parseHex e with
    | some s, some e =>
      let ls := layoutAt st.base st.splits
      let static := st.splits.isEmpty
      -- with splits scheduled the layouts seen by the handlers are not determined: any choice gives the same content
      match deleteRangeReqs ls (fun _ _ => ls FUEL) FUEL s e with
      | none => (st, "nonterm")
      | some reqs =>
        let keys := dataKeys st.data
        let left := applyDeletes keys reqs
        let want := keys.filter fun k => !(Task.memB ⟨s, e⟩ k)
        if left != want then (st, s!"FAIL delete-range left {joinOr "," (left.map Bytes.toHex)}")
        else
          ({ st with data := st.data.filter fun v => !(Task.memB ⟨s, e⟩ v.key) },
            s!"ok keys={joinOr "," (left.map Bytes.toHex)} reqs={if static then rangesStr reqs else "*"}")
    | _, _ => (st, "bad-op")
  | ["gc", mode, sp, limit, rpt, workers] =>
    match sp.toNat?, limit.toNat?, rpt.toNat?, workers.toNat? with
    | some sp, some limit, some rpt, some workers =>
      if mode == "pure" then
        let left := st.pop.filter fun l => sp < l.ts
        ({ st with pop := left }, s!"ok left={joinOr "," (left.map lockStr)}")
      else
        let (limit, rpt) := if mode == "phase" then (RangeTaskGen.resolvedCacheSize / 2, RangeTaskGen.defaultRegionsPerTask) else (limit, rpt)
        match runOnRange (fun _ => st.base) rpt FUEL [] [] with
        | none => (st, "nonterm")
        | some tasks =>
          match gcTasks st sp limit (mode != "phase") tasks 0 st.pop [] with
          | none => (st, "nonterm")
          | some (trace, left) =>
            if left.any (fun l => l.ts ≤ sp) then (st, "FAIL lock-remains")
            else
              -- several tasks handled by several workers: the status checks of one task remove primaries another
              -- task may or may not have scanned yet, so the per-task traces depend on the schedule
              let shown := if workers == 1 || tasks.length ≤ 1 then joinOr "|" trace else "*"
              ({ st with pop := left }, s!"ok tasks={shown} left={joinOr "," (left.map lockStr)}")
    | _, _, _, _ => (st, "bad-op")
  | ["vis", method, sp, age, ts, key] =>
    match sp.toNat?, age.toNat?, ts.toNat?, parseHex key with
    | some sp, some age, some ts, some k =>
      let fresh := decide (age < RangeTaskGen.gcStateCacheSeconds - RangeTaskGen.gcInaccuracySeconds)
      let v : String :=
        if method == "iter" then
          match (dataKeys st.data).filter (fun x => Bytes.le k x && (readAt st.data x ts).isSome) with
          | x :: _ => match readAt st.data x ts with
            | some v => s!"{Bytes.toHex x}={Bytes.toHex v}"
            | none => "none"
          | [] => "none"
        else match readAt st.data k ts with
          | some v => Bytes.toHex v
          | none => "none"
      match snapshotRead fresh sp ts v with
      | .ok v => (st, s!"ok {v}")
      | .error .abortedByGC => (st, "aborted")
      | .error .pdTimeout => (st, "stale")
      | .error .ok => (st, "bad-op")
    | _, _, _, _ => (st, "bad-op")
  | _ => (st, "bad-op")

def main : IO Unit := runDriver ({} : St) step
