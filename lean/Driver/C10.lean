import ClientGoVerif.Model.Retry
import ClientGoVerif.Model.Selector
import ClientGoVerif.Model.Validate
open CGV CGV.Retry

/-- driver session: configuration being assembled, then the model state and the trace it accepted -/
structure Sess where
  cfg : Option Cfg := none
  hints : Nat := 0
  st : Option State := none
  trace : List Ev := []      -- accepted events, newest first
  rejected : Nat := 0
  sel : Option Selector.Sel := none   -- selector model state (before the next `next`)
  selPrev : Option (Selector.Sel × Nat) := none   -- selector right after the last choice (before the answer's handler), target
  selEntered : Bool := false          -- the request entered as a stale read
  selRules : Bool := true             -- R1–R4 held on every model post-state

def parseCfgLine (w : List String) : Option Cfg :=
  match w with
  | [cmd, mode, budget, fwd, label, live, slow, validate, ts, seed, learner, short, busy, wflag, async] => do
    let budget ← budget.toNat?
    let _ ← parseBool fwd; let label ← label.toNat?; let _ ← seed.toNat?; let _ ← parseBool learner
    let short ← parseBool short; let _ ← busy.toNat?; let wflag ← wflag.toNat?; let _ ← parseBool async
    let validate ← parseBool validate
    if !(isReadCmd cmd || isWriteCmd cmd) || !modeNames.contains mode || label > 3 || wflag > 2 then none
    else if live.length ≠ 3 || slow.length ≠ 3 then none
    else if !(["valid", "future", "maxint", "max"].contains ts) then none
    else
      pure { n := live.length, maxSleep := budget, isWrite := isWriteCmd cmd,
             tsInvalid := validate && isReadCmd cmd && tsRejected ts mode, hints := 0,
             shortRead := short && isReadCmd cmd }
  | _ => none

def rejReason (s : State) : Ev → String
  | .send peer store rr sr retry proxy attObs _ _ =>
    let c := charged peer proxy
    if s.done then "done" else if s.cfg.tsInvalid then "ts-invalid-sent" else if afterOk s then "after-ok"
    else if !(validPeer s peer && validPeer s c) then "peer"
    else if !(getAtt s c < maxAtt) then "attempts-exhausted"
    else if !(attObs = 0 || attObs = getAtt s c + 1) then s!"attempts-count model={getAtt s c + 1}"
    else if !(retry == decide (0 < s.sent)) then "retry-marker"
    else if !(!s.cfg.isWrite || (!rr && !sr)) then "write-flagged"
    else if let some k := s.owedNow then s!"no-backoff owed={k}"
    else if s.owedBusy.contains store && !s.busyCredit then "busy-store-resent-without-backoff"
    else "?"
  | .bump q _ =>
    if s.done then "done" else if s.last ≠ some (.nlhint q) then "no-hint" else "value"
  | .backoff k ms =>
    if s.done then "done" else if afterOk s then "after-ok"
    else match kindRow k with
      | none => "unknown-kind"
      | some r => if !(rowMin r ≤ ms && 0 < ms && ms ≤ r.2.1) then s!"sleep-range min={rowMin r} cap={r.2.1}"
                  else if backoffRefused s k then "budget-spent" else "?"
  | .result k _ =>
    if s.done then "done" else
    match k with
    | .ok => "ok-not-after-store-ok"
    | .regionStore => "region-error-not-last-response"
    | .regionPseudo => "pseudo"
    | .errBudget => if budgetSpent s then "err" else "error-before-budget-spent"
    | .errTs => "ts"
    | .errFatal => "error-without-fatal-answer"
    | .errOther => "unexpected-error"

/-! ## selector tie -/
namespace SelDrv
open CGV.Selector

def bit (c : Char) : Option Bool := if c == '0' then some false else if c == '1' then some true else none

/-- `attempts:flags(5):live+inputs(5)` -/
def parseRep (t : String) : Option Rep :=
  match t.splitOn ":" with
  | [a, f, i] => do
    let a ← a.toNat?
    match f.toList, i.toList with
    | [f1, f2, f3, f4, f5], [l, i1, i2, i3, i4, i5] =>
      let live ← (String.singleton l).toNat?
      pure { attempts := a, deadline := ← bit f1, dataNotReady := ← bit f2, notLeader := ← bit f3, serverBusy := ← bit f4,
             suspect := ← bit f5, live := live, slow := ← bit i1, stale := ← bit i2, label := ← bit i3, learner := ← bit i4,
             over := ← bit i5 }
    | _, _ => none
  | _ => none

/-- snapshot tokens → (target, observed selector built on the static fields of `base`) -/
def parseSnap (base : Sel) (w : List String) : Option (Nat × Sel × List String) :=
  match w with
  | t :: li :: rl :: rt :: sa :: bt :: ir :: va :: bc :: bp :: pr :: rr :: sr :: bm :: r0 :: r1 :: r2 :: rest => do
    let reps ← [r0, r1, r2].mapM parseRep
    let s : Sel := { base with
      reps := reps, leaderIdx := ← li.toNat?, readLeader := ← parseBool rl, reqType := ← rt.toNat?, selAtt := ← sa.toNat?,
      busyThr := ← parseBool bt, invRetry := ← parseBool ir, valid := ← parseBool va, busyCnt := ← bc.toNat?,
      busyPeer := ← bp.toNat?, probed := ← parseBool pr, rr := ← parseBool rr, sr := ← parseBool sr, busyMs := ← parseBool bm }
    pure (← t.toNat?, s, rest)
  | _ => none

def refresh (m obs : Sel) : Sel := refreshInputs m obs.reps

def ownedRep (r : Rep) : Nat × List Bool := (r.attempts, [r.deadline, r.dataNotReady, r.notLeader, r.serverBusy, r.suspect])

/-- first selector-owned field in which model and implementation differ -/
def diffSel (m o : Sel) : Option String :=
  if m.reps.map ownedRep != o.reps.map ownedRep then some "replica-state"
  else if m.leaderIdx != o.leaderIdx then some "leader"
  else if m.readLeader != o.readLeader then some "read-type"
  else if m.reqType != o.reqType then some "req-read-type"
  else if m.selAtt != o.selAtt then some "selector-attempts"
  else if m.busyThr != o.busyThr then some "busy-threshold"
  else if m.invRetry != o.invRetry then some "invalidated-for-retry"
  else if m.valid != o.valid then some "region-valid"
  else if m.probed != o.probed || (m.busyCnt != o.busyCnt && !m.probed) then some "leader-busy-probe"
  else if m.rr != o.rr then some s!"flag-ReplicaRead model={m.rr}"
  else if m.sr != o.sr then some s!"flag-StaleRead model={m.sr}"
  else if m.busyMs != o.busyMs then some "flag-BusyThresholdMs"
  else none

def parseSelInit (w : List String) : Option Sel :=
  match w with
  | [rl, rt, st, ro, lo, pl, hl, bt, rr, sr, bm, _n] => do
    let vrl ← parseBool rl
    let vrt ← rt.toNat?
    let vst ← parseBool st
    let vro ← parseBool ro
    let vlo ← parseBool lo
    let vpl ← parseBool pl
    let vhl ← parseBool hl
    let vbt ← parseBool bt
    let vrr ← parseBool rr
    let vsr ← parseBool sr
    let vbm ← parseBool bm
    pure { reps := [{}, {}, {}], readLeader := vrl, reqType := vrt, stale := vst, readOnly := vro,
           leaderOnly := vlo, preferLeader := vpl, hasLabels := vhl, busyThr := vbt, rr := vrr, sr := vsr, busyMs := vbm }
  | _ => none

def showSet (l : List Nat) : String := " ".intercalate (l.map toString)

end SelDrv

def lexLt (a b : Nat × Nat) : Bool := a.1 < b.1 || (a.1 = b.1 && a.2 < b.2)

def stepLine (ss : Sess) (line : String) : Sess × String :=
  match words line with
  | ["reset"] => ({}, "ok")
  | "cfg" :: rest =>
    match parseCfgLine rest with
    | some c => ({ ss with cfg := some c }, "ok")
    | none => (ss, "bad-op")
  | ["f", x] =>
    if faultNames.contains x then ({ ss with hints := ss.hints + (if isHintFault x then 1 else 0) }, "ok") else (ss, "bad-op")
  | ["go", t] =>
    if !faultNames.contains t then (ss, "bad-op") else
    let c : Cfg := match ss.cfg with
      | some c => { c with hints := ss.hints }
      | none => { n := 3, maxSleep := 2000, isWrite := false, tsInvalid := false, hints := ss.hints, shortRead := false }  -- the harness' default cfg
    ({ ss with cfg := some c, st := some (init c), trace := [], rejected := 0 }, "ok")
  | "ev" :: rest =>
    match ss.st, parseEv rest with
    | some s, some e =>
      if stepAllowed s e then
        let s' := step s e
        -- runtime double check of `rank_decreases`
        if !isFinal e && !lexLt (rank s') (rank s) then ({ ss with rejected := ss.rejected + 1 }, "rej rank")
        else ({ ss with st := some s', trace := e :: ss.trace }, "ok")
      else ({ ss with rejected := ss.rejected + 1 }, "rej " ++ rejReason s e)
    | _, _ => (ss, "bad-op")
  | "selinit" :: rest =>
    (match SelDrv.parseSelInit rest with
     | some s => ({ ss with sel := some s, selEntered := s.sr, selRules := true }, "ok")
     | none => (ss, "bad-op"))
  | "sel" :: rest =>
    (match ss.sel with
     | none => (ss, "bad-op")
     | some m =>
       match SelDrv.parseSnap m rest with
       | some (t, obs, [fault, short]) =>
         let m0 := SelDrv.refresh m obs
         let (set, m1) := Selector.next m0 t
         let short := short == "1"
         if !set.contains t then
           ({ ss with sel := some (Selector.handle obs t fault short) }, s!"rej choice {t} not in [{SelDrv.showSet set}]")
         else match SelDrv.diffSel m1 obs with
           | some d => ({ ss with sel := some (Selector.handle obs t fault short) }, "rej " ++ d)
           | none => ({ ss with sel := some (Selector.handle m1 t fault short), selPrev := some (m1, t),
                                selRules := ss.selRules && Selector.readFlagRules m1 t ss.selEntered }, "ok")
       | _ => (ss, "bad-op"))
  | "selend" :: rest =>
    (match ss.sel with
     | none => (ss, "bad-op")
     | some m =>
       match SelDrv.parseSnap m rest with
       | some (t, obs, [ran, res]) =>
         let m0 := SelDrv.refresh m obs
         if ran == "1" then
           -- the loop ended because `next` found no replica: the model must find none either
           let (set, m1) := Selector.next m0 0
           if !set.isEmpty then (ss, s!"rej no-candidate model=[{SelDrv.showSet set}]")
           else match SelDrv.diffSel m1 obs with
             | some d => (ss, "rej end " ++ d)
             | none => (ss, "ok")
         else
           let m1 := if res == "ok" then
               (match ss.trace.head? with
                | some (.send p _ _ _ _ _ _ _ _) => Selector.onSuccess m0 (p - 1)
                | _ => m0)
             else m0
           match SelDrv.diffSel m1 obs with
           | none => (ss, "ok")
           | some d =>
             -- an error result may come from a back-off refused AFTER one more `next` (backoffOnRetry / backoffOnNoCandidate)
             if res == "err" then
               let (set, m2) := Selector.next m0 t
               if (set.contains t || (t == 9 && set.isEmpty)) && (SelDrv.diffSel m2 obs).isNone then (ss, "ok")
               else
                 -- or from the back-off `onNotLeader` takes BEFORE following a hint that no longer makes progress: only the
                 -- notLeader flag of the target is set
                 match ss.selPrev with
                 | some (mp, tp) =>
                   let m3 := Selector.setTarget (SelDrv.refresh mp obs) tp fun r => { r with notLeader := true }
                   if (SelDrv.diffSel m3 obs).isNone then (ss, "ok") else (ss, "rej end " ++ d)
                 | none => (ss, "rej end " ++ d)
             else (ss, "rej end " ++ d)
       | _ => (ss, "bad-op"))
  | ["valcmds", l] =>
    let seen := (l.splitOn ",").filterMap fun t =>
      match t.splitOn ":" with
      | [v, b] => (v.toNat?).bind fun v => (parseBool b).map fun b => (v, b)
      | _ => none
    (match Validate.checkEnumeration seen with
     | none => (ss, "ok")
     | some e => (ss, "rej " ++ e))
  | ["chk-validate", v, _name, pkg, fields, ts, validate, stale] =>
    (match v.toNat?, parseBool validate, parseBool stale with
     | some v, some validate, some stale =>
       let shape : Validate.Shape := { pkg := pkg, fields := if fields == "-" then [] else fields.splitOn "," }
       if !Validate.knownShape shape then (ss, "rej unknown-ts-field")
       else if !(["valid", "ahead", "maxint", "maxu1", "max"].contains ts) then (ss, "bad-op")
       else
         -- the shape-based spec and the classification of Request.GetStartTS' row must agree
         let agree := match Validate.rowOf v with
           | some r => Validate.mustValidateGetter r.2.1 r.2.2 == Validate.mustValidate shape
           | none => !Validate.mustValidate shape
         if !agree then (ss, "rej shape-vs-GetStartTS")
         else
           let c := Validate.senderCfg { n := 3, maxSleep := 100, isWrite := false, tsInvalid := false, hints := 0, shortRead := false }
                      validate shape ts stale
           -- the model sender: refused iff its only legal run is `result err tsinvalid`
           (ss, if c.tsInvalid then "refused" else "passed")
     | _, _, _ => (ss, "bad-op"))
  | ["prop", p] =>
    match ss.st with
    | none => (ss, "bad-op")
    | some s =>
      let es := ss.trace.reverse
      let c := s.cfg
      let r := match p with
        | "bounded" => some (propBounded c es)
        | "genuine" => some (propGenuine es)
        | "writeflags" => some (propWriteFlags c es)
        | "retrymarked" => some (propRetryMarked es)
        | "tsvalid" => some (propTsValid c es)
        | "backoffdiscipline" => some (propBackoffDiscipline c.n c.shortRead es)
        | "readflags" => some ss.selRules
        | "candidate" => some true   -- theorem chosen_is_candidate: every member of the model's choice set is sendable
        | _ => none
      match r with
      | some true => (ss, "ok")
      | some false => (ss, "FAIL model")
      | none => (ss, "bad-op")
  | _ => (ss, "bad-op")

def main : IO Unit := runDriver ({} : Sess) stepLine
