import ClientGoVerif.Model.Retry
open CGV CGV.Retry

/-- driver session: configuration being assembled, then the model state and the trace it accepted -/
structure Sess where
  cfg : Option Cfg := none
  hints : Nat := 0
  st : Option State := none
  trace : List Ev := []      -- accepted events, newest first
  rejected : Nat := 0

def parseCfgLine (w : List String) : Option Cfg :=
  match w with
  | [cmd, mode, budget, fwd, label, live, slow, validate, ts, seed, learner, short, busy, wflag, async] => do
    let budget ← budget.toNat?
    let _ ← parseBool fwd; let label ← label.toNat?; let _ ← seed.toNat?; let _ ← parseBool learner
    let _ ← parseBool short; let _ ← busy.toNat?; let wflag ← wflag.toNat?; let _ ← parseBool async
    let validate ← parseBool validate
    if !(isReadCmd cmd || isWriteCmd cmd) || !modeNames.contains mode || label > 3 || wflag > 2 then none
    else if live.length ≠ 3 || slow.length ≠ 3 then none
    else if !(["valid", "future", "maxint", "max"].contains ts) then none
    else
      pure { n := live.length, maxSleep := budget, isWrite := isWriteCmd cmd,
             tsInvalid := validate && isReadCmd cmd && tsRejected ts mode, hints := 0 }
  | _ => none

def rejReason (s : State) : Ev → String
  | .send peer _ rr sr retry proxy attObs _ =>
    let c := charged peer proxy
    if s.done then "done" else if s.cfg.tsInvalid then "ts-invalid-sent" else if afterOk s then "after-ok"
    else if !(validPeer s peer && validPeer s c) then "peer"
    else if !(getAtt s c < maxAtt) then "attempts-exhausted"
    else if !(attObs = 0 || attObs = getAtt s c + 1) then s!"attempts-count model={getAtt s c + 1}"
    else if !(retry == decide (0 < s.sent)) then "retry-marker"
    else if !(!s.cfg.isWrite || (!rr && !sr)) then "write-flagged"
    else "?"
  | .bump q _ =>
    if s.done then "done" else if !(0 < s.credit) then "no-hint-credit"
    else if s.last ≠ some (.nlhint q) then "no-hint" else "value"
  | .backoff k ms =>
    if s.done then "done" else if afterOk s then "after-ok"
    else match kindRow k with
      | none => "unknown-kind"
      | some r => if !(rowMin r ≤ ms && 0 < ms && ms ≤ r.2.1) then s!"sleep-range min={rowMin r} cap={r.2.1}"
                  else if backoffRefused s k then "budget-spent" else "?"
  | .result k _ =>
    if s.done then "done" else
    match k with
    | .ok => "ok-not-after-store-ok"
    | .regionStore => "region-error-not-last-response"
    | .regionPseudo => "pseudo"
    | .errBudget => if budgetSpent s then "err" else "error-before-budget-spent"
    | .errTs => "ts"
    | .errOther => "unexpected-error"

def lexLt (a b : Nat × Nat) : Bool := a.1 < b.1 || (a.1 = b.1 && a.2 < b.2)

def stepLine (ss : Sess) (line : String) : Sess × String :=
  match words line with
  | ["reset"] => ({}, "ok")
  | "cfg" :: rest =>
    match parseCfgLine rest with
    | some c => ({ ss with cfg := some c }, "ok")
    | none => (ss, "bad-op")
  | ["f", x] =>
    if faultNames.contains x then ({ ss with hints := ss.hints + (if isHintFault x then 1 else 0) }, "ok") else (ss, "bad-op")
  | ["go", t] =>
    if !faultNames.contains t then (ss, "bad-op") else
    let c : Cfg := match ss.cfg with
      | some c => { c with hints := ss.hints }
      | none => { n := 3, maxSleep := 2000, isWrite := false, tsInvalid := false, hints := ss.hints }  -- the harness' default cfg
    ({ ss with cfg := some c, st := some (init c), trace := [], rejected := 0 }, "ok")
  | "ev" :: rest =>
    match ss.st, parseEv rest with
    | some s, some e =>
      if stepAllowed s e then
        let s' := step s e
        -- runtime double check of `rank_decreases`
        if !isFinal e && !lexLt (rank s') (rank s) then ({ ss with rejected := ss.rejected + 1 }, "rej rank")
        else ({ ss with st := some s', trace := e :: ss.trace }, "ok")
      else ({ ss with rejected := ss.rejected + 1 }, "rej " ++ rejReason s e)
    | _, _ => (ss, "bad-op")
  | ["prop", p] =>
    match ss.st with
    | none => (ss, "bad-op")
    | some s =>
      let es := ss.trace.reverse
      let c := s.cfg
      let r := match p with
        | "bounded" => some (propBounded c es)
        | "genuine" => some (propGenuine es)
        | "writeflags" => some (propWriteFlags c es)
        | "retrymarked" => some (propRetryMarked es)
        | "tsvalid" => some (propTsValid c es)
        | _ => none
      match r with
      | some true => (ss, "ok")
      | some false => (ss, "FAIL model")
      | none => (ss, "bad-op")
  | _ => (ss, "bad-op")

def main : IO Unit := runDriver ({} : Sess) stepLine
