import ClientGoVerif.Model.Bytes
import ClientGoVerif.Model.BatchMux
open CGV CGV.BatchMux

/-! line-protocol driver of the C18 model (stateful; explicit `reset`).  See harness/c18/main.go for the op grammar. -/

def echo (q : Nat) : Nat := 2 * q + 1
def junk (id : Nat) : Nat := 2 * id

def natList (l : List Nat) : String :=
  if l.isEmpty then "-" else " ".intercalate (l.map toString)

def retStr : Ret → String
  | .resp p => s!"ok {p}"
  | .err e => s!"err {e.str}"

/-- callers whose channel became ready leave their `select`: wake them in ascending handle order -/
def wakeAll (s : State) : State × List String :=
  let hs := (List.range s.entries.length).filter fun h =>
    match s.entries[h]? with
    | some e => e.ret.isNone && (match e.chan with | .full _ => true | .closed _ => true | _ => false)
    | none => false
  let s' := hs.foldl (fun s h => step s (.wake h)) s
  (s', hs.filterMap fun h => match s'.entries[h]? with
    | some e => e.ret.map fun r => s!"ret {h} {retStr r}"
    | none => none)

/-- callers that returned during this op (ret none before, some after), ascending -/
def newRets (a b : State) : List String :=
  (List.range b.entries.length).filterMap fun h =>
    match b.entries[h]? with
    | some e =>
      let was := match a.entries[h]? with | some x => x.ret.isSome | none => false
      if was then none else e.ret.map fun r => s!"ret {h} {retStr r}"
    | none => none

def insertSorted (x : Nat) : List Nat → List Nat
  | [] => [x]
  | y :: ys => if x ≤ y then x :: y :: ys else y :: insertSorted x ys
def sortNat (l : List Nat) : List Nat := l.foldr insertSorted []

def tblStr (s : State) (cid : Nat) : String :=
  s!"tbl {cid} {natList (sortNat ((s.table.filter (·.cid = cid)).map (·.id)))}"

def finish (s0 s1 : State) (head : List String) : State × String :=
  let (s2, _) := wakeAll s1
  (s2, " ; ".intercalate (head ++ newRets s0 s2))

def wirePayload (s : State) (id : Nat) : Nat :=
  match s.wireLog.find? (·.1 = id) with
  | some (_, q) => echo q
  | none => junk id

/-- the property's oracle on the model's own state -/
def oracle (s : State) : Option String :=
  let badE := (List.range s.entries.length).find? fun h =>
    match s.entries[h]? with
    | some e => decide (e.ncomp > 1) || decide (e.nret > 1) ||
        (match e.ret with | some (.resp p) => p != echo e.payload | _ => false)
    | none => false
  let ids := s.allocLog.map (·.1)
  let mono := (ids.zip (ids.drop 1)).all fun (a, b) => a > b
  match badE with
  | some h => some s!"entry {h}"
  | none => if mono then none else some "ids"

/-! pseudo-random schedule for the model side of the black-box property op -/
def lcg (x : Nat) : Nat := (x * 6364136223846793005 + 1442695040888963407) % 18446744073709551616

/-- seeded random schedule of the table protocol against an echo server (responses by id: echo of the payload that
    went on the wire under that id, junk for ids never sent) -/
def randRun : Nat → Nat → Nat → State → State
  | 0, _, _, s => s
  | n + 1, x, k, s =>
    let x1 := lcg x
    let x2 := lcg x1
    let a := (x1 / 65536) % 16
    let b := (x2 / 65536)
    let id1 := 1 + b / 8 % (k + 2)
    let id2 := 1 + b / 64 % (k + 2)
    let op : Op :=
      if a < 5 then .submit k (b % 16) (b / 16 % 3)
      else if a < 7 then .fetch (1 + b % 8)
      else if a < 10 then .flush
      else if a < 12 then .recv (b % 2) (b / 2 % 3) [(id1, wirePayload s id1), (id2, wirePayload s id2)]
      else if a < 13 then .kill (b % 2) (b / 2 % 3)
      else if a < 14 then .cancel (b % (k + 1))
      else if a < 15 then .wake (b % (k + 1))
      else .breset
    randRun n x2 (if a < 5 then k + 1 else k) (step s op)

structure DState where
  s : State := init 1 1000000 0
  dirty : Bool := false      -- a flush happened since the last builder reset (the send loop resets first)
  deriving Inhabited

def chCap : Nat := 128

def unlockAll (s : State) : State :=
  (List.range s.clients.length).foldl (fun s c => step s (.lockrec c false)) s

def clearSendFail (s : State) : State :=
  s.streams.foldl (fun s st => step s (.sendfail st.cid st.fwd false)) s

def flushWith (d : DState) (cancels : List Nat) (wait : Bool) : DState × String :=
  let s := d.s
  let s0 := if d.dirty then step s .breset else s
  -- flushwait: all connections unlocked, no injected Send failure; callers completed by the first half
  -- ("no available connections") leave before anybody cancels
  let s0 := if wait then clearSendFail (unlockAll s0) else s0
  let sb := step s0 .flushBegin
  let sb := if wait then (wakeAll sb).1 else sb
  let s1 := step (cancels.foldl (fun s h => step s (.cancel h)) sb) .flushEnd
  -- the groups built by this flush: new allocLog entries, chronological
  let newAlloc := (s1.allocLog.take (s1.allocLog.length - s.allocLog.length)).reverse
  let fwds := sortNat ((newAlloc.filterMap fun (_, h) => (s.entries[h]?).map (·.fwd)).eraseDups)
  let grps := fwds.map fun f =>
    let its := newAlloc.filter fun (_, h) => match s.entries[h]? with | some e => e.fwd = f | none => false
    s!"grp {f} " ++ " ".intercalate (its.map fun (id, h) => s!"{id}:{h}")
  let (s2, o) := finish s s1 ([s!"idx {s1.index}"] ++ grps ++ [s!"q {natList s1.heap}", s!"ida {s1.idAlloc}"])
  ({ s := s2, dirty := true }, o)

def stepOpen (d : DState) (line : String) : DState × String :=
  let s := d.s
  match words line with
  | ["submit", p, pri, fwd] =>
    match p.toNat?, pri.toNat?, fwd.toNat? with
    | some p, some pri, some fwd =>
      if s.ch.length ≥ chCap then (d, "full") else
      let s1 := step s (.submit p pri fwd)
      let (s2, o) := finish s s1 [s!"h {s.entries.length}"]
      ({ d with s := s2 }, o)
    | _, _, _ => (d, "bad-op")
  | ["submitshort", p, pri, fwd] =>
    match p.toNat?, pri.toNat?, fwd.toNat? with
    | some p, some pri, some fwd =>
      if s.ch.length ≥ chCap then (d, "full") else
      let s1 := step (step s (.submit p pri fwd)) (.timeout s.entries.length)
      let (s2, o) := finish s s1 [s!"h {s.entries.length}"]
      ({ d with s := s2 }, o)
    | _, _, _ => (d, "bad-op")
  | ["fetch", m] =>
    match m.toNat? with
    | some m =>
      if s.ch.isEmpty then (d, "empty") else
      let s0 := if d.dirty then step s .breset else s
      let s1 := step s0 (.fetch m)
      let (s2, o) := finish s s1 [s!"q {natList s1.heap}", s!"ch {s1.ch.length}"]
      ({ s := s2, dirty := false }, o)
    | none => (d, "bad-op")
  | ["breset"] =>
    let s1 := step s .breset
    let (s2, o) := finish s s1 [s!"q {natList s1.heap}"]
    ({ s := s2, dirty := false }, o)
  | "flushwait" :: hs =>
    -- getClientAndSend whose first `send` waits for the connection; the callers `hs` cancel while it waits
    match hs.mapM (·.toNat?) with
    | some hs => flushWith d hs true
    | none => (d, "bad-op")
  | ["flush"] => flushWith d [] false
  | "recv" :: cid :: fwd :: ids =>
    match cid.toNat?, fwd.toNat?, ids.mapM (·.toNat?) with
    | some cid, some fwd, some ids =>
      if (findStream s.streams cid fwd).isNone then (d, "nostream") else
      let rs := ids.map fun id => (id, wirePayload s id)
      let s1 := step s (.recv cid fwd rs)
      let (s2, o) := finish s s1 [s!"out {s1.outdated}", tblStr s1 cid]
      ({ d with s := s2 }, o)
    | _, _, _ => (d, "bad-op")
  | ["kill", cid, fwd] =>
    match cid.toNat?, fwd.toNat? with
    | some cid, some fwd =>
      if (findStream s.streams cid fwd).isNone then (d, "nostream") else
      let s1 := step (unlockAll s) (.kill cid fwd)
      let (s2, o) := finish s s1 [s!"ep {clientEpoch s1.clients cid}", tblStr s1 cid]
      ({ d with s := s2 }, o)
    | _, _ => (d, "bad-op")
  | ["panicloop"] =>
    -- the real batchSendLoop runs with the failpoint: reset, fetchAllPendingRequests, PANIC, recover + restart; the
    -- restarted loop is woken with two nil sentinels: reset, getClientAndSend, reset, exit (queue empty).  All clients
    -- are unlocked and unlimited for the duration so that the queue drains in one getClientAndSend.
    if s.ch.isEmpty then (d, "empty") else
    let lims := s.clients.map (·.limit)
    let sA := (List.range s.clients.length).foldl (fun s c => step s (.setlimit c 1000000000)) (unlockAll s)
    let s0 := [Op.breset, .fetch chCap, .panicRecover, .breset].foldl step sA
    -- the restarted loop leaves at the first nil sentinel if nothing is queued (everything fetched was canceled)
    let s1 := if s0.heap.isEmpty then s0 else [Op.flush, .breset].foldl step s0
    let s2 := (List.range s1.clients.length).foldl (fun s c => step s (.setlimit c (lims.getD c 0))) s1
    let tbls := (List.range s2.clients.length).map (tblStr s2)
    let (s3, o) := finish s s2 ([s!"ida {s2.idAlloc}", s!"q {natList s2.heap}"] ++ tbls)
    ({ s := s3, dirty := false }, o)
  | ["cancel", h] =>
    match h.toNat? with
    | some h => let (s2, o) := finish s (step s (.cancel h)) ["cancel"]; ({ d with s := s2 }, o)
    | none => (d, "bad-op")
  | ["close"] =>
    let (s2, o) := finish s (step s .close) ["close"]
    ({ d with s := s2 }, o)
  | ["sendfail", cid, fwd, b] =>
    match cid.toNat?, fwd.toNat?, b.toNat? with
    | some cid, some fwd, some b =>
      if (findStream s.streams cid fwd).isNone then (d, "nostream") else
      ({ d with s := step s (.sendfail cid fwd (b != 0)) }, "ok")
    | _, _, _ => (d, "bad-op")
  | ["lockrec", cid, b] =>
    match cid.toNat?, b.toNat? with
    | some cid, some b => ({ d with s := step s (.lockrec cid (b != 0)) }, "ok")
    | _, _ => (d, "bad-op")
  | ["setlimit", cid, l] =>
    match cid.toNat?, l.toNat? with
    | some cid, some l => ({ d with s := step s (.setlimit cid l) }, "ok")
    | _, _ => (d, "bad-op")
  | ["cfgcancel", b] =>
    match b.toNat? with
    | some b => ({ d with s := step s (.cfgcancel (b != 0)) }, "ok")
    | none => (d, "bad-op")
  | _ => (d, "bad-op")

def step' (d : DState) (line : String) : DState × String :=
  let s := d.s
  match words line with
  | ["reset", n, lim, nf] =>
    match n.toNat?, lim.toNat?, nf.toNat? with
    | some n, some lim, some nf =>
      if n < 1 ∨ n > 2 ∨ nf > 3 then (d, "bad-op") else ({ s := init n lim nf }, "ok")
    | _, _, _ => (d, "bad-op")
  | ["audit"] =>
    match oracle s with
    | none => (d, "ok")
    | some w => (d, s!"FAIL {w}")
  | "bb" :: _scn :: seed :: _ =>
    -- black-box scenario: the model side runs a seeded random schedule of the table protocol and evaluates the oracle
    match seed.toNat? with
    | some seed =>
      let s1 := randRun 400 (seed + 1) 0 (init 2 4 2)
      let s2 := (wakeAll (step s1 .close)).1
      match oracle s2 with
      | none => if s2.entries.all (·.ret.isSome) then ({ d with s := closeAll s }, "ok") else (d, "FAIL pending-after-close")
      | some w => (d, s!"FAIL {w}")
    | none => (d, "bad-op")
  | _ => if s.closed then (d, "closed") else stepOpen d line

def main : IO Unit := runDriver (default : DState) step'
