import ClientGoVerif.Model.VLog
import ClientGoVerif.Model.Batched
import ClientGoVerif.Model.ArtNode
import ClientGoVerif.Model.ArtTree
open CGV CGV.MemBuf

/-! line-protocol driver of the C08 mechanism model (stateful; `reset` restores the initial state) -/

/-- byte-string token: hex, `-` (empty), or `<hex>*<n>` (pattern repeated n times) -/
def parseBytesTok (s : String) : Option Bytes :=
  match s.splitOn "*" with
  | [h] => parseHex h
  | [h, n] => do
    let b ← parseHex h
    let k ← n.toNat?
    pure ((List.replicate k b).flatten)
  | _ => none

def sumBytes (b : Bytes) : Nat := b.foldl (fun a c => (a + c.toNat) % 65521) 0

/-- long values are printed as `first4~len~checksum` -/
def showVal (b : Bytes) : String :=
  if b.length ≤ 32 then Bytes.toHex b
  else s!"{Bytes.toHex (b.take 4)}~{b.length}~{sumBytes b}"

def showItem (withFlags : Bool) (i : Item) : String :=
  let v := match i.value with | some v => showVal v | none => "~"
  if withFlags then s!"{showVal i.key}={v}/{i.flags}" else s!"{showVal i.key}={v}"

def showItems (withFlags : Bool) (l : List Item) : String :=
  l.foldl (fun acc i => acc ++ " " ++ showItem withFlags i) s!"{l.length}:"

def showErr : Err → String
  | .nilValue => "err:nil-value" | .keyTooLarge => "err:key-too-large"
  | .entryTooLarge => "err:entry-too-large" | .txnTooLarge => "err:txn-too-large"

def showOut (withFlags : Bool) : Out → String
  | .ok => "ok" | .err e => showErr e | .refused => "refused" | .notFound => "notfound" | .noMatch => "nomatch"
  | .val v => "v:" ++ showVal v | .flags f => s!"f:{f}" | .num n => toString n
  | .bool b => if b then "true" else "false"
  | .items l => showItems withFlags l

structure View where
  items : List Item
  len : Int
  size : Int
  deriving DecidableEq

structure DS where
  m : VLog := VLog.init
  q : VLog.Seq := {}
  cps : List (Nat × Bool) := []          -- checkpoint, still usable
  cpViews : List View := []
  stageViews : List View := []           -- bottom first
  snapBase : List Item := []             -- values visible when stage 1 was opened
  node : ArtNode.Node Nat := ArtNode.Node.empty   -- one inner node of the radix tree (n* ops)
  tree : ArtTree.Tree := ArtTree.Tree.empty       -- the radix tree of the ART buffer (structure: t* ops)

def viewOf (m : VLog) : View :=
  { items := sortItems (m.iterItems [] [] true), len := m.len, size := m.size }

def valuesOf (m : VLog) : List Item := sortItems (m.iterItems [] [] false)

/-- the undo oracle: what the view must be after undoing to a point where the view was `before`, given the view `cur`
    just before the undo (flags are not rolled back; a key that loses its only values keeps its persistent flags) -/
def expectedAfterUndo (before cur : View) : List Item :=
  cur.items.filterMap fun c =>
    let b := (before.items.find? (fun x => x.key = c.key)).bind (·.value)
    match b with
    | some v => some { c with value := some v }
    | none =>
      match c.value with
      | some _ =>
        let kept := KeyFlags.andPersistent c.flags
        if kept = 0 then none else some { key := c.key, flags := kept, value := none }
      | none => some c

def itemsSize (l : List Item) : Int :=
  l.foldl (fun a i => a + (i.key.length : Int) + ((match i.value with | some v => v.length | none => 0 : Nat) : Int)) 0

def undoVerdict (what : String) (before cur after : View) : String :=
  let exp := expectedAfterUndo before cur
  match before.items.find? (fun b => b.value.isSome && !(cur.items.any (fun c => c.key = b.key))) with
  | some b => s!"FAIL {what} lost-key {showVal b.key}"
  | none =>
    if exp ≠ after.items then
      let bad := (exp.zip after.items).find? (fun p => p.1 ≠ p.2)
      match bad with
      | some (e, g) => s!"FAIL {what} want {showItem true e} got {showItem true g}"
      | none => s!"FAIL {what} keys want {exp.length} got {after.items.length}"
    else if after.len ≠ exp.length then s!"FAIL {what} len want {exp.length} got {after.len}"
    else if after.size ≠ itemsSize exp then s!"FAIL {what} size want {itemsSize exp} got {after.size}"
    else "ok"

def snapVerdict (d : DS) : String :=
  let base := if d.m.stages.isEmpty then valuesOf d.m else d.snapBase
  let keys := (d.m.nodes.map (·.key))
  let badGet := keys.find? fun k =>
    let want := (base.find? (fun i => i.key = k)).bind (·.value)
    let got := match (d.m.step (.snapGet k)).2 with | .val v => some v | _ => none
    want ≠ got
  match badGet with
  | some k => s!"FAIL snapshot-get {showVal k}"
  | none =>
    let it := match (d.m.step (.snapIter [] [] false)).2 with | .items l => l | _ => []
    if it.map (fun i => (i.key, i.value)) ≠ base.map (fun i => (i.key, i.value)) then "FAIL snapshot-iter" else "ok"

def parseOps (l : List String) : Option (List Nat) := l.mapM (·.toNat?)

def parsePred : List String → Option Pred
  | ["any"] => some .any
  | ["never"] => some .never
  | ["len", n] => n.toNat?.map .lenEq
  | ["ne", v] => (parseBytesTok v).map .ne
  | _ => none

def parseLimit (s : String) : Option Nat := if s == "max" then some Gen.MemLimits.unlimitedSize else s.toNat?

def bound (s : String) : Option Bytes := parseBytesTok s

/-- parse a plain API op (everything that maps to one `Op`) ; second component: print flags in item lists -/
def parseOp : List String → Option (Op × Bool)
  | "set" :: k :: v :: ops => do pure (.set (← parseBytesTok k) (← parseBytesTok v) (← parseOps ops), false)
  | "del" :: k :: ops => do pure (.del (← parseBytesTok k) (← parseOps ops), false)
  | "upd" :: k :: ops => do pure (.upd (← parseBytesTok k) (← parseOps ops), false)
  | ["get", k] => do pure (.get (← parseBytesTok k), false)
  | ["getf", k] => do pure (.getFlags (← parseBytesTok k), false)
  | ["iter", lo, hi] => do pure (.iter (← bound lo) (← bound hi) false false, true)
  | ["riter", hi, lo] => do pure (.iter (← bound lo) (← bound hi) true false, true)
  | ["iterf", lo, hi] => do pure (.iter (← bound lo) (← bound hi) false true, true)
  | ["riterf", hi] => do pure (.iter [] (← bound hi) true true, true)
  | ["sget", k] => do pure (.snapGet (← parseBytesTok k), false)
  | ["gsget", k] => do pure (.snapGet (← parseBytesTok k), false)
  | ["siter", lo, hi] => do pure (.snapIter (← bound lo) (← bound hi) false, false)
  | ["sriter", hi, lo] => do pure (.snapIter (← bound lo) (← bound hi) true, false)
  | ["gsiter", lo, hi, r] => do pure (.snapIter (← bound lo) (← bound hi) (r == "1"), false)
  | ["gsrange", lo, hi, r] => do pure (.snapIter (← bound lo) (← bound hi) (r == "1"), false)
  | ["len"] => some (.len, false)
  | ["size"] => some (.size, false)
  | ["dirty"] => some (.dirty, false)
  | ["staging"] => some (.staging, false)
  | ["release", h] => do pure (.release (← h.toNat?), false)
  | ["cleanup", h] => do pure (.cleanup (← h.toNat?), false)
  | ["inspect", h] => do pure (.inspect (← h.toNat?), true)
  | "hist" :: k :: p => do pure (.hist (← parseBytesTok k) (← parsePred p), false)
  | _ => none

/-- bookkeeping after a state change: checkpoints beyond the log end are dead -/
def pruneCps (d : DS) : DS :=
  { d with cps := d.cps.map fun (c, ok) => (c, ok && c ≤ d.m.checkpoint) }

/-- run one plain op, with the recorded-view bookkeeping and the property verdicts of cleanup -/
def runPlain (d : DS) (op : Op) (wf : Bool) : DS × String :=
  let q' := VLog.seqStep d.q d.m op
  let before : Unit → View := fun _ => viewOf d.m
  let (m', out) := d.m.step op
  -- a write that passes the key / entry checks goes through traverse(key, insert = true): the key gets its leaf
  let tree' := match op with
    | .set k _ _ | .del k _ | .upd k _ => if q'.write ≠ d.q.write then ArtTree.insert d.tree k else d.tree
    | _ => d.tree
  let d' := { d with m := m', q := q', tree := tree' }
  match op with
  | .staging =>
    let d' := { d' with stageViews := d.stageViews ++ [before ()] }
    let d' := if d.m.stages.isEmpty then { d' with snapBase := valuesOf d.m } else d'
    (d', showOut wf out)
  | .release h =>
    if out == .ok && h ≠ 0 then ({ d' with stageViews := d.stageViews.dropLast }, "ok") else (d', showOut wf out)
  | .cleanup h =>
    if out == .ok && h ≠ 0 && h == d.m.stages.length then
      let verdict := match d.stageViews.getLast? with
        | some sv => undoVerdict "cleanup" sv (before ()) (viewOf m')
        | none => "FAIL no-recorded-view"
      (pruneCps { d' with stageViews := d.stageViews.dropLast }, verdict)
    else (d', showOut wf out)
  | _ => (d', showOut wf out)

partial def stepWords (d : DS) (w : List String) : DS × String :=
  match w with
  | ["reset"] => ({}, "ok")
  | ["reset", e, b] =>
    match parseLimit e, parseLimit b with
    | some e, some b => ({ m := (VLog.init.step (.setLimits e b)).1 }, "ok")
    | _, _ => (d, "bad-op")
  | ["checkpoint"] =>
    ({ d with m := (d.m.step .checkpoint).1, cps := d.cps ++ [(d.m.checkpoint, true)], cpViews := d.cpViews ++ [viewOf d.m] },
      s!"cp {d.cps.length}")
  | ["revert", i] =>
    match i.toNat? with
    | none => (d, "bad-op")
    | some i =>
      match d.cps[i]?, d.cpViews[i]? with
      | some (cp, true), some cv =>
        let q' := VLog.seqStep d.q d.m (.revert cp)
        let before := viewOf d.m
        let (m', out) := d.m.step (.revert cp)
        if out == .ok then
          (pruneCps { d with m := m', q := q' }, undoVerdict "revert" cv before (viewOf m'))
        else (d, "bad-cp")
      | _, _ => (d, "bad-cp")
  | ["rbtchk"] => (d, "ok")
  | ["rbtkeys"] =>
    -- the red-black tree holds one node per key ever written, in key order: the same key set as the radix tree
    let l := ArtTree.keys d.tree
    (d, l.foldl (fun acc k => acc ++ " " ++ showVal k) s!"{l.length}:")
  | ["tdump"] => (d, ArtTree.dumpT d.tree)
  | ["tsearch", k] =>
    match parseBytesTok k with
    | some k => (d, if (ArtTree.search d.tree k).isSome then "found" else "none")
    | none => (d, "bad-op")
  | ["tkeys", r] =>
    let l := if r == "1" then (ArtTree.keys d.tree).reverse else ArtTree.keys d.tree
    (d, l.foldl (fun acc k => acc ++ " " ++ showVal k) s!"{l.length}:")
  | ["nreset"] => ({ d with node := ArtNode.Node.empty }, "ok")
  | ["nadd", c, id] =>
    match parseBytesTok c, id.toNat? with
    | some [b], some i =>
      if (d.node.findChild b).isSome then (d, "dup")
      else
        let n' := d.node.addChild b i
        ({ d with node := n' }, s!"kind={n'.kind} num={n'.num % 256}")
    | _, _ => (d, "bad-op")
  | ["nfind", c] =>
    match parseBytesTok c with
    | some [b] => (d, match d.node.findChild b with | some i => toString i | none => "none")
    | _ => (d, "bad-op")
  | ["nrepl", c, id] =>
    match parseBytesTok c, id.toNat? with
    | some [b], some i =>
      (match d.node.replaceChild b i with
       | some n' => ({ d with node := n' }, "ok")
       | none => (d, "refused"))
    | _, _ => (d, "bad-op")
  | ["nlist"] =>
    let l := d.node.children
    (d, l.foldl (fun acc p => acc ++ " " ++ toString p.2) s!"{l.length}:")
  | ["nrlist"] =>
    let l := d.node.children.reverse
    (d, l.foldl (fun acc p => acc ++ " " ++ toString p.2) s!"{l.length}:")
  | ["gsiter", lo, hi, r] =>
    -- GetSnapshot().BatchedSnapshotIter: the model runs the batches (resume keys, doubling batch sizes) itself
    match bound lo, bound hi with
    | some lo, some hi =>
      let l := if r == "1" then d.m.batchedRev lo hi (batchSizes 64 32) else d.m.batchedFwd lo hi (batchSizes 64 32)
      (d, showItems false l)
    | _, _ => (d, "bad-op")
  | ["gschk", _lo, _hi, _r] => (d, "ok")
  | ["view"] =>
    let v := viewOf d.m
    (d, s!"{showItems true v.items} len={v.len} size={v.size} dirty={d.m.dirty} stages={d.m.stages.length}")
  | ["snapchk"] => (d, snapVerdict d)
  | "iterw" :: _rev :: rest =>
    -- ART: an iterator created before `rest` is used after it
    let seq0 := d.q.write
    let (d', o) := stepWords d rest
    (d', s!"{o} | " ++ (if d'.q.write ≠ seq0 then "caught panic:iter-invalidated" else "valid"))
  | "gsstale" :: k :: rest =>
    match parseBytesTok k with
    | none => (d, "bad-op")
    | some k =>
      let seq0 := d.q.snap
      let (d', o) := stepWords d rest
      let g := if d'.q.snap ≠ seq0 then "err:stale-snapshot" else showOut false (d'.m.step (.snapGet k)).2
      (d', s!"{o} | {g}")
  | _ =>
    match parseOp w with
    | some (op, wf) => runPlain d op wf
    | none => (d, "bad-op")

def step (d : DS) (line : String) : DS × String := stepWords d (words line)

def main : IO Unit := runDriver ({} : DS) step
