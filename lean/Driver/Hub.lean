import ClientGoVerif.Model.MvccRpc
open CGV CGV.Mvcc CGV.MvccProto CGV.MvccRpc

structure JState where
  store : Store := {}

/-- split the tokens of an rpc/lost event at "=>" -/
def splitArrow (w : List String) : List String × List String :=
  (w.takeWhile (· != "=>"), (w.dropWhile (· != "=>")).drop 1)

def step (j : JState) (line : String) : JState × String :=
  match words line with
  | ["reset"] => ({}, "ok")
  | kind :: _id :: _client :: rs :: re :: rest =>
    if kind == "rpc" || kind == "lost" then
      let (cmd, ans) := splitArrow rest
      match hx rs, hx re with
      | some rs, some re =>
        match rpcExec j.store rs re cmd with
        | none => (j, "MISMATCH malformed-event")
        | some (s', modelAns) =>
          let rec_ := " ".intercalate ans
          if answersAgree (cmd.headD "") modelAns rec_ then ({ j with store := s' }, "ok")
          else ({ j with store := s' }, s!"MISMATCH store-answer model: {modelAns}")
      | _, _ => (j, "MISMATCH malformed-event")
    else (j, "ok")
  | _ => (j, "ok")

def main : IO Unit := runDriver ({} : JState) step
