/-
  cgv-hub — the judge of HUB.md: reads one trace event per line, answers `ok`, `MISMATCH …` or `FAIL …`.
    1. store replay: every executed RPC runs on the Lean MVCC model (MvccRpc.rpcExec); answers must agree
    2. C04 monitor (Model/Percolator.lean) on the protocol-relevant projection of the events
    3. history oracles at `quiesce` / `audit …` / snapshot API calls (C01, C02, C03, C05, C06)
-/
import ClientGoVerif.Model.MvccFull
import ClientGoVerif.Model.Percolator
open CGV CGV.Mvcc CGV.MvccProto CGV.MvccRpc CGV.MvccFull CGV.Perc

/-- one read of the API-level history -/
structure ReadRec where
  startTS : Nat
  key : Bytes
  value : Option Bytes
  deriving Repr

structure Pending where
  client : String
  callNo : String
  call : String
  args : List String
  ackAtBegin : Nat := 0          -- largest commit ts acknowledged to any client when this call was entered
  deriving Repr

structure JState where
  store : Store := {}
  full : Option FStore := none                -- profile `full`: the store the client ran against is the Lean model itself
  mon : MState := {}
  curTxn : List (String × Nat) := []          -- client ↦ start ts of its open transaction
  pending : List Pending := []
  reads : List ReadRec := []
  ownWrites : List (Nat × Bytes) := []        -- (startTS, key) the transaction has written/deleted/locked-with-value so far
  acked : List (Nat × Nat) := []              -- (startTS, commitTS) of commits acknowledged to the client, newest first
  maxAckedCommit : Nat := 0
  told : List (Nat × String) := []            -- startTS ↦ what Commit answered: ok <c> | undetermined | err <class>
  inserted : List (Nat × Bytes) := []         -- (startTS, key) written as insert
  pessLocked : List (Nat × Bytes) := []       -- (startTS, key) locked by LockKeys (pessimistic)
  commitPointLost : List Nat := []            -- start ts of txns with a commit-point RPC whose outcome the client could not learn
  lossy : List Nat := []                      -- start ts of txns with any dropped / lost request (C06 is conditional on none)
  secondaryStatus : List Nat := []            -- start ts of txns for which a CheckTxnStatus was EXECUTED on a key whose lock names another primary (see statusOnSecondary)
  crashed : List String := []                 -- crashed clients
  inGC : List String := []                    -- clients inside a `gc` API call (their status checks are GC's batch resolution)
  deriving Repr

def splitArrow (w : List String) : List String × List String :=
  (w.takeWhile (· != "=>"), (w.dropWhile (· != "=>")).drop 1)

def curOf (j : JState) (client : String) : Nat :=
  match j.curTxn.find? (·.1 == client) with | some (_, t) => t | none => 0

/-- every `locked(key,primary,startTS,forUpdateTS,ttl,txnSize,type)` inside an answer -/
def lockedIn (ans : String) : List (Nat × Nat) :=
  (ans.splitOn "locked(").drop 1 |>.filterMap fun part =>
    match ((part.splitOn ")").headD "").splitOn "," with
    | [_, _, st, _, ttl, _, _] => do pure ((← st.toNat?), (← ttl.toNat?))
    | _ => none

def parseMutTriples (s : String) : List (Bytes × Op × Bytes) :=
  match parseMuts s with
  | some ms => ms.map fun (m, _) => (m.key, m.op, m.value)
  | none => []

def fateOf (kind cls : String) : Fate :=
  if kind == "rpc" then .answered
  else if kind == "lost" then .lostResp
  else if cls.startsWith "regionerr" then .notExecuted
  else .unknownNotExec

/-- protocol events of one RPC-ish trace event -/
def evsOfRpc (kind client cls : String) (cmd ans : List String) : List Ev :=
  let fate := fateOf kind cls
  let answer := " ".intercalate ans
  let answered := fate == .answered
  let locks : List Ev := if answered then (lockedIn answer).map fun (st, ttl) => Ev.lockSeen client st ttl else []
  let main : List Ev :=
    match (if cmd.length == 14 && cmd.headD "" == "prewrite" then cmd.take 13 else if cmd.length == 8 && cmd.headD "" == "status" then cmd.take 7 else cmd) with
    | ["prewrite", p, st, _fu, _ttl, mc, _sz, _ao, _rs, ms, asyncT, onepcT, secT] =>
      match hx p, st.toNat?, mc.toNat? with
      | some p, some st, some mc =>
        let ok := answered && (ans.headD "") == "errs=-"
        let minResp := ((ans.getD 1 "").splitOn "=").getD 1 "0" |>.toNat? |>.getD 0
        let acts : List (Bytes × Nat) := match parseMuts ms with
          | some l => l.map fun (mu, a) => (mu.key, match a with | .doCheck => 1 | .doNotCheck => 2 | .skip => 0)
          | none => []
        [Ev.prewrite client fate st p (parseMutTriples ms) mc ok minResp (onepcT == "onepc=1") (asyncT == "async=1")
          ((tokVal "secondaries=" secT >>= parseHexList).getD []), Ev.prewriteActs client st acts]
      | _, _, _ => []
    | ["commit", ks, st, ct] =>
      match parseHexList ks, st.toNat?, ct.toNat? with
      | some ks, some st, some ct =>
        [Ev.commit client fate st ct ks (ans.headD "" == "ok") (ans.headD "" == "err")]
      | _, _, _ => []
    | ["rollback", ks, st] =>
      match parseHexList ks, st.toNat? with
      | some ks, some st => [Ev.rollback client fate st ks]
      | _, _ => []
    | ["status", p, lt, cs, cur, rb, _rp] =>
      match hx p, lt.toNat?, cs.toNat?, cur.toNat? with
      | some p, some lt, some cs, some cur =>
        let isErr := ans.headD "" != "ok"
        let ttl := ((ans.getD 1 "").splitOn "=").getD 1 "0" |>.toNat? |>.getD 0
        let cts := ((ans.getD 2 "").splitOn "=").getD 1 "0" |>.toNat? |>.getD 0
        let act := ((ans.getD 3 "").splitOn "=").getD 1 "0" |>.toNat? |>.getD 0
        -- an async primary reports its min_commit_ts (token `mincommit=` after `async=1`)
        let asyncMC : List Ev :=
          if answered && ans.contains "async=1" then
            match (ans.find? (·.startsWith "mincommit=")).bind (fun t => (t.drop 10).toString.toNat?) with
            | some mcv => [Ev.secAnswer client lt [mcv] false 0]
            | none => []
          else []
        [Ev.status client fate p lt cs cur (rb == "1") answered ttl cts isErr act] ++ asyncMC
      | _, _, _, _ => []
    | ["plock", p, st, _fu, _ttl, _mc, _flags, ms] =>
      match hx p, st.toNat? with
      | some p, some st =>
        [Ev.plock client fate st p ((parseMutTriples ms).map (·.1)) (answered && (ans.headD "") == "errs=-")]
      | _, _ => []
    | ["checksecondary", _ks, st] =>
      match st.toNat? with
      | some st =>
        [Ev.secCheck client st] ++
        if answered && ans.headD "" == "ok" then
          let locksTok := (ans.find? (·.startsWith "locks=")).map (fun t => (t.drop 6).toString) |>.getD "-"
          let cts := (ans.find? (·.startsWith "commit=")).bind (fun t => (t.drop 7).toString.toNat?) |>.getD 0
          let mcs := (splitList locksTok).filterMap fun l => ((l.splitOn ":").getD 1 "").toNat?
          [Ev.secAnswer client st mcs (locksTok == "-") cts]
        else []
      | none => []
    | ["resolve", _, _, st, ct, infos, _keys] =>
      match st.toNat?, ct.toNat?, (tokVal "infos=" infos >>= parsePairs) with
      | some st, some ct, some infos => [Ev.resolve client fate st ct infos]
      | _, _, _ => []
    | ["heartbeat", p, st, adv] =>
      match hx p, st.toNat?, adv.toNat? with
      | some p, some st, some adv => [Ev.heartbeat client fate p st adv]
      | _, _, _ => []
    | _ => []
  main ++ locks

/-- start ts carried by a command (for bookkeeping of lost requests) -/
def startTSOf (cmd : List String) : Option Nat :=
  match cmd with
  | "prewrite" :: _ :: st :: _ => st.toNat?
  | "plock" :: _ :: st :: _ => st.toNat?
  | ["commit", _, st, _] => st.toNat?
  | ["rollback", _, st] => st.toNat?
  | "prollback" :: _ :: _ :: _ :: st :: _ => st.toNat?
  | "heartbeat" :: _ :: st :: _ => st.toNat?
  | _ => none

/-- the transaction whose commit point this request can move: a commit, or a prewrite under async commit / 1PC -/
def commitPointOf (cmd : List String) : List Nat :=
  match cmd with
  | ["commit", _, st, _] => st.toNat?.toList
  | "prewrite" :: _ :: st :: rest => if rest.contains "async=1" || rest.contains "onepc=1" then st.toNat?.toList else []
  | _ => []

/-- run the monitor over the events of one trace line; after a rejected event the state still advances
    (`applyEv`), so that one violation is reported once and does not cascade -/
def runMon (m : MState) (evs : List Ev) : MState × Option String :=
  evs.foldl (fun (acc : MState × Option String) ev =>
    match Monitor.step acc.1 ev with
    | .ok m' => (m', acc.2)
    | .error e => (applyEv acc.1 ev, acc.2.orElse fun _ => some e)) (m, none)

/-- pairs `k=v,k=v` of an API result -/
def parseKVs (s : String) : List (Bytes × Bytes) :=
  (splitList s).filterMap fun p => match p.splitOn "=" with
    | [k, v] => do pure ((← hx k), (← hx v))
    | _ => none

def optVal (s : String) : Option Bytes := if s == "~" then none else hx s

/-! ### oracles -/

/-- C01: every snapshot read of a transaction equals the newest commit at or below its start ts in the final store
    (reads of keys the transaction wrote itself before are excluded when they were recorded) -/
def siReads (j : JState) : Option String :=
  j.reads.findSome? fun r =>
    let exp := visible j.store r.key r.startTS
    let exp' := match exp with | some v => if v.isEmpty then none else some v | none => none
    if exp' == r.value then none
    else some s!"C01 read of {hexOrTilde r.key} by txn {r.startTS} returned {optBytes r.value} but the newest commit at or below its start ts is {optBytes exp'}"

/-- C01: committed writers of one key have disjoint [start, commit] intervals (a pessimistic transaction that locked
    the key is exempt: its interval for that key starts at the for-update ts of its lock) -/
def wwCheck (j : JState) : Option String :=
  j.store.kv.findSome? fun (k, e) =>
    let ds := e.writes.filter fun w => w.vt == .put || w.vt == .delete
    ds.findSome? fun w1 => ds.findSome? fun w2 =>
      if w1.startTS < w2.startTS && w2.startTS < w1.commitTS && !j.pessLocked.contains (w2.startTS, k)
          && !j.pessLocked.contains (w1.startTS, k) then
        some s!"C01 key {hexOrTilde k}: committed writers {w1.startTS}..{w1.commitTS} and {w2.startTS}..{w2.commitTS} overlap"
      else none

/-- C01: an insert commits only if the key has no value at the commit point -/
def insertCheck (j : JState) : Option String :=
  j.inserted.findSome? fun (st, k) =>
    match outcomeOf j.store st with
    | .committed c =>
      let older := (getEntry j.store.kv k).writes.filter fun w => w.startTS != st && w.commitTS < c && (w.vt == .put || w.vt == .delete)
      match older.head? with
      | some w => if w.vt == .put then some s!"C01 insert of {hexOrTilde k} by {st} committed at {c} over an existing value" else none
      | none => none
    | _ => none

/-- Store-model gap (both mocktikv and the Lean store): TiKV answers a CheckTxnStatus with `verify_is_primary` (client-go
    always sets it) by `PrimaryMismatch` when the key named as primary carries a lock of the transaction whose primary is
    ANOTHER key (a resolver holding stale lock info from before a pessimistic transaction changed its primary), and the
    client then re-reads the lock.  The store models execute the request as if the key were the primary and may roll the
    lock back although the real primary is committed.  The start ts of such a transaction is remembered; the atomicity and
    answer oracles do not judge it (what they would report is the models' artefact, not the client's doing). -/
def statusOnSecondary (s : Store) (cmd : List String) : Option Nat :=
  match cmd with
  | "status" :: p :: lt :: _ =>
    match hx p, lt.toNat? with
    | some p, some lt =>
      match (getEntry s.kv p).lock with
      | some l => if l.startTS == lt && l.primary != p then some lt else none
      | none => none
    | _, _ => none
  | _ => none

/-- C02: records of every transaction are all-or-nothing with one commit ts -/
def atomicAll (j : JState) : Option String :=
  let starts := ((j.store.kv.flatMap fun (_, e) => e.writes.map (·.startTS)).eraseDups).filter (!j.secondaryStatus.contains ·)
  starts.findSome? fun st =>
    match outcomeOf j.store st with
    | .mixed why => if why.endsWith "lock left" then none else some s!"C02 transaction {st}: {why}"
    | _ => none

def locksOf (s : Store) (T : Nat) : List Lock :=
  s.kv.filterMap fun p => match p.2.lock with | some l => if l.startTS == T then some l else none | none => none

/-- an async-commit transaction acknowledged at `N` whose background commit never ran (the client died): it IS
    committed at `N` when it has no rollback record, every record it has is a data record at `N`, every lock it still
    holds is an async-commit prewrite lock with min_commit_ts ≤ N, and — when nothing is committed yet — the commit ts
    recovery would compute (the largest min_commit_ts) is `N` -/
def asyncCommittedAt (s : Store) (T N : Nat) : Bool :=
  let recs := recsOf s T
  let locks := locksOf s T
  recs.all (fun w => w.vt != .rollback && w.commitTS == N) &&
    locks.all (fun l => l.op != .pessimisticLock && l.minCommitTS > 0 && l.minCommitTS ≤ N) &&
    !(recs.isEmpty && locks.isEmpty) &&
    (!recs.isEmpty || locks.any (fun l => l.minCommitTS == N))

/-- C03: what Commit told the client against the MVCC truth -/
def toldCheck (j : JState) : Option String :=
  (j.told.filter (!j.secondaryStatus.contains ·.1)).findSome? fun (st, what) =>
    let o := outcomeOf j.store st
    let committedAt : Option Nat := committedAtOf j.store st
    match what.splitOn " " with
    | ["ok", "0"] =>
      -- Commit of a transaction without mutations: nothing to commit, and nothing of it may be in the store
      -- (pessimistic locks left behind by a client that died before its pessimistic rollback went out are nothing committed)
      let onlyPessLocks := o == .pending && (locksOf j.store st).all (·.op == .pessimisticLock)
      if o == .none || onlyPessLocks then none
      else some s!"C03 Commit of {st} answered success without a commit ts but the store shows {repr o}"
    | ["ok", c] =>
      -- a transaction whose every mutation is a non-locking existence check (optimistic insert-then-delete) commits
      -- without leaving anything in the store
      let onlyChecks := match j.mon.find st with
        | some t => !t.prewritten.isEmpty && t.prewritten.all (fun x => x.2.1 == .checkNotExists)
        | none => false
      let asyncTxn := match j.mon.find st with
        | some t => t.asyncAcks > 0 && t.plainAcks == 0
        | none => false
      if onlyChecks && o == .none then none
      else if committedAt == c.toNat? && committedAt.isSome then none
      -- profile full: a retried prewrite that finds the transaction already committed (its one-phase / async answer was
      -- lost) is answered success; the client then goes through an ordinary commit with a fresh commit ts, which the
      -- store acknowledges idempotently.  The transaction IS committed (at the earlier ts): C03 asks no more of `nil`.
      else if j.full.isSome && committedAt.isSome && (match o with | .committed _ => true | _ => false) then none
      else if asyncTxn && (match c.toNat? with | some n => asyncCommittedAt j.store st n | none => false) then none
      else some s!"C03 Commit of {st} answered success at {c} but the store shows {repr o}"
    | ["undetermined"] =>
      if j.commitPointLost.contains st then none
      else some s!"C03 Commit of {st} answered undetermined although no commit-point request lost its outcome"
    | "err" :: _ =>
      if committedAt.isSome then some s!"C03 Commit of {st} answered a definite error but the transaction is committed" else none
    | _ => none

def showKVs (l : List (Bytes × Bytes)) : String := showList (l.map fun (k, v) => s!"{hexOrTilde k}={hexOrTilde v}")

def firstSome (l : List (Option String)) : Option String := l.findSome? id

/-- ascending insert / replace / erase in a key-sorted pair list -/
def kvPut (l : List (Bytes × Bytes)) (k v : Bytes) : List (Bytes × Bytes) :=
  match l with
  | [] => [(k, v)]
  | (k', v') :: rest =>
    if k == k' then (k, v) :: rest
    else if Bytes.lt k k' then (k, v) :: (k', v') :: rest
    else (k', v') :: kvPut rest k v

/-- C01/C07 (a transaction's own scan): `iter` / `riter` of a transaction returns its snapshot at the start ts overlaid with
    the writes and deletes the trace shows for it so far (its buffer), in key order, cut at the limit -/
def ownIterCheck (j : JState) (client call : String) (st : Nat) (args tail : List String) : Option String :=
  match args, tail with
  | [lo, hi, lim], ["ok", res] =>
    match hx lo, hx hi, lim.toNat? with
    | some lo, some hi, some lim =>
      let buf := match j.mon.find st with | some t => t.buffer | none => []
      let base := (snapRange j.store lo hi st).filter (!·.2.isEmpty)
      let merged := buf.foldl (fun acc b =>
        if !b.hasValue || !inRange lo hi b.key then acc
        else if b.value.isEmpty then acc.filter (·.1 != b.key)
        else kvPut acc b.key b.value) base
      let dir := if call == "riter" then merged.reverse else merged
      let exp := if lim == 0 then dir else dir.take lim
      let got := parseKVs res
      if got == exp then none
      else some s!"C01 {call} [{hexOrTilde lo},{hexOrTilde hi}) limit {lim} of transaction {st} ({client}) returned {showKVs got} but its snapshot with its own writes shows {showKVs exp}"
    | _, _, _ => none
  | _, _ => none

/-- C01 (locking read): a `lock` call that names its for-update ts (`fu=<sel>:<ts>`, HUB.md) and returns values or
    existence returns the newest committed value at that ts — at the conflict ts for a key locked with conflict.
    A key the transaction had locked before (`k=?`) returns nothing and is not judged. -/
def lockReadCheck (st : Store) (args tail : List String) : Option String :=
  match args.find? (·.startsWith "fu="), tail with
  | some fuTok, ["ok", res] =>
    match ((fuTok.splitOn ":").getD 1 "").toNat? with
    | some fu =>
      (splitList res).findSome? fun p =>
        match p.splitOn "=" with
        | [k, v] =>
          let (v0, cts) := match v.splitOn "!" with
            | [a, c] => (a, c.toNat?.getD 0)
            | _ => (v, 0)
          let ts := max fu cts
          match hx k with
          | some kb =>
            let vis := (visible st kb ts).filter (!·.isEmpty)
            let bad := if v0 == "?" then false
              else if v0 == "+" then vis.isNone
              else if v0 == "-" then vis.isSome
              else optVal v0 != vis
            if bad then some s!"C01 locking read of {k} at for-update ts {ts} returned {v0} but the newest committed value is {optBytes vis}"
            else none
          | none => none
        | _ => none
    | none => none
  | _, _ => none


/-- C05: a snapshot read through any access path (`snapget` / `snapbget` / `snapiter` / `snapriter`, HUB.md) returns what
    the model store shows at the timestamp the call carries (the snapshot's timestamp in force); `some msg` = it does not.
    Calls that ended with an error other than `notfound` are not judged. -/
def snapCheck (st : Store) (call : String) (args tail : List String) : Option String :=
  let vis (k : Bytes) (ts : Nat) : Option Bytes := (visibleL st k ts).filter (!·.isEmpty)
  let opts := (args.getLast?.getD "").splitOn ","
  let keyOnly := opts.contains "ko=1"
  match call, args with
  | "snapget", [ts, k, _] =>
    match ts.toNat?, hx k with
    | some ts, some k =>
      let got : Option (Option Bytes) :=
        if tail == ["err", "notfound"] then some none
        else if tail.headD "" == "ok" then some ((optVal (tail.getD 1 "~")).filter (!·.isEmpty)) else none
      match got with
      | some g => if g == vis k ts then none
          else some s!"C05 snapget of {hexOrTilde k} at {ts} returned {optBytes g} but the snapshot shows {optBytes (vis k ts)}"
      | none => none
    | _, _ => none
  | "snapbget", [ts, ks, _] =>
    match ts.toNat?, parseHexList ks with
    | some ts, some ks =>
      if tail.headD "" != "ok" then none
      else
        let got := parseKVs (tail.getD 1 "-")
        let exp := ks.eraseDups.filterMap fun k => (vis k ts).map fun v => (k, v)
        if got.all (fun p => exp.contains p) && exp.all (fun p => got.contains p) then none
        else some s!"C05 snapbget at {ts} returned {showKVs got} but the snapshot shows {showKVs exp}"
    | _, _ => none
  | c, [ts, lo, hi, lim, _] =>
    if c != "snapiter" && c != "snapriter" then none
    else match ts.toNat?, hx lo, hx hi, lim.toNat? with
    | some ts, some lo, some hi, some lim =>
      if tail.headD "" != "ok" then none
      else
        let got := parseKVs (tail.getD 1 "-")
        let all := (snapRangeL st lo hi ts).filter (!·.2.isEmpty)
        let dir := if c == "snapriter" then all.reverse else all
        let exp := if lim == 0 then dir else dir.take lim
        -- key only: the store may omit the values (the stores of both profiles do not)
        let same := if keyOnly then got.map (·.1) == exp.map (·.1) && got.all (fun p => p.2.isEmpty || exp.contains p) else got == exp
        if same then none
        else some s!"C05 {c} [{hexOrTilde lo},{hexOrTilde hi}) limit {lim} at {ts} returned {showKVs got} but the snapshot shows {showKVs exp}"
    | _, _, _, _ => none
  | _, _ => none

def step (j : JState) (line : String) : JState × String :=
  match words line with
  | ["reset"] => ({}, "ok")
  | ["reset", "mock"] => ({}, "ok")
  | ["reset", "full"] => ({ full := some {} }, "ok")
  | ["tso", client, ts] =>
    match ts.toNat? with
    | some ts =>
      match runMon j.mon [.tso client ts] with
      | (m, none) => ({ j with mon := m }, "ok")
      | (m, some e) => ({ j with mon := m }, s!"FAIL C04 {e}")
    | none => (j, "MISMATCH malformed-event")
  | "norpc" :: _id :: client :: cls :: cmd =>
    let evs := evsOfRpc "norpc" (if j.inGC.contains client then "gc:" ++ client else client) cls cmd []
    let definite := cls.startsWith "regionerr"
    -- commit-point requests whose outcome the client cannot learn: the primary commit, and under async commit / 1PC
    -- every prewrite (C03)
    let lostCommit : List Nat := if definite then [] else commitPointOf cmd
    let lossy : List Nat := if definite then [] else (startTSOf cmd).toList
    match runMon j.mon evs with
    | (m, none) => ({ j with mon := m, commitPointLost := j.commitPointLost ++ lostCommit, lossy := j.lossy ++ lossy }, "ok")
    | (m, some e) => ({ j with mon := m }, s!"FAIL C04 {e}")
  | kind :: _id :: client :: rs :: re :: rest =>
    if kind == "rpc" || kind == "lost" then
      let (cmd, ans) := splitArrow rest
      match hx rs, hx re with
      | some rs, some re =>
        let stepped : Option (Store × Option FStore × String) :=
          match j.full with
          | some f => (frpcExec f rs re cmd).map fun (f', a) => (f'.base, some f', a)
          | none => (rpcExec j.store rs re cmd).map fun (s', a) => (s', none, a)
        match stepped with
        | none => (j, "MISMATCH malformed-event")
        | some (s', f', modelAns) =>
          let rec_ := " ".intercalate ans
          let j1 := { j with store := s', full := f', secondaryStatus := j.secondaryStatus ++ (statusOnSecondary j.store cmd).toList }
          let lostCommit : List Nat := if kind == "lost" then commitPointOf cmd else []
          let lossy : List Nat := if kind == "lost" then (startTSOf cmd).toList else []
          let j1 := { j1 with commitPointLost := j1.commitPointLost ++ lostCommit, lossy := j1.lossy ++ lossy }
          if !answersAgree (cmd.headD "") modelAns rec_ then (j1, s!"MISMATCH store-answer model: {modelAns}")
          else
            match runMon j1.mon (evsOfRpc kind (if j1.inGC.contains client then "gc:" ++ client else client) "" cmd ans) with
            | (m, none) => ({ j1 with mon := m }, "ok")
            | (m, some e) => ({ j1 with mon := m }, s!"FAIL C04 {e}")
      | _, _ => (j, "MISMATCH malformed-event")
    else if kind == "api" then
      -- api <client> <call#> begin <call> <args…> | api <client> <call#> end <result…>
      let client := _id
      let callNo := client ++ "#" ++ (words line).getD 2 ""
      let client' := (words line).getD 1 ""
      let phase := (words line).getD 3 ""
      let tail := (words line).drop 4
      if phase == "begin" then
        let p : Pending := { client := client', callNo := callNo, call := tail.headD "", args := tail.drop 1, ackAtBegin := j.maxAckedCommit }
        let j1 := { j with pending := p :: j.pending.filter (·.callNo != callNo),
                           inGC := if p.call == "gc" then client' :: j.inGC else j.inGC }
        if p.call == "commit" then
          match runMon j1.mon [.commitCalled client' (curOf j1 client')] with
          | (m, none) => ({ j1 with mon := m }, "ok")
          | (m, some e) => ({ j1 with mon := m }, s!"FAIL C04 {e}")
        else (j1, "ok")
      else
        match j.pending.find? (·.callNo == callNo) with
        | none => (j, "MISMATCH api end without begin")
        | some p =>
          let j1 := { j with pending := j.pending.filter (·.callNo != callNo),
                             inGC := if p.call == "gc" then j.inGC.filter (· != p.client) else j.inGC }
          let st := curOf j1 p.client
          let okRes := tail.headD "" == "ok"
          let monEv (j : JState) (evs : List Ev) (extra : Option String) : JState × String :=
            match runMon j.mon evs with
            | (m, none) => ({ j with mon := m }, match extra with | some f => s!"FAIL {f}" | none => "ok")
            | (m, some e) => ({ j with mon := m }, s!"FAIL C04 {e}")
          match p.call, p.args with
          | "begin", pess :: _ =>
            match (tail.headD "").toNat? with
            | some ts =>
              -- C01 external consistency: a commit acknowledged before this begin is visible to it
              -- (judged against the acknowledgements that preceded the ENTRY of Begin, not its return)
              let ext := if ts < p.ackAtBegin then
                  some s!"C01 begin at {ts} after a commit at {p.ackAtBegin} was acknowledged" else none
              monEv { j1 with curTxn := (p.client, ts) :: j1.curTxn.filter (·.1 != p.client) } [.begin_ p.client ts (pess == "1")] ext
            | none => (j1, "ok")
          | "get", [k] =>
            match hx k with
            | some k =>
              if okRes && !j1.ownWrites.contains (st, k) then
                ({ j1 with reads := { startTS := st, key := k, value := optVal (tail.getD 1 "~") } :: j1.reads }, "ok")
              else if tail == ["err", "notfound"] && !j1.ownWrites.contains (st, k) then
                ({ j1 with reads := { startTS := st, key := k, value := none } :: j1.reads }, "ok")
              else (j1, "ok")
            | none => (j1, "ok")
          | "bget", [ks] =>
            match parseHexList ks with
            | some ks =>
              if okRes then
                let got := parseKVs (tail.getD 1 "-")
                let rs := (ks.filter fun k => !j1.ownWrites.contains (st, k)).map fun k =>
                  ({ startTS := st, key := k, value := (got.find? (·.1 == k)).map (·.2) } : ReadRec)
                ({ j1 with reads := rs ++ j1.reads }, "ok")
              else (j1, "ok")
            | none => (j1, "ok")
          | "set", [k, v] =>
            match hx k, hx v with
            | some k, some v => if okRes then monEv { j1 with ownWrites := (st, k) :: j1.ownWrites } [.bufSet p.client st k v false] none else (j1, "ok")
            | _, _ => (j1, "ok")
          | "setlazy", [k, v] =>
            match hx k, hx v with
            -- (for the write-write oracle a lazily checked key counts like a locked one: its conflict check is made by the
            --  prewrite against the for-update ts, not against the start ts)
            | some k, some v => if okRes then monEv { j1 with ownWrites := (st, k) :: j1.ownWrites, pessLocked := (st, k) :: j1.pessLocked } [.bufSet p.client st k v false, .bufLazy p.client st k] none else (j1, "ok")
            | _, _ => (j1, "ok")
          | "insert", [k, v] =>
            match hx k, hx v with
            | some k, some v =>
              if okRes then monEv { j1 with ownWrites := (st, k) :: j1.ownWrites, inserted := (st, k) :: j1.inserted } [.bufSet p.client st k v true] none
              else (j1, "ok")
            | _, _ => (j1, "ok")
          | "delete", [k] =>
            match hx k with
            | some k => if okRes then monEv { j1 with ownWrites := (st, k) :: j1.ownWrites, inserted := j1.inserted.filter (· != (st, k)) } [.bufDelete p.client st k] none else (j1, "ok")
            | none => (j1, "ok")
          | "lock", ks :: flags =>
            match parseHexList ks with
            | some ks =>
              if okRes then
                -- lock-only-if-exists (flag e): a key reported as not found is NOT locked
                let onlyIfExists := (flags.headD "").toList.contains 'e'
                let got := parseKVs (tail.getD 1 "-")
                let absent (k : Bytes) : Bool := (tail.getD 1 "-").splitOn "," |>.any fun p => p == hexOrTilde k ++ "=~"
                let _ := got
                let locked := if onlyIfExists then ks.filter (fun k => !absent k) else ks
                monEv { j1 with pessLocked := locked.map (fun k => (st, k)) ++ j1.pessLocked } [.bufLock p.client st locked]
                  (lockReadCheck j1.store p.args tail)
              else (j1, "ok")
            | none => (j1, "ok")
          | "aggstart", _ => monEv j1 [.relaxLocks p.client st] none
          | "aggretry", _ => monEv j1 [.relaxLocks p.client st] none
          | "aggcancel", _ => monEv j1 [.relaxLocks p.client st] none
          | "aggdone", _ => monEv j1 [.relaxLocks p.client st] none
          | "commit", _ =>
            let what := " ".intercalate tail
            let j2 := { j1 with told := (st, what) :: j1.told }
            let j3 := match tail with
              | ["ok", c] => match c.toNat? with
                | some c => { j2 with acked := (st, c) :: j2.acked, maxAckedCommit := max j2.maxAckedCommit c }
                | none => j2
              | _ => j2
            monEv j3 [.ended p.client st] none
          | "rollback", _ => monEv j1 [.ended p.client st] none
          | "gc", [sp] =>
            -- a GC pass that reports success has resolved every lock up to its safe point (C02 / C14)
            match sp.toNat? with
            | some sp =>
              if okRes then
                match (scanLock j1.store [] [] maxU64).find? fun (_, _, t) => t ≤ sp with
                | some (k, _, t) => (j1, s!"FAIL C02 gc at safe point {sp} reported success but the lock of transaction {t} on {hexOrTilde k} is still there")
                | none => (j1, "ok")
              else (j1, "ok")
            | none => (j1, "ok")
          | c, _ =>
            if c == "iter" || c == "riter" then
              match ownIterCheck j1 p.client c st p.args tail with
              | some f => (j1, s!"FAIL {f}")
              | none => (j1, "ok")
            else if c.startsWith "snap" then
              match snapCheck j1.store c p.args tail with
              | some f => (j1, s!"FAIL {f}")
              | none => (j1, "ok")
            else (j1, "ok")
    else (j, "ok")
  | ["crash", client] => ({ j with crashed := client :: j.crashed }, "ok")
  | ["quiesce"] =>
    match firstSome [siReads j, wwCheck j, insertCheck j, atomicAll j, toldCheck j] with
    | some f => (j, s!"FAIL {f}")
    | none => (j, "ok")
  | "audit" :: "mvcc" :: k :: rest =>
    match hx k with
    | some k =>
      let model := dumpEntry (getEntry j.store.kv k)
      if model == " ".intercalate rest then (j, "ok") else (j, s!"MISMATCH mvcc-dump model: {model}")
    | none => (j, "MISMATCH malformed-event")
  | ["audit", "locks", ls] =>
    let modelLocks := showList ((scanLock j.store [] [] maxU64).map fun (k, p, t) => s!"{hexOrTilde k}/{hexOrTilde p}/{t}")
    if modelLocks != ls then (j, s!"MISMATCH locks model: {modelLocks}")
    else
      -- C06: no lock of a transaction whose owner saw it end
      -- (the property is conditional on no request of the transaction having been lost and its client being alive)
      let bad := (scanLock j.store [] [] maxU64).find? fun (_, _, t) =>
        match j.mon.find t with
        | some tx => tx.ended && !j.lossy.contains t && !j.crashed.contains tx.client
        | none => false
      match bad with
      | some (k, _, t) => (j, s!"FAIL C06 lock of finished transaction {t} left on {hexOrTilde k}")
      | none => (j, "ok")
  | ["audit", "heartbeat", st, atLeast] =>
    -- C04 rule 6 (liveness half): the harness kept this pessimistic transaction open, with a key locked, until a
    -- heart-beat was due several times over (wall clock); the trace must show at least `atLeast` heart-beats of it
    match st.toNat?, atLeast.toNat? with
    | some st, some n =>
      let have_ := match j.mon.find st with | some t => t.beats | none => 0
      if have_ ≥ n then (j, "ok")
      else (j, s!"FAIL C04 rule6 transaction {st} was kept open over several heart-beat periods with a key locked but sent {have_} heart-beats")
    | _, _ => (j, "MISMATCH malformed-event")
  | ["audit", "held", st, ks] =>
    -- C01: the client reports these keys as locked by its open transaction: the store must hold its lock on each
    match st.toNat?, parseHexList ks with
    | some st, some ks =>
      match ks.find? fun k => !((getEntry j.store.kv k).lock.any (·.startTS == st)) with
      | some k => (j, s!"FAIL C01 transaction {st} reports {hexOrTilde k} as locked but the store holds no lock of it there")
      | none => (j, "ok")
    | _, _ => (j, "MISMATCH malformed-event")
  | ["audit", "nolocks", st] =>
    match st.toNat? with
    | some st =>
      match (scanLock j.store [] [] maxU64).find? fun (_, _, t) => t == st with
      | some (k, _, _) => (j, s!"FAIL C02 lock of transaction {st} still on {hexOrTilde k} after recovery")
      | none => (j, "ok")
    | none => (j, "MISMATCH malformed-event")
  | _ => (j, "ok")

def main : IO Unit := runDriver ({} : JState) step
