import ClientGoVerif.Model.RawKV
open CGV CGV.Spec CGV.RawKV

/-! line-protocol driver for C11 (stateful; explicit `reset`).  State: the store as evolved by the model of
the CLIENT loops (`impl`) and the plain ordered map evolved by the Spec operations (`spec`). -/

structure St where
  impl : Store
  spec : Store

def St.init : St := ⟨OMap.empty, OMap.empty⟩

/-- value token: hex, `-`, or `r<count>x<hexbyte>` (a repeated byte, for large values) -/
def parseVal (s : String) : Option Bytes :=
  if s.startsWith "r" then
    match (s.drop 1).toString.splitOn "x" with
    | [n, b] => do
      let n ← n.toNat?
      let b ← parseHex b
      match b with
      | [c] => some (List.replicate n c)
      | _ => none
    | _ => none
  else parseHex s

def parseList {α} (f : String → Option α) (s : String) : Option (List α) :=
  if s == "." then some [] else (s.splitOn ",").mapM f

def parseItem (s : String) : Option Item :=
  match s.splitOn "=" with
  | [k, v] => do pure ((← parseHex k), (← parseVal v))
  | _ => none

def parseOptVal (s : String) : Option (Option Bytes) :=
  if s == "nil" then some none else (parseVal s).map some

/-- `e` | `o,<hex>,<hex>…` -/
def parseSEntry (s : String) : Option (Option Layout) :=
  if s == "e" then some none else
  match s.splitOn "," with
  | "o" :: ks => (ks.mapM parseHex).map some
  | _ => none

def parseSScript (s : String) : Option SScript :=
  if s == "." then some [] else (s.splitOn ";").mapM parseSEntry

/-- `<outs>/,<hex>,<hex>…` with outs a string of `o`/`e` (or `.`) -/
def parseBEntry (s : String) : Option BEntry :=
  match s.splitOn "/" with
  | [outs, lay] => do
    let os ← if outs == "." then some [] else outs.toList.mapM fun c => if c == 'o' then some true else if c == 'e' then some false else none
    let ks ← match lay.splitOn "," with
      | "" :: ks => ks.mapM parseHex
      | _ => none
    pure ⟨ks, os⟩
  | _ => none

def parseBScript (s : String) : Option BScript :=
  if s == "." then some [] else (s.splitOn ";").mapM parseBEntry

def joinOr (l : List String) (sep : String) : String := if l.isEmpty then "." else sep.intercalate l
def showOpt : Option Bytes → String | none => "nil" | some v => Bytes.toHex v
def showKVs (l : List KV) : String := joinOr (l.map fun p => s!"{Bytes.toHex p.1}={Bytes.toHex p.2}") ","
def showSTrace (t : STrace) : String :=
  joinOr (t.map fun (a, b, n) => s!"{Bytes.toHex a}:{Bytes.toHex b}:{n}") ","
def showBTrace (withLen : Bool) (t : List (List Item × Bool)) : String :=
  let one (e : List Item × Bool) : String :=
    "+".intercalate (e.1.map fun it => if withLen then s!"{Bytes.toHex it.1}:{it.2.length}" else Bytes.toHex it.1)
      ++ (if e.2 then "" else "!")
  joinOr ((t.map one).mergeSort (fun a b => decide (a ≤ b))) ","
def showCs (c : Checksum) : String := s!"{c.crc.toNat} {c.kvs} {c.bytes}"

/-- drop the `inj <spec>` part, return the op words and the observed script token -/
def splitObs (w : List String) : Option (List String × String) :=
  match w.reverse with
  | obs :: "obs" :: _ :: "inj" :: rest => some (rest.reverse, obs)
  | _ => none

def verdict (ok : Bool) (what body : String) : String :=
  if ok then (if body.isEmpty then "ok" else s!"ok {body}") else (if body.isEmpty then s!"FAIL {what}" else s!"FAIL {what} {body}")

def stateOk (s : St) : Bool := s.impl.entries == s.spec.entries

/-- `obs ?`: the harness could not rebuild the batch tree of this call (scheduler dependent); the model then
assumes the Spec effect (correspondence of this op is not checked; the harness' own oracle still is) -/
def unobserved (st : St) (op : List String) : St × String :=
  match op with
  | ["bput", its] =>
    match parseList parseItem its with
    | some its =>
      (⟨its.foldl (fun m it => m.insert it.1 it.2) st.impl, its.foldl (fun m it => m.insert it.1 it.2) st.spec⟩, "unobserved")
    | none => (st, "bad-op")
  | ["bdel", ks] =>
    match parseList parseHex ks with
    | some ks => (⟨ks.foldl (fun m k => m.erase k) st.impl, ks.foldl (fun m k => m.erase k) st.spec⟩, "unobserved")
    | none => (st, "bad-op")
  | ["bget", _] => (st, "unobserved")
  | _ => (st, "bad-op")

def step (st : St) (line : String) : St × String :=
  let w := words line
  match w with
  | ["reset"] => (St.init, "ok")
  | ["topo", _, _] => (st, "ok")
  | ["mockfix", _] => (st, "ok")
  | _ =>
  match splitObs w with
  | none => (st, "bad-op")
  | some (op, obs) =>
    let bad : St × String := (st, "bad-op")
    let exhausted : St × String := (st, "exhausted")
    if obs == "?" then unobserved st op else
    match op with
    | ["put", k, v, _ttl] =>
      match parseHex k, parseVal v, parseSScript obs with
      | some k, some v, some sc =>
        match put st.impl sc k v with
        | none => exhausted
        | some m => let st' : St := ⟨m, st.spec.insert k v⟩; (st', verdict (stateOk st') "state" "")
      | _, _, _ => bad
    | ["del", k] =>
      match parseHex k, parseSScript obs with
      | some k, some sc =>
        match delete st.impl sc k with
        | none => exhausted
        | some m => let st' : St := ⟨m, st.spec.erase k⟩; (st', verdict (stateOk st') "state" "")
      | _, _ => bad
    | ["get", k] =>
      match parseHex k, parseSScript obs with
      | some k, some sc =>
        match get st.impl sc k with
        | none => exhausted
        | some r => (st, verdict (r == st.spec.get k) "get" (showOpt r))
      | _, _ => bad
    | ["cas", k, prev, new] =>
      match parseHex k, parseOptVal prev, parseVal new, parseSScript obs with
      | some k, some prev, some new, some sc =>
        match cas st.impl sc k prev new with
        | none => exhausted
        | some (m, cur, swapped) =>
          let want := st.spec.get k
          let spec' := if want == prev then st.spec.insert k new else st.spec
          let st' : St := ⟨m, spec'⟩
          (st', verdict (cur == want && swapped == (want == prev) && stateOk st') "cas" s!"{showOpt cur} {swapped}")
      | _, _, _, _ => bad
    | ["bget", ks] =>
      match parseList parseHex ks, parseBScript obs with
      | some ks, some sc =>
        match batchGet st.impl sc ks with
        | none => exhausted
        | some (vals, tr) =>
          (st, verdict (vals == ks.map st.spec.get) "bget" s!"{joinOr (vals.map showOpt) ","} rpc {showBTrace false tr}")
      | _, _ => bad
    | ["bput", its] =>
      match parseList parseItem its, parseBScript obs with
      | some its, some sc =>
        match batchPut st.impl sc its with
        | none => exhausted
        | some (m, tr) =>
          let st' : St := ⟨m, its.foldl (fun m it => m.insert it.1 it.2) st.spec⟩
          (st', verdict (stateOk st') "state" s!"rpc {showBTrace true tr}")
      | _, _ => bad
    | ["bdel", ks] =>
      match parseList parseHex ks, parseBScript obs with
      | some ks, some sc =>
        match batchDelete st.impl sc ks with
        | none => exhausted
        | some (m, tr) =>
          let st' : St := ⟨m, ks.foldl (fun m k => m.erase k) st.spec⟩
          (st', verdict (stateOk st') "state" s!"rpc {showBTrace false tr}")
      | _, _ => bad
    | ["scan", s, e, limit, ko] =>
      match parseHex s, parseHex e, limit.toNat?, parseSScript obs with
      | some s, some e, some limit, some sc =>
        let ko := ko == "1"
        match scan st.impl sc s e limit ko with
        | none => exhausted
        | some (kvs, tr) =>
          let want := ((st.spec.range s (toBound e)).take limit).map (if ko then stripValue else id)
          (st, verdict (kvs == want) "scan" s!"{showKVs kvs} rpc {showSTrace tr}")
      | _, _, _, _ => bad
    | ["rscan", s, e, limit, ko] =>
      match parseHex s, parseHex e, limit.toNat?, parseSScript obs with
      | some s, some e, some limit, some sc =>
        let ko := ko == "1"
        match reverseScan st.impl sc s e limit ko with
        | none => exhausted
        | some (kvs, tr) =>
          let want := ((st.spec.rrange (some s) e).take limit).map (if ko then stripValue else id)
          (st, verdict (kvs == want) "rscan" s!"{showKVs kvs} rpc {showSTrace tr}")
      | _, _, _, _ => bad
    | ["delrange", s, e] =>
      match parseHex s, parseHex e, parseSScript obs with
      | some s, some e, some sc =>
        match deleteRange st.impl sc s e with
        | none => exhausted
        | some (m, tr) =>
          let st' : St := ⟨m, st.spec.eraseRange s (toBound e)⟩
          (st', verdict (stateOk st') "state" s!"rpc {showSTrace tr}")
      | _, _, _ => bad
    | ["checksum", s, e] =>
      match parseHex s, parseHex e, parseSScript obs with
      | some s, some e, some sc =>
        match checksum st.impl sc s e with
        | none => exhausted
        | some (c, tr) =>
          (st, verdict (c == csOf (st.spec.range s (toBound e))) "checksum" s!"{showCs c} rpc {showSTrace tr}")
      | _, _, _ => bad
    | _ => bad

def main : IO Unit := runDriver St.init step
