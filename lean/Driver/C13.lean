import ClientGoVerif.Model.Oracle
open CGV CGV.Oracle

/-! Line-protocol driver for C13 (see harness/c13/main.go for the op grammar). Stateful: `reset` op. -/

structure D where
  hasUpd : Bool := false        -- the world was created with the background updater running
  live : Bool := false          -- false until the first `reset`: ops on the oracle are `bad-op`, as in the harness
  s : St := {}
  enabled : Bool := true
  ids : List Nat := []          -- client threads in start order
  flights : List Nat := []      -- flight threads in start order
  nextFlight : Nat := 1000
  upds : List Nat := []         -- updater ticks in start order (ids from 2000)
  hist : List (Option Nat × Nat) := []   -- (low-resolution ts, PD maximum) observed after each op, newest first
  deriving Inhabited

def hiddenId : Nat := 999999

def terminal (t : Thread) : Bool :=
  match t.pc with
  | .gDone => !t.isFlight
  | .gFin | .vAccept | .vReject | .gCancelled | .vCancelled => true
  | _ => false

/-- a client call whose context is cancelled and which is blocked where the code selects on `ctx.Done()` -/
def abortable (t : Thread) : Bool :=
  t.cancelled && !t.isFlight && !t.isUpd && (t.pc == .gWait || t.pc == .gIssued || t.pc == .vWait)

/-- steps a goroutine takes without the harness: everything except waiting for PD, for the response
    (released by `arrive`) and for a flight -/
def terminalUpd (t : Thread) : Bool :=
  match t.pc with
  | .gDone | .uFin => true
  | _ => false

def autoRunnable (t : Thread) : Bool :=
  match t.pc with
  | .uRange | .gCall | .gArrived | .gStoreNew | .gLoop | .gLoaded | .gCas | .vCheck | .vJoin | .vGot => true
  | .gDone => t.isFlight
  | _ => false

/-- run the machine to quiescence (fuel bounds the number of steps; each thread needs < 20 per round) -/
def settle : Nat → D → D
  | 0, d => d
  | fuel + 1, d =>
    match (d.ids ++ d.flights ++ d.upds).find? (fun i => autoRunnable (d.s.thr i)) with
    | none =>
      match d.ids.find? (fun i => abortable (d.s.thr i)) with
      | none => d
      | some i => settle fuel { d with s := step d.s (.abort i) }
    | some i =>
      let startsFlight := (d.s.thr i).pc == .vJoin && d.s.flight.isNone
      let s' := step d.s (.run i d.nextFlight)
      let d' := if startsFlight then { d with s := s', flights := d.flights ++ [d.nextFlight], nextFlight := d.nextFlight + 1 }
                else { d with s := s' }
      settle fuel d'

def D.settled (d : D) : D := settle 100000 d

def lowStr (s : St) : String := match s.lowTs with | none => "none" | some v => toString v

def flightPending (d : D) : Bool := d.flights.any fun f => (d.s.thr f).pc == .gWait

def resStr (t : Thread) : String :=
  match t.pc with
  | .gDone | .gFin => toString t.ts
  | .vAccept => "accept"
  | .vReject => "reject"
  | .gCancelled | .vCancelled => "cancelled"
  | _ => "?"

def insertSorted (x : Nat) : List Nat → List Nat
  | [] => [x]
  | y :: ys => if x ≤ y then x :: y :: ys else y :: insertSorted x ys
def sortNat (l : List Nat) : List Nat := l.foldr insertSorted []

/-- result line of an op that lets goroutines run: cached ts, calls that finished, flight waiting at PD? -/
def outcome (before after : D) : String :=
  let fin := sortNat (after.ids.filter fun i => terminal (after.s.thr i) && !terminal (before.s.thr i))
  let items := fin.map fun i => s!"{i}={resStr (after.s.thr i)}"
  let doneS := if items.isEmpty then "-" else ",".intercalate items
  s!"low {lowStr after.s} done {doneS} flight {if flightPending after then 1 else 0}"

def who (d : D) (w : String) (pc : PC) : Option Nat :=
  if w == "f" then d.flights.find? fun f => (d.s.thr f).pc == pc
  else if w == "u" then d.upds.find? fun f => (d.s.thr f).pc == pc
  else match w.toNat? with
    | some i => if d.ids.contains i && (d.s.thr i).pc == pc then some i else none
    | none => none

def record (d : D) : D := { d with hist := (d.s.lowTs, d.s.pdLast) :: d.hist }

def allPairs (l : List Nat) : List (Nat × Nat) := l.flatMap fun a => l.map fun b => (a, b)

def histOk : List (Option Nat × Nat) → Bool
  | [] => true
  | [(l, pd)] => (match l with | some v => v ≤ pd | none => true)
  | (l, pd) :: (l', pd') :: rest =>
    (match l with | some v => v ≤ pd | none => true) && decide (optLe l' l) && histOk ((l', pd') :: rest)

def checkAll (d : D) : String :=
  let all := d.ids ++ d.flights ++ d.upds
  if !histOk d.hist then "FAIL lowres"
  else if (allPairs all).any (fun (a, b) =>
      let ta := d.s.thr a; let tb := d.s.thr b
      isDone ta.pc && hasTs tb.pc && ta.doneClk < tb.startClk && !(ta.ts < tb.ts)) then "FAIL order"
  else if d.ids.any (fun v => let t := d.s.thr v; t.pc == .vAccept && !(t.rd ≤ d.s.pdLast)) then "FAIL accept-future"
  else if d.ids.any (fun v => let t := d.s.thr v; t.pc == .vReject && !(t.rd > t.startPd)) then "FAIL reject-past"
  else "ok"

/-- model self-test behind the `stress` op: `n` concurrent calls, fine-grained pseudo-random interleaving -/
def stress (n rounds seed : Nat) : String := Id.run do
  let mut s : St := init 100
  let mut ok := true
  let mut rnd := seed
  let mut base := 0
  for _ in [0:rounds] do
    for i in [0:n] do
      s := step s (.startGet (base + i))
      s := step s (.run (base + i) 0)
    for i in [0:n] do
      rnd := (rnd * 6364136223846793005 + 1442695040888963407) % 2 ^ 64
      s := step s (.pdIssue (base + (i + rnd / 2 ^ 33) % n) 0)
    for i in [0:n] do
      s := step s (.pdIssue (base + i) 0)   -- whoever was not chosen above (a second issue is a stutter)
    for _ in [0:n * 40] do
      rnd := (rnd * 6364136223846793005 + 1442695040888963407) % 2 ^ 64
      let i := base + (rnd / 2 ^ 33) % n
      let before := s.lowTs
      s := step s (.run i 0)
      if !(decide (optLe before s.lowTs)) then ok := false
      match s.lowTs with
      | some v => if v > s.pdLast then ok := false
      | none => pure ()
    for i in [0:n] do
      if (s.thr (base + i)).pc != .gDone then ok := false
    if s.lowTs != some s.pdLast then ok := false
    base := base + n
  return if ok then "ok" else "FAIL stress"

def i64Ok (v : Int) : Bool := -(2 ^ 63 : Int) ≤ v && v < (2 ^ 63 : Int)
def u64Ok (v : Nat) : Bool := v < 2 ^ 64

def satSub (a b : Int) : Int :=
  let d := a - b
  if d > maxDuration then maxDuration else if d < -maxDuration - 1 then -maxDuration - 1 else d

/-- `time.Duration(d.Seconds() * float64(recoverPerSecond))` with Go's float64 arithmetic -/
def recoverInc (d : Int) : Int :=
  let sec := Int.tdiv d 1000000000
  let nsec := Int.tmod d 1000000000
  let f := Float.ofInt sec + Float.ofInt nsec / 1e9
  (f * Float.ofNat Gen.adaptiveUpdateTSIntervalRecoverPerSecond).toInt64.toInt

def parseState : String → Option AState
  | "none" => some .none | "normal" => some .normal | "adapting" => some .adapting
  | "recovering" => some .recovering | "unadjustable" => some .unadjustable | _ => none

def intervalArgs (ws : List String) : Option (AState × Int × Int × Int × Int × Int) :=
  match ws with
  | [st, conf, cur, lastShortMs, lastTick, now, required] => do
    let st ← parseState st
    let conf ← conf.toInt?
    let cur ← cur.toInt?
    let ls ← lastShortMs.toInt?
    let lt ← lastTick.toInt?
    let now ← now.toInt?
    let req ← required.toInt?
    pure (st, conf, cur, satSub now (ls * 1000000), recoverInc (satSub now lt), req)
  | _ => none

def commitStr : CommitRes → String
  | .ok ts => s!"ok {ts}" | .errZeroSleep => "err-zero" | .errDrift => "err-drift"
  | .errTimeout => "err-timeout" | .exhausted => "exhausted"

def parseScript (s : String) : Option (List Nat) :=
  if s == "-" then some [] else (s.splitOn ",").mapM (·.toNat?)

def lastOf (d : D) (scope : String) : Option Nat := if scope == "g" then d.s.lowTs else none

def doGet (d : D) (t : String) : D × String :=
  match t.toNat? with
  | some i =>
    if (d.s.thr i).pc != .idle || i ≥ 1000 then (d, "bad-op")
    else
      let d1 := ({ d with s := step d.s (.startGet i), ids := d.ids ++ [i] }).settled
      (record d1, "pending")
  | none => (d, "bad-op")

def doReset (d : D) (mode pd0 en : String) (upd : Bool) : D × String :=
  match pd0.toNat?, (mode == "empty" || mode == "seeded") with
  | some pd0, true =>
    let d0 : D := { live := true, hasUpd := upd, s := init pd0, enabled := en == "1" }
    if mode == "seeded" then
      -- NewPdOracle performs one GetTimestamp, answered at once with pd0 + 1
      let s1 := [Act.startGet hiddenId, .run hiddenId 0, .pdIssue hiddenId 0, .run hiddenId 0].foldl step d0.s
      let d1 := ({ d0 with s := s1, flights := [hiddenId] }).settled
      (record { d1 with flights := [] }, "ok")
    else (record d0, "ok")
  | _, _ => (d, "bad-op")

def needsOracle (op : String) : Bool :=
  ["get", "aget", "val", "issue", "arrive", "tick", "cancel", "low", "check", "isexp", "until", "p-exp"].contains op

def step13' (d : D) (line : String) : D × String :=
  if !d.live && needsOracle ((words line).headD "") then (d, "bad-op") else
  match words line with
  | ["reset", mode, pd0, en, upd] => doReset d mode pd0 en (upd == "1")
  | ["reset", mode, pd0, en] => doReset d mode pd0 en false
  | ["get", t] => doGet d t
  | ["aget", t] => doGet d t
  | ["arrive", t] =>
    match who d t .gIssued with
    | some i =>
      let d1 := ({ d with s := step d.s (.run i 0) }).settled
      (record d1, outcome d d1)
    | none => (d, "bad-op")
  | ["val", t, rd, stale] =>
    match t.toNat?, rd.toNat? with
    | some i, some rd =>
      if (d.s.thr i).pc != .idle || i ≥ 1000 || !u64Ok rd then (d, "bad-op")
      else match validatePre d.enabled rd (stale == "1") with
        | .disabled | .acceptLatest => (record d, "accept")
        | .errRange => (record d, "err-range")
        | .errLatestStale => (record d, "err-latest")
        | .loop =>
          let d0 := { d with s := step d.s (.startVal i rd), ids := d.ids ++ [i] }
          let d1 := d0.settled
          (record d1, outcome d0 d1)
    | _, _ => (d, "bad-op")
  | ["issue", w, inc] =>
    match who d w .gWait, inc.toNat? with
    | some i, some inc =>
      let s1 := step d.s (.pdIssue i inc)
      (record { d with s := s1 }, toString s1.pdLast)
    | _, _ => (d, "bad-op")
  | ["cancel", t] =>
    match t.toNat? with
    | some i =>
      if !d.ids.contains i then (d, "bad-op")
      else
        let d1 := ({ d with s := step d.s (.cancel i) }).settled
        (record d1, outcome d d1)
    | none => (d, "bad-op")
  | ["tick"] =>
    -- one tick of the background updater; refused while the previous one is still on its way
    if !d.hasUpd || d.upds.any (fun u => !terminalUpd (d.s.thr u)) then (d, "bad-op")
    else
      let u := 2000 + d.upds.length
      let d1 := ({ d with s := step d.s (.startUpd u), upds := d.upds ++ [u] }).settled
      (record d1, if (d1.s.thr u).pc == .gWait then "upd pending" else "upd idle")
  | ["low"] => (d, lowStr d.s)
  | ["check"] => (d, checkAll d)
  | ["isexp", scope, lock, ttl] =>
    match lock.toNat?, ttl.toNat? with
    | some l, some t => if u64Ok l && u64Ok t then (d, toString (isExpired (lastOf d scope) l t)) else (d, "bad-op")
    | _, _ => (d, "bad-op")
  | ["until", scope, lock, ttl] =>
    match lock.toNat?, ttl.toNat? with
    | some l, some t => if u64Ok l && u64Ok t then (d, toString (untilExpired (lastOf d scope) l t)) else (d, "bad-op")
    | _, _ => (d, "bad-op")
  | ["p-exp", scope, lock, ttl] =>
    match lock.toNat?, ttl.toNat? with
    | some l, some t =>
      if u64Ok l && u64Ok t then
        let e := isExpired (lastOf d scope) l t
        let u := untilExpired (lastOf d scope) l t
        (d, if e == decide (u ≤ 0) then "ok" else s!"FAIL expired={e} until={u}")
      else (d, "bad-op")
    | _, _ => (d, "bad-op")
  | ["compose", p, l] =>
    match p.toInt?, l.toInt? with
    | some p, some l => if i64Ok p && i64Ok l then (d, toString (composeTS p l)) else (d, "bad-op")
    | _, _ => (d, "bad-op")
  | ["phys", ts] =>
    match ts.toNat? with
    | some ts => if u64Ok ts then (d, s!"{extractPhysical ts} {extractLogical ts}") else (d, "bad-op")
    | none => (d, "bad-op")
  | ["p-ts", p, l] =>
    match p.toInt?, l.toInt? with
    | some p, some l =>
      if i64Ok p && i64Ok l then
        let ts := composeTS p l
        (d, if extractPhysical ts == p && extractLogical ts == l then "ok" else s!"FAIL {extractPhysical ts} {extractLogical ts}")
      else (d, "bad-op")
    | _, _ => (d, "bad-op")
  | "interval" :: rest =>
    match intervalArgs rest with
    | some (st, conf, cur, since, inc, req) =>
      let r := nextUpdateInterval st conf cur since inc req
      (d, s!"{r.1.str} {r.2}")
    | none => (d, "bad-op")
  | "p-interval" :: rest =>
    match intervalArgs rest with
    | some (st, conf, cur, since, inc, req) =>
      let r := nextUpdateInterval st conf cur since inc req
      (d, if min minAllowed conf ≤ r.2 && r.2 ≤ conf then "ok" else s!"FAIL interval {r.2}")
    | none => (d, "bad-op")
  | ["setint", conf, cur, new] =>
    match conf.toInt?, cur.toInt?, new.toInt? with
    | some conf, some cur, some new =>
      if new ≤ 0 then (d, "bad-op") else
      let r := setConfigured conf cur new
      (d, s!"{r.1} {r.2}")
    | _, _, _ => (d, "bad-op")
  | ["commit", w, ms, script] =>
    match w.toNat?, ms.toNat?, parseScript script with
    | some w, some ms, some sc =>
      match getTimestampForCommit w ms sc with
      | .ok ts => (d, if ts > w then s!"ok {ts}" else s!"FAIL commit {ts}")
      | r => (d, commitStr r)
    | _, _, _ => (d, "bad-op")
  | ["chk-commitwait", mode, causal, beh, start, c, ms, script] =>
    let m : Option CMode := match mode with
      | "2pc" => some .twoPC | "async" => some .async | "1pc" => some .onePC | "pipelined" => some .pipelined | _ => none
    let b : Option StoreBeh := match beh with
      | "normal" => some .normal | "expired" => some .expired | "fallback" => some .fallback | _ => none
    match m, b, start.toNat?, c.toNat?, ms.toNat?, parseScript script with
    | some m, some b, some st, some c, some ms, some sc =>
      -- the store behaviours only exist for the modes that can meet them
      let b := if (b == .expired && (m == .async || m == .onePC)) || (b == .fallback && (m == .twoPC || m == .pipelined)) then .normal else b
      match commitTxn m (causal == "1") b st c ms sc with
      | .ok ts mn =>
        let bad := !(ts > c) || ((m == .async || m == .onePC) && !(mn > c))
        (d, if bad then s!"FAIL commit-ts-not-above-constraint commit={ts} min={mn} constraint={c}" else s!"ok {ts} min {mn}")
      | .err e => (d, commitStr e)
    | _, _, _, _, _, _ => (d, "bad-op")
  | ["stress", n, rounds, seed] =>
    match n.toNat?, rounds.toNat?, seed.toNat? with
    | some n, some r, some sd => if n = 0 || n > 64 || r > 1000 then (d, "bad-op") else (d, stress n r sd)
    | _, _, _ => (d, "bad-op")
  | _ => (d, "bad-op")

/-- as in the harness: after every op that lets the oracle move the property oracle is evaluated on the whole history -/
def step13 (d : D) (line : String) : D × String :=
  let (d', out) := step13' d line
  if ["get", "aget", "val", "issue", "arrive", "tick", "cancel"].contains ((words line).headD "") && d'.live && out != "bad-op" then
    let c := checkAll d'
    if c != "ok" then (d', c ++ " | " ++ out) else (d', out)
  else (d', out)

def main : IO Unit := runDriver ({} : D) step13
