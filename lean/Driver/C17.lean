/-
  cgv-c17: line-protocol driver of the latch model (stateful; `reset` puts it back into the initial state).

  reset <nslots> <latchListCount> <expireMs> <shift> <keyhex>:<slot>...   -> ok
  lock <id> <startTS> <keyhex>...        genLock; <id> must be the next lock id   -> ok <sorted keys> <slots>
  acquire <id>                           Latches.acquire (loop)                    -> success|locked|stale ; <dump>
  release <id> <commitTS>                SetCommitTS + Latches.release (loop)      -> wake=[ids] ; <dump>
  astep <id>                             one step of acquire (IsStale test / one acquireSlot)
  unlock <id> <commitTS>                 SetCommitTS, enter release                -> ok ; <dump>
  rstep <id>                             one releaseSlot                           -> wake=<id|-> ; <dump>
  recycle <ts>                           Latches.recycle                           -> ok ; <dump>
  recycleslot <slot> <ts>                one iteration of it                       -> ok ; <dump>
  chk                                    property op: this side's oracle           -> ok | FAIL ...
  stress ...                             (implementation only; the model has nothing to run) -> ok
-/
import ClientGoVerif.Model.Latch
open CGV CGV.Latch

structure DState where
  ready : Bool
  table : List (Key × Nat)
  nslots : Nat
  cfg : Cfg
  st : State

def mkCfg (table : List (Key × Nat)) (listCount : Int) (expireMs shift : Nat) : Cfg :=
  { slotOf := fun k => match table.find? (fun e => e.1 == k) with | some e => e.2 | none => 0,
    listCount := listCount, expireMs := expireMs, shift := shift }

def dinit : DState :=
  { ready := false, table := [], nslots := 1, cfg := mkCfg [] 5 120000 18, st := Latch.init }

def joinWith (sep : String) (l : List String) : String := sep.intercalate l

def optId : Option LockId → String
  | some l => toString l | none => "-"

def dumpNode (n : Node) : String := s!"{Bytes.toHex n.key}:{n.maxCommitTS}:{optId n.holder}"

def dumpSlot (s : State) (i : Nat) : String :=
  let sl := s.slots i
  s!"{i}:q=[{joinWith ";" (sl.queue.map dumpNode)}];c={sl.count};w=[{joinWith "," (sl.waiting.map toString)}]"

def dumpLock (s : State) (l : Nat) : String :=
  match s.locks l with
  | some lk => s!"L{l}:{lk.acquiredCount}:{if lk.isStale then 1 else 0}"
  | none => s!"L{l}:?"

def dump (d : DState) (s : State) : String :=
  joinWith "," ((List.range s.nlocks).map (dumpLock s)) ++ " | " ++
  joinWith " | " ((List.range d.nslots).map (dumpSlot s))

/-- the model-side property oracle: exclusivity of fully acquired non-stale locks, holder table consistent,
    staleness sound w.r.t. the ghost log and complete for held nodes -/
def chk (d : DState) : String :=
  let s := d.st
  let ids := List.range s.nlocks
  let bad := ids.filterMap fun a =>
    match s.locks a with
    | none => none
    | some la =>
      -- exclusivity
      let clash := ids.find? fun b => b != a &&
        match s.locks b with
        | some lb => la.fullyAcquiredB && lb.fullyAcquiredB && la.keys.any (fun k => lb.keys.contains k)
        | none => false
      match clash with
      | some b => some s!"excl L{a} L{b}"
      | none =>
        -- every held key: node holder is a
        let heldBad := (la.keys.take la.acquiredCount).find? fun k =>
          match nodeOf d.cfg s k with
          | some n => n.holder != some a || (!la.isStale && n.pubs.any (· > la.startTS))
          | none => true
        match heldBad with
        | some k => some s!"holder L{a} {Bytes.toHex k}"
        | none =>
          if la.isStale && !(la.keys.any fun k => s.published.any fun e => e.1 == k && e.2 > la.startTS)
          then some s!"stale-unsound L{a}" else none
  match bad with
  | [] => "ok"
  | b :: _ => "FAIL " ++ b

def parseKeys (ws : List String) : Option (List Key) := ws.mapM parseHex

def parseTable (ws : List String) : Option (List (Key × Nat)) :=
  ws.mapM fun w =>
    match w.splitOn ":" with
    | [k, sl] => do
      let kb ← parseHex k
      let n ← sl.toNat?
      pure (kb, n)
    | _ => none

def step (d : DState) (line : String) : DState × String :=
  let ws := words line
  if !d.ready && ws.head? != some "reset" && ws.head? != some "stress" then (d, "no-reset") else
  match ws with
  | "reset" :: ns :: lc :: ex :: sh :: tbl =>
    match ns.toNat?, lc.toInt?, ex.toNat?, sh.toNat?, parseTable tbl with
    | some n, some lc, some ex, some sh, some t =>
      ({ ready := true, table := t, nslots := n, cfg := mkCfg t lc ex sh, st := Latch.init }, "ok")
    | _, _, _, _, _ => (d, "bad-op")
  | "lock" :: id :: ts :: ks =>
    match id.toNat?, ts.toNat?, parseKeys ks with
    | some id, some ts, some keys =>
      if id ≠ d.st.nlocks then (d, "illegal") else
      let s' := genLock d.cfg d.st ts keys
      match s'.locks id with
      | some lk => ({ d with st := s' },
          s!"ok {joinWith "," (lk.keys.map Bytes.toHex)} {joinWith "," (lk.requiredSlots.map toString)}")
      | none => (d, "illegal")
    | _, _, _ => (d, "bad-op")
  | ["acquire", id] =>
    match id.toNat? with
    | some l => match acquire d.cfg d.st l with
      | some (s', r) => ({ d with st := s' }, s!"{r.str} ; {dump d s'}")
      | none => (d, "illegal")
    | none => (d, "bad-op")
  | ["astep", id] =>
    match id.toNat? with
    | some l => match acquireStep d.cfg d.st l with
      | some (s', r) => ({ d with st := s' }, s!"{r.str} ; {dump d s'}")
      | none => (d, "illegal")
    | none => (d, "bad-op")
  | ["release", id, c] =>
    match id.toNat?, c.toNat? with
    | some l, some c => match release d.st l c with
      | some (s', wl) => ({ d with st := s' }, s!"wake=[{joinWith "," (wl.map toString)}] ; {dump d s'}")
      | none => (d, "illegal")
    | _, _ => (d, "bad-op")
  | ["unlock", id, c] =>
    match id.toNat?, c.toNat? with
    | some l, some c => match unlock d.st l c with
      | some s' => ({ d with st := s' }, s!"ok ; {dump d s'}")
      | none => (d, "illegal")
    | _, _ => (d, "bad-op")
  | ["rstep", id] =>
    match id.toNat? with
    | some l => match releaseSlot d.st l with
      | some (s', w) => ({ d with st := s' }, s!"wake={optId w} ; {dump d s'}")
      | none => (d, "illegal")
    | none => (d, "bad-op")
  | ["recycle", ts] =>
    match ts.toNat? with
    | some ts => let s' := recycleAll d.cfg d.st d.nslots ts
                 ({ d with st := s' }, s!"ok ; {dump d s'}")
    | none => (d, "bad-op")
  | ["recycleslot", i, ts] =>
    match i.toNat?, ts.toNat? with
    | some i, some ts => let s' := recycleSlot d.cfg d.st i ts
                         ({ d with st := s' }, s!"ok ; {dump d s'}")
    | _, _ => (d, "bad-op")
  | ["chk"] => (d, chk d)
  | "stress" :: _ => (d, "ok")
  | _ => (d, "bad-op")

def main : IO Unit := runDriver dinit step
