/-
  cgv-c17: line-protocol driver of the latch model (stateful; `reset` puts it back into the initial state).

  reset <nslots> <latchListCount> <expireMs> <shift> <keyhex>:<slot>...   -> ok
  lock <id> <startTS> <keyhex>...        genLock; <id> must be the next lock id   -> ok <sorted keys> <slots>
  acquire <id>                           Latches.acquire (loop)                    -> success|locked|stale ; <dump>
  release <id> <commitTS>                SetCommitTS + Latches.release (loop)      -> wake=[ids] ; <dump>
  astep <id>                             one step of acquire (IsStale test / one acquireSlot)
  unlock <id> <commitTS>                 SetCommitTS, enter release                -> ok ; <dump>
  rstep <id>                             one releaseSlot                           -> wake=<id|-> ; <dump>
  recycle <ts>                           Latches.recycle                           -> ok ; <dump>
  recycleslot <slot> <ts>                one iteration of it                       -> ok ; <dump>
  chk                                    property op: this side's oracle           -> ok | FAIL ...
  client level (the latch scheduler driven through KVTxn.Commit; timestamps in the op lines are the observed ones):
  creset ...                             like reset
  tbegin <id> <startTS> <keyhex>...      a transaction with this write set                          -> ok
  tcommit <id> <commitTS>                Commit, waited for (the model: commitTxn)                  -> ok|failed|conflict|queued|stuck
  hlock <id> <startTS> <keyhex>...       the harness itself takes latches (LatchesScheduler.Lock)   -> success|locked|stale
  tasync <id>                            Commit in the background, observed until it is queued      -> queued|notqueued
  hunlock <id> <commitTS>                SetCommitTS + UnLock of an hlock                           -> ok
  twait <id> <commitTS>                  wait for a background Commit                               -> ok|failed|conflict|queued|stuck
  chk-progress / chk-free                property ops                                               -> ok | FAIL ...
  stress ...                             (implementation only; the model has nothing to run) -> ok
-/
import ClientGoVerif.Model.Latch
open CGV CGV.Latch

structure DState where
  ready : Bool
  table : List (Key × Nat)
  nslots : Nat
  cfg : Cfg
  st : State
  started : List LockId := []
  txs : List LockId := []      -- transactions begun, Commit not yet called
  hls : List LockId := []      -- harness locks not yet unlocked
  asyncs : List LockId := []   -- background Commits not yet waited for to the end

def mkCfg (table : List (Key × Nat)) (listCount : Int) (expireMs shift : Nat) : Cfg :=
  { slotOf := fun k => match table.find? (fun e => e.1 == k) with | some e => e.2 | none => 0,
    listCount := listCount, expireMs := expireMs, shift := shift }

def dinit : DState :=
  { ready := false, table := [], nslots := 1, cfg := mkCfg [] 5 120000 18, st := Latch.init }

def joinWith (sep : String) (l : List String) : String := sep.intercalate l

def optId : Option LockId → String
  | some l => toString l | none => "-"

def dumpNode (n : Node) : String := s!"{Bytes.toHex n.key}:{n.maxCommitTS}:{optId n.holder}"

def dumpSlot (s : State) (i : Nat) : String :=
  let sl := s.slots i
  s!"{i}:q=[{joinWith ";" (sl.queue.map dumpNode)}];c={sl.count};w=[{joinWith "," (sl.waiting.map toString)}]"

def dumpLock (s : State) (l : Nat) : String :=
  match s.locks l with
  | some lk => s!"L{l}:{lk.acquiredCount}:{if lk.isStale then 1 else 0}"
  | none => s!"L{l}:?"

def dump (d : DState) (s : State) : String :=
  joinWith "," ((List.range s.nlocks).map (dumpLock s)) ++ " | " ++
  joinWith " | " ((List.range d.nslots).map (dumpSlot s))

/-- the model-side property oracle: exclusivity of fully acquired non-stale locks, holder table consistent,
    staleness sound w.r.t. the ghost log and complete for held nodes -/
def chk (d : DState) : String :=
  let s := d.st
  let ids := List.range s.nlocks
  let bad := ids.filterMap fun a =>
    match s.locks a with
    | none => none
    | some la =>
      -- exclusivity
      let clash := ids.find? fun b => b != a &&
        match s.locks b with
        | some lb => la.fullyAcquiredB && lb.fullyAcquiredB && la.keys.any (fun k => lb.keys.contains k)
        | none => false
      match clash with
      | some b => some s!"excl L{a} L{b}"
      | none =>
        -- every held key: node holder is a
        let heldBad := (la.keys.take la.acquiredCount).find? fun k =>
          match nodeOf d.cfg s k with
          | some n => n.holder != some a || (!la.isStale && n.pubs.any (· > la.startTS))
          | none => true
        match heldBad with
        | some k => some s!"holder L{a} {Bytes.toHex k}"
        | none =>
          if la.isStale && !(la.keys.any fun k => s.published.any fun e => e.1 == k && e.2 > la.startTS)
          then some s!"stale-unsound L{a}" else none
  match bad with
  | [] => "ok"
  | b :: _ => "FAIL " ++ b

/-- result of a Commit as seen by the caller -/
def commitResult (s : State) (l : LockId) (commitTS : Nat) : String :=
  match s.locks l with
  | none => "illegal"
  | some lk =>
    match lk.phase with
    | .done => if lk.isStale then "conflict" else if commitTS = 0 then "failed" else "ok"
    | .waiting => "queued"
    | _ => "stuck"

/-- the scheduler goroutine's `wakeup`: `acquire` on every woken lock of a started Commit -/
def settle (d : DState) (s : State) : State :=
  d.started.foldl (fun s l =>
    match s.locks l with
    | some lk => if lk.phase = .woken then (match acquire d.cfg s l with | some (s', _) => s' | none => s) else s
    | none => s) s

def freeChk (d : DState) : String :=
  let s := d.st
  let bad := (List.range d.nslots).filterMap fun i =>
    let sl := s.slots i
    match sl.queue.find? (fun n => n.holder.isSome) with
    | some n => some s!"latch-held key={Bytes.toHex n.key}"
    | none => if sl.waiting.isEmpty then none else some s!"waiting slot={i}"
  match bad with
  | [] => "ok"
  | b :: _ => "FAIL " ++ b

def parseKeys (ws : List String) : Option (List Key) := ws.mapM parseHex

def parseTable (ws : List String) : Option (List (Key × Nat)) :=
  ws.mapM fun w =>
    match w.splitOn ":" with
    | [k, sl] => do
      let kb ← parseHex k
      let n ← sl.toNat?
      pure (kb, n)
    | _ => none

def step (d : DState) (line : String) : DState × String :=
  let ws := words line
  if !d.ready && ws.head? != some "reset" && ws.head? != some "creset" && ws.head? != some "stress" then (d, "no-reset") else
  match ws with
  | "reset" :: ns :: lc :: ex :: sh :: tbl =>
    match ns.toNat?, lc.toInt?, ex.toNat?, sh.toNat?, parseTable tbl with
    | some n, some lc, some ex, some sh, some t =>
      ({ ready := true, table := t, nslots := n, cfg := mkCfg t lc ex sh, st := Latch.init }, "ok")
    | _, _, _, _, _ => (d, "bad-op")
  | "lock" :: id :: ts :: ks =>
    match id.toNat?, ts.toNat?, parseKeys ks with
    | some id, some ts, some keys =>
      if id ≠ d.st.nlocks then (d, "illegal") else
      let s' := genLock d.cfg d.st ts keys
      match s'.locks id with
      | some lk => ({ d with st := s' },
          s!"ok {joinWith "," (lk.keys.map Bytes.toHex)} {joinWith "," (lk.requiredSlots.map toString)}")
      | none => (d, "illegal")
    | _, _, _ => (d, "bad-op")
  | ["acquire", id] =>
    match id.toNat? with
    | some l => match acquire d.cfg d.st l with
      | some (s', r) => ({ d with st := s' }, s!"{r.str} ; {dump d s'}")
      | none => (d, "illegal")
    | none => (d, "bad-op")
  | ["astep", id] =>
    match id.toNat? with
    | some l => match acquireStep d.cfg d.st l with
      | some (s', r) => ({ d with st := s' }, s!"{r.str} ; {dump d s'}")
      | none => (d, "illegal")
    | none => (d, "bad-op")
  | ["release", id, c] =>
    match id.toNat?, c.toNat? with
    | some l, some c => match release d.st l c with
      | some (s', wl) => ({ d with st := s' }, s!"wake=[{joinWith "," (wl.map toString)}] ; {dump d s'}")
      | none => (d, "illegal")
    | _, _ => (d, "bad-op")
  | ["unlock", id, c] =>
    match id.toNat?, c.toNat? with
    | some l, some c => match unlock d.st l c with
      | some s' => ({ d with st := s' }, s!"ok ; {dump d s'}")
      | none => (d, "illegal")
    | _, _ => (d, "bad-op")
  | ["rstep", id] =>
    match id.toNat? with
    | some l => match releaseSlot d.st l with
      | some (s', w) => ({ d with st := s' }, s!"wake={optId w} ; {dump d s'}")
      | none => (d, "illegal")
    | none => (d, "bad-op")
  | ["recycle", ts] =>
    match ts.toNat? with
    | some ts => let s' := recycleAll d.cfg d.st d.nslots ts
                 ({ d with st := s' }, s!"ok ; {dump d s'}")
    | none => (d, "bad-op")
  | ["recycleslot", i, ts] =>
    match i.toNat?, ts.toNat? with
    | some i, some ts => let s' := recycleSlot d.cfg d.st i ts
                         ({ d with st := s' }, s!"ok ; {dump d s'}")
    | _, _ => (d, "bad-op")
  | "creset" :: ns :: lc :: ex :: sh :: tbl =>
    match ns.toNat?, lc.toInt?, ex.toNat?, sh.toNat?, parseTable tbl with
    | some n, some lc, some ex, some sh, some t =>
      ({ ready := true, table := t, nslots := n, cfg := mkCfg t lc ex sh, st := Latch.init }, "ok")
    | _, _, _, _, _ => (d, "bad-op")
  | "tbegin" :: id :: ts :: ks =>
    match id.toNat?, ts.toNat?, parseKeys ks with
    | some id, some ts, some keys =>
      if id ≠ d.st.nlocks then (d, "illegal") else
      ({ d with st := genLock d.cfg d.st ts keys, txs := id :: d.txs }, "ok")
    | _, _, _ => (d, "bad-op")
  | "hlock" :: id :: ts :: ks =>
    match id.toNat?, ts.toNat?, parseKeys ks with
    | some id, some ts, some keys =>
      if id ≠ d.st.nlocks then (d, "illegal") else
      let s1 := genLock d.cfg d.st ts keys
      match acquire d.cfg s1 id with
      | some (s2, r) => ({ d with st := s2, hls := id :: d.hls }, r.str)
      | none => (d, "illegal")
    | _, _, _ => (d, "bad-op")
  | ["tcommit", id, c] =>
    match id.toNat?, c.toNat? with
    | some l, some c =>
      if !d.txs.contains l then (d, "illegal") else
      let d1 := { d with started := d.started ++ [l], txs := d.txs.erase l }
      let s1 := settle d1 (commitTxn d.cfg d.st l c)
      ({ d1 with st := s1 }, commitResult s1 l c)
    | _, _ => (d, "bad-op")
  | ["tasync", id] =>
    match id.toNat? with
    | some l =>
      if !d.txs.contains l then (d, "illegal") else
      let d := { d with txs := d.txs.erase l, asyncs := l :: d.asyncs }
      match acquire d.cfg d.st l with
      | some (s1, .locked) => ({ d with st := s1, started := d.started ++ [l] }, "queued")
      | some (s1, _) => ({ d with st := s1, started := d.started ++ [l] }, "notqueued")
      | none => (d, "illegal")
    | none => (d, "bad-op")
  | ["hunlock", id, c] =>
    match id.toNat?, c.toNat? with
    | some l, some c =>
      if !d.hls.contains l then (d, "illegal") else
      let s1 := settle d (commitTxn d.cfg d.st l c)
      ({ d with st := s1, hls := d.hls.erase l }, "ok")
    | _, _ => (d, "bad-op")
  | ["twait", id, c] =>
    match id.toNat?, c.toNat? with
    | some l, some c =>
      if !d.asyncs.contains l then (d, "illegal") else
      let s1 := settle d (commitTxn d.cfg d.st l c)
      let r := commitResult s1 l c
      ({ d with st := s1, asyncs := if r == "queued" then d.asyncs else d.asyncs.erase l }, r)
    | _, _ => (d, "bad-op")
  | ["chk-progress"] => (d, "ok")
  | ["chk-free"] => if d.hls.isEmpty && d.asyncs.isEmpty then (d, freeChk d) else (d, "illegal")
  | ["chk"] => (d, chk d)
  | "stress" :: _ => (d, "ok")
  | _ => (d, "bad-op")

def main : IO Unit := runDriver dinit step
