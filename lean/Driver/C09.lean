import ClientGoVerif.Model.Region
open CGV CGV.Region

/-! line-protocol driver for C09 (stateful; `reset` puts the model back into the initial state) -/

structure St where
  live : PD
  hist : Array PD          -- hist[k] = PD state after the first k successful topology ops
  view : Option Nat        -- which state answers PD queries (none = live)
  cache : Cache
  extra : List Region := []   -- descriptions delivered by stores in `epochraw` (known without PD ever having had them)

def initPD : PD := [⟨⟨1, [], none, 0, 0⟩, 1, [1, 2, 3]⟩]
def St.init : St := ⟨initPD, #[initPD], none, Cache.empty, []⟩

def St.pd (s : St) : PD :=
  match s.view with
  | none => s.live
  | some k => s.hist.getD k s.live

def nStores : Nat := 5

def fmtR (r : Region) : String :=
  s!"{r.id}:{Bytes.toHex r.start}:{Bytes.toHex r.endKey}:{r.ver}:{r.confVer}"

def joinSp (l : List String) : String := " ".intercalate l
def joinC (l : List Nat) : String := ",".intercalate (l.map toString)

def fmtPD (pd : PD) : String :=
  joinSp (pd.map fun p => s!"{fmtR p.r}:{p.leader}:{joinC p.peers}")

def b01 (b : Bool) : String := if b then "1" else "0"

def insertNat (x : Nat × VerID) : List (Nat × VerID) → List (Nat × VerID)
  | [] => [x]
  | y :: ys => if x.1 ≤ y.1 then x :: y :: ys else y :: insertNat x ys

def fmtCache (c : Cache) : String :=
  let es := c.sorted.map fun e => s!"{fmtR e.r}:{b01 e.valid}:{b01 e.reload}:{b01 e.delayedOnly}:{e.leader}:{joinC e.peers}"
  let ls := (c.latest.foldl (fun acc x => insertNat x acc) []).map fun (id, v) => s!"{id}:{v.ver}:{v.confVer}"
  s!"sorted {joinSp es} | latest {joinSp ls}"

def mkRegion (id : Nat) (start endKey : Bytes) (ver conf : Nat) : Region :=
  ⟨id, start, if endKey.isEmpty then none else some endKey, ver, conf⟩

/-! ### topology ops on the model of mocktikv.Cluster -/

def pdInsert (p : PdRegion) : PD → PD
  | [] => [p]
  | x :: xs => if Bytes.lt p.r.start x.r.start then p :: x :: xs else x :: pdInsert p xs

def topo (pd : PD) : List String → Option PD
  | ["split", rid, nrid, key] => do
    let rid ← rid.toNat?
    let nrid ← nrid.toNat?
    let key ← parseHex key
    let p ← pd.getRegionByID rid
    if (pd.getRegionByID nrid).isSome || nrid == 0 then none
    else if !(p.r.contains key) || key == p.r.start then none
    else
      let left : PdRegion := { p with r := { p.r with end_ := some key, ver := p.r.ver + 1 } }
      -- /repo bd025bf: like TiKV, both halves get the parent's epoch with the version increased by one
      let right : PdRegion := ⟨⟨nrid, key, p.r.end_, p.r.ver + 1, p.r.confVer⟩, p.peers.headD 0, p.peers⟩
      some (pdInsert right (pd.map fun x => if x.r.id == rid then left else x))
  | ["merge", a, b] => do
    let a ← a.toNat?
    let b ← b.toNat?
    let pa ← pd.getRegionByID a
    let pb ← pd.getRegionByID b
    if a == b || pa.r.end_ != some pb.r.start then none
    else
      -- /repo bd025bf: version = max(source, target) + 1
      let m : PdRegion := { pa with r := { pa.r with end_ := pb.r.end_, ver := max pa.r.ver pb.r.ver + 1 } }
      some ((pd.filter fun x => x.r.id != b).map fun x => if x.r.id == a then m else x)
  | ["leader", rid, store] => do
    let rid ← rid.toNat?
    let store ← store.toNat?
    let p ← pd.getRegionByID rid
    if !p.peers.contains store then none
    else some (pd.map fun x => if x.r.id == rid then { p with leader := store } else x)
  | ["addpeer", rid, store] => do
    let rid ← rid.toNat?
    let store ← store.toNat?
    let p ← pd.getRegionByID rid
    if p.peers.contains store || store == 0 || store > nStores then none
    else some (pd.map fun x => if x.r.id == rid then
      { p with peers := p.peers ++ [store], r := { p.r with confVer := p.r.confVer + 1 } } else x)
  | ["rmpeer", rid, store] => do
    let rid ← rid.toNat?
    let store ← store.toNat?
    let p ← pd.getRegionByID rid
    if !p.peers.contains store || p.peers.length < 2 then none
    else
      let peers := p.peers.filter (· != store)
      let leader := if p.leader == store then peers.headD 0 else p.leader
      some (pd.map fun x => if x.r.id == rid then
        { p with peers := peers, leader := leader, r := { p.r with confVer := p.r.confVer + 1 } } else x)
  | _ => none

/-! ### oracles, evaluated on the model's own results -/

def known (s : St) (r : Region) : Bool :=
  s.live.any (fun p => p.r == r) || s.hist.any (fun pd => pd.any (fun p => p.r == r)) || s.extra.any (· == r)

/-- the by-id index names the newest held version: for every entry of the B-tree that no other entry of the same id
    exceeds (version, then conf version), latestVersions knows the id with an epoch at least as new (offending ids) -/
def latestLost (_before after : Cache) : List Nat :=
  (after.sorted.filter (fun e =>
    !(after.sorted.any (fun x => x.r.id == e.r.id &&
        (decide (x.r.ver > e.r.ver) || (decide (x.r.ver = e.r.ver) && decide (x.r.confVer > e.r.confVer))))) &&
    !(match latestGet after.latest e.r.id with
      | some v' => decide (v'.ver ≥ e.r.ver) && decide (v'.confVer ≥ e.r.confVer)
      | none => false))).map (·.r.id)

def latestCheck (before after : Cache) : Bool × String :=
  match latestLost before after with
  | [] => (true, "")
  | id :: _ => (false, s!"latest-index-missing:{id}")

/-- a newly installed description is never older than a cached one for the same id; a description that left the
    index was replaced by one (now in the index) covering its start key with a version at least as large -/
def noRegress (before after : Cache) : Bool :=
  let news := after.sorted.filter (fun n => !(before.sorted.any (fun e => e.r == n.r)))
  let gone := before.sorted.filter (fun e => !(after.sorted.any (fun n => n.r == e.r)))
  before.sorted.all (fun e => news.all (fun n =>
    n.r.id != e.r.id || (decide (n.r.ver ≥ e.r.ver) && decide (n.r.confVer ≥ e.r.confVer)))) &&
  gone.all (fun e => after.sorted.any (fun n =>
    Bytes.le n.r.start e.r.start && (n.r.endKey.isEmpty || Bytes.lt e.r.start n.r.endKey) && decide (n.r.ver ≥ e.r.ver)))

/-- the locations, taken in order, cover [start, end) without a gap; returns the unconsumed rest on success,
    the first uncovered key on failure -/
def coverFrom : List Region → Bytes → Bytes → Except Bytes (List Region)
  | [], cur, _ => .error cur
  | l :: ls, cur, endKey =>
    if l.contains cur then
      if l.endKey.isEmpty then .ok (l :: ls)
      else if !endKey.isEmpty && Bytes.le endKey l.endKey then .ok (l :: ls)
      else coverFrom ls l.endKey endKey
    else coverFrom ls cur endKey

/-- "" when every range is covered; else the kind of gap (see the harness) -/
def coverRanges (before : Cache) : List Region → List KeyRange → String
  | _, [] => ""
  | ls, kr :: rest =>
    match coverFrom ls kr.start kr.end_ with
    | .error miss =>
      if before.sorted.any (fun e => e.valid && !e.reload && e.r.endKey.isEmpty && e.r.contains miss) then
        "gap-in-cached-unbounded-tail"
      else "gap"
    | .ok ls' => coverRanges before ls' rest

def gapCheck (kind : String) : Bool × String := (kind == "", kind)

def verdict (fails : List (Bool × String)) : String :=
  match fails.filter (fun p => !p.1) with
  | [] => "ok"
  | l => "FAIL " ++ ",".intercalate (l.map (·.2))

def fuelOf (s : St) : Nat := 4 * (s.cache.sorted.length + s.live.length) + 16

def parseRange (t : String) : Option KeyRange :=
  match t.splitOn ":" with
  | [a, b] => do
    let a ← parseHex a
    let b ← parseHex b
    some ⟨a, b⟩
  | _ => none

def fmtGroups (g : List (VerID × List Bytes)) : String :=
  let items := g.map fun (v, ks) => (s!"{v.id}:{v.ver}:{v.confVer}", ",".intercalate (ks.map Bytes.toHex))
  let sorted := items.foldl (fun acc x =>
    let rec ins : List (String × String) → List (String × String)
      | [] => [x]
      | y :: ys => if x.1 < y.1 then x :: y :: ys else y :: ins ys
    ins acc) []
  joinSp (sorted.map fun (a, b) => s!"{a}={b}")

/-- every key is in exactly one group, and that group is the one of a returned location containing it -/
def groupOracle (keys : List Bytes) (g : List (VerID × List Bytes)) (locs : List Region) : Bool :=
  keys.length == locs.length &&
  (List.zip keys locs).all (fun (k, l) =>
    l.contains k &&
    (g.filter (fun (v, _) => v == l.verID)).length == 1 &&
    (g.all fun (v, ks) => if v == l.verID then ks.contains k else true)) &&
  (g.foldl (fun n (_, ks) => n + ks.length) 0) == keys.length

def step (s : St) (line : String) : St × String :=
  match words line with
  | ["reset"] => (St.init, "ok")
  | ["newcache"] => ({ s with cache := Cache.empty }, "ok")
  | ["pdview", "live"] => ({ s with view := none }, "ok")
  | ["pdview", k] =>
    match k.toNat? with
    | some k => if k < s.hist.size then ({ s with view := some k }, "ok") else (s, "bad-op")
    | none => (s, "bad-op")
  | ["dump"] => (s, fmtCache s.cache)
  | ["pd"] => (s, fmtPD s.pd)
  | ["gc"] => ({ s with cache := s.cache.gc }, "ok")
  | ["loc", k] =>
    match parseHex k with
    | some k =>
      match locateKey s.cache s.pd k with
      | (c, .ok r) =>
        ({ s with cache := c }, verdict [(r.contains k, "not-contained"), (known s r, "unknown-region"), (noRegress s.cache c, "regress"), latestCheck s.cache c] ++ " " ++ fmtR r)
      | (c, .error _) => ({ s with cache := c }, "err")
    | none => (s, "bad-op")
  | ["locend", k] =>
    match parseHex k with
    | some k =>
      match locateEndKey (fuelOf s) s.cache s.pd k with
      | (c, .ok r) =>
        ({ s with cache := c }, verdict [(r.containsByEnd k, "not-contained"), (known s r, "unknown-region"), (noRegress s.cache c, "regress"), latestCheck s.cache c] ++ " " ++ fmtR r)
      | (c, .error _) => ({ s with cache := c }, "err")
    | none => (s, "bad-op")
  | ["locid", id] =>
    match id.toNat? with
    | some id =>
      match locateRegionByID s.cache s.pd id with
      | (c, .ok r) =>
        ({ s with cache := c }, verdict [(r.id == id, "wrong-id"), (known s r, "unknown-region"), (noRegress s.cache c, "regress"), latestCheck s.cache c] ++ " " ++ fmtR r)
      | (c, .error _) => ({ s with cache := c }, "err")
    | none => (s, "bad-op")
  | ["range", a, b] =>
    match parseHex a, parseHex b with
    | some a, some b =>
      match locateKeyRange (fuelOf s) s.cache s.pd a b with
      | (c, .ok rs) =>
        ({ s with cache := c }, verdict [gapCheck (coverRanges s.cache rs [⟨a, b⟩]), (rs.all (known s), "unknown-region"), (noRegress s.cache c, "regress"), latestCheck s.cache c] ++ " " ++ joinSp (rs.map fmtR))
      | (c, .error _) => ({ s with cache := c }, "err")
    | _, _ => (s, "bad-op")
  | "batch" :: rs =>
    match rs.mapM parseRange with
    | some ranges =>
      if ranges.isEmpty then (s, "bad-op") else
      match batchLocateKeyRanges (fuelOf s) s.cache s.pd ranges with
      | (c, .ok ls) =>
        ({ s with cache := c }, verdict [gapCheck (coverRanges s.cache ls ranges), (ls.all (known s), "unknown-region"), (noRegress s.cache c, "regress"), latestCheck s.cache c] ++ " " ++ joinSp (ls.map fmtR))
      | (c, .error _) => ({ s with cache := c }, "err")
    | none => (s, "bad-op")
  | "group" :: ks =>
    match ks.mapM parseHex with
    | some keys =>
      if keys.isEmpty then (s, "bad-op") else
      match groupKeysByRegion s.cache s.pd keys with
      | (c, .ok (g, locs)) =>
        let first := match locs.head? with | some l => s!"{l.id}:{l.ver}:{l.confVer}" | none => "-"
        ({ s with cache := c }, verdict [(groupOracle keys g locs, "bad-grouping"), (locs.all (known s), "unknown-region"), (noRegress s.cache c, "regress"), latestCheck s.cache c] ++ s!" first={first} " ++ fmtGroups g)
      | (c, .error _) => ({ s with cache := c }, "err")
    | none => (s, "bad-op")
  | ["listids", a, b] =>
    match parseHex a, parseHex b with
    | some a, some b =>
      match listRegionIDs (fuelOf s) s.cache s.pd a b [] with
      | (c, .ok rs) =>
        ({ s with cache := c }, verdict [(noRegress s.cache c, "regress"), latestCheck s.cache c] ++ " " ++ joinSp (rs.map fun r => toString r.id))
      | (c, .error _) => ({ s with cache := c }, "err")
    | _, _ => (s, "bad-op")
  | ["inval", id] =>
    match id.toNat? with
    | some id =>
      match latestGet s.cache.latest id with
      | some v => ({ s with cache := s.cache.invalidate v }, "ok")
      | none => (s, "none")
    | none => (s, "bad-op")
  | ["needreload", id] =>
    match id.toNat? with
    | some id =>
      match latestGet s.cache.latest id with
      | some v => ({ s with cache := s.cache.update v (fun e => { e with reload := true, delayedOnly := false }) }, "ok")
      | none => (s, "none")
    | none => (s, "bad-op")
  | ["delayreload", id] =>
    -- needDelayedReloadReady (what the GC round sets after needDelayedReloadPending)
    match id.toNat? with
    | some id =>
      match latestGet s.cache.latest id with
      | some v => ({ s with cache := s.cache.update v (fun e =>
          if e.reload && !e.delayedOnly then e else { e with reload := true, delayedOnly := true }) }, "ok")
      | none => (s, "none")
    | none => (s, "bad-op")
  | ["updleader", id, store] =>
    match id.toNat?, store.toNat? with
    | some id, some store =>
      match latestGet s.cache.latest id with
      | some v => ({ s with cache := updateLeader s.cache v store }, "ok")
      | none => (s, "none")
    | _, _ => (s, "bad-op")
  | ["expire", id] =>
    -- the TTL of the cached region runs out: to the lookups this is what an invalidated entry looks like
    match id.toNat? with
    | some id =>
      match latestGet s.cache.latest id with
      | some v => ({ s with cache := s.cache.invalidate v }, "ok")
      | none => (s, "none")
    | none => (s, "bad-op")
  | ["sendfail", id, sched] =>
    match id.toNat? with
    | some id =>
      match latestGet s.cache.latest id with
      | some v => ({ s with cache := onSendFail s.cache v (sched == "1") }, "ok")
      | none => (s, "none")
    | none => (s, "bad-op")
  | ["conv", k, fb] =>
    -- request attempts for the key against the LIVE PD until accepted (at most 3), then one more lookup that must be
    -- served from the cache (checked here by answering it from an empty PD)
    match parseHex k, (match fb with | "inval" => some Feedback.invalidate | "reload" => some Feedback.needReload
                                      | "epochnm" => some Feedback.epochNotMatch | _ => none) with
    | some k, some fb =>
      match attempts 3 s.cache s.live k fb 0 with
      | (c, some failed) =>
        let settled := match locateKey c [] k, s.live.getRegion k with
          | (_, .ok r), some p => p.r == r
          | _, _ => false
        ({ s with cache := c }, verdict [(settled, "not-settled"), (decide (failed ≤ 1), "too-many-attempts"), (noRegress s.cache c, "regress"), latestCheck s.cache c] ++ s!" {failed}")
      | (c, none) => ({ s with cache := c }, "FAIL not-converged")
    | _, _ => (s, "bad-op")
  | "epochraw" :: id :: specs =>
    -- OnRegionEpochNotMatch with an explicit list of current regions (what a store reports after a split that PD / the
    -- mock cluster cannot express, e.g. a right-derived split where the surviving id moves its start key)
    match id.toNat?, specs.mapM (fun t => match t.splitOn ":" with
        | [i, a, b, v, cv] => do
          let i ← i.toNat?
          let a ← parseHex a
          let b ← parseHex b
          let v ← v.toNat?
          let cv ← cv.toNat?
          some (mkRegion i a b v cv)
        | _ => none) with
    | some id, some rs =>
      match s.cache.byID id with
      | some e =>
        let cur : List PdRegion := rs.map fun r => ⟨r, 0, [1, 2, 3]⟩
        match onRegionEpochNotMatch s.cache e.r.verID e.leader cur with
        | (c, .ok _) => ({ s with cache := c, extra := rs ++ s.extra }, verdict [(noRegress s.cache c, "regress"), latestCheck s.cache c])
        | (c, .error _) => ({ s with cache := c }, "retry")
      | none => (s, "none")
    | _, _ => (s, "bad-op")
  | ["epochnm", id] =>
    match id.toNat? with
    | some id =>
      match s.cache.byID id with
      | some e =>
        -- the store answers with the live regions that intersect the cached range
        let cur := s.live.filter (fun p =>
          (e.r.endKey.isEmpty || Bytes.lt p.r.start e.r.endKey) && (p.r.endKey.isEmpty || Bytes.lt e.r.start p.r.endKey))
        match onRegionEpochNotMatch s.cache e.r.verID e.leader cur with
        | (c, .ok _) => ({ s with cache := c }, verdict [(noRegress s.cache c, "regress"), latestCheck s.cache c])
        | (c, .error _) => ({ s with cache := c }, "retry")
      | none => (s, "none")
    | none => (s, "bad-op")
  | w =>
    match topo s.live w with
    | some pd' => ({ s with live := pd', hist := s.hist.push pd' }, "ok " ++ fmtPD pd')
    | none => (s, "bad-op")

def main : IO Unit := runDriver St.init step
