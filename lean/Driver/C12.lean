import ClientGoVerif.Model.Mvcc
import ClientGoVerif.Model.Proto
open CGV CGV.Mvcc

def kerrStr : KErr → String
  | .locked k p s f ttl sz t => s!"locked({hexOrTilde k},{hexOrTilde p},{s},{f},{ttl},{sz},{t.code})"
  | .alreadyExist k => s!"exist({hexOrTilde k})"
  | .conflict s ct cc k f => s!"conflict({s},{ct},{cc},{hexOrTilde k},{showBool f})"
  | .deadlock k t => s!"deadlock({hexOrTilde k},{t})"
  | .retryable => "retryable"
  | .abort _ => "abort"
  | .alreadyCommitted c => s!"committed({c})"
  | .alreadyRollbacked s k => s!"rolledback({s},{hexOrTilde k})"
  | .commitTsExpired s a k m => s!"expired({s},{a},{hexOrTilde k},{m})"
  | .txnNotFound s p => s!"notfound({s},{hexOrTilde p})"
  | .assertionFailed s k a es ec =>
    let ac := match a with | .none => 0 | .exist => 1 | .notExist => 2
    s!"assert({s},{hexOrTilde k},{ac},{es},{ec})"

def pairStr : Pair → String
  | .kv k v c => s!"{hexOrTilde k}={hexOrTilde v}@{c}"
  | .err e => s!"E:{kerrStr e}"

def optBytes : Option Bytes → String
  | none => "~" | some v => hexOrTilde v

def parseAssertion : String → Option Assertion
  | "0" => some .none | "1" => some .exist | "2" => some .notExist | _ => none
def parseAction : String → Option PAction
  | "0" => some .skip | "1" => some .doCheck | "2" => some .doNotCheck | _ => none

/-- mutation token `op:key:value:assertion:action` -/
def parseMut (s : String) : Option (Mutation × PAction) :=
  match s.splitOn ":" with
  | [op, k, v, a, act] => do
    let op ← op.toNat? >>= Op.ofCode
    let k ← if k == "~" then some [] else parseHex k
    let v ← if v == "~" then some [] else parseHex v
    let a ← parseAssertion a
    let act ← parseAction act
    pure ({ op := op, key := k, value := v, assertion := a }, act)
  | _ => none

def parseMuts (s : String) : Option (List (Mutation × PAction)) := (splitList s).mapM parseMut

def hx (s : String) : Option Bytes := if s == "~" then some [] else parseHex s

def parsePairs (s : String) : Option (List (Nat × Nat)) :=
  (splitList s).mapM fun x => match x.splitOn ":" with
    | [a, b] => do pure ((← a.toNat?), (← b.toNat?))
    | _ => none

def lockStr (l : Lock) : String :=
  s!"L({l.startTS},{hexOrTilde l.primary},{hexOrTilde l.value},{l.op.code},{l.ttl},{l.forUpdateTS},{l.txnSize},{l.minCommitTS})"
def writeStr (w : Write) : String := s!"W({w.vt.code},{w.startTS},{w.commitTS},{hexOrTilde w.value})"

def dumpEntry (e : Entry) : String :=
  let l := match e.lock with | some l => lockStr l | none => "L-"
  l ++ " " ++ showList (e.writes.map writeStr)

def dumpAll (s : Store) : String :=
  showList (s.kv.map fun (k, e) => hexOrTilde k ++ "→" ++ dumpEntry e)

def plRespStr (r : PLResp) : String :=
  if r.panic then "panic" else
  let res := r.results.map fun x => match x with
    | .normal v e => s!"N({optBytes v},{showBool e})"
    | .lockedWithConflict v e c => s!"C({optBytes v},{showBool e},{c})"
    | .failed => "F"
  -- the response carries wire KeyErrors: AlreadyRollbacked has no wire form of its own (Abort)
  let wire (e : KErr) : String := match e with | .alreadyRollbacked .. => "abort" | e => kerrStr e
  s!"errs={showList (r.errors.map wire)} res={showList res} vals={showList (r.values.map optBytes)} nf={showList (r.notFounds.map showBool)}"

/-- executes one raw command; returns new store and the canonical answer -/
def exec (s : Store) (w : List String) : Option (Store × String) :=
  match w with
  | ["get", k, ts, si, rs] => do
    let k ← hx k; let ts ← ts.toNat?; let si ← parseBool si; let rs ← parseNatList rs
    match getValue (getEntry s.kv k) k ts si rs with
    | .ok none => pure (s, "ok ~ 0")
    | .ok (some wr) => pure (s, s!"ok {hexOrTilde wr.value} {wr.commitTS}")
    | .error e => pure (s, s!"err {kerrStr e}")
  | ["bget", ks, ts, si, rs] => do
    let ks ← parseHexList ks; let ts ← ts.toNat?; let si ← parseBool si; let rs ← parseNatList rs
    pure (s, showList ((batchGet s ks ts si rs).map pairStr))
  | ["scan", a, b, lim, ts, si, rs] => do
    let a ← hx a; let b ← hx b; let lim ← lim.toNat?; let ts ← ts.toNat?; let si ← parseBool si; let rs ← parseNatList rs
    pure (s, showList ((scan s a b lim ts si rs).map pairStr))
  | ["rscan", a, b, lim, ts, si, rs] => do
    let a ← hx a; let b ← hx b; let lim ← lim.toNat?; let ts ← ts.toNat?; let si ← parseBool si; let rs ← parseNatList rs
    pure (s, showList ((reverseScan s a b lim ts si rs).map pairStr))
  | ["prewrite", p, st, fu, ttl, mc, sz, ao, rs, ms] => do
    let p ← hx p; let st ← st.toNat?; let fu ← fu.toNat?; let ttl ← ttl.toNat?; let mc ← mc.toNat?
    let sz ← sz.toNat?; let ao ← parseBool ao; let rs ← parseNatList rs; let ms ← parseMuts ms
    let allSkip := ms.all fun x => x.2 == .skip
    let req : PrewriteReq := {
      mutations := ms.map (·.1), primary := p, startTS := st, forUpdateTS := fu, ttl := ttl,
      minCommitTS := mc, txnSize := sz, actions := if allSkip then [] else ms.map (·.2), assertOn := ao, resolved := rs }
    let (s', errs) := prewrite s req
    pure (s', showList (errs.map fun e => match e with | some e => kerrStr e | none => "nil"))
  | ["plock", p, st, fu, ttl, mc, flags, ms] => do
    let p ← hx p; let st ← st.toNat?; let fu ← fu.toNat?; let ttl ← ttl.toNat?; let mc ← mc.toNat?
    let ms ← parseMuts ms
    let has (c : Char) := flags.toList.contains c
    let req : PLReq := {
      mutations := ms.map (·.1), primary := p, startTS := st, forUpdateTS := fu, ttl := ttl, minCommitTS := mc,
      returnValues := has 'r', checkExistence := has 'c', lockOnlyIfExists := has 'e',
      wakeUp := if has 'f' then .forceLock else .normal, noWait := has 'n' }
    let (s', r) := pessimisticLock s req
    pure (s', plRespStr r)
  | ["prollback", a, b, ks, st, fu] => do
    let a ← hx a; let b ← hx b; let ks ← parseHexList ks; let st ← st.toNat?; let fu ← fu.toNat?
    pure (pessimisticRollback s a b ks st fu, "ok")
  | ["commit", ks, st, ct] => do
    let ks ← parseHexList ks; let st ← st.toNat?; let ct ← ct.toNat?
    let (s', e) := commit s ks st ct
    pure (s', match e with | none => "ok" | some e => s!"err {kerrStr e}")
  | ["rollback", ks, st] => do
    let ks ← parseHexList ks; let st ← st.toNat?
    let (s', e) := rollback s ks st
    pure (s', match e with | none => "ok" | some e => s!"err {kerrStr e}")
  | ["cleanup", k, st, cur] => do
    let k ← hx k; let st ← st.toNat?; let cur ← cur.toNat?
    let (s', e) := cleanup s k st cur
    pure (s', match e with | none => "ok" | some e => s!"err {kerrStr e}")
  | ["status", p, lt, cs, cur, rb, rp] => do
    let p ← hx p; let lt ← lt.toNat?; let cs ← cs.toNat?; let cur ← cur.toNat?; let rb ← parseBool rb; let rp ← parseBool rp
    let (s', r) := checkTxnStatus s p lt cs cur rb rp
    pure (s', match r.err with
      | some e => s!"err {kerrStr e}"
      | none => s!"ok ttl={r.ttl} commit={r.commitTS} action={r.action.code}")
  | ["heartbeat", k, st, adv] => do
    let k ← hx k; let st ← st.toNat?; let adv ← adv.toNat?
    let (s', r) := heartBeat s k st adv
    pure (s', match r with | .ok t => s!"ok {t}" | .error e => s!"err {kerrStr e}")
  | ["scanlock", a, b, mx] => do
    let a ← hx a; let b ← hx b; let mx ← mx.toNat?
    pure (s, showList ((scanLock s a b mx).map fun (k, p, t) => s!"{hexOrTilde k}/{hexOrTilde p}/{t}"))
  | ["resolve", a, b, st, ct] => do
    let a ← hx a; let b ← hx b; let st ← st.toNat?; let ct ← ct.toNat?
    pure (resolveLock s a b st ct, "ok")
  | ["bresolve", a, b, infos] => do
    let a ← hx a; let b ← hx b; let infos ← parsePairs infos
    pure (batchResolveLock s a b infos, "ok")
  | ["gc", a, b, sp] => do
    let a ← hx a; let b ← hx b; let sp ← sp.toNat?
    let (s', blocked) := gc s a b sp
    pure (s', match blocked with | none => "ok" | some _ => "err locked")
  | ["delrange", a, b] => do
    let a ← hx a; let b ← hx b
    pure (deleteRange s a b, "ok")
  | ["dump", k] => do
    let k ← hx k
    pure (s, dumpEntry (getEntry s.kv k))
  | _ => none

/-! property ops: the oracle of C12 evaluated on this side's own store -/

/-- on one key no transaction is both committed and rolled back -/
def auditKey (e : Entry) : Bool :=
  e.writes.all fun w =>
    w.vt != .rollback || e.writes.all fun w' => !(w'.startTS == w.startTS && w'.vt != .rollback)

/-- a scan equals the per-key gets of its range, and a reverse scan is its mirror image -/
def scanEq (s : Store) (a b : Bytes) (ts : Nat) (si : Bool) (rs : List Nat) (pool : List Bytes) : Bool :=
  let fwd := (scan s a b 1000 ts si rs).map pairStr
  let rev := (reverseScan s a b 1000 ts si rs).map pairStr
  let gets := (pool.filter fun k => inRange a b k).filterMap fun k =>
    match getValue (getEntry s.kv k) k ts si rs with
    | .ok none => none
    | .ok (some w) => some (pairStr (.kv k w.value 0))
    | .error e => some (pairStr (.err e))
  fwd == gets && rev == fwd.reverse

def readsAt (s : Store) (pool : List Bytes) (tss : List Nat) : List String :=
  tss.flatMap fun ts => pool.map fun k =>
    match getValue (getEntry s.kv k) k ts false [] with     -- RC: the committed data only
    | .ok none => "~"
    | .ok (some w) => hexOrTilde w.value
    | .error _ => "E"

def step (s : Store) (line : String) : Store × String :=
  match words line with
  | ["reset"] => ({}, "ok")
  | ["dumpall"] => (s, dumpAll s)
  | ["audit"] => (s, if s.kv.all (fun p => auditKey p.2) then "ok" else "FAIL both-committed-and-rolled-back")
  | "idem" :: cmd =>
    -- run the command twice: same answer, and the second run changes nothing
    match exec s cmd with
    | none => (s, "bad-op")
    | some (s1, r1) =>
      match exec s1 cmd with
      | none => (s1, "bad-op")
      | some (s2, r2) =>
        let cmpR (r : String) := if cmd.head? == some "status" then (r.splitOn " action=").head! else r
        -- "a command whose effect is already in place": for commit, the effect is a data record of the
        -- transaction on every key (committing a bare pessimistic lock leaves nothing a repetition could see)
        let inPlace : Bool := match cmd with
          | ["commit", ks, st, _] =>
            match parseHexList ks, st.toNat? with
            | some ks, some st => ks.all fun k => (getEntry s1.kv k).writes.any fun w => w.startTS == st && w.vt != .rollback
            | _, _ => false
          | _ => true
        if !inPlace then (s2, "ok n/a")
        else if cmpR r1 != cmpR r2 then (s2, s!"FAIL answers differ: {r1} | {r2}")
        else if dumpAll s1 != dumpAll s2 then (s2, "FAIL second run changed the store")
        else (s2, s!"ok {r1}")
  | ["scaneq", a, b, ts, si, rs, pool] =>
    match hx a, hx b, ts.toNat?, parseBool si, parseNatList rs, parseHexList pool with
    | some a, some b, some ts, some si, some rs, some pool =>
      (s, if scanEq s a b ts si rs pool then "ok" else "FAIL scan-vs-gets")
    | _, _, _, _, _, _ => (s, "bad-op")
  | ["late", k, st] =>
    -- a prewrite arriving after the transaction's own commit or rollback on the key must be rejected
    match hx k, st.toNat? with
    | some k, some st =>
      let e := getEntry s.kv k
      if (e.writes.any fun w => w.startTS == st) then
        let req : PrewriteReq := { mutations := [{ op := .put, key := k, value := [0x4c] }], primary := k, startTS := st, ttl := 1 }
        let (s', errs) := prewrite s req
        (s', if errs.any Option.isSome then "ok rejected" else "FAIL late prewrite accepted")
      else (s, "ok n/a")
    | _, _ => (s, "bad-op")
  | ["gcprop", sp, pool] =>
    match sp.toNat?, parseHexList pool with
    | some sp, some pool =>
      let tss := [sp, sp + 1, sp + 1000, maxU64]
      let before := readsAt s pool tss
      let (s', blocked) := gc s [] [] sp
      match blocked with
      | some _ =>
        if s.kv.any (fun p => match p.2.lock with | some l => l.startTS ≤ sp | none => false) then (s', "ok refused")
        else (s', "FAIL gc refused without a lock at or below the safe point")
      | none =>
        if s.kv.any (fun p => match p.2.lock with | some l => l.startTS ≤ sp | none => false) then (s', "FAIL gc ran over a lock at or below the safe point")
        else if readsAt s' pool tss == before then (s', "ok") else (s', "FAIL gc changed a read at or above the safe point")
    | _, _ => (s, "bad-op")
  | ["ownplock", k, st, fu] =>
    -- C12: a pessimistic lock request over the transaction's own prewrite lock is refused
    match hx k, st.toNat?, fu.toNat? with
    | some k, some st, some fu =>
      match (getEntry s.kv k).lock with
      | some l =>
        if l.startTS == st && l.op != .pessimisticLock then
          let req : PLReq := { mutations := [{ op := .pessimisticLock, key := k }], primary := k, startTS := st, forUpdateTS := fu, ttl := 5, noWait := true }
          let (s', r) := pessimisticLock s req
          if r.errors.isEmpty then (s', "FAIL pessimistic lock over own prewrite lock accepted")
          else if dumpEntry (getEntry s'.kv k) != dumpEntry (getEntry s.kv k) then (s', "FAIL refused but lock changed")
          else (s', "ok refused")
        else (s, "ok n/a")
      | none => (s, "ok n/a")
    | _, _, _ => (s, "bad-op")
  | ["ownpessprewrite", k, st] =>
    -- C12: a prewrite over the transaction's own pessimistic lock is not re-checked for write conflicts
    match hx k, st.toNat? with
    | some k, some st =>
      match (getEntry s.kv k).lock with
      | some l =>
        if l.startTS == st && l.op == .pessimisticLock then
          let req : PrewriteReq := { mutations := [{ op := .put, key := k, value := [0x50] }], primary := l.primary, startTS := st, forUpdateTS := l.forUpdateTS, ttl := l.ttl, actions := [.doCheck] }
          let (s', errs) := prewrite s req
          let isConflict := errs.any fun e => match e with | some (.conflict ..) => true | _ => false
          (s', if isConflict then "FAIL write conflict re-checked over own pessimistic lock" else "ok")
        else (s, "ok n/a")
      | none => (s, "ok n/a")
    | _, _ => (s, "bad-op")
  | ["pesscommit", k, st, ct] =>
    -- C12: committing a leftover pessimistic lock changes no data
    match hx k, st.toNat?, ct.toNat? with
    | some k, some st, some ct =>
      match (getEntry s.kv k).lock with
      | some l =>
        if l.startTS == st && l.op == .pessimisticLock && l.minCommitTS ≤ ct then
          let before := readsAt s [k] [maxU64]
          let (s', e) := commit s [k] st ct
          if e.isSome then (s', "FAIL commit of pessimistic lock failed")
          else if readsAt s' [k] [maxU64] != before then (s', "FAIL committing a pessimistic lock changed data")
          else (s', "ok")
        else (s, "ok n/a")
      | none => (s, "ok n/a")
    | _, _, _ => (s, "bad-op")
  | "marker" :: cmd =>
    -- C12: a rollback (batch rollback, cleanup, status check, resolve) leaves a marker
    let target : Option (List Bytes × Nat) := match cmd with
      | ["cleanup", k, st, _] => do pure ([← hx k], ← st.toNat?)
      | ["rollback", k, st] => do pure ([← hx k], ← st.toNat?)
      | ["status", p, lt, _, _, "1", "0"] => do pure ([← hx p], ← lt.toNat?)
      | ["resolve", "~", "~", st, "0"] => do
        let st ← st.toNat?
        pure ((s.kv.filter fun p => match p.2.lock with | some l => l.startTS == st | none => false).map (·.1), st)
      | _ => none
    match target with
    | none => (s, "bad-op")
    | some (keys, st) =>
      match exec s cmd with
      | none => (s, "bad-op")
      | some (s', r) =>
        -- the command answered without error, and afterwards the transaction has neither a lock nor a data
        -- record on the key: it was rolled back there, so a marker must be present
        let answered := r == "ok" || r.startsWith "ok ttl=0 commit=0"
        let gone (k : Bytes) : Bool :=
          let e := getEntry s'.kv k
          (match e.lock with | some l => l.startTS != st | none => true) &&
            !(e.writes.any fun w => w.startTS == st && w.vt != .rollback)
        if !answered || !(keys.all gone) then (s', "ok n/a")
        else if keys.all fun k => (getEntry s'.kv k).writes.any fun w => w.vt == .rollback && w.startTS == st then (s', "ok marker")
        else (s', "FAIL rollback left no marker")
  | w =>
    match exec s w with
    | some (s', r) => (s', r)
    | none => (s, "bad-op")

def main : IO Unit := runDriver ({} : Store) step
