import ClientGoVerif.Model.MvccProto
open CGV CGV.Mvcc CGV.MvccProto

/-! property ops: the oracle of C12 evaluated on this side's own store -/

/-- on one key no transaction is both committed and rolled back -/
def auditKey (e : Entry) : Bool :=
  e.writes.all fun w =>
    w.vt != .rollback || e.writes.all fun w' => !(w'.startTS == w.startTS && w'.vt != .rollback)

/-- a scan equals the per-key gets of its range, and a reverse scan is its mirror image -/
def scanEq (s : Store) (a b : Bytes) (ts : Nat) (si : Bool) (rs : List Nat) (pool : List Bytes) : Bool :=
  let fwd := (scan s a b 1000 ts si rs).map pairStr
  let rev := (reverseScan s a b 1000 ts si rs).map pairStr
  let gets := (pool.filter fun k => inRange a b k).filterMap fun k =>
    match getValue (getEntry s.kv k) k ts si rs with
    | .ok none => none
    | .ok (some w) => some (pairStr (.kv k w.value 0))
    | .error e => some (pairStr (.err e))
  fwd == gets && rev == fwd.reverse

def readsAt (s : Store) (pool : List Bytes) (tss : List Nat) : List String :=
  tss.flatMap fun ts => pool.map fun k =>
    match getValue (getEntry s.kv k) k ts false [] with     -- RC: the committed data only
    | .ok none => "~"
    | .ok (some w) => hexOrTilde w.value
    | .error _ => "E"

def step (s : Store) (line : String) : Store × String :=
  match words line with
  | ["reset"] => ({}, "ok")
  | ["dumpall"] => (s, dumpAll s)
  | ["audit"] => (s, if s.kv.all (fun p => auditKey p.2) then "ok" else "FAIL both-committed-and-rolled-back")
  | "idem" :: cmd =>
    -- run the command twice: same answer, and the second run changes nothing
    match exec s cmd with
    | none => (s, "bad-op")
    | some (s1, r1) =>
      match exec s1 cmd with
      | none => (s1, "bad-op")
      | some (s2, r2) =>
        let cmpR (r : String) := if cmd.head? == some "status" then (r.splitOn " action=").head! else r
        -- "a command whose effect is already in place": for commit, the effect is a data record of the
        -- transaction on every key (committing a bare pessimistic lock leaves nothing a repetition could see)
        let inPlace : Bool := match cmd with
          | ["commit", ks, st, _] =>
            match parseHexList ks, st.toNat? with
            | some ks, some st => ks.all fun k => (getEntry s1.kv k).writes.any fun w => w.startTS == st && w.vt != .rollback
            | _, _ => false
          | _ => true
        if !inPlace then (s2, "ok n/a")
        else if cmpR r1 != cmpR r2 then (s2, s!"FAIL answers differ: {r1} | {r2}")
        else if dumpAll s1 != dumpAll s2 then (s2, "FAIL second run changed the store")
        else (s2, s!"ok {r1}")
  | ["scaneq", a, b, ts, si, rs, pool] =>
    match hx a, hx b, ts.toNat?, parseBool si, parseNatList rs, parseHexList pool with
    | some a, some b, some ts, some si, some rs, some pool =>
      (s, if scanEq s a b ts si rs pool then "ok" else "FAIL scan-vs-gets")
    | _, _, _, _, _, _ => (s, "bad-op")
  | ["late", k, st] =>
    -- a prewrite arriving after the transaction's own commit or rollback on the key must be rejected
    match hx k, st.toNat? with
    | some k, some st =>
      let e := getEntry s.kv k
      if (e.writes.any fun w => w.startTS == st) then
        let req : PrewriteReq := { mutations := [{ op := .put, key := k, value := [0x4c] }], primary := k, startTS := st, ttl := 1 }
        let (s', errs) := prewrite s req
        (s', if errs.any Option.isSome then "ok rejected" else "FAIL late prewrite accepted")
      else (s, "ok n/a")
    | _, _ => (s, "bad-op")
  | ["gcprop", sp, pool] =>
    match sp.toNat?, parseHexList pool with
    | some sp, some pool =>
      let tss := [sp, sp + 1, sp + 1000, maxU64]
      let before := readsAt s pool tss
      let (s', blocked) := gc s [] [] sp
      match blocked with
      | some _ =>
        if s.kv.any (fun p => match p.2.lock with | some l => l.startTS ≤ sp | none => false) then (s', "ok refused")
        else (s', "FAIL gc refused without a lock at or below the safe point")
      | none =>
        if s.kv.any (fun p => match p.2.lock with | some l => l.startTS ≤ sp | none => false) then (s', "FAIL gc ran over a lock at or below the safe point")
        else if readsAt s' pool tss == before then (s', "ok") else (s', "FAIL gc changed a read at or above the safe point")
    | _, _ => (s, "bad-op")
  | ["ownplock", k, st, fu] =>
    -- C12: a pessimistic lock request over the transaction's own prewrite lock is refused
    match hx k, st.toNat?, fu.toNat? with
    | some k, some st, some fu =>
      match (getEntry s.kv k).lock with
      | some l =>
        if l.startTS == st && l.op != .pessimisticLock then
          let req : PLReq := { mutations := [{ op := .pessimisticLock, key := k }], primary := k, startTS := st, forUpdateTS := fu, ttl := 5, noWait := true }
          let (s', r) := pessimisticLock s req
          if r.errors.isEmpty then (s', "FAIL pessimistic lock over own prewrite lock accepted")
          else if dumpEntry (getEntry s'.kv k) != dumpEntry (getEntry s.kv k) then (s', "FAIL refused but lock changed")
          else (s', "ok refused")
        else (s, "ok n/a")
      | none => (s, "ok n/a")
    | _, _, _ => (s, "bad-op")
  | ["ownpessprewrite", k, st] =>
    -- C12: a prewrite over the transaction's own pessimistic lock is not re-checked for write conflicts
    match hx k, st.toNat? with
    | some k, some st =>
      match (getEntry s.kv k).lock with
      | some l =>
        if l.startTS == st && l.op == .pessimisticLock then
          let req : PrewriteReq := { mutations := [{ op := .put, key := k, value := [0x50] }], primary := l.primary, startTS := st, forUpdateTS := l.forUpdateTS, ttl := l.ttl / 2, actions := [.doCheck] }
          let (s', errs) := prewrite s req
          let isConflict := errs.any fun e => match e with | some (.conflict ..) => true | _ => false
          let lost := !(errs.any Option.isSome) && (match (getEntry s'.kv k).lock with
            | some n => n.startTS == st && n.op != .pessimisticLock && (n.ttl < l.ttl || (l.primary == k && n.minCommitTS < l.minCommitTS))
            | none => false)
          (s', if isConflict then "FAIL write conflict re-checked over own pessimistic lock"
               else if lost then "FAIL prewrite over own pessimistic lock lost its ttl or min-commit-ts" else "ok")
        else (s, "ok n/a")
      | none => (s, "ok n/a")
    | _, _ => (s, "bad-op")
  | ["pesscommit", k, st, ct] =>
    -- C12: committing a leftover pessimistic lock changes no data
    match hx k, st.toNat?, ct.toNat? with
    | some k, some st, some ct =>
      match (getEntry s.kv k).lock with
      | some l =>
        if l.startTS == st && l.op == .pessimisticLock && l.minCommitTS ≤ ct then
          let before := readsAt s [k] [maxU64]
          let (s', e) := commit s [k] st ct
          if e.isSome then (s', "FAIL commit of pessimistic lock failed")
          else if readsAt s' [k] [maxU64] != before then (s', "FAIL committing a pessimistic lock changed data")
          else (s', "ok")
        else (s, "ok n/a")
      | none => (s, "ok n/a")
    | _, _, _ => (s, "bad-op")
  | "marker" :: cmd =>
    -- C12: a rollback (batch rollback, cleanup, status check, resolve) leaves a marker
    let target : Option (List Bytes × Nat) := match cmd with
      | ["cleanup", k, st, _] => do pure ([← hx k], ← st.toNat?)
      | ["rollback", k, st] => do pure ([← hx k], ← st.toNat?)
      | ["status", p, lt, _, _, "1", "0"] => do pure ([← hx p], ← lt.toNat?)
      | ["resolve", "~", "~", st, "0"] => do
        let st ← st.toNat?
        pure ((s.kv.filter fun p => match p.2.lock with | some l => l.startTS == st | none => false).map (·.1), st)
      | _ => none
    match target with
    | none => (s, "bad-op")
    | some (keys, st) =>
      match exec s cmd with
      | none => (s, "bad-op")
      | some (s', r) =>
        -- the command answered without error, and afterwards the transaction has neither a lock nor a data
        -- record on the key: it was rolled back there, so a marker must be present
        let answered := r == "ok" || r.startsWith "ok ttl=0 commit=0"
        let gone (k : Bytes) : Bool :=
          let e := getEntry s'.kv k
          (match e.lock with | some l => l.startTS != st | none => true) &&
            !(e.writes.any fun w => w.startTS == st && w.vt != .rollback)
        if !answered || !(keys.all gone) then (s', "ok n/a")
        else if keys.all fun k => (getEntry s'.kv k).writes.any fun w => w.vt == .rollback && w.startTS == st then (s', "ok marker")
        else (s', "FAIL rollback left no marker")
  | w =>
    match exec s w with
    | some (s', r) => (s', r)
    | none => (s, "bad-op")

def main : IO Unit := runDriver ({} : Store) step
