import ClientGoVerif.Model.ApiV2
open CGV CGV.ApiV2

def parseKs (m id : String) : Option Keyspace := do
  let mode ← match m with
    | "r" => some Mode.raw
    | "x" => some Mode.txn
    | _ => none
  let n ← id.toNat?
  if n ≤ Gen.maxKeyspaceID then some ⟨mode, n⟩ else none

def showE {α} (f : α → String) : Except Err α → String
  | .ok v => s!"ok {f v}"
  | .error e => s!"err {e.str}"

def pairStr (p : Bytes × Bytes) : String := s!"{Bytes.toHex p.1} {Bytes.toHex p.2}"

def parseBool (s : String) : Option Bool :=
  match s with | "0" => some false | "1" => some true | _ => none

def parsePairs : List String → Option (List (Bytes × Bytes))
  | [] => some []
  | [_] => none
  | a :: b :: rest => do
    let x ← parseHex a
    let y ← parseHex b
    let r ← parsePairs rest
    pure ((x, y) :: r)

def okStr (b : Bool) (what : String) : String := if b then "ok" else s!"FAIL {what}"

def step (_ : Unit) (line : String) : Unit × String :=
  let bad := "bad-op"
  let out : String :=
    match words line with
    | ["bounds", m, id] =>
      match parseKs m id with
      | some ks => s!"{Bytes.toHex ks.pfx} {Bytes.toHex ks.endKey}"
      | none => bad
    | ["enckey", m, id, k] =>
      match parseKs m id, parseHex k with
      | some ks, some k => Bytes.toHex (encodeKey ks k)
      | _, _ => bad
    | ["deckey", m, id, e] =>
      match parseKs m id, parseHex e with
      | some ks, some e => showE Bytes.toHex (decodeKey ks e)
      | _, _ => bad
    | ["encrange", m, id, rev, s, e] =>
      match parseKs m id, parseBool rev, parseHex s, parseHex e with
      | some ks, some rev, some s, some e => pairStr (encodeRange ks s e rev)
      | _, _, _, _ => bad
    -- EncodeRequest on a command that carries a (start_key, end_key) pair: the model is `encodeRange`
    | ["reqrange", _cmd, m, id, rev, s, e] =>
      match parseKs m id, parseBool rev, parseHex s, parseHex e with
      | some ks, some rev, some s, some e => pairStr (encodeRange ks s e rev)
      | _, _, _, _ => bad
    | ["decrange", m, id, s, e] =>
      match parseKs m id, parseHex s, parseHex e with
      | some ks, some s, some e => showE pairStr (decodeRange ks s e)
      | _, _, _ => bad
    | ["encregkey", m, id, k] =>
      match parseKs m id, parseHex k with
      | some ks, some k => Bytes.toHex (encodeRegionKey ks k)
      | _, _ => bad
    | ["decregkey", m, id, e] =>
      match parseKs m id, parseHex e with
      | some ks, some e => showE Bytes.toHex (decodeRegionKey ks e)
      | _, _ => bad
    | ["encregrange", m, id, s, e] =>
      match parseKs m id, parseHex s, parseHex e with
      | some ks, some s, some e => pairStr (encodeRegionRange ks s e)
      | _, _, _ => bad
    | ["decregrange", m, id, s, e] =>
      match parseKs m id, parseHex s, parseHex e with
      | some ks, some s, some e => showE pairStr (decodeRegionRange ks s e)
      | _, _, _ => bad
    | "regerr" :: m :: id :: rest =>
      match parseKs m id, parsePairs rest with
      | some ks, some ps => showE (fun l => s!"{l.length}" ++ String.join (l.map fun p => " " ++ pairStr p)) (decodeRegions ks ps)
      | _, _ => bad
    | "buckets" :: m :: id :: rest =>
      match parseKs m id, rest.mapM parseHex with
      | some ks, some keys =>
        showE (fun l => s!"{l.length}" ++ String.join (l.map fun k => " " ++ Bytes.toHex k)) (decodeBucketKeys ks keys)
      | _, _ => bad
    -- property ops: the property's own oracle evaluated on this side's functions
    | "regclip" :: m :: id :: rest =>
      match parseKs m id, parsePairs rest with
      | some ks, some ps =>
        match decodeRegions ks ps with
        | .ok l =>
          let want := ps.filterMap fun p => match decodeRegionRange ks p.1 p.2 with | .ok r => some r | .error _ => none
          let clean := ps.all fun p => match decodeRegionRange ks p.1 p.2 with | .error .decode => false | _ => true
          okStr (clean && l == want) "foreign-or-unclipped-region"
        | .error .decode => "err decode"
        | .error _ => "FAIL region-list-err"
      | _, _ => bad
    | ["rt", m, id, k] =>
      match parseKs m id, parseHex k with
      | some ks, some k =>
        match decodeKey ks (encodeKey ks k), decodeRegionKey ks (encodeRegionKey ks k) with
        | .ok a, .ok b => okStr (a = k ∧ b = k) "roundtrip"
        | _, _ => "FAIL roundtrip-err"
      | _, _ => bad
    | ["rtrange", m, id, s, e] =>
      match parseKs m id, parseHex s, parseHex e with
      | some ks, some s, some e =>
        let p := encodeRange ks s e false
        let q := encodeRegionRange ks s e
        match decodeRange ks p.1 p.2, decodeRegionRange ks q.1 q.2 with
        | .ok a, .ok b => okStr (a = (s, e) ∧ b = (s, e)) "range-roundtrip"
        | _, _ => "FAIL range-roundtrip-err"
      | _, _, _ => bad
    | ["ord", m, id, a, b] =>
      match parseKs m id, parseHex a, parseHex b with
      | some ks, some a, some b =>
        okStr (Bytes.cmp (encodeKey ks a) (encodeKey ks b) == Bytes.cmp a b
            && Bytes.cmp (encodeRegionKey ks a) (encodeRegionKey ks b) == Bytes.cmp a b) "order"
      | _, _, _ => bad
    | ["inrange", m, id, rev, k, s, e] =>
      match parseKs m id, parseBool rev, parseHex k, parseHex s, parseHex e with
      | some ks, some rev, some k, some s, some e =>
        let p := encodeRange ks s e rev
        let x := encodeKey ks k
        if rev then okStr (inInterval x p.2 p.1 == inRangeRev k s e) "reverse-range"
        else okStr (inInterval x p.1 p.2 == inRange k s e) "range"
      | _, _, _, _, _ => bad
    | ["disj", m1, id1, m2, id2, s1, e1, s2, e2, k] =>
      match parseKs m1 id1, parseKs m2 id2, parseHex s1, parseHex e1, parseHex s2, parseHex e2, parseHex k with
      | some a, some b, some s1, some e1, some s2, some e2, some k =>
        if a = b then bad else
        let p := encodeRange a s1 e1 false
        let q := encodeRange b s2 e2 false
        let lo := if Bytes.lt p.1 q.1 then q.1 else p.1
        let hi := if Bytes.lt p.2 q.2 then p.2 else q.2
        let foreignKey := match decodeKey b (encodeKey a k) with | .error .outOfBound => true | _ => false
        let foreignRange := match decodeRange b p.1 p.2 with | .error .outOfBound => true | _ => false
        if Bytes.lt lo hi then "FAIL overlap"
        else if !foreignKey then "FAIL foreign-key-accepted"
        else if !foreignRange then "FAIL foreign-range-accepted"
        else "ok"
      | _, _, _, _, _, _, _ => bad
    | ["clip", m, id, rs, re, k] =>
      match parseKs m id, parseHex rs, parseHex re, parseHex k with
      | some ks, some rs, some re, some k =>
        let inReg := inRegion (encodeKey ks k) rs re
        match decodeRange ks rs re with
        | .ok (s, e) => okStr (inRange k s e == inReg) "clip-not-intersection"
        | .error .outOfBound => okStr (!inReg) "rejected-but-intersects"
        | .error _ => "FAIL clip-err"
      | _, _, _, _ => bad
    | _ => bad
  ((), out)

def main : IO Unit := runDriver () step
