import ClientGoVerif.Model.UnionIter
open CGV CGV.Overlay CGV.UnionIter

/-- what the harness records at `staging` / `cp`: the full forward listing and the answer of `Get` for every key
seen so far -/
structure View where
  list : List KV
  gets : List (Bytes × Option Bytes)

structure DState where
  snap : List KV := []
  sealed : Bool := false
  buf : Buf := Buf.empty
  seenKeys : List Bytes := []
  stageViews : List View := []          -- innermost first
  cps : List (List KV × View) := []     -- oldest first

def kvStr (kv : KV) : String := s!"{Bytes.toHex kv.1}:{Bytes.toHex kv.2}"
def listing (l : List KV) : String := l.foldl (fun acc kv => acc ++ " " ++ kvStr kv) "kvs"
def getStr : Option Bytes → String
  | some v => s!"val {Bytes.toHex v}"
  | none => "notfound"

def parseBound (s : String) : Option Bytes := if s == "nil" then some [] else parseHex s
def parseAll (ws : List String) : Option (List Bytes) := ws.mapM parseHex

def DState.get (s : DState) (k : Bytes) : Option Bytes := unionGet s.snap s.buf.cur k
def DState.scan (s : DState) (lo hi : Bytes) (rev : Bool) : List KV := storeIter s.snap s.buf.cur lo hi rev
def DState.record (s : DState) : View := ⟨s.scan [] [] false, s.seenKeys.map fun k => (k, s.get k)⟩
def DState.see (s : DState) (k : Bytes) : DState := { s with seenKeys := insertKey k s.seenKeys }

def lookupGet : List (Bytes × Option Bytes) → Bytes → Option Bytes
  | [], _ => none
  | (k', g) :: r, k => if k' = k then g else lookupGet r k

def DState.sameView (s : DState) (old : View) : String :=
  let now := s.record
  if now.list ≠ old.list then "FAIL view-differs iter"
  else if now.gets.all fun (k, g) => lookupGet old.gets k == g then "ok"
  else "FAIL view-differs get"

def strictlyBefore (rev : Bool) : List KV → Bool
  | a :: b :: r => (if rev then Bytes.lt b.1 a.1 else Bytes.lt a.1 b.1) && strictlyBefore rev (b :: r)
  | _ => true

/-- the property oracle of `pview`, on the model's own functions -/
def DState.pview (s : DState) (lo hi : Bytes) : DState × String :=
  let f := s.scan lo hi false
  let r := s.scan lo hi true
  let s := f.foldl (fun s kv => s.see kv.1) s
  let res :=
    if !strictlyBefore false f then "FAIL forward-not-strictly-ascending"
    else if !f.all (fun kv => inRange lo hi kv.1) then "FAIL forward-out-of-bounds"
    else if !strictlyBefore true r then "FAIL reverse-not-strictly-descending"
    else if !r.all (fun kv => inRange lo hi kv.1) then "FAIL reverse-out-of-bounds"
    else if r.reverse ≠ f then "FAIL forward-reverse-differ"
    else
      let inKeys := s.seenKeys.filter fun k => inRange lo hi k
      if !inKeys.all (fun k => s.get k == lookup f k) then "FAIL iter-vs-get"
      else if batchGet s.snap s.buf.cur inKeys ≠ f then "FAIL iter-vs-batchget"
      else "ok"
  (s, res)

def DState.pbget (s : DState) (keys : List Bytes) : String :=
  let m := batchGet s.snap s.buf.cur keys
  if !keys.all (fun k => s.get k == lookup m k) then "FAIL batchget-vs-get"
  else if !m.all (fun kv => keys.contains kv.1) then "FAIL batchget-extra-key"
  else "ok"

def DState.dropSavepoints (s : DState) : DState := { s with cps := [] }

def stepSealed (s : DState) (w : List String) : DState × String :=
  match w with
  | ["set", k, v] =>
    match parseHex k, parseHex v with
    | some k, some v =>
      let s := s.see k
      if v.isEmpty then (s, "err nil-value")
      else ({ s with buf := s.buf.apply (.set k v) }, "ok")
    | _, _ => (s, "bad-op")
  | ["del", k] =>
    match parseHex k with
    | some k => ({ s.see k with buf := s.buf.apply (.del k) }, "ok")
    | none => (s, "bad-op")
  | ["get", k] =>
    match parseHex k with
    | some k => (s, getStr (s.get k))
    | none => (s, "bad-op")
  | "bget" :: ks =>
    match parseAll ks with
    | some keys => (s, listing (batchGet s.snap s.buf.cur keys))
    | none => (s, "bad-op")
  | ["iter", lo, hi] =>
    match parseBound lo, parseBound hi with
    | some lo, some hi => (s, listing (s.scan lo hi false))
    | _, _ => (s, "bad-op")
  | ["iterrev", hi, lo] =>
    match parseBound lo, parseBound hi with
    | some lo, some hi => (s, listing (s.scan lo hi true))
    | _, _ => (s, "bad-op")
  | "pbget" :: ks =>
    match parseAll ks with
    | some keys => (s, s.pbget keys)
    | none => (s, "bad-op")
  | ["staging"] =>
    let v := s.record
    let (b, h) := s.buf.staging
    ({ s with buf := b, stageViews := v :: s.stageViews, cps := [] }, s!"h {h}")
  | [op, h] =>
    if op == "release" || op == "cleanup" || op == "prelease" || op == "pcleanup" then
      match h.toNat? with
      | none => (s, "bad-op")
      | some h =>
        if h > 1000 then (s, "bad-op") else
        let depth := s.buf.stages.length
        let prop := op == "prelease" || op == "pcleanup"
        if prop && (h ≠ depth || h = 0) then (s, "bad-op") else
        let r := if op == "release" || op == "prelease" then s.buf.release h else s.buf.cleanup h
        match r with
        | none => (s, "refused")
        | some b =>
          let popped := h = depth && h ≠ 0
          let s' : DState := if popped then { s with buf := b, stageViews := s.stageViews.tail, cps := [] } else { s with buf := b }
          if op == "prelease" then (s', s'.sameView s.record)
          else if op == "pcleanup" then
            match s.stageViews with
            | at_ :: _ => (s', s'.sameView at_)
            | [] => (s', "bad-op")
          else (s', "ok")
    else if op == "revert" || op == "prevert" then
      match h.toInt? with
      | none => (s, "bad-op")
      | some i =>
        if i < 0 then (s, "bad-cp") else
        match s.cps[i.toNat]? with
        | none => (s, "bad-cp")
        | some (saved, at_) =>
          let s' := { s with buf := s.buf.revertTo saved, cps := s.cps.take (i.toNat + 1) }
          if op == "prevert" then (s', s'.sameView at_) else (s', "ok")
    else (s, "bad-op")
  | ["cp"] =>
    let v := s.record
    ({ s with cps := s.cps ++ [(s.buf.checkpoint, v)] }, s!"cp {s.cps.length}")
  | ["pview", lo, hi] =>
    match parseBound lo, parseBound hi with
    | some lo, some hi => s.pview lo hi
    | _, _ => (s, "bad-op")
  | _ => (s, "bad-op")

def step (s : DState) (line : String) : DState × String :=
  match words line with
  | ["reset", mode] =>
    if mode == "us-art" || mode == "us-rbt" || mode == "txn" then ({}, "ok") else (s, "bad-op")
  | ["sput", k, v] =>
    match parseHex k, parseHex v with
    | some k, some v =>
      if v.isEmpty || s.sealed then (s, "bad-op")
      else ({ s.see k with snap := mapSet k v s.snap }, "ok")
    | _, _ => (s, "bad-op")
  | w => stepSealed { s with sealed := true } w

def main : IO Unit := runDriver ({} : DState) step
