import ClientGoVerif.Model.Bytes
import ClientGoVerif.Model.AggLock
/-
  cgv-c06agg: replays the op lines of harness/c06agg through Model/AggLock.lean and prints the model's bookkeeping after
  every op in the canonical form the harness prints for the real KVTxn.

  op lines (keys are decimal ids, lists are comma separated, `-` = empty):
    reset v=<ids>                                  new case (which keys hold a committed value is the harness's business)
    start | retry | cancel | done | rollback | commit
    pne <id>
    lock <ids> <opts ⊆ rcen | -> fu=<n> exp=<0|1> err=<-|wc|ke|dl|to|other> ans=<id:(A|N)(+|-)<lwc>,…>
    ts | put <id> | del <id> | olock <id> | orel | age   environment only: the model sees their effect through later answers
    chk-noleak                                      property op: ok / FAIL leak <ids>
-/
open CGV CGV.AggLock

def idsStr (l : List Key) : String :=
  let a := (l.toArray.qsort (· < ·)).toList.eraseDups
  if a.isEmpty then "-" else ",".intercalate (a.map toString)

def b01 (b : Bool) : String := if b then "1" else "0"

def entryStr (e : Entry) : String :=
  s!"{e.key}:{if e.hasRV then "r" else "-"}{if e.hasCE then "c" else "-"}{if e.exist then "+" else "-"}{e.lwc}"

def entriesStr (l : List Entry) : String :=
  let a := (l.toArray.qsort (fun x y => x.key < y.key)).toList
  if a.isEmpty then "-" else ",".intercalate (a.map entryStr)

def flaggedStr (l : List (Key × Bool)) : String :=
  let a := (l.toArray.qsort (fun x y => x.1 < y.1)).toList
  if a.isEmpty then "-" else ",".intercalate (a.map fun e => s!"{e.1}{if e.2 then "+" else "-"}")

def optKey : Option Key → String
  | some k => toString k
  | none => "-"

def errStr : Err → String
  | .wc => "wc" | .ke => "ke" | .dl => "dl" | .to => "to" | .other => "other"

def resStr : Res → String
  | .ok => "ok" | .panic => "panic" | .closed => "closed"
  | .errStore e => s!"err:{errStr e}"
  | .errKeyExists => "err:ke"
  | .errLoieNoRV => "err:loie-norv"
  | .errLoieNoPrimary => "err:loie-noprimary"
  | .errAggSanity => "err:agg-sanity"
  | .errLwcSanity => "err:lwc-sanity"
  | .errPending => "err:pending"

def stateStr (s : State) : String :=
  s!"{resStr s.res} agg={b01 s.inAgg} cur={entriesStr s.current} last={entriesStr s.lastRetry} flg={flaggedStr s.flagged} " ++
  s!"cnt={s.lockedCnt} pri={optKey s.primary} ap={b01 s.aAssigned}{b01 s.aLastAssigned}:{optKey s.aPrimary}:{optKey s.aLastPrimary} " ++
  s!"pne={idsStr s.pne} chk={idsStr s.needChk} req={idsStr s.req} rb={idsStr s.rb} cm={idsStr s.cm} st={idsStr s.store}"

def parseIds (s : String) : Option (List Key) :=
  if s == "-" then some [] else (s.splitOn ",").mapM (·.toNat?)

def parseOpts (s : String) : Option Opts :=
  if s == "-" then some {} else
  -- `n` (no-wait) only concerns the store
  if s.toList.all (fun c => c == 'r' || c == 'c' || c == 'e' || c == 'n') then
    some { rv := s.toList.contains 'r', ce := s.toList.contains 'c', loie := s.toList.contains 'e' }
  else none

def parseErr : String → Option (Option Err)
  | "-" => some none | "wc" => some (some .wc) | "ke" => some (some .ke) | "dl" => some (some .dl)
  | "to" => some (some .to) | "other" => some (some .other) | _ => none

def parseAns1 (s : String) : Option KeyAns :=
  match s.splitOn ":" with
  | [k, r] =>
    match k.toNat?, r.toList with
    | some k, a :: e :: ts =>
      match (String.ofList ts).toNat? with
      | some t =>
        if (a == 'A' || a == 'N') && (e == '+' || e == '-') then
          some { key := k, acq := a == 'A', exist := e == '+', lwc := t }
        else none
      | none => none
    | _, _ => none
  | _ => none

def parseAns (s : String) : Option (List KeyAns) :=
  if s == "-" then some [] else (s.splitOn ",").mapM parseAns1

def field (pre : String) (w : String) : Option String :=
  if w.startsWith pre then some (w.drop pre.length).toString else none

def parseLock : List String → Option LockIn
  | [ks, o, fu, ex, er, an] => do
    let keys ← parseIds ks
    let o ← parseOpts o
    let fu ← (← field "fu=" fu).toNat?
    let ex ← field "exp=" ex
    let er ← parseErr (← field "err=" er)
    let an ← parseAns (← field "ans=" an)
    if ex == "0" || ex == "1" then
      pure { keys := keys, o := o, fu := fu, mayExpire := ex == "1", err := er, ans := an }
    else none
  | _ => none

def leakStr (s : State) : String :=
  let l := leaked s
  if l.isEmpty then "ok" else s!"FAIL leak {idsStr l}"

structure D where
  s : State := {}
  started : Bool := false

def stepLine (d : D) (line : String) : D × String :=
  let ws := words line
  match ws with
  | "reset" :: _ => ({ s := init, started := true }, "ok")
  | _ =>
  if !d.started then (d, "bad-op") else
  let go (op : Op) : D × String := let s' := step d.s op; ({ d with s := s' }, stateStr s')
  match ws with
  | ["start"] => go .start
  | ["retry"] => go .retry
  | ["cancel"] => go .cancel
  | ["done"] => go .done
  | ["rollback"] => go .rollback
  | ["commit"] => go .commit
  | ["pne", k] => match k.toNat? with | some k => go (.pne k) | none => (d, "bad-op")
  | "lock" :: rest => match parseLock rest with | some i => go (.lock i) | none => (d, "bad-op")
  | ["put", _] => (d, "env")
  | ["del", _] => (d, "env")
  | ["olock", _] => (d, "env")
  | ["orel"] => (d, "env")
  | ["age"] => (d, "env")
  | ["ts"] => (d, "env")
  | ["chk-noleak"] => (d, leakStr d.s)
  | _ => (d, "bad-op")

def main : IO Unit := runDriver ({} : D) stepLine
