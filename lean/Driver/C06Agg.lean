import ClientGoVerif.Model.Bytes
import ClientGoVerif.Model.AggLock
/-
  cgv-c06agg: replays the op lines of harness/c06agg through Model/AggLock.lean and prints the model's bookkeeping after
  every op in the canonical form the harness prints for the real KVTxn.

  op lines (keys are decimal ids, lists are comma separated, `-` = empty):
    reset v=<ids>                                  new case (which keys hold a committed value is the harness's business)
    start | retry | cancel | done | rollback | commit
    pne <id>
    lock <ids> <opts ⊆ rcen | -> fu=<n> exp=<0|1> err=<-|wc|ke|dl|to|other> ans=<id:(A|N)(+|-)<lwc>,…>
    ts | put <id> | del <id> | olock <id> | orel | age   environment only: the model sees their effect through later answers
    chk-noleak                                      property op: ok / FAIL leak <ids>
-/
open CGV CGV.AggLock

def idsStr (l : List Key) : String :=
  let a := (l.toArray.qsort (· < ·)).toList.eraseDups
  if a.isEmpty then "-" else ",".intercalate (a.map toString)

def b01 (b : Bool) : String := if b then "1" else "0"

def entryStr (e : Entry) : String :=
  s!"{e.key}:{if e.hasRV then "r" else "-"}{if e.hasCE then "c" else "-"}{if e.exist then "+" else "-"}{e.lwc}"

def entriesStr (l : List Entry) : String :=
  let a := (l.toArray.qsort (fun x y => x.key < y.key)).toList
  if a.isEmpty then "-" else ",".intercalate (a.map entryStr)

def flaggedStr (l : List (Key × Bool)) : String :=
  let a := (l.toArray.qsort (fun x y => x.1 < y.1)).toList
  if a.isEmpty then "-" else ",".intercalate (a.map fun e => s!"{e.1}{if e.2 then "+" else "-"}")

def optKey : Option Key → String
  | some k => toString k
  | none => "-"

def errStr : Err → String
  | .wc => "wc" | .ke => "ke" | .dl => "dl" | .to => "to" | .other => "other"

def resStr : Res → String
  | .ok => "ok" | .panic => "refused" | .closed => "closed"
  | .errStore e => s!"err:{errStr e}"
  | .errKeyExists => "err:ke"
  | .errLoieNoRV => "err:loie-norv"
  | .errLoieNoPrimary => "err:loie-noprimary"
  | .errAggSanity => "err:agg-sanity"
  | .errLwcSanity => "err:lwc-sanity"
  | .errPending => "err:pending"

def stateStr (s : State) : String :=
  s!"{resStr s.res} agg={b01 s.inAgg} cur={entriesStr s.current} last={entriesStr s.lastRetry} flg={flaggedStr s.flagged} " ++
  s!"cnt={s.lockedCnt} pri={optKey s.primary} ap={b01 s.aAssigned}{b01 s.aLastAssigned}:{optKey s.aPrimary}:{optKey s.aLastPrimary} " ++
  s!"pne={idsStr s.pne} chk={idsStr s.needChk} req={idsStr s.req} rb={idsStr s.rb} cm={idsStr s.cm} st={idsStr s.store}"

def parseIds (s : String) : Option (List Key) :=
  if s == "-" then some [] else (s.splitOn ",").mapM (·.toNat?)

def parseOpts (s : String) : Option Opts :=
  if s == "-" then some {} else
  -- `n` (no-wait) only concerns the store
  if s.toList.all (fun c => c == 'r' || c == 'c' || c == 'e' || c == 'n') then
    some { rv := s.toList.contains 'r', ce := s.toList.contains 'c', loie := s.toList.contains 'e' }
  else none

def parseErr : String → Option (Option Err)
  | "-" => some none | "wc" => some (some .wc) | "ke" => some (some .ke) | "dl" => some (some .dl)
  | "to" => some (some .to) | "other" => some (some .other) | _ => none

def parseAns1 (s : String) : Option KeyAns :=
  match s.splitOn ":" with
  | [k, r] =>
    match k.toNat?, r.toList with
    | some k, a :: e :: ts =>
      match (String.ofList ts).toNat? with
      | some t =>
        if (a == 'A' || a == 'N') && (e == '+' || e == '-') then
          some { key := k, acq := a == 'A', exist := e == '+', lwc := t }
        else none
      | none => none
    | _, _ => none
  | _ => none

def parseAns (s : String) : Option (List KeyAns) :=
  if s == "-" then some [] else (s.splitOn ",").mapM parseAns1

def field (pre : String) (w : String) : Option String :=
  if w.startsWith pre then some (w.drop pre.length).toString else none

def parseLock : List String → Option LockIn
  | [ks, o, fu, ex, er, an] => do
    let keys ← parseIds ks
    let o ← parseOpts o
    let fu ← (← field "fu=" fu).toNat?
    let ex ← field "exp=" ex
    let er ← parseErr (← field "err=" er)
    let an ← parseAns (← field "ans=" an)
    if ex == "0" || ex == "1" then
      pure { keys := keys, o := o, fu := fu, mayExpire := ex == "1", err := er, ans := an }
    else none
  | _ => none

def leakStr (s : State) : String :=
  let l := leaked s
  if l.isEmpty then "ok" else s!"FAIL leak {idsStr l}"

/-- per run: how the explored cases lie relative to the proved fragment (Proofs/AggLock.lean) -/
structure Tally where
  cases : Nat := 0
  admissible : Nat := 0
  lockOps : Nat := 0
  /-- observed answers that violate the store contract the theorems assume (`wfLock`), with the first few op lines -/
  wfViolations : Nat := 0
  wfLines : List String := []
  exLoie : Nat := 0
  exFail : Nat := 0
  exPending : Nat := 0
  /-- `chk-noleak` on the model: failures inside / outside the admissible fragment (inside must stay 0: theorem) -/
  leakChecks : Nat := 0
  leaksInside : Nat := 0
  leaksOutside : Nat := 0

structure D where
  s : State := {}
  started : Bool := false
  /-- the ops of the current case so far are all `okStep` -/
  adm : Bool := true
  t : Tally := {}

def closeCase (d : D) : Tally :=
  if d.started then { d.t with cases := d.t.cases + 1, admissible := d.t.admissible + (if d.adm then 1 else 0) } else d.t

def noteOp (d : D) (op : Op) : D :=
  if d.s.closed then d else
  let t := d.t
  match op with
  | .lock i =>
    let t := { t with lockOps := t.lockOps + 1 }
    let bad := !wfLock i
    let t := if bad then { t with wfViolations := t.wfViolations + 1 } else t
    let ex := relockFallsThrough d.s i
    let t := if ex then (if i.err.isNone then { t with exLoie := t.exLoie + 1 } else { t with exFail := t.exFail + 1 }) else t
    { d with t := t, adm := d.adm && !bad }
  | .rollback | .commit =>
    if endOk d.s then d else { d with t := { t with exPending := t.exPending + 1 }, adm := false }
  | _ => d

def stepLine (d : D) (line : String) : D × String :=
  let ws := words line
  match ws with
  | "reset" :: _ => ({ s := init, started := true, adm := true, t := closeCase d }, "ok")
  | _ =>
  if !d.started then (d, "bad-op") else
  let go (op : Op) : D × String :=
    let d := noteOp d op
    let d := match op with
      | .lock i => if !wfLock i && d.t.wfLines.length < 5 then { d with t := { d.t with wfLines := d.t.wfLines ++ [line] } } else d
      | _ => d
    let s' := step d.s op
    ({ d with s := s' }, stateStr s')
  match ws with
  | ["start"] => go .start
  | ["retry"] => go .retry
  | ["cancel"] => go .cancel
  | ["done"] => go .done
  | ["rollback"] => go .rollback
  | ["commit"] => go .commit
  | ["pne", k] => match k.toNat? with | some k => go (.pne k) | none => (d, "bad-op")
  | "lock" :: rest => match parseLock rest with | some i => go (.lock i) | none => (d, "bad-op")
  | ["put", _] => (d, "env")
  | ["del", _] => (d, "env")
  | ["olock", _] => (d, "env")
  | ["orel"] => (d, "env")
  | ["age"] => (d, "env")
  | ["ts"] => (d, "env")
  | ["chk-noleak"] =>
    let o := leakStr d.s
    let bad := o != "ok"
    let t := { d.t with leakChecks := d.t.leakChecks + 1,
                        leaksInside := d.t.leaksInside + (if bad && d.adm then 1 else 0),
                        leaksOutside := d.t.leaksOutside + (if bad && !d.adm then 1 else 0) }
    ({ d with t := t }, o)
  | _ => (d, "bad-op")

partial def loop (h out : IO.FS.Stream) (d : D) : IO D := do
  let line ← h.getLine
  if line.isEmpty then
    out.flush
    return d
  let l := (line.trimAscii).toString
  if l.isEmpty || l.startsWith "#" then
    out.putStrLn l
    loop h out d
  else
    let (d', o) := stepLine d l
    out.putStrLn o
    loop h out d'

def jsonStr (s : String) : String := "\"" ++ (s.replace "\\" "\\\\").replace "\"" "\\\"" ++ "\""

/-- `cgv-c06agg [--stats <file>]` -/
def main (args : List String) : IO Unit := do
  let d ← loop (← IO.getStdin) (← IO.getStdout) ({} : D)
  let t := closeCase d
  match args with
  | ["--stats", path] =>
    IO.FS.writeFile path
      ("{" ++ s!"\"cases\":{t.cases},\"cases_inside_proved_fragment\":{t.admissible},\"lock_ops\":{t.lockOps}," ++
       s!"\"store_contract_violations\":{t.wfViolations},\"store_contract_violation_lines\":[{",".intercalate (t.wfLines.map jsonStr)}]," ++
       s!"\"relock_entry_put_back_loie_not_found\":{t.exLoie},\"relock_entry_put_back_wc_ke\":{t.exFail},\"excluded_steps_end_inside_stage\":{t.exPending}," ++
       s!"\"chk_noleak\":{t.leakChecks},\"model_leaks_inside_fragment\":{t.leaksInside},\"model_leaks_outside_fragment\":{t.leaksOutside}" ++ "}\n")
  | _ => pure ()
