import ClientGoVerif.Model.Bytes
import ClientGoVerif.Model.Codec
import ClientGoVerif.Props.C19
