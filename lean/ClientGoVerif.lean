import ClientGoVerif.Model.Bytes
import ClientGoVerif.Model.Codec
