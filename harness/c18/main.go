//go:build verif

// C18 harness: batched RPC multiplexing of /repo/internal/client.
//
// Two ties to the Lean model (lean/ClientGoVerif/Model/BatchMux.lean, driver cgv-c18):
//
//	(a) white-box, deterministic ("wb" ops): the REAL sendBatchRequest callers, batchConn.fetchAllPendingRequests,
//	    batchCommandsBuilder.reset/buildWithLimit, batchConn.getClientAndSend, batchCommandsClient.send,
//	    batchRecvLoop, recreateStreamingClient/failPendingRequests run in-process; only the body of batchSendLoop
//	    is replaced by op lines (fetch / breset / flush) and the gRPC stream is a scripted in-process ClientStream
//	    installed through a grpc stream interceptor (the *grpc.ClientConn itself is real and Ready).
//	    Every op prints the observable (heap array, allocated ids per group, table, epoch, who returned what).
//	(b) black-box ("bb" ops): the real RPCClient over loopback gRPC against an echo server that logs
//	    (stream, request id, payload), delays/reorders/drops/duplicates responses, kills streams and restarts;
//	    the op prints the verdict of the property oracle on the implementation's own observations.
//
// Op grammar (one per line):
//
//	reset <nclients> <limit> <nfwd>      submit <payload> <pri> <fwd>     submitshort <payload> <pri> <fwd>
//	fetch <max>   breset   flush   recv <cid> <fwd> <id>...   kill <cid> <fwd>   cancel <h>   close
//	flushwait <h>... (getClientAndSend with the connection down; callers h cancel while send waits)
//	sendfail <cid> <fwd> <0|1>   lockrec <cid> <0|1>   setlimit <cid> <n>   cfgcancel <0|1>   panicloop   audit
//	bb <scenario> <seed> <nconn> <ncallers> <nreq> <faults>
package main

import (
	"context"
	"fmt"
	"io"
	"net"
	"os"
	"runtime"
	"sort"
	"strconv"
	"strings"
	"sync"
	"sync/atomic"
	"time"

	"github.com/pingcap/failpoint"
	"github.com/pingcap/kvproto/pkg/kvrpcpb"
	"github.com/pingcap/kvproto/pkg/tikvpb"
	"github.com/pkg/errors"
	"github.com/tikv/client-go/v2/config"
	"github.com/tikv/client-go/v2/internal/client"
	"github.com/tikv/client-go/v2/tikvrpc"
	"github.com/tikv/client-go/v2/util"
	"github.com/tikv/client-go/v2/verifx/vx"
	"google.golang.org/grpc"
	"google.golang.org/grpc/backoff"
	"google.golang.org/grpc/connectivity"
	"google.golang.org/grpc/credentials/insecure"
	"google.golang.org/grpc/metadata"
	"google.golang.org/grpc/peer"
)

const (
	maxBatch  = 128
	waitLong  = 30 * time.Second
	shortTmo  = 60 * time.Millisecond
	longTmo   = time.Hour
	defLimit  = 1000000
	fwdPrefix = "fwd"
)

func echo(q int) int  { return 2*q + 1 }
func junk(id int) int { return 2 * id }

func fwdName(f int) string {
	if f == 0 {
		return ""
	}
	return fwdPrefix + strconv.Itoa(f)
}
func fwdIndex(s string) int {
	if s == "" {
		return 0
	}
	n, _ := strconv.Atoi(strings.TrimPrefix(s, fwdPrefix))
	return n
}

func natList(l []int) string {
	if len(l) == 0 {
		return "-"
	}
	p := make([]string, len(l))
	for i, x := range l {
		p[i] = strconv.Itoa(x)
	}
	return strings.Join(p, " ")
}

func errClass(err error) string {
	c := errors.Cause(err)
	switch {
	case c == context.Canceled:
		return "canceled"
	case c == context.DeadlineExceeded:
		return "timeout"
	}
	m := err.Error()
	switch {
	case strings.Contains(m, "batchConn closed"), strings.Contains(m, "batch client closed"):
		return "closed"
	case strings.Contains(m, "verif stream broken"):
		return "stream"
	case strings.Contains(m, "verif send failed"):
		return "sendfail"
	case strings.Contains(m, "no available connections"):
		return "noconn"
	}
	return "other"
}

// ---------------------------------------------------------------------------------------------------------
// (a) white-box
// ---------------------------------------------------------------------------------------------------------

var (
	errStream = errors.New("verif stream broken")
	errSend   = errors.New("verif send failed")
)

type item struct {
	resp *tikvpb.BatchCommandsResponse
	err  error
}

type fakeStream struct {
	ctx      context.Context
	w        *wb
	cid, fwd int
	in       chan item
	tok      chan struct{}
	sendFail atomic.Bool
	ids      []int // ids handed to Send successfully, in order
}

func (f *fakeStream) Header() (metadata.MD, error) { return nil, nil }
func (f *fakeStream) Trailer() metadata.MD         { return nil }
func (f *fakeStream) CloseSend() error             { return nil }
func (f *fakeStream) Context() context.Context     { return f.ctx }
func (f *fakeStream) SendMsg(m any) error {
	if f.sendFail.Load() {
		return errSend
	}
	req := m.(*tikvpb.BatchCommandsRequest)
	f.w.mu.Lock()
	defer f.w.mu.Unlock()
	for i, id := range req.RequestIds {
		h, ok := f.w.reqToH[req.Requests[i]]
		if !ok {
			f.w.fails = append(f.w.fails, fmt.Sprintf("unknown-request-on-wire id=%d", id))
			continue
		}
		// pairing of the outgoing batch: the i-th request must be the request of the entry registered under the i-th id
		if reg := f.w.v.ReqOf(f.cid, id); reg != nil && reg != req.Requests[i] {
			f.w.fails = append(f.w.fails, fmt.Sprintf("misaligned-batch id=%d travels-with-request-of h=%d registered-for h=%d", id, h, f.w.reqToH[reg]))
		}
		if old, dup := f.w.wire[int(id)]; dup {
			// the scripted server keeps answering the FIRST request it got under this id (like a real store whose
			// response to the old request is still on its way)
			f.w.fails = append(f.w.fails, fmt.Sprintf("id-reused id=%d first-payload=%d second-payload=%d", id, old, f.w.callers[h].payload))
		} else {
			f.w.wire[int(id)] = f.w.callers[h].payload
			f.w.idOwner[int(id)] = h
		}
		f.ids = append(f.ids, int(id))
	}
	return nil
}
func (f *fakeStream) RecvMsg(m any) error {
	f.tok <- struct{}{}
	it := <-f.in
	if it.err != nil {
		return it.err
	}
	*(m.(*tikvpb.BatchCommandsResponse)) = *it.resp
	return nil
}

type result struct {
	resp *tikvrpc.Response
	err  error
}

type caller struct {
	h, payload int
	req        *tikvpb.BatchCommandsRequest_Request
	cancel     context.CancelFunc
	done       chan result
	returned   bool
	nret       int
	out        string
}

type wb struct {
	v       *client.VerifBatch
	n, nfwd int
	mu      sync.Mutex
	streams map[[2]int]*fakeStream
	all     []*fakeStream
	fresh   []*fakeStream // created since last drained
	callers []*caller
	reqToH  map[*tikvpb.BatchCommandsRequest_Request]int
	wire    map[int]int
	idOwner map[int]int
	locked  []bool
	dirty   bool
	closed  bool
	outBase float64
	fails   []string
	maxID   uint64
	// sibKilled[(cid,fwd)]: a SIBLING stream of the same connection was broken and re-created since this stream was
	// created / re-created.  Only then may the code take the "another stream already handles this epoch" branch and
	// skip failPendingRequests (reported defect of the unchanged tree, tolerated); in every other case a broken
	// stream must fail all of its pending entries before it is re-created.  Justified by theorems of Props/C18.lean:
	// `break_fails_stream` (sib = false => the break wins the CAS and fails every pending entry of the stream exactly
	// once, none survives) and `stale_epoch_survivors` (a break that does not win implies a sibling of the same
	// connection won the CAS since this stream's last (re-)creation; then exactly the entries pending on this stream
	// survive, un-failed).  sibKilled over-approximates the model's ghost flag `Stream.sib` (set only when the
	// sibling WON), so sibKilled = false implies sib = false.
	sibKilled map[[2]int]bool
	limits    []int64
	stuckSeen   bool
	hh          *H
	pendingRets []string
	failsShown  int
}

type H struct {
	run      *vx.Run
	conns    []*grpc.ClientConn
	cur      atomic.Pointer[wb]
	restore  func()
	srvAddr  string
	targetNo int
	readySrv *grpc.Server // the loopback server that only keeps the white-box connections Ready
}

func (h *H) interceptor(cid int) grpc.StreamClientInterceptor {
	return func(ctx context.Context, desc *grpc.StreamDesc, cc *grpc.ClientConn, method string, streamer grpc.Streamer, opts ...grpc.CallOption) (grpc.ClientStream, error) {
		w := h.cur.Load()
		md, _ := metadata.FromOutgoingContext(ctx)
		fwd := 0
		if v := md.Get(client.VerifForwardKey); len(v) > 0 {
			fwd = fwdIndex(v[0])
		}
		fs := &fakeStream{ctx: ctx, w: w, cid: cid, fwd: fwd, in: make(chan item, 16), tok: make(chan struct{}, 1024)}
		w.mu.Lock()
		if old, ok := w.streams[[2]int{cid, fwd}]; ok {
			fs.sendFail.Store(old.sendFail.Load())
		} else {
			w.sibKilled[[2]int{cid, fwd}] = false
		}
		w.streams[[2]int{cid, fwd}] = fs
		w.all = append(w.all, fs)
		w.fresh = append(w.fresh, fs)
		w.mu.Unlock()
		return fs, nil
	}
}

func (h *H) startReady() {
	var lis net.Listener
	var err error
	addr := h.srvAddr
	if addr == "" {
		addr = "127.0.0.1:0"
	}
	for i := 0; i < 500; i++ {
		lis, err = net.Listen("tcp", addr)
		if err == nil {
			break
		}
		time.Sleep(10 * time.Millisecond)
	}
	if err != nil {
		panic(err)
	}
	h.srvAddr = lis.Addr().String()
	h.readySrv = grpc.NewServer()
	go h.readySrv.Serve(lis)
}

func (h *H) waitReady(n int) bool {
	ctx, cancel := context.WithTimeout(context.Background(), 2*waitLong)
	defer cancel()
	for _, conn := range h.conns[:n] {
		for conn.GetState() != connectivity.Ready {
			conn.ResetConnectBackoff()
			conn.Connect()
			st := conn.GetState()
			if st == connectivity.Ready {
				break
			}
			if !conn.WaitForStateChange(ctx, st) {
				return false
			}
		}
	}
	return true
}

func (h *H) setup() {
	util.EnableFailpoints()
	h.startReady()
	for cid := 0; cid < 2; cid++ {
		conn, err := grpc.NewClient(h.srvAddr, grpc.WithTransportCredentials(insecure.NewCredentials()),
			grpc.WithStreamInterceptor(h.interceptor(cid)),
			grpc.WithConnectParams(grpc.ConnectParams{
				Backoff:           backoff.Config{BaseDelay: 10 * time.Millisecond, Multiplier: 1.2, Jitter: 0.1, MaxDelay: 100 * time.Millisecond},
				MinConnectTimeout: time.Second,
			}))
		if err != nil {
			panic(err)
		}
		h.conns = append(h.conns, conn)
	}
	if !h.waitReady(2) {
		panic("loopback conn not ready")
	}
}

func waitTok(f *fakeStream) bool {
	select {
	case <-f.tok:
		return true
	case <-time.After(waitLong):
		return false
	}
}

func (w *wb) endCase() {
	if w == nil || w.closed {
		return
	}
	w.closed = true
	for cid := range w.locked {
		if w.locked[cid] {
			w.v.LockRecreate(cid, false)
			w.locked[cid] = false
		}
	}
	w.v.Close()
	w.mu.Lock()
	ss := make([]*fakeStream, 0, len(w.streams))
	for _, s := range w.streams {
		ss = append(ss, s)
	}
	w.mu.Unlock()
	for _, s := range ss {
		s.in <- item{err: io.EOF}
	}
}

func (h *H) reset(n, limit, nfwd int) string {
	h.cur.Load().endCase()
	if n < 1 || n > 2 || nfwd > 3 {
		return "bad-op"
	}
	if h.restore != nil {
		h.restore()
		h.restore = nil
	}
	w := &wb{n: n, nfwd: nfwd, streams: map[[2]int]*fakeStream{}, reqToH: map[*tikvpb.BatchCommandsRequest_Request]int{},
		wire: map[int]int{}, idOwner: map[int]int{}, locked: make([]bool, n), sibKilled: map[[2]int]bool{}, hh: h}
	h.cur.Store(w)
	w.v = client.VerifNewBatch("verif-c18-wb", h.conns[:n], maxBatch, int64(limit), 2*waitLong)
	for cid := 0; cid < n; cid++ {
		w.limits = append(w.limits, int64(limit))
	}
	for cid := 0; cid < n; cid++ {
		w.outBase += w.v.Outdated(cid)
	}
	return "ok"
}

func (w *wb) outdated() int {
	t := 0.0
	for cid := 0; cid < w.n; cid++ {
		t += w.v.Outdated(cid)
	}
	return int(t - w.outBase + 0.5)
}

func (w *wb) heapStr() string {
	hp := w.v.Heap()
	hs := make([]int, len(hp))
	w.mu.Lock()
	for i, r := range hp {
		hs[i] = w.reqToH[r]
	}
	w.mu.Unlock()
	return "q " + natList(hs)
}

func (w *wb) tblStr(cid int) string {
	ids := w.v.Table(cid)
	l := make([]int, len(ids))
	for i, x := range ids {
		l[i] = int(x)
	}
	return fmt.Sprintf("tbl %d %s", cid, natList(l))
}

func (c *caller) finish(r result) string {
	c.returned = true
	c.nret++
	if r.err != nil {
		c.out = "err " + errClass(r.err)
		return fmt.Sprintf("ret %d %s", c.h, c.out)
	}
	g, ok := r.resp.Resp.(*kvrpcpb.GetResponse)
	if !ok {
		return fmt.Sprintf("FAIL wrong-response-type h=%d", c.h)
	}
	p, _ := strconv.Atoi(string(g.Value))
	c.out = "ok " + strconv.Itoa(p)
	if p != echo(c.payload) {
		return fmt.Sprintf("FAIL foreign-response got=%d want=%d h=%d (got the answer to payload %d, sent payload %d)", p, echo(c.payload), c.h, (p-1)/2, c.payload)
	}
	return fmt.Sprintf("ret %d %s", c.h, c.out)
}

// collect waits for every caller that must leave its select now: those whose completion channel is ready and
// those the op itself released (cancel/close); ascending handle order.
func (w *wb) collect(released map[int]bool) []string {
	var out []string
	for _, c := range w.callers {
		if c.returned {
			continue
		}
		if !(released[c.h] || w.v.Ready(c.req)) {
			continue
		}
		wait := waitLong
		if w.stuckSeen {
			wait = 2 * time.Second // the case already failed: do not spend another 30 s per caller
		}
		select {
		case r := <-c.done:
			out = append(out, c.finish(r))
		case <-time.After(wait):
			out = append(out, fmt.Sprintf("FAIL caller-stuck h=%d", c.h))
			c.returned = true
			w.stuckSeen = true
		}
	}
	return out
}

func join(head []string, rets []string) string {
	all := append(head, rets...)
	// a FAIL anywhere must lead the line
	for _, s := range all {
		if strings.HasPrefix(s, "FAIL") {
			return s + " | " + strings.Join(all, " ; ")
		}
	}
	return strings.Join(all, " ; ")
}

func (w *wb) startCaller(payload, pri, fwd int, tmo time.Duration) *caller {
	req := tikvrpc.NewRequest(tikvrpc.CmdGet, &kvrpcpb.GetRequest{Key: []byte(strconv.Itoa(payload))}).ToBatchCommandsRequest()
	ctx, cancel := context.WithCancel(context.Background())
	c := &caller{h: len(w.callers), payload: payload, req: req, cancel: cancel, done: make(chan result, 2)}
	w.mu.Lock()
	w.reqToH[req] = c.h
	w.mu.Unlock()
	go func() {
		resp, err := w.v.VerifSend(ctx, fwdName(fwd), req, tmo, uint64(pri))
		c.done <- result{resp, err}
	}()
	return c
}

func (w *wb) submit(payload, pri, fwd int, short bool) string {
	if fwd > w.nfwd {
		fwd = 0
	}
	if w.v.ChLen() >= w.v.ChCap() {
		return "full"
	}
	h := len(w.callers)
	for attempt := 0; ; attempt++ {
		before := w.v.ChLen()
		tmo := longTmo
		if short {
			tmo = shortTmo
		}
		c := w.startCaller(payload, pri, fwd, tmo)
		deadline := time.Now().Add(waitLong)
		enq := false
		for time.Now().Before(deadline) {
			if w.v.ChLen() == before+1 {
				enq = true
				break
			}
			if short && len(c.done) > 0 {
				break
			}
			time.Sleep(20 * time.Microsecond)
		}
		if !enq && short && attempt < 20 {
			// the timer won the first select before the entry was enqueued: nothing entered the system; retry
			<-c.done
			c.cancel()
			continue
		}
		if !enq {
			return "FAIL submit-not-enqueued"
		}
		w.callers = append(w.callers, c)
		w.v.RegisterChannel()
		head := []string{fmt.Sprintf("h %d", h)}
		if short {
			return join(head, w.collect(map[int]bool{h: true}))
		}
		return join(head, w.collect(nil))
	}
}

func (w *wb) drainFresh() bool {
	w.mu.Lock()
	fr := w.fresh
	w.fresh = nil
	w.mu.Unlock()
	for _, f := range fr {
		if !waitTok(f) {
			return false
		}
	}
	return true
}

func goroutineIn(frame string) bool {
	buf := make([]byte, 1<<20)
	n := runtime.Stack(buf, true)
	return strings.Contains(string(buf[:n]), frame)
}

func (w *wb) flush() string { return w.flushWith(nil, false) }

// flushWith: getClientAndSend.  With down = true the connections are taken down first, so that the first `send` of a
// group whose stream does not exist yet blocks in initBatchClient/waitConnReady; while it blocks (or, if nothing had to
// block, right after it) the callers `cancels` cancel; then the connections come back and the sends go on.
func (w *wb) flushWith(cancels []int, down bool) string {
	if w.dirty {
		w.v.BuilderReset()
	}
	w.dirty = true
	var groups []client.VerifGroup
	released := map[int]bool{}
	if !down {
		groups = w.v.Flush()
	} else {
		w.unlockAll()
		w.mu.Lock()
		for _, fs := range w.streams {
			fs.sendFail.Store(false)
		}
		w.mu.Unlock()
		w.hh.readySrv.Stop()
		dl := time.Now().Add(waitLong)
		for _, conn := range w.hh.conns[:w.n] {
			for conn.GetState() == connectivity.Ready && time.Now().Before(dl) {
				time.Sleep(100 * time.Microsecond)
			}
		}
		done := make(chan []client.VerifGroup, 1)
		go func() { done <- w.v.Flush() }()
		finished := false
		for time.Now().Before(dl) {
			select {
			case groups = <-done:
				finished = true
			default:
			}
			if finished || goroutineIn("batchCommandsClient).waitConnReady") {
				break
			}
			time.Sleep(50 * time.Microsecond)
		}
		rets := w.collect(nil) // callers completed by the first half ("no available connections") leave first
		for _, hd := range cancels {
			if hd < len(w.callers) && !w.callers[hd].returned {
				w.callers[hd].cancel()
				released[hd] = true
			}
		}
		rets = append(rets, w.collectOnly(released)...) // the canceled callers are back before the connection is
		w.hh.startReady()
		if !w.hh.waitReady(w.n) {
			return "FAIL connection-not-ready-again"
		}
		if !finished {
			select {
			case groups = <-done:
			case <-time.After(2 * waitLong):
				return "FAIL send-blocked-for-ever"
			}
		}
		w.pendingRets = rets
	}
	if !w.drainFresh() {
		return "FAIL recv-loop-not-started"
	}
	head := []string{fmt.Sprintf("idx %d", w.v.Index())}
	// property op part: the ids allocated by this build are pairwise distinct and larger than every id allocated before
	seenNow := map[uint64]bool{}
	maxNow := w.maxID
	for _, g := range groups {
		for _, id := range g.Ids {
			if id <= w.maxID || seenNow[id] {
				head = append(head, fmt.Sprintf("FAIL id-reused-or-not-increasing id=%d after=%d", id, w.maxID))
			}
			seenNow[id] = true
			if id > maxNow {
				maxNow = id
			}
		}
	}
	w.maxID = maxNow
	w.mu.Lock()
	if len(w.fails) > w.failsShown {
		head = append(head, "FAIL "+w.fails[w.failsShown])
		w.failsShown = len(w.fails)
	}
	for _, g := range groups {
		parts := make([]string, len(g.Ids))
		for i, id := range g.Ids {
			parts[i] = fmt.Sprintf("%d:%d", id, w.reqToH[g.Reqs[i]])
		}
		head = append(head, fmt.Sprintf("grp %d %s", fwdIndex(g.Fwd), strings.Join(parts, " ")))
	}
	w.mu.Unlock()
	head = append(head, w.heapStr(), fmt.Sprintf("ida %d", w.v.IdAlloc()))
	rets := append(w.pendingRets, w.collect(nil)...)
	w.pendingRets = nil
	sort.SliceStable(rets, func(i, j int) bool { return retKey(rets[i]) < retKey(rets[j]) })
	return join(head, rets)
}

// retKey orders "ret <h> ..." strings by handle (FAIL lines first)
func retKey(s string) int {
	f := strings.Fields(s)
	if len(f) >= 2 && f[0] == "ret" {
		n, _ := strconv.Atoi(f[1])
		return n
	}
	return -1
}

// collectOnly waits for exactly the released callers.
func (w *wb) collectOnly(released map[int]bool) []string {
	var out []string
	for _, c := range w.callers {
		if c.returned || !released[c.h] {
			continue
		}
		select {
		case r := <-c.done:
			out = append(out, c.finish(r))
		case <-time.After(waitLong):
			out = append(out, fmt.Sprintf("FAIL caller-stuck h=%d", c.h))
			c.returned = true
			w.stuckSeen = true
		}
	}
	return out
}

func (w *wb) stream(cid, fwd int) *fakeStream {
	w.mu.Lock()
	defer w.mu.Unlock()
	return w.streams[[2]int{cid, fwd}]
}

func (w *wb) recv(cid, fwd int, ids []int) string {
	fs := w.stream(cid, fwd)
	if fs == nil {
		return "nostream"
	}
	resp := &tikvpb.BatchCommandsResponse{}
	w.mu.Lock()
	for _, id := range ids {
		p := junk(id)
		if q, ok := w.wire[id]; ok {
			p = echo(q)
		}
		resp.RequestIds = append(resp.RequestIds, uint64(id))
		resp.Responses = append(resp.Responses, &tikvpb.BatchCommandsResponse_Response{
			Cmd: &tikvpb.BatchCommandsResponse_Response_Get{Get: &kvrpcpb.GetResponse{Value: []byte(strconv.Itoa(p))}}})
	}
	w.mu.Unlock()
	fs.in <- item{resp: resp}
	if !waitTok(fs) {
		return "FAIL recv-loop-stuck"
	}
	return join([]string{fmt.Sprintf("out %d", w.outdated()), w.tblStr(cid)}, w.collect(nil))
}

func (w *wb) unlockAll() {
	for cid := range w.locked {
		if w.locked[cid] {
			w.v.LockRecreate(cid, false)
			w.locked[cid] = false
		}
	}
}

func (w *wb) kill(cid, fwd int) string {
	fs := w.stream(cid, fwd)
	if fs == nil {
		return "nostream"
	}
	w.unlockAll()
	epoch0 := w.v.Epoch(cid)
	fs.in <- item{err: errStream}
	deadline := time.Now().Add(waitLong)
	var nf *fakeStream
	for time.Now().Before(deadline) {
		if nf = w.stream(cid, fwd); nf != fs {
			break
		}
		time.Sleep(20 * time.Microsecond)
	}
	if nf == fs || !w.drainFresh() {
		return "FAIL stream-not-recreated"
	}
	head := []string{fmt.Sprintf("ep %d", w.v.Epoch(cid)), w.tblStr(cid)}
	w.mu.Lock()
	tolerated := w.sibKilled[[2]int{cid, fwd}]
	for k := range w.streams {
		if k[0] == cid && k[1] != fwd {
			w.sibKilled[k] = true
		}
	}
	w.sibKilled[[2]int{cid, fwd}] = false
	w.mu.Unlock()
	if w.v.Epoch(cid) != epoch0 || !tolerated {
		// property op part, on the implementation's own observations: a broken stream fails all pending requests of
		// its forwarded host before it is re-created.  Tolerated exception (reported defect of the unchanged tree): a
		// sibling stream of the same connection was re-created since this stream's last (re-)creation and the epoch did
		// not move, i.e. the code took its "another stream handles this epoch" branch.
		var left []int
		for id, host := range w.v.TableHost(cid) {
			if host == fwdName(fwd) {
				left = append(left, int(id))
			}
		}
		if len(left) > 0 {
			sort.Ints(left)
			stuck := []int{}
			w.mu.Lock()
			for _, id := range left {
				if h, ok := w.idOwner[id]; ok && !w.callers[h].returned {
					stuck = append(stuck, h)
				}
			}
			w.mu.Unlock()
			head = append(head, fmt.Sprintf("FAIL pending-entry-survives-recreate stream=%d/%d ids=%s callers-stuck=%s",
				cid, fwd, strings.ReplaceAll(natList(left), " ", ","), strings.ReplaceAll(natList(stuck), " ", ",")))
		}
	}
	return join(head, w.collect(nil))
}

const sendLoopFrame = "batchConn).batchSendLoop"

func sendLoopRunning() bool {
	buf := make([]byte, 1<<20)
	n := runtime.Stack(buf, true)
	return strings.Contains(string(buf[:n]), sendLoopFrame)
}

// panicloop: the REAL batchSendLoop runs on this batchConn with failpoint tikvclient/mockBlockOnBatchClient=1*panic:
// reset, fetchAllPendingRequests, PANIC, deferred recover, restart.  The restarted loop is woken with two nil sentinels
// (reset, getClientAndSend; reset, exit because the queue is empty).  All clients are unlocked and unlimited meanwhile.
func (w *wb) panicloop() string {
	if w.v.ChLen() == 0 {
		return "empty"
	}
	w.unlockAll()
	for cid := 0; cid < w.n; cid++ {
		w.v.SetLimit(cid, 1000000000)
	}
	defer func() {
		for cid := 0; cid < w.n; cid++ {
			w.v.SetLimit(cid, w.limits[cid])
		}
	}()
	deadline := time.Now().Add(waitLong)
	for sendLoopRunning() && time.Now().Before(deadline) { // a loop of an earlier (closed) black-box pool may still be exiting
		time.Sleep(time.Millisecond)
	}
	pc0 := client.VerifPanicCount()
	if err := failpoint.Enable("tikvclient/mockBlockOnBatchClient", "1*panic"); err != nil {
		return "FAIL cannot-enable-failpoint"
	}
	w.v.RunSendLoop(maxBatch)
	for client.VerifPanicCount() == pc0 && time.Now().Before(deadline) {
		time.Sleep(20 * time.Microsecond)
	}
	failpoint.Disable("tikvclient/mockBlockOnBatchClient")
	if client.VerifPanicCount() == pc0 {
		return "FAIL send-loop-did-not-panic"
	}
	w.v.PushNil()
	w.v.PushNil()
	for sendLoopRunning() && time.Now().Before(deadline) {
		time.Sleep(50 * time.Microsecond)
	}
	if sendLoopRunning() {
		return "FAIL send-loop-did-not-exit"
	}
	if w.v.DrainNil() != 0 {
		return "FAIL entries-left-in-channel"
	}
	w.dirty = false
	if !w.drainFresh() {
		return "FAIL recv-loop-not-started"
	}
	ida := w.v.IdAlloc()
	head := []string{fmt.Sprintf("ida %d", ida), w.heapStr()}
	// property op part: the id allocator survives the restart of the loop, and every id handed to Send during the op is new
	if ida < w.maxID {
		head = append(head, fmt.Sprintf("FAIL id-allocator-went-back ida=%d after=%d", ida, w.maxID))
	}
	w.mu.Lock()
	if len(w.fails) > 0 {
		head = append(head, "FAIL "+w.fails[0])
	}
	for _, f := range w.all {
		for _, id := range f.ids {
			if uint64(id) > w.maxID && uint64(id) > ida {
				head = append(head, fmt.Sprintf("FAIL id-beyond-allocator id=%d ida=%d", id, ida))
			}
		}
	}
	w.mu.Unlock()
	if ida > w.maxID {
		w.maxID = ida
	}
	for cid := 0; cid < w.n; cid++ {
		head = append(head, w.tblStr(cid))
	}
	return join(head, w.collect(nil))
}

func (w *wb) closeOp() string {
	rel := map[int]bool{}
	for _, c := range w.callers {
		if !c.returned {
			rel[c.h] = true
		}
	}
	w.endCase()
	return join([]string{"close"}, w.collect(rel))
}

func (w *wb) audit() string {
	w.mu.Lock()
	defer w.mu.Unlock()
	if len(w.fails) > 0 {
		return "FAIL " + w.fails[0]
	}
	for _, c := range w.callers {
		if c.nret > 1 {
			return fmt.Sprintf("FAIL returned-twice h=%d", c.h)
		}
		if len(c.done) > 0 {
			return fmt.Sprintf("FAIL second-result h=%d", c.h)
		}
		if strings.HasPrefix(c.out, "ok ") && c.out != "ok "+strconv.Itoa(echo(c.payload)) {
			return fmt.Sprintf("FAIL wrong-response h=%d", c.h)
		}
	}
	// ids handed to Send: strictly increasing per stream object, globally unique (checked in SendMsg)
	var last = map[*fakeStream]int{}
	for _, f := range w.all {
		for _, id := range f.ids {
			if id <= last[f] {
				return fmt.Sprintf("FAIL ids-not-increasing stream=%d/%d id=%d after=%d", f.cid, f.fwd, id, last[f])
			}
			last[f] = id
		}
	}
	return "ok"
}

func atoi(s string) (int, bool) {
	n, err := strconv.Atoi(s)
	return n, err == nil && n >= 0
}

func ints(ws []string) ([]int, bool) {
	out := make([]int, len(ws))
	for i, s := range ws {
		n, ok := atoi(s)
		if !ok {
			return nil, false
		}
		out[i] = n
	}
	return out, true
}

func (h *H) exec(line string) string {
	return vx.Guard(func() string {
		f := strings.Fields(line)
		if len(f) == 0 {
			return "bad-op"
		}
		a, ok := ints(f[1:])
		if f[0] == "bb" {
			if len(f) != 7 {
				return "bad-op"
			}
			a, ok = ints(f[2:])
			if !ok {
				return "bad-op"
			}
			return h.blackbox(f[1], a[0], a[1], a[2], a[3], a[4])
		}
		if !ok {
			return "bad-op"
		}
		if f[0] == "reset" {
			if len(a) != 3 {
				return "bad-op"
			}
			return h.reset(a[0], a[1], a[2])
		}
		w := h.cur.Load()
		if w == nil {
			h.reset(1, defLimit, 0)
			w = h.cur.Load()
		}
		if f[0] == "audit" && len(a) == 0 {
			return w.audit()
		}
		if w.closed {
			return "closed"
		}
		switch {
		case f[0] == "submit" && len(a) == 3:
			return w.submit(a[0], a[1], a[2], false)
		case f[0] == "submitshort" && len(a) == 3:
			return w.submit(a[0], a[1], a[2], true)
		case f[0] == "fetch" && len(a) == 1:
			if w.v.ChLen() == 0 {
				return "empty"
			}
			if w.dirty {
				w.v.BuilderReset()
				w.dirty = false
			}
			w.v.Fetch(a[0])
			return join([]string{w.heapStr(), fmt.Sprintf("ch %d", w.v.ChLen())}, w.collect(nil))
		case f[0] == "breset" && len(a) == 0:
			w.v.BuilderReset()
			w.dirty = false
			return join([]string{w.heapStr()}, w.collect(nil))
		case f[0] == "flush" && len(a) == 0:
			return w.flush()
		case f[0] == "flushwait":
			return w.flushWith(a, true)
		case f[0] == "recv" && len(a) >= 2:
			if a[0] >= w.n {
				return "nostream"
			}
			return w.recv(a[0], a[1], a[2:])
		case f[0] == "kill" && len(a) == 2:
			if a[0] >= w.n {
				return "nostream"
			}
			return w.kill(a[0], a[1])
		case f[0] == "cancel" && len(a) == 1:
			rel := map[int]bool{}
			if a[0] < len(w.callers) && !w.callers[a[0]].returned {
				w.callers[a[0]].cancel()
				rel[a[0]] = true
			}
			return join([]string{"cancel"}, w.collect(rel))
		case f[0] == "close" && len(a) == 0:
			return w.closeOp()
		case f[0] == "panicloop" && len(a) == 0:
			return w.panicloop()
		case f[0] == "sendfail" && len(a) == 3:
			if a[0] >= w.n {
				return "nostream"
			}
			fs := w.stream(a[0], a[1])
			if fs == nil {
				return "nostream"
			}
			fs.sendFail.Store(a[2] != 0)
			return "ok"
		case f[0] == "lockrec" && len(a) == 2:
			if a[0] < w.n && w.locked[a[0]] != (a[1] != 0) {
				w.v.LockRecreate(a[0], a[1] != 0)
				w.locked[a[0]] = a[1] != 0
			}
			return "ok"
		case f[0] == "setlimit" && len(a) == 2:
			if a[0] < w.n {
				w.v.SetLimit(a[0], int64(a[1]))
				w.limits[a[0]] = int64(a[1])
			}
			return "ok"
		case f[0] == "cfgcancel" && len(a) == 1:
			if h.restore != nil {
				h.restore()
				h.restore = nil
			}
			if a[0] == 0 {
				h.restore = config.UpdateGlobal(func(c *config.Config) {
					c.TiKVClient.MaxConcurrencyRequestLimit = config.DefMaxConcurrencyRequestLimit - 1
				})
			}
			return "ok"
		}
		return "bad-op"
	})
}

// ---------------------------------------------------------------------------------------------------------
// (b) black-box: real RPCClient against a faulty echo server
// ---------------------------------------------------------------------------------------------------------

const (
	fDelay    = 1   // delay and reorder responses
	fDrop     = 2   // never answer some requests (callers time out)
	fKill     = 4   // end streams with an error at seeded points
	fRestart  = 8   // stop and restart the whole server
	fCancel   = 16  // callers cancel their context
	fClose    = 32  // close the pool concurrently (CloseAddr, then a late RPCClient.Close)
	fForward  = 64  // half of the requests carry a forwarded host (second stream per connection)
	fDup      = 128 // duplicated responses and responses for ids never sent
	fLimit    = 256 // MaxConcurrencyRequestLimit = 4
	bbSlack   = 20 * time.Second
	resolveTS = 1 << 40
)

type srvStream struct {
	seq      int
	peer     string // remote TCP address: one per transport of a grpc.ClientConn
	connIdx  string
	fwd      string
	ids      []uint64
	payloads []int
}

type echoServer struct {
	tikvpb.TikvServer
	mu      sync.Mutex
	g       *grpc.Server
	addr    string
	streams []*srvStream
	faults  int
	seed    uint64
	nStream int
	served  atomic.Int64
	resolve map[uint64]int // start version -> requests seen
	active  map[*srvStream]chan struct{} // live streams -> break signal
	held    map[int]*srvStream           // payloads >= holdBase are never answered: payload -> stream that got it
	release map[int]func()               // ... unless released: payload -> send the (already computed) response now
}

// releaseHeld sends the response that was computed when the held request arrived.
func (s *echoServer) releaseHeld(payload int) bool {
	s.mu.Lock()
	f := s.release[payload]
	s.mu.Unlock()
	if f == nil {
		return false
	}
	f()
	return true
}

const holdBase = 1 << 20

// breakStreams ends every live stream with this forwarded host with an error; returns how many were signalled.
func (s *echoServer) breakStreams(fwd string) int {
	s.mu.Lock()
	defer s.mu.Unlock()
	n := 0
	for st, ch := range s.active {
		if st.fwd == fwd {
			select {
			case ch <- struct{}{}:
				n++
			default:
			}
		}
	}
	return n
}

// heldOn reports how many of the given held payloads have arrived on a stream that is still live.
func (s *echoServer) heldOn(payloads []int) int {
	s.mu.Lock()
	defer s.mu.Unlock()
	n := 0
	for _, p := range payloads {
		if st, ok := s.held[p]; ok {
			if _, live := s.active[st]; live {
				n++
			}
		}
	}
	return n
}

func (s *echoServer) start(addr string) {
	if addr == "" {
		addr = "127.0.0.1:0"
	}
	var lis net.Listener
	var err error
	for i := 0; i < 200; i++ {
		lis, err = net.Listen("tcp", addr)
		if err == nil {
			break
		}
		time.Sleep(10 * time.Millisecond)
	}
	if err != nil {
		panic(err)
	}
	s.addr = lis.Addr().String()
	g := grpc.NewServer()
	tikvpb.RegisterTikvServer(g, s)
	s.mu.Lock()
	s.g = g
	s.mu.Unlock()
	go g.Serve(lis)
}

func (s *echoServer) stop() {
	s.mu.Lock()
	g := s.g
	s.mu.Unlock()
	g.Stop()
}

func decodeReq(r *tikvpb.BatchCommandsRequest_Request) (payload int, kind byte) {
	switch c := r.Cmd.(type) {
	case *tikvpb.BatchCommandsRequest_Request_Get:
		p, _ := strconv.Atoi(string(c.Get.Key))
		return p, 'g'
	case *tikvpb.BatchCommandsRequest_Request_ResolveLock:
		return int(c.ResolveLock.StartVersion - resolveTS), 'r'
	}
	return -1, '?'
}

func encodeResp(kind byte, p int) *tikvpb.BatchCommandsResponse_Response {
	if kind == 'r' {
		return &tikvpb.BatchCommandsResponse_Response{Cmd: &tikvpb.BatchCommandsResponse_Response_ResolveLock{
			ResolveLock: &kvrpcpb.ResolveLockResponse{Error: &kvrpcpb.KeyError{Abort: strconv.Itoa(p)}}}}
	}
	return &tikvpb.BatchCommandsResponse_Response{Cmd: &tikvpb.BatchCommandsResponse_Response_Get{
		Get: &kvrpcpb.GetResponse{Value: []byte(strconv.Itoa(p))}}}
}

func (s *echoServer) BatchCommands(ss tikvpb.Tikv_BatchCommandsServer) error {
	md, _ := metadata.FromIncomingContext(ss.Context())
	st := &srvStream{}
	if p, ok := peer.FromContext(ss.Context()); ok && p.Addr != nil {
		st.peer = p.Addr.String()
	}
	if v := md.Get(client.VerifConnIdxKey); len(v) > 0 {
		st.connIdx = v[0]
	}
	if v := md.Get(client.VerifForwardKey); len(v) > 0 {
		st.fwd = v[0]
	}
	s.mu.Lock()
	st.seq = s.nStream
	s.nStream++
	s.streams = append(s.streams, st)
	rng := vx.NewRand(s.seed*1000003 + uint64(st.seq))
	brk := make(chan struct{}, 1)
	if s.active == nil {
		s.active = map[*srvStream]chan struct{}{}
		s.held = map[int]*srvStream{}
		s.release = map[int]func(){}
	}
	s.active[st] = brk
	s.mu.Unlock()
	defer func() {
		s.mu.Lock()
		delete(s.active, st)
		s.mu.Unlock()
	}()
	type rcv struct {
		req *tikvpb.BatchCommandsRequest
		err error
	}
	recvCh := make(chan rcv, 1)
	go func() {
		for {
			req, err := ss.Recv()
			select {
			case recvCh <- rcv{req, err}:
			case <-ss.Context().Done():
				return
			}
			if err != nil {
				return
			}
		}
	}()
	var sendMu sync.Mutex
	send := func(ids []uint64, rs []*tikvpb.BatchCommandsResponse_Response) {
		sendMu.Lock()
		defer sendMu.Unlock()
		_ = ss.Send(&tikvpb.BatchCommandsResponse{RequestIds: ids, Responses: rs})
	}
	killAfter := -1
	if s.faults&fKill != 0 && rng.Chance(60) {
		killAfter = 1 + rng.Intn(12)
	}
	nBatch := 0
	for {
		var req *tikvpb.BatchCommandsRequest
		select {
		case r := <-recvCh:
			if r.err != nil {
				return r.err
			}
			req = r.req
		case <-brk:
			return errors.New("verif: server breaks the stream on demand")
		}
		nBatch++
		var nowIds []uint64
		var nowRs []*tikvpb.BatchCommandsResponse_Response
		s.mu.Lock()
		for i, id := range req.RequestIds {
			p, kind := decodeReq(req.Requests[i])
			st.ids = append(st.ids, id)
			st.payloads = append(st.payloads, p)
			if kind == 'r' {
				s.resolve[uint64(p)]++
			}
			r := encodeResp(kind, echo(p))
			switch {
			case p >= holdBase:
				s.held[p] = st // held: not answered until released
				{
					id, r := id, r
					s.release[p] = func() { send([]uint64{id}, []*tikvpb.BatchCommandsResponse_Response{r}) }
				}
			case s.faults&fDrop != 0 && rng.Chance(8):
				// never answered
			case s.faults&fDelay != 0 && rng.Chance(40):
				d := time.Duration(rng.Intn(40)) * time.Millisecond
				id, r := id, r
				time.AfterFunc(d, func() { send([]uint64{id}, []*tikvpb.BatchCommandsResponse_Response{r}) })
			default:
				nowIds = append(nowIds, id)
				nowRs = append(nowRs, r)
			}
			if s.faults&fDup != 0 && rng.Chance(15) {
				// a duplicate of this response (later) and a response for an id that was never sent
				id, r2 := id, encodeResp(kind, echo(p))
				time.AfterFunc(time.Duration(rng.Intn(10))*time.Millisecond, func() {
					send([]uint64{id, id + (1 << 40)}, []*tikvpb.BatchCommandsResponse_Response{r2, encodeResp('g', junk(int(id)))})
				})
			}
		}
		s.mu.Unlock()
		s.served.Add(int64(len(req.RequestIds)))
		if s.faults&fDelay != 0 {
			// reverse the order inside the batch
			for i, j := 0, len(nowIds)-1; i < j; i, j = i+1, j-1 {
				nowIds[i], nowIds[j] = nowIds[j], nowIds[i]
				nowRs[i], nowRs[j] = nowRs[j], nowRs[i]
			}
		}
		if killAfter >= 0 && nBatch >= killAfter {
			if rng.Bool() && len(nowIds) > 1 {
				send(nowIds[:len(nowIds)/2], nowRs[:len(nowIds)/2]) // answer a part, then break the stream
			}
			return errors.New("verif: server drops the stream")
		}
		if len(nowIds) > 0 {
			send(nowIds, nowRs)
		}
	}
}

type call struct {
	payload  int
	timeout  time.Duration
	start    time.Time
	lat      time.Duration
	returned int32
	gotOK    bool
	got      int
	errCls   string
	key      uint64 // collapse scenario: start version
}

// rebreak: the real RPCClient; in every round fresh requests are pending on the target stream (the server holds them),
// then the server breaks exactly that stream.  "Stream failure fails all pending entries of that stream": the held
// callers must come back with an error long before their own time-out (8 s; bound 4 s after the break), every round.
// nreq = number of rounds (breaks of the same stream), ncallers = held callers per round,
// faults&fForward: a sibling forwarded stream exists and carries traffic but is never broken.
func (h *H) rebreak(seed, nconn, ncallers, rounds, faults int) string {
	h.cur.Load().endCase()
	if nconn != 1 || ncallers < 1 || rounds < 1 || rounds > 8 {
		return "bad-op"
	}
	restore := config.UpdateGlobal(func(c *config.Config) {
		c.TiKVClient.MaxBatchSize = maxBatch
		c.TiKVClient.GrpcConnectionCount = 1
	})
	defer restore()
	srv := &echoServer{seed: uint64(seed), resolve: map[uint64]int{}}
	srv.start("")
	defer srv.stop()
	rpc := client.NewRPCClient()
	defer rpc.Close()
	addr := srv.addr
	target := "" // the direct stream is the one that breaks
	const heldTimeout = 8 * time.Second
	const bound = 4 * time.Second
	send := func(payload int, fwd string, tmo time.Duration) (int, error) {
		req := tikvrpc.NewRequest(tikvrpc.CmdGet, &kvrpcpb.GetRequest{Key: []byte(strconv.Itoa(payload))})
		req.ForwardedHost = fwd
		resp, err := rpc.SendRequest(context.Background(), addr, req, tmo)
		if err != nil {
			return 0, err
		}
		g, ok := resp.Resp.(*kvrpcpb.GetResponse)
		if !ok {
			return -1, nil
		}
		v, _ := strconv.Atoi(string(g.Value))
		return v, nil
	}
	next := 0
	for r := 1; r <= rounds; r++ {
		// the stream (re-created after the previous break) works: a few ordinary calls, retried while reconnecting
		okCalls := 0
		deadline := time.Now().Add(waitLong)
		for okCalls < 3 && time.Now().Before(deadline) {
			next++
			fwd := target
			if faults&fForward != 0 && next%2 == 0 {
				fwd = "fwd1"
			}
			v, err := send(next, fwd, 2*time.Second)
			if err == nil {
				if v != echo(next) {
					return fmt.Sprintf("FAIL foreign-response got=%d want=%d (sent payload %d)", v, echo(next), next)
				}
				okCalls++
			}
		}
		if okCalls < 3 {
			return fmt.Sprintf("FAIL stream-not-usable-after-break round=%d", r)
		}
		// fresh pending requests on the target stream (and, with a sibling, one on the sibling that must survive)
		type res struct {
			lat time.Duration
			err error
			v   int
		}
		out := make(chan res, ncallers)
		var payloads []int
		t0 := make([]time.Time, ncallers)
		for i := 0; i < ncallers; i++ {
			p := holdBase + r*1000 + i
			payloads = append(payloads, p)
			go func(i, p int) {
				t0[i] = time.Now()
				v, err := send(p, target, heldTimeout)
				out <- res{time.Since(t0[i]), err, v}
			}(i, p)
		}
		for time.Now().Before(deadline) && srv.heldOn(payloads) < ncallers {
			time.Sleep(200 * time.Microsecond)
		}
		if srv.heldOn(payloads) < ncallers {
			return fmt.Sprintf("FAIL held-requests-not-at-server round=%d", r)
		}
		tBreak := time.Now()
		if srv.breakStreams(target) == 0 {
			return fmt.Sprintf("FAIL no-live-stream round=%d", r)
		}
		for i := 0; i < ncallers; i++ {
			select {
			case x := <-out:
				after := time.Since(tBreak)
				if x.err == nil {
					return fmt.Sprintf("FAIL held-call-got-response round=%d v=%d", r, x.v)
				}
				h.run.Count("bb:rebreak:err:" + errClass(x.err))
				if after > bound {
					return fmt.Sprintf("FAIL pending-call-not-failed-by-stream-break round=%d break=%d returned=%s after-break class=%s (time-out %s)",
						r, r, after.Round(100*time.Millisecond), errClass(x.err), heldTimeout)
				}
			case <-time.After(heldTimeout + bbSlack):
				return fmt.Sprintf("FAIL caller-stuck round=%d", r)
			}
		}
	}
	// ids at the server: strictly increasing per stream, never reused
	srv.mu.Lock()
	defer srv.mu.Unlock()
	seen := map[uint64]bool{}
	for _, st := range srv.streams {
		var last uint64
		for _, id := range st.ids {
			if id <= last || seen[id] {
				return fmt.Sprintf("FAIL id-reused-or-not-increasing id=%d stream=%d", id, st.seq)
			}
			last = id
			seen[id] = true
		}
	}
	h.run.Stats["bb:rebreak:streams"] += len(srv.streams)
	return "ok"
}

// looppanic: the real RPCClient; while a request is unanswered (held by the server) the batch send loop panics
// (failpoint tikvclient/mockBlockOnBatchClient=1*panic) and recovers; further calls follow, one of them held as well;
// then the server releases the OLD response first.  Every call must return its own echo or an error, and the ids seen
// by the server must never repeat.  nreq = number of panics (rounds), ncallers = ordinary calls after each panic.
func (h *H) looppanic(seed, nconn, ncallers, rounds, faults int) string {
	h.cur.Load().endCase()
	if nconn != 1 || ncallers < 1 || rounds < 1 || rounds > 4 {
		return "bad-op"
	}
	restore := config.UpdateGlobal(func(c *config.Config) {
		c.TiKVClient.MaxBatchSize = maxBatch
		c.TiKVClient.GrpcConnectionCount = 1
	})
	defer restore()
	defer failpoint.Disable("tikvclient/mockBlockOnBatchClient")
	srv := &echoServer{seed: uint64(seed), resolve: map[uint64]int{}}
	srv.start("")
	defer srv.stop()
	rpc := client.NewRPCClient()
	defer rpc.Close()
	addr := srv.addr
	type res struct {
		payload int
		v       int
		err     error
	}
	send := func(payload int, tmo time.Duration) res {
		req := tikvrpc.NewRequest(tikvrpc.CmdGet, &kvrpcpb.GetRequest{Key: []byte(strconv.Itoa(payload))})
		resp, err := rpc.SendRequest(context.Background(), addr, req, tmo)
		if err != nil {
			return res{payload, 0, err}
		}
		g, ok := resp.Resp.(*kvrpcpb.GetResponse)
		if !ok {
			return res{payload, -1, nil}
		}
		v, _ := strconv.Atoi(string(g.Value))
		return res{payload, v, nil}
	}
	check := func(r res) string {
		if r.err != nil {
			h.run.Count("bb:looppanic:err:" + errClass(r.err))
			return ""
		}
		h.run.Count("bb:looppanic:ok")
		if r.v != echo(r.payload) {
			return fmt.Sprintf("FAIL foreign-response got=%d want=%d (got the answer to payload %d, sent payload %d)", r.v, echo(r.payload), (r.v-1)/2, r.payload)
		}
		return ""
	}
	const heldTimeout = 6 * time.Second
	next := 0
	waitHeld := func(p int) bool {
		dl := time.Now().Add(waitLong)
		for time.Now().Before(dl) {
			if srv.heldOn([]int{p}) == 1 {
				return true
			}
			time.Sleep(200 * time.Microsecond)
		}
		return false
	}
	for r := 1; r <= rounds; r++ {
		// warm up: ordinary calls
		for i := 0; i < 2; i++ {
			next++
			if m := check(send(next, 2*time.Second)); m != "" {
				return m
			}
		}
		// an unanswered request A
		pa := holdBase + r*10
		ca := make(chan res, 1)
		go func() { ca <- send(pa, heldTimeout) }()
		if !waitHeld(pa) {
			return fmt.Sprintf("FAIL held-request-not-at-server round=%d", r)
		}
		// the send loop panics on the next request B and recovers
		pc0 := client.VerifPanicCount()
		if err := failpoint.Enable("tikvclient/mockBlockOnBatchClient", "1*panic"); err != nil {
			return "FAIL cannot-enable-failpoint"
		}
		next++
		pb := next
		cb := make(chan res, 1)
		go func() { cb <- send(pb, heldTimeout) }()
		dl := time.Now().Add(waitLong)
		for client.VerifPanicCount() == pc0 && time.Now().Before(dl) {
			time.Sleep(50 * time.Microsecond)
		}
		failpoint.Disable("tikvclient/mockBlockOnBatchClient")
		if client.VerifPanicCount() == pc0 {
			return "FAIL send-loop-did-not-panic"
		}
		// ordinary calls after the restart (the first one also wakes the restarted loop)
		for i := 0; i < ncallers; i++ {
			next++
			if m := check(send(next, 2*time.Second)); m != "" {
				return m
			}
		}
		// another unanswered request D, then the server answers the OLD request A first, then D
		pd := holdBase + r*10 + 1
		cd := make(chan res, 1)
		go func() { cd <- send(pd, heldTimeout) }()
		if !waitHeld(pd) {
			return fmt.Sprintf("FAIL second-held-request-not-at-server round=%d", r)
		}
		srv.releaseHeld(pa)
		time.Sleep(20 * time.Millisecond)
		srv.releaseHeld(pd)
		for _, c := range []chan res{ca, cb, cd} {
			select {
			case x := <-c:
				if m := check(x); m != "" {
					return m
				}
			case <-time.After(heldTimeout + bbSlack):
				return fmt.Sprintf("FAIL caller-stuck round=%d", r)
			}
		}
	}
	srv.mu.Lock()
	defer srv.mu.Unlock()
	seen := map[uint64]int{}
	for _, st := range srv.streams {
		var last uint64
		for i, id := range st.ids {
			if prev, dup := seen[id]; dup {
				return fmt.Sprintf("FAIL id-reused id=%d payloads=%d,%d", id, prev, st.payloads[i])
			}
			if id <= last {
				return fmt.Sprintf("FAIL ids-not-increasing id=%d after=%d stream=%d", id, last, st.seq)
			}
			last = id
			seen[id] = st.payloads[i]
		}
	}
	return "ok"
}

// cancelwait: a fresh pool against a store that is DOWN.  A first call keeps the send loop busy (its send waits for the
// connection until the dial time-out), meanwhile ncallers calls queue up and are collected into one batch whose send
// waits for the connection again; a seeded subset of them (any position) cancels while it waits; then an ECHOING store
// comes up.  Every call returns the echo of ITS OWN payload or an error.  Timing only decides how often the window is
// hit, never the verdict.  faults&fForward: half of the calls go through a forwarded-host stream.
func (h *H) cancelwait(seed, nconn, ncallers, rounds, faults int) string {
	h.cur.Load().endCase()
	if nconn != 1 || ncallers < 2 || ncallers > 8 {
		return "bad-op"
	}
	rng := vx.NewRand(uint64(seed)*31 + 7)
	restore := config.UpdateGlobal(func(c *config.Config) {
		c.TiKVClient.MaxBatchSize = maxBatch
		c.TiKVClient.GrpcConnectionCount = 1
	})
	defer restore()
	srv := &echoServer{seed: uint64(seed), resolve: map[uint64]int{}}
	srv.start("")
	addr := srv.addr
	srv.stop() // the address is known, the store is down
	up := false
	defer func() {
		if up {
			srv.stop()
		}
	}()
	rpc := client.NewRPCClient()
	defer rpc.Close()
	type res struct {
		payload, v int
		err        error
	}
	send := func(ctx context.Context, payload int, fwd string, tmo time.Duration) res {
		req := tikvrpc.NewRequest(tikvrpc.CmdGet, &kvrpcpb.GetRequest{Key: []byte(strconv.Itoa(payload))})
		req.ForwardedHost = fwd
		resp, err := rpc.SendRequest(ctx, addr, req, tmo)
		if err != nil {
			return res{payload, 0, err}
		}
		g, ok := resp.Resp.(*kvrpcpb.GetResponse)
		if !ok {
			return res{payload, -1, nil}
		}
		v, _ := strconv.Atoi(string(g.Value))
		return res{payload, v, nil}
	}
	// the call that keeps the send loop waiting for the connection (fails at the dial time-out)
	x0 := make(chan res, 1)
	go func() { x0 <- send(context.Background(), 1, "", waitLong) }()
	time.Sleep(100 * time.Millisecond)
	type cl struct {
		payload int
		cancel  context.CancelFunc
		out     chan res
		cancels bool
	}
	var cs []*cl
	for i := 0; i < ncallers; i++ {
		c := &cl{payload: 10 + i, out: make(chan res, 1)}
		ctx, cancel := context.WithCancel(context.Background())
		c.cancel = cancel
		fwd := ""
		if faults&fForward != 0 && i%2 == 1 {
			fwd = "fwd1"
		}
		cs = append(cs, c)
		go func() { c.out <- send(ctx, c.payload, fwd, waitLong) }()
		time.Sleep(2 * time.Millisecond) // keep the submission order = payload order
	}
	// seeded cancel pattern: never everybody, prefer "not the last one"
	n := 0
	for i, c := range cs {
		if i < len(cs)-1 && rng.Chance(45) {
			c.cancels = true
			n++
		}
	}
	if n == 0 {
		cs[0].cancels = true
	}
	select {
	case <-x0: // the loop is done with the first call and moves on to the batch of the queued calls
	case <-time.After(2 * waitLong):
		return "FAIL first-call-stuck"
	}
	time.Sleep(300 * time.Millisecond)
	for _, c := range cs {
		if c.cancels {
			c.cancel()
		}
	}
	time.Sleep(50 * time.Millisecond)
	srv.start(addr)
	up = true
	for _, c := range cs {
		select {
		case r := <-c.out:
			if r.err != nil {
				h.run.Count("bb:cancelwait:err:" + errClass(r.err))
				continue
			}
			h.run.Count("bb:cancelwait:ok")
			if r.v != echo(r.payload) {
				return fmt.Sprintf("FAIL foreign-response got=%d want=%d (got the answer to payload %d, sent payload %d)", r.v, echo(r.payload), (r.v-1)/2, r.payload)
			}
		case <-time.After(2*waitLong + bbSlack):
			return fmt.Sprintf("FAIL caller-stuck payload=%d", c.payload)
		}
		c.cancel()
	}
	// pairing as the store saw it is checked by the echo itself; ids strictly increasing per stream
	srv.mu.Lock()
	defer srv.mu.Unlock()
	for _, st := range srv.streams {
		var last uint64
		for _, id := range st.ids {
			if id <= last {
				return fmt.Sprintf("FAIL ids-not-increasing id=%d after=%d", id, last)
			}
			last = id
		}
	}
	return "ok"
}

func (h *H) blackbox(scn string, seed, nconn, ncallers, nreq, faults int) string {
	if scn == "cancelwait" {
		return h.cancelwait(seed, nconn, ncallers, nreq, faults)
	}
	if scn == "looppanic" {
		return h.looppanic(seed, nconn, ncallers, nreq, faults)
	}
	if scn == "rebreak" {
		return h.rebreak(seed, nconn, ncallers, nreq, faults)
	}
	h.cur.Load().endCase()
	if nconn < 1 || nconn > 4 || ncallers < 1 || nreq < 1 {
		return "bad-op"
	}
	rng := vx.NewRand(uint64(seed)*7919 + 13)
	restore := config.UpdateGlobal(func(c *config.Config) {
		c.TiKVClient.MaxBatchSize = maxBatch
		c.TiKVClient.GrpcConnectionCount = uint(nconn)
		if faults&fLimit != 0 {
			c.TiKVClient.MaxConcurrencyRequestLimit = 4
		}
	})
	defer restore()
	srv := &echoServer{faults: faults, seed: uint64(seed), resolve: map[uint64]int{}}
	srv.start("")
	defer srv.stop()
	addr := srv.addr
	var rpc client.Client = client.NewRPCClient()
	raw := rpc
	collapse := scn == "collapse"
	if collapse {
		rpc = client.NewReqCollapse(rpc)
	}
	calls := make([][]*call, ncallers)
	var wg sync.WaitGroup
	var nextPayload atomic.Int64
	stopFaults := make(chan struct{})
	var fwg sync.WaitGroup
	if faults&fRestart != 0 {
		fwg.Add(1)
		frng := rng.Fork()
		go func() {
			defer fwg.Done()
			for i := 0; i < 2; i++ {
				select {
				case <-stopFaults:
					return
				case <-time.After(time.Duration(20+frng.Intn(60)) * time.Millisecond):
				}
				srv.stop()
				time.Sleep(time.Duration(10+frng.Intn(40)) * time.Millisecond)
				srv.start(addr)
			}
		}()
	}
	if faults&fClose != 0 {
		fwg.Add(1)
		frng := rng.Fork()
		go func() {
			defer fwg.Done()
			select {
			case <-stopFaults:
				return
			case <-time.After(time.Duration(20+frng.Intn(80)) * time.Millisecond):
			}
			if rc, ok := raw.(*client.RPCClient); ok {
				rc.CloseAddr(addr)
			}
		}()
	}
	for g := 0; g < ncallers; g++ {
		crng := rng.Fork()
		calls[g] = make([]*call, 0, nreq)
		for i := 0; i < nreq; i++ {
			calls[g] = append(calls[g], &call{})
		}
		wg.Add(1)
		go func(g int) {
			defer wg.Done()
			for i := 0; i < nreq; i++ {
				c := calls[g][i]
				c.payload = int(nextPayload.Add(1))
				switch crng.Intn(4) {
				case 0:
					c.timeout = 150 * time.Millisecond
				case 1:
					c.timeout = 400 * time.Millisecond
				default:
					c.timeout = 2 * time.Second
				}
				var req *tikvrpc.Request
				if collapse {
					// callers of the same round share (region, start version): their requests may be collapsed
					c.key = uint64(i + 1)
					c.payload = i + 1
					req = tikvrpc.NewRequest(tikvrpc.CmdResolveLock, &kvrpcpb.ResolveLockRequest{StartVersion: resolveTS + c.key, CommitVersion: resolveTS + c.key + 1})
					req.RegionId = 7
				} else {
					req = tikvrpc.NewRequest(tikvrpc.CmdGet, &kvrpcpb.GetRequest{Key: []byte(strconv.Itoa(c.payload))})
				}
				req.ResourceControlContext = &kvrpcpb.ResourceControlContext{OverridePriority: uint64(crng.Intn(16))}
				if faults&fForward != 0 && crng.Bool() {
					req.ForwardedHost = "fwd1"
				}
				ctx, cancel := context.WithCancel(context.Background())
				if faults&fCancel != 0 && crng.Chance(20) {
					d := time.Duration(crng.Intn(30)) * time.Millisecond
					time.AfterFunc(d, cancel)
				}
				c.start = time.Now()
				resp, err := rpc.SendRequest(ctx, addr, req, c.timeout)
				c.lat = time.Since(c.start)
				cancel()
				if err != nil {
					c.errCls = errClass(err)
				} else if resp == nil || resp.Resp == nil {
					c.errCls = "nil-response"
					c.gotOK = true
					c.got = -1
				} else {
					c.gotOK = true
					c.got = -1
					switch r := resp.Resp.(type) {
					case *kvrpcpb.GetResponse:
						c.got, _ = strconv.Atoi(string(r.Value))
					case *kvrpcpb.ResolveLockResponse:
						c.got, _ = strconv.Atoi(r.GetError().GetAbort())
					}
				}
				atomic.AddInt32(&c.returned, 1)
			}
		}(g)
	}
	doneCh := make(chan struct{})
	go func() { wg.Wait(); close(doneCh) }()
	// every call is bounded by its own time-out; the scenario by (sum of time-outs per caller) + slack
	bound := time.Duration(nreq)*2*time.Second + bbSlack
	stuck := false
	select {
	case <-doneCh:
	case <-time.After(bound):
		stuck = true
	}
	close(stopFaults)
	fwg.Wait()
	rpc.Close()
	if stuck {
		n := 0
		for _, cs := range calls {
			for _, c := range cs {
				if atomic.LoadInt32(&c.returned) == 0 && !c.start.IsZero() {
					n++
				}
			}
		}
		return fmt.Sprintf("FAIL calls-blocked-beyond-timeout n=%d", n)
	}
	// ---- property oracle on the implementation's own observations
	for _, cs := range calls {
		for _, c := range cs {
			if c.returned != 1 {
				return fmt.Sprintf("FAIL returned=%d payload=%d", c.returned, c.payload)
			}
			if c.gotOK {
				h.run.Count("bb:ok")
				if c.got != echo(c.payload) {
					return fmt.Sprintf("FAIL foreign-response got=%d want=%d (sent payload %d)", c.got, echo(c.payload), c.payload)
				}
			} else {
				h.run.Count("bb:err:" + c.errCls)
			}
			if c.lat > c.timeout+bbSlack {
				return fmt.Sprintf("FAIL blocked payload=%d timeout=%s latency=%s", c.payload, c.timeout, c.lat)
			}
		}
	}
	srv.mu.Lock()
	defer srv.mu.Unlock()
	// ids: strictly increasing on every stream; never reused within one connection pool.  Without a pool close the
	// whole run is one pool (one builder); with fClose a second pool (new builder, new TCP connections, the server is
	// never restarted in those scenarios) may start again at 1, so uniqueness is checked per remote TCP address.
	type idKey struct {
		peer string
		id   uint64
	}
	seen := map[idKey]int{}
	for _, st := range srv.streams {
		var last uint64
		for i, id := range st.ids {
			if id <= last {
				return fmt.Sprintf("FAIL ids-not-increasing conn=%s fwd=%q stream=%d id=%d after=%d", st.connIdx, st.fwd, st.seq, id, last)
			}
			last = id
			k := idKey{"", id}
			if faults&fClose != 0 {
				k.peer = st.peer
			}
			if prev, dup := seen[k]; dup {
				return fmt.Sprintf("FAIL id-reused id=%d payloads=%d,%d", id, prev, st.payloads[i])
			}
			seen[k] = st.payloads[i]
		}
	}
	if collapse {
		for k, n := range srv.resolve {
			if n > ncallers {
				return fmt.Sprintf("FAIL collapse key=%d seen=%d callers=%d", k, n, ncallers)
			}
			h.run.Stats["bb:collapse-requests"] += n
		}
		h.run.Stats["bb:collapse-calls"] += ncallers * nreq
	}
	h.run.Stats["bb:streams"] += len(srv.streams)
	h.run.Stats["bb:requests-at-server"] += len(seen)
	return "ok"
}

// ---------------------------------------------------------------------------------------------------------
// generation
// ---------------------------------------------------------------------------------------------------------

func genCase(r *vx.Rand, emit func(string), nops int) {
	n := 1 + r.Intn(2)
	nfwd := r.Intn(3)
	limit := defLimit
	switch r.Intn(4) {
	case 0:
		limit = 2
	case 1:
		limit = 4
	}
	emit(fmt.Sprintf("reset %d %d %d", n, limit, nfwd))
	if r.Chance(25) {
		emit("cfgcancel 0")
	}
	subs := 0  // handles so far
	inCh := 0  // upper bound of entries in the channel
	shorts := 0
	for i := 0; i < nops; i++ {
		x := r.Intn(100)
		switch {
		case x < 30 || subs == 0:
			if inCh >= 100 {
				emit("fetch 128")
				inCh = 0
				continue
			}
			pri := r.Intn(10)
			if r.Chance(30) {
				pri = 10 + r.Intn(6)
			}
			fwd := 0
			if nfwd > 0 && r.Chance(45) {
				fwd = 1 + r.Intn(nfwd)
			}
			if shorts < 2 && r.Chance(3) {
				shorts++
				emit(fmt.Sprintf("submitshort %d %d %d", 1000+subs, pri, fwd))
			} else {
				emit(fmt.Sprintf("submit %d %d %d", 1000+subs, pri, fwd))
			}
			subs++
			inCh++
		case x < 45:
			emit(fmt.Sprintf("fetch %d", []int{1, 2, 3, 4, 8, 128}[r.Intn(6)]))
		case x < 62:
			emit("flush")
		case x < 65:
			emit("breset")
		case x < 80:
			k := 1 + r.Intn(4)
			ids := make([]string, k)
			for j := range ids {
				ids[j] = strconv.Itoa(1 + r.Intn(subs+2))
			}
			emit(fmt.Sprintf("recv %d %d %s", r.Intn(n), r.Intn(nfwd+1), strings.Join(ids, " ")))
		case x < 86:
			emit(fmt.Sprintf("kill %d %d", r.Intn(n), r.Intn(nfwd+1)))
		case x < 92:
			emit(fmt.Sprintf("cancel %d", r.Intn(subs)))
		case x < 94:
			emit(fmt.Sprintf("sendfail %d %d %d", r.Intn(n), r.Intn(nfwd+1), r.Intn(2)))
		case x < 96:
			c := r.Intn(n)
			emit(fmt.Sprintf("lockrec %d 1", c))
			emit("flush")
			emit(fmt.Sprintf("lockrec %d 0", c))
		case x < 97:
			emit(fmt.Sprintf("setlimit %d %d", r.Intn(n), []int{0, 1, 2, 4, defLimit}[r.Intn(5)]))
		case x < 98:
			if r.Bool() {
				emit("panicloop")
				inCh = 0
			} else {
				emit(strings.TrimSpace(fmt.Sprintf("flushwait %d", r.Intn(subs))))
			}
		default:
			emit("fetch 128")
			emit("flush")
		}
	}
	emit("close")
	emit("audit")
}

// genRebreak: the same stream breaks k times, with fresh pending requests before every break.
// variant 0: single connection, no sibling streams; 1: sibling streams exist but are never broken;
// 2: siblings are broken in between as well (then the code's own "another stream handles this epoch" branch is legal).
func genRebreak(r *vx.Rand, emit func(string), k, variant int) {
	n, nfwd := 1, 0
	if variant > 0 {
		nfwd = 1 + r.Intn(2)
		n = 1 + r.Intn(2)
	}
	emit(fmt.Sprintf("reset %d %d %d", n, defLimit, nfwd))
	tcid, tfwd := r.Intn(n), r.Intn(nfwd+1)
	subs := 0
	for round := 1; round <= k; round++ {
		// fresh requests for every stream of every connection (round robin: one flush per connection)
		for c := 0; c < n; c++ {
			m := 1 + r.Intn(3)
			for i := 0; i < m; i++ {
				emit(fmt.Sprintf("submit %d %d %d", 1000+subs, r.Intn(16), tfwd))
				subs++
			}
			for f := 0; f <= nfwd; f++ {
				if f != tfwd {
					emit(fmt.Sprintf("submit %d %d %d", 1000+subs, r.Intn(10), f))
					subs++
				}
			}
			emit("fetch 128")
			emit("flush")
		}
		if r.Chance(40) && subs > 1 {
			emit(fmt.Sprintf("recv %d %d %d", tcid, tfwd, 1+r.Intn(subs)))
		}
		if variant == 2 && r.Chance(60) {
			emit(fmt.Sprintf("kill %d %d", tcid, (tfwd+1)%(nfwd+1)))
		}
		emit(fmt.Sprintf("kill %d %d", tcid, tfwd))
	}
	emit("close")
	emit("audit")
}

// genLoopPanic: the send loop panics and recovers while earlier requests are unanswered; more requests follow and
// the old ones are answered late.
func genLoopPanic(r *vx.Rand, emit func(string), k int) {
	n, nfwd := 1+r.Intn(2), r.Intn(2)
	emit(fmt.Sprintf("reset %d %d %d", n, defLimit, nfwd))
	subs := 0
	sub := func(m int) {
		for i := 0; i < m; i++ {
			emit(fmt.Sprintf("submit %d %d %d", 1000+subs, r.Intn(16), r.Intn(nfwd+1)))
			subs++
		}
	}
	sub(1 + r.Intn(3))
	emit("fetch 128")
	emit("flush") // unanswered requests in the table
	for round := 0; round < k; round++ {
		sub(1 + r.Intn(3))
		if r.Chance(30) && subs > 0 {
			emit(fmt.Sprintf("cancel %d", r.Intn(subs)))
		}
		emit("panicloop")
		sub(1 + r.Intn(3))
		emit("fetch 128")
		emit("flush")
		// late answers for old and new ids, on every stream
		for c := 0; c < n; c++ {
			for f := 0; f <= nfwd; f++ {
				emit(fmt.Sprintf("recv %d %d %d %d", c, f, 1+r.Intn(subs), 1+r.Intn(subs)))
			}
		}
	}
	for c := 0; c < n; c++ {
		ids := make([]string, subs)
		for i := range ids {
			ids[i] = strconv.Itoa(i + 1)
		}
		emit(fmt.Sprintf("recv %d 0 %s", c, strings.Join(ids, " ")))
	}
	emit("close")
	emit("audit")
}

// genCancelWait: 2-6 callers (direct and forwarded) are collected into one batch; the send waits for the connection
// (no stream yet, connection down); a subset in any position cancels meanwhile; then every id is answered.
func genCancelWait(r *vx.Rand, emit func(string), rounds int) {
	n, nfwd := 1+r.Intn(2), r.Intn(3)
	emit(fmt.Sprintf("reset %d %d %d", n, defLimit, nfwd))
	subs := 0
	for round := 0; round < rounds; round++ {
		first := subs
		m := 2 + r.Intn(5)
		for i := 0; i < m; i++ {
			emit(fmt.Sprintf("submit %d %d %d", 1000+subs, r.Intn(16), r.Intn(nfwd+1)))
			subs++
		}
		emit("fetch 128")
		var cs []string
		switch r.Intn(4) {
		case 0: // the first of the batch
			cs = append(cs, strconv.Itoa(first))
		case 1: // one in the middle
			cs = append(cs, strconv.Itoa(first+1+r.Intn(m-1)-r.Intn(2)*0))
		default:
			for i := 0; i < m; i++ {
				if r.Chance(40) {
					cs = append(cs, strconv.Itoa(first+i))
				}
			}
		}
		if r.Chance(20) && first > 0 {
			cs = append(cs, strconv.Itoa(r.Intn(first))) // and somebody of an earlier batch
		}
		emit(strings.TrimSpace("flushwait " + strings.Join(cs, " ")))
		ids := make([]string, subs)
		for i := range ids {
			ids[i] = strconv.Itoa(i + 1)
		}
		for c := 0; c < n; c++ {
			emit(fmt.Sprintf("recv %d %d %s", c, r.Intn(nfwd+1), strings.Join(ids, " ")))
		}
		if r.Chance(40) {
			emit(fmt.Sprintf("kill %d %d", r.Intn(n), r.Intn(nfwd+1)))
		}
	}
	emit("close")
	emit("audit")
}

func main() {
	run := vx.Start()
	defer run.Finish()
	h := &H{run: run}
	h.setup()
	do := func(op string) {
		w := strings.Fields(op)
		key := w[0]
		if key == "bb" {
			key = "bb:" + w[1] + ":" + w[len(w)-1]
		}
		run.Count(key)
		run.Emit(op, h.exec(op))
	}
	if run.Replay != "" {
		for _, l := range run.ReplayLines() {
			if strings.HasPrefix(l, "#") {
				run.Comment(strings.TrimSpace(l[1:]))
				continue
			}
			run.Emit(l, h.exec(l))
		}
		h.cur.Load().endCase()
		return
	}
	r := vx.NewRand(run.Seed)
	ncases, nbb := 120, 1
	if run.Thorough() {
		ncases, nbb = 1500, 4
	}
	caseNo := 0
	newCase := func() {
		caseNo++
		run.Comment(fmt.Sprintf("case %d", caseNo))
	}
	// fixed corpus: the two-stream epoch scenario (direct stream fails first, forwarded stream later)
	newCase()
	for _, op := range []string{"reset 1 1000000 1", "submit 1 0 0", "submit 2 0 1", "fetch 8", "flush", "kill 0 0",
		"submit 3 0 1", "fetch 8", "flush", "kill 0 1", "recv 0 1 2 3", "close", "audit"} {
		do(op)
	}
	// directed family: the same stream breaks 2, 3, 4 times with fresh pending requests before each break
	nre := 1
	if run.Thorough() {
		nre = 6
	}
	for rep := 0; rep < nre; rep++ {
		for variant := 0; variant < 3; variant++ {
			for k := 2; k <= 4; k++ {
				newCase()
				run.Count(fmt.Sprintf("family:rebreak:v%d:k%d", variant, k))
				genRebreak(r.Fork(), do, k, variant)
			}
		}
	}
	// directed family: callers cancel while the batch waits for the connection
	ncw := 8
	if run.Thorough() {
		ncw = 60
	}
	for rep := 0; rep < ncw; rep++ {
		newCase()
		run.Count("family:cancelwait")
		genCancelWait(r.Fork(), do, 1+rep%3)
	}
	// directed family: the send loop panics and recovers 1..3 times with unanswered requests
	for rep := 0; rep < nre; rep++ {
		for k := 1; k <= 3; k++ {
			newCase()
			run.Count(fmt.Sprintf("family:looppanic:k%d", k))
			genLoopPanic(r.Fork(), do, k)
		}
	}
	for i := 0; i < ncases; i++ {
		newCase()
		nops := 20 + r.Intn(100)
		if run.Thorough() && r.Chance(10) {
			nops = 400
		}
		genCase(r.Fork(), do, nops)
	}
	// black-box scenarios
	type scn struct {
		name                   string
		nconn, ncallers, nreq  int
		faults                 int
	}
	base := []scn{
		{"mix", 1, 24, 6, 0},
		{"mix", 2, 24, 6, fDelay | fCancel},
		{"mix", 1, 24, 5, fDelay | fDrop | fKill | fForward},
		{"mix", 2, 32, 5, fDelay | fKill | fCancel | fDup | fForward},
		{"mix", 2, 24, 4, fDelay | fRestart | fCancel},
		{"mix", 1, 24, 4, fDelay | fKill | fClose | fCancel},
		{"mix", 2, 24, 5, fDelay | fLimit | fKill | fDup},
		{"collapse", 1, 12, 4, fDelay},
		// the same stream breaks nreq = 2, 3, 4 times with ncallers fresh pending requests each time
		{"rebreak", 1, 4, 2, 0},
		{"rebreak", 1, 3, 3, fForward},
		{"rebreak", 1, 3, 4, 0},
		// the send loop panics and recovers nreq times while a request is unanswered
		{"looppanic", 1, 3, 1, 0},
		{"looppanic", 1, 2, 2, 0},
		// callers cancel while their batch waits for the connection of a store that is down at first
		{"cancelwait", 1, 4, 1, 0},
		{"cancelwait", 1, 6, 1, fForward},
	}
	for rep := 0; rep < nbb; rep++ {
		for _, s := range base {
			if s.name == "cancelwait" && !run.Thorough() && s.faults != 0 {
				continue // ~6 s each (dial time-out): one in the quick tier, both in the thorough tier
			}
			newCase()
			do("reset 1 1000000 0")
			sc := 1
			if run.Thorough() {
				sc = 2
			}
			if s.name == "rebreak" || s.name == "looppanic" || s.name == "cancelwait" {
				sc = 1
			}
			do(fmt.Sprintf("bb %s %d %d %d %d %d", s.name, r.Intn(1<<30), s.nconn, s.ncallers*sc, s.nreq, s.faults))
		}
	}
	h.cur.Load().endCase()
	_ = os.Stderr
}
