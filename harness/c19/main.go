//go:build verif

// C19 harness: runs /repo/util/codec on op lines shared with the Lean model driver (cgv-c19).
package main

import (
	"bytes"
	"fmt"
	"math"
	"strconv"
	"strings"

	"github.com/tikv/client-go/v2/util/codec"
	"github.com/tikv/client-go/v2/verifx/vx"
)

func errClass(err error) string {
	s := err.Error()
	switch {
	case strings.Contains(s, "insufficient"):
		return "insufficient"
	case strings.Contains(s, "larger than 64"):
		return "overflow"
	case strings.Contains(s, "invalid"):
		return "invalid"
	}
	return "other"
}

type val struct {
	kind byte // 'b','u','i'
	b    []byte
	u    uint64
	i    int64
}

func (v val) str() string {
	switch v.kind {
	case 'b':
		return vx.Hex(v.b)
	case 'u':
		return strconv.FormatUint(v.u, 10)
	}
	return strconv.FormatInt(v.i, 10)
}
func (v val) eq(o val) bool {
	return v.kind == o.kind && bytes.Equal(v.b, o.b) && v.u == o.u && v.i == o.i
}
func (v val) cmp(o val) int {
	switch v.kind {
	case 'b':
		return bytes.Compare(v.b, o.b)
	case 'u':
		if v.u < o.u {
			return -1
		} else if v.u > o.u {
			return 1
		}
		return 0
	}
	if v.i < o.i {
		return -1
	} else if v.i > o.i {
		return 1
	}
	return 0
}

func parseVal(kind, s string) (val, bool) {
	switch kind {
	case "bytes":
		b, ok := vx.UnHex(s)
		return val{kind: 'b', b: b}, ok
	case "uint", "uintdesc", "uvarint", "cuvarint":
		u, err := strconv.ParseUint(s, 10, 64)
		return val{kind: 'u', u: u}, err == nil
	case "int", "intdesc", "varint", "cvarint":
		i, err := strconv.ParseInt(s, 10, 64)
		return val{kind: 'i', i: i}, err == nil
	}
	return val{}, false
}

func enc(kind string, v val) ([]byte, bool) {
	switch kind {
	case "bytes":
		return codec.EncodeBytes(nil, v.b), true
	case "uint":
		return codec.EncodeUint(nil, v.u), true
	case "uintdesc":
		return codec.EncodeUintDesc(nil, v.u), true
	case "uvarint":
		return codec.EncodeUvarint(nil, v.u), true
	case "cuvarint":
		return codec.EncodeComparableUvarint(nil, v.u), true
	case "int":
		return codec.EncodeInt(nil, v.i), true
	case "intdesc":
		return codec.EncodeIntDesc(nil, v.i), true
	case "varint":
		return codec.EncodeVarint(nil, v.i), true
	case "cvarint":
		return codec.EncodeComparableVarint(nil, v.i), true
	}
	return nil, false
}

// encInto appends to a caller-supplied destination, as every encoder's signature allows (b = EncodeX(b, v))
func encInto(kind string, dst []byte, v val) ([]byte, bool) {
	switch kind {
	case "bytes":
		return codec.EncodeBytes(dst, v.b), true
	case "uint":
		return codec.EncodeUint(dst, v.u), true
	case "uintdesc":
		return codec.EncodeUintDesc(dst, v.u), true
	case "uvarint":
		return codec.EncodeUvarint(dst, v.u), true
	case "cuvarint":
		return codec.EncodeComparableUvarint(dst, v.u), true
	case "int":
		return codec.EncodeInt(dst, v.i), true
	case "intdesc":
		return codec.EncodeIntDesc(dst, v.i), true
	case "varint":
		return codec.EncodeVarint(dst, v.i), true
	case "cvarint":
		return codec.EncodeComparableVarint(dst, v.i), true
	}
	return nil, false
}

// dec returns (value, rest, err, known-kind)
func dec(kind string, b []byte) (val, []byte, error, bool) {
	in := append([]byte{}, b...) // decoders must not be able to corrupt the caller's view
	switch kind {
	case "bytes":
		r, v, err := codec.DecodeBytes(in, nil)
		return val{kind: 'b', b: append([]byte{}, v...)}, r, err, true
	case "bytesdesc":
		r, v, err := codec.VerifDecodeBytesDesc(in)
		return val{kind: 'b', b: append([]byte{}, v...)}, r, err, true
	case "uint":
		r, v, err := codec.DecodeUint(in)
		return val{kind: 'u', u: v}, r, err, true
	case "uintdesc":
		r, v, err := codec.DecodeUintDesc(in)
		return val{kind: 'u', u: v}, r, err, true
	case "uvarint":
		r, v, err := codec.DecodeUvarint(in)
		return val{kind: 'u', u: v}, r, err, true
	case "cuvarint":
		r, v, err := codec.DecodeComparableUvarint(in)
		return val{kind: 'u', u: v}, r, err, true
	case "int":
		r, v, err := codec.DecodeInt(in)
		return val{kind: 'i', i: v}, r, err, true
	case "intdesc":
		r, v, err := codec.DecodeIntDesc(in)
		return val{kind: 'i', i: v}, r, err, true
	case "varint":
		r, v, err := codec.DecodeVarint(in)
		return val{kind: 'i', i: v}, r, err, true
	case "cvarint":
		r, v, err := codec.DecodeComparableVarint(in)
		return val{kind: 'i', i: v}, r, err, true
	}
	return val{}, nil, nil, false
}

func isDesc(k string) bool       { return k == "intdesc" || k == "uintdesc" }
func isComparable(k string) bool { return k != "varint" && k != "uvarint" }
func isStrict(k string) bool {
	return k == "bytes" || k == "int" || k == "intdesc" || k == "uint" || k == "uintdesc"
}
func ordStr(c int) string {
	if c < 0 {
		return "lt"
	} else if c > 0 {
		return "gt"
	}
	return "eq"
}

func exec(line string) string {
	return vx.Guard(func() string {
		w := strings.Fields(line)
		if len(w) == 0 {
			return "bad-op"
		}
		switch {
		case w[0] == "enc" && len(w) == 3:
			v, ok := parseVal(w[1], w[2])
			if !ok {
				return "bad-op"
			}
			e, ok := enc(w[1], v)
			if !ok {
				return "bad-op"
			}
			return vx.Hex(e)
		case w[0] == "dec" && len(w) == 3:
			b, ok := vx.UnHex(w[2])
			if !ok {
				return "bad-op"
			}
			v, r, err, ok := dec(w[1], b)
			if !ok {
				return "bad-op"
			}
			if err != nil {
				return "err " + errClass(err)
			}
			return "ok " + v.str() + " " + vx.Hex(r)
		case w[0] == "cmp" && len(w) == 3:
			a, ok1 := vx.UnHex(w[1])
			b, ok2 := vx.UnHex(w[2])
			if !ok1 || !ok2 {
				return "bad-op"
			}
			return ordStr(bytes.Compare(a, b))
		case w[0] == "rt" && len(w) == 4:
			v, ok := parseVal(w[1], w[2])
			s, ok2 := vx.UnHex(w[3])
			if !ok || !ok2 {
				return "bad-op"
			}
			e, ok := enc(w[1], v)
			if !ok {
				return "bad-op"
			}
			v2, r, err, _ := dec(w[1], append(append([]byte{}, e...), s...))
			if err != nil {
				return "FAIL err " + errClass(err)
			}
			if v2.eq(v) && bytes.Equal(r, s) {
				return "ok"
			}
			return "FAIL got " + v2.str() + " " + vx.Hex(r)
		case w[0] == "apd" && len(w) == 6:
			// append contract: encoding into a recycled buffer (content = prefix, spare capacity full of stale bytes)
			// gives prefix ++ encoding-into-nil, decodes back, and leaves the prefix alone
			v, ok := parseVal(w[1], w[2])
			pfx, ok2 := vx.UnHex(w[3])
			dirty, err1 := strconv.ParseUint(w[4], 10, 8)
			spare, err2 := strconv.Atoi(w[5])
			if !ok || !ok2 || err1 != nil || err2 != nil || spare < 0 || spare > 4096 {
				return "bad-op"
			}
			want, ok := enc(w[1], v)
			if !ok {
				return "bad-op"
			}
			buf := make([]byte, len(pfx)+spare)
			for i := range buf {
				buf[i] = byte(dirty)
			}
			copy(buf, pfx)
			got, _ := encInto(w[1], buf[:len(pfx)], v)
			if !bytes.Equal(got, append(append([]byte{}, pfx...), want...)) {
				return "FAIL append " + vx.Hex(got)
			}
			v2, r, err, _ := dec(w[1], got[len(pfx):])
			if err != nil {
				return "FAIL err " + errClass(err)
			}
			if !v2.eq(v) || len(r) != 0 {
				return "FAIL got " + v2.str() + " " + vx.Hex(r)
			}
			return "ok"
		case w[0] == "ord" && len(w) == 4:
			x, ok := parseVal(w[1], w[2])
			y, ok2 := parseVal(w[1], w[3])
			if !ok || !ok2 {
				return "bad-op"
			}
			ex, ok := enc(w[1], x)
			ey, _ := enc(w[1], y)
			if !ok {
				return "bad-op"
			}
			want := x.cmp(y)
			if isDesc(w[1]) {
				want = -want
			}
			if !isComparable(w[1]) {
				return "ok"
			}
			if got := bytes.Compare(ex, ey); got != want {
				return "FAIL " + ordStr(got)
			}
			return "ok"
		case w[0] == "pfx" && len(w) == 4:
			x, ok := parseVal(w[1], w[2])
			y, ok2 := parseVal(w[1], w[3])
			if !ok || !ok2 {
				return "bad-op"
			}
			ex, ok := enc(w[1], x)
			ey, _ := enc(w[1], y)
			if !ok {
				return "bad-op"
			}
			if !x.eq(y) && bytes.HasPrefix(ey, ex) {
				return "FAIL prefix"
			}
			return "ok"
		case w[0] == "snd" && len(w) == 3:
			b, ok := vx.UnHex(w[2])
			if !ok {
				return "bad-op"
			}
			v, r, err, ok := dec(w[1], b)
			if !ok {
				return "bad-op"
			}
			if err != nil {
				return "ok"
			}
			if isStrict(w[1]) {
				e, _ := enc(w[1], v)
				if bytes.Equal(append(e, r...), b) {
					return "ok"
				}
				return "FAIL wrong-value"
			}
			if bytes.HasSuffix(b, r) {
				return "ok"
			}
			return "FAIL suffix"
		}
		return "bad-op"
	})
}

var alphabet = []byte{0x00, 0x01, 0x7F, 0x80, 0xFE, 0xFF}

var byteKinds = []string{"bytes"}
var uKinds = []string{"uint", "uintdesc", "uvarint", "cuvarint"}
var iKinds = []string{"int", "intdesc", "varint", "cvarint"}
var decKinds = []string{"bytes", "bytesdesc", "uint", "uintdesc", "uvarint", "cuvarint", "int", "intdesc", "varint", "cvarint"}

func boundaryU() []uint64 {
	var out []uint64
	add := func(v uint64) { out = append(out, v-2, v-1, v, v+1, v+2) }
	add(0)
	add(8)
	add(239)
	add(247)
	for s := uint(7); s < 64; s += 7 {
		add(1 << s)
	}
	for s := uint(8); s < 64; s += 8 {
		add(1 << s)
	}
	add(1 << 63)
	add(math.MaxUint64)
	return out
}
func boundaryI() []int64 {
	var out []int64
	for _, u := range boundaryU() {
		out = append(out, int64(u), -int64(u))
	}
	out = append(out, math.MinInt64, math.MinInt64+1, math.MaxInt64, math.MaxInt64-1)
	return out
}

func randBytes(r *vx.Rand) []byte {
	// lengths clustered around multiples of 8
	var n int
	switch r.Intn(4) {
	case 0:
		n = r.Intn(4)
	case 1:
		n = 8*(1+r.Intn(3)) + r.Intn(3) - 1
	case 2:
		n = r.Intn(20)
	default:
		n = 8 * r.Intn(4)
	}
	b := make([]byte, n)
	for i := range b {
		if r.Chance(70) {
			b[i] = alphabet[r.Intn(len(alphabet))]
		} else {
			b[i] = byte(r.U64())
		}
	}
	return b
}

func randU(r *vx.Rand, bu []uint64) uint64 {
	switch r.Intn(3) {
	case 0:
		return bu[r.Intn(len(bu))]
	case 1:
		return r.U64() >> uint(r.Intn(64))
	}
	return r.U64()
}

func main() {
	run := vx.Start()
	defer run.Finish()
	apdN := 0
	do := func(op string) {
		f := strings.Fields(op)
		run.Count(strings.Join(f[:2], ":"))
		run.Emit(op, exec(op))
		// every round-trip case is also run through the append contract: the same value encoded into a recycled
		// destination buffer (varying content prefix, spare capacity and stale fill byte)
		if f[0] == "rt" && len(f) == 4 {
			apdN++
			pfx := [][]byte{{}, {0x01}, {0xff, 0x00, 0x7f}, {1, 2, 3, 4, 5, 6, 7, 8, 9}}[apdN%4]
			dirty := []int{0xff, 0x01, 0x00, 0x80, 0xaa}[apdN%5]
			spare := []int{0, 1, 7, 9, 16, 64, 300}[apdN%7]
			a := fmt.Sprintf("apd %s %s %s %d %d", f[1], f[2], vx.Hex(pfx), dirty, spare)
			run.Count("apd:" + f[1])
			run.Emit(a, exec(a))
		}
	}
	if run.Replay != "" {
		for _, l := range run.ReplayLines() {
			if strings.HasPrefix(l, "#") {
				run.Comment(strings.TrimSpace(l[1:]))
				continue
			}
			run.Emit(l, exec(l))
		}
		return
	}
	r := vx.NewRand(run.Seed)
	maxLen := 4
	nRand := 3000
	if run.Thorough() {
		maxLen = 6
		nRand = 60000
	}
	// 1. exhaustive byte strings over the boundary alphabet
	run.Comment("exhaustive bytes")
	var all [][]byte
	var gen func(cur []byte, n int)
	gen = func(cur []byte, n int) {
		all = append(all, append([]byte{}, cur...))
		if n == 0 {
			return
		}
		for _, a := range alphabet {
			gen(append(cur, a), n-1)
		}
	}
	gen(nil, maxLen)
	sfx := [][]byte{{}, {0xaa, 0xbb}, {0xff}, {0x00, 0x00, 0x00, 0x00, 0x00, 0x00, 0x00, 0x00, 0xf7}}
	for i, b := range all {
		h := vx.Hex(b)
		do("enc bytes " + h)
		do("rt bytes " + h + " " + vx.Hex(sfx[i%len(sfx)]))
		o := all[r.Intn(len(all))]
		do("ord bytes " + h + " " + vx.Hex(o))
		do("pfx bytes " + h + " " + vx.Hex(o))
		do("cmp " + h + " " + vx.Hex(o))
		// neighbours in length around the group size: pad to 7,8,9,15,16,17
		if i%37 == 0 {
			for _, L := range []int{7, 8, 9, 15, 16, 17} {
				p := append(append([]byte{}, b...), bytes.Repeat([]byte{alphabet[i%6]}, L)...)[:L]
				do("rt bytes " + vx.Hex(p) + " " + vx.Hex(sfx[(i+1)%len(sfx)]))
				do("ord bytes " + vx.Hex(p) + " " + vx.Hex(append(append([]byte{}, p...), 0)))
				do("ord bytes " + vx.Hex(p) + " " + vx.Hex(p[:L-1]))
			}
		}
	}
	// 2. integers around boundaries: all pairs of neighbours + random partners
	run.Comment("boundary integers")
	bu, bi := boundaryU(), boundaryI()
	for i, u := range bu {
		for _, k := range uKinds {
			s := strconv.FormatUint(u, 10)
			do("enc " + k + " " + s)
			do("rt " + k + " " + s + " " + vx.Hex(sfx[i%len(sfx)]))
			for j := 0; j < 3; j++ {
				o := strconv.FormatUint(bu[(i+j*7+1)%len(bu)], 10)
				do("ord " + k + " " + s + " " + o)
				do("pfx " + k + " " + s + " " + o)
			}
		}
	}
	for i, v := range bi {
		for _, k := range iKinds {
			s := strconv.FormatInt(v, 10)
			do("enc " + k + " " + s)
			do("rt " + k + " " + s + " " + vx.Hex(sfx[i%len(sfx)]))
			for j := 0; j < 3; j++ {
				o := strconv.FormatInt(bi[(i+j*11+1)%len(bi)], 10)
				do("ord " + k + " " + s + " " + o)
				do("pfx " + k + " " + s + " " + o)
			}
		}
	}
	// 3. random values
	run.Comment("random")
	for n := 0; n < nRand; n++ {
		switch r.Intn(3) {
		case 0:
			a, b := randBytes(r), randBytes(r)
			if r.Chance(30) && len(a) > 0 { // related keys: prefix / last byte changed
				b = append([]byte{}, a...)
				if r.Bool() {
					b = b[:r.Intn(len(b))]
				} else {
					b[len(b)-1] ^= byte(1 << uint(r.Intn(8)))
				}
			}
			do("rt bytes " + vx.Hex(a) + " " + vx.Hex(randBytes(r)))
			do("ord bytes " + vx.Hex(a) + " " + vx.Hex(b))
			do("pfx bytes " + vx.Hex(a) + " " + vx.Hex(b))
		case 1:
			k := uKinds[r.Intn(len(uKinds))]
			a, b := randU(r, bu), randU(r, bu)
			do("rt " + k + " " + strconv.FormatUint(a, 10) + " " + vx.Hex(randBytes(r)))
			do("ord " + k + " " + strconv.FormatUint(a, 10) + " " + strconv.FormatUint(b, 10))
			do("pfx " + k + " " + strconv.FormatUint(a, 10) + " " + strconv.FormatUint(b, 10))
		default:
			k := iKinds[r.Intn(len(iKinds))]
			a, b := int64(randU(r, bu)), int64(randU(r, bu))
			if r.Bool() {
				a = -a
			}
			do("rt " + k + " " + strconv.FormatInt(a, 10) + " " + vx.Hex(randBytes(r)))
			do("ord " + k + " " + strconv.FormatInt(a, 10) + " " + strconv.FormatInt(b, 10))
			do("pfx " + k + " " + strconv.FormatInt(a, 10) + " " + strconv.FormatInt(b, 10))
		}
	}
	// 4. malformed stream: mutate valid encodings (truncate, bad marker, bad padding, bad tag, over-long varint)
	run.Comment("malformed")
	for n := 0; n < nRand; n++ {
		k := decKinds[r.Intn(len(decKinds))]
		var e []byte
		switch k {
		case "bytes":
			e = codec.EncodeBytes(nil, randBytes(r))
		case "bytesdesc":
			e = codec.EncodeBytes(nil, randBytes(r))
			for i := range e {
				e[i] = ^e[i]
			}
		case "uint", "uintdesc", "uvarint", "cuvarint":
			e, _ = enc(k, val{kind: 'u', u: randU(r, bu)})
		default:
			v := int64(randU(r, bu))
			if r.Bool() {
				v = -v
			}
			e, _ = enc(k, val{kind: 'i', i: v})
		}
		if tail := randBytes(r); len(tail) > 0 {
			e = append(e, tail[:r.Intn(min(3, len(tail)+1))]...)
		}
		switch r.Intn(7) {
		case 0: // keep valid
		case 1:
			if len(e) > 0 {
				e = e[:r.Intn(len(e))]
			}
		case 2:
			if len(e) > 0 {
				e[r.Intn(len(e))] = alphabet[r.Intn(6)]
			}
		case 3:
			if len(e) > 0 {
				e[0] = byte(r.U64())
			}
		case 4:
			if len(e) >= 9 {
				e[8] = byte(0xf0 + r.Intn(16))
			}
		case 5: // over-long varint
			e = append(bytes.Repeat([]byte{0x80 | byte(r.Intn(128))}, 8+r.Intn(4)), e...)
		case 6:
			if len(e) > 1 {
				e[len(e)-1-r.Intn(2)] ^= byte(1 << uint(r.Intn(8)))
			}
		}
		h := vx.Hex(e)
		do("dec " + k + " " + h)
		if k != "bytesdesc" {
			do("snd " + k + " " + h)
		}
	}
	_ = fmt.Sprint
}
