//go:build verif

package main

import (
	"bytes"
	"context"
	"fmt"
	"strconv"
	"strings"

	"github.com/tikv/client-go/v2/verifx/vx"
)

// flag ops (numeric kv.FlagsOp values; the model's table is regenerated from kv/keyflags.go)
var flagOps = []int{1, 2, 4, 8, 16, 32, 64, 128, 256, 512, 1024, 2048, 4096, 8192, 16384, 32768, 65536, 131072, 262144, 524288, 1048576, 2097152}
var persistentSetters = []int{4, 64, 131072, 1048576}

type gen struct {
	run   *vx.Run
	wd    *world
	r     *vx.Rand
	caseN int
}

func (g *gen) startCase(kind string, reset string) {
	g.run.Comment(fmt.Sprintf("case %d %s", g.caseN, kind))
	g.caseN++
	g.run.Count("cases:" + kind)
	g.do(reset)
}

func (g *gen) do(op string) string {
	res := g.wd.exec(op)
	g.run.Count("op:" + strings.Fields(op)[0])
	if strings.HasPrefix(res, "art=") {
		g.run.Count("result:trees-differ")
	}
	if strings.Contains(res, "FAIL") {
		g.run.Count("result:FAIL")
	}
	g.run.Emit(op, res)
	return res
}

func (g *gen) depth() int { return len(g.wd.art.stageCps) }

// unwind: probes + close every open stage (alternating cleanup / release), each checked by the view oracle
func (g *gen) finish(alt int) {
	g.do("view")
	g.do("tdump")
	g.do("rbtchk")
	g.do("snapchk")
	for d := g.depth(); d > 0; d-- {
		if (d+alt)%2 == 0 {
			g.do("cleanup " + strconv.Itoa(d))
		} else {
			g.do("release " + strconv.Itoa(d))
		}
	}
	g.do("view")
}

// ---------------------------------------------------------------- exhaustive short sequences

func longPrefix(n int, b byte) []byte { return bytes.Repeat([]byte{b}, n) }

func exhaustivePool() []string {
	p := longPrefix(21, 0x70)
	return []string{"61", "6161", "62", vx.Hex(append(append([]byte{}, p...), 1)), vx.Hex(append(append([]byte{}, p...), 2)), "ff"}
}

func (g *gen) exhaustive(keys []string, depth int, tag string) {
	var alphabet []string
	for _, k := range keys {
		alphabet = append(alphabet, "set "+k+" aa", "set "+k+" bb", "set "+k+" cccc", "del "+k, "upd "+k+" 4")
	}
	alphabet = append(alphabet, "staging", "RELEASE", "CLEANUP", "checkpoint", "REVERT")
	seq := make([]int, depth)
	var rec func(pos int)
	rec = func(pos int) {
		if pos == depth {
			g.startCase(tag, "reset")
			ncp := 0
			for _, a := range seq {
				op := alphabet[a]
				switch op {
				case "RELEASE":
					op = "release " + strconv.Itoa(g.depth())
				case "CLEANUP":
					op = "cleanup " + strconv.Itoa(g.depth())
				case "REVERT":
					op = "revert " + strconv.Itoa(max(ncp-1, 0))
				case "checkpoint":
					ncp++
				}
				g.do(op)
			}
			g.finish(g.caseN)
			return
		}
		for a := range alphabet {
			// symmetry cut: a stage/checkpoint undo as the very first op is a no-op
			if pos == 0 && (alphabet[a] == "RELEASE" || alphabet[a] == "CLEANUP" || alphabet[a] == "REVERT") {
				continue
			}
			seq[pos] = a
			rec(pos + 1)
		}
	}
	rec(0)
}

// ---------------------------------------------------------------- adversarial key pools

func (g *gen) keyPool() []string {
	r := g.r
	var keys [][]byte
	add := func(k []byte) { keys = append(keys, append([]byte{}, k...)) }
	switch r.Intn(6) {
	case 0: // shared prefix longer than the 20-byte in-node prefix; divergence inside, at and after byte 20
		p := longPrefix(22+r.Intn(30), byte(0x41+r.Intn(3)))
		add(p)
		for i := 0; i < 3+r.Intn(6); i++ {
			k := append(append([]byte{}, p...), byte(r.Intn(4)), byte(r.Intn(3)))
			add(k[:len(p)+1+r.Intn(2)])
		}
		q := append([]byte{}, p...)
		q[r.Intn(len(q))] ^= 1
		add(q)
		add(append(q, 0x00))
		add(p[:19])
		add(p[:20])
		add(p[:21])
	case 1: // chains of prefixes
		k := []byte{}
		for i := 0; i < 4+r.Intn(8); i++ {
			k = append(k, []byte{0x00, 0x61, 0xff}[r.Intn(3)])
			add(k)
		}
	case 2: // 00 / FF runs
		for _, b := range []byte{0x00, 0xff} {
			for n := 1; n <= 3; n++ {
				add(bytes.Repeat([]byte{b}, n))
			}
		}
		add([]byte{0x00, 0xff})
		add([]byte{0xff, 0x00})
		add([]byte{0x01})
		add([]byte{0xfe})
	case 3, 4: // fan-out crossing 4 / 16 / 48 / 256 children under one node
		n := []int{3, 4, 5, 15, 16, 17, 18, 47, 48, 49, 50, 255, 256}[r.Intn(13)]
		pre := [][]byte{{}, {0x66}, longPrefix(22, 0x67)}[r.Intn(3)]
		step := 1
		if n <= 50 && r.Bool() {
			step = 5
		}
		for i := 0; i < n; i++ {
			add(append(append([]byte{}, pre...), byte((i*step)%256)))
		}
		if len(pre) > 0 {
			add(pre)
		}
		add(append(append([]byte{}, pre...), 0x00, 0x00))
		add(append(append([]byte{}, pre...), 0xff, 0xff))
	default: // random short keys over a tiny alphabet
		for i := 0; i < 6+r.Intn(10); i++ {
			k := make([]byte, 1+r.Intn(4))
			for j := range k {
				k[j] = []byte{0x00, 0x61, 0x62, 0xff}[r.Intn(4)]
			}
			add(k)
		}
	}
	if r.Chance(25) {
		add([]byte{}) // the empty key
	}
	out := make([]string, len(keys))
	for i, k := range keys {
		out[i] = vx.Hex(k)
	}
	return out
}

func (g *gen) value(avoidLen int) string {
	r := g.r
	for {
		var v string
		switch {
		case r.Chance(4):
			// around the first arena block (4096 bytes, 20-byte header per entry)
			n := []int{4075, 4076, 4077, 2030, 2040, 4100, 5000, 8200}[r.Intn(8)]
			v = fmt.Sprintf("%02x*%d", 0xa0+r.Intn(4), n)
		case r.Chance(10):
			v = fmt.Sprintf("%02x*%d", r.Intn(256), 40+r.Intn(200))
		default:
			n := 1 + r.Intn(3)
			b := make([]byte, n)
			for i := range b {
				b[i] = byte(0xa0 + r.Intn(4))
			}
			v = vx.Hex(b)
		}
		b, _ := parseBytesTok(v)
		if avoidLen < 0 || len(b) != avoidLen {
			return v
		}
	}
}

func (g *gen) flagSuffix() string {
	r := g.r
	if r.Chance(60) {
		return ""
	}
	s := ""
	for i := 0; i < 1+r.Intn(2); i++ {
		if r.Chance(40) {
			s += " " + strconv.Itoa(persistentSetters[r.Intn(len(persistentSetters))])
		} else {
			s += " " + strconv.Itoa(flagOps[r.Intn(len(flagOps))])
		}
	}
	return s
}

func (g *gen) liveCps() []int {
	t := g.wd.art
	var out []int
	for i, c := range t.cps {
		if !c.ok {
			continue
		}
		if n := len(t.stageCps); n > 0 && c.cp.LessThan(t.stageCps[n-1]) {
			continue
		}
		out = append(out, i)
	}
	return out
}

func (g *gen) anyLiveCp() bool {
	for _, c := range g.wd.art.cps {
		if c.ok {
			return true
		}
	}
	return false
}

// random: one case of up to maxOps ops.  safeRevert (kept from the time before the lastCheckpoint fix; both modes must pass now): while a checkpoint is alive, overwrites never keep the length of the
// current value (so that no value is swapped in place behind a checkpoint); the other revert paths stay fully exercised.
func (g *gen) random(maxOps int, safeRevert bool) {
	r := g.r
	reset := "reset"
	limited := r.Chance(15)
	if limited {
		reset = fmt.Sprintf("reset %d %d", 20+r.Intn(60), 100+r.Intn(400))
	}
	kind := "random"
	if safeRevert {
		kind = "random-saferevert"
	}
	g.startCase(kind, reset)
	keys := g.keyPool()
	hot := keys
	if len(keys) > 8 && r.Chance(70) {
		hot = keys[:4+r.Intn(4)] // concentrate undo traffic on few keys, keep the rest for tree shape
	}
	key := func() string {
		if r.Chance(70) {
			return hot[r.Intn(len(hot))]
		}
		return keys[r.Intn(len(keys))]
	}
	// often start by populating the whole pool (tree shape: node growth boundaries)
	n := 3 + r.Intn(maxOps)
	if r.Chance(50) {
		for _, k := range keys {
			g.do("set " + k + " " + g.value(-1))
			n--
			if n < 10 {
				break
			}
		}
	}
	ctx := context.Background()
	for i := 0; i < n; i++ {
		x := r.Intn(100)
		switch {
		case x < 30:
			k := key()
			avoid := -1
			if safeRevert && g.anyLiveCp() {
				kb, _ := parseBytesTok(k)
				if e, err := g.wd.art.mb.Get(ctx, kb); err == nil {
					avoid = len(e.Value)
				}
			}
			g.do("set " + k + " " + g.value(avoid) + g.flagSuffix())
		case x < 38:
			g.do("del " + key() + g.flagSuffix())
		case x < 46:
			k := key()
			s := g.flagSuffix()
			if s == "" {
				// mostly setters: a flag-clearing update of a valueless key triggers the known ART recount
				if r.Chance(85) {
					s = " " + strconv.Itoa([]int{1, 4, 16, 64, 512, 1024, 2048, 4096, 8192, 131072, 524288, 1048576}[r.Intn(12)])
				} else {
					s = " " + strconv.Itoa(flagOps[r.Intn(len(flagOps))])
				}
			}
			g.do("upd " + k + s)
		case x < 52:
			g.do("get " + key())
			g.do("getf " + key())
		case x < 58:
			a, b := key(), key()
			if r.Chance(30) {
				a = "-"
			}
			if r.Chance(30) {
				b = "-"
			}
			switch r.Intn(6) {
			case 0:
				g.do("iter " + a + " " + b)
			case 1:
				g.do("riter " + a + " " + b)
			case 2:
				g.do("iterf " + a + " " + b)
			case 3:
				g.do("riterf " + a)
			case 4:
				g.do("siter " + a + " " + b)
			default:
				g.do("sriter " + a + " " + b)
			}
		case x < 63:
			k := key()
			switch r.Intn(4) {
			case 0:
				g.do("sget " + k)
			case 1:
				g.do("gsget " + k)
			case 2:
				g.do(fmt.Sprintf("gsiter %s %s %d", []string{"-", key()}[r.Intn(2)], []string{"-", key()}[r.Intn(2)], r.Intn(2)))
			default:
				g.do(fmt.Sprintf("gsrange %s %s %d", []string{"-", key()}[r.Intn(2)], []string{"-", key()}[r.Intn(2)], r.Intn(2)))
			}
		case x < 70:
			if g.depth() < 4 {
				g.do("staging")
			}
		case x < 75:
			if d := g.depth(); d > 0 {
				g.do("release " + strconv.Itoa(d))
			}
		case x < 81:
			if d := g.depth(); d > 0 {
				g.do("cleanup " + strconv.Itoa(d))
			} else if r.Chance(20) {
				g.do("cleanup " + strconv.Itoa(r.Intn(3))) // 0 and too-large handles are no-ops
			}
		case x < 86:
			g.do("checkpoint")
		case x < 91:
			if l := g.liveCps(); len(l) > 0 {
				g.do("revert " + strconv.Itoa(l[r.Intn(len(l))]))
			}
		case x < 93:
			if d := g.depth(); d > 0 {
				g.do("inspect " + strconv.Itoa(1+r.Intn(d)))
			}
		case x < 95:
			p := []string{"any", "never", "len " + strconv.Itoa(r.Intn(4)), "ne " + g.value(-1)}[r.Intn(4)]
			g.do("hist " + key() + " " + p)
		case x < 96:
			g.do([]string{"len", "size", "dirty"}[r.Intn(3)])
		case x < 97:
			g.do("snapchk")
		case x < 98:
			g.do("view")
		case x < 99:
			g.do(fmt.Sprintf("iterw %d set %s %s", r.Intn(2), key(), g.value(-1)))
		default:
			g.do(fmt.Sprintf("gsstale %s set %s %s", key(), key(), g.value(-1)))
		}
	}
	g.finish(r.Intn(2))
}

// limits: keys around MaxKeyLen, entries and buffers around custom limits
func (g *gen) limits() {
	g.startCase("limits", "reset")
	for _, n := range []int{65534, 65535, 65536, 70000} {
		g.do(fmt.Sprintf("set 61*%d aa", n))
		g.do(fmt.Sprintf("upd 62*%d 4", n))
		g.do(fmt.Sprintf("del 63*%d", n))
		g.do(fmt.Sprintf("get 61*%d", n))
		g.do("len")
		g.do("size")
	}
	g.do("set 61 -")
	g.do("set 61 - 4")
	g.do("view")
	for _, e := range []int{10, 11} {
		g.startCase("limits", fmt.Sprintf("reset %d 30", e))
		g.do("set 6161 aa*8")  // 2 + 8 = 10
		g.do("set 6262 aa*9")  // 11
		g.do("set 6363 aa*10") // 12
		g.do("del 61*10")
		g.do("del 61*11")
		g.do("del 61*12")
		g.do("upd 61*12 4") // flags-only writes are not subject to the entry limit
		g.do("view")
		g.do("set 64 aa*8")
		g.do("set 65 aa*8")
		g.do("set 66 aa*8") // crosses the buffer limit somewhere here; the write stays in the buffer
		g.do("view")
		g.do("set 64 bb")
		g.do("view")
	}
	for _, b := range []int{17, 18, 19} {
		g.startCase("limits", fmt.Sprintf("reset max %d", b))
		g.do("set 6161 aa*7") // size 9
		g.do("set 6262 aa*7") // size 18
		g.do("size")
		g.do("staging")
		g.do("set 6363 aa")
		g.do("cleanup 1")
		g.do("upd 6464 4")
		g.do("view")
	}
}

// seqno: ART invalidation counters
func (g *gen) seqno() {
	g.startCase("seqno", "reset")
	g.do("set 61 aa")
	g.do("iterw 0 get 61")
	g.do("iterw 0 set 61 bb")
	g.do("iterw 1 del 61")
	g.do("iterw 0 upd 61 4")
	g.do("iterw 0 set 61 -")
	g.do("iterw 0 set 61*65536 aa")
	g.do("iterw 0 staging")
	g.do("iterw 0 set 62 aa")
	g.do("gsstale 61 set 62 bb")
	g.do("gsstale 61 staging")
	g.do("gsstale 61 release 2")
	g.do("gsstale 61 checkpoint")
	g.do("gsstale 61 set 61 cc")
	g.do("gsstale 61 revert 0")
	g.do("iterw 1 release 1")
	g.do("gsstale 61 set 61 dd")
	g.do("staging")
	g.do("gsstale 61 cleanup 1")
	g.do("iterw 0 cleanup 1")
	g.do("iterw 0 cleanup 0")
	g.do("release 3")
	g.do("staging")
	g.do("staging")
	g.do("release 1")
	g.do("cleanup 1")
	g.do("inspect 0")
	g.do("inspect 3")
	g.finish(0)
}

// blocks: directed family for the arena block arithmetic under the value log (first block 4 KiB, then doubling; every
// entry is value + 20-byte header).  Committed data fills the log close to a block boundary, a stage is opened, staged
// values spill into the next block(s), and exactly those keys are read through every snapshot path, the value history
// and the stage inspection — before and after nested stages, release, cleanup, checkpoint/revert.  The model knows
// nothing about blocks: it predicts the values, any address comparison that goes wrong across blocks shows up.
func (g *gen) blocks(variant int) {
	r := g.r
	g.startCase("blocks", "reset")
	key := func(i int) string { return fmt.Sprintf("62%02x", i) }
	val := func(n int) string { return fmt.Sprintf("%02x*%d", 0xa0+r.Intn(6), n) }
	probe := func(keys []int) {
		// the property op first: a snapshot that shows staged data is then reported as a concrete failing input
		g.do("snapchk")
		for _, i := range keys {
			k := key(i)
			g.do("sget " + k)
			g.do("gsget " + k)
			g.do("get " + k)
			g.do("hist " + k + " any")
			g.do("hist " + k + " never")
			g.do("hist " + k + " len 2")
		}
		g.do("siter - -")
		g.do("sriter - -")
		g.do("gsiter - - 0")
		g.do("gsiter - - 1")
		g.do("gsrange - - 0")
		if d := g.depth(); d > 0 {
			g.do("inspect " + strconv.Itoa(d))
			g.do("inspect 1")
		}
	}
	// 1. committed part: end of the log at `fill` bytes (boundaries at 4096, 4096+8192, …)
	boundary := []int{4096, 12288, 28672}[variant%3]
	if !g.run.Thorough() && variant%3 == 2 {
		boundary = 4096
	}
	slack := []int{0, 1, 21, 22, 40, 100, 300, 1000}[r.Intn(8)] // bytes left in the block when the stage is opened
	fill := boundary - slack
	if variant%3 > 0 {
		fill = boundary - 4096 - slack // the committed part ends well inside an earlier block for the higher boundaries
		if r.Bool() {
			fill = boundary - slack
		}
	}
	used := 0
	n := 0
	for used+22 <= fill && n < 40 {
		sz := 900 + r.Intn(200)
		if used+sz+20 > fill {
			sz = fill - used - 20
		}
		if sz < 1 {
			break
		}
		g.do("set " + key(n) + " " + val(sz))
		used += sz + 20
		n++
	}
	committed := n
	if r.Chance(30) {
		g.do("checkpoint")
	}
	g.do("staging")
	// 2. staged part: small and large values, new keys and overwrites (same length and different length) of committed keys
	var touched []int
	stagedBytes := 0
	want := slack + 200 + r.Intn(3000)
	if variant%3 > 0 && r.Bool() {
		want = slack + 5000 + r.Intn(6000)
	}
	for stagedBytes < want {
		i := r.Intn(committed + 6)
		sz := []int{1, 2, 2, 3, 30, 200, 1000}[r.Intn(7)]
		switch r.Intn(6) {
		case 0:
			g.do("del " + key(i))
			sz = 0
		default:
			g.do("set " + key(i) + " " + val(sz))
		}
		stagedBytes += sz + 20
		touched = append(touched, i)
		if len(touched)%4 == 0 {
			probe(touched[len(touched)-4:])
		}
	}
	probe(touched)
	// 3. nested stage / checkpoint on top, then unwind with probes after every step
	if r.Bool() {
		g.do("staging")
		for j := 0; j < 3+r.Intn(6); j++ {
			i := r.Intn(committed + 6)
			g.do("set " + key(i) + " " + val([]int{2, 2, 500, 2000}[r.Intn(4)]))
			touched = append(touched, i)
		}
		probe(touched)
		if r.Bool() {
			g.do("cleanup " + strconv.Itoa(g.depth()))
		} else {
			g.do("release " + strconv.Itoa(g.depth()))
		}
		probe(touched)
	}
	if r.Bool() {
		g.do("checkpoint")
		for j := 0; j < 4; j++ {
			i := r.Intn(committed + 6)
			g.do("set " + key(i) + " " + val([]int{2, 3, 700}[r.Intn(3)]))
			touched = append(touched, i)
		}
		probe(touched)
		if l := g.liveCps(); len(l) > 0 {
			g.do("revert " + strconv.Itoa(l[len(l)-1]))
		}
		probe(touched)
	}
	if d := g.depth(); d > 0 {
		if r.Bool() {
			g.do("cleanup " + strconv.Itoa(d))
		} else {
			g.do("release " + strconv.Itoa(d))
		}
	}
	probe(touched)
	// 4. a second stage on top of what is committed now
	g.do("staging")
	for j := 0; j < 6; j++ {
		i := r.Intn(committed + 6)
		g.do("set " + key(i) + " " + val([]int{2, 2, 40, 1500}[r.Intn(4)]))
		touched = append(touched, i)
	}
	probe(touched)
	g.finish(r.Intn(2))
}

// nodes: the inner-node container of the radix tree driven directly: insert distinct bytes in adversarial orders across the
// 4 / 16 / 48 / 256 boundaries, look every byte up (present and absent), replace children, list in both directions.
func (g *gen) nodes(variant int) {
	r := g.r
	g.startCase("nodes", "reset")
	g.do("nreset")
	n := []int{3, 4, 5, 15, 16, 17, 18, 47, 48, 49, 50, 100, 255, 256}[variant%14]
	// byte order: ascending, descending, interleaved, random
	perm := make([]int, 256)
	for i := range perm {
		perm[i] = i
	}
	switch (variant / 14) % 4 {
	case 1:
		for i := range perm {
			perm[i] = 255 - i
		}
	case 2:
		for i := range perm {
			perm[i] = (i * 37) % 256
		}
	case 3:
		for i := 255; i > 0; i-- {
			j := r.Intn(i + 1)
			perm[i], perm[j] = perm[j], perm[i]
		}
	}
	id := 1
	for i := 0; i < n; i++ {
		g.do(fmt.Sprintf("nadd %02x %d", perm[i], id))
		id++
		if i%7 == 3 || i == n-1 || i == 3 || i == 4 || i == 15 || i == 16 || i == 47 || i == 48 {
			g.do(fmt.Sprintf("nfind %02x", perm[r.Intn(i+1)]))
			g.do(fmt.Sprintf("nfind %02x", r.Intn(256)))
			g.do("nlist")
		}
		if r.Chance(10) {
			g.do(fmt.Sprintf("nrepl %02x %d", perm[r.Intn(i+1)], id))
			id++
		}
		if r.Chance(3) {
			g.do(fmt.Sprintf("nrepl %02x %d", r.Intn(256), id)) // mostly absent: the documented panic
			id++
		}
		if r.Chance(3) {
			g.do(fmt.Sprintf("nadd %02x %d", perm[r.Intn(i+1)], id)) // present: dup (not issued to addChild)
		}
	}
	for c := 0; c < 256; c += 1 + r.Intn(5) {
		g.do(fmt.Sprintf("nfind %02x", c))
	}
	g.do("nlist")
	g.do("nrlist")
}

// paths: the path logic of the radix tree under the structure differential (tdump after every write).  Shared prefixes of
// 0..40 bytes around the in-node bound of 20, keys that end inside a prefix, mismatches before / at / after byte 20 of a
// prefix, prefixes below prefixes, and fan-outs of all four node sizes on one path.
func (g *gen) paths(variant int) {
	r := g.r
	g.startCase("paths", "reset")
	L := []int{0, 1, 5, 18, 19, 20, 21, 22, 25, 40}[variant%10]
	P := make([]byte, L)
	for i := range P {
		P[i] = byte(0x40 + i%7)
	}
	var pool [][]byte
	add := func(k []byte) { pool = append(pool, append([]byte{}, k...)) }
	cat := func(parts ...[]byte) []byte {
		var o []byte
		for _, p := range parts {
			o = append(o, p...)
		}
		return o
	}
	add(cat(P, []byte{1}))
	add(cat(P, []byte{2}))
	add(P) // ends exactly at the node
	for _, j := range []int{0, 1, L / 2, 19, 20, 21, L - 1} {
		if j >= 0 && j < L {
			add(P[:j]) // ends inside the prefix
			q := append([]byte{}, P...)
			q[j] ^= 0x80 // mismatch inside the prefix
			add(q)
			add(cat(q, []byte{7}))
		}
	}
	// a second long prefix below the first
	Q := make([]byte, 18+r.Intn(8))
	for i := range Q {
		Q[i] = byte(0x60 + i%5)
	}
	add(cat(P, []byte{3}, Q, []byte{1}))
	add(cat(P, []byte{3}, Q, []byte{2}))
	add(cat(P, []byte{3}, Q))
	add(cat(P, []byte{3}, Q[:len(Q)-2], []byte{0xee, 0xee, 5}))
	// fan-out under P: node sizes 4 / 16 / 48 / 256 on the same path
	fan := []int{0, 6, 18, 50, 257}[(variant/10)%5]
	for i := 0; i < fan && i < 256; i++ {
		add(cat(P, []byte{byte((i * 5) % 256)}))
		if i%9 == 0 {
			add(cat(P, []byte{byte((i * 5) % 256), 0}))
		}
	}
	if r.Bool() {
		add([]byte{})
	}
	// random order
	for i := len(pool) - 1; i > 0; i-- {
		j := r.Intn(i + 1)
		pool[i], pool[j] = pool[j], pool[i]
	}
	probe := func(k []byte) {
		g.do("tsearch " + vx.Hex(k))
		if len(k) > 0 {
			q := append([]byte{}, k...)
			q[len(q)-1] ^= 1
			g.do("tsearch " + vx.Hex(q))
			g.do("tsearch " + vx.Hex(k[:len(k)-1]))
		}
		if len(k) > 21 {
			q := append([]byte{}, k...)
			q[21] ^= 2 // differs only beyond the in-node prefix bytes
			g.do("tsearch " + vx.Hex(q))
		}
		g.do("tsearch " + vx.Hex(append(append([]byte{}, k...), 0)))
	}
	for i, k := range pool {
		switch r.Intn(5) {
		case 0:
			g.do("upd " + vx.Hex(k) + " 4")
		case 1:
			g.do("del " + vx.Hex(k))
		default:
			g.do("set " + vx.Hex(k) + " aa")
		}
		if fan <= 18 || i%16 == 0 || i == len(pool)-1 {
			g.do("tdump")
			g.do("rbtchk")
		}
		if i%3 == 0 {
			probe(pool[r.Intn(i+1)])
		}
	}
	g.do("tdump")
	g.do("rbtchk")
	g.do("rbtkeys")
	g.do("tkeys 0")
	g.do("tkeys 1")
	g.do("iterf - -")
	for _, k := range pool {
		g.do("tsearch " + vx.Hex(k))
	}
}

// batched: the batched snapshot iterator over LARGE snapshots (100..400 keys) of mixed lengths built from prefix chains
// (k, k00, k0, k1, ka, kaz, … : proper prefixes right before their extensions, short keys right after long ones), so that
// the batch boundaries (32, 96, 224, …) fall on short keys whose resume key lastKey+0x00 reuses a buffer that held a longer
// one.  Forward and reverse, unbounded and with many lower / upper bounds (every bound shifts the boundaries), against the
// model (gsiter) and against the unbatched iterators of the same snapshot (gschk); staged writes on top must stay invisible.
func (g *gen) batched(variant int) {
	r := g.r
	g.startCase("batched", "reset")
	want := []int{100, 130, 200, 260, 400}[variant%5]
	alpha := []byte{0x00, 0x01, 0x30, 0x31, 0x39, 0x61, 0x7a, 0xff}
	seen := map[string]bool{}
	var keys [][]byte
	add := func(k []byte) {
		if !seen[string(k)] && len(keys) < want {
			seen[string(k)] = true
			keys = append(keys, append([]byte{}, k...))
		}
	}
	for len(keys) < want {
		k := []byte{byte(0x61 + r.Intn(6))}
		n := r.Intn(6)
		for i := 0; i < n; i++ {
			k = append(k, alpha[r.Intn(len(alpha))])
		}
		add(k)
		// the chain of its prefixes, and small extensions of them
		for j := 1; j < len(k); j++ {
			if r.Chance(60) {
				add(k[:j])
			}
			if r.Chance(30) {
				add(append(append([]byte{}, k[:j]...), alpha[r.Intn(3)]))
			}
		}
	}
	for _, k := range keys {
		g.do("set " + vx.Hex(k) + " " + []string{"aa", "bbbb", "cc"}[r.Intn(3)])
	}
	if r.Chance(70) {
		g.do("staging")
		for i := 0; i < 20; i++ {
			k := keys[r.Intn(len(keys))]
			switch r.Intn(3) {
			case 0:
				g.do("set " + vx.Hex(k) + " dddd")
			case 1:
				g.do("del " + vx.Hex(k))
			default:
				g.do("set " + vx.Hex(append(append([]byte{}, k...), 0x00)) + " ee") // staged only: between k and its successors
			}
		}
	}
	g.do("gschk - - 0")
	g.do("gschk - - 1")
	g.do("gsiter - - 0")
	g.do("gsiter - - 1")
	g.do("snapchk")
	pick := func() string { return vx.Hex(keys[r.Intn(len(keys))]) }
	for i := 0; i < 10; i++ {
		lo, hi := pick(), "-"
		if r.Chance(40) {
			hi = pick()
		}
		g.do("gschk " + lo + " " + hi + " 0")
		if i < 3 {
			g.do("gsiter " + lo + " " + hi + " 0")
		}
	}
	for i := 0; i < 5; i++ {
		lo, hi := "-", pick()
		if r.Chance(40) {
			lo = pick()
		}
		g.do("gschk " + lo + " " + hi + " 1")
		if i < 2 {
			g.do("gsiter " + lo + " " + hi + " 1")
		}
	}
	g.finish(r.Intn(2))
}

func generate(run *vx.Run, wd *world) {
	g := &gen{run: run, wd: wd, r: vx.NewRand(run.Seed)}
	pool := exhaustivePool()
	g.seqno()
	g.limits()
	nb := 30
	if run.Thorough() {
		nb = 300
	}
	for i := 0; i < nb; i++ {
		g.blocks(i)
	}
	nbi := 30
	if run.Thorough() {
		nbi = 300
	}
	for i := 0; i < nbi; i++ {
		g.batched(i)
	}
	np := 50
	if run.Thorough() {
		np = 500
	}
	for i := 0; i < np; i++ {
		g.paths(i)
	}
	nn := 56
	if run.Thorough() {
		nn = 560
	}
	for i := 0; i < nn; i++ {
		g.nodes(i)
	}
	if run.Thorough() {
		g.exhaustive(pool, 1, "exh1")
		g.exhaustive(pool, 2, "exh2")
		g.exhaustive(pool, 3, "exh3")
		g.exhaustive(pool[:3], 4, "exh4-3keys")
		g.exhaustive(pool, 4, "exh4")
		for i := 0; i < 1500; i++ {
			g.random(60, i%3 != 0)
		}
		for i := 0; i < 60; i++ {
			g.random(2000, i%3 != 0)
		}
	} else {
		g.exhaustive(pool, 1, "exh1")
		g.exhaustive(pool, 2, "exh2")
		g.exhaustive(pool[:2], 4, "exh4-2keys")
		g.exhaustive(pool[:3], 3, "exh3-3keys")
		for i := 0; i < 400; i++ {
			g.random(60, i%3 != 0)
		}
	}
}
