//go:build verif

// C08 harness: runs every op line on the ART buffer AND on the RBT buffer of /repo/internal/unionstore; the result
// line is `art=<r> rbt=<r>`, collapsed to `<r>` when both agree.  The Lean driver cgv-c08 runs the same lines on the model.
package main

import (
	"bytes"
	"context"
	"fmt"
	"sort"
	"strconv"
	"strings"

	"github.com/pingcap/log"
	tikverr "github.com/tikv/client-go/v2/error"
	"github.com/tikv/client-go/v2/internal/unionstore"
	"github.com/tikv/client-go/v2/internal/unionstore/arena"
	artpkg "github.com/tikv/client-go/v2/internal/unionstore/art"
	"github.com/tikv/client-go/v2/kv"
	"github.com/tikv/client-go/v2/verifx/vx"
	"go.uber.org/zap"
)

// ---------------------------------------------------------------- tokens

func parseBytesTok(s string) ([]byte, bool) {
	if i := strings.IndexByte(s, '*'); i >= 0 {
		pat, ok := vx.UnHex(s[:i])
		n, err := strconv.Atoi(s[i+1:])
		if !ok || err != nil || n < 0 {
			return nil, false
		}
		return bytes.Repeat(pat, n), true
	}
	return vx.UnHex(s)
}

func showVal(b []byte) string {
	if len(b) <= 32 {
		return vx.Hex(b)
	}
	sum := 0
	for _, c := range b {
		sum = (sum + int(c)) % 65521
	}
	return fmt.Sprintf("%s~%d~%d", vx.Hex(b[:4]), len(b), sum)
}

type item struct {
	key   []byte
	flags uint16
	val   []byte
	has   bool
}

func (i item) show(withFlags bool) string {
	v := "~"
	if i.has {
		v = showVal(i.val)
	}
	if withFlags {
		return fmt.Sprintf("%s=%s/%d", showVal(i.key), v, i.flags)
	}
	return showVal(i.key) + "=" + v
}

func showItems(withFlags bool, l []item) string {
	var sb strings.Builder
	sb.WriteString(strconv.Itoa(len(l)))
	sb.WriteByte(':')
	for _, i := range l {
		sb.WriteByte(' ')
		sb.WriteString(i.show(withFlags))
	}
	return sb.String()
}

func (i item) eq(o item) bool {
	return bytes.Equal(i.key, o.key) && i.flags == o.flags && i.has == o.has && bytes.Equal(i.val, o.val)
}

// ---------------------------------------------------------------- one tree

type fIter interface {
	Valid() bool
	Key() []byte
	Value() []byte
	Next() error
	Flags() kv.KeyFlags
	HasValue() bool
	Handle() arena.MemKeyHandle
}

type view struct {
	items []item
	len   int
	size  int
}

type cpRec struct {
	cp *unionstore.MemDBCheckpoint
	ok bool
	v  view
}

type tree struct {
	name       string
	mb         unionstore.MemBuffer
	iwf        func(lo, hi []byte) fIter
	riwf       func(hi []byte) fIter
	hist       func(k []byte, p func([]byte) bool) ([]byte, error)
	keyByH     func(h arena.MemKeyHandle) []byte
	valByH     func(h arena.MemKeyHandle) ([]byte, bool)
	hasSeq     bool
	dump       func() string                 // ART only: canonical structure dump of the tree
	tsearch    func(k []byte) bool           // ART only: search without the cache
	tkeys      func(rev bool) [][]byte       // ART only: all leaves in iterator order
	rbtCheck   func() (string, [][]byte)     // RBT only: red-black invariants on the real tree + in-order keys
	pos        func() *unionstore.MemDBCheckpoint // end of the value log, no side effect (Checkpoint() remembers what it hands out)
	stageCps   []*unionstore.MemDBCheckpoint
	stageViews []view
	cps        []cpRec
	snapBase   []item
	keys       map[string]bool
}

func newTree(name string, entry, buf uint64) *tree {
	t := &tree{name: name, keys: map[string]bool{}}
	if name == "art" {
		db := unionstore.VerifNewART(entry, buf)
		t.mb = db
		t.iwf = func(lo, hi []byte) fIter { return db.IterWithFlags(lo, hi) }
		t.riwf = func(hi []byte) fIter { return db.IterReverseWithFlags(hi) }
		t.hist = db.SelectValueHistory
		t.keyByH = db.GetKeyByHandle
		t.valByH = db.GetValueByHandle
		t.pos = db.VerifPosition
		t.dump = db.VerifDump
		t.tsearch = db.VerifSearch
		t.tkeys = db.VerifKeys
		t.hasSeq = true
	} else {
		db := unionstore.VerifNewRBT(entry, buf)
		t.mb = db
		t.iwf = func(lo, hi []byte) fIter { return db.IterWithFlags(lo, hi) }
		t.riwf = func(hi []byte) fIter { return db.IterReverseWithFlags(hi) }
		t.hist = db.SelectValueHistory
		t.keyByH = db.GetKeyByHandle
		t.valByH = db.GetValueByHandle
		t.pos = db.VerifPosition
		t.rbtCheck = db.VerifCheck
	}
	return t
}

func classifyPanic(e any) string {
	s := fmt.Sprint(e)
	switch {
	case strings.Contains(s, "seqNo mismatch"):
		return "panic:iter-invalidated"
	case strings.Contains(s, "cannot release staging buffer"), strings.Contains(s, "cannot cleanup staging buffer"):
		return "refused"
	case strings.Contains(s, "index out of range"):
		return "panic:index"
	case strings.Contains(s, "nil pointer"):
		return "panic:nil"
	}
	return "panic:other"
}

func guard(f func() string) (out string) {
	defer func() {
		if e := recover(); e != nil {
			out = classifyPanic(e)
		}
	}()
	return f()
}

func errStr(err error) string {
	switch err.(type) {
	case *tikverr.ErrKeyTooLarge:
		return "err:key-too-large"
	case *tikverr.ErrEntryTooLarge:
		return "err:entry-too-large"
	case *tikverr.ErrTxnTooLarge:
		return "err:txn-too-large"
	}
	if err == tikverr.ErrCannotSetNilValue {
		return "err:nil-value"
	}
	if tikverr.IsErrNotFound(err) {
		return "notfound"
	}
	if strings.Contains(err.Error(), "snapshotSeqNo changed") {
		return "err:stale-snapshot"
	}
	return "err:other"
}

func (t *tree) drain(it fIter, checkHandles bool) ([]item, string) {
	var out []item
	for it.Valid() {
		i := item{key: append([]byte{}, it.Key()...), flags: uint16(it.Flags()), has: it.HasValue()}
		if i.has {
			i.val = append([]byte{}, it.Value()...)
		}
		if checkHandles {
			h := it.Handle()
			if !bytes.Equal(t.keyByH(h), i.key) {
				return out, "FAIL handle-key " + showVal(i.key)
			}
			v, ok := t.valByH(h)
			if ok != i.has || (ok && !bytes.Equal(v, i.val)) {
				return out, "FAIL handle-value " + showVal(i.key)
			}
		}
		out = append(out, i)
		if err := it.Next(); err != nil {
			return out, "err:iter-next"
		}
		if len(out) > 100000 {
			return out, "FAIL iterator-does-not-end"
		}
	}
	return out, ""
}

func drainPlain(it unionstore.Iterator) ([]item, string) {
	var out []item
	for it.Valid() {
		out = append(out, item{key: append([]byte{}, it.Key()...), val: append([]byte{}, it.Value()...), has: true})
		if err := it.Next(); err != nil {
			return out, errStr(err)
		}
		if len(out) > 100000 {
			return out, "FAIL iterator-does-not-end"
		}
	}
	it.Close()
	return out, ""
}

func (t *tree) view() view {
	items, _ := t.drain(t.iwf(nil, nil), false)
	return view{items: items, len: t.mb.Len(), size: t.mb.Size()}
}

func (t *tree) values() []item {
	it, _ := t.mb.Iter(nil, nil)
	items, _ := t.drain(it.(fIter), false)
	for i := range items {
		items[i].flags = 0
	}
	return items
}

func bnd(b []byte) []byte {
	if len(b) == 0 {
		return nil // "-" as a bound is the nil (unbounded) bound
	}
	return b
}

func parseFlagOps(w []string) ([]kv.FlagsOp, bool) {
	var ops []kv.FlagsOp
	for _, s := range w {
		n, err := strconv.ParseUint(s, 10, 32)
		if err != nil {
			return nil, false
		}
		ops = append(ops, kv.FlagsOp(n))
	}
	return ops, true
}

func setRes(err error) string {
	if err != nil {
		return errStr(err)
	}
	return "ok"
}

// expectedAfterUndo: the undo oracle (same as Driver/C08.lean): values as recorded, flags not rolled back, a key that
// loses its only values keeps its persistent flags or disappears.
func undoVerdict(what string, before, cur, after view) string {
	find := func(l []item, k []byte) (item, bool) {
		for _, i := range l {
			if bytes.Equal(i.key, k) {
				return i, true
			}
		}
		return item{}, false
	}
	for _, b := range before.items {
		if b.has {
			if _, ok := find(cur.items, b.key); !ok {
				return "FAIL " + what + " lost-key " + showVal(b.key)
			}
		}
	}
	var exp []item
	for _, c := range cur.items {
		b, ok := find(before.items, c.key)
		switch {
		case ok && b.has:
			exp = append(exp, item{key: c.key, flags: c.flags, val: b.val, has: true})
		case c.has:
			kept := uint16(kv.KeyFlags(c.flags).AndPersistent())
			if kept != 0 {
				exp = append(exp, item{key: c.key, flags: kept})
			}
		default:
			exp = append(exp, c)
		}
	}
	n := len(exp)
	if len(after.items) < n {
		n = len(after.items)
	}
	for i := 0; i < n; i++ {
		if !exp[i].eq(after.items[i]) {
			return fmt.Sprintf("FAIL %s want %s got %s", what, exp[i].show(true), after.items[i].show(true))
		}
	}
	if len(exp) != len(after.items) {
		return fmt.Sprintf("FAIL %s keys want %d got %d", what, len(exp), len(after.items))
	}
	if after.len != len(exp) {
		return fmt.Sprintf("FAIL %s len want %d got %d", what, len(exp), after.len)
	}
	size := 0
	for _, i := range exp {
		size += len(i.key) + len(i.val)
	}
	if after.size != size {
		return fmt.Sprintf("FAIL %s size want %d got %d", what, size, after.size)
	}
	return "ok"
}

func (t *tree) prune() {
	cur := t.pos()
	for i := range t.cps {
		if t.cps[i].ok && cur.LessThan(t.cps[i].cp) {
			t.cps[i].ok = false
		}
	}
}

func sameKV(a, b []item) bool {
	if len(a) != len(b) {
		return false
	}
	for i := range a {
		if !bytes.Equal(a[i].key, b[i].key) || !bytes.Equal(a[i].val, b[i].val) {
			return false
		}
	}
	return true
}

func (t *tree) snapVerdict() string {
	ctx := context.Background()
	base := t.snapBase
	if len(t.stageCps) == 0 {
		base = t.values()
	}
	keys := make([]string, 0, len(t.keys))
	for k := range t.keys {
		keys = append(keys, k)
	}
	sort.Strings(keys)
	getter := t.mb.SnapshotGetter()
	gs := t.mb.GetSnapshot()
	for _, ks := range keys {
		k := []byte(ks)
		var want []byte
		has := false
		for _, b := range base {
			if bytes.Equal(b.key, k) {
				want, has = b.val, true
			}
		}
		for _, g := range []kv.Getter{getter, gs} {
			e, err := g.Get(ctx, k)
			if err != nil && !tikverr.IsErrNotFound(err) {
				return "FAIL snapshot-get-error " + showVal(k)
			}
			if (err == nil) != has || (has && !bytes.Equal(e.Value, want)) {
				return "FAIL snapshot-get " + showVal(k)
			}
		}
	}
	l1, e1 := drainPlain(t.mb.SnapshotIter(nil, nil))
	if e1 != "" || !sameKV(l1, base) {
		return "FAIL snapshot-iter"
	}
	l2, e2 := drainPlain(gs.BatchedSnapshotIter(nil, nil, false))
	if e2 != "" || !sameKV(l2, base) {
		return "FAIL snapshot-batched-iter"
	}
	var l3 []item
	err := gs.ForEachInSnapshotRange(nil, nil, func(k, v []byte) (bool, error) {
		l3 = append(l3, item{key: append([]byte{}, k...), val: append([]byte{}, v...), has: true})
		return false, nil
	}, false)
	if err != nil || !sameKV(l3, base) {
		return "FAIL snapshot-range"
	}
	return "ok"
}

func reverse(l []item) []item {
	out := make([]item, len(l))
	for i := range l {
		out[len(l)-1-i] = l[i]
	}
	return out
}

// exec runs one op line on this tree.
func (t *tree) exec(w []string) string {
	return guard(func() string {
		ctx := context.Background()
		bt := func(i int) ([]byte, bool) {
			if i >= len(w) {
				return nil, false
			}
			return parseBytesTok(w[i])
		}
		switch w[0] {
		case "set", "del", "upd":
			k, ok := bt(1)
			if !ok {
				return "bad-op"
			}
			rest := 2
			var v []byte
			if w[0] == "set" {
				var ok2 bool
				v, ok2 = bt(2)
				if !ok2 {
					return "bad-op"
				}
				rest = 3
			}
			ops, ok := parseFlagOps(w[rest:])
			if !ok {
				return "bad-op"
			}
			t.keys[string(k)] = true
			switch w[0] {
			case "set":
				if len(ops) == 0 {
					return setRes(t.mb.Set(k, v))
				}
				return setRes(t.mb.SetWithFlags(k, v, ops...))
			case "del":
				if len(ops) == 0 {
					return setRes(t.mb.Delete(k))
				}
				return setRes(t.mb.DeleteWithFlags(k, ops...))
			default:
				t.mb.UpdateFlags(k, ops...)
				return "ok"
			}
		case "get", "getf", "sget", "gsget":
			k, ok := bt(1)
			if !ok || len(w) != 2 {
				return "bad-op"
			}
			switch w[0] {
			case "get":
				e, err := t.mb.Get(ctx, k)
				if err != nil {
					return errStr(err)
				}
				l, err2 := t.mb.GetLocal(ctx, k)
				if err2 != nil || !bytes.Equal(l, e.Value) {
					return "FAIL get-vs-getlocal"
				}
				return "v:" + showVal(e.Value)
			case "getf":
				f, err := t.mb.GetFlags(k)
				if err != nil {
					return errStr(err)
				}
				return fmt.Sprintf("f:%d", uint16(f))
			case "sget":
				e, err := t.mb.SnapshotGetter().Get(ctx, k)
				if err != nil {
					return errStr(err)
				}
				return "v:" + showVal(e.Value)
			default:
				e, err := t.mb.GetSnapshot().Get(ctx, k)
				if err != nil {
					return errStr(err)
				}
				return "v:" + showVal(e.Value)
			}
		case "iter", "riter", "iterf", "siter", "sriter":
			if len(w) != 3 {
				return "bad-op"
			}
			a, ok1 := bt(1)
			b, ok2 := bt(2)
			if !ok1 || !ok2 {
				return "bad-op"
			}
			a, b = bnd(a), bnd(b)
			switch w[0] {
			case "iter", "riter":
				var it unionstore.Iterator
				var err error
				if w[0] == "iter" {
					it, err = t.mb.Iter(a, b)
				} else {
					it, err = t.mb.IterReverse(a, b)
				}
				if err != nil {
					return "err:iter"
				}
				l, e := t.drain(it.(fIter), true)
				if e != "" {
					return e
				}
				return showItems(true, l)
			case "iterf":
				l, e := t.drain(t.iwf(a, b), true)
				if e != "" {
					return e
				}
				return showItems(true, l)
			case "siter":
				l, e := drainPlain(t.mb.SnapshotIter(a, b))
				if e != "" {
					return e
				}
				return showItems(false, l)
			default:
				l, e := drainPlain(t.mb.SnapshotIterReverse(a, b))
				if e != "" {
					return e
				}
				return showItems(false, l)
			}
		case "riterf":
			a, ok := bt(1)
			if !ok || len(w) != 2 {
				return "bad-op"
			}
			l, e := t.drain(t.riwf(bnd(a)), true)
			if e != "" {
				return e
			}
			return showItems(true, l)
		case "gsiter", "gsrange":
			if len(w) != 4 {
				return "bad-op"
			}
			lo, ok1 := bt(1)
			hi, ok2 := bt(2)
			if !ok1 || !ok2 {
				return "bad-op"
			}
			rev := w[3] == "1"
			gs := t.mb.GetSnapshot()
			if w[0] == "gsiter" {
				l, e := drainPlain(gs.BatchedSnapshotIter(bnd(lo), bnd(hi), rev))
				if e != "" {
					return e
				}
				return showItems(false, l)
			}
			var l []item
			err := gs.ForEachInSnapshotRange(bnd(lo), bnd(hi), func(k, v []byte) (bool, error) {
				l = append(l, item{key: append([]byte{}, k...), val: append([]byte{}, v...), has: true})
				return false, nil
			}, rev)
			if err != nil {
				return errStr(err)
			}
			return showItems(false, l)
		case "gschk":
			// property op: the batched snapshot iterator yields every key of the range exactly once, in order — the same
			// sequence as the unbatched SnapshotIter and as ForEachInSnapshotRange over the same snapshot
			if len(w) != 4 {
				return "bad-op"
			}
			lo, ok1 := bt(1)
			hi, ok2 := bt(2)
			if !ok1 || !ok2 {
				return "bad-op"
			}
			lo, hi = bnd(lo), bnd(hi)
			rev := w[3] == "1"
			gs := t.mb.GetSnapshot()
			batched, e := drainPlain(gs.BatchedSnapshotIter(lo, hi, rev))
			if e != "" {
				return "FAIL batched-iter " + e
			}
			var plain []item
			if rev {
				plain, e = drainPlain(t.mb.SnapshotIterReverse(hi, lo))
			} else {
				plain, e = drainPlain(t.mb.SnapshotIter(lo, hi))
			}
			if e != "" {
				return "FAIL snapshot-iter " + e
			}
			var ranged []item
			if err := gs.ForEachInSnapshotRange(lo, hi, func(k, v []byte) (bool, error) {
				ranged = append(ranged, item{key: append([]byte{}, k...), val: append([]byte{}, v...), has: true})
				return false, nil
			}, rev); err != nil {
				return "FAIL snapshot-range-error"
			}
			for i := 1; i < len(plain); i++ {
				c := bytes.Compare(plain[i-1].key, plain[i].key)
				if (!rev && c >= 0) || (rev && c <= 0) {
					return "FAIL snapshot-iter-order " + showVal(plain[i].key)
				}
			}
			cmp := func(what string, a []item) string {
				n := len(a)
				if len(plain) < n {
					n = len(plain)
				}
				for i := 0; i < n; i++ {
					if !bytes.Equal(a[i].key, plain[i].key) || !bytes.Equal(a[i].val, plain[i].val) {
						return fmt.Sprintf("FAIL %s #%d got %s want %s", what, i, showVal(a[i].key), showVal(plain[i].key))
					}
				}
				if len(a) != len(plain) {
					return fmt.Sprintf("FAIL %s count got %d want %d", what, len(a), len(plain))
				}
				return ""
			}
			if r := cmp("batched-vs-snapshot-iter", batched); r != "" {
				return r
			}
			if r := cmp("range-vs-snapshot-iter", ranged); r != "" {
				return r
			}
			return "ok"
		case "len":
			return strconv.Itoa(t.mb.Len())
		case "size":
			return strconv.Itoa(t.mb.Size())
		case "dirty":
			return strconv.FormatBool(t.mb.Dirty())
		case "staging":
			v := t.view()
			if len(t.stageCps) == 0 {
				t.snapBase = t.values()
			}
			t.stageCps = append(t.stageCps, t.pos())
			t.stageViews = append(t.stageViews, v)
			return strconv.Itoa(t.mb.Staging())
		case "release", "cleanup":
			if len(w) != 2 {
				return "bad-op"
			}
			h, err := strconv.Atoi(w[1])
			if err != nil || h < 0 {
				return "bad-op"
			}
			if w[0] == "release" {
				t.mb.Release(h) // panics (-> refused) unless h == 0 or h == depth
				if h != 0 {
					t.stageCps = t.stageCps[:h-1]
					t.stageViews = t.stageViews[:h-1]
				}
				return "ok"
			}
			cur := t.view()
			t.mb.Cleanup(h)
			if h == 0 || h > len(t.stageCps) {
				return "ok"
			}
			before := t.stageViews[h-1]
			t.stageCps = t.stageCps[:h-1]
			t.stageViews = t.stageViews[:h-1]
			t.prune()
			return undoVerdict("cleanup", before, cur, t.view())
		case "checkpoint":
			t.cps = append(t.cps, cpRec{cp: t.mb.Checkpoint(), ok: true, v: t.view()})
			return fmt.Sprintf("cp %d", len(t.cps)-1)
		case "revert":
			if len(w) != 2 {
				return "bad-op"
			}
			i, err := strconv.Atoi(w[1])
			if err != nil {
				return "bad-op"
			}
			if i < 0 || i >= len(t.cps) || !t.cps[i].ok {
				return "bad-cp"
			}
			// precondition of the harness: only checkpoints inside the current stage (others make the walk read garbage)
			if n := len(t.stageCps); n > 0 && t.cps[i].cp.LessThan(t.stageCps[n-1]) {
				return "bad-cp"
			}
			cur := t.view()
			t.mb.RevertToCheckpoint(t.cps[i].cp)
			t.prune()
			return undoVerdict("revert", t.cps[i].v, cur, t.view())
		case "inspect":
			if len(w) != 2 {
				return "bad-op"
			}
			h, err := strconv.Atoi(w[1])
			if err != nil || h <= 0 || h > len(t.stageCps) {
				return "refused"
			}
			var l []item
			t.mb.InspectStage(h, func(k []byte, f kv.KeyFlags, v []byte) {
				l = append(l, item{key: append([]byte{}, k...), flags: uint16(f), val: append([]byte{}, v...), has: true})
			})
			return showItems(true, l)
		case "hist":
			k, ok := bt(1)
			if !ok || len(w) < 3 {
				return "bad-op"
			}
			var p func([]byte) bool
			switch {
			case w[2] == "any" && len(w) == 3:
				p = func([]byte) bool { return true }
			case w[2] == "never" && len(w) == 3:
				p = func([]byte) bool { return false }
			case w[2] == "len" && len(w) == 4:
				n, err := strconv.Atoi(w[3])
				if err != nil {
					return "bad-op"
				}
				p = func(v []byte) bool { return len(v) == n }
			case w[2] == "ne" && len(w) == 4:
				x, ok := bt(3)
				if !ok {
					return "bad-op"
				}
				p = func(v []byte) bool { return !bytes.Equal(v, x) }
			default:
				return "bad-op"
			}
			v, err := t.hist(k, p)
			if err != nil {
				return errStr(err)
			}
			if v == nil {
				return "nomatch"
			}
			return "v:" + showVal(v)
		case "view":
			v := t.view()
			return fmt.Sprintf("%s len=%d size=%d dirty=%v stages=%d", showItems(true, v.items), v.len, v.size, t.mb.Dirty(), len(t.stageCps))
		case "snapchk":
			return t.snapVerdict()
		}
		return "bad-op"
	})
}

// ---------------------------------------------------------------- both trees

type world struct {
	art, rbt *tree
	node     *artpkg.VerifNode // one inner node of the radix tree, driven directly (n* ops)
}

func newWorld(entry, buf uint64) *world {
	return &world{art: newTree("art", entry, buf), rbt: newTree("rbt", entry, buf), node: artpkg.VerifNewNode()}
}

func collapse(a, r string) string {
	if a == r {
		return a
	}
	return "art=" + a + " rbt=" + r
}

func parseLimit(s string) (uint64, bool) {
	if s == "max" {
		return ^uint64(0), true
	}
	n, err := strconv.ParseUint(s, 10, 64)
	return n, err == nil
}

// nodeOp: the node-container ops (ART only; the red-black tree has no such layer)
func (wd *world) nodeOp(w []string) string {
	byteArg := func(i int) (byte, bool) {
		if i >= len(w) {
			return 0, false
		}
		b, ok := vx.UnHex(w[i])
		if !ok || len(b) != 1 {
			return 0, false
		}
		return b[0], true
	}
	idArg := func(i int) (uint16, bool) {
		if i >= len(w) {
			return 0, false
		}
		n, err := strconv.ParseUint(w[i], 10, 16)
		return uint16(n), err == nil
	}
	switch w[0] {
	case "nreset":
		wd.node = artpkg.VerifNewNode()
		return "ok"
	case "nadd":
		c, ok1 := byteArg(1)
		id, ok2 := idArg(2)
		if !ok1 || !ok2 {
			return "bad-op"
		}
		if _, found := wd.node.Find(c); found {
			return "dup" // addChild requires an absent byte
		}
		wd.node.Add(c, id)
		return fmt.Sprintf("kind=%d num=%d", wd.node.Kind(), wd.node.Num())
	case "nfind":
		c, ok := byteArg(1)
		if !ok {
			return "bad-op"
		}
		if id, found := wd.node.Find(c); found {
			return strconv.Itoa(id)
		}
		return "none"
	case "nrepl":
		c, ok1 := byteArg(1)
		id, ok2 := idArg(2)
		if !ok1 || !ok2 {
			return "bad-op"
		}
		out := "ok"
		func() {
			defer func() {
				if e := recover(); e != nil {
					if strings.Contains(fmt.Sprint(e), "replace child failed") {
						out = "refused"
					} else {
						panic(e)
					}
				}
			}()
			wd.node.Replace(c, id)
		}()
		return out
	case "nlist", "nrlist":
		ids := wd.node.Children(w[0] == "nrlist")
		var sb strings.Builder
		sb.WriteString(strconv.Itoa(len(ids)) + ":")
		for _, id := range ids {
			sb.WriteString(" " + strconv.Itoa(id))
		}
		return sb.String()
	}
	return "bad-op"
}

func (wd *world) exec(line string) string {
	w := strings.Fields(line)
	if len(w) == 0 {
		return "bad-op"
	}
	switch w[0] {
	case "reset":
		e, b := ^uint64(0), ^uint64(0)
		if len(w) == 3 {
			var ok1, ok2 bool
			e, ok1 = parseLimit(w[1])
			b, ok2 = parseLimit(w[2])
			if !ok1 || !ok2 {
				return "bad-op"
			}
		} else if len(w) != 1 {
			return "bad-op"
		}
		*wd = *newWorld(e, b)
		return "ok"
	case "rbtchk":
		// property op: the red-black invariants checked on the real RBT (no model of the rotations exists)
		return guard(func() string {
			bad, _ := wd.rbt.rbtCheck()
			if bad != "" {
				return "FAIL rbt-" + bad
			}
			return "ok"
		})
	case "rbtkeys":
		return guard(func() string {
			_, ks := wd.rbt.rbtCheck()
			var sb strings.Builder
			sb.WriteString(strconv.Itoa(len(ks)) + ":")
			for _, k := range ks {
				sb.WriteString(" " + showVal(k))
			}
			return sb.String()
		})
	case "tdump":
		return guard(func() string { return wd.art.dump() })
	case "tsearch":
		if len(w) != 2 {
			return "bad-op"
		}
		k, ok := parseBytesTok(w[1])
		if !ok {
			return "bad-op"
		}
		return guard(func() string {
			if wd.art.tsearch(k) {
				return "found"
			}
			return "none"
		})
	case "tkeys":
		if len(w) != 2 {
			return "bad-op"
		}
		return guard(func() string {
			ks := wd.art.tkeys(w[1] == "1")
			var sb strings.Builder
			sb.WriteString(strconv.Itoa(len(ks)) + ":")
			for _, k := range ks {
				sb.WriteString(" " + showVal(k))
			}
			return sb.String()
		})
	case "nreset", "nadd", "nfind", "nrepl", "nlist", "nrlist":
		return guard(func() string { return wd.nodeOp(w) })
	case "iterw":
		// iterator created, then the nested op, then the iterator is used (ART only: RBT keeps no sequence numbers)
		if len(w) < 3 {
			return "bad-op"
		}
		var it unionstore.Iterator
		if w[1] == "1" {
			it, _ = wd.art.mb.IterReverse(nil, nil)
		} else {
			it, _ = wd.art.mb.Iter(nil, nil)
		}
		nested := wd.exec(strings.Join(w[2:], " "))
		obs := guard(func() string {
			it.Valid()
			return "valid"
		})
		if strings.HasPrefix(obs, "panic:iter-invalidated") {
			obs = "caught " + obs
		}
		return nested + " | " + obs
	case "gsstale":
		if len(w) < 3 {
			return "bad-op"
		}
		k, ok := parseBytesTok(w[1])
		if !ok {
			return "bad-op"
		}
		gs := wd.art.mb.GetSnapshot()
		nested := wd.exec(strings.Join(w[2:], " "))
		obs := guard(func() string {
			e, err := gs.Get(context.Background(), k)
			if err != nil {
				return errStr(err)
			}
			return "v:" + showVal(e.Value)
		})
		return nested + " | " + obs
	}
	return collapse(wd.art.exec(w), wd.rbt.exec(w))
}

func main() {
	run := vx.Start()
	defer run.Finish()
	// GetSnapshot without a stage logs an error on every call; Panic-level entries still panic with a no-op logger
	log.ReplaceGlobals(zap.NewNop(), &log.ZapProperties{})
	wd := newWorld(^uint64(0), ^uint64(0))
	if run.Replay != "" {
		for _, l := range run.ReplayLines() {
			if strings.HasPrefix(l, "#") {
				run.Comment(strings.TrimSpace(l[1:]))
				continue
			}
			run.Emit(l, wd.exec(l))
		}
		return
	}
	generate(run, wd)
}
